#!/bin/sh
# Build the framework from files on disk only (offline): Lean library + native model driver,
# Go harness against /repo with the verif hooks.
set -e
cd "$(dirname "$0")"
export GOFLAGS=-mod=mod GOPROXY=off GOSUMDB=off GOTOOLCHAIN=local
python3 tools/gendriver.py
if [ -d tools/factgen ]; then (cd tools/factgen && go1.26 run . -repo /repo -out ../../lean/Vgi/Generated); fi
(cd lean && lake build Vgi vgidriver)
mkdir -p bin run replays evidence
(cd harness && go1.26 build -tags verif -o ../bin/harness .)
echo setup ok
