#!/bin/sh
# Build the framework from files on disk only (offline): Lean proofs + native model drivers and
# the Go harnesses (against /repo with the verif hooks) for every registered property.
# Each ./check rebuilds incrementally what it needs, so this is only a warm-up.
set -e
cd "$(dirname "$0")"
export GOFLAGS=-mod=mod GOPROXY=off GOSUMDB=off GOTOOLCHAIN=local
python3 tools/gendriver.py
mkdir -p bin run replays evidence
targets=""
for f in checks.d/C*.json; do id=$(basename "$f" .json); targets="$targets Vgi.Props.$id vgidriver_$id"; done
(cd lean && lake build $targets)
echo setup ok
