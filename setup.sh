#!/bin/sh
# Build the framework from files on disk only (offline): regenerate the source facts from /repo,
# build the Lean proofs + native model drivers for every registered property. Each ./check
# rebuilds incrementally what it needs (facts, proofs, driver, Go harness), so this is a warm-up.
set -e
cd "$(dirname "$0")"
export GOFLAGS=-mod=mod GOPROXY=off GOSUMDB=off GOTOOLCHAIN=local
python3 tools/gendriver.py
mkdir -p bin run replays evidence lean/Vgi/Generated
for d in tools/factgen/c[0-9]*; do
  [ -d "$d" ] || continue
  id=$(basename "$d" | tr c C)
  (cd tools/factgen && go1.26 run "./$(basename "$d")" -repo /repo -out "../../lean/Vgi/Generated/$id.lean")
done
targets=""
for f in checks.d/C*.json; do id=$(basename "$f" .json); targets="$targets Vgi.Props.$id vgidriver_$id"; done
(cd lean && lake build $targets)
echo setup ok
