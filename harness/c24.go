package main

import (
	"bytes"
	"fmt"
	"net/http"
	"sort"
	"strings"

	"github.com/Query-farm/vgi-rpc-go/vgirpc"
)

// C24 — credential extractors accept exactly what they are configured to accept.
//
// Script ops (stateless; byte strings as x<hex>; lists are comma-joined, "" = empty list):
//   bearer t=<tok,…> h=<value,…>   BearerAuthenticateStatic over the distinct tokens (identity = index) on a request
//                                   whose Authorization values are the given list        -> "ok <i>" | "reject"
//   xfcc <header>                   ParseXfcc                                             -> "n=<k> {hash=… cert=… subject=… uri=… dns=a|b by=…} …"
//   xfccg <fmt> <elem/elem/…>       a header RENDERED by the harness from a structured spec (elem = pair+pair…, pair =
//                                   K:q:<value>, K∈HCSUDB, q∈p|q|e) and parsed by ParseXfcc; the oracle compares with the spec
//   split <text> <c|s>              splitRespectingQuotes at ',' / ';'
//   unq <text>                      unescapeQuoted
//   cn <subject>                    extractCN
//   cng <sep> <K:value,…>           a DN rendered from RDNs (values in RFC 4514 escaped form); oracle: first CN
//   auth <first|last> h=<value,…>   MtlsAuthenticateXfcc default identity                  -> "ok principal=… claims=…" | "reject"
//   authg <first|last> <fmt> <spec> the same on a rendered header; oracle: principal = CN of the selected element's subject

func init() {
	Register(&Prop{
		ID: "C24",
		Rule: "Authorization values (prefix case, doubled spaces, tabs, near-miss tokens differing in one byte/length, empty token, several values) " +
			"against 0-4 configured tokens; XFCC headers rendered from the Envoy grammar (any key order/case, quoted values holding , ; \\\" \\\\, " +
			"percent-encoded Cert/URI/By, optional blanks) plus mutations and noise (unbalanced quotes, trailing backslash, %zz, Unicode blanks); " +
			"subject DNs from an RFC 4514-like grammar. Non-trivial = a case with an accepted bearer line or a rendered XFCC header with a quoted value; " +
			"distinct = distinct scripts",
		Gen:  c24Gen,
		Exec: c24Exec,
		NonTrivial: func(lines []string) bool {
			for _, l := range lines {
				if strings.HasPrefix(l, "xfccg ") && strings.Contains(l, ":q:") {
					return true
				}
				if strings.HasPrefix(l, "authg ") || strings.HasPrefix(l, "bearer ") {
					return true
				}
			}
			return false
		},
	})
}

// ---------------------------------------------------------------- generation

func c24Token(r *Rng) string {
	switch r.Intn(10) {
	case 0:
		return ""
	case 1:
		return "Bearer "
	case 2:
		return Pick(r, []string{"a", "A", " ", "tok en", "t\tk", "é", "\x00", "=", "abc ", " abc"})
	case 3:
		return string(r.Bytes(r.Range(1, 12)))
	}
	const al = "abcdefghijklmnopqrstuvwxyzABCDEFGHIJKLMNOPQRSTUVWXYZ0123456789-._~+/="
	n := r.Range(1, 40)
	b := make([]byte, n)
	for i := range b {
		b[i] = al[r.Intn(len(al))]
	}
	return string(b)
}

func c24NearMiss(r *Rng, t string) string {
	b := []byte(t)
	switch r.Intn(8) {
	case 0:
		if len(b) > 0 {
			b[r.Intn(len(b))] ^= 1 << uint(r.Intn(8))
		}
	case 1:
		if len(b) > 0 {
			b = b[:len(b)-1]
		}
	case 2:
		b = append(b, byte(r.Intn(256)))
	case 3:
		if len(b) > 0 {
			b = b[1:]
		}
	case 4:
		b = append([]byte{' '}, b...)
	case 5:
		b = append(b, ' ')
	case 6:
		b = []byte(strings.ToUpper(t))
	case 7:
		b = append(b, 0)
	}
	return string(b)
}

func c24AuthValue(r *Rng, toks []string) string {
	t := c24Token(r)
	if len(toks) > 0 && r.Chance(80) {
		t = Pick(r, toks)
	}
	switch x := r.Intn(100); {
	case x < 40:
		return "Bearer " + t
	case x < 55:
		return "Bearer " + c24NearMiss(r, t)
	case x < 85:
		return Pick(r, []string{"bearer ", "BEARER ", "Bearer  ", "Bearer\t", "Bearer", " Bearer ", "Bearer: ", "Bearer ", "Token ", "Basic ", "", "earer ", "BBearer ", "Bearer \t"}) + t
	case x < 88:
		return ""
	case x < 91:
		return "Bearer "
	case x < 94:
		return t
	case x < 97:
		return "Bearer " + t + Pick(r, []string{" ", "\t", "\n", ",", ", Bearer x"})
	default:
		return string(r.Bytes(r.Intn(16)))
	}
}

func c24List(xs []string) string {
	p := make([]string, len(xs))
	for i, x := range xs {
		p[i] = XS(x)
	}
	return strings.Join(p, ",")
}

// ---- XFCC grammar

type c24Pair struct {
	key   byte   // H C S U D B
	quote byte   // p plain, q quoted, e quoted + every byte escaped where allowed
	val   string // decoded value
}

var c24KeyName = map[byte]string{'H': "Hash", 'C': "Cert", 'S': "Subject", 'U': "URI", 'D': "DNS", 'B': "By"}

func c24IsPlain(v string) bool {
	for i := 0; i < len(v); i++ {
		c := v[i]
		if c <= 0x20 || c >= 0x7f || c == '"' || c == ',' || c == ';' || c == '\\' {
			return false
		}
	}
	return true
}

func c24PctEncode(v string, all bool) string {
	var sb strings.Builder
	for i := 0; i < len(v); i++ {
		c := v[i]
		un := c >= 'a' && c <= 'z' || c >= 'A' && c <= 'Z' || c >= '0' && c <= '9' || c == '-' || c == '.' || c == '_' || c == '~' || c == '/' || c == ':'
		if un && !all {
			sb.WriteByte(c)
		} else if all && i%2 == 0 {
			fmt.Fprintf(&sb, "%%%02x", c)
		} else {
			fmt.Fprintf(&sb, "%%%02X", c)
		}
	}
	return sb.String()
}

func c24Quote(v string) string {
	var sb strings.Builder
	sb.WriteByte('"')
	for i := 0; i < len(v); i++ {
		if v[i] == '"' || v[i] == '\\' {
			sb.WriteByte('\\')
		}
		sb.WriteByte(v[i])
	}
	sb.WriteByte('"')
	return sb.String()
}

// c24Render writes the header of the grammar side. fmtCode: 0 tight Envoy spelling, 1 blanks around separators,
// 2 lower-case keys, 3 upper-case keys + blanks around '='.
func c24Render(fmtCode int, elems [][]c24Pair) string {
	var es []string
	for _, el := range elems {
		var ps []string
		for _, p := range el {
			k := c24KeyName[p.key]
			switch fmtCode {
			case 2:
				k = strings.ToLower(k)
			case 3:
				k = strings.ToUpper(k)
			}
			v := p.val
			if p.key == 'C' || p.key == 'U' || p.key == 'B' {
				v = c24PctEncode(v, p.quote == 'e')
			}
			if p.quote != 'p' {
				v = c24Quote(v)
			}
			eq := "="
			if fmtCode == 3 {
				eq = " = "
			}
			ps = append(ps, k+eq+v)
		}
		sep := ";"
		if fmtCode == 1 {
			sep = " ; "
		}
		es = append(es, strings.Join(ps, sep))
	}
	sep := ","
	if fmtCode == 1 || fmtCode == 3 {
		sep = ", "
	}
	return strings.Join(es, sep)
}

// blank elements the grammar allows around the real ones: white-space-only or empty pieces between commas
var c24LeadPad = []string{"", " ,", ",", "\t , ,", "\u00a0,", "  ,"}
var c24TrailPad = []string{"", ", ", ",", ", , \t", ",\u3000", ",  "}

// c24FmtPad splits "<fmt>" or "<fmt>p<lead><trail>".
func c24FmtPad(s string) (fc int, lead, trail string) {
	fc = int(s[0] - '0')
	if len(s) == 4 && s[1] == 'p' {
		lead = c24LeadPad[int(s[2]-'0')%len(c24LeadPad)]
		trail = c24TrailPad[int(s[3]-'0')%len(c24TrailPad)]
	}
	return fc, lead, trail
}

// c24RenderPadded renders the elements ("-" = none) with blank elements in front and behind.
func c24RenderPadded(fmtArg, spec string) (h string, elems [][]c24Pair, ok bool) {
	fc, lead, trail := c24FmtPad(fmtArg)
	if spec == "-" {
		return lead + strings.TrimPrefix(trail, ","), nil, true
	}
	elems, ok = c24ParseSpec(spec)
	if !ok {
		return "", nil, false
	}
	return lead + c24Render(fc, elems) + trail, elems, true
}

func c24Spec(elems [][]c24Pair) string {
	var es []string
	for _, el := range elems {
		var ps []string
		for _, p := range el {
			ps = append(ps, fmt.Sprintf("%c:%c:%s", p.key, p.quote, XS(p.val)))
		}
		es = append(es, strings.Join(ps, "+"))
	}
	return strings.Join(es, "/")
}

func c24ParseSpec(s string) ([][]c24Pair, bool) {
	var out [][]c24Pair
	for _, e := range strings.Split(s, "/") {
		var el []c24Pair
		for _, p := range strings.Split(e, "+") {
			f := strings.Split(p, ":")
			if len(f) != 3 || len(f[0]) != 1 || len(f[1]) != 1 {
				return nil, false
			}
			v, ok := UnX(f[2])
			if !ok {
				return nil, false
			}
			el = append(el, c24Pair{f[0][0], f[1][0], string(v)})
		}
		out = append(out, el)
	}
	return out, true
}

type c24Elem struct {
	hash, cert, subject, uri, by string
	dns                          []string
}

func c24Expected(elems [][]c24Pair) []c24Elem {
	var out []c24Elem
	for _, el := range elems {
		var e c24Elem
		for _, p := range el {
			switch p.key {
			case 'H':
				e.hash = p.val
			case 'C':
				e.cert = p.val
			case 'S':
				e.subject = p.val
			case 'U':
				e.uri = p.val
			case 'D':
				e.dns = append(e.dns, p.val)
			case 'B':
				e.by = p.val
			}
		}
		out = append(out, e)
	}
	return out
}

// ---- DN grammar

type c24RDN struct{ key, val string } // val in escaped string form: no bare comma, no leading/trailing blank

func c24DNValue(r *Rng) string {
	switch r.Intn(8) {
	case 0:
		return "Doe\\, John"
	case 1:
		return "a\\,b\\,c"
	case 2:
		return "x\\\\y"
	case 3:
		return "svc+1=2"
	case 4:
		return "client.example.com"
	case 5:
		return "Émile Zola"
	case 6:
		return "q\\\"uoted\\\""
	}
	const al = "abcdefghijklmnopqrstuvwxyzABCDEFGHIJKLMNOPQRSTUVWXYZ0123456789-._ @/"
	n := r.Range(1, 16)
	b := make([]byte, n)
	for i := range b {
		b[i] = al[r.Intn(len(al))]
	}
	s := strings.TrimSpace(string(b))
	if s == "" {
		s = "x"
	}
	return s
}

func c24GenRDNs(r *Rng) []c24RDN {
	n := r.Range(1, 5)
	out := make([]c24RDN, n)
	for i := range out {
		k := Pick(r, []string{"CN", "CN", "cn", "Cn", "cN", "O", "OU", "C", "L", "ST", "emailAddress", "DC", "UID", "CNAME", "XCN", "2.5.4.3"})
		out[i] = c24RDN{k, c24DNValue(r)}
	}
	return out
}

func c24RenderDN(sep string, rdns []c24RDN) string {
	p := make([]string, len(rdns))
	for i, x := range rdns {
		p[i] = x.key + "=" + x.val
	}
	return strings.Join(p, sep)
}

// reference: first RDN whose key is CN (any case) and whose value is non-empty
func c24RefCN(rdns []c24RDN) string {
	for _, x := range rdns {
		if strings.EqualFold(x.key, "CN") && x.val != "" {
			return x.val
		}
	}
	return ""
}

// reference CN of an arbitrary grammar-side subject string (values carry no bare commas by construction)
func c24RefCNOfSubject(subject string) string {
	var parts []string
	var cur []byte
	for i := 0; i < len(subject); i++ {
		if subject[i] == '\\' && i+1 < len(subject) {
			cur = append(cur, subject[i], subject[i+1])
			i++
			continue
		}
		if subject[i] == ',' {
			parts = append(parts, string(cur))
			cur = nil
			continue
		}
		cur = append(cur, subject[i])
	}
	parts = append(parts, string(cur))
	for _, p := range parts {
		p = strings.Trim(p, " ")
		if len(p) > 3 && strings.EqualFold(p[:3], "CN=") {
			return p[3:]
		}
	}
	return ""
}

func c24GenElems(r *Rng) [][]c24Pair {
	ne := r.Range(1, 3)
	out := make([][]c24Pair, ne)
	for i := range out {
		np := r.Range(1, 6)
		for k := 0; k < np; k++ {
			key := Pick(r, []byte{'H', 'C', 'S', 'U', 'D', 'D', 'B', 'S'})
			var v string
			switch key {
			case 'H':
				v = fmt.Sprintf("%x", r.Bytes(r.Range(1, 32)))
			case 'C':
				v = "-----BEGIN CERTIFICATE-----\nMIIB" + fmt.Sprintf("%x", r.Bytes(8)) + "+/=\n-----END CERTIFICATE-----\n"
				if r.Chance(15) {
					v = Pick(r, []string{"\"pem\"", "pe\\m", "%22pem%22", "p,e;m"})
				}
			case 'S':
				v = c24RenderDN(Pick(r, []string{",", ", ", ","}), c24GenRDNs(r))
				if r.Chance(15) {
					v = Pick(r, []string{"", "a;b,c", "x\"y", "semi;colon;s", "CN=a\\\\", "back\\slash", " lead", "trail ", "a=b;c=\"d\""})
				}
			case 'U':
				v = Pick(r, []string{"spiffe://cluster.local/ns/default/sa/client", "https://a.example/x?y=1&z=2", "urn:a b+c", "spiffe://x/%zz", "a,b;c\"d",
					"\"x\"", "a\\b", "\\", "\"", "\"\"", "a\\\\", "\\\"", "%22x%22", "a%5Cb", "%2C%3B", "\"a,b;c\"", "x\\,y\\;z", "\"q\\\"q\""})
			case 'D':
				v = Pick(r, []string{"client.example.com", "*.example.org", "a", "xn--bcher-kva.example", "with,comma", "with;semi"})
			case 'B':
				v = Pick(r, []string{"spiffe://cluster.local/ns/default/sa/server", "http://frontend.lyft.com", "a b", "x+y", "100%",
					"\"by\"", "b\\y", "%22", "%5C%22", "a,b", "a;b", "\"a;b,c\""})
			}
			q := byte('q')
			enc := key == 'C' || key == 'U' || key == 'B'
			if enc {
				q = Pick(r, []byte{'p', 'q', 'e'})
			} else if c24IsPlain(v) && r.Chance(60) {
				q = 'p'
			}
			out[i] = append(out[i], c24Pair{key, q, v})
		}
	}
	return out
}

func c24Mutate(r *Rng, h string) string {
	b := []byte(h)
	for k := r.Range(1, 3); k > 0; k-- {
		switch r.Intn(8) {
		case 0:
			if len(b) > 0 {
				i := r.Intn(len(b))
				b = append(b[:i:i], b[i+1:]...)
			}
		case 1:
			i := r.Intn(len(b) + 1)
			ins := Pick(r, []string{"\"", "\\", ",", ";", "=", " ", "\t", "%", "%zz", "%4", " ", " ", "　", "\n", "İ", "\x85", "\xc2", "+", "\u0085", " ", " ", " ", " ", " ", "​"})
			b = append(b[:i:i], append([]byte(ins), b[i:]...)...)
		case 2:
			if len(b) > 0 {
				b = b[:r.Intn(len(b))]
			}
		case 3:
			b = append(b, '\\')
		case 4:
			b = append(b, '"')
		case 5:
			if len(b) > 0 {
				b[r.Intn(len(b))] = Pick(r, []byte{'"', '\\', ',', ';', '=', ' ', 0xff, '%'})
			}
		case 6:
			b = append([]byte(Pick(r, []string{" ", " ", "  ", ",", ";", "\t", " "})), b...)
		case 7:
			b = append(b, []byte(Pick(r, []string{" ", " ", "　", ",", ";", ", ", " ", "\u0085"}))...)
		}
	}
	return string(b)
}

func c24Noise(r *Rng) string {
	toks := []string{"\"", "\"", "\\", ",", ";", "=", " ", "\t", "Hash", "hash", "Subject", "subject", "URI", "urİ", "DNS", "By", "Cert", "CN=", "cn=", "CN", "a", "b c",
		"%41", "%zz", "%", "+", " ", " ", "　", " ", " ", " ", " ", " ", "​", "\x85", "\xc2\x85", "\xe2\x80", "\n", "\r", "\v", "\f", "\\\"", "\\\\", "\\,", "\xff", "O=x", "K"}
	var sb strings.Builder
	for k := r.Intn(16); k > 0; k-- {
		sb.WriteString(Pick(r, toks))
	}
	return sb.String()
}

func c24Gen(g *Gen) {
	// a well-mixed sub-stream: the framework's seeds are shifted copies of one splitmix stream
	r := NewRng(g.Rng.U64())
	n := g.N(4000, 150000)
	for i := 0; i < n; i++ {
		var lines []string
		// ---- bearer
		nt := r.Intn(5)
		seen := map[string]bool{}
		var toks []string
		for len(toks) < nt {
			t := c24Token(r)
			if len(toks) > 0 && r.Chance(30) {
				t = c24NearMiss(r, toks[r.Intn(len(toks))])
			}
			if !seen[t] {
				seen[t] = true
				toks = append(toks, t)
			}
		}
		for k := r.Range(1, 4); k > 0; k-- {
			nh := 1
			if r.Chance(15) {
				nh = r.Intn(4)
			}
			var hs []string
			for j := 0; j < nh; j++ {
				hs = append(hs, c24AuthValue(r, toks))
			}
			lines = append(lines, "bearer t="+c24List(toks)+" h="+c24List(hs))
		}
		// ---- xfcc from the grammar
		elems := c24GenElems(r)
		fc := r.Intn(4)
		pad := func() string {
			if r.Chance(45) {
				return fmt.Sprintf("p%d%d", r.Intn(len(c24LeadPad)), r.Intn(len(c24TrailPad)))
			}
			return ""
		}
		lines = append(lines, fmt.Sprintf("xfccg %d%s %s", fc, pad(), c24Spec(elems)))
		sel := Pick(r, []string{"first", "last"})
		lines = append(lines, fmt.Sprintf("authg %s %d%s %s", sel, r.Intn(4), pad(), c24Spec(c24GenElems(r))))
		if r.Chance(8) { // nothing but blank elements
			lines = append(lines, fmt.Sprintf("authg %s 0p%d%d -", Pick(r, []string{"first", "last"}), r.Intn(len(c24LeadPad)), r.Intn(len(c24TrailPad))))
		}
		h := c24Render(fc, elems)
		// ---- mutations and noise
		if r.Chance(70) {
			lines = append(lines, "xfcc "+XS(c24Mutate(r, h)))
		}
		if r.Chance(40) {
			lines = append(lines, "xfcc "+XS(c24Noise(r)))
		}
		if r.Chance(40) {
			m := c24Mutate(r, h)
			lines = append(lines, "split "+XS(m)+" "+Pick(r, []string{"c", "s"}))
		}
		if r.Chance(25) {
			lines = append(lines, "split "+XS(c24Noise(r))+" "+Pick(r, []string{"c", "s"}))
		}
		if r.Chance(40) {
			lines = append(lines, "unq "+XS(Pick(r, []string{c24Noise(r), c24Quote(c24Noise(r)), c24Mutate(r, c24Quote(c24DNValue(r)))})))
		}
		// ---- DNs
		rd := c24GenRDNs(r)
		sepc := r.Intn(3)
		p := make([]string, len(rd))
		for j, x := range rd {
			p[j] = x.key + ":" + XS(x.val)
		}
		lines = append(lines, fmt.Sprintf("cng %d %s", sepc, strings.Join(p, ",")))
		if r.Chance(60) {
			lines = append(lines, "cn "+XS(c24Mutate(r, c24RenderDN(",", rd))))
		}
		if r.Chance(30) {
			lines = append(lines, "cn "+XS(c24Noise(r)))
		}
		// ---- default identity on raw headers
		if r.Chance(50) {
			var hs []string
			for j := r.Intn(3); j > 0; j-- {
				hs = append(hs, Pick(r, []string{h, c24Mutate(r, h), "", " ", ",", c24Noise(r)}))
			}
			lines = append(lines, "auth "+Pick(r, []string{"first", "last"})+" h="+c24List(hs))
		}
		g.Case(lines...)
	}
}

// ---------------------------------------------------------------- execution

// c24RenderParseDiff compares the grammar-side element list with ParseXfcc's result; "" = equal.
func c24RenderParseDiff(want []c24Elem, got []vgirpc.XfccElement) string {
	if len(want) != len(got) {
		return fmt.Sprintf("%d elements rendered, %d parsed", len(want), len(got))
	}
	for i := range want {
		w, g := want[i], got[i]
		for _, f := range [][3]string{{"hash", w.hash, g.Hash}, {"cert", w.cert, g.Cert}, {"subject", w.subject, g.Subject},
			{"uri", w.uri, g.URI}, {"by", w.by, g.By}, {"dns", strings.Join(w.dns, "\x00"), strings.Join(g.DNS, "\x00")}} {
			if f[1] != f[2] {
				return fmt.Sprintf("element %d %s: rendered %q, parsed %q", i, f[0], f[1], f[2])
			}
		}
	}
	return ""
}

func c24ShowElem(e vgirpc.XfccElement) string {
	d := make([]string, len(e.DNS))
	for i, x := range e.DNS {
		d[i] = XS(x)
	}
	return "{hash=" + XS(e.Hash) + " cert=" + XS(e.Cert) + " subject=" + XS(e.Subject) + " uri=" + XS(e.URI) + " dns=" + strings.Join(d, "|") + " by=" + XS(e.By) + "}"
}

func c24ShowElems(es []vgirpc.XfccElement) string {
	s := fmt.Sprintf("n=%d", len(es))
	for _, e := range es {
		s += " " + c24ShowElem(e)
	}
	return s
}

func c24HexList(s string) ([]string, bool) {
	if s == "" {
		return nil, true
	}
	var out []string
	for _, p := range strings.Split(s, ",") {
		b, ok := UnX(p)
		if !ok {
			return nil, false
		}
		out = append(out, string(b))
	}
	return out, true
}

func c24ShowAuth(ac *vgirpc.AuthContext, err error) string {
	if err != nil {
		return "reject"
	}
	var cl []string
	get := func(k string) (string, bool) {
		v, ok := ac.Claims[k]
		if !ok {
			return "", false
		}
		s, ok := v.(string)
		return s, ok
	}
	for _, k := range []string{"hash", "subject", "uri"} {
		if s, ok := get(k); ok {
			cl = append(cl, k+"="+XS(s))
		}
	}
	if v, ok := ac.Claims["dns"]; ok {
		if ds, ok := v.([]string); ok {
			p := make([]string, len(ds))
			for i, x := range ds {
				p[i] = XS(x)
			}
			cl = append(cl, "dns="+strings.Join(p, "|"))
		}
	}
	if s, ok := get("by"); ok {
		cl = append(cl, "by="+XS(s))
	}
	extra := []string{}
	for k := range ac.Claims {
		switch k {
		case "hash", "subject", "uri", "dns", "by":
		default:
			extra = append(extra, k)
		}
	}
	sort.Strings(extra)
	s := "ok principal=" + XS(ac.Principal) + " claims=" + strings.Join(cl, ",")
	if len(extra) > 0 {
		s += " extra=" + strings.Join(extra, ",")
	}
	if !ac.Authenticated {
		s += " unauthenticated"
	}
	return s
}

func c24XfccAuth(sel string, hdrs []string) (*vgirpc.AuthContext, error) {
	fn, err := vgirpc.MtlsAuthenticateXfcc(vgirpc.MtlsAuthenticateXfccConfig{SelectElement: sel})
	if err != nil {
		panic(err)
	}
	req, _ := http.NewRequest("POST", "http://x/", nil)
	if len(hdrs) > 0 {
		req.Header["X-Forwarded-Client-Cert"] = hdrs
	}
	return fn(req)
}

func c24Exec(c *Case) {
	for _, l := range c.Lines {
		f := strings.Fields(l)
		if len(f) == 0 {
			continue
		}
		switch {
		case f[0] == "bearer" && len(f) == 3 && strings.HasPrefix(f[1], "t=") && strings.HasPrefix(f[2], "h="):
			toks, ok1 := c24HexList(f[1][2:])
			hdrs, ok2 := c24HexList(f[2][2:])
			if !ok1 || !ok2 {
				c.Out(l, "err:bad-op")
				continue
			}
			m := map[string]*vgirpc.AuthContext{}
			for i, t := range toks {
				if _, dup := m[t]; !dup {
					m[t] = &vgirpc.AuthContext{Domain: "bearer", Authenticated: true, Principal: fmt.Sprintf("id%d", i)}
				}
			}
			fn := vgirpc.BearerAuthenticateStatic(m)
			req, _ := http.NewRequest("POST", "http://x/", nil)
			if len(hdrs) > 0 {
				req.Header["Authorization"] = hdrs
			}
			ac, err := fn(req)
			// the property, directly
			want := -1
			if len(hdrs) > 0 && strings.HasPrefix(hdrs[0], "Bearer ") {
				for i, t := range toks {
					if hdrs[0] == "Bearer "+t {
						want = i
						break
					}
				}
			}
			obs := "reject"
			if err == nil && ac != nil {
				obs = "ok " + strings.TrimPrefix(ac.Principal, "id")
			}
			switch {
			case want >= 0 && err != nil:
				c.Oracle("bearer-configured-token-rejected", fmt.Sprintf("%s: header %q is Bearer + token #%d but was rejected (%v)", l, hdrs[0], want, err))
			case want < 0 && err == nil:
				c.Oracle("bearer-accepted-without-configured-token", fmt.Sprintf("%s: accepted as %q", l, ac.Principal))
			case want >= 0 && ac.Principal != fmt.Sprintf("id%d", want):
				c.Oracle("bearer-wrong-identity", fmt.Sprintf("%s: token #%d yielded identity %q", l, want, ac.Principal))
			}
			if err == nil {
				c.Stat("bearer-ok")
			} else {
				c.Stat("bearer-reject:" + err.Error())
			}
			c.Out(l, obs)
		case f[0] == "xfcc" && len(f) == 2:
			c.Stat("xfcc-raw")
			c.Out(l, c24ShowElems(vgirpc.ParseXfcc(UnXS(f[1]))))
		case f[0] == "xfccg" && len(f) == 3:
			h, elems, ok := c24RenderPadded(f[1], f[2])
			if !ok {
				c.Out(l, "err:bad-op")
				continue
			}
			got := vgirpc.ParseXfcc(h)
			want := c24Expected(elems)
			// the grammar clause, independent of the Lean model: the parsed element list must equal the
			// element list the header was rendered from
			if d := c24RenderParseDiff(want, got); d != "" {
				c.Oracle("xfcc-render-parse-mismatch", fmt.Sprintf("%s: header %q rendered from the grammar is not read back: %s", l, h, d))
			}
			if len(got) != len(want) {
				c.Oracle("xfcc-element-count", fmt.Sprintf("%s: header %q parsed into %d elements, grammar has %d", l, h, len(got), len(want)))
			} else {
				for i := range want {
					w, g := want[i], got[i]
					chk := func(field, a, b string) {
						if a != b {
							c.Oracle("xfcc-field-"+field, fmt.Sprintf("%s: header %q element %d %s: grammar %q, parsed %q", l, h, i, field, a, b))
						}
					}
					chk("hash", w.hash, g.Hash)
					chk("cert", w.cert, g.Cert)
					chk("subject", w.subject, g.Subject)
					chk("uri", w.uri, g.URI)
					chk("by", w.by, g.By)
					chk("dns", strings.Join(w.dns, "\x00"), strings.Join(g.DNS, "\x00"))
				}
			}
			c.Stat("xfcc-grammar")
			c.Out("xfcc "+XS(h), c24ShowElems(got))
		case f[0] == "split" && len(f) == 3:
			d := byte(',')
			if f[2] == "s" {
				d = ';'
			}
			text := UnXS(f[1])
			parts := vgirpc.VerifC24SplitRespectingQuotes(text, d)
			p := make([]string, len(parts))
			for i, x := range parts {
				p[i] = XS(x)
			}
			c.Stat("split")
			c.Out(l, "parts "+strings.Join(p, ","))
		case f[0] == "unq" && len(f) == 2:
			c.Stat("unq")
			c.Out(l, "unq "+XS(vgirpc.VerifC24UnescapeQuoted(UnXS(f[1]))))
		case f[0] == "cn" && len(f) == 2:
			c.Stat("cn-raw")
			c.Out(l, "cn "+XS(vgirpc.VerifC24ExtractCN(UnXS(f[1]))))
		case f[0] == "cng" && len(f) == 3:
			var rd []c24RDN
			okAll := true
			for _, p := range strings.Split(f[2], ",") {
				kv := strings.SplitN(p, ":", 2)
				if len(kv) != 2 {
					okAll = false
					break
				}
				v, ok := UnX(kv[1])
				if !ok {
					okAll = false
					break
				}
				rd = append(rd, c24RDN{kv[0], string(v)})
			}
			if !okAll {
				c.Out(l, "err:bad-op")
				continue
			}
			sep := []string{",", ", ", " , "}[int(f[1][0]-'0')%3]
			dn := c24RenderDN(sep, rd)
			got := vgirpc.VerifC24ExtractCN(dn)
			if want := c24RefCN(rd); got != want {
				c.Oracle("cn-not-first-cn-rdn", fmt.Sprintf("%s: DN %q: extractCN %q, first CN RDN %q", l, dn, got, want))
			}
			c.Stat("cn-grammar")
			c.Out("cn "+XS(dn), "cn "+XS(got))
		case f[0] == "auth" && len(f) == 3 && strings.HasPrefix(f[2], "h="):
			hdrs, ok := c24HexList(f[2][2:])
			if !ok || (f[1] != "first" && f[1] != "last") {
				c.Out(l, "err:bad-op")
				continue
			}
			ac, err := c24XfccAuth(f[1], hdrs)
			c.Stat("auth-raw")
			c.Out(l, c24ShowAuth(ac, err))
		case f[0] == "authg" && len(f) == 4:
			h, elems, ok := c24RenderPadded(f[2], f[3])
			if !ok || (f[1] != "first" && f[1] != "last") {
				c.Out(l, "err:bad-op")
				continue
			}
			var hdrs []string
			if h != "" {
				hdrs = []string{h}
			}
			ac, err := c24XfccAuth(f[1], hdrs)
			want := c24Expected(elems)
			switch {
			case len(want) == 0:
				// only blank elements: there is no client certificate to take an identity from
				if err == nil {
					cls := "xfcc-identity-from-blank-header"
					if ac.Principal == "" {
						cls = "xfcc-empty-principal-accepted"
					}
					c.Oracle(cls, fmt.Sprintf("%s: header %q holds no element but was authenticated as %q", l, h, ac.Principal))
				}
			case err != nil:
				c.Oracle("xfcc-identity-rejected", fmt.Sprintf("%s: header %q rejected: %v", l, h, err))
			default:
				selE := want[0]
				if f[1] == "last" {
					selE = want[len(want)-1]
				}
				if wantCN := c24RefCNOfSubject(selE.subject); ac.Principal != wantCN {
					cls := "xfcc-identity-not-cn-of-selected-subject"
					if ac.Principal == "" {
						cls = "xfcc-empty-principal-accepted"
					}
					c.Oracle(cls, fmt.Sprintf("%s: header %q: principal %q, CN of the %s non-blank element's subject %q is %q", l, h, ac.Principal, f[1], selE.subject, wantCN))
				}
			}
			c.Stat("auth-grammar")
			if len(hdrs) == 0 {
				c.Out("auth "+f[1]+" h=", c24ShowAuth(ac, err))
			} else {
				c.Out("auth "+f[1]+" h="+XS(h), c24ShowAuth(ac, err))
			}
		default:
			c.Out(l, "err:bad-op")
		}
	}
}

var _ = bytes.Equal
