package main

import (
	"bufio"
	"bytes"
	"crypto/hmac"
	"crypto/sha256"
	"encoding/base64"
	"encoding/binary"
	"encoding/json"
	"fmt"
	"io"
	"log/slog"
	"net"
	"net/http"
	"net/http/httptest"
	"net/url"
	"regexp"
	"sort"
	"strconv"
	"strings"
	"sync"
	"time"

	"github.com/Query-farm/vgi-rpc-go/vgirpc"
)

// C27 — Browser OAuth login keeps its state, cookie and redirects safe.
//
// Script ops (words separated by one space; byte strings as x<hex>):
//
//   pack xV xS xU xR xKEY <createdAt>                 packOAuthCookie
//   unpack <cookie> xKEY <maxAge>                     unpackOAuthCookie at the real clock
//   parse xURL                                        net/url.Parse vs the Lean parser (tie of the NV library model)
//   origurl xURL xPREFIX                              validateOriginalURL
//   returnto xURL <allow>                             validateReturnTo on a server configured with SetOAuthPkce{AllowedReturnOrigins: <allow>}  (<allow> = - | xA,xB,...)
//   cfg xPREFIX <allow> xSIGNKEY <disc 0|1>           real HttpServer + PKCE + fake IdP (httptest)
//   page xTARGET <tok: -|xTOK> <expired 0|1>          raw "GET TARGET" with Accept: text/html (early return / login redirect)
//   callback xERR xCODE <state: $|~|xS> <cookie> <idp>  GET {prefix}/_oauth/callback ($ = state of the last login, ~ = that state with one bit flipped)
//
//   <cookie> = - | xLITERAL | $ | $/<mut> | craft/<t>/<ver>/xV/xS/xU/xR/<key: own|xKEY>/<mut>
//   <t>      = d<delta seconds from now> | a<absolute uint64>
//   <mut>    = none | flip:<i>:<xor> | trunc:<n> | cut64:<n> | nopad | nl:<i> | extra:<n> | lenbump:<field>:<delta> | b64set:<i>:<byte>
//   <idp>    = ok:xTOKEN | fail:http500 | fail:nojson | fail:notoken
//
// The model receives the same lines with the environment made explicit: the clock, the literal
// cookie bytes, the random verifier/state the server minted, the decoded query parameters.

func init() {
	slog.SetDefault(slog.New(slog.NewTextHandler(io.Discard, nil)))
	Register(&Prop{
		ID: "C27",
		Rule: "unit stream: cookies crafted from random fields (lengths 0..2048, all byte values) with every mutation kind, key and age boundary; " +
			"URLs from a component grammar (schemes, userinfo, hosts incl. IP-literals, ports, paths, encodings, backslashes) plus byte noise, fed to url.Parse, " +
			"validateOriginalURL and validateReturnTo; flow stream: real HttpServer+PKCE against a fake IdP, raw GET targets, login/early-return/callback with " +
			"honest, mutated, crafted, foreign-key and back-dated cookies. non-trivial = a case with at least one unpack/returnto/origurl/parse/page/callback line; distinct = distinct scripts",
		Gen:  c27Gen,
		Exec: c27Exec,
		NonTrivial: func(lines []string) bool {
			for _, l := range lines {
				for _, p := range []string{"unpack ", "returnto ", "origurl ", "parse ", "page ", "callback "} {
					if strings.HasPrefix(l, p) {
						return true
					}
				}
			}
			return false
		},
	})
}

// ---------------------------------------------------------------------------------------------
// independent reference pieces (used by the craft ops and the oracles; none of it calls /repo)
// ---------------------------------------------------------------------------------------------

func c27Payload(ver byte, t uint64, v, s, u, r []byte) []byte {
	p := []byte{ver}
	p = binary.LittleEndian.AppendUint64(p, t)
	for _, f := range [][]byte{v, s, u, r} {
		p = binary.LittleEndian.AppendUint16(p, uint16(len(f)))
		p = append(p, f...)
	}
	return p
}

func c27Mac(key, msg []byte) []byte {
	m := hmac.New(sha256.New, key)
	m.Write(msg)
	return m.Sum(nil)
}

// c27Craft builds a cookie value from parts and applies one mutation.
func c27Craft(ver byte, t uint64, v, s, u, r, key []byte, mut string) string {
	p := c27Payload(ver, t, v, s, u, r)
	mf := strings.Split(mut, ":")
	arg := func(i int) int {
		if i < len(mf) {
			n, _ := strconv.Atoi(mf[i])
			return n
		}
		return 0
	}
	switch mf[0] {
	case "extra":
		for i := 0; i < arg(1); i++ {
			p = append(p, byte(i*37+1))
		}
	case "lenbump":
		// adjust the length prefix of field <arg1> by <arg2> before signing
		pos := 9
		fl := [][]byte{v, s, u, r}
		for i := 0; i < arg(1) && i < 4; i++ {
			pos += 2 + len(fl[i])
		}
		if pos+2 <= len(p) {
			n := int(binary.LittleEndian.Uint16(p[pos:])) + arg(2)
			binary.LittleEndian.PutUint16(p[pos:], uint16(n))
		}
	}
	raw := append(append([]byte{}, p...), c27Mac(key, p)...)
	return c27MutRaw(raw, mut)
}

// c27MutRaw applies the byte-level and text-level mutations to decoded cookie bytes.
func c27MutRaw(raw []byte, mut string) string {
	raw = append([]byte{}, raw...)
	mf := strings.Split(mut, ":")
	arg := func(i int) int {
		if i < len(mf) {
			n, _ := strconv.Atoi(mf[i])
			return n
		}
		return 0
	}
	switch mf[0] {
	case "flip":
		if len(raw) > 0 {
			i := ((arg(1) % len(raw)) + len(raw)) % len(raw)
			x := byte(arg(2))
			if x == 0 {
				x = 1
			}
			raw[i] ^= x
		}
	case "trunc":
		n := arg(1)
		if n > len(raw) {
			n = len(raw)
		}
		raw = raw[:len(raw)-n]
	}
	txt := base64.URLEncoding.EncodeToString(raw)
	switch mf[0] {
	case "cut64":
		n := arg(1)
		if n > len(txt) {
			n = len(txt)
		}
		txt = txt[:len(txt)-n]
	case "nopad":
		txt = strings.TrimRight(txt, "=")
	case "nl":
		i := arg(1)
		if i > len(txt) {
			i = len(txt)
		}
		txt = txt[:i] + "\n" + txt[i:]
	case "b64set":
		if len(txt) > 0 {
			i := ((arg(1) % len(txt)) + len(txt)) % len(txt)
			txt = txt[:i] + string([]byte{byte(arg(2))}) + txt[i+1:]
		}
	}
	return txt
}

type c27Fields struct{ v, s, u, r []byte }

func c27Decode(cookie string) ([]byte, bool) {
	raw, err := base64.URLEncoding.DecodeString(cookie)
	if err != nil {
		raw, err = base64.RawURLEncoding.DecodeString(cookie)
		if err != nil {
			return nil, false
		}
	}
	return raw, true
}

// c27RefUnpack is the property's reading of "a cookie the server may accept": it decodes, carries
// a valid MAC under key, has version 4, lies in the age window and parses. reason "" = acceptable.
func c27RefUnpack(cookie string, key []byte, maxAge int, now int64) (f c27Fields, created uint64, reason string) {
	raw, ok := c27Decode(cookie)
	if !ok {
		return f, 0, "malformed"
	}
	if len(raw) < 49 {
		return f, 0, "short"
	}
	p, tag := raw[:len(raw)-32], raw[len(raw)-32:]
	if !hmac.Equal(tag, c27Mac(key, p)) {
		return f, 0, "bad-mac"
	}
	if p[0] != 4 {
		return f, 0, "wrong-version"
	}
	created = binary.LittleEndian.Uint64(p[1:9])
	if maxAge > 0 {
		age := now - int64(created)
		if age < 0 {
			return f, created, "future-dated"
		}
		if age > int64(maxAge) {
			return f, created, "expired"
		}
	}
	pos := 9
	var out [4][]byte
	for i := 0; i < 4; i++ {
		if pos+2 > len(p) {
			return f, created, "truncated"
		}
		n := int(binary.LittleEndian.Uint16(p[pos:]))
		pos += 2
		if pos+n > len(p) {
			return f, created, "truncated"
		}
		out[i] = p[pos : pos+n]
		pos += n
	}
	return c27Fields{out[0], out[1], out[2], out[3]}, created, ""
}

// RFC 3986 appendix B.
var c27RFC3986 = regexp.MustCompile(`^(?s)(([^:/?#]+):)?(//([^/?#]*))?([^?#]*)(\?([^#]*))?(#(.*))?$`)

func c27PctDecode(s string) (string, bool) {
	var b []byte
	for i := 0; i < len(s); i++ {
		if s[i] == '%' {
			if i+2 >= len(s) {
				return "", false
			}
			v, err := strconv.ParseUint(s[i+1:i+3], 16, 8)
			if err != nil {
				return "", false
			}
			b = append(b, byte(v))
			i += 2
		} else {
			b = append(b, s[i])
		}
	}
	return string(b), true
}

// c27ReturnAllowed states the return-URL clause without net/url: split by the RFC 3986 regular
// expression; scheme http/https; the host (after the last '@', before an all-digit ':port', brackets
// removed, %XX decoded, no backslash) is http localhost or scheme://host[:port] is listed.
func c27ReturnAllowed(u string, allow []string) bool {
	m := c27RFC3986.FindStringSubmatch(u)
	if m == nil || m[3] == "" {
		return false
	}
	scheme := strings.ToLower(m[2])
	if scheme != "http" && scheme != "https" {
		return false
	}
	auth := m[4]
	if i := strings.LastIndex(auth, "@"); i >= 0 {
		if strings.ContainsAny(auth[:i], "\\") {
			return false
		}
		auth = auth[i+1:]
	}
	if auth == "" || strings.ContainsAny(auth, "\\ ") {
		return false
	}
	host, port := auth, ""
	if i := strings.LastIndex(auth, ":"); i >= 0 && !strings.Contains(auth[i:], "]") {
		digits := true
		for _, c := range auth[i+1:] {
			if c < '0' || c > '9' {
				digits = false
			}
		}
		if !digits {
			return false
		}
		host, port = auth[:i], auth[i+1:]
	}
	if strings.HasPrefix(host, "[") && strings.HasSuffix(host, "]") {
		host = host[1 : len(host)-1]
	}
	host, ok := c27PctDecode(host)
	if !ok {
		return false
	}
	if scheme == "http" && (host == "localhost" || host == "127.0.0.1" || host == "[::1]") {
		return true
	}
	for _, a := range allow {
		if a == scheme+"://"+host || (port != "" && a == scheme+"://"+host+":"+port) {
			return true
		}
	}
	return false
}

// c27SafeLocal: an origin-relative reference no browser reads as another origin: "/" followed by
// anything but "/" or "\".
func c27SafeLocal(s string) bool {
	if len(s) == 0 || s[0] != '/' {
		return false
	}
	return len(s) == 1 || (s[1] != '/' && s[1] != '\\')
}

func c27GoodPrefix(p string) bool {
	return p == "" || c27SafeLocal(p)
}

// ---------------------------------------------------------------------------------------------
// real server environment
// ---------------------------------------------------------------------------------------------

type c27IdP struct {
	mu       sync.Mutex
	srv      *httptest.Server
	disc     bool
	mode     string // ok | http500 | nojson | notoken
	token    string
	captured []url.Values
}

func newC27IdP(disc bool) *c27IdP {
	idp := &c27IdP{disc: disc, mode: "ok", token: "tok"}
	mux := http.NewServeMux()
	idp.srv = httptest.NewServer(mux)
	mux.HandleFunc("/.well-known/openid-configuration", func(w http.ResponseWriter, r *http.Request) {
		if !idp.disc {
			http.Error(w, "down", http.StatusInternalServerError)
			return
		}
		w.Header().Set("Content-Type", "application/json")
		json.NewEncoder(w).Encode(map[string]string{
			"issuer":                 idp.srv.URL,
			"authorization_endpoint": idp.srv.URL + "/authorize",
			"token_endpoint":         idp.srv.URL + "/token",
		})
	})
	mux.HandleFunc("/token", func(w http.ResponseWriter, r *http.Request) {
		r.ParseForm()
		idp.mu.Lock()
		f := url.Values{}
		for k, v := range r.PostForm {
			f[k] = append([]string{}, v...)
		}
		idp.captured = append(idp.captured, f)
		mode, tok := idp.mode, idp.token
		idp.mu.Unlock()
		w.Header().Set("Content-Type", "application/json")
		switch mode {
		case "http500":
			w.WriteHeader(500)
			w.Write([]byte(`{"error":"server_error"}`))
		case "nojson":
			w.Write([]byte(`this is not json`))
		case "notoken":
			w.Write([]byte(`{"token_type":"Bearer"}`))
		default:
			b, _ := json.Marshal(map[string]any{"access_token": tok, "token_type": "Bearer", "expires_in": 3600})
			w.Write(b)
		}
	})
	return idp
}

type c27Env struct {
	hs        *vgirpc.HttpServer
	ts        *httptest.Server
	idp       *c27IdP
	prefix    string
	allow     []string // effective allowlist (sorted)
	sessKey   []byte
	disc      bool
	lastState string
	lastCk    string
}

func (e *c27Env) Close() {
	if e == nil {
		return
	}
	e.ts.Close()
	e.idp.srv.Close()
}

func newC27Env(prefix string, allow []string, key []byte, disc bool) (*c27Env, error) {
	idp := newC27IdP(disc)
	hs, err := vgirpc.NewHttpServerWithKey(vgirpc.NewServer(), key)
	if err != nil {
		idp.srv.Close()
		return nil, err
	}
	hs.SetPrefix(prefix)
	hs.SetAuthenticate(func(r *http.Request) (*vgirpc.AuthContext, error) {
		return nil, &vgirpc.RpcError{Type: "ValueError", Message: "unauthenticated"}
	})
	if err := hs.SetOAuthResourceMetadata(&vgirpc.OAuthResourceMetadata{
		Resource:             "http://localhost:8000" + prefix,
		AuthorizationServers: []string{idp.srv.URL},
		ClientID:             "verif-client",
	}); err != nil {
		idp.srv.Close()
		return nil, err
	}
	if err := hs.SetOAuthPkce(vgirpc.OAuthPkceConfig{AllowedReturnOrigins: allow}); err != nil {
		idp.srv.Close()
		return nil, err
	}
	hs.InitPages()
	e := &c27Env{hs: hs, idp: idp, prefix: prefix, disc: disc}
	e.ts = httptest.NewServer(hs)
	// the property's allowlist is what the OPERATOR configured (plus the documented default origin),
	// not whatever map the server derived from it
	e.allow = c27Effective(allow)
	e.sessKey = hs.VerifC27SessionKey()
	return e, nil
}

// rawGet sends exactly "GET <target> HTTP/1.1" so the request target reaches the server byte for byte.
func (e *c27Env) rawGet(target string, hdr map[string]string) (*http.Response, error) {
	addr := strings.TrimPrefix(e.ts.URL, "http://")
	conn, err := net.DialTimeout("tcp", addr, 5*time.Second)
	if err != nil {
		return nil, err
	}
	defer conn.Close()
	conn.SetDeadline(time.Now().Add(20 * time.Second))
	var b bytes.Buffer
	fmt.Fprintf(&b, "GET %s HTTP/1.1\r\nHost: %s\r\nConnection: close\r\n", target, addr)
	keys := make([]string, 0, len(hdr))
	for k := range hdr {
		keys = append(keys, k)
	}
	sort.Strings(keys)
	for _, k := range keys {
		fmt.Fprintf(&b, "%s: %s\r\n", k, hdr[k])
	}
	b.WriteString("\r\n")
	if _, err := conn.Write(b.Bytes()); err != nil {
		return nil, err
	}
	resp, err := http.ReadResponse(bufio.NewReader(conn), nil)
	if err != nil {
		return nil, err
	}
	var body bytes.Buffer
	body.ReadFrom(resp.Body)
	resp.Body.Close()
	return resp, nil
}

func c27CookieSafe(v string) bool {
	if v == "" {
		return false
	}
	for i := 0; i < len(v); i++ {
		c := v[i]
		if !(c == 0x21 || (c >= 0x23 && c <= 0x2b) || (c >= 0x2d && c <= 0x3a) || (c >= 0x3c && c <= 0x5b) || (c >= 0x5d && c <= 0x7e)) {
			return false
		}
	}
	return true
}

func c27SetCookie(resp *http.Response, name string) (string, bool) {
	for _, ck := range resp.Cookies() {
		if ck.Name == name && ck.Value != "" {
			return ck.Value, true
		}
	}
	return "", false
}

// ---------------------------------------------------------------------------------------------
// Exec
// ---------------------------------------------------------------------------------------------

func c27List(s string) ([]string, bool) {
	if s == "-" {
		return nil, true
	}
	var out []string
	for _, it := range strings.Split(s, ",") {
		b, ok := UnX(it)
		if !ok {
			return nil, false
		}
		out = append(out, string(b))
	}
	return out, true
}

func c27ListX(xs []string) string {
	if len(xs) == 0 {
		return "-"
	}
	p := make([]string, len(xs))
	for i, s := range xs {
		p[i] = XS(s)
	}
	return strings.Join(p, ",")
}

// sameSecond runs f with a clock value that is the same before and after the call.
func c27SameSecond(f func(now int64)) int64 {
	for {
		n1 := time.Now().Unix()
		f(n1)
		if time.Now().Unix() == n1 {
			return n1
		}
	}
}

// resolveCookie turns a <cookie> spec into the literal value (absent = ok false).
func c27ResolveCookie(spec string, env *c27Env, ownKey []byte, now int64) (val string, present bool, craftHonest bool, want c27Fields, good bool) {
	switch {
	case spec == "-":
		return "", false, false, want, true
	case spec == "$":
		if env == nil {
			return "", false, false, want, false
		}
		return env.lastCk, env.lastCk != "", false, want, true
	case strings.HasPrefix(spec, "$/"):
		if env == nil || env.lastCk == "" {
			return "", false, false, want, true
		}
		raw, ok := c27Decode(env.lastCk)
		if !ok {
			return "", false, false, want, false
		}
		return c27MutRaw(raw, spec[2:]), true, false, want, true
	case strings.HasPrefix(spec, "craft/"):
		f := strings.Split(spec, "/")
		if len(f) != 9 {
			return "", false, false, want, false
		}
		var t uint64
		switch {
		case strings.HasPrefix(f[1], "d"):
			d, err := strconv.ParseInt(f[1][1:], 10, 64)
			if err != nil {
				return "", false, false, want, false
			}
			t = uint64(now + d)
		case strings.HasPrefix(f[1], "a"):
			a, err := strconv.ParseUint(f[1][1:], 10, 64)
			if err != nil {
				return "", false, false, want, false
			}
			t = a
		default:
			return "", false, false, want, false
		}
		ver, err := strconv.Atoi(f[2])
		if err != nil {
			return "", false, false, want, false
		}
		var parts [4][]byte
		for i := 0; i < 4; i++ {
			b, ok := UnX(f[3+i])
			if !ok {
				return "", false, false, want, false
			}
			parts[i] = b
		}
		key := ownKey
		own := f[7] == "own"
		if !own {
			k, ok := UnX(f[7])
			if !ok {
				return "", false, false, want, false
			}
			key = k
		}
		val = c27Craft(byte(ver), t, parts[0], parts[1], parts[2], parts[3], key, f[8])
		honest := own && ver == 4 && f[8] == "none"
		for _, p := range parts {
			if len(p) >= 65536 {
				honest = false
			}
		}
		return val, true, honest, c27Fields{parts[0], parts[1], parts[2], parts[3]}, true
	default:
		b, ok := UnX(spec)
		if !ok {
			return "", false, false, want, false
		}
		return string(b), true, false, want, true
	}
}

// c27Effective: the configured origins plus the always-allowed default, sorted, without duplicates.
func c27Effective(configured []string) []string {
	seen := map[string]bool{}
	out := []string{}
	for _, a := range append([]string{vgirpc.VerifC27DefaultReturnOrigin}, configured...) {
		if !seen[a] {
			seen[a] = true
			out = append(out, a)
		}
	}
	sort.Strings(out)
	return out
}

// c27ValidatorServer configures a real HttpServer with the given AllowedReturnOrigins (no request is
// ever served; OIDC discovery is lazy and never triggered).
func c27ValidatorServer(allow []string) *vgirpc.HttpServer {
	hs, err := vgirpc.NewHttpServerWithKey(vgirpc.NewServer(), []byte("verif-c27-validator-key-01234567"))
	if err != nil {
		return nil
	}
	hs.SetAuthenticate(func(r *http.Request) (*vgirpc.AuthContext, error) {
		return nil, &vgirpc.RpcError{Type: "ValueError", Message: "unauthenticated"}
	})
	if err := hs.SetOAuthResourceMetadata(&vgirpc.OAuthResourceMetadata{
		Resource:             "http://localhost:8000",
		AuthorizationServers: []string{"http://127.0.0.1:1"},
		ClientID:             "verif-client",
	}); err != nil {
		return nil
	}
	if err := hs.SetOAuthPkce(vgirpc.OAuthPkceConfig{AllowedReturnOrigins: allow}); err != nil {
		return nil
	}
	return hs
}

func c27Exec(c *Case) {
	var env *c27Env
	var valSrv *vgirpc.HttpServer
	valKey := ""
	defer func() { env.Close() }()
	bad := func(l string) { c.Out(l, "err:bad-script") }
	for _, l := range c.Lines {
		f := strings.Split(l, " ")
		if len(f) == 0 || f[0] == "" {
			continue
		}
		switch f[0] {
		case "pack":
			if len(f) != 7 {
				bad(l)
				continue
			}
			v, s, u, r, key := MustUnX(f[1]), MustUnX(f[2]), MustUnX(f[3]), MustUnX(f[4]), MustUnX(f[5])
			t, _ := strconv.ParseInt(f[6], 10, 64)
			ck := vgirpc.VerifC27Pack(string(v), string(s), string(u), string(r), key, t)
			c.Stat("pack")
			c.Out(l, XS(ck))
			// oracle: what was packed comes back exactly (maxAge 0 = no age check)
			if len(v) < 65536 && len(s) < 65536 && len(u) < 65536 && len(r) < 65536 {
				gv, gs, gu, gr, err := vgirpc.VerifC27Unpack(ck, key, 0)
				if err != nil || gv != string(v) || gs != string(s) || gu != string(u) || gr != string(r) {
					c.Oracle("cookie-roundtrip-mismatch", fmt.Sprintf("%q: unpack(pack(fields)) = (%q,%q,%q,%q,%v)", l, gv, gs, gu, gr, err))
				}
			}
		case "unpack":
			if len(f) != 4 {
				bad(l)
				continue
			}
			key := MustUnX(f[2])
			maxAge, _ := strconv.Atoi(f[3])
			var obs, ck string
			var honest, good bool
			var want c27Fields
			var gv, gs, gu, gr string
			var err error
			now := c27SameSecond(func(now int64) {
				ck, _, honest, want, good = c27ResolveCookie(f[1], nil, key, now)
				if !good {
					return
				}
				gv, gs, gu, gr, err = vgirpc.VerifC27Unpack(ck, key, maxAge)
			})
			if !good {
				bad(l)
				continue
			}
			if err != nil {
				obs = "err"
				c.Stat("unpack-err")
			} else {
				obs = fmt.Sprintf("ok %s %s %s %s", XS(gv), XS(gs), XS(gu), XS(gr))
				c.Stat("unpack-ok")
			}
			c.Out(fmt.Sprintf("unpack %s %s %d %d", XS(ck), f[2], maxAge, now), obs)
			c27UnpackOracle(c, l, ck, key, maxAge, now, err == nil, c27Fields{[]byte(gv), []byte(gs), []byte(gu), []byte(gr)}, honest, want)
		case "parse":
			if len(f) != 2 {
				bad(l)
				continue
			}
			u := UnXS(f[1])
			p, err := url.Parse(u)
			if err != nil {
				c.Stat("parse-err")
				c.Out(l, "err")
			} else {
				c.Stat("parse-ok")
				if p.Host != "" {
					c.Stat("parse-host")
				}
				c.Out(l, fmt.Sprintf("ok %s %s %s %s", XS(p.Scheme), XS(p.Host), XS(p.Hostname()), XS(p.Port())))
			}
		case "origurl":
			if len(f) != 3 {
				bad(l)
				continue
			}
			u, pfx := UnXS(f[1]), UnXS(f[2])
			got := vgirpc.VerifC27ValidateOriginalURL(u, pfx)
			c.Out(l, XS(got))
			c27OrigOracle(c, l, "original-url", u, pfx, got)
		case "returnto":
			if len(f) != 3 {
				bad(l)
				continue
			}
			u := UnXS(f[1])
			allow, ok := c27List(f[2])
			if !ok {
				bad(l)
				continue
			}
			// through the real configuration path: SetOAuthPkce builds the allowlist the validator sees
			vk := strings.Join(allow, "\x00")
			if valSrv == nil || valKey != vk {
				valSrv, valKey = c27ValidatorServer(allow), vk
			}
			if valSrv == nil {
				c.Out(l, "err:setup")
				continue
			}
			got := valSrv.VerifC27ValidateReturnTo(u)
			if direct := vgirpc.VerifC27ValidateReturnTo(u, c27Effective(allow)); direct != got {
				c.Stat("returnto-config-vs-direct-differ")
			}
			allow = c27Effective(allow)
			if got == "" {
				c.Stat("returnto-refused")
			} else {
				c.Stat("returnto-accepted")
			}
			c.Out(fmt.Sprintf("returnto %s %s", f[1], c27ListX(allow)), XS(got))
			if got != "" {
				if got != u {
					c.Oracle("return-to-rewritten", fmt.Sprintf("validateReturnTo(%q) = %q", u, got))
				} else if !c27ReturnAllowed(u, allow) {
					c.Oracle("return-to-not-allowlisted", fmt.Sprintf("validateReturnTo(%q, %q) accepted a URL whose scheme/host[/port] is not listed and is not http localhost", u, allow))
				}
				if len(u) > 2048 {
					c.Oracle("return-to-overlong", fmt.Sprintf("accepted %d bytes", len(u)))
				}
			}
		case "cfg":
			if len(f) != 5 {
				bad(l)
				continue
			}
			allow, ok := c27List(f[2])
			if !ok {
				bad(l)
				continue
			}
			env.Close()
			e, err := newC27Env(UnXS(f[1]), allow, MustUnX(f[3]), f[4] == "1")
			if err != nil {
				env = nil
				c.Out(l, "err:setup")
				continue
			}
			env = e
			c.Out(fmt.Sprintf("cfg %s %s %s", f[1], c27ListX(env.allow), f[3]), "ok "+X(env.sessKey))
		case "page":
			if len(f) != 4 || env == nil {
				bad(l)
				continue
			}
			c27Page(c, env, l, UnXS(f[1]), f[2], f[3] == "1")
		case "callback":
			if len(f) != 6 || env == nil {
				bad(l)
				continue
			}
			c27Callback(c, env, l, f)
		default:
			bad(l)
		}
	}
}

func c27UnpackOracle(c *Case, l, ck string, key []byte, maxAge int, now int64, accepted bool, got c27Fields, honest bool, want c27Fields) {
	ref, created, reason := c27RefUnpack(ck, key, maxAge, now)
	if accepted && reason != "" {
		c.Oracle("cookie-accepted-"+reason, fmt.Sprintf("%q (now=%d created=%d): accepted a cookie that is %s", l, now, created, reason))
		return
	}
	if !accepted && reason == "" {
		c.Oracle("valid-cookie-refused", fmt.Sprintf("%q (now=%d created=%d): refused a cookie with valid MAC, version, age and layout", l, now, created))
		return
	}
	if accepted {
		if !bytes.Equal(got.v, ref.v) || !bytes.Equal(got.s, ref.s) || !bytes.Equal(got.u, ref.u) || !bytes.Equal(got.r, ref.r) {
			c.Oracle("cookie-fields-differ", fmt.Sprintf("%q: unpacked fields differ from the signed payload", l))
		}
	}
	if honest {
		inWindow := maxAge <= 0 || (now-int64(created) >= 0 && now-int64(created) <= int64(maxAge))
		if inWindow && (!accepted || !bytes.Equal(got.v, want.v) || !bytes.Equal(got.s, want.s) || !bytes.Equal(got.u, want.u) || !bytes.Equal(got.r, want.r)) {
			c.Oracle("cookie-roundtrip-mismatch", fmt.Sprintf("%q: an honest in-window cookie did not come back exactly", l))
		}
	}
}

func c27OrigOracle(c *Case, l, what, u, pfx, got string) {
	if !c27GoodPrefix(pfx) {
		return
	}
	fb := pfx
	if fb == "" {
		fb = "/"
	}
	if got == fb {
		c.Stat(what + "-fallback")
		return
	}
	c.Stat(what + "-kept")
	tr := u
	if len(tr) > 2048 {
		tr = tr[:2048]
	}
	if got != tr {
		c.Oracle(what+"-rewritten", fmt.Sprintf("%q: result %q is neither the fallback nor the (truncated) input", l, got))
		return
	}
	// every kept target must be an origin-relative path under the prefix — for EVERY input, also a
	// scheme-relative ("//host"), triple-slash ("///host") or backslash ("/\\host", "\\\\host") one,
	// with an empty or "/" prefix as well: a browser resolves those against another origin
	foreign := "original-url-offsite"
	if what == "callback-redirect" {
		foreign = "redirect-to-foreign-origin"
	}
	if !c27SafeLocal(got) {
		c.Oracle(foreign, fmt.Sprintf("%q: %q is not an origin-relative path (a browser leaves the origin)", l, got))
		return
	}
	if !strings.HasPrefix(got, pfx) {
		c.Oracle(foreign, fmt.Sprintf("%q: %q is not under the prefix %q", l, got, pfx))
	}
}

func c27Page(c *Case, env *c27Env, l, target, tokSpec string, expired bool) {
	hdr := map[string]string{"Accept": "text/html"}
	tok, hasTok := "", false
	if tokSpec != "-" {
		tok, hasTok = UnXS(tokSpec), true
		if !c27CookieSafe(tok) {
			c.Out("nop", "nop")
			return
		}
		hdr["Cookie"] = vgirpc.VerifC27AuthCookieName + "=" + tok
	}
	pu, perr := url.ParseRequestURI(target)
	if perr != nil || strings.ContainsAny(target, " \r\n") {
		c.Out("nop", "nop")
		return
	}
	var resp *http.Response
	var err error
	before := time.Now().Unix()
	resp, err = env.rawGet(target, hdr)
	after := time.Now().Unix()
	if err != nil {
		c.Out("nop", "nop")
		c.Stat("page-transport-error")
		return
	}
	rt := pu.Query().Get("_vgi_return_to")
	known := pu.Path == env.prefix+"/describe" || (env.prefix != "" && pu.Path == env.prefix) || (env.prefix == "" && pu.Path == "/")
	loc := resp.Header.Get("Location")
	ck, hasCk := c27SetCookie(resp, vgirpc.VerifC27SessionCookieName)
	isLogin := resp.StatusCode == 302 && strings.HasPrefix(loc, env.idp.srv.URL+"/authorize?")
	isEarly := resp.StatusCode == 302 && !isLogin

	// whatever the route: a login redirect must pack safe targets, and a redirect carrying the
	// caller's token must go to a listed return URL
	if isLogin && hasCk {
		c27LoginOracle(c, env, l, ck, loc, before, after)
	}
	if resp.StatusCode/100 == 3 && !isLogin && hasTok && strings.Contains(loc, tok) {
		if !c27ReturnAllowed(rt, env.allow) || !strings.HasPrefix(loc, rt) {
			c.Oracle("early-token-to-unlisted-return", fmt.Sprintf("%q: already-authenticated redirect to %q (return_to %q, allow %q)", l, loc, rt, env.allow))
		}
	}
	if !known {
		// not a page route (404 page, mux path-cleaning redirect, logout, ...): outside the model
		c.Stat("page-foreign-route")
		c.Out("nop", "nop")
		return
	}
	exp := "0"
	if expired {
		exp = "1"
	}
	tokArg := "-"
	if hasTok {
		tokArg = XS(tok)
	}
	if isEarly {
		obs := "redirect-notoken " + XS(loc)
		if i := strings.Index(loc, "token="+tok); hasTok && i >= 0 {
			obs = "redirect " + XS(loc[:i+len("token=")+len(tok)])
		}
		c.Stat("page-early")
		c.Out(fmt.Sprintf("early %s %s %s", XS(rt), tokArg, exp), obs)
		return
	}
	c.Out(fmt.Sprintf("early %s %s %s", XS(rt), tokArg, exp), "pass")
	if !env.disc {
		// discovery down: pkceRedirectToOAuth writes nothing; not part of the property
		c.Stat("page-discovery-down")
		return
	}
	if !isLogin || !hasCk {
		c.Stat("page-no-login")
		c.Out(fmt.Sprintf("login %s %s %s x x 0", XS(pu.Path), XS(pu.RawQuery), XS(rt)), fmt.Sprintf("nologin %d", resp.StatusCode))
		return
	}
	c.Stat("page-login")
	raw, ok := c27Decode(ck)
	var v, s []byte
	var t uint64
	if ok && len(raw) >= 49 {
		fl, created, _ := c27RefUnpack(ck, env.sessKey, 0, 0)
		v, s, t = fl.v, fl.s, created
	}
	env.lastCk = ck
	env.lastState = string(s)
	c.Out(fmt.Sprintf("login %s %s %s %s %s %d", XS(pu.Path), XS(pu.RawQuery), XS(rt), X(v), X(s), int64(t)), "cookie "+XS(ck))
}

func c27LoginOracle(c *Case, env *c27Env, l, ck, loc string, before, after int64) {
	fl, created, reason := c27RefUnpack(ck, env.sessKey, 0, 0)
	if reason != "" {
		c.Oracle("login-cookie-invalid", fmt.Sprintf("%q: the session cookie the server set is %s", l, reason))
		return
	}
	if int64(created) < before || int64(created) > after {
		c.Oracle("login-cookie-createdat-not-now", fmt.Sprintf("%q: created_at %d outside [%d,%d]", l, created, before, after))
	}
	au, err := url.Parse(loc)
	if err == nil {
		q := au.Query()
		if q.Get("state") != string(fl.s) {
			c.Oracle("login-state-not-packed", fmt.Sprintf("%q: state sent to the IdP differs from the packed state", l))
		}
		h := sha256.Sum256(fl.v)
		if q.Get("code_challenge") != base64.RawURLEncoding.EncodeToString(h[:]) {
			c.Oracle("login-challenge-not-of-packed-verifier", fmt.Sprintf("%q: code_challenge is not S256 of the packed verifier", l))
		}
	}
	if len(fl.s) < 16 || len(fl.v) < 32 {
		c.Oracle("login-weak-nonce", fmt.Sprintf("%q: state %d bytes, verifier %d bytes", l, len(fl.s), len(fl.v)))
	}
	if string(fl.r) != "" && !c27ReturnAllowed(string(fl.r), env.allow) {
		c.Oracle("login-packs-unlisted-return", fmt.Sprintf("%q: packed return_to %q, allow %q", l, fl.r, env.allow))
	}
	if c27GoodPrefix(env.prefix) && (!c27SafeLocal(string(fl.u)) || !strings.HasPrefix(string(fl.u), env.prefix)) {
		c.Oracle("login-original-url-offsite", fmt.Sprintf("%q: packed original_url %q (prefix %q)", l, fl.u, env.prefix))
	}
}

func c27Callback(c *Case, env *c27Env, l string, f []string) {
	errP, code := UnXS(f[1]), UnXS(f[2])
	state := env.lastState
	if f[3] == "~" {
		// the packed state with its last byte changed: same length, different value
		if n := len(state); n > 0 {
			b := []byte(state)
			b[n-1] ^= 1
			state = string(b)
		}
	} else if f[3] != "$" {
		state = UnXS(f[3])
	}
	idpOK, token := false, ""
	mode := "ok"
	switch {
	case strings.HasPrefix(f[5], "ok:"):
		idpOK, token = true, UnXS(f[5][3:])
	case strings.HasPrefix(f[5], "fail:"):
		mode = f[5][5:]
	default:
		c.Out(l, "err:bad-script")
		return
	}
	var resp *http.Response
	var ck string
	var present, good bool
	var rerr error
	var captured []url.Values
	now := c27SameSecond(func(now int64) {
		ck, present, _, _, good = c27ResolveCookie(f[4], env, env.sessKey, now)
		if !good || (present && !c27CookieSafe(ck)) {
			good = false
			return
		}
		env.idp.mu.Lock()
		env.idp.mode, env.idp.token, env.idp.captured = mode, token, nil
		env.idp.mu.Unlock()
		q := url.Values{}
		if errP != "" {
			q.Set("error", errP)
		}
		if code != "" {
			q.Set("code", code)
		}
		if state != "" {
			q.Set("state", state)
		}
		hdr := map[string]string{"Accept": "text/html"}
		if present {
			hdr["Cookie"] = vgirpc.VerifC27SessionCookieName + "=" + ck
		}
		resp, rerr = env.rawGet(env.prefix+"/_oauth/callback?"+q.Encode(), hdr)
		env.idp.mu.Lock()
		captured = env.idp.captured
		env.idp.mu.Unlock()
	})
	if !good {
		c.Out("nop", "nop")
		return
	}
	if rerr != nil {
		c.Out("nop", "nop")
		c.Stat("callback-transport-error")
		return
	}
	exch := "exch=-"
	if len(captured) > 0 {
		exch = fmt.Sprintf("exch=%s:%s", XS(captured[0].Get("code")), XS(captured[0].Get("code_verifier")))
		c.Stat("callback-exchanged")
	}
	if len(captured) > 1 {
		c.Oracle("code-exchanged-twice", fmt.Sprintf("%q: %d token requests for one callback", l, len(captured)))
	}
	ckArg := "-"
	if present {
		ckArg = XS(ck)
	}
	disc := "0"
	if env.disc {
		disc = "1"
	}
	idpArg := "-"
	if idpOK {
		idpArg = XS(token)
	}
	modelLine := fmt.Sprintf("callback %s %s %s %s %d %s %s", f[1], f[2], XS(state), ckArg, now, disc, idpArg)

	// the property, directly: exchange only with a valid cookie whose packed state is the returned state
	ref, _, reason := c27RefUnpack(ck, env.sessKey, vgirpc.VerifC27SessionMaxAge, now)
	if len(captured) > 0 {
		switch {
		case !present || reason != "":
			c.Oracle("exchange-with-invalid-cookie", fmt.Sprintf("%q: code exchanged although the session cookie is %s", l, ifEmpty(reason, "absent")))
		case state != string(ref.s):
			c.Oracle("exchange-without-state-match", fmt.Sprintf("%q: code exchanged, returned state %q, packed state %q", l, state, ref.s))
		case captured[0].Get("code_verifier") != string(ref.v) || captured[0].Get("code") != code:
			c.Oracle("exchange-wrong-verifier", fmt.Sprintf("%q: token request carried another code/verifier than the packed one", l))
		}
	}
	loc := resp.Header.Get("Location")
	authTok, hasAuth := c27SetCookie(resp, vgirpc.VerifC27AuthCookieName)
	if resp.StatusCode != 302 {
		c.Stat(fmt.Sprintf("callback-refused-%d", resp.StatusCode))
		if hasAuth {
			c.Oracle("token-cookie-on-refusal", fmt.Sprintf("%q: status %d but the auth cookie was set", l, resp.StatusCode))
		}
		c.Out(modelLine, fmt.Sprintf("refused %d %s", resp.StatusCode, exch))
		return
	}
	if len(captured) == 0 {
		c.Oracle("redirect-without-exchange", fmt.Sprintf("%q: 302 to %q without a token exchange", l, loc))
	}
	tokenInLoc := token != "" && strings.Contains(loc, token)
	if hasAuth {
		c.Stat("callback-local")
		c27OrigOracle(c, l, "callback-redirect", string(ref.u), env.prefix, loc)
		if tokenInLoc {
			c.Oracle("token-in-same-origin-redirect", fmt.Sprintf("%q: bearer token inside Location %q", l, loc))
		}
		c.Out(modelLine, fmt.Sprintf("local %s %s %s", XS(loc), XS(authTok), exch))
		return
	}
	c.Stat("callback-external")
	rt := string(ref.r)
	if reason != "" || rt == "" || !strings.HasPrefix(loc, rt) || !c27ReturnAllowed(rt, env.allow) {
		c.Oracle("token-to-unlisted-return", fmt.Sprintf("%q: redirect with token to %q; packed return_to %q, allow %q", l, loc, rt, env.allow))
	}
	obs := "external-notoken " + XS(loc)
	if i := strings.Index(loc, "token="+token); i >= 0 {
		obs = "external " + XS(loc[:i+len("token=")+len(token)])
	}
	c.Out(modelLine, obs+" "+exch)
}

func ifEmpty(s, d string) string {
	if s == "" {
		return d
	}
	return s
}
