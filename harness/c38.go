package main

import (
	"bytes"
	"context"
	"encoding/base64"
	"encoding/hex"
	"encoding/json"
	"errors"
	"fmt"
	"regexp"
	"sort"
	"strconv"
	"strings"

	"github.com/Query-farm/vgi-rpc-go/vgirpc"
)

// C38 — access-log records are schema-valid and describe the call.
//
// Two families of script lines, both answered with the canonical form of the JSON line(s) the real
// AccessLogHook wrote:
//
//	rec <debug> <ver> <proto> <method> <mtype> <server> <phash> <rid> <auth> <remote> <http> <rdata>
//	    <stream> <cancelled> <err> <stats> <egress> <trace> <red> -
//	    one direct OnDispatchStart/OnDispatchEnd on a fresh hook with exactly this DispatchInfo,
//	    outcome, statistics, egress recorder (installed through the verif hook, then flushed with
//	    the given response byte count), trace provider and claim redactor. Token grammar: see
//	    lean/Vgi/Drive/C38.lean (the model line is this line with the minted stream id filled in).
//
//	http …  /  un …  /  px …  /  ex …   real HTTP histories (c38_http.go): a real HttpServer with the
//	    hook installed, driven by the repo's own HttpClient; every record is compared with the model
//	    applied to the DispatchInfo the framework really passed, and with the bytes that crossed the wire.

func init() {
	Register(&Prop{
		ID: "C38",
		Rule: "direct hook dispatches over random DispatchInfo (unary/stream/odd method types; empty, unicode, quote/control-character strings; " +
			"stream ids absent/well-formed/malformed), outcomes (ok, RpcError, plain error, empty messages), statistics (nil/zero/non-zero), debug on/off, " +
			"payloads of 0..40 bytes (all base64 paddings), egress recorder absent/present (externalized 0/>0), trace providers absent/valid/malformed " +
			"(length, case, non-hex, one half empty)/panicking, claim sets mixing sensitive and harmless names in every letter case incl. Kelvin sign and long s, " +
			"redactors default/verbatim/custom answer/empty/panicking; plus real HTTP histories (unary, producer and exchange streams with continuations, " +
			"failures, cancellation, compression on/off, chunked uploads, authenticated callers with claims, X-Request-ID echo, and connection faults under " +
			"the server: the response write is refused / cut in the middle / loses its last byte at the first, second or third Write, or after a byte budget). " +
			"non-trivial = a rec line or an http history with at least one call; distinct = distinct scripts",
		Gen:  c38Gen,
		Exec: c38Exec,
		NonTrivial: func(lines []string) bool {
			for _, l := range lines {
				if strings.HasPrefix(l, "rec ") || strings.HasPrefix(l, "un ") || strings.HasPrefix(l, "px ") || strings.HasPrefix(l, "ex ") || strings.HasPrefix(l, "dx ") || strings.HasPrefix(l, "dp ") || strings.HasPrefix(l, "conc ") {
					return true
				}
			}
			return false
		},
	})
}

// ---------------------------------------------------------------- generator (direct family)

var c38Strs = []string{"", "a", "S", "svc", "echo", "m\"q", "back\\slash", "new\nline", "tab\t", "ünï", "日本", "<&>", " ", "x y", "0", "null"}

func c38Str(r *Rng) string {
	if r.Chance(8) {
		return XS(string(rune(r.Range(1, 0x2fff))))
	}
	return XS(Pick(r, c38Strs))
}

var c38ClaimKeys = []string{"sub", "iss", "aud", "scope", "email", "Email", "EMAIL_VERIFIED", "user_email", "phone_number", "address", "Address2",
	"name", "Name", "NAME", "names", "username", "given_name", "family_name", "middle_name", "nickname", "preferred_username", "picture", "profile",
	"website", "gender", "birthdate", "password", "PassWord1", "access_token", "refresh_token", "tokens", "client_secret", "api_key", "monkey", "KEY",
	"authorization", "Authorization", "author", "Key", "paſſword", "toKen", "ſecret", "ke", "ey", "emai", "mail", "", "k ey",
	"profilé", "日本", "n", "Nickname", "x-picture-y", "web_site", "websites"}

func c38ClaimVal(r *Rng) string {
	switch r.Intn(6) {
	case 0:
		return "i" + strconv.Itoa(r.Range(-5, 100000))
	case 1:
		return "b" + strconv.Itoa(r.Intn(2))
	case 2:
		return "o" + strconv.Itoa(r.Intn(4))
	default:
		return "s" + hex.EncodeToString([]byte(Pick(r, []string{"", "v", "alice@example.com", "[redacted]", "+1 555", "é", "x\"y"})))
	}
}

func c38Claims(r *Rng, lo, hi int) string {
	n := r.Range(lo, hi)
	if n == 0 {
		return "-"
	}
	used := map[string]bool{}
	var parts []string
	for i := 0; i < n; i++ {
		k := Pick(r, c38ClaimKeys)
		if used[k] {
			continue
		}
		used[k] = true
		parts = append(parts, XS(k)+"~"+c38ClaimVal(r))
	}
	return strings.Join(parts, ";")
}

func c38HexID(r *Rng, n int) string {
	const digits = "0123456789abcdef"
	b := make([]byte, n)
	for i := range b {
		b[i] = digits[r.Intn(16)]
	}
	return string(b)
}

func c38TraceTok(r *Rng) string {
	t, s := c38HexID(r, 32), c38HexID(r, 16)
	switch x := r.Intn(100); {
	case x < 25:
		return "nil"
	case x < 33:
		return "panic"
	case x < 65:
		return XS(t) + "," + XS(s)
	case x < 69:
		return XS(strings.ToUpper(t)) + "," + XS(s)
	case x < 73:
		return XS(t) + "," + XS(strings.ToUpper(s[:1])+s[1:])
	case x < 77:
		return XS(t[:31]) + "," + XS(s)
	case x < 81:
		return XS(t) + "," + XS(s+"0")
	case x < 85:
		return XS("") + "," + XS(s)
	case x < 89:
		return XS(t) + "," + XS("")
	case x < 92:
		return XS("") + "," + XS("")
	case x < 95:
		return XS(t[:8] + "-" + t[9:]) + "," + XS(s)
	case x < 97:
		return XS(t[:31] + "g") + "," + XS(s)
	default:
		return XS(strings.Repeat("0", 32)) + "," + XS(strings.Repeat("0", 16))
	}
}

func c38RecLine(r *Rng) string {
	mtype := XS(Pick(r, []string{"unary", "unary", "stream", "stream", "stream", "", "Stream", "producer"}))
	stream := XS("")
	switch x := r.Intn(100); {
	case x < 45:
	case x < 85:
		stream = XS(c38HexID(r, 32))
	default:
		stream = XS(Pick(r, []string{"abc", strings.ToUpper(c38HexID(r, 32)), c38HexID(r, 31), c38HexID(r, 33), "00000000-0000-0000-0000-000000000000", "zz"}))
	}
	auth := "nil"
	if r.Chance(70) {
		auth = fmt.Sprintf("a:%s:%s:%d:%s", c38Str(r), XS(Pick(r, []string{"", "bearer", "jwt", "mtls"})), r.Intn(2), c38Claims(r, 0, 7))
	}
	errTok := "nil"
	switch x := r.Intn(100); {
	case x < 45:
	case x < 75:
		errTok = "r:" + XS(Pick(r, []string{"ValueError", "RuntimeError", "", "TypeError", "é"})) + ":" + XS(Pick(r, []string{"bad", "", "multi\nline", "q\"uote"}))
	default:
		errTok = "p:" + XS(Pick(r, []string{"boom", "", "EOF", "x: y"}))
	}
	stats := "nil"
	switch x := r.Intn(100); {
	case x < 30:
	case x < 45:
		stats = "0,0,0,0,0,0"
	default:
		stats = fmt.Sprintf("%d,%d,%d,%d,%d,%d", r.Intn(3), r.Intn(3), r.Intn(50), r.Intn(50), r.Intn(100000), r.Intn(100000))
	}
	egress := "nil"
	if r.Chance(50) {
		egress = fmt.Sprintf("%s,%d,%d,%d", XS(Pick(r, []string{"", "req-1", c38HexID(r, 32)})), Pick(r, []int{0, 1, 17, 4096, 1 << 33}),
			Pick(r, []int{0, 0, 1, 1 << 20}), Pick(r, []int{0, 5, 999, 1 << 34}))
	}
	red := "default"
	switch x := r.Intn(100); {
	case x < 60:
	case x < 72:
		red = "panic"
	case x < 80:
		red = "verbatim"
	default:
		red = "c:" + c38Claims(r, 0, 4)
	}
	return fmt.Sprintf("rec %d %s %s %s %s %s %s %s %s %s %d %s %s %d %s %s %s %s %s -",
		r.Intn(2), XS(Pick(r, []string{"", "", "1.2.3", "v\"9"})), c38Str(r), c38Str(r), mtype, c38Str(r), XS(Pick(r, []string{strings.Repeat("a", 64), "", "h"})),
		XS(Pick(r, []string{"", "", "rid-7", "ünï"})), auth, XS(Pick(r, []string{"", "127.0.0.1:5000", "[::1]:9"})),
		Pick(r, []int{0, 0, 200, 400, 500, -1}), X(r.Bytes(Pick(r, []int{0, 0, 1, 2, 3, 4, 5, 6, 7, 40}))), stream, Pick(r, []int{0, 0, 0, 1}),
		errTok, stats, egress, c38TraceTok(r), red)
}

func c38Gen(g *Gen) {
	r := g.Rng
	for i, n := 0, g.N(700, 10000); i < n; i++ {
		var lines []string
		for k, m := 0, r.Range(1, 6); k < m; k++ {
			lines = append(lines, c38RecLine(r))
		}
		g.Case(lines...)
	}
	c38GenHTTP(g)
}

// ---------------------------------------------------------------- token parsing (mirrors Drive/C38.lean)

type c38Claim struct {
	k string
	v string // token s<hex> | i<int> | b0 | b1 | o<tag>
}

func c38ParseClaims(tok string) ([]c38Claim, bool) {
	if tok == "-" {
		return nil, true
	}
	var out []c38Claim
	for _, p := range strings.Split(tok, ";") {
		kv := strings.Split(p, "~")
		if len(kv) != 2 {
			return nil, false
		}
		k, ok := UnX(kv[0])
		if !ok || len(kv[1]) == 0 {
			return nil, false
		}
		out = append(out, c38Claim{string(k), kv[1]})
	}
	return out, true
}

func c38ClaimValue(tok string) any {
	switch tok[0] {
	case 's':
		b, _ := hex.DecodeString(tok[1:])
		return string(b)
	case 'i':
		n, _ := strconv.Atoi(tok[1:])
		return n
	case 'b':
		return tok == "b1"
	default:
		n, _ := strconv.Atoi(tok[1:])
		return map[string]any{"__o": n, "email": "nested@example.com", "list": []any{1, "two"}}
	}
}

func c38ClaimMap(cs []c38Claim) map[string]any {
	if cs == nil {
		return nil
	}
	m := map[string]any{}
	for _, c := range cs {
		m[c.k] = c38ClaimValue(c.v)
	}
	return m
}

// c38ClaimsTok renders a claims map (as found on a real AuthContext) back into the token form.
func c38ClaimsTok(m map[string]any) string {
	if len(m) == 0 {
		return "-"
	}
	keys := make([]string, 0, len(m))
	for k := range m {
		keys = append(keys, k)
	}
	sort.Strings(keys)
	parts := make([]string, 0, len(keys))
	for _, k := range keys {
		parts = append(parts, XS(k)+"~"+c38ValTok(m[k]))
	}
	return strings.Join(parts, ";")
}

func c38ValTok(v any) string {
	switch x := v.(type) {
	case string:
		return "s" + hex.EncodeToString([]byte(x))
	case int:
		return "i" + strconv.Itoa(x)
	case int64:
		return "i" + strconv.FormatInt(x, 10)
	case bool:
		if x {
			return "b1"
		}
		return "b0"
	case json.Number:
		if n, err := x.Int64(); err == nil {
			return "i" + strconv.FormatInt(n, 10)
		}
		return "f" + x.String()
	case map[string]any:
		if t, ok := x["__o"]; ok {
			switch n := t.(type) {
			case int:
				return "o" + strconv.Itoa(n)
			case json.Number:
				return "o" + n.String()
			}
		}
		return "?map"
	case nil:
		return "null"
	}
	return fmt.Sprintf("?%T", v)
}

// ---------------------------------------------------------------- canonical form of a written line

var c38TsRe = regexp.MustCompile(`^\d{4}-\d{2}-\d{2}T\d{2}:\d{2}:\d{2}\.\d{3}Z$`)

func c38Canon(line []byte) (string, map[string]any, error) {
	dec := json.NewDecoder(bytes.NewReader(line))
	dec.UseNumber()
	var m map[string]any
	if err := dec.Decode(&m); err != nil {
		return "", nil, err
	}
	if dec.More() {
		return "", nil, errors.New("trailing data after the JSON object")
	}
	keys := make([]string, 0, len(m))
	for k := range m {
		keys = append(keys, k)
	}
	sort.Strings(keys)
	parts := make([]string, 0, len(keys))
	for _, k := range keys {
		v := m[k]
		var s string
		switch {
		case k == "timestamp":
			if str, ok := v.(string); ok && c38TsRe.MatchString(str) {
				s = "ts"
			} else {
				s = "badts"
			}
		case k == "duration_ms":
			if n, ok := v.(json.Number); ok {
				if f, err := n.Float64(); err == nil && f >= 0 {
					s = "num"
				} else {
					s = "badnum"
				}
			} else {
				s = "badnum"
			}
		case k == "claims":
			cm, ok := v.(map[string]any)
			if !ok {
				s = "?claims"
				break
			}
			type kv struct{ k, v string }
			var items []kv
			for ck, cv := range cm {
				items = append(items, kv{hex.EncodeToString([]byte(ck)), c38ValTok(cv)})
			}
			sort.Slice(items, func(i, j int) bool { return items[i].k < items[j].k })
			var ps []string
			for _, it := range items {
				ps = append(ps, "x"+it.k+"~"+it.v)
			}
			s = "{" + strings.Join(ps, ";") + "}"
		default:
			s = c38ValTok(v)
		}
		parts = append(parts, k+"="+s)
	}
	return strings.Join(parts, " "), m, nil
}

// ---------------------------------------------------------------- property oracles on a real record

var c38Hex32 = regexp.MustCompile(`^[0-9a-f]{32}$`)
var c38Hex16 = regexp.MustCompile(`^[0-9a-f]{16}$`)

// words of the redaction policy, restated by hand (ASCII names only are judged by this oracle)
var c38Sensitive = []string{"password", "token", "secret", "key", "authorization", "email", "phone", "address", "birthdate", "gender",
	"given_name", "family_name", "middle_name", "nickname", "preferred_username", "picture", "profile", "website"}

func c38IsASCII(s string) bool {
	for i := 0; i < len(s); i++ {
		if s[i] >= 0x80 {
			return false
		}
	}
	return true
}

func c38SensitiveName(k string) bool {
	l := strings.ToLower(k)
	if l == "name" {
		return true
	}
	for _, w := range c38Sensitive {
		if strings.Contains(l, w) {
			return true
		}
	}
	return false
}

type c38Expect struct {
	streamFromFramework bool   // stream id must be well-formed
	hasPayload          bool   // the dispatch carried the request payload
	payload             []byte // …these bytes
	claimsIn            map[string]any
	redactor            string // default | panic | other
	where               string
}

func c38Oracles(c *Case, raw []byte, m map[string]any, ex c38Expect) {
	if !bytes.HasSuffix(raw, []byte("\n")) || bytes.Count(raw, []byte("\n")) != 1 {
		c.Oracle("not-one-json-line", fmt.Sprintf("%s: record is not exactly one line: %q", ex.where, raw))
	}
	// required fields and types
	for _, k := range []string{"timestamp", "level", "logger", "message", "server_id", "protocol", "protocol_hash", "method", "method_type",
		"principal", "auth_domain", "remote_addr", "status", "error_type"} {
		if _, ok := m[k].(string); !ok {
			c.Oracle("required-field-missing-or-mistyped", fmt.Sprintf("%s: field %q is %T, want string", ex.where, k, m[k]))
		}
	}
	if _, ok := m["authenticated"].(bool); !ok {
		c.Oracle("required-field-missing-or-mistyped", fmt.Sprintf("%s: authenticated is %T, want bool", ex.where, m["authenticated"]))
	}
	if _, ok := m["duration_ms"].(json.Number); !ok {
		c.Oracle("required-field-missing-or-mistyped", fmt.Sprintf("%s: duration_ms is %T, want number", ex.where, m["duration_ms"]))
	}
	if ts, _ := m["timestamp"].(string); !c38TsRe.MatchString(ts) {
		c.Oracle("required-field-missing-or-mistyped", fmt.Sprintf("%s: timestamp %q is not an RFC 3339 millisecond UTC time", ex.where, ts))
	}
	if st, _ := m["status"].(string); st != "ok" && st != "error" {
		c.Oracle("required-field-missing-or-mistyped", fmt.Sprintf("%s: status %q", ex.where, st))
	}
	// stream id
	if m["method_type"] == "stream" {
		sid, ok := m["stream_id"].(string)
		if !ok {
			c.Oracle("stream-id-missing-or-malformed", fmt.Sprintf("%s: stream record without stream_id", ex.where))
		} else if ex.streamFromFramework && !c38Hex32.MatchString(sid) {
			c.Oracle("stream-id-missing-or-malformed", fmt.Sprintf("%s: stream_id %q is not 32 lower-case hex characters", ex.where, sid))
		}
	}
	// trace pair
	t, tok := m["trace_id"]
	s, sok := m["span_id"]
	if tok != sok {
		c.Oracle("trace-pair-broken", fmt.Sprintf("%s: trace_id present=%v span_id present=%v", ex.where, tok, sok))
	} else if tok {
		ts, _ := t.(string)
		ss, _ := s.(string)
		if !c38Hex32.MatchString(ts) || !c38Hex16.MatchString(ss) {
			c.Oracle("trace-pair-broken", fmt.Sprintf("%s: malformed trace pair %q / %q", ex.where, ts, ss))
		}
	}
	// payload or marker
	if ex.hasPayload {
		rd, hasRD := m["request_data"].(string)
		_, hasOrig := m["original_request_bytes"].(json.Number)
		marker := m["truncated"] == "payload_omitted"
		switch {
		case hasRD && !marker && m["original_request_bytes"] == nil:
			if rd != base64.StdEncoding.EncodeToString(ex.payload) {
				c.Oracle("payload-neither-nor-both", fmt.Sprintf("%s: request_data is not the base64 of the request payload", ex.where))
			}
		case !hasRD && marker && hasOrig:
			if n, _ := m["original_request_bytes"].(json.Number).Int64(); n != int64(base64.StdEncoding.EncodedLen(len(ex.payload))) {
				c.Oracle("payload-neither-nor-both", fmt.Sprintf("%s: original_request_bytes=%d for a %d-byte payload", ex.where, n, len(ex.payload)))
			}
		default:
			c.Oracle("payload-neither-nor-both", fmt.Sprintf("%s: request_data present=%v, truncated=%v, original_request_bytes=%v", ex.where, hasRD, m["truncated"], m["original_request_bytes"]))
		}
	}
	// claims
	cm, _ := m["claims"].(map[string]any)
	switch ex.redactor {
	case "panic":
		if _, present := m["claims"]; present {
			c.Oracle("claims-after-redactor-panic", fmt.Sprintf("%s: redactor panicked but the record carries claims", ex.where))
		}
	case "default":
		for k, v := range ex.claimsIn {
			if !c38IsASCII(k) {
				continue
			}
			got, present := cm[k]
			if !present {
				c.Oracle("claim-not-redacted", fmt.Sprintf("%s: claim %q disappeared under the default policy", ex.where, k))
				continue
			}
			if c38SensitiveName(k) {
				if got != "[redacted]" {
					c.Oracle("claim-not-redacted", fmt.Sprintf("%s: sensitive claim %q logged as %v", ex.where, k, got))
				}
			} else if c38ValTok(got) != c38ValTok(v) {
				c.Oracle("claim-value-changed", fmt.Sprintf("%s: harmless claim %q logged as %v, was %v", ex.where, k, got, v))
			}
		}
	}
}

// ---------------------------------------------------------------- exec

type c38Buf struct{ chunks [][]byte }

func (b *c38Buf) Write(p []byte) (int, error) {
	b.chunks = append(b.chunks, append([]byte(nil), p...))
	return len(p), nil
}

func c38Exec(c *Case) {
	var h *c38HTTP
	defer func() {
		vgirpc.SetTraceContextProvider(nil)
		vgirpc.SetClaimRedactor(nil)
		if h != nil {
			h.close()
		}
	}()
	for _, l := range c.Lines {
		f := strings.Fields(l)
		if len(f) == 0 {
			continue
		}
		switch {
		case f[0] == "rec" && len(f) == 21:
			c38Direct(c, l, f)
		case f[0] == "http":
			if h != nil {
				h.close()
			}
			h = c38NewHTTP(c, l, f)
		case f[0] == "un" || f[0] == "px" || f[0] == "ex" || f[0] == "fault" || f[0] == "dx" || f[0] == "dp" || f[0] == "conc":
			if h == nil {
				c.Out(l, "err:no-server")
				continue
			}
			h.call(l, f)
		default:
			c.Out(l, "bad-op")
		}
	}
}

func c38InstallTrace(tok string) bool {
	switch {
	case tok == "nil":
		vgirpc.SetTraceContextProvider(nil)
	case tok == "panic":
		vgirpc.SetTraceContextProvider(func(context.Context) (string, string) { panic("trace provider exploded") })
	default:
		p := strings.Split(tok, ",")
		if len(p) != 2 {
			return false
		}
		t, ok1 := UnX(p[0])
		s, ok2 := UnX(p[1])
		if !ok1 || !ok2 {
			return false
		}
		ts, ss := string(t), string(s)
		vgirpc.SetTraceContextProvider(func(context.Context) (string, string) { return ts, ss })
	}
	return true
}

// c38InstallRedactor installs the policy named by tok and returns the token the model gets
// (for the verbatim policy: the claims it will be handed), plus the oracle's view of it.
func c38InstallRedactor(tok string, claimsTok func() string) (modelTok, kind string, ok bool) {
	switch {
	case tok == "default":
		vgirpc.SetClaimRedactor(nil)
		return "default", "default", true
	case tok == "panic":
		vgirpc.SetClaimRedactor(func(map[string]any) map[string]any { panic("redactor exploded") })
		return "panic", "panic", true
	case tok == "verbatim":
		vgirpc.SetClaimRedactor(vgirpc.NoClaimRedaction)
		return "c:" + claimsTok(), "other", true
	case strings.HasPrefix(tok, "c:"):
		cs, ok := c38ParseClaims(tok[2:])
		if !ok {
			return "", "", false
		}
		answer := c38ClaimMap(cs)
		vgirpc.SetClaimRedactor(func(map[string]any) map[string]any { return answer })
		return "c:" + c38ClaimsTok(answer), "other", true
	}
	return "", "", false
}

func c38Direct(c *Case, l string, f []string) {
	bad := func() { c.Out(l, "bad-op") }
	str := func(i int) (string, bool) {
		b, ok := UnX(f[i])
		return string(b), ok
	}
	ver, ok1 := str(2)
	proto, ok2 := str(3)
	method, ok3 := str(4)
	mtype, ok4 := str(5)
	server, ok5 := str(6)
	phash, ok6 := str(7)
	rid, ok7 := str(8)
	remote, ok8 := str(10)
	rdata, ok9 := UnX(f[12])
	stream, ok10 := str(13)
	httpStatus, e1 := strconv.Atoi(f[11])
	if !(ok1 && ok2 && ok3 && ok4 && ok5 && ok6 && ok7 && ok8 && ok9 && ok10) || e1 != nil || f[20] != "-" {
		bad()
		return
	}
	info := vgirpc.DispatchInfo{Method: method, MethodType: mtype, ServerID: server, Protocol: proto, ProtocolHash: phash,
		RequestID: rid, RemoteAddr: remote, HTTPStatus: httpStatus, RequestData: rdata, StreamID: stream, Cancelled: f[14] == "1"}
	var claimsIn map[string]any
	if f[9] != "nil" {
		p := strings.Split(f[9], ":")
		if len(p) != 5 || p[0] != "a" {
			bad()
			return
		}
		pr, okp := UnX(p[1])
		dm, okd := UnX(p[2])
		cs, okc := c38ParseClaims(p[4])
		if !okp || !okd || !okc {
			bad()
			return
		}
		claimsIn = c38ClaimMap(cs)
		info.Auth = &vgirpc.AuthContext{Principal: string(pr), Domain: string(dm), Authenticated: p[3] == "1", Claims: claimsIn}
		// the model sees the claims as a map (duplicates already collapsed, order irrelevant)
		f[9] = fmt.Sprintf("a:%s:%s:%s:%s", p[1], p[2], p[3], c38ClaimsTok(claimsIn))
	}
	var err error
	switch {
	case f[15] == "nil":
	case strings.HasPrefix(f[15], "r:"):
		p := strings.Split(f[15], ":")
		if len(p) != 3 {
			bad()
			return
		}
		t, _ := UnX(p[1])
		m, _ := UnX(p[2])
		err = &vgirpc.RpcError{Type: string(t), Message: string(m)}
	case strings.HasPrefix(f[15], "p:"):
		m, _ := UnX(f[15][2:])
		err = errors.New(string(m))
	default:
		bad()
		return
	}
	var stats *vgirpc.CallStatistics
	if f[16] != "nil" {
		p := strings.Split(f[16], ",")
		if len(p) != 6 {
			bad()
			return
		}
		v := make([]int64, 6)
		for i := range p {
			v[i], _ = strconv.ParseInt(p[i], 10, 64)
		}
		stats = &vgirpc.CallStatistics{InputBatches: v[0], OutputBatches: v[1], InputRows: v[2], OutputRows: v[3], InputBytes: v[4], OutputBytes: v[5]}
	}
	ctx := context.Background()
	var finish func(int64)
	var respBytes int64
	if f[17] != "nil" {
		p := strings.Split(f[17], ",")
		if len(p) != 4 {
			bad()
			return
		}
		erid, _ := UnX(p[0])
		rq, _ := strconv.ParseInt(p[1], 10, 64)
		ext, _ := strconv.ParseInt(p[2], 10, 64)
		respBytes, _ = strconv.ParseInt(p[3], 10, 64)
		ctx, finish = vgirpc.VerifC38WithEgress(ctx, string(erid), rq, ext)
	}
	if !c38InstallTrace(f[18]) {
		bad()
		return
	}
	redTok, redKind, ok := c38InstallRedactor(f[19], func() string { return c38ClaimsTok(claimsIn) })
	if !ok {
		bad()
		return
	}
	f[19] = redTok
	buf := &c38Buf{}
	hook := vgirpc.NewAccessLogHook(buf, ver)
	hook.SetDebug(f[1] == "1")
	ctx2, tok := hook.OnDispatchStart(ctx, info)
	hook.OnDispatchEnd(ctx2, tok, info, stats, err)
	if finish != nil {
		if len(buf.chunks) != 0 {
			c.Oracle("record-before-flush", "an HTTP record was written before the egress recorder flushed")
		}
		finish(respBytes)
	}
	vgirpc.SetTraceContextProvider(nil)
	vgirpc.SetClaimRedactor(nil)
	if len(buf.chunks) != 1 {
		c.Oracle("not-one-json-line", fmt.Sprintf("%d writes for one dispatch", len(buf.chunks)))
		f[20] = "x"
		c.Out(strings.Join(f, " "), fmt.Sprintf("writes=%d", len(buf.chunks)))
		return
	}
	raw := buf.chunks[0]
	canon, m, perr := c38Canon(raw)
	if perr != nil {
		c.Oracle("not-one-json-line", fmt.Sprintf("record does not parse: %v: %q", perr, raw))
		f[20] = "x"
		c.Out(strings.Join(f, " "), "unparsable")
		return
	}
	// environment: the freshly minted stream id (random) is read back
	f[20] = "x"
	if mtype == "stream" && stream == "" {
		if sid, _ := m["stream_id"].(string); c38Hex32.MatchString(sid) {
			f[20] = "x" + sid
		}
	}
	c38Oracles(c, raw, m, c38Expect{
		streamFromFramework: stream == "" || c38Hex32.MatchString(stream),
		hasPayload:          len(rdata) > 0,
		payload:             rdata,
		claimsIn:            claimsIn,
		redactor:            redKind,
		where:               "direct",
	})
	if finish != nil {
		// over HTTP the two byte counts must be the recorder's
		p := strings.Split(f[17], ",")
		if c38ValTok(m["request_bytes"]) != "i"+p[1] || c38ValTok(m["response_bytes"]) != "i"+p[3] {
			c.Oracle("bytes-mismatch", fmt.Sprintf("recorder saw request=%s response=%s, record says %v / %v", p[1], p[3], m["request_bytes"], m["response_bytes"]))
		}
		c.Stat("direct-egress")
	}
	c.Stat("direct-" + mtype)
	c.Out(strings.Join(f, " "), canon)
}
