package main

// Scripted handler family, stream half (shared by C06 and C37; needs c04_family.go).
//
// Registered methods (params: {script utf8}):
//   p_plain  Producer            output {x:int64}
//   p_hdr    ProducerWithHeader  output {x:int64}, header {n:int64,note:utf8}
//   e_plain  Exchange            output {x:int64}, input {x:int64}
//   e_hdr    ExchangeWithHeader  same + header
//   d_hdr    DynamicStreamWithHeader (mode decided by the state the script returns)
//
// Stream script (tokens):
//   INIT <logs> <init>  TURNS <n> {<turn>}*n  REST <turn>
//   init ::= ok <prod|exch|both|neither> <absent|ok|err|panic> <-|headerToken> <-|decl>
//          | err <errval> | panic <panicval> | nil
//   turn ::= <nops> {op}*nops <end>
//   op   ::= log <lvl> <msg> <k> {<key> <val>}*k | emit <valueToken> <k> {<key> <val>}*k <p|i>
//          | echo <p|i> | finish <p|i>
//   end  ::= ok | err <errval> | panic <panicval>
// The stream state IS the script plus a cursor (gob-encodable, so it also runs over HTTP); it
// records every callback it receives in a side log keyed by a stream id.

import (
	"context"
	"errors"
	"fmt"
	"strconv"
	"strings"
	"sync"

	"github.com/apache/arrow-go/v18/arrow"
	"github.com/apache/arrow-go/v18/arrow/array"
	"github.com/apache/arrow-go/v18/arrow/compute"
	"github.com/apache/arrow-go/v18/arrow/memory"

	"github.com/Query-farm/vgi-rpc-go/vgirpc"
)

var (
	famOutSchema = arrow.NewSchema([]arrow.Field{{Name: "x", Type: arrow.PrimitiveTypes.Int64}}, nil)
	famInSchema  = arrow.NewSchema([]arrow.Field{{Name: "x", Type: arrow.PrimitiveTypes.Int64}}, nil)
	famHdrSchema = arrow.NewSchema([]arrow.Field{
		{Name: "n", Type: arrow.PrimitiveTypes.Int64},
		{Name: "note", Type: arrow.BinaryTypes.String},
	}, nil)
)

type famHeader struct {
	N    int64  `arrow:"n"`
	Note string `arrow:"note"`
}

func (famHeader) ArrowSchema() *arrow.Schema { return famHdrSchema }

func famHeaderToken(h famHeader) string {
	return fmt.Sprintf("rows=1[%s|%s]", famTokI64(h.N), famTokStr(h.Note))
}

func famParseHeaderToken(tok string) (famHeader, error) {
	rows, err := famParseBatchToken(tok)
	if err != nil || len(rows) != 1 || len(rows[0]) != 2 {
		return famHeader{}, fmt.Errorf("bad header token %q", tok)
	}
	return famHeader{N: famValI64(rows[0][0]), Note: famValStr(rows[0][1])}, nil
}

// famParseBatchToken: `i:5` -> [[i:5]] ; `rows=2[i:1|s:x/i:2|s:x]` -> rows of cell tokens.
func famParseBatchToken(tok string) ([][]string, error) {
	if !strings.HasPrefix(tok, "rows=") {
		return [][]string{{tok}}, nil
	}
	open := strings.IndexByte(tok, '[')
	if open < 0 || !strings.HasSuffix(tok, "]") {
		return nil, fmt.Errorf("bad batch token %q", tok)
	}
	n, err := strconv.Atoi(tok[5:open])
	if err != nil {
		return nil, err
	}
	body := tok[open+1 : len(tok)-1]
	rows := [][]string{}
	if n == 0 {
		return rows, nil
	}
	for _, r := range strings.Split(body, "/") {
		if r == "" {
			rows = append(rows, []string{})
		} else {
			rows = append(rows, strings.Split(r, "|"))
		}
	}
	if len(rows) != n {
		return nil, fmt.Errorf("bad batch token %q", tok)
	}
	return rows, nil
}

// famBuildBatch builds a batch of the given schema from a batch token (cells typed by the schema).
func famBuildBatch(schema *arrow.Schema, tok string, md [][2]string) (arrow.RecordBatch, error) {
	rows, err := famParseBatchToken(tok)
	if err != nil {
		return nil, err
	}
	mem := memory.DefaultAllocator
	cols := make([]arrow.Array, schema.NumFields())
	for j, f := range schema.Fields() {
		bld := array.NewBuilder(mem, f.Type)
		for _, r := range rows {
			if j >= len(r) {
				bld.Release()
				return nil, fmt.Errorf("batch token %q has too few cells for %s", tok, famSchemaCanon(schema))
			}
			cell := r[j]
			switch b := bld.(type) {
			case *array.Int64Builder:
				b.Append(famValI64(cell))
			case *array.Int32Builder:
				n, err := strconv.ParseInt(strings.TrimPrefix(cell, "i32:"), 10, 32)
				if err != nil {
					return nil, err
				}
				b.Append(int32(n))
			case *array.Float64Builder:
				b.Append(famValF64(cell))
			case *array.StringBuilder:
				b.Append(famValStr(cell))
			default:
				return nil, fmt.Errorf("unsupported column type %s", f.Type)
			}
		}
		cols[j] = bld.NewArray()
		bld.Release()
	}
	defer func() {
		for _, c := range cols {
			c.Release()
		}
	}()
	if len(md) > 0 {
		keys, vals := make([]string, len(md)), make([]string, len(md))
		for i, kv := range md {
			keys[i], vals[i] = kv[0], kv[1]
		}
		return array.NewRecordBatchWithMetadata(schema, cols, int64(len(rows)), arrow.NewMetadata(keys, vals)), nil
	}
	return array.NewRecordBatch(schema, cols, int64(len(rows))), nil
}

// ---------------------------------------------------------------- stream scripts

type famOp struct {
	Kind string // log | emit | echo | finish
	Log  famLog
	Val  string
	MD   []vgirpc.KV
	Prop bool
}

type famTurn struct {
	Ops []famOp
	End famOutcome // Kind: "ok" | "err" | "panic"
}

type famInit struct {
	Kind   string // ok | err | panic | nil
	State  string // prod | exch | both | neither
	Hook   string // absent | ok | err | panic
	Header string // "-" or header token
	InSch  string // "-" or "decl"
	Fail   famOutcome
}

type famStreamScript struct {
	InitLogs []famLog
	Init     famInit
	Turns    []famTurn
	Rest     famTurn
}

func (s *famStreamScript) turnAt(k int) famTurn {
	if k < len(s.Turns) {
		return s.Turns[k]
	}
	return s.Rest
}

func famTakeWord(ts []string) (string, []string, error) {
	if len(ts) == 0 {
		return "", nil, errors.New("script: unexpected end")
	}
	return ts[0], ts[1:], nil
}

func famTakeKVs(ts []string) ([]vgirpc.KV, []string, error) {
	k, ts, err := famTakeN(ts)
	if err != nil {
		return nil, nil, err
	}
	var kvs []vgirpc.KV
	for j := 0; j < k; j++ {
		var kv vgirpc.KV
		if kv.Key, ts, err = famTakeX(ts); err != nil {
			return nil, nil, err
		}
		if kv.Value, ts, err = famTakeX(ts); err != nil {
			return nil, nil, err
		}
		kvs = append(kvs, kv)
	}
	return kvs, ts, nil
}

func famKVTokens(kvs []vgirpc.KV) []string {
	out := []string{strconv.Itoa(len(kvs))}
	for _, kv := range kvs {
		out = append(out, XS(kv.Key), XS(kv.Value))
	}
	return out
}

func famTakeProp(ts []string) (bool, []string, error) {
	w, ts, err := famTakeWord(ts)
	if err != nil || (w != "p" && w != "i") {
		return false, nil, fmt.Errorf("script: bad prop flag %q", w)
	}
	return w == "p", ts, nil
}

// famParseEnd parses `ok | err … | panic …`.
func famParseEnd(ts []string) (famOutcome, []string, error) {
	if len(ts) > 0 && ts[0] == "ok" {
		return famOutcome{Kind: "ok"}, ts[1:], nil
	}
	return famParseOutcome(ts)
}

func famParseTurn(ts []string) (famTurn, []string, error) {
	var t famTurn
	n, ts, err := famTakeN(ts)
	if err != nil {
		return t, nil, err
	}
	for i := 0; i < n; i++ {
		var op famOp
		if op.Kind, ts, err = famTakeWord(ts); err != nil {
			return t, nil, err
		}
		switch op.Kind {
		case "log":
			if op.Log.Level, ts, err = famTakeX(ts); err != nil {
				return t, nil, err
			}
			if op.Log.Msg, ts, err = famTakeX(ts); err != nil {
				return t, nil, err
			}
			if op.Log.Extras, ts, err = famTakeKVs(ts); err != nil {
				return t, nil, err
			}
		case "emit":
			if op.Val, ts, err = famTakeWord(ts); err != nil {
				return t, nil, err
			}
			if op.MD, ts, err = famTakeKVs(ts); err != nil {
				return t, nil, err
			}
			if op.Prop, ts, err = famTakeProp(ts); err != nil {
				return t, nil, err
			}
		case "echo", "finish":
			if op.Prop, ts, err = famTakeProp(ts); err != nil {
				return t, nil, err
			}
		default:
			return t, nil, fmt.Errorf("script: bad op %q", op.Kind)
		}
		t.Ops = append(t.Ops, op)
	}
	t.End, ts, err = famParseEnd(ts)
	return t, ts, err
}

func propTok(p bool) string {
	if p {
		return "p"
	}
	return "i"
}

func (t famTurn) tokens() []string {
	out := []string{strconv.Itoa(len(t.Ops))}
	for _, op := range t.Ops {
		switch op.Kind {
		case "log":
			out = append(out, "log", XS(op.Log.Level), XS(op.Log.Msg))
			out = append(out, famKVTokens(op.Log.Extras)...)
		case "emit":
			out = append(out, "emit", op.Val)
			out = append(out, famKVTokens(op.MD)...)
			out = append(out, propTok(op.Prop))
		default:
			out = append(out, op.Kind, propTok(op.Prop))
		}
	}
	if t.End.Kind == "ok" {
		return append(out, "ok")
	}
	return append(out, t.End.tokens()...)
}

func famExpect(ts []string, w string) ([]string, error) {
	if len(ts) == 0 || ts[0] != w {
		return nil, fmt.Errorf("script: expected %q", w)
	}
	return ts[1:], nil
}

func famParseStreamScript(ts []string) (*famStreamScript, []string, error) {
	s := &famStreamScript{}
	var err error
	if ts, err = famExpect(ts, "INIT"); err != nil {
		return nil, nil, err
	}
	if s.InitLogs, ts, err = famParseLogs(ts); err != nil {
		return nil, nil, err
	}
	if s.Init.Kind, ts, err = famTakeWord(ts); err != nil {
		return nil, nil, err
	}
	switch s.Init.Kind {
	case "ok":
		if len(ts) < 4 {
			return nil, nil, errors.New("script: short init")
		}
		s.Init.State, s.Init.Hook, s.Init.Header, s.Init.InSch = ts[0], ts[1], ts[2], ts[3]
		ts = ts[4:]
	case "err", "panic":
		if s.Init.Fail, ts, err = famParseOutcome(append([]string{s.Init.Kind}, ts...)); err != nil {
			return nil, nil, err
		}
	case "nil":
	default:
		return nil, nil, fmt.Errorf("script: bad init %q", s.Init.Kind)
	}
	if ts, err = famExpect(ts, "TURNS"); err != nil {
		return nil, nil, err
	}
	n, ts, err := famTakeN(ts)
	if err != nil {
		return nil, nil, err
	}
	for i := 0; i < n; i++ {
		var t famTurn
		if t, ts, err = famParseTurn(ts); err != nil {
			return nil, nil, err
		}
		s.Turns = append(s.Turns, t)
	}
	if ts, err = famExpect(ts, "REST"); err != nil {
		return nil, nil, err
	}
	if s.Rest, ts, err = famParseTurn(ts); err != nil {
		return nil, nil, err
	}
	return s, ts, nil
}

func (s *famStreamScript) tokens() []string {
	out := append([]string{"INIT"}, famLogsTokens(s.InitLogs)...)
	switch s.Init.Kind {
	case "ok":
		out = append(out, "ok", s.Init.State, s.Init.Hook, s.Init.Header, s.Init.InSch)
	case "nil":
		out = append(out, "nil")
	default:
		out = append(out, s.Init.Fail.tokens()...)
	}
	out = append(out, "TURNS", strconv.Itoa(len(s.Turns)))
	for _, t := range s.Turns {
		out = append(out, t.tokens()...)
	}
	out = append(out, "REST")
	return append(out, s.Rest.tokens()...)
}

// ---------------------------------------------------------------- callback side log

var (
	famCallMu  sync.Mutex
	famCallLog = map[string][]string{}
	famSIDNext int
)

// famLastSID is the id famNewSID handed out last.
func famLastSID() string {
	famCallMu.Lock()
	defer famCallMu.Unlock()
	return fmt.Sprintf("sid%09d", famSIDNext)
}

func famNewSID() string {
	famCallMu.Lock()
	defer famCallMu.Unlock()
	famSIDNext++
	return fmt.Sprintf("sid%09d", famSIDNext) // fixed width: token sizes must not depend on it
}

func famRecord(sid, ev string) {
	famCallMu.Lock()
	famCallLog[sid] = append(famCallLog[sid], ev)
	famCallMu.Unlock()
}

// famTakeCalls returns and forgets the callbacks recorded for sid.
func famTakeCalls(sid string) []string {
	famCallMu.Lock()
	defer famCallMu.Unlock()
	c := famCallLog[sid]
	delete(famCallLog, sid)
	return c
}

// ---------------------------------------------------------------- the state

// FamCore is the whole stream state: the script text and a cursor.
type FamCore struct {
	Script string
	Cursor int
	SID    string
}

func (c *FamCore) script() *famStreamScript {
	s, _, err := famParseStreamScript(strings.Fields(c.Script))
	if err != nil {
		panic("family: unparseable script in state: " + err.Error())
	}
	return s
}

// runTurn interprets one turn. echo is the value token an `echo` op emits.
func (c *FamCore) runTurn(out *vgirpc.OutputCollector, k int, echo string) error {
	t := c.script().turnAt(k)
	for _, op := range t.Ops {
		var err error
		switch op.Kind {
		case "log":
			out.ClientLog(vgirpc.LogLevel(op.Log.Level), op.Log.Msg, op.Log.Extras...)
		case "emit", "echo":
			val := op.Val
			if op.Kind == "echo" {
				val = echo
			}
			b, berr := famBuildBatch(famOutSchema, val, nil)
			if berr != nil {
				panic("family: " + berr.Error())
			}
			if len(op.MD) > 0 {
				err = out.EmitWithMetadata(b, famExtrasMap(op.MD))
			} else {
				err = out.Emit(b)
			}
			if err != nil {
				b.Release()
			}
		case "finish":
			err = out.Finish()
		}
		if err != nil && op.Prop {
			return err
		}
	}
	if t.End.Kind == "ok" {
		return nil
	}
	return t.End.act()
}

func (c *FamCore) produce(out *vgirpc.OutputCollector) error {
	k := c.Cursor
	c.Cursor++
	famRecord(c.SID, "P"+strconv.Itoa(k))
	famMaybeAbortTurn(c.SID, k)
	return c.runTurn(out, k, famTokI64(int64(k)))
}

func (c *FamCore) exchange(in arrow.RecordBatch, out *vgirpc.OutputCollector) error {
	k := c.Cursor
	c.Cursor++
	tok := famBatchToken(in)
	famRecord(c.SID, "X"+strconv.Itoa(k)+"="+tok)
	famMaybeAbortTurn(c.SID, k)
	return c.runTurn(out, k, tok)
}

func (c *FamCore) onCancel() error {
	famRecord(c.SID, "C")
	switch c.script().Init.Hook {
	case "err":
		return errors.New("cancel hook failed")
	case "panic":
		panic("cancel hook panicked")
	}
	return nil
}

// Eight concrete state types: {producer, exchange, both, neither} x {with, without} OnCancel.
type FamStateP struct{ FamCore }
type FamStatePC struct{ FamCore }
type FamStateE struct{ FamCore }
type FamStateEC struct{ FamCore }
type FamStateB struct{ FamCore }
type FamStateBC struct{ FamCore }
type FamStateN struct{ FamCore }
type FamStateNC struct{ FamCore }

func (s *FamStateP) Produce(_ context.Context, out *vgirpc.OutputCollector, _ *vgirpc.CallContext) error {
	return s.produce(out)
}
func (s *FamStatePC) Produce(_ context.Context, out *vgirpc.OutputCollector, _ *vgirpc.CallContext) error {
	return s.produce(out)
}
func (s *FamStatePC) OnCancel(context.Context, *vgirpc.CallContext) error { return s.onCancel() }
func (s *FamStateE) Exchange(_ context.Context, in arrow.RecordBatch, out *vgirpc.OutputCollector, _ *vgirpc.CallContext) error {
	return s.exchange(in, out)
}
func (s *FamStateEC) Exchange(_ context.Context, in arrow.RecordBatch, out *vgirpc.OutputCollector, _ *vgirpc.CallContext) error {
	return s.exchange(in, out)
}
func (s *FamStateEC) OnCancel(context.Context, *vgirpc.CallContext) error { return s.onCancel() }
func (s *FamStateB) Produce(_ context.Context, out *vgirpc.OutputCollector, _ *vgirpc.CallContext) error {
	return s.produce(out)
}
func (s *FamStateB) Exchange(_ context.Context, in arrow.RecordBatch, out *vgirpc.OutputCollector, _ *vgirpc.CallContext) error {
	return s.exchange(in, out)
}
func (s *FamStateBC) Produce(_ context.Context, out *vgirpc.OutputCollector, _ *vgirpc.CallContext) error {
	return s.produce(out)
}
func (s *FamStateBC) Exchange(_ context.Context, in arrow.RecordBatch, out *vgirpc.OutputCollector, _ *vgirpc.CallContext) error {
	return s.exchange(in, out)
}
func (s *FamStateBC) OnCancel(context.Context, *vgirpc.CallContext) error { return s.onCancel() }
func (s *FamStateNC) OnCancel(context.Context, *vgirpc.CallContext) error { return s.onCancel() }

func famNewState(kind string, hook bool, core FamCore) any {
	switch {
	case kind == "prod" && !hook:
		return &FamStateP{core}
	case kind == "prod":
		return &FamStatePC{core}
	case kind == "exch" && !hook:
		return &FamStateE{core}
	case kind == "exch":
		return &FamStateEC{core}
	case kind == "both" && !hook:
		return &FamStateB{core}
	case kind == "both":
		return &FamStateBC{core}
	case !hook:
		return &FamStateN{core}
	default:
		return &FamStateNC{core}
	}
}

var famStateTypesOnce sync.Once

type famStreamParams struct {
	Script string `vgirpc:"script"`
}

// famStreamInit is the scripted init handler. The param script is `<sid> <stream script…>`.
func famStreamInit(_ context.Context, cc *vgirpc.CallContext, p famStreamParams) (*vgirpc.StreamResult, error) {
	f := strings.Fields(p.Script)
	if len(f) < 2 {
		return nil, errors.New("family: empty stream script")
	}
	sid := f[0]
	sc, rest, err := famParseStreamScript(f[1:])
	if err != nil || len(rest) != 0 {
		return nil, fmt.Errorf("family: bad stream script: %v", err)
	}
	for _, l := range sc.InitLogs {
		cc.ClientLog(vgirpc.LogLevel(l.Level), l.Msg, l.Extras...)
	}
	switch sc.Init.Kind {
	case "nil":
		return nil, nil
	case "err", "panic":
		return nil, sc.Init.Fail.act()
	}
	res := &vgirpc.StreamResult{
		OutputSchema: famOutSchema,
		State:        famNewState(sc.Init.State, sc.Init.Hook != "absent", FamCore{Script: strings.Join(f[1:], " "), SID: sid}),
	}
	if sc.Init.InSch == "decl" {
		res.InputSchema = famInSchema
	}
	if sc.Init.Header != "-" {
		h, err := famParseHeaderToken(sc.Init.Header)
		if err != nil {
			return nil, err
		}
		res.Header = h
	}
	return res, nil
}

var famStreamMethods = []string{"p_plain", "p_hdr", "e_plain", "e_hdr", "d_hdr"}

func famRegisterStreams(s *vgirpc.Server) {
	famStateTypesOnce.Do(func() {
		for _, v := range []any{&FamStateP{}, &FamStatePC{}, &FamStateE{}, &FamStateEC{}, &FamStateB{}, &FamStateBC{}, &FamStateN{}, &FamStateNC{}} {
			vgirpc.RegisterStateType(v)
		}
	})
	vgirpc.Producer(s, "p_plain", famOutSchema, famStreamInit)
	vgirpc.ProducerWithHeader(s, "p_hdr", famOutSchema, famHdrSchema, famStreamInit)
	vgirpc.Exchange(s, "e_plain", famOutSchema, famInSchema, famStreamInit)
	vgirpc.ExchangeWithHeader(s, "e_hdr", famOutSchema, famInSchema, famHdrSchema, famStreamInit)
	vgirpc.DynamicStreamWithHeader(s, "d_hdr", famHdrSchema, famStreamInit)
}

// ---------------------------------------------------------------- client input streams

// Input schema variants a client may send.
var famInVariants = map[string]*arrow.Schema{
	"exact":    arrow.NewSchema([]arrow.Field{{Name: "x", Type: arrow.PrimitiveTypes.Int64}}, nil),
	"nullable": arrow.NewSchema([]arrow.Field{{Name: "x", Type: arrow.PrimitiveTypes.Int64, Nullable: true}}, nil),
	"i32":      arrow.NewSchema([]arrow.Field{{Name: "x", Type: arrow.PrimitiveTypes.Int32}}, nil),
	"f64":      arrow.NewSchema([]arrow.Field{{Name: "x", Type: arrow.PrimitiveTypes.Float64}}, nil),
	"utf8":     arrow.NewSchema([]arrow.Field{{Name: "x", Type: arrow.BinaryTypes.String}}, nil),
	"name":     arrow.NewSchema([]arrow.Field{{Name: "y", Type: arrow.PrimitiveTypes.Int64}}, nil),
	"two":      arrow.NewSchema([]arrow.Field{{Name: "x", Type: arrow.PrimitiveTypes.Int64}, {Name: "z", Type: arrow.PrimitiveTypes.Int64}}, nil),
	"swap":     arrow.NewSchema([]arrow.Field{{Name: "x", Type: arrow.PrimitiveTypes.Int32}, {Name: "z", Type: arrow.PrimitiveTypes.Int64}}, nil),
	"empty":    arrow.NewSchema(nil, nil),
}

type famInBatch struct {
	Cancel bool
	Val    string
	MD     []vgirpc.KV
}

// famParseInput parses `IN <variant> <n> {d <val> <k> kvs | c}*n`.
func famParseInput(ts []string) (string, []famInBatch, []string, error) {
	ts, err := famExpect(ts, "IN")
	if err != nil {
		return "", nil, nil, err
	}
	variant, ts, err := famTakeWord(ts)
	if err != nil {
		return "", nil, nil, err
	}
	if _, ok := famInVariants[variant]; !ok {
		return "", nil, nil, fmt.Errorf("script: unknown input schema %q", variant)
	}
	n, ts, err := famTakeN(ts)
	if err != nil {
		return "", nil, nil, err
	}
	var bs []famInBatch
	for i := 0; i < n; i++ {
		var w string
		if w, ts, err = famTakeWord(ts); err != nil {
			return "", nil, nil, err
		}
		switch w {
		case "c":
			bs = append(bs, famInBatch{Cancel: true})
		case "d":
			var b famInBatch
			if b.Val, ts, err = famTakeWord(ts); err != nil {
				return "", nil, nil, err
			}
			if b.MD, ts, err = famTakeKVs(ts); err != nil {
				return "", nil, nil, err
			}
			bs = append(bs, b)
		default:
			return "", nil, nil, fmt.Errorf("script: bad input batch %q", w)
		}
	}
	return variant, bs, ts, nil
}

func famInputTokens(variant string, bs []famInBatch) []string {
	out := []string{"IN", variant, strconv.Itoa(len(bs))}
	for _, b := range bs {
		if b.Cancel {
			out = append(out, "c")
		} else {
			out = append(out, "d", b.Val)
			out = append(out, famKVTokens(b.MD)...)
		}
	}
	return out
}

// famInputStream encodes the client's input stream; a cancel batch is a zero-row batch of the
// stream's schema carrying vgi_rpc.cancel.
func famInputStream(variant string, bs []famInBatch) ([]byte, error) {
	schema := famInVariants[variant]
	var recs []arrow.RecordBatch
	defer func() {
		for _, r := range recs {
			r.Release()
		}
	}()
	for _, b := range bs {
		var rec arrow.RecordBatch
		var err error
		if b.Cancel {
			rec, err = famBuildBatch(schema, "rows=0[]", [][2]string{{vgirpc.MetaCancel, "true"}})
		} else {
			md := [][2]string{}
			for _, kv := range b.MD {
				md = append(md, [2]string{kv.Key, kv.Value})
			}
			rec, err = famBuildBatch(schema, b.Val, md)
		}
		if err != nil {
			return nil, err
		}
		recs = append(recs, rec)
	}
	return famIPC(schema, recs...), nil
}

// famLibCast asks arrow-go (NOT vgirpc) what a batch of schema `variant` becomes when every
// column is cast to the target column type with compute.SafeCastOptions, column by column.
// "-" when the column counts differ, "fail" when some column does not cast.
func famLibCast(variant, val string, target *arrow.Schema) string {
	src := famInVariants[variant]
	if src.NumFields() != target.NumFields() {
		return "-"
	}
	rec, err := famBuildBatch(src, val, nil)
	if err != nil {
		return "-"
	}
	defer rec.Release()
	ctx := compute.WithAllocator(context.Background(), memory.DefaultAllocator)
	cols := make([]arrow.Array, rec.NumCols())
	defer func() {
		for _, c := range cols {
			if c != nil {
				c.Release()
			}
		}
	}()
	for i := range cols {
		tt := target.Field(i).Type
		if arrow.TypeEqual(rec.Column(i).DataType(), tt) {
			rec.Column(i).Retain()
			cols[i] = rec.Column(i)
			continue
		}
		d, err := compute.CastDatum(ctx, compute.NewDatum(rec.Column(i)), compute.SafeCastOptions(tt))
		if err != nil {
			return "fail"
		}
		cols[i] = d.(*compute.ArrayDatum).MakeArray()
		d.Release()
	}
	out := array.NewRecordBatch(target, cols, rec.NumRows())
	defer out.Release()
	return famBatchToken(out)
}

// famFieldsCanon renders a schema for the model: `name:type:0|1,…` or `-` when empty.
func famFieldsCanon(s *arrow.Schema) string {
	if s == nil {
		return "nil"
	}
	if s.NumFields() == 0 {
		return "-"
	}
	p := []string{}
	for _, f := range s.Fields() {
		n := "0"
		if f.Nullable {
			n = "1"
		}
		p = append(p, f.Name+":"+strings.ReplaceAll(f.Type.String(), " ", "")+":"+n)
	}
	return strings.Join(p, ",")
}
