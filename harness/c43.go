package main

import (
	"context"
	"encoding/hex"
	"errors"
	"fmt"
	"regexp"
	"strconv"
	"strings"

	"github.com/Query-farm/vgi-rpc-go/vgirpc"
	vgiotel "github.com/Query-farm/vgi-rpc-go/vgirpc/otel"

	"go.opentelemetry.io/otel/attribute"
	"go.opentelemetry.io/otel/codes"
	"go.opentelemetry.io/otel/propagation"
	sdkmetric "go.opentelemetry.io/otel/sdk/metric"
	"go.opentelemetry.io/otel/sdk/metric/metricdata"
	sdktrace "go.opentelemetry.io/otel/sdk/trace"
	"go.opentelemetry.io/otel/sdk/trace/tracetest"
	"go.opentelemetry.io/otel/trace"
	"go.opentelemetry.io/otel/trace/embedded"
)

// C43 — the OpenTelemetry hook ends every span it starts with the call's outcome.
//
// One instrumented server per case; the real otelHook (obtained through InstrumentServer +
// the verif accessor) is driven directly through the DispatchHook interface, with the SDK's
// tracer provider (in-memory span recorder), a manual metric reader, and a thin tracer wrapper
// that counts End()/late calls and sees the context handed to tracer.Start.
//
//	cfg <tracing> <metrics> <recexc> <tc|tcb|none> <always|never|parent>
//	start <meta> [<method> <mtype> <rid> <server>]   OnDispatchStart; meta = nil | empty | x<key>:x<val>,...; the rest of the
//	                              DispatchInfo varies freely (the model does not get it: it must not matter)
//	end <k> <stats 0/1> <err 0|1|2> [<http> <cancelled>]   OnDispatchEnd of dispatch k with its own token (1 = plain error, 2 = *RpcError, 3 = *RpcError with empty Type, 4 = wrapped empty *RpcError, 5 = empty *RpcError)
//	endnil <k> <stats> <err>      OnDispatchEnd with a foreign (nil) token

func init() {
	Register(&Prop{
		ID: "C43",
		Rule: "random interleavings of 1..8 dispatches (some left in flight, occasional foreign-token and repeated ends) on hooks with every " +
			"tracing/metrics/record-exceptions toggle, propagator TraceContext / TraceContext+Baggage / none, samplers always/never/parent-based; " +
			"method names / method types (unary, stream, other) / request ids / server ids / HTTP status / cancelled flag varied independently per dispatch; " +
			"transport metadata nil/empty/with valid traceparents (flags 00..03, other versions with extra fields), near-miss invalid ones " +
			"(upper case, wrong lengths, zero ids, version ff, reserved flags, extra fields), tracestate valid/invalid, unrelated and wrong-case keys; " +
			"thorough adds every interleaving of 3 dispatches x outcomes. non-trivial = at least one start and one end; distinct = distinct scripts",
		Gen:  c43Gen,
		Exec: c43Exec,
		NonTrivial: func(lines []string) bool {
			s, e := false, false
			for _, l := range lines {
				if strings.HasPrefix(l, "start ") {
					s = true
				}
				if strings.HasPrefix(l, "end ") {
					e = true
				}
				if strings.HasPrefix(l, "call ") {
					s, e = true, true
				}
			}
			return s && e
		},
	})
}

// ---------------------------------------------------------------- generator

func c43Hex(r *Rng, n int) string { return hex.EncodeToString(r.Bytes(n)) }

func c43Traceparent(r *Rng) string {
	tid, sid := c43Hex(r, 16), c43Hex(r, 8)
	flags := fmt.Sprintf("%02x", r.Intn(4))
	good := "00-" + tid + "-" + sid + "-" + flags
	switch x := r.Intn(100); {
	case x < 55:
		return good
	case x < 60:
		return fmt.Sprintf("%02x-%s-%s-%s", r.Range(1, 254), tid, sid, fmt.Sprintf("%02x", r.Intn(256))) + Pick(r, []string{"", "-extra", "-", "-a-b"})
	case x < 63:
		return "ff-" + tid + "-" + sid + "-" + flags
	case x < 67:
		return "00-" + strings.ToUpper(tid) + "-" + sid + "-" + flags
	case x < 70:
		return "00-" + tid + "-" + strings.ToUpper(sid) + "-" + flags
	case x < 73:
		return "00-" + strings.Repeat("0", 32) + "-" + sid + "-" + flags
	case x < 76:
		return "00-" + tid + "-" + strings.Repeat("0", 16) + "-" + flags
	case x < 79:
		return "00-" + tid + "-" + sid + "-" + fmt.Sprintf("%02x", r.Range(4, 255))
	case x < 82:
		return good + Pick(r, []string{"-", "-00", " ", "-x"})
	case x < 85:
		return "00-" + tid[:31] + "-" + sid + "-" + flags
	case x < 88:
		return "00-" + tid + "-" + sid + "0-" + flags
	case x < 90:
		return "00-" + tid + "-" + sid
	case x < 92:
		return "00" + tid + sid + flags
	case x < 94:
		return "0-" + tid + "-" + sid + "-" + flags
	case x < 96:
		return "00-" + tid[:30] + "zz-" + sid + "-" + flags
	case x < 98:
		return " " + good
	default:
		return string(r.Bytes(r.Range(1, 12)))
	}
}

func c43Meta(r *Rng) string {
	switch x := r.Intn(100); {
	case x < 12:
		return "nil"
	case x < 18:
		return "empty"
	}
	var pairs []string
	used := map[string]bool{}
	add := func(k, v string) {
		if used[k] {
			return
		}
		used[k] = true
		pairs = append(pairs, XS(k)+":"+XS(v))
	}
	if r.Chance(75) {
		add("traceparent", c43Traceparent(r))
	} else if r.Chance(30) {
		add(Pick(r, []string{"Traceparent", "TRACEPARENT", "traceparent ", "trace-parent"}), c43Traceparent(r))
	}
	if r.Chance(35) {
		add("tracestate", Pick(r, []string{"vendor=value", "a=1,b=2", "=bad", "k=v,,", "", "congo=t61rcWkgMzE,rojo=00f067aa0ba902b7", strings.Repeat("x", 600)}))
	}
	if r.Chance(40) {
		add("remote_addr", Pick(r, []string{"127.0.0.1:5000", "", "[::1]:80"}))
	}
	if r.Chance(30) {
		add("user_agent", Pick(r, []string{"vgi/1.0", ""}))
	}
	if r.Chance(10) {
		add("baggage", "k=v")
	}
	if r.Chance(5) {
		add("traceparent", "")
	}
	if len(pairs) == 0 {
		return "empty"
	}
	// shuffle
	for i := len(pairs) - 1; i > 0; i-- {
		j := r.Intn(i + 1)
		pairs[i], pairs[j] = pairs[j], pairs[i]
	}
	return strings.Join(pairs, ",")
}

// c43InfoTok: the rest of the DispatchInfo (method, method type, request id, server id) — none of it
// may influence whether the span is ended, its status, its parent or the counter's status.
func c43InfoTok(r *Rng) string {
	return fmt.Sprintf("%s %s %s %s",
		XS(Pick(r, []string{"echo", "produce", "__describe__", "", "ünï", "a b", "exchange"})),
		Pick(r, []string{"unary", "unary", "stream", "stream", "other"}),
		XS(Pick(r, []string{"", "", "req-1", "0123456789abcdef0123456789abcdef"})),
		XS(Pick(r, []string{"srv", "", "server-2"})))
}

func c43Cfg(r *Rng) string {
	b := func(p int) int {
		if r.Chance(p) {
			return 1
		}
		return 0
	}
	return fmt.Sprintf("cfg %d %d %d %s %s", b(85), b(85), b(70), Pick(r, []string{"tc", "tc", "tc", "tcb", "none"}),
		Pick(r, []string{"always", "always", "parent", "never"}))
}

func c43Gen(g *Gen) {
	r := g.Rng
	for i, n := 0, g.N(1500, 20000); i < n; i++ {
		lines := []string{c43Cfg(r)}
		nd := r.Range(1, 8)
		started := 0
		var open []int
		finished := []int{}
		for started < nd || (len(open) > 0 && r.Chance(85)) {
			if started < nd && (len(open) == 0 || r.Chance(50)) {
				lines = append(lines, "start "+c43Meta(r)+" "+c43InfoTok(r))
				open = append(open, started)
				started++
				continue
			}
			if len(open) == 0 {
				break
			}
			j := r.Intn(len(open))
			k := open[j]
			stats, err := r.Intn(2), Pick(r, []int{0, 0, 0, 1, 2, 3, 4, 5})
			if r.Chance(6) {
				lines = append(lines, fmt.Sprintf("endnil %d %d %d", k, stats, err))
				continue
			}
			lines = append(lines, fmt.Sprintf("end %d %d %d %d %d", k, stats, err, Pick(r, []int{0, 0, 200, 400, 500}), Pick(r, []int{0, 0, 0, 1})))
			open = append(open[:j], open[j+1:]...)
			finished = append(finished, k)
			if r.Chance(5) {
				lines = append(lines, fmt.Sprintf("end %d %d %d", Pick(r, finished), r.Intn(2), r.Intn(6)))
			}
			if r.Chance(3) {
				lines = append(lines, fmt.Sprintf("end %d 0 0", started+r.Range(0, 3)))
			}
		}
		g.Case(lines...)
	}
	c43GenE2E(g)
	// malformed: lines before cfg
	for i, n := 0, g.N(20, 100); i < n; i++ {
		g.Case(Pick(r, []string{"start nil", "end 0 0 0", "endnil 0 0 0"}), c43Cfg(r), "start "+c43Meta(r), "end 0 1 1")
	}
	if g.Thorough() {
		tp := XS("traceparent") + ":" + XS("00-4bf92f3577b34da6a3ce929d0e0e4736-00f067aa0ba902b7-01")
		metas := []string{tp, "nil", XS("traceparent") + ":" + XS("00-4bf92f3577b34da6a3ce929d0e0e4736-00f067aa0ba902b7-00")}
		for _, cfg := range []string{"cfg 1 1 1 tc always", "cfg 1 1 0 tc parent", "cfg 0 1 1 tc always", "cfg 1 0 1 none always"} {
			// all interleavings of 3 dispatches (start_i before end_i), all outcome triples
			var rec func(seq []string, started int, open []int)
			rec = func(seq []string, started int, open []int) {
				if started == 3 && len(open) == 0 {
					for o := 0; o < 8; o++ {
						lines := []string{cfg}
						for _, s := range seq {
							if strings.HasPrefix(s, "end ") {
								k, _ := strconv.Atoi(s[4:])
								lines = append(lines, fmt.Sprintf("end %d %d %d", k, (o>>k)&1, (o>>k)&1))
							} else {
								lines = append(lines, s)
							}
						}
						g.Case(lines...)
					}
					return
				}
				if started < 3 {
					rec(append(append([]string{}, seq...), "start "+metas[started]), started+1, append(append([]int{}, open...), started))
				}
				for j, k := range open {
					rest := append(append([]int{}, open[:j]...), open[j+1:]...)
					rec(append(append([]string{}, seq...), fmt.Sprintf("end %d", k)), started, rest)
				}
			}
			rec(nil, 0, nil)
		}
	}
}

// ---------------------------------------------------------------- tracer wrapper

type c43Env struct {
	c        *Case
	hook     vgirpc.DispatchHook
	recorder *tracetest.SpanRecorder
	reader   *sdkmetric.ManualReader
	spans    []*c43Span
	tracing  bool
	metrics  bool
	prop     bool
	toks     []vgirpc.HookToken
	ctxs     []context.Context
	spanOf   []int // dispatch -> index into spans, -1 when no span was started
	metas    []map[string]string
	infos    []vgirpc.DispatchInfo
	// end-to-end family (c43_e2e.go)
	transport string
	srv       *vgirpc.Server
	e2e       *c43E2E
	finished map[int]bool
	cntOK    int64
	cntErr   int64
}

type c43TP struct {
	embedded.TracerProvider
	inner trace.TracerProvider
	env   *c43Env
}

func (p *c43TP) Tracer(name string, opts ...trace.TracerOption) trace.Tracer {
	return &c43Tracer{inner: p.inner.Tracer(name, opts...), env: p.env}
}

type c43Tracer struct {
	embedded.Tracer
	inner trace.Tracer
	env   *c43Env
}

func (t *c43Tracer) Start(ctx context.Context, name string, opts ...trace.SpanStartOption) (context.Context, trace.Span) {
	parent := trace.SpanContextFromContext(ctx)
	ctx2, sp := t.inner.Start(ctx, name, opts...)
	ws := &c43Span{Span: sp, parent: parent, recAtStart: sp.IsRecording()}
	t.env.spans = append(t.env.spans, ws)
	return trace.ContextWithSpan(ctx2, ws), ws
}

type c43Span struct {
	trace.Span
	parent     trace.SpanContext
	recAtStart bool
	endCalls   int
	late       int
}

func (s *c43Span) touch() {
	if s.endCalls > 0 {
		s.late++
	}
}
func (s *c43Span) End(opts ...trace.SpanEndOption) { s.endCalls++; s.Span.End(opts...) }
func (s *c43Span) SetStatus(c codes.Code, d string) { s.touch(); s.Span.SetStatus(c, d) }
func (s *c43Span) SetAttributes(kv ...attribute.KeyValue) {
	s.touch()
	s.Span.SetAttributes(kv...)
}
func (s *c43Span) RecordError(err error, opts ...trace.EventOption) {
	s.touch()
	s.Span.RecordError(err, opts...)
}
func (s *c43Span) AddEvent(name string, opts ...trace.EventOption) {
	s.touch()
	s.Span.AddEvent(name, opts...)
}
func (s *c43Span) SetName(name string) { s.touch(); s.Span.SetName(name) }

func (s *c43Span) render() string {
	status, exc, ended := "unset", 0, s.endCalls > 0
	if ro, ok := s.Span.(sdktrace.ReadOnlySpan); ok {
		switch ro.Status().Code {
		case codes.Ok:
			status = "ok"
		case codes.Error:
			status = "error"
		}
		for _, ev := range ro.Events() {
			if ev.Name == "exception" {
				exc++
			}
		}
		ended = !ro.EndTime().IsZero()
	} else if s.recAtStart {
		status = "?"
	}
	e := "0"
	if ended {
		e = "1"
	}
	return fmt.Sprintf("%d/%s/%d/%s/%d", s.endCalls, e, s.late, status, exc)
}

// ---------------------------------------------------------------- exec

var c43TPRe = regexp.MustCompile(`^00-([0-9a-f]{32})-([0-9a-f]{16})-0([0-3])$`)

func c43ParseMeta(tok string) (map[string]string, bool) {
	switch tok {
	case "nil":
		return nil, true
	case "empty":
		return map[string]string{}, true
	}
	m := map[string]string{}
	for _, p := range strings.Split(tok, ",") {
		kv := strings.Split(p, ":")
		if len(kv) != 2 {
			return nil, false
		}
		k, ok1 := UnX(kv[0])
		v, ok2 := UnX(kv[1])
		if !ok1 || !ok2 {
			return nil, false
		}
		m[string(k)] = string(v)
	}
	return m, true
}

func (e *c43Env) collect() (okN, errN int64, found bool) {
	var rm metricdata.ResourceMetrics
	if err := e.reader.Collect(context.Background(), &rm); err != nil {
		e.c.Oracle("metric-collect-failed", err.Error())
		return
	}
	for _, sm := range rm.ScopeMetrics {
		for _, m := range sm.Metrics {
			if m.Name != "rpc.server.requests" {
				continue
			}
			sum, ok := m.Data.(metricdata.Sum[int64])
			if !ok {
				e.c.Oracle("request-metric-not-a-counter", fmt.Sprintf("%T", m.Data))
				continue
			}
			found = true
			for _, dp := range sum.DataPoints {
				st, _ := dp.Attributes.Value(attribute.Key("status"))
				switch st.AsString() {
				case "ok":
					okN += dp.Value
				case "error":
					errN += dp.Value
				default:
					e.c.Oracle("count-status-unknown", fmt.Sprintf("request counter point with status attribute %q", st.AsString()))
				}
			}
		}
	}
	return
}

func c43B(b bool) string {
	if b {
		return "1"
	}
	return "0"
}

func c43Exec(c *Case) {
	var e *c43Env
	for _, l := range c.Lines {
		f := strings.Fields(l)
		if len(f) == 0 {
			continue
		}
		if e == nil {
			transport := ""
			opts := "-"
			if f[0] == "e2e" && (len(f) == 7 || len(f) == 8) && (f[1] == "pipe" || f[1] == "http") {
				// end-to-end family: the same hook, installed on a server that really serves
				transport = f[1]
				if len(f) == 8 {
					opts = f[7]
				}
				f = append([]string{"cfg"}, f[2:7]...)
			}
			if f[0] != "cfg" || len(f) != 6 {
				c.Out(l, "err:no-cfg")
				continue
			}
			tracing, metrics, recexc := f[1] == "1", f[2] == "1", f[3] == "1"
			e = &c43Env{c: c, tracing: tracing, metrics: metrics, finished: map[int]bool{}, transport: transport}
			var sampler sdktrace.Sampler
			switch f[5] {
			case "never":
				sampler = sdktrace.NeverSample()
			case "parent":
				sampler = sdktrace.ParentBased(sdktrace.AlwaysSample())
			default:
				sampler = sdktrace.AlwaysSample()
			}
			e.recorder = tracetest.NewSpanRecorder()
			tp := sdktrace.NewTracerProvider(sdktrace.WithSampler(sampler), sdktrace.WithSpanProcessor(e.recorder))
			e.reader = sdkmetric.NewManualReader()
			mp := sdkmetric.NewMeterProvider(sdkmetric.WithReader(e.reader))
			cfg := vgiotel.OtelConfig{
				TracerProvider:   &c43TP{inner: tp, env: e},
				MeterProvider:    mp,
				EnableTracing:    tracing,
				EnableMetrics:    metrics,
				RecordExceptions: recexc,
			}
			switch f[4] {
			case "tc":
				cfg.Propagator, e.prop = propagation.TraceContext{}, true
			case "tcb":
				cfg.Propagator, e.prop = propagation.NewCompositeTextMapPropagator(propagation.Baggage{}, propagation.TraceContext{}), true
			}
			srv := vgirpc.NewServer()
			if transport != "" {
				c43RegisterE2E(srv)
			}
			vgiotel.InstrumentServer(srv, cfg)
			e.srv = srv
			e.hook = srv.VerifC43DispatchHook()
			if e.hook == nil {
				c.Oracle("hook-not-installed", "InstrumentServer did not install a dispatch hook")
				c.Out(l, "err:no-hook")
				return
			}
			if transport != "" {
				e.setupE2E(opts)
				c.Stat("e2e-" + transport)
			}
			c.Out(fmt.Sprintf("cfg %s %s %s %s", f[1], f[2], f[3], c43B(e.prop)), "ok")
			continue
		}
		switch {
		case f[0] == "call" && len(f) == 4 && e.transport != "":
			e.call(l, f)
		case f[0] == "start" && (len(f) == 2 || len(f) == 6):
			meta, ok := c43ParseMeta(f[1])
			if !ok {
				c.Out(l, "bad-op")
				continue
			}
			base := vgirpc.DispatchInfo{Method: fmt.Sprintf("m%d", len(e.toks)%3), MethodType: vgirpc.DispatchMethodUnary, ServerID: "srv",
				RequestID: fmt.Sprintf("r%d", len(e.toks))}
			if len(f) == 6 {
				m, ok1 := UnX(f[2])
				rid, ok2 := UnX(f[4])
				sid, ok3 := UnX(f[5])
				if !ok1 || !ok2 || !ok3 {
					c.Out(l, "bad-op")
					continue
				}
				base = vgirpc.DispatchInfo{Method: string(m), MethodType: f[3], ServerID: string(sid), RequestID: string(rid)}
				if f[3] == "stream" {
					base.StreamID = "00000000000000000000000000000001"
				}
			}
			e.start(l, f[1], meta, base)
		case (f[0] == "end" || f[0] == "endnil") && (len(f) == 4 || len(f) == 6):
			k, err := strconv.Atoi(f[1])
			if err != nil || k < 0 {
				c.Out(l, "bad-op")
				continue
			}
			httpStatus, cancelled := 0, false
			if len(f) == 6 {
				httpStatus, _ = strconv.Atoi(f[4])
				cancelled = f[5] == "1"
			}
			e.end(l, f[0] == "endnil", k, f[2] == "1", f[3], httpStatus, cancelled)
		default:
			c.Out(l, "bad-op")
		}
	}
	if e != nil {
		e.final()
	}
}

func (e *c43Env) start(l, metaTok string, meta map[string]string, info vgirpc.DispatchInfo) {
	c := e.c
	info.TransportMetadata = meta
	info.Auth = vgirpc.Anonymous()
	e.infos = append(e.infos, info)
	nBefore := len(e.spans)
	ctx, tok := e.hook.OnDispatchStart(context.Background(), info)
	e.toks = append(e.toks, tok)
	e.ctxs = append(e.ctxs, ctx)
	e.metas = append(e.metas, meta)
	idx := -1
	if len(e.spans) == nBefore+1 {
		idx = nBefore
	} else if len(e.spans) != nBefore {
		c.Oracle("span-started-more-than-once", fmt.Sprintf("one OnDispatchStart started %d spans", len(e.spans)-nBefore))
		idx = len(e.spans) - 1
	}
	e.spanOf = append(e.spanOf, idx)
	rec, tokS, parS := false, "-", "-"
	var parent trace.SpanContext
	if idx >= 0 {
		sp := e.spans[idx]
		rec = sp.recAtStart
		tokS = strconv.Itoa(idx)
		parent = sp.parent
		if parent.IsValid() {
			tid, sid := parent.TraceID(), parent.SpanID()
			parS = fmt.Sprintf("%s-%s-%d", hex.EncodeToString(tid[:]), hex.EncodeToString(sid[:]), int(parent.TraceFlags()&3))
		}
		// the SDK's own record must agree with the context handed to tracer.Start
		if ro, ok := sp.Span.(sdktrace.ReadOnlySpan); ok && sp.recAtStart {
			if !ro.Parent().Equal(parent) {
				c.Oracle("not-parented", fmt.Sprintf("%q: SDK span parent %v differs from the context's span context %v", l, ro.Parent(), parent))
			}
			if parent.IsValid() && ro.SpanContext().TraceID() != parent.TraceID() {
				c.Oracle("not-parented", fmt.Sprintf("%q: span trace id %s differs from the parent's %s", l, ro.SpanContext().TraceID(), parent.TraceID()))
			}
		}
		if sp.endCalls != 0 {
			c.Oracle("span-ended-early", fmt.Sprintf("%q: span already ended inside OnDispatchStart", l))
		}
	}
	// property clause: parented on the caller's traceparent when one was sent
	if e.tracing && e.prop && idx >= 0 {
		if m := c43TPRe.FindStringSubmatch(meta["traceparent"]); m != nil && strings.Trim(m[1], "0") != "" && strings.Trim(m[2], "0") != "" {
			want := fmt.Sprintf("%s-%s-%s", m[1], m[2], m[3])
			if parS != want {
				c.Oracle("not-parented", fmt.Sprintf("%q: caller sent traceparent %q but the span's parent is %s", l, meta["traceparent"], parS))
			}
			c.Stat("start-parented")
		} else if _, sent := meta["traceparent"]; !sent && parS != "-" {
			c.Oracle("parent-invented", fmt.Sprintf("%q: no traceparent sent but the span has parent %s", l, parS))
		}
	}
	if !e.prop && parS != "-" {
		c.Oracle("parent-invented", fmt.Sprintf("%q: no propagator configured but the span has parent %s", l, parS))
	}
	// nothing may be counted at start
	if okN, errN, _ := e.collect(); okN != e.cntOK || errN != e.cntErr {
		c.Oracle("counted-at-start", fmt.Sprintf("%q: request counter moved at dispatch start (ok %d->%d, error %d->%d)", l, e.cntOK, okN, e.cntErr, errN))
		e.cntOK, e.cntErr = okN, errN
	}
	if rec {
		c.Stat("start-recording")
	} else {
		c.Stat("start-not-recording")
	}
	c.Out(fmt.Sprintf("start %s %s", c43B(rec), metaTok), fmt.Sprintf("tok=%s parent=%s", tokS, parS))
}

func (e *c43Env) end(l string, foreign bool, k int, hasStats bool, errTok string, httpStatus int, cancelled bool) {
	c := e.c
	if k >= len(e.toks) || (!foreign && e.finished[k]) {
		// would break the hook contract (C37): not performed
		c.Stat("contract-skip")
		c.Out(fmt.Sprintf("%s %d %s %s", strings.Fields(l)[0], k, c43B(hasStats), c43B(errTok != "0")), "contract")
		return
	}
	var err error
	switch errTok {
	case "1":
		err = errors.New("boom")
	case "2":
		err = &vgirpc.RpcError{Type: "ValueError", Message: "bad value"}
	case "3": // an *RpcError whose wire type is empty is still a failed call
		err = &vgirpc.RpcError{Message: "untyped failure"}
	case "4": // a wrapped *RpcError, and one with neither type nor message
		err = fmt.Errorf("wrapped: %w", &vgirpc.RpcError{})
	case "5":
		err = &vgirpc.RpcError{}
	}
	var stats *vgirpc.CallStatistics
	if hasStats {
		stats = &vgirpc.CallStatistics{InputBatches: 1, OutputBatches: 2, InputRows: 3, OutputRows: 4, InputBytes: 5, OutputBytes: 6}
	}
	info := e.infos[k]
	info.HTTPStatus, info.Cancelled = httpStatus, cancelled
	var tok vgirpc.HookToken = e.toks[k]
	if foreign {
		tok = nil
	}
	// snapshot of every other span: an end must not touch them
	before := make([]string, len(e.spans))
	for i, sp := range e.spans {
		before[i] = sp.render()
	}
	e.hook.OnDispatchEnd(e.ctxs[k], tok, info, stats, err)
	if !foreign {
		e.finished[k] = true
	}
	idx := e.spanOf[k]
	for i, sp := range e.spans {
		if i != idx && sp.render() != before[i] {
			c.Oracle("other-span-touched", fmt.Sprintf("%q changed span %d (%s -> %s), which belongs to another dispatch", l, i, before[i], sp.render()))
		}
	}
	spanS := "-"
	if idx >= 0 {
		sp := e.spans[idx]
		spanS = sp.render()
		if !foreign && sp.recAtStart {
			if sp.endCalls != 1 {
				c.Oracle("span-not-ended-once", fmt.Sprintf("%q: recording span ended %d times", l, sp.endCalls))
			}
			if sp.late != 0 {
				c.Oracle("span-op-after-end", fmt.Sprintf("%q: %d span calls after End()", l, sp.late))
			}
			if ro, ok := sp.Span.(sdktrace.ReadOnlySpan); ok {
				if (ro.Status().Code == codes.Error) != (err != nil) {
					c.Oracle("status-mismatch", fmt.Sprintf("%q: call failed=%v but span status is %v", l, err != nil, ro.Status().Code))
				}
				if ro.EndTime().IsZero() {
					c.Oracle("span-not-ended-once", fmt.Sprintf("%q: SDK span has no end time", l))
				}
			}
		}
	}
	okN, errN, found := e.collect()
	if !foreign {
		wantOK, wantErr := e.cntOK, e.cntErr
		if e.metrics {
			if err != nil {
				wantErr++
			} else {
				wantOK++
			}
		}
		if okN != wantOK || errN != wantErr {
			c.Oracle("count-mismatch", fmt.Sprintf("%q (failed=%v, metrics=%v): request counter ok %d->%d error %d->%d", l, err != nil, e.metrics, e.cntOK, okN, e.cntErr, errN))
		}
		if e.metrics && !found {
			c.Oracle("count-mismatch", "metrics enabled but rpc.server.requests was never recorded")
		}
	}
	e.cntOK, e.cntErr = okN, errN
	if foreign {
		c.Stat("end-foreign-token")
	} else if err != nil {
		c.Stat("end-error")
	} else {
		c.Stat("end-ok")
	}
	c.Out(fmt.Sprintf("%s %d %s %s", strings.Fields(l)[0], k, c43B(hasStats), c43B(err != nil)), fmt.Sprintf("span=%s cnt=%d/%d", spanS, okN, errN))
}

// final: the SDK's in-memory recorder saw each recording span of an ended dispatch end exactly once.
func (e *c43Env) final() {
	want := 0
	for k, idx := range e.spanOf {
		if idx >= 0 && e.spans[idx].recAtStart && e.finished[k] {
			want++
		}
	}
	if got := len(e.recorder.Ended()); got != want {
		e.c.Oracle("span-not-ended-once", fmt.Sprintf("span recorder saw %d ended spans, %d recording spans belong to ended dispatches", got, want))
	}
	if got := len(e.recorder.Started()); got != func() int {
		n := 0
		for _, sp := range e.spans {
			if sp.recAtStart {
				n++
			}
		}
		return n
	}() {
		e.c.Oracle("span-started-more-than-once", fmt.Sprintf("span recorder saw %d started spans", got))
	}
}
