package main

// Type and value descriptions shared by the C08 and C07 harnesses: the script carries a Go
// struct type (built with reflect.StructOf, arbitrary vgirpc/arrow tags) and a value of it as
// prefix-notation tokens; the same tokens are what the Lean driver parses.
//
//	type : i8 i16 i32 i64 int u8 u16 u32 u64 uint f32 f64 bool str time dur bytes
//	       | ptr T | sl T | map K V | st <n> (x<vgirpc tag> x<arrow tag> T)*n
//	value: nil | i:<int> | g:<f32 bits> | f:<f64 bits> | b:0|1 | s:<hex> | y:<hex>
//	       | t:<unix sec>:<nsec> | d:<ns> | l:<n> v*n | m:<n> (k v)*n | r v*fields

import (
	"encoding/hex"
	"fmt"
	"math"
	"math/big"
	"reflect"
	"sort"
	"strconv"
	"strings"
	"sync"
	"time"
)

type c08Ty struct {
	K      string // leaf kind, or ptr / sl / map / st
	Elem   *c08Ty // ptr, sl, map value
	Key    *c08Ty // map key
	Fields []c08Field
}

type c08Field struct {
	Tag, ATag string
	T         *c08Ty
}

var c08LeafKinds = map[string]reflect.Type{
	"i8": reflect.TypeOf(int8(0)), "i16": reflect.TypeOf(int16(0)), "i32": reflect.TypeOf(int32(0)),
	"i64": reflect.TypeOf(int64(0)), "int": reflect.TypeOf(int(0)),
	"u8": reflect.TypeOf(uint8(0)), "u16": reflect.TypeOf(uint16(0)), "u32": reflect.TypeOf(uint32(0)),
	"u64": reflect.TypeOf(uint64(0)), "uint": reflect.TypeOf(uint(0)),
	"f32": reflect.TypeOf(float32(0)), "f64": reflect.TypeOf(float64(0)), "bool": reflect.TypeOf(false),
	"str": reflect.TypeOf(""), "time": reflect.TypeOf(time.Time{}), "dur": reflect.TypeOf(time.Duration(0)),
	"bytes": reflect.TypeOf([]byte(nil)),
}

func c08Leaf(k string) *c08Ty { return &c08Ty{K: k} }
func c08Ptr(t *c08Ty) *c08Ty  { return &c08Ty{K: "ptr", Elem: t} }
func c08Sl(t *c08Ty) *c08Ty   { return &c08Ty{K: "sl", Elem: t} }
func c08Map(k, v *c08Ty) *c08Ty {
	return &c08Ty{K: "map", Key: k, Elem: v}
}
func c08St(fs ...c08Field) *c08Ty { return &c08Ty{K: "st", Fields: fs} }

func (t *c08Ty) isLeaf() bool { _, ok := c08LeafKinds[t.K]; return ok }

// intRange returns the value range of an integer kind.
func c08IntRange(k string) (lo, hi *big.Int, ok bool) {
	bits, signed := 0, true
	switch k {
	case "i8":
		bits = 8
	case "i16":
		bits = 16
	case "i32":
		bits = 32
	case "i64", "int":
		bits = 64
	case "u8":
		bits, signed = 8, false
	case "u16":
		bits, signed = 16, false
	case "u32":
		bits, signed = 32, false
	case "u64", "uint":
		bits, signed = 64, false
	default:
		return nil, nil, false
	}
	one := big.NewInt(1)
	if signed {
		h := new(big.Int).Lsh(one, uint(bits-1))
		return new(big.Int).Neg(h), new(big.Int).Sub(h, one), true
	}
	return big.NewInt(0), new(big.Int).Sub(new(big.Int).Lsh(one, uint(bits)), one), true
}

func (t *c08Ty) tokens() []string {
	switch t.K {
	case "ptr", "sl":
		return append([]string{t.K}, t.Elem.tokens()...)
	case "map":
		return append(append([]string{"map"}, t.Key.tokens()...), t.Elem.tokens()...)
	case "st":
		out := []string{"st", strconv.Itoa(len(t.Fields))}
		for _, f := range t.Fields {
			out = append(out, XS(f.Tag), XS(f.ATag))
			out = append(out, f.T.tokens()...)
		}
		return out
	}
	return []string{t.K}
}

func c08ParseTy(toks []string) (*c08Ty, []string, error) {
	if len(toks) == 0 {
		return nil, nil, fmt.Errorf("type: out of tokens")
	}
	switch toks[0] {
	case "ptr", "sl":
		e, r, err := c08ParseTy(toks[1:])
		if err != nil {
			return nil, nil, err
		}
		return &c08Ty{K: toks[0], Elem: e}, r, nil
	case "map":
		k, r, err := c08ParseTy(toks[1:])
		if err != nil {
			return nil, nil, err
		}
		v, r, err := c08ParseTy(r)
		if err != nil {
			return nil, nil, err
		}
		return &c08Ty{K: "map", Key: k, Elem: v}, r, nil
	case "st":
		if len(toks) < 2 {
			return nil, nil, fmt.Errorf("st: no count")
		}
		n, err := strconv.Atoi(toks[1])
		if err != nil || n < 0 {
			return nil, nil, fmt.Errorf("st: bad count")
		}
		r := toks[2:]
		t := &c08Ty{K: "st"}
		for i := 0; i < n; i++ {
			if len(r) < 2 {
				return nil, nil, fmt.Errorf("st: out of tokens")
			}
			tag, ok1 := UnX(r[0])
			atag, ok2 := UnX(r[1])
			if !ok1 || !ok2 {
				return nil, nil, fmt.Errorf("st: bad tag hex")
			}
			ft, rr, err := c08ParseTy(r[2:])
			if err != nil {
				return nil, nil, err
			}
			t.Fields = append(t.Fields, c08Field{Tag: string(tag), ATag: string(atag), T: ft})
			r = rr
		}
		return t, r, nil
	}
	if _, ok := c08LeafKinds[toks[0]]; ok {
		return &c08Ty{K: toks[0]}, toks[1:], nil
	}
	return nil, nil, fmt.Errorf("type: unknown token %q", toks[0])
}

var c08TypeMemo sync.Map // token string -> reflect.Type

// rtype builds the Go type. Struct fields are named F0, F1, … and carry
// `vgirpc:"<tag>" arrow:"<atag>"` (the arrow tag only when non-empty).
func (t *c08Ty) rtype() reflect.Type {
	key := strings.Join(t.tokens(), " ")
	if v, ok := c08TypeMemo.Load(key); ok {
		return v.(reflect.Type)
	}
	var rt reflect.Type
	switch t.K {
	case "ptr":
		rt = reflect.PointerTo(t.Elem.rtype())
	case "sl":
		rt = reflect.SliceOf(t.Elem.rtype())
	case "map":
		rt = reflect.MapOf(t.Key.rtype(), t.Elem.rtype())
	case "st":
		sf := make([]reflect.StructField, len(t.Fields))
		for i, f := range t.Fields {
			tag := "vgirpc:" + strconv.Quote(f.Tag)
			if f.ATag != "" {
				tag += " arrow:" + strconv.Quote(f.ATag)
			}
			sf[i] = reflect.StructField{Name: "F" + strconv.Itoa(i), Type: f.T.rtype(), Tag: reflect.StructTag(tag)}
		}
		rt = reflect.StructOf(sf)
	default:
		rt = c08LeafKinds[t.K]
	}
	c08TypeMemo.Store(key, rt)
	return rt
}

// ---------------------------------------------------------------- values

// c08Val is a value tree (what the script carries).
type c08Val struct {
	K     byte     // n(il) i g f b s y t d l m r
	I     *big.Int // i
	Bits  uint64   // g f
	B     bool     // b
	S     []byte   // s y
	Sec   int64    // t
	Nsec  int64    // t
	Ns    int64    // d
	Elems []*c08Val
	Keys  []*c08Val // m (Elems are the values)
}

func (v *c08Val) tokens() []string {
	switch v.K {
	case 'n':
		return []string{"nil"}
	case 'i':
		return []string{"i:" + v.I.String()}
	case 'g':
		return []string{fmt.Sprintf("g:%08x", v.Bits)}
	case 'f':
		return []string{fmt.Sprintf("f:%016x", v.Bits)}
	case 'b':
		if v.B {
			return []string{"b:1"}
		}
		return []string{"b:0"}
	case 's':
		return []string{"s:" + hex.EncodeToString(v.S)}
	case 'y':
		return []string{"y:" + hex.EncodeToString(v.S)}
	case 't':
		return []string{fmt.Sprintf("t:%d:%d", v.Sec, v.Nsec)}
	case 'd':
		return []string{fmt.Sprintf("d:%d", v.Ns)}
	case 'l':
		out := []string{fmt.Sprintf("l:%d", len(v.Elems))}
		for _, e := range v.Elems {
			out = append(out, e.tokens()...)
		}
		return out
	case 'm':
		out := []string{fmt.Sprintf("m:%d", len(v.Elems))}
		for i := range v.Elems {
			out = append(out, v.Keys[i].tokens()...)
			out = append(out, v.Elems[i].tokens()...)
		}
		return out
	case 'r':
		out := []string{"r"}
		for _, e := range v.Elems {
			out = append(out, e.tokens()...)
		}
		return out
	}
	panic("bad value kind")
}

// c08ParseVal parses value tokens following the type.
func c08ParseVal(t *c08Ty, toks []string) (*c08Val, []string, error) {
	if len(toks) == 0 {
		return nil, nil, fmt.Errorf("value: out of tokens")
	}
	tok := toks[0]
	switch t.K {
	case "ptr":
		if tok == "nil" {
			return &c08Val{K: 'n'}, toks[1:], nil
		}
		return c08ParseVal(t.Elem, toks)
	case "sl":
		if tok == "nil" {
			return &c08Val{K: 'n'}, toks[1:], nil
		}
		n, ok := c08Count(tok, "l:")
		if !ok {
			return nil, nil, fmt.Errorf("value: expected l:<n>, got %q", tok)
		}
		v := &c08Val{K: 'l'}
		r := toks[1:]
		for i := 0; i < n; i++ {
			e, rr, err := c08ParseVal(t.Elem, r)
			if err != nil {
				return nil, nil, err
			}
			v.Elems = append(v.Elems, e)
			r = rr
		}
		return v, r, nil
	case "map":
		if tok == "nil" {
			return &c08Val{K: 'n'}, toks[1:], nil
		}
		n, ok := c08Count(tok, "m:")
		if !ok {
			return nil, nil, fmt.Errorf("value: expected m:<n>, got %q", tok)
		}
		v := &c08Val{K: 'm'}
		r := toks[1:]
		for i := 0; i < n; i++ {
			k, rr, err := c08ParseVal(t.Key, r)
			if err != nil {
				return nil, nil, err
			}
			e, rr, err := c08ParseVal(t.Elem, rr)
			if err != nil {
				return nil, nil, err
			}
			v.Keys = append(v.Keys, k)
			v.Elems = append(v.Elems, e)
			r = rr
		}
		return v, r, nil
	case "st":
		if tok != "r" {
			return nil, nil, fmt.Errorf("value: expected r, got %q", tok)
		}
		v := &c08Val{K: 'r'}
		r := toks[1:]
		for _, f := range t.Fields {
			e, rr, err := c08ParseVal(f.T, r)
			if err != nil {
				return nil, nil, err
			}
			v.Elems = append(v.Elems, e)
			r = rr
		}
		return v, r, nil
	}
	if t.K == "bytes" && tok == "nil" {
		return &c08Val{K: 'n'}, toks[1:], nil
	}
	parts := strings.Split(tok, ":")
	bad := fmt.Errorf("value: bad leaf token %q", tok)
	switch {
	case parts[0] == "i" && len(parts) == 2:
		n, ok := new(big.Int).SetString(parts[1], 10)
		if !ok {
			return nil, nil, bad
		}
		return &c08Val{K: 'i', I: n}, toks[1:], nil
	case (parts[0] == "g" || parts[0] == "f") && len(parts) == 2:
		b, err := strconv.ParseUint(parts[1], 16, 64)
		if err != nil {
			return nil, nil, bad
		}
		return &c08Val{K: parts[0][0], Bits: b}, toks[1:], nil
	case parts[0] == "b" && len(parts) == 2 && (parts[1] == "0" || parts[1] == "1"):
		return &c08Val{K: 'b', B: parts[1] == "1"}, toks[1:], nil
	case (parts[0] == "s" || parts[0] == "y") && len(parts) == 2:
		b, err := hex.DecodeString(parts[1])
		if err != nil {
			return nil, nil, bad
		}
		return &c08Val{K: parts[0][0], S: b}, toks[1:], nil
	case parts[0] == "t" && len(parts) == 3:
		s, e1 := strconv.ParseInt(parts[1], 10, 64)
		n, e2 := strconv.ParseInt(parts[2], 10, 64)
		if e1 != nil || e2 != nil {
			return nil, nil, bad
		}
		return &c08Val{K: 't', Sec: s, Nsec: n}, toks[1:], nil
	case parts[0] == "d" && len(parts) == 2:
		n, err := strconv.ParseInt(parts[1], 10, 64)
		if err != nil {
			return nil, nil, bad
		}
		return &c08Val{K: 'd', Ns: n}, toks[1:], nil
	}
	return nil, nil, bad
}

func c08Count(tok, pre string) (int, bool) {
	if !strings.HasPrefix(tok, pre) {
		return 0, false
	}
	n, err := strconv.Atoi(tok[len(pre):])
	return n, err == nil && n >= 0
}

var c08Zones = []*time.Location{time.UTC, time.FixedZone("p0530", 5*3600+1800), time.FixedZone("m0800", -8*3600)}

// c08Build makes the Go value of type t described by v. A script whose value does not fit the
// type (kind or range) is a script error.
func c08Build(t *c08Ty, v *c08Val) (rv reflect.Value, err error) {
	rt := t.rtype()
	rv = reflect.New(rt).Elem()
	switch t.K {
	case "ptr":
		if v.K == 'n' {
			return rv, nil
		}
		e, err := c08Build(t.Elem, v)
		if err != nil {
			return rv, err
		}
		p := reflect.New(rt.Elem())
		p.Elem().Set(e)
		rv.Set(p)
		return rv, nil
	case "sl":
		if v.K == 'n' {
			return rv, nil
		}
		if v.K != 'l' {
			return rv, fmt.Errorf("slice needs l:, got %c", v.K)
		}
		s := reflect.MakeSlice(rt, len(v.Elems), len(v.Elems))
		for i, ev := range v.Elems {
			e, err := c08Build(t.Elem, ev)
			if err != nil {
				return rv, err
			}
			s.Index(i).Set(e)
		}
		rv.Set(s)
		return rv, nil
	case "map":
		if v.K == 'n' {
			return rv, nil
		}
		if v.K != 'm' {
			return rv, fmt.Errorf("map needs m:, got %c", v.K)
		}
		m := reflect.MakeMapWithSize(rt, len(v.Elems))
		for i := range v.Elems {
			k, err := c08Build(t.Key, v.Keys[i])
			if err != nil {
				return rv, err
			}
			e, err := c08Build(t.Elem, v.Elems[i])
			if err != nil {
				return rv, err
			}
			m.SetMapIndex(k, e)
		}
		rv.Set(m)
		return rv, nil
	case "st":
		if v.K != 'r' || len(v.Elems) != len(t.Fields) {
			return rv, fmt.Errorf("struct needs r with %d values", len(t.Fields))
		}
		for i, f := range t.Fields {
			e, err := c08Build(f.T, v.Elems[i])
			if err != nil {
				return rv, err
			}
			rv.Field(i).Set(e)
		}
		return rv, nil
	}
	mismatch := fmt.Errorf("value %c does not fit kind %s", v.K, t.K)
	switch c08Base(t.K) {
	case "i8", "i16", "i32", "i64", "int", "u8", "u16", "u32", "u64", "uint":
		if v.K != 'i' {
			return rv, mismatch
		}
		lo, hi, _ := c08IntRange(c08Base(t.K))
		if v.I.Cmp(lo) < 0 || v.I.Cmp(hi) > 0 {
			return rv, fmt.Errorf("%s out of range of %s", v.I, t.K)
		}
		if c08Base(t.K)[0] == 'u' {
			rv.SetUint(v.I.Uint64())
		} else {
			rv.SetInt(v.I.Int64())
		}
	case "f32":
		if v.K != 'g' {
			return rv, mismatch
		}
		rv.Set(reflect.ValueOf(math.Float32frombits(uint32(v.Bits))))
	case "f64":
		if v.K != 'f' {
			return rv, mismatch
		}
		rv.Set(reflect.ValueOf(math.Float64frombits(v.Bits)))
	case "bool":
		if v.K != 'b' {
			return rv, mismatch
		}
		rv.SetBool(v.B)
	case "str":
		if v.K != 's' {
			return rv, mismatch
		}
		rv.SetString(string(v.S))
	case "bytes":
		if v.K == 'n' {
			return rv, nil
		}
		if v.K != 'y' {
			return rv, mismatch
		}
		rv.SetBytes(append([]byte{}, v.S...))
	case "time":
		if v.K != 't' || v.Nsec < 0 || v.Nsec > 999999999 {
			return rv, mismatch
		}
		z := c08Zones[int(uint64(v.Sec)%3)]
		rv.Set(reflect.ValueOf(time.Unix(v.Sec, v.Nsec).In(z)))
	case "dur":
		if v.K != 'd' {
			return rv, mismatch
		}
		rv.SetInt(v.Ns)
	default:
		return rv, fmt.Errorf("unknown kind %s", t.K)
	}
	return rv, nil
}

func c08ShowF32(b uint32) string {
	if (b>>23)&0xff == 0xff && b&0x7fffff != 0 {
		return "nan"
	}
	return fmt.Sprintf("%08x", b)
}

func c08ShowF64(b uint64) string {
	if (b>>52)&0x7ff == 0x7ff && b&0xfffffffffffff != 0 {
		return "nan"
	}
	return fmt.Sprintf("%016x", b)
}

// c08MapKeyText is the documented wire order of map keys: strings bytewise, integers by their
// decimal text.
func c08MapKeyLess(a, b string) bool { return a < b }

// c08Show renders a Go value canonically: nil and empty collections alike, map entries in key
// order, times as Unix seconds and nanoseconds.
func c08Show(t *c08Ty, rv reflect.Value) string {
	switch c08Base(t.K) {
	case "ptr":
		if rv.IsNil() {
			return "nil"
		}
		return c08Show(t.Elem, rv.Elem())
	case "sl":
		parts := make([]string, rv.Len())
		for i := range parts {
			parts[i] = c08Show(t.Elem, rv.Index(i))
		}
		return "[" + strings.Join(parts, ",") + "]"
	case "map":
		type ent struct{ key, text string }
		ents := []ent{}
		for _, k := range rv.MapKeys() {
			kt := ""
			switch k.Kind() {
			case reflect.String:
				kt = k.String()
			case reflect.Int, reflect.Int8, reflect.Int16, reflect.Int32, reflect.Int64:
				kt = strconv.FormatInt(k.Int(), 10)
			case reflect.Uint, reflect.Uint8, reflect.Uint16, reflect.Uint32, reflect.Uint64:
				kt = strconv.FormatUint(k.Uint(), 10)
			default:
				kt = fmt.Sprint(k.Interface())
			}
			ents = append(ents, ent{kt, c08Show(t.Key, k) + "=" + c08Show(t.Elem, rv.MapIndex(k))})
		}
		sort.Slice(ents, func(i, j int) bool { return c08MapKeyLess(ents[i].key, ents[j].key) })
		parts := make([]string, len(ents))
		for i, e := range ents {
			parts[i] = e.text
		}
		return "{" + strings.Join(parts, ",") + "}"
	case "st":
		parts := make([]string, len(t.Fields))
		for i, f := range t.Fields {
			parts[i] = c08Show(f.T, rv.Field(i))
		}
		return "(" + strings.Join(parts, ",") + ")"
	case "i8", "i16", "i32", "i64", "int":
		return "i:" + strconv.FormatInt(rv.Int(), 10)
	case "u8", "u16", "u32", "u64", "uint":
		return "i:" + strconv.FormatUint(rv.Uint(), 10)
	case "f32":
		return "g:" + c08ShowF32(math.Float32bits(float32(rv.Float())))
	case "f64":
		return "f:" + c08ShowF64(math.Float64bits(rv.Float()))
	case "bool":
		if rv.Bool() {
			return "b:1"
		}
		return "b:0"
	case "str":
		return "s:" + hex.EncodeToString([]byte(rv.String()))
	case "bytes":
		return "y:" + hex.EncodeToString(rv.Bytes())
	case "time":
		tm := rv.Interface().(time.Time)
		return fmt.Sprintf("t:%d:%d", tm.Unix(), tm.Nanosecond())
	case "dur":
		return "d:" + strconv.FormatInt(rv.Int(), 10)
	}
	return "?"
}
