package main

// Scripted stream-state family shared by the HTTP stream properties (C16, C19, C11): a stream
// state whose behaviour on every Produce/Exchange/OnCancel call is spelled out by a small program
// carried in the (gob-serializable) state itself. The Lean counterpart is `Vgi.HttpStream.SState`
// / `Act` (lean/Vgi/Model/HttpStream.lean).
//
// Program syntax (one word, no spaces):
//
//	prog  := "-" | tick ("/" tick)*
//	tick  := "_" | act (";" act)*
//	act   := "l" N                      ClientLog(INFO, "m<N>")
//	       | "e" P ":" src ":" meta     EmitWithMetadata(batch(src), meta); P=1: return the collector's error
//	       | "E" P ":" src              exchange: EmitWithMetadata(batch(src), <the InputMetadata this call saw>)
//	                                    (a producer's E emits without metadata)
//	       | "f" P                      Finish(); P=1: return the collector's error
//	       | "r" N                      return RpcError{ValueError, "fail-<N>"}
//	       | "p" N                      panic("panic-<N>")
//	src   := "c" [int ("." int)*]       these values
//	       | "i" int                    the input column plus int
//	       | "n" count "x" int          count rows of that value
//	meta  := "" | khex "=" vhex ("," khex "=" vhex)*

import (
	"context"
	"fmt"
	"strconv"
	"strings"
	"sync"

	"github.com/apache/arrow-go/v18/arrow"
	"github.com/apache/arrow-go/v18/arrow/array"
	"github.com/apache/arrow-go/v18/arrow/memory"

	"github.com/Query-farm/vgi-rpc-go/vgirpc"
)

var scriptValueSchema = arrow.NewSchema([]arrow.Field{{Name: "value", Type: arrow.PrimitiveTypes.Int64}}, nil)

// ScriptCore is the serializable part every scripted state shares.
type ScriptCore struct {
	Prog   string
	Pos    int
	Rec    string // recorder id (process-local observation channel, not part of the behaviour)
	Cancel string // what OnCancel does: ok | err | panic
	Pad    string // ballast: makes the serialized state (and so every cursor token) as large as wanted
}

// scriptPad builds the ballast named by a pad word: "" | "z<n>" (n compressible bytes) | "r<n>"
// (n incompressible bytes, a fixed pseudo-random sequence).
func scriptPad(word string) string {
	if len(word) < 2 {
		return ""
	}
	n, err := strconv.Atoi(word[1:])
	if err != nil || n <= 0 || n > 4<<20 {
		return ""
	}
	if word[0] == 'z' {
		return strings.Repeat("a", n)
	}
	b := make([]byte, n)
	x := uint64(0x9E3779B97F4A7C15)
	for i := range b {
		x ^= x << 13
		x ^= x >> 7
		x ^= x << 17
		b[i] = byte(x >> 24)
	}
	return string(b)
}

// The four concrete state types: exchange / producer, each with and without an OnCancel method.
type ScriptEx struct{ ScriptCore }
type ScriptExC struct{ ScriptCore }
type ScriptPr struct{ ScriptCore }
type ScriptPrC struct{ ScriptCore }

// Dual-interface states: the state type implements BOTH ExchangeState and ProducerState. Which
// callback the transport runs must follow the registered method (exchange methods: ExP*, producer
// methods: PrX*), never the concrete type. The recorder tells which one ran.
type ScriptExP struct{ ScriptCore }
type ScriptExPC struct{ ScriptCore }
type ScriptPrX struct{ ScriptCore }
type ScriptPrXC struct{ ScriptCore }

func init() {
	vgirpc.RegisterStateType(&ScriptEx{})
	vgirpc.RegisterStateType(&ScriptExC{})
	vgirpc.RegisterStateType(&ScriptPr{})
	vgirpc.RegisterStateType(&ScriptPrC{})
	vgirpc.RegisterStateType(&ScriptExP{})
	vgirpc.RegisterStateType(&ScriptExPC{})
	vgirpc.RegisterStateType(&ScriptPrX{})
	vgirpc.RegisterStateType(&ScriptPrXC{})
}

// scriptCall is what a scripted handler records about one invocation.
type scriptCall struct {
	Kind     string // exchange | produce | cancel
	Pos      int
	Keys     []string
	Values   []string
	Input    []int64
	InType   string // Arrow type of the input column the handler saw ("" for producers)
	Outcome  string // ok | err | panic
	Emitted  int    // successful Emit calls
	Finished bool
	Logs     int   // ClientLog calls
	BufSize  int64 // in-memory Arrow buffer size of the emitted data batch
	Rows     int   // rows of the emitted data batch
}

// arrowBufferSize is the in-memory size of a batch: the sum of its columns' buffer lengths.
func arrowBufferSize(b arrow.RecordBatch) int64 {
	var total int64
	for i := 0; i < int(b.NumCols()); i++ {
		for _, buf := range b.Column(i).Data().Buffers() {
			if buf != nil {
				total += int64(buf.Len())
			}
		}
	}
	return total
}

type scriptRecorder struct {
	mu    sync.Mutex
	calls []*scriptCall
}

var (
	scriptRecMu sync.Mutex
	scriptRecs  = map[string]*scriptRecorder{}
	scriptRecN  int
)

func newScriptRecorder() (string, *scriptRecorder) {
	scriptRecMu.Lock()
	defer scriptRecMu.Unlock()
	scriptRecN++
	id := fmt.Sprintf("rec%d", scriptRecN)
	r := &scriptRecorder{}
	scriptRecs[id] = r
	return id, r
}

func dropScriptRecorder(id string) {
	scriptRecMu.Lock()
	defer scriptRecMu.Unlock()
	delete(scriptRecs, id)
}

func scriptRec(id string) *scriptRecorder {
	scriptRecMu.Lock()
	defer scriptRecMu.Unlock()
	return scriptRecs[id]
}

func (r *scriptRecorder) add(c *scriptCall) {
	if r == nil {
		return
	}
	r.mu.Lock()
	defer r.mu.Unlock()
	r.calls = append(r.calls, c)
}

// take returns and clears the calls recorded so far.
func (r *scriptRecorder) take() []*scriptCall {
	r.mu.Lock()
	defer r.mu.Unlock()
	out := r.calls
	r.calls = nil
	return out
}

type scriptAct struct {
	Op     byte // l e f r p
	N      int
	Prop   bool
	Input  bool // src = input + Add
	Add    int64
	Vals   []int64
	MetaK  []string
	MetaV  []string
	HasMet bool
	Echo   bool // the emit's metadata is the InputMetadata the call saw
}

func parseScriptProg(prog string) ([][]scriptAct, error) {
	if prog == "-" {
		return nil, nil
	}
	var ticks [][]scriptAct
	for _, t := range strings.Split(prog, "/") {
		if t == "_" {
			ticks = append(ticks, nil)
			continue
		}
		var acts []scriptAct
		for _, a := range strings.Split(t, ";") {
			act, err := parseScriptAct(a)
			if err != nil {
				return nil, err
			}
			acts = append(acts, act)
		}
		ticks = append(ticks, acts)
	}
	return ticks, nil
}

func parseScriptAct(a string) (scriptAct, error) {
	if a == "" {
		return scriptAct{}, fmt.Errorf("empty act")
	}
	switch a[0] {
	case 'l', 'r', 'p':
		n, err := strconv.Atoi(a[1:])
		if err != nil || n < 0 {
			return scriptAct{}, fmt.Errorf("bad act %q", a)
		}
		return scriptAct{Op: a[0], N: n}, nil
	case 'f':
		if a != "f0" && a != "f1" {
			return scriptAct{}, fmt.Errorf("bad act %q", a)
		}
		return scriptAct{Op: 'f', Prop: a == "f1"}, nil
	case 'e', 'E':
		parts := strings.SplitN(a[1:], ":", 3)
		if a[0] == 'E' && len(parts) == 2 {
			parts = append(parts, "")
		} else if a[0] == 'E' {
			return scriptAct{}, fmt.Errorf("bad act %q", a)
		}
		if len(parts) != 3 || (parts[0] != "0" && parts[0] != "1") || parts[1] == "" {
			return scriptAct{}, fmt.Errorf("bad act %q", a)
		}
		act := scriptAct{Op: 'e', Prop: parts[0] == "1", Echo: a[0] == 'E'}
		src := parts[1]
		switch src[0] {
		case 'c':
			if len(src) > 1 {
				for _, v := range strings.Split(src[1:], ".") {
					n, err := strconv.ParseInt(v, 10, 64)
					if err != nil {
						return scriptAct{}, fmt.Errorf("bad act %q", a)
					}
					act.Vals = append(act.Vals, n)
				}
			}
		case 'i':
			n, err := strconv.ParseInt(src[1:], 10, 64)
			if err != nil {
				return scriptAct{}, fmt.Errorf("bad act %q", a)
			}
			act.Input, act.Add = true, n
		case 'n':
			nv := strings.SplitN(src[1:], "x", 2)
			if len(nv) != 2 {
				return scriptAct{}, fmt.Errorf("bad act %q", a)
			}
			cnt, err1 := strconv.Atoi(nv[0])
			v, err2 := strconv.ParseInt(nv[1], 10, 64)
			if err1 != nil || err2 != nil || cnt < 0 || cnt > 1<<20 {
				return scriptAct{}, fmt.Errorf("bad act %q", a)
			}
			act.Vals = make([]int64, cnt)
			for i := range act.Vals {
				act.Vals[i] = v
			}
		default:
			return scriptAct{}, fmt.Errorf("bad act %q", a)
		}
		if parts[2] != "" {
			act.HasMet = true
			for _, kv := range strings.Split(parts[2], ",") {
				p := strings.SplitN(kv, "=", 2)
				if len(p) != 2 {
					return scriptAct{}, fmt.Errorf("bad act %q", a)
				}
				k, ok1 := UnX("x" + p[0])
				v, ok2 := UnX("x" + p[1])
				if !ok1 || !ok2 {
					return scriptAct{}, fmt.Errorf("bad act %q", a)
				}
				act.MetaK = append(act.MetaK, string(k))
				act.MetaV = append(act.MetaV, string(v))
			}
		}
		return act, nil
	}
	return scriptAct{}, fmt.Errorf("bad act %q", a)
}

func int64Batch(schema *arrow.Schema, vals []int64) arrow.RecordBatch {
	b := array.NewInt64Builder(memory.NewGoAllocator())
	defer b.Release()
	b.AppendValues(vals, nil)
	arr := b.NewArray()
	defer arr.Release()
	return array.NewRecordBatch(schema, []arrow.Array{arr}, int64(len(vals)))
}

// inputValues reads the first column of an input batch as int64 (int32 columns are widened, so
// a handler that got an uncast int32 batch still reports the numbers; the type is reported
// separately).
func inputValues(b arrow.RecordBatch) ([]int64, string) {
	if b == nil || b.NumCols() == 0 {
		return nil, ""
	}
	col := b.Column(0)
	out := make([]int64, 0, col.Len())
	switch c := col.(type) {
	case *array.Int64:
		for i := 0; i < c.Len(); i++ {
			out = append(out, c.Value(i))
		}
	case *array.Int32:
		for i := 0; i < c.Len(); i++ {
			out = append(out, int64(c.Value(i)))
		}
	case *array.Float64:
		for i := 0; i < c.Len(); i++ {
			out = append(out, int64(c.Value(i)))
		}
	}
	return out, col.DataType().String()
}

// runTick executes one tick program against the collector. The returned error is what the
// handler returns; a panic act panics.
func runScriptTick(acts []scriptAct, input []int64, out *vgirpc.OutputCollector, call *scriptCall) error {
	for _, a := range acts {
		switch a.Op {
		case 'l':
			out.ClientLog(vgirpc.LogInfo, fmt.Sprintf("m%d", a.N))
			call.Logs++
		case 'e':
			vals := a.Vals
			if a.Input {
				vals = make([]int64, len(input))
				for i, v := range input {
					vals[i] = v + a.Add
				}
			}
			var meta map[string]string
			if a.Echo && call.Kind == "exchange" && len(call.Keys) > 0 {
				meta = map[string]string{}
				for i, k := range call.Keys {
					meta[k] = call.Values[i]
				}
			}
			if a.HasMet {
				meta = map[string]string{}
				for i, k := range a.MetaK {
					meta[k] = a.MetaV[i]
				}
			}
			batch := int64Batch(scriptValueSchema, vals)
			size, rows := arrowBufferSize(batch), len(vals)
			if err := out.EmitWithMetadata(batch, meta); err != nil {
				batch.Release()
				if a.Prop {
					return err
				}
			} else {
				call.Emitted++
				call.BufSize, call.Rows = size, rows
			}
		case 'f':
			if err := out.Finish(); err != nil {
				if a.Prop {
					return err
				}
			} else {
				call.Finished = true
			}
		case 'r':
			return &vgirpc.RpcError{Type: "ValueError", Message: fmt.Sprintf("fail-%d", a.N)}
		case 'p':
			panic(fmt.Sprintf("panic-%d", a.N))
		}
	}
	return nil
}

func (s *ScriptCore) exchange(input arrow.RecordBatch, out *vgirpc.OutputCollector, callCtx *vgirpc.CallContext) (err error) {
	call := &scriptCall{Kind: "exchange", Pos: s.Pos, Outcome: "ok"}
	call.Keys = append(call.Keys, callCtx.InputMetadata.Keys()...)
	call.Values = append(call.Values, callCtx.InputMetadata.Values()...)
	call.Input, call.InType = inputValues(input)
	scriptRec(s.Rec).add(call)
	defer func() {
		if rv := recover(); rv != nil {
			call.Outcome = "panic"
			panic(rv)
		}
		if err != nil {
			call.Outcome = "err"
		}
	}()
	if input != nil && !input.Schema().Equal(scriptValueSchema) {
		// the handler insists on its declared input type: an input the transport did not cast
		return &vgirpc.RpcError{Type: "TypeError", Message: "fail-77"}
	}
	ticks, perr := parseScriptProg(s.Prog)
	if perr != nil {
		return perr
	}
	acts := []scriptAct{{Op: 'e', Prop: true, Input: true}} // default once the script is exhausted
	if s.Pos < len(ticks) {
		acts = ticks[s.Pos]
	}
	s.Pos++
	return runScriptTick(acts, call.Input, out, call)
}

func (s *ScriptCore) produce(out *vgirpc.OutputCollector, callCtx *vgirpc.CallContext) (err error) {
	call := &scriptCall{Kind: "produce", Pos: s.Pos, Outcome: "ok"}
	call.Keys = append(call.Keys, callCtx.InputMetadata.Keys()...)
	call.Values = append(call.Values, callCtx.InputMetadata.Values()...)
	scriptRec(s.Rec).add(call)
	defer func() {
		if rv := recover(); rv != nil {
			call.Outcome = "panic"
			panic(rv)
		}
		if err != nil {
			call.Outcome = "err"
		}
	}()
	ticks, perr := parseScriptProg(s.Prog)
	if perr != nil {
		return perr
	}
	acts := []scriptAct{{Op: 'f', Prop: true}} // the script is exhausted: finish the stream
	if s.Pos < len(ticks) {
		acts = ticks[s.Pos]
	}
	s.Pos++
	return runScriptTick(acts, nil, out, call)
}

func (s *ScriptCore) onCancel() error {
	scriptRec(s.Rec).add(&scriptCall{Kind: "cancel", Pos: s.Pos, Outcome: s.Cancel})
	switch s.Cancel {
	case "err":
		return fmt.Errorf("cancel-failed")
	case "panic":
		panic("cancel-panic")
	}
	return nil
}

func (s *ScriptEx) Exchange(_ context.Context, in arrow.RecordBatch, out *vgirpc.OutputCollector, cc *vgirpc.CallContext) error {
	return s.exchange(in, out, cc)
}
func (s *ScriptExC) Exchange(_ context.Context, in arrow.RecordBatch, out *vgirpc.OutputCollector, cc *vgirpc.CallContext) error {
	return s.exchange(in, out, cc)
}
func (s *ScriptExC) OnCancel(context.Context, *vgirpc.CallContext) error { return s.onCancel() }
func (s *ScriptPr) Produce(_ context.Context, out *vgirpc.OutputCollector, cc *vgirpc.CallContext) error {
	return s.produce(out, cc)
}
func (s *ScriptPrC) Produce(_ context.Context, out *vgirpc.OutputCollector, cc *vgirpc.CallContext) error {
	return s.produce(out, cc)
}
func (s *ScriptPrC) OnCancel(context.Context, *vgirpc.CallContext) error { return s.onCancel() }

func (s *ScriptExP) Exchange(_ context.Context, in arrow.RecordBatch, out *vgirpc.OutputCollector, cc *vgirpc.CallContext) error {
	return s.exchange(in, out, cc)
}
func (s *ScriptExP) Produce(_ context.Context, out *vgirpc.OutputCollector, cc *vgirpc.CallContext) error {
	return s.produce(out, cc)
}
func (s *ScriptExPC) Exchange(_ context.Context, in arrow.RecordBatch, out *vgirpc.OutputCollector, cc *vgirpc.CallContext) error {
	return s.exchange(in, out, cc)
}
func (s *ScriptExPC) Produce(_ context.Context, out *vgirpc.OutputCollector, cc *vgirpc.CallContext) error {
	return s.produce(out, cc)
}
func (s *ScriptExPC) OnCancel(context.Context, *vgirpc.CallContext) error { return s.onCancel() }
func (s *ScriptPrX) Exchange(_ context.Context, in arrow.RecordBatch, out *vgirpc.OutputCollector, cc *vgirpc.CallContext) error {
	return s.exchange(in, out, cc)
}
func (s *ScriptPrX) Produce(_ context.Context, out *vgirpc.OutputCollector, cc *vgirpc.CallContext) error {
	return s.produce(out, cc)
}
func (s *ScriptPrXC) Exchange(_ context.Context, in arrow.RecordBatch, out *vgirpc.OutputCollector, cc *vgirpc.CallContext) error {
	return s.exchange(in, out, cc)
}
func (s *ScriptPrXC) Produce(_ context.Context, out *vgirpc.OutputCollector, cc *vgirpc.CallContext) error {
	return s.produce(out, cc)
}
func (s *ScriptPrXC) OnCancel(context.Context, *vgirpc.CallContext) error { return s.onCancel() }

// newScriptState builds the initial state object for a stream kind ("ex"|"pr") and cancel
// behaviour ("absent"|"ok"|"err"|"panic").
func newScriptState(kind, cancel, prog, rec string) interface{} {
	return newScriptStatePad(kind, cancel, prog, rec, "")
}

// newScriptStatePad is newScriptState with ballast in the state (see scriptPad).
func newScriptStatePad(kind, cancel, prog, rec, pad string) interface{} {
	core := ScriptCore{Prog: prog, Rec: rec, Cancel: cancel, Pad: scriptPad(pad)}
	switch {
	case kind == "ex+" && cancel == "absent": // "+": the state type implements both stream interfaces
		return &ScriptExP{core}
	case kind == "ex+":
		return &ScriptExPC{core}
	case kind == "pr+" && cancel == "absent":
		return &ScriptPrX{core}
	case kind == "pr+":
		return &ScriptPrXC{core}
	case kind == "ex" && cancel == "absent":
		return &ScriptEx{core}
	case kind == "ex":
		return &ScriptExC{core}
	case cancel == "absent":
		return &ScriptPr{core}
	default:
		return &ScriptPrC{core}
	}
}

// scriptStateKind tells the METHOD kind a scripted state belongs to (producer?) and whether its
// type has an OnCancel method.
func scriptStateKind(state interface{}) (producer, canceller bool) {
	switch state.(type) {
	case *ScriptPr, *ScriptPrX:
		return true, false
	case *ScriptPrC, *ScriptPrXC:
		return true, true
	case *ScriptExC, *ScriptExPC:
		return false, true
	}
	return false, false
}

// scriptCoreOf extracts the core of a state decoded from a cursor token.
func scriptCoreOf(state interface{}) (*ScriptCore, bool) {
	switch s := state.(type) {
	case *ScriptEx:
		return &s.ScriptCore, true
	case *ScriptExC:
		return &s.ScriptCore, true
	case *ScriptPr:
		return &s.ScriptCore, true
	case *ScriptPrC:
		return &s.ScriptCore, true
	case *ScriptExP:
		return &s.ScriptCore, true
	case *ScriptExPC:
		return &s.ScriptCore, true
	case *ScriptPrX:
		return &s.ScriptCore, true
	case *ScriptPrXC:
		return &s.ScriptCore, true
	}
	return nil, false
}
