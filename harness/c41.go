package main

import (
	"bytes"
	"context"
	"crypto/sha256"
	"encoding/hex"
	"fmt"
	"net/http"
	"net/http/httptest"
	"os"
	"strconv"
	"strings"
	"sync"
	"time"

	"github.com/Query-farm/vgi-rpc-go/vgirpc"
	"github.com/apache/arrow-go/v18/arrow"
	"github.com/apache/arrow-go/v18/arrow/array"
	"github.com/apache/arrow-go/v18/arrow/ipc"
	"github.com/apache/arrow-go/v18/arrow/memory"
)

// C41 — every dispatch path releases all Arrow memory it allocates.
//
// Built with -tags "verif leakcheck" (harness/c41.tags): every framework-internal Arrow allocation
// goes through one CheckedAllocator whose outstanding byte count is read through
// vgirpc.LeakCheckSummary(). Handlers allocate only through the framework (EmitMap, returned Go
// values), the client side of the harness allocates with its own untracked allocator, so the
// counter sees framework allocations only.
//
// Script (one server per case):
//
//	unary <pipe|http|httpcap> <echo|fail|boom|void|badparams> <n> <shm>
//	stream <pipe|http> <prod|xch> <wire> <shm> <turn>;<turn>;...
//	    wire  = i64 (no cast) | i32 (castable) | f64 (castable unless the value is fractional) | str (never castable)
//	    turn  = <emits>:<end>[:bad]   emits = number of EmitMap calls the handler makes (0,1,2)
//	            end = ok | err | panic | fin | cancel (the client sends a cancel batch instead of an input)
//	            bad = this turn's f64 input is fractional (cast fails)
//	    wire two = two float64 columns for a declared (int64,int64) input: the first casts, the second fails when bad
//	    turn suffix :brk (pipe): the client goes away when this turn's handler starts, writing its output fails;
//	    `unary pipe ... brk`: the same for a unary response
//	    turn suffix :unenc (HTTP exchange): the handler leaves an unregistered type in the state, the next cursor
//	    cannot be sealed; :x<kind> (pipex exchange): the input is an external-location pointer to an uploaded object
//	    of that kind (g good, t good+cut-short tail, j good+junk, 2 two data batches, l log+data, n nested pointer
//	    only, d data+nested pointer, s checksum mismatch); `unary httpx echo <n> 0 in=<kind>`: the REQUEST is one
//	    :x<kind> on an httpx exchange: the same over HTTP (spoken by hand, the native client strips the location key);
//	    there a resolved input that is also cast keeps both replacements until the turn returns
//	transports pipex / httpx / httpxacc / httpxpre / httpxpost: a server with in-memory external storage
//	    (threshold 1 byte: every non-empty batch is uploaded); acc/pre/post = max_externalized_response_bytes
//	    set so that the upload is accepted / refused by the pre-flight / refused only after the upload
//	kind prodh: a producer with a stream header
//	castin <wire> <bad>    castRecordBatch on an input the framework allocator built, through the hook
//	<shm> = 1: the call advertises a roomy shared-memory segment (pipe only), results travel as pointers;
//	        2 (producers): wide-schema producer + a segment sized between AllocateAndWrite's estimate and
//	        the exact stored size, so every result passes the pre-check and falls back at the allocation
//
// Observation per call: the outstanding byte count seen by the handler at the start of every turn
// (relative to the baseline before the call) and the count after the call has completed.
// The model line adds the measured sizes of the framework's own constructions (`r=` unary result,
// `e=` one EmitMap batch, `c=` one cast batch) — environment values.

func init() {
	os.Setenv("VGI_RPC_SHM_MIN_BATCH_BYTES", "1")
	Register(&Prop{
		ID: "C41",
		Rule: "random calls over pipe and HTTP: unary (value, error, panic, void, undeserializable parameters, response-cap refusal), producer and " +
			"exchange streams with per-turn outcomes (emit, no emit, double emit, error/panic before or after emit, finish, cancel), input casts " +
			"(none, int32->int64, float64->int64 succeeding or failing per value, string: always failing), shared-memory engaged or not; " +
			"non-trivial = a stream with at least two turns or a unary call that returns a value; distinct = distinct scripts",
		Gen:  c41Gen,
		Exec: c41Exec,
		NonTrivial: func(lines []string) bool {
			for _, l := range lines {
				f := strings.Fields(l)
				if len(f) >= 6 && f[0] == "stream" && strings.Count(f[5], ";") >= 1 {
					return true
				}
				if len(f) >= 3 && f[0] == "unary" && f[2] == "echo" {
					return true
				}
			}
			return false
		},
	})
}

var c41ClientMem = memory.NewGoAllocator() // untracked: client-side batches

func c41Outstanding() (int64, bool) {
	s := vgirpc.LeakCheckSummary()
	const pre = "vgirpc leakcheck: outstanding="
	if !strings.HasPrefix(s, pre) {
		return 0, false
	}
	s = strings.TrimSuffix(strings.TrimPrefix(s, pre), " bytes")
	n, err := strconv.ParseInt(s, 10, 64)
	return n, err == nil
}

// ------------------------------------------------------------------ scripted service

type c41Params struct {
	N int64 `vgirpc:"n"`
}

type c41Turn struct {
	emits int
	end   string
	bad   bool
	brk   bool // the peer goes away when this turn's handler starts: every later write fails
	unenc bool // the handler leaves the stream state un-serializable (an unregistered type in an interface field)
	xin   string // "": plain input; else the kind of external object this turn's input points at
}

// c41Unregistered is deliberately never gob-registered: stored in a state's interface{} field it
// makes the state impossible to seal into the next HTTP cursor.
type c41Unregistered struct{ X int }

// c41BreakWriter is the client's side of a pipe that can go away: once broken every Write fails
// the way a closed pipe does.
type c41BreakWriter struct {
	buf bytes.Buffer
}

func (w *c41BreakWriter) Write(p []byte) (int, error) {
	if c41Broken {
		return 0, fmt.Errorf("write |1: broken pipe")
	}
	return w.buf.Write(p)
}

// c41Store is an in-memory external storage backend: uploads always succeed.
type c41Store struct {
	mu   sync.Mutex
	n    int
	objs map[string][]byte
	base string // URL of the TLS server that serves the objects
}

func (s *c41Store) put(data []byte) string {
	s.mu.Lock()
	defer s.mu.Unlock()
	s.n++
	if s.objs == nil {
		s.objs = map[string][]byte{}
	}
	key := fmt.Sprintf("/obj/%d", s.n)
	s.objs[key] = append([]byte{}, data...)
	return s.base + key
}

func (s *c41Store) Upload(data []byte, _ *arrow.Schema, _ string) (string, error) {
	return s.put(data), nil
}

func (s *c41Store) ServeHTTP(w http.ResponseWriter, r *http.Request) {
	s.mu.Lock()
	data, ok := s.objs[r.URL.Path]
	s.mu.Unlock()
	if !ok {
		http.NotFound(w, r)
		return
	}
	_, _ = w.Write(data)
}

// c41ExtObject builds the object an external-location pointer refers to, and the checksum the
// pointer carries ("" = none). kinds: g one good data batch; t good batch + a second message cut
// short; j good batch + junk; 2 two data batches; l log batch + data batch; n only a nested
// pointer; d data batch + nested pointer; s good object, wrong checksum on the pointer.
// resolves reports whether resolution yields a data batch.
func c41ExtObject(kind string, good func(i int) arrow.RecordBatch) (data []byte, sha string, resolves bool) {
	g0, g1 := good(0), good(1)
	defer g0.Release()
	defer g1.Release()
	schema := g0.Schema()
	var buf bytes.Buffer
	w := ipc.NewWriter(&buf, ipc.WithSchema(schema))
	zero := func(md arrow.Metadata) arrow.RecordBatch {
		cols := make([]arrow.Array, schema.NumFields())
		for i, f := range schema.Fields() {
			bl := array.NewBuilder(c41ClientMem, f.Type)
			cols[i] = bl.NewArray()
			bl.Release()
		}
		defer func() {
			for _, c := range cols {
				c.Release()
			}
		}()
		return array.NewRecordBatchWithMetadata(schema, cols, 0, md)
	}
	nested := zero(arrow.NewMetadata([]string{vgirpc.MetaLocation}, []string{"https://c41-store.invalid/obj/loop"}))
	defer nested.Release()
	logb := zero(arrow.NewMetadata([]string{vgirpc.MetaLogLevel, vgirpc.MetaLogMessage}, []string{"INFO", "uploaded"}))
	defer logb.Release()
	resolves = true
	switch kind {
	case "g", "s":
		_ = w.Write(g0)
	case "2":
		_ = w.Write(g0)
		_ = w.Write(g1)
	case "l":
		_ = w.Write(logb)
		_ = w.Write(g0)
	case "n":
		_ = w.Write(nested)
		resolves = false
	case "d":
		_ = w.Write(g0)
		_ = w.Write(nested)
		resolves = false
	case "t", "j":
		_ = w.Write(g0)
		mark := buf.Len()
		_ = w.Write(g1)
		data = append([]byte{}, buf.Bytes()[:mark]...)
		if kind == "t" {
			data = append(data, buf.Bytes()[mark:mark+(buf.Len()-mark)/2]...) // second message cut short
		} else {
			data = append(data, 0xFF, 0xFF, 0xFF, 0xFF, 0x18, 0, 0, 0, 1, 2, 3, 4, 5, 6, 7, 8, 9, 10, 11, 12, 13, 14, 15, 16, 17, 18, 19, 20, 21, 22, 23, 24)
		}
		return data, "", true
	}
	_ = w.Close()
	data = buf.Bytes()
	if kind == "s" {
		return data, strings.Repeat("0", 64), false
	}
	if kind == "g" {
		h := sha256.Sum256(data)
		sha = hex.EncodeToString(h[:]) // a correct checksum is honoured
	}
	return data, sha, resolves
}

// c41Pointer: the zero-row pointer batch for an uploaded object.
func c41Pointer(schema *arrow.Schema, url, sha string, extraK, extraV []string) arrow.RecordBatch {
	cols := make([]arrow.Array, schema.NumFields())
	for i, f := range schema.Fields() {
		bl := array.NewBuilder(c41ClientMem, f.Type)
		cols[i] = bl.NewArray()
		bl.Release()
	}
	defer func() {
		for _, c := range cols {
			c.Release()
		}
	}()
	keys := append([]string{vgirpc.MetaLocation}, extraK...)
	vals := append([]string{url}, extraV...)
	if sha != "" {
		keys, vals = append(keys, vgirpc.MetaLocationSHA256), append(vals, sha)
	}
	return array.NewRecordBatchWithMetadata(schema, cols, 0, arrow.NewMetadata(keys, vals))
}

// c41Header is the header of the header-bearing producer.
type c41Header struct {
	Note string `arrow:"note"`
}

var c41HeaderSchema = arrow.NewSchema([]arrow.Field{{Name: "note", Type: arrow.BinaryTypes.String}}, nil)

func (c41Header) ArrowSchema() *arrow.Schema { return c41HeaderSchema }

// the plan of the call in flight and what its handlers saw (Exec is single-threaded per case)
var (
	c41Plan     []c41Turn
	c41Idx      int
	c41Samples  []int64
	c41Baseline int64
	c41TurnLimit int64 // the largest replacement input a turn of the call in flight may own
	c41Broken   bool // the pipe's reader has gone away
	c41ArmBreak bool // break the pipe when the (unary) handler starts
)

var c41ValueSchema = arrow.NewSchema([]arrow.Field{{Name: "value", Type: arrow.PrimitiveTypes.Int64}}, nil)

// two-column exchange input: declared (a int64, b int64); the client sends (a float64, b float64), so
// column a needs and passes a cast and column b fails the safe cast when its value is fractional
var c41TwoSchema = arrow.NewSchema([]arrow.Field{{Name: "a", Type: arrow.PrimitiveTypes.Int64}, {Name: "b", Type: arrow.PrimitiveTypes.Int64}}, nil)
var c41TwoWire = arrow.NewSchema([]arrow.Field{{Name: "a", Type: arrow.PrimitiveTypes.Float64}, {Name: "b", Type: arrow.PrimitiveTypes.Float64}}, nil)

// an output schema whose schema message alone is larger than the 4096 bytes of slack in
// AllocateAndWrite's capacity estimate: with a segment sized between the estimate and the exact
// stored size the pre-check passes and the exact-size allocation is refused
var c41WideSchema = arrow.NewSchema([]arrow.Field{{Name: "value", Type: arrow.PrimitiveTypes.Int64,
	Metadata: arrow.NewMetadata([]string{"doc"}, []string{strings.Repeat("w", 6000)})}}, nil)

func c41Sample() {
	n, _ := c41Outstanding()
	c41Samples = append(c41Samples, n-c41Baseline)
	if c41ArmBreak {
		c41Broken = true
	}
}

func c41RunTurn(out *vgirpc.OutputCollector, extra *interface{}) error {
	c41Sample()
	// past the scripted turns (an HTTP producer keeps being asked until it finishes) the handler
	// finishes; on an exchange that is an error, which ends the stream as well
	t := c41Turn{emits: 0, end: "fin"}
	if c41Idx < len(c41Plan) {
		t = c41Plan[c41Idx]
	}
	i := c41Idx
	c41Idx++
	if t.brk {
		c41Broken = true
	}
	if t.unenc {
		*extra = c41Unregistered{X: i}
	}
	var first error
	for j := 0; j < t.emits; j++ {
		if err := out.EmitMap(map[string][]interface{}{"value": {int64(i)}}); err != nil && first == nil {
			first = err
		}
	}
	switch t.end {
	case "err":
		return &vgirpc.RpcError{Type: "ValueError", Message: "scripted turn failure"}
	case "panic":
		panic("scripted turn panic")
	case "fin":
		if err := out.Finish(); err != nil && first == nil {
			first = err
		}
	}
	return first
}

type c41Prod struct{ Extra interface{} }

func (s *c41Prod) Produce(_ context.Context, out *vgirpc.OutputCollector, _ *vgirpc.CallContext) error {
	return c41RunTurn(out, &s.Extra)
}

type c41Xch struct{ Extra interface{} }

func (s *c41Xch) Exchange(_ context.Context, _ arrow.RecordBatch, out *vgirpc.OutputCollector, _ *vgirpc.CallContext) error {
	return c41RunTurn(out, &s.Extra)
}

func c41Server(ext *vgirpc.ExternalLocationConfig) *vgirpc.Server {
	s := vgirpc.NewServer()
	if ext != nil {
		s.SetExternalLocation(ext)
	}
	vgirpc.ProducerWithHeader(s, "prodh", c41ValueSchema, c41HeaderSchema, func(_ context.Context, _ *vgirpc.CallContext, p c41Params) (*vgirpc.StreamResult, error) {
		return &vgirpc.StreamResult{OutputSchema: c41ValueSchema, State: &c41Prod{}, Header: c41Header{Note: "stream header"}}, nil
	})
	vgirpc.Unary(s, "echo", func(_ context.Context, _ *vgirpc.CallContext, p c41Params) (string, error) {
		c41Sample()
		return strings.Repeat("x", int(p.N)), nil
	})
	vgirpc.Unary(s, "fail", func(_ context.Context, _ *vgirpc.CallContext, p c41Params) (string, error) {
		c41Sample()
		return "", &vgirpc.RpcError{Type: "ValueError", Message: "scripted failure"}
	})
	vgirpc.Unary(s, "boom", func(_ context.Context, _ *vgirpc.CallContext, p c41Params) (string, error) {
		c41Sample()
		panic("scripted panic")
	})
	vgirpc.UnaryVoid(s, "void", func(_ context.Context, _ *vgirpc.CallContext, p c41Params) error {
		c41Sample()
		return nil
	})
	vgirpc.Producer(s, "prod", c41ValueSchema, func(_ context.Context, _ *vgirpc.CallContext, p c41Params) (*vgirpc.StreamResult, error) {
		return &vgirpc.StreamResult{OutputSchema: c41ValueSchema, State: &c41Prod{}}, nil
	})
	vgirpc.Exchange(s, "xch", c41ValueSchema, c41ValueSchema, func(_ context.Context, _ *vgirpc.CallContext, p c41Params) (*vgirpc.StreamResult, error) {
		return &vgirpc.StreamResult{OutputSchema: c41ValueSchema, InputSchema: c41ValueSchema, State: &c41Xch{}}, nil
	})
	vgirpc.Exchange(s, "xch2", c41ValueSchema, c41TwoSchema, func(_ context.Context, _ *vgirpc.CallContext, p c41Params) (*vgirpc.StreamResult, error) {
		return &vgirpc.StreamResult{OutputSchema: c41ValueSchema, InputSchema: c41TwoSchema, State: &c41Xch{}}, nil
	})
	vgirpc.Producer(s, "prodwide", c41WideSchema, func(_ context.Context, _ *vgirpc.CallContext, p c41Params) (*vgirpc.StreamResult, error) {
		return &vgirpc.StreamResult{OutputSchema: c41WideSchema, State: &c41Prod{}}, nil
	})
	return s
}

func init() {
	vgirpc.RegisterStateType(&c41Prod{})
	vgirpc.RegisterStateType(&c41Xch{})
}

// ------------------------------------------------------------------ client-side batches (untracked)

func c41ParamsBatch(schema *arrow.Schema, n int64) arrow.RecordBatch {
	b := array.NewInt64Builder(c41ClientMem)
	b.Append(n)
	col := b.NewArray()
	b.Release()
	defer col.Release()
	return array.NewRecordBatch(schema, []arrow.Array{col}, 1)
}

func c41WireSchema(wire string) *arrow.Schema {
	if wire == "two" {
		return c41TwoWire
	}
	var dt arrow.DataType = arrow.PrimitiveTypes.Int64
	switch wire {
	case "i32":
		dt = arrow.PrimitiveTypes.Int32
	case "f64":
		dt = arrow.PrimitiveTypes.Float64
	case "str":
		dt = arrow.BinaryTypes.String
	}
	return arrow.NewSchema([]arrow.Field{{Name: "value", Type: dt}}, nil)
}

func c41InputBatch(schema *arrow.Schema, wire string, i int, bad bool, md *arrow.Metadata) arrow.RecordBatch {
	if wire == "two" {
		cols := make([]arrow.Array, 2)
		for k := range cols {
			fb := array.NewFloat64Builder(c41ClientMem)
			v := float64(i)
			if k == 1 && bad {
				v += 0.5
			}
			fb.Append(v)
			cols[k] = fb.NewArray()
			fb.Release()
		}
		defer cols[0].Release()
		defer cols[1].Release()
		if md != nil {
			return array.NewRecordBatchWithMetadata(schema, cols, 1, *md)
		}
		return array.NewRecordBatch(schema, cols, 1)
	}
	bl := array.NewBuilder(c41ClientMem, schema.Field(0).Type)
	switch b := bl.(type) {
	case *array.Int64Builder:
		b.Append(int64(i))
	case *array.Int32Builder:
		b.Append(int32(i))
	case *array.Float64Builder:
		v := float64(i)
		if bad {
			v += 0.5
		}
		b.Append(v)
	case *array.StringBuilder:
		b.Append("seven")
	}
	col := bl.NewArray()
	bl.Release()
	defer col.Release()
	if md != nil {
		return array.NewRecordBatchWithMetadata(schema, []arrow.Array{col}, 1, *md)
	}
	return array.NewRecordBatch(schema, []arrow.Array{col}, 1)
}

// ------------------------------------------------------------------ measuring the framework's constructions

func c41Measure(build func() func()) int64 {
	before, _ := c41Outstanding()
	release := build()
	mid, _ := c41Outstanding()
	release()
	return mid - before
}

func c41DeclaredInput(wire string) *arrow.Schema {
	if wire == "two" {
		return c41TwoSchema
	}
	return c41ValueSchema
}

// c41FrameworkInput builds, with the framework allocator, the batch a client would send on this
// wire (EmitMap knows int64/float64/string): what an externally resolved stream input looks like.
func c41FrameworkInput(wire string, bad bool) (*vgirpc.OutputCollector, arrow.RecordBatch) {
	oc := vgirpc.VerifC41NewCollector(c41WireSchema(wire), false)
	frac := 0.0
	if bad {
		frac = 0.5
	}
	var data map[string][]interface{}
	switch wire {
	case "two":
		data = map[string][]interface{}{"a": {float64(3)}, "b": {3 + frac}}
	case "f64":
		data = map[string][]interface{}{"value": {3 + frac}}
	case "str":
		data = map[string][]interface{}{"value": {"seven"}}
	default:
		data = map[string][]interface{}{"value": {int64(3)}}
	}
	if err := oc.EmitMap(data); err != nil {
		panic(err)
	}
	return oc, vgirpc.VerifC41CollectorBatch(oc)
}

func c41EmitSizeOf(schema *arrow.Schema) int64 {
	return c41Measure(func() func() {
		oc := vgirpc.VerifC41NewCollector(schema, false)
		_ = oc.EmitMap(map[string][]interface{}{"value": {int64(3)}})
		return oc.VerifC41ReleaseBatches
	})
}

func c41EmitSize() int64 {
	return c41Measure(func() func() {
		oc := vgirpc.VerifC41NewCollector(c41ValueSchema, false)
		_ = oc.EmitMap(map[string][]interface{}{"value": {int64(3)}})
		return oc.VerifC41ReleaseBatches
	})
}

func c41CastSize(wire string) int64 {
	if wire == "i64" || wire == "str" {
		return 0
	}
	return c41Measure(func() func() {
		in := c41InputBatch(c41WireSchema(wire), wire, 3, false, nil)
		defer in.Release()
		out, err := vgirpc.VerifC41Cast(in, c41DeclaredInput(wire))
		if err != nil {
			return func() {}
		}
		return out.Release
	})
}

func c41ResultSize(srv *vgirpc.Server, n int64) int64 {
	_, rs, _, _, _ := vgirpc.VerifC36Schemas(srv, "echo")
	return c41Measure(func() func() {
		b, err := vgirpc.VerifC41SerializeResult(rs, strings.Repeat("x", int(n)))
		if err != nil {
			return func() {}
		}
		return b.Release
	})
}

// ------------------------------------------------------------------ exec

func c41ParseTurns(s string) []c41Turn {
	var out []c41Turn
	if s == "-" {
		return nil
	}
	for _, ts := range strings.Split(s, ";") {
		p := strings.Split(ts, ":")
		e, _ := strconv.Atoi(p[0])
		t := c41Turn{emits: e, end: p[1]}
		for _, fl := range p[2:] {
			switch fl {
			case "bad":
				t.bad = true
			case "brk":
				t.brk = true
			case "unenc":
				t.unenc = true
			default:
				if strings.HasPrefix(fl, "x") && len(fl) == 2 {
					t.xin = fl[1:]
				}
			}
		}
		out = append(out, t)
	}
	return out
}

func c41Exec(c *Case) {
	if _, ok := c41Outstanding(); !ok {
		c.Oracle("harness-not-built-with-leakcheck", "LeakCheckSummary() is empty: build the harness with -tags \"verif leakcheck\"")
		for _, l := range c.Lines {
			c.Out(l, "err:no-leakcheck")
		}
		return
	}
	srv := c41Server(nil)
	store := &c41Store{}
	storeSrv := httptest.NewTLSServer(store)
	defer storeSrv.Close()
	store.base = storeSrv.URL
	extCfg := vgirpc.DefaultExternalLocationConfig(store)
	extCfg.ExternalizeThresholdBytes = 1 // every non-empty batch is uploaded
	extCfg.HTTPClient = storeSrv.Client()
	extCfg.RetryDelay = time.Millisecond
	// bytes of an input batch after ResolveExternalLocation decoded it with the framework allocator
	resolvedSize := func(good func(i int) arrow.RecordBatch) int64 {
		return c41Measure(func() func() {
			data, sha, _ := c41ExtObject("g", good)
			g := good(0)
			ptr := c41Pointer(g.Schema(), store.put(data), sha, nil, nil)
			g.Release()
			defer ptr.Release()
			out, _, err := vgirpc.ResolveExternalLocation(ptr, ptr.(arrow.RecordBatchWithMetadata).Metadata(), extCfg)
			if err != nil {
				panic(fmt.Sprintf("c41: resolving a good external object failed: %v", err))
			}
			return out.Release
		})
	}
	srvExt := c41Server(extCfg)
	// an HTTP front for the external-storage server with the given max_externalized_response_bytes
	extHTTP := func(cap int64) (*httptest.Server, func()) {
		h := vgirpc.NewHttpServer(srvExt)
		if cap > 0 {
			h.SetMaxExternalizedResponseBytes(cap)
		}
		t := httptest.NewServer(h)
		return t, t.Close
	}
	wrapperSize := c41Measure(func() func() {
		b, _ := vgirpc.MakeExternalLocationBatch(c41ValueSchema, "https://c41-store.invalid/obj/0")
		return b.Release
	})
	hs := vgirpc.NewHttpServer(srv)
	ts := httptest.NewServer(hs)
	defer ts.Close()
	hsCap := vgirpc.NewHttpServer(srv)
	hsCap.SetMaxResponseBytes(600)
	tsCap := httptest.NewServer(hsCap)
	defer tsCap.Close()
	var seg, tight *vgirpc.ShmSegment
	defer func() {
		if seg != nil {
			seg.Close()
		}
		if tight != nil {
			tight.Close()
		}
	}()
	ps, _, _, _, _ := vgirpc.VerifC36Schemas(srv, "echo")

	for _, l := range c.Lines {
		f := strings.Fields(l)
		if len(f) == 0 {
			continue
		}
		base, _ := c41Outstanding()
		c41Baseline, c41Samples, c41Idx, c41Plan = base, nil, 0, nil
		c41Broken, c41ArmBreak, c41TurnLimit = false, false, 0
		uploadsBefore := store.n
		shmKeys := func(on bool) ([]string, []string) {
			if !on {
				return nil, nil
			}
			if f[0] == "stream" && f[4] == "2" {
				// a segment whose data area lies between the capacity estimate and the exact stored
				// size of one wide-schema batch: pre-check passes, exact-size allocation is refused
				oc := vgirpc.VerifC41NewCollector(c41WideSchema, true)
				_ = oc.EmitMap(map[string][]interface{}{"value": {int64(3)}})
				wb := vgirpc.VerifC41CollectorBatch(oc)
				est := vgirpc.VerifC35EstimateSerializedSize(wb)
				var full bytes.Buffer
				fw := ipc.NewWriter(&full, ipc.WithSchema(wb.Schema()))
				_ = fw.Write(wb)
				_ = fw.Close()
				oc.VerifC41ReleaseBatches()
				if est+64 >= full.Len() {
					panic(fmt.Sprintf("c41: wide schema not wide enough: estimate %d, stored %d", est, full.Len()))
				}
				if tight != nil {
					tight.Close()
				}
				ts, err := vgirpc.ShmCreate(vgirpc.ShmHeaderSize + est + 64)
				if err != nil {
					panic(err)
				}
				tight = ts
				return []string{vgirpc.MetaShmSegmentName, vgirpc.MetaShmSegmentSize}, []string{tight.Name(), strconv.Itoa(tight.Size())}
			}
			if seg == nil {
				s, err := vgirpc.ShmCreate(vgirpc.ShmHeaderSize + 1<<20)
				if err != nil {
					panic(err)
				}
				seg = s
			}
			seg.Reset()
			return []string{vgirpc.MetaShmSegmentName, vgirpc.MetaShmSegmentSize}, []string{seg.Name(), strconv.Itoa(seg.Size())}
		}
		report := func(ml string) {
			after, _ := c41Outstanding()
			parts := make([]string, len(c41Samples))
			for i, s := range c41Samples {
				parts[i] = strconv.FormatInt(s, 10)
			}
			if after != base {
				c.Oracle("arrow-memory-leak", fmt.Sprintf("%q: outstanding framework allocation went from %d to %d bytes across the call", l, base, after))
			}
			// a turn may start with its own replacement input outstanding (cast batch, or externally
			// resolved batch) and nothing else: more than the first turn saw, and more than one such
			// batch, means something from an earlier turn is still there
			limit := int64(0)
			if len(c41Samples) > 0 {
				limit = c41Samples[0]
			}
			if c41TurnLimit > limit {
				limit = c41TurnLimit
			}
			for i := 1; i < len(c41Samples); i++ {
				if c41Samples[i] > limit && f[0] == "stream" {
					c.Oracle("arrow-memory-accumulates-across-turns", fmt.Sprintf("%q: outstanding at turn starts %v", l, c41Samples))
					break
				}
			}
			if len(f) > 1 && (f[1] == "pipex" || strings.HasPrefix(f[1], "httpx")) {
				// evidence that the external paths were really taken (distribution only)
				if store.n > uploadsBefore {
					c.Stat("ext-" + f[1] + "-uploaded")
				} else {
					c.Stat("ext-" + f[1] + "-no-upload")
				}
			}
			c.Out(ml, fmt.Sprintf("samples=[%s] after=%d", strings.Join(parts, ","), after-base))
		}
		switch f[0] {
		case "unary":
			transport, method := f[1], f[2]
			n, _ := strconv.ParseInt(f[3], 10, 64)
			shm := f[4] == "1"
			ml := fmt.Sprintf("unary %s %s %s r=%d", transport, method, f[4], c41ResultSize(srv, n))
			c41ArmBreak = len(f) > 5 && f[5] == "brk" && strings.HasPrefix(transport, "pipe")
			isExt := transport == "pipex" || strings.HasPrefix(transport, "httpx")
			var extCap int64
			if isExt && method == "echo" {
				// what the external path will do with this result, from its sizes and the cap chosen
				_, rs, _, _, _ := vgirpc.VerifC36Schemas(srv, "echo")
				rb, _ := vgirpc.VerifC41SerializeResult(rs, strings.Repeat("x", int(n)))
				predicted := vgirpc.VerifC35BatchBufferSize(rb)
				var raw bytes.Buffer
				rw := ipc.NewWriter(&raw, ipc.WithSchema(rb.Schema()))
				_ = rw.Write(rb)
				_ = rw.Close()
				rb.Release()
				mode := "uploaded"
				switch {
				case predicted < 1:
					mode = "inline"
				case transport == "httpxpre" && predicted >= 2:
					extCap, mode = predicted-1, "pre"
				case transport == "httpxpost" && int64(raw.Len()) > predicted:
					extCap, mode = predicted, "post"
				case transport == "httpxacc":
					extCap = int64(raw.Len()) + 1000
				}
				ml = fmt.Sprintf("unaryx %s %s r=%d w=%d", transport, mode, c41ResultSize(srv, n), wrapperSize)
			}
			inKind := ""
			if len(f) > 5 && strings.HasPrefix(f[5], "in=") && transport == "httpx" && method == "echo" {
				inKind = f[5][3:]
			}
			var inBody bytes.Buffer
			if inKind != "" {
				// the request itself is an external-location pointer: the parameters live in an
				// uploaded object of the given kind
				good := func(int) arrow.RecordBatch { return c41ParamsBatch(ps, n) }
				data, sha, resolves := c41ExtObject(inKind, good)
				keys, vals := []string{vgirpc.MetaLocation}, []string{store.put(data)}
				if sha != "" {
					keys, vals = append(keys, vgirpc.MetaLocationSHA256), append(vals, sha)
				}
				zero := c41Pointer(ps, "", "", nil, nil)
				zp := array.NewRecordBatch(ps, zero.Columns(), 0)
				zero.Release()
				c41WriteRequest(&inBody, "echo", zp, keys, vals)
				zp.Release()
				okS := "err"
				if resolves {
					okS = "ok"
				}
				ml = fmt.Sprintf("unaryin httpx %s r=%d w=%d x=%d", okS, c41ResultSize(srv, n), wrapperSize, resolvedSize(good))
			}
			reqSchema := ps
			target := method
			if method == "badparams" {
				// parameters the declared struct cannot take: a string where an int64 is declared
				reqSchema = arrow.NewSchema([]arrow.Field{{Name: "n", Type: arrow.BinaryTypes.String}}, nil)
				target = "echo"
			}
			var params arrow.RecordBatch
			if method == "badparams" {
				sb := array.NewStringBuilder(c41ClientMem)
				sb.Append("nope")
				col := sb.NewArray()
				sb.Release()
				params = array.NewRecordBatch(reqSchema, []arrow.Array{col}, 1)
				col.Release()
			} else {
				params = c41ParamsBatch(reqSchema, n)
			}
			if strings.HasPrefix(transport, "pipe") {
				sk, sv := shmKeys(shm)
				var in bytes.Buffer
				out := &c41BreakWriter{}
				c41WriteRequest(&in, target, params, sk, sv)
				if isExt {
					srvExt.Serve(&in, out)
				} else {
					srv.Serve(&in, out)
				}
			} else {
				url := ts.URL
				if transport == "httpcap" {
					url = tsCap.URL
				}
				if isExt {
					t, closeT := extHTTP(extCap)
					defer closeT()
					url = t.URL
				}
				if inKind != "" {
					resp, perr := http.Post(url+"/echo", "application/vnd.apache.arrow.stream", &inBody)
					if perr == nil {
						_, _ = bytes.NewBuffer(nil).ReadFrom(resp.Body)
						resp.Body.Close()
					}
					c.Stat("unary-in-" + inKind)
				} else {
					cl, err := vgirpc.NewHttpClient(url)
					if err != nil {
						panic(err)
					}
					_, rs, _, _, _ := vgirpc.VerifC36Schemas(srv, target)
					res, _ := cl.CallUnary(context.Background(), target, params, rs)
					res.Release()
					cl.Close()
				}
			}
			params.Release()
			c.Stat("unary-" + transport + "-" + method)
			report(ml)
		case "stream":
			transport, kind, wire := f[1], f[2], f[3]
			shm := f[4] != "0"
			turns := c41ParseTurns(f[5])
			c41Plan = nil
			for _, t := range turns {
				if t.end != "cancel" {
					c41Plan = append(c41Plan, t)
				}
			}
			emitSize := c41EmitSize()
			method := "prod"
			if kind == "prodh" {
				method = "prodh"
			}
			isExt := transport == "pipex" || strings.HasPrefix(transport, "httpx")
			inSchema := arrow.NewSchema(nil, nil)
			if kind == "xch" {
				method = "xch"
				if wire == "two" {
					method = "xch2"
				}
				inSchema = c41WireSchema(wire)
			} else if f[4] == "2" {
				method = "prodwide"
				emitSize = c41EmitSizeOf(c41WideSchema)
			}
			// the turns as the model is told them: over HTTP with external storage the native client
			// cannot follow an external-location answer, so an exchange ends after the first turn that
			// is answered with data; with the pre-flight cap every emitting turn is refused (`:cap`)
			mturns := strings.Split(f[5], ";")
			goodIn := func(i int) arrow.RecordBatch { return c41InputBatch(inSchema, wire, i, false, nil) }
			xSize := int64(0)
			for i, t := range turns {
				// what the model is told: `:unenc` only where the state is serialized (HTTP exchange),
				// `:x<kind>` as resolves / does not resolve
				var keep []string
				for _, fl := range strings.Split(mturns[i], ":") {
					switch {
					case fl == "unenc":
						if strings.HasPrefix(transport, "http") && kind == "xch" {
							keep = append(keep, fl)
						}
					case len(fl) == 2 && fl[0] == 'x' && t.xin != "":
						if (transport == "pipex" || transport == "httpx") && kind == "xch" {
							if transport == "httpx" {
								keep = append(keep, "both") // every replacement has its own deferred release
							}
							_, _, resolves := c41ExtObject(t.xin, goodIn)
							if resolves {
								keep = append(keep, "xok")
							} else {
								keep = append(keep, "xerr")
							}
							if xSize == 0 {
								xSize = resolvedSize(goodIn)
							}
						}
					default:
						keep = append(keep, fl)
					}
				}
				mturns[i] = strings.Join(keep, ":")
			}
			var extCap int64
			if strings.HasPrefix(transport, "httpx") {
				oc := vgirpc.VerifC41NewCollector(c41ValueSchema, false)
				_ = oc.EmitMap(map[string][]interface{}{"value": {int64(3)}})
				predicted := vgirpc.VerifC35BatchBufferSize(vgirpc.VerifC41CollectorBatch(oc))
				oc.VerifC41ReleaseBatches()
				switch transport {
				case "httpxpre":
					extCap = predicted - 1
					for i := range mturns {
						mturns[i] += ":cap"
					}
				case "httpxacc":
					extCap = 1 << 30
				}
				anyXin := false
				for _, t := range turns {
					anyXin = anyXin || t.xin != ""
				}
				if kind == "xch" && transport != "httpxpre" && !(transport == "httpx" && anyXin) {
					for i, t := range turns {
						castFails := wire == "str" || ((wire == "f64" || wire == "two") && t.bad)
						if t.end == "ok" && t.emits == 1 && !castFails {
							mturns = mturns[:i+1]
							break
						}
					}
				}
			}
			ml := fmt.Sprintf("stream %s %s %s %s e=%d c=%d x=%d %s", transport, kind, wire, f[4], emitSize, c41CastSize(wire), xSize, strings.Join(mturns, ";"))
			c41TurnLimit = c41CastSize(wire)
			if xSize > c41TurnLimit {
				c41TurnLimit = xSize
			}
			if transport == "httpx" && xSize > 0 {
				c41TurnLimit = c41CastSize(wire) + xSize // HTTP exchange keeps the resolved batch next to the cast batch
			}
			params := c41ParamsBatch(ps, 1)
			cancelMD := arrow.NewMetadata([]string{vgirpc.MetaCancel}, []string{"true"})
			if strings.HasPrefix(transport, "pipe") {
				sk, sv := shmKeys(shm)
				var in bytes.Buffer
				out := &c41BreakWriter{}
				c41WriteRequest(&in, method, params, sk, sv)
				iw := ipc.NewWriter(&in, ipc.WithSchema(inSchema))
				for i, t := range turns {
					var b arrow.RecordBatch
					var md *arrow.Metadata
					if t.end == "cancel" {
						md = &cancelMD
					}
					if kind == "xch" && t.xin != "" && transport == "pipex" && md == nil {
						bad := t.bad
						data, sha, _ := c41ExtObject(t.xin, func(j int) arrow.RecordBatch { return c41InputBatch(inSchema, wire, i+j, bad, nil) })
						b = c41Pointer(inSchema, store.put(data), sha, nil, nil)
						c.Stat("stream-in-" + t.xin)
					} else if kind == "xch" {
						b = c41InputBatch(inSchema, wire, i, t.bad, md)
					} else if md != nil {
						b = array.NewRecordBatchWithMetadata(inSchema, nil, 0, *md)
					} else {
						b = array.NewRecordBatch(inSchema, nil, 0)
					}
					_ = iw.Write(b)
					b.Release()
				}
				_ = iw.Close()
				if isExt {
					srvExt.Serve(&in, out)
				} else {
					srv.Serve(&in, out)
				}
			} else {
				url := ts.URL
				if isExt {
					t, closeT := extHTTP(extCap)
					defer closeT()
					url = t.URL
				}
				rawExt := false
				for _, t := range turns {
					if t.xin != "" && transport == "httpx" && kind == "xch" {
						rawExt = true
					}
				}
				cl, err := vgirpc.NewHttpClient(url)
				if err != nil {
					panic(err)
				}
				ctx := context.Background()
				if rawExt {
					// the native client strips vgi_rpc.location from inputs, so an exchange whose inputs
					// are external-location pointers is spoken by hand: init, then one POST per turn
					c41RawExchange(c, url, method, params, inSchema, wire, turns, store)
				} else if kind == "xch" {
					st, err := cl.OpenExchange(ctx, method, params, vgirpc.ClientStreamSchema{Input: inSchema, Output: c41ValueSchema})
					if err == nil {
						for i, t := range turns {
							if t.end == "cancel" {
								_ = st.Cancel(ctx)
								break
							}
							b := c41InputBatch(inSchema, wire, i, t.bad, nil)
							res, xerr := st.Exchange(ctx, b)
							b.Release()
							res.Release()
							if xerr != nil {
								break
							}
						}
						st.Close()
					}
				} else {
					sch := vgirpc.ClientStreamSchema{Output: c41ValueSchema}
					if kind == "prodh" {
						sch.Header = c41HeaderSchema
					}
					st, err := cl.OpenProducer(ctx, method, params, sch)
					if err == nil {
						for i := 0; i < len(turns)+2; i++ {
							if i < len(turns) && turns[i].end == "cancel" {
								_ = st.Cancel(ctx)
								break
							}
							res, ok, nerr := st.Next(ctx)
							res.Release()
							if nerr != nil || !ok {
								break
							}
						}
						st.Close()
					}
				}
				cl.Close()
			}
			params.Release()
			c.Stat("stream-" + transport + "-" + kind + "-" + wire)
			report(ml)
		case "castin":
			// castRecordBatch on an input whose buffers are the framework's own (hook level: the
			// path an externally resolved exchange input takes), then everything released
			wire, bad := f[1], f[2] == "1"
			inSize := c41Measure(func() func() {
				oc, _ := c41FrameworkInput(wire, bad)
				return oc.VerifC41ReleaseBatches
			})
			castSize := int64(0)
			if !bad && wire != "str" && wire != "i64" {
				castSize = c41Measure(func() func() {
					in := c41InputBatch(c41WireSchema(wire), wire, 3, false, nil)
					defer in.Release()
					out, err := vgirpc.VerifC41Cast(in, c41DeclaredInput(wire))
					if err != nil {
						return func() {}
					}
					return out.Release
				})
			}
			ml := fmt.Sprintf("castin %s %s e=%d c=%d", wire, f[2], inSize, castSize)
			oc, in := c41FrameworkInput(wire, bad)
			out, err := vgirpc.VerifC41Cast(in, c41DeclaredInput(wire))
			c41Sample()
			if err == nil {
				out.Release()
			}
			oc.VerifC41ReleaseBatches()
			c.Stat("castin-" + wire)
			report(ml)
		default:
			c.Out(l, "err:bad-op")
		}
	}
}

// c41RawExchange drives an HTTP exchange turn by turn with hand-built bodies. The continuation
// token is taken from the response body or, when the answer was uploaded, from the stored object.
func c41RawExchange(c *Case, url, method string, params arrow.RecordBatch, inSchema *arrow.Schema, wire string, turns []c41Turn, store *c41Store) {
	post := func(path string, body []byte) ([]byte, bool) {
		resp, err := http.Post(url+"/"+method+"/"+path, "application/vnd.apache.arrow.stream", bytes.NewReader(body))
		if err != nil {
			return nil, false
		}
		defer resp.Body.Close()
		var buf bytes.Buffer
		_, _ = buf.ReadFrom(resp.Body)
		return buf.Bytes(), resp.StatusCode == 200 && resp.Header.Get("X-VGI-RPC-Error") == ""
	}
	tokens := func(body []byte) (state, call []byte) {
		state, call = vgirpc.FindStreamTokens(body)
		if state != nil {
			return
		}
		// the answer may be an external-location pointer: the token rides the uploaded object
		rd, err := ipc.NewReader(bytes.NewReader(body))
		if err != nil {
			return nil, nil
		}
		defer rd.Release()
		for rd.Next() {
			if rb, ok := rd.RecordBatch().(arrow.RecordBatchWithMetadata); ok {
				if loc, found := rb.Metadata().GetValue(vgirpc.MetaLocation); found && strings.HasPrefix(loc, store.base) {
					store.mu.Lock()
					obj := store.objs[strings.TrimPrefix(loc, store.base)]
					store.mu.Unlock()
					return vgirpc.FindStreamTokens(obj)
				}
			}
		}
		return nil, nil
	}
	var req bytes.Buffer
	c41WriteRequest(&req, method, params, nil, nil)
	body, ok := post("init", req.Bytes())
	if !ok {
		return
	}
	state, call := tokens(body)
	for i, t := range turns {
		if state == nil || t.end == "cancel" {
			return
		}
		keys, vals := []string{vgirpc.MetaStreamState}, []string{string(state)}
		if call != nil {
			keys, vals = append(keys, vgirpc.MetaCallState), append(vals, string(call))
		}
		var b arrow.RecordBatch
		if t.xin != "" {
			bad := t.bad
			data, sha, _ := c41ExtObject(t.xin, func(j int) arrow.RecordBatch { return c41InputBatch(inSchema, wire, i+j, bad, nil) })
			b = c41Pointer(inSchema, store.put(data), sha, keys, vals)
			c.Stat("http-exchange-in-" + t.xin)
		} else {
			md := arrow.NewMetadata(keys, vals)
			b = c41InputBatch(inSchema, wire, i, t.bad, &md)
		}
		var tb bytes.Buffer
		w := ipc.NewWriter(&tb, ipc.WithSchema(inSchema))
		_ = w.Write(b)
		_ = w.Close()
		b.Release()
		body, ok = post("exchange", tb.Bytes())
		if !ok {
			return
		}
		state, call = tokens(body)
	}
}

func c41WriteRequest(w *bytes.Buffer, method string, params arrow.RecordBatch, extraK, extraV []string) {
	keys := append([]string{vgirpc.MetaMethod, vgirpc.MetaRequestVersion}, extraK...)
	vals := append([]string{method, vgirpc.ProtocolVersion}, extraV...)
	b := array.NewRecordBatchWithMetadata(params.Schema(), params.Columns(), params.NumRows(), arrow.NewMetadata(keys, vals))
	defer b.Release()
	wr := ipc.NewWriter(w, ipc.WithSchema(params.Schema()))
	_ = wr.Write(b)
	_ = wr.Close()
}

// ------------------------------------------------------------------ generator

func c41Gen(g *Gen) {
	r := g.Rng
	n := g.N(400, 8000)
	for i := 0; i < n; i++ {
		var lines []string
		for k := r.Range(2, 7); k > 0; k-- {
			if r.Chance(8) {
				lines = append(lines, fmt.Sprintf("castin %s %d", Pick(r, []string{"i64", "f64", "f64", "str", "two", "two"}), r.Intn(2)))
				continue
			}
			if r.Chance(35) {
				transport := Pick(r, []string{"pipe", "pipe", "http", "http", "httpcap", "pipex", "httpx", "httpxacc", "httpxpre", "httpxpost"})
				method := Pick(r, []string{"echo", "echo", "echo", "fail", "boom", "void", "badparams"})
				shm := 0
				if transport == "pipe" && r.Chance(30) {
					shm = 1
				}
				line := fmt.Sprintf("unary %s %s %d %d", transport, method, Pick(r, []int{0, 1, 10, 100, 700, 5000}), shm)
				if strings.HasPrefix(transport, "pipe") && r.Chance(25) {
					line += " brk" // the client goes away before the response is written
				} else if transport == "httpx" && method == "echo" && r.Chance(60) {
					// the request itself is an external-location pointer to an uploaded object
					line += " in=" + Pick(r, []string{"g", "g", "t", "j", "2", "l", "n", "d", "s"})
				}
				lines = append(lines, line)
				continue
			}
			transport := Pick(r, []string{"pipe", "pipe", "http", "http", "pipex", "httpx", "httpxacc", "httpxpre"})
			kind := Pick(r, []string{"prod", "xch", "xch", "xch", "prodh"})
			wire := "i64"
			if kind == "xch" {
				wire = Pick(r, []string{"i64", "i32", "i32", "f64", "f64", "str", "two", "two"})
			}
			shm := 0
			if transport == "pipe" && r.Chance(30) {
				shm = 1
				if kind == "prod" && r.Chance(50) {
					shm = 2 // wide-schema producer on a segment that passes the pre-check but not the exact allocation
				}
			}
			nt := r.Range(1, 6)
			var turns []string
			for t := 0; t < nt; t++ {
				emits, end := 1, "ok"
				switch x := r.Intn(100); {
				case x < 60:
				case x < 66:
					emits = 0
				case x < 72:
					emits = 2
				case x < 78:
					end, emits = "err", r.Intn(2)
				case x < 84:
					end, emits = "panic", r.Intn(2)
				case x < 90 && kind != "xch":
					end, emits = "fin", r.Intn(2)
				case x < 95 && !(strings.HasPrefix(transport, "http") && kind != "xch"):
					// (over HTTP a producer runs ahead of the client inside one request, so where a
					// client-side cancel lands is not scriptable; exchanges are lockstep)
					end = "cancel"
				}
				ts := fmt.Sprintf("%d:%s", emits, end)
				if (wire == "f64" || wire == "two") && r.Chance(20) {
					ts += ":bad"
				}
				if strings.HasPrefix(transport, "pipe") && r.Chance(12) {
					ts += ":brk" // the client goes away while this turn runs: its output cannot be written
				}
				if kind == "xch" && strings.HasPrefix(transport, "http") && r.Chance(12) {
					ts += ":unenc" // after this turn the state cannot be sealed into the next cursor
				}
				if kind == "xch" && (transport == "pipex" || transport == "httpx") && r.Chance(45) {
					// this turn's input is an external-location pointer
					ts += ":x" + Pick(r, []string{"g", "g", "g", "t", "j", "2", "l", "n", "d", "s"})
				}
				turns = append(turns, ts)
			}
			lines = append(lines, fmt.Sprintf("stream %s %s %s %d %s", transport, kind, wire, shm, strings.Join(turns, ";")))
		}
		g.Case(lines...)
	}
}
