package main

// C43, end-to-end family: the real OTel hook installed on a server that really serves — pipe
// (`Server.Serve` over byte buffers) or HTTP (`HttpServer` + the repo's `HttpClient`). The call's
// outcome is what the CLIENT can see: the response carries an EXCEPTION batch, or it does not.
// Every dispatch the framework performs (one per pipe call; one per HTTP request: init and each
// continuation) must start one span, end it once with status Error iff the client-visible response
// carries an exception, parent it on the traceparent the caller sent, and count it once with the
// matching status. The model is fed that client-visible outcome as the dispatch's outcome.
//
//	e2e <pipe|http> <tracing> <metrics> <recexc> <tc|tcb|none> <always|never|parent> [<opts>]
//	  opts: - | comma list of  pv=<semver> (Server.SetProtocolVersion)  cv=<version> (what the client declares; absent = none)
//	        dbg (SetDebugErrors)  sticky (HttpServer.EnableSticky)  caps (request/response byte caps set)
//	call <un|px|ex> <plan> <traceparent x<hex>|->
//	  un plans: value | error | goerr | panic
//	  px plans: n=<batches>;at=<tick>;what=<error|goerr|panic|silent|finish>   (at=-1: never) | initerr | initpanic
//	  ex plans: turns=<k>;at=<turn>;what=<error|goerr|panic|silent>

import (
	"bytes"
	"context"
	"errors"
	"fmt"
	"io"
	"net/http"
	"net/http/httptest"
	"strconv"
	"strings"
	"time"

	"github.com/Query-farm/vgi-rpc-go/vgirpc"
	"github.com/apache/arrow-go/v18/arrow"
	"github.com/apache/arrow-go/v18/arrow/array"
	"github.com/apache/arrow-go/v18/arrow/ipc"
	"github.com/apache/arrow-go/v18/arrow/memory"
	"go.opentelemetry.io/otel/codes"
	sdktrace "go.opentelemetry.io/otel/sdk/trace"
)

func init() {
	vgirpc.RegisterStateType(&C43Prod{})
	vgirpc.RegisterStateType(&C43Exch{})
}

type c43Params struct {
	Plan string `vgirpc:"plan"`
}

// C43Prod is the producer state of the end-to-end family.
type C43Prod struct {
	N, At, I int
	What     string
}

// C43Exch is the exchange state of the end-to-end family.
type C43Exch struct {
	At, N int
	What  string
}

var c43Schema = arrow.NewSchema([]arrow.Field{{Name: "v", Type: arrow.PrimitiveTypes.Int64, Nullable: true}}, nil)

func c43Batch(vals ...int64) arrow.RecordBatch {
	b := array.NewInt64Builder(memory.DefaultAllocator)
	defer b.Release()
	b.AppendValues(vals, nil)
	arr := b.NewArray()
	defer arr.Release()
	return array.NewRecordBatch(c43Schema, []arrow.Array{arr}, int64(len(vals)))
}

func c43Misbehave(what string, i int) (handled bool, err error) {
	switch what {
	case "error":
		return true, &vgirpc.RpcError{Type: "ValueError", Message: fmt.Sprintf("refused at %d", i)}
	case "goerr":
		return true, errors.New("plain failure")
	case "panic":
		panic("handler exploded")
	case "silent":
		return true, nil // neither a batch nor Finish: a contract violation the framework reports to the client
	}
	return false, nil
}

func (s *C43Prod) Produce(_ context.Context, out *vgirpc.OutputCollector, _ *vgirpc.CallContext) error {
	if s.I == s.At {
		if s.What == "finish" {
			return out.Finish()
		}
		if handled, err := c43Misbehave(s.What, s.I); handled {
			return err
		}
	}
	if s.I >= s.N {
		return out.Finish()
	}
	s.I++
	return out.Emit(c43Batch(int64(s.I)))
}

func (s *C43Exch) Exchange(_ context.Context, input arrow.RecordBatch, out *vgirpc.OutputCollector, _ *vgirpc.CallContext) error {
	if s.N == s.At {
		if handled, err := c43Misbehave(s.What, s.N); handled {
			return err
		}
	}
	s.N++
	return out.Emit(c43Batch(int64(s.N) + input.NumRows()))
}

func c43PlanMap(p string) (map[string]int, string) {
	m, what := map[string]int{"at": -1}, ""
	for _, kv := range strings.Split(p, ";") {
		if i := strings.IndexByte(kv, '='); i > 0 {
			if kv[:i] == "what" {
				what = kv[i+1:]
				continue
			}
			n, _ := strconv.Atoi(kv[i+1:])
			m[kv[:i]] = n
		}
	}
	return m, what
}

func c43RegisterE2E(srv *vgirpc.Server) {
	vgirpc.Unary(srv, "un", func(_ context.Context, _ *vgirpc.CallContext, p c43Params) (int64, error) {
		if handled, err := c43Misbehave(p.Plan, 0); handled && err != nil {
			return 0, err
		}
		return 42, nil
	})
	vgirpc.Producer(srv, "px", c43Schema, func(_ context.Context, _ *vgirpc.CallContext, p c43Params) (*vgirpc.StreamResult, error) {
		switch p.Plan {
		case "initerr":
			return nil, &vgirpc.RpcError{Type: "ValueError", Message: "init refused"}
		case "initpanic":
			panic("init exploded")
		}
		m, what := c43PlanMap(p.Plan)
		return &vgirpc.StreamResult{OutputSchema: c43Schema, State: &C43Prod{N: m["n"], At: m["at"], What: what}}, nil
	})
	vgirpc.Exchange(srv, "ex", c43Schema, c43Schema, func(_ context.Context, _ *vgirpc.CallContext, p c43Params) (*vgirpc.StreamResult, error) {
		m, what := c43PlanMap(p.Plan)
		return &vgirpc.StreamResult{OutputSchema: c43Schema, InputSchema: c43Schema, State: &C43Exch{At: m["at"], What: what}}, nil
	})
}

// ---------------------------------------------------------------- environment

// c43Tee sits between the framework and the OTel hook and counts the calls the framework makes,
// so a request that is refused before dispatch (no hook call at all) is told apart from a dispatch.
type c43Tee struct {
	inner        vgirpc.DispatchHook
	starts, ends int
}

func (t *c43Tee) OnDispatchStart(ctx context.Context, info vgirpc.DispatchInfo) (context.Context, vgirpc.HookToken) {
	t.starts++
	return t.inner.OnDispatchStart(ctx, info)
}

func (t *c43Tee) OnDispatchEnd(ctx context.Context, tok vgirpc.HookToken, info vgirpc.DispatchInfo, stats *vgirpc.CallStatistics, err error) {
	t.ends++
	t.inner.OnDispatchEnd(ctx, tok, info, stats, err)
}

type c43E2E struct {
	tee       *c43Tee
	clientVer string
	params *arrow.Schema
	hs     *vgirpc.HttpServer
	client *vgirpc.HttpClient
	tp     string // traceparent sent with the current call ("" = none)
	line   string
	nDisp  int
}

func (e *c43Env) setupE2E(opts string) {
	x := &c43E2E{params: vgirpc.VerifC38ParamsSchema(e.srv, "un"), tee: &c43Tee{inner: e.hook}}
	e.e2e = x
	e.srv.SetDispatchHook(x.tee)
	opt := map[string]string{}
	if opts != "-" {
		for _, o := range strings.Split(opts, ",") {
			if i := strings.IndexByte(o, '='); i > 0 {
				opt[o[:i]] = o[i+1:]
			} else {
				opt[o] = "1"
			}
			e.c.Stat("e2e-opt-" + strings.SplitN(o, "=", 2)[0])
		}
	}
	if v := opt["pv"]; v != "" {
		e.srv.SetProtocolVersion(v)
	}
	if opt["dbg"] != "" {
		e.srv.SetDebugErrors(true)
	}
	x.clientVer = opt["cv"]
	if e.transport == "http" {
		x.hs = vgirpc.NewHttpServer(e.srv)
		x.hs.SetProducerBatchLimit(1)
		x.hs.SetCompressionLevel(0)
		if opt["sticky"] != "" {
			x.hs.EnableSticky(time.Minute)
		}
		if opt["caps"] != "" {
			x.hs.SetMaxRequestBytes(1 << 20)
			x.hs.SetMaxResponseBytes(1 << 20)
		}
		copts := []vgirpc.HttpClientOption{vgirpc.WithClientHTTPClient(&http.Client{Transport: e})}
		if x.clientVer != "" {
			copts = append(copts, vgirpc.WithClientProtocolVersion(x.clientVer))
		}
		cl, err := vgirpc.NewHttpClient("http://c43.test", copts...)
		if err != nil {
			panic(err)
		}
		x.client = cl
	}
}

func (x *c43E2E) paramsBatch(plan string) arrow.RecordBatch {
	b := array.NewStringBuilder(memory.DefaultAllocator)
	defer b.Release()
	b.Append(plan)
	arr := b.NewArray()
	defer arr.Release()
	return array.NewRecordBatch(x.params, []arrow.Array{arr}, 1)
}

// c43HasException walks the concatenated IPC streams of a response body and reports whether
// any batch is an EXCEPTION batch (what a client raises as the call's error).
func c43HasException(data []byte) (exc bool, streams int, ok bool) {
	defer func() {
		if recover() != nil {
			ok = false
		}
	}()
	r := bytes.NewReader(data)
	ok = true
	for r.Len() > 0 {
		rd, err := ipc.NewReader(r)
		if err != nil {
			return exc, streams, false
		}
		streams++
		for rd.Next() {
			if wm, isWM := rd.RecordBatch().(arrow.RecordBatchWithMetadata); isWM {
				md := wm.Metadata()
				if v, found := md.GetValue(vgirpc.MetaLogLevel); found && v == string(vgirpc.LogException) {
					exc = true
				}
			}
		}
		if rd.Err() != nil && rd.Err() != io.EOF {
			rd.Release()
			return exc, streams, false
		}
		rd.Release()
	}
	return exc, streams, true
}

func c43FrameStream(schema *arrow.Schema, batches []arrow.RecordBatch) []byte {
	var buf bytes.Buffer
	w := ipc.NewWriter(&buf, ipc.WithSchema(schema))
	for _, b := range batches {
		if err := w.Write(b); err != nil {
			panic(err)
		}
	}
	if err := w.Close(); err != nil {
		panic(err)
	}
	return buf.Bytes()
}

// observe: one dispatch has been served; compare what the hook did with the client-visible outcome.
func (e *c43Env) observe(spansBefore, startsBefore, endsBefore int, clientFailed bool, where string) {
	c := e.c
	x := e.e2e
	starts, ends := x.tee.starts-startsBefore, x.tee.ends-endsBefore
	if starts == 0 && ends == 0 {
		// refused before dispatch (e.g. the pipe transport's protocol-version gate): the hook was never
		// involved, so nothing may have been started or counted — and the client must have been told.
		c.Stat("e2e-no-dispatch")
		if !clientFailed {
			c.Oracle("e2e-call-without-dispatch", fmt.Sprintf("%s: the client got a successful response but no dispatch hook ran", where))
		}
		if len(e.spans) != spansBefore {
			c.Oracle("e2e-dispatch-span-count", fmt.Sprintf("%s: spans were started without a dispatch", where))
		}
		if okN, errN, _ := e.collect(); okN != e.cntOK || errN != e.cntErr {
			c.Oracle("e2e-count-mismatch", fmt.Sprintf("%s: the request counter moved without a dispatch", where))
			e.cntOK, e.cntErr = okN, errN
		}
		return
	}
	if starts != 1 || ends != 1 {
		c.Oracle("e2e-hook-calls", fmt.Sprintf("%s: one request made %d OnDispatchStart and %d OnDispatchEnd calls", where, starts, ends))
	}
	k := x.nDisp
	x.nDisp++
	created := len(e.spans) - spansBefore
	idx := -1
	if created >= 1 {
		idx = spansBefore
	}
	if e.tracing && created != 1 {
		c.Oracle("e2e-dispatch-span-count", fmt.Sprintf("%s: the dispatch started %d spans", where, created))
	}
	if !e.tracing && created != 0 {
		c.Oracle("e2e-dispatch-span-count", fmt.Sprintf("%s: tracing is off but %d spans were started", where, created))
	}
	e.toks = append(e.toks, nil)
	e.spanOf = append(e.spanOf, idx)
	e.finished[len(e.spanOf)-1] = true
	metaTok := "empty"
	if x.tp != "" {
		metaTok = XS("traceparent") + ":" + XS(x.tp)
	}
	rec, tokS, parS := false, "-", "-"
	if idx >= 0 {
		sp := e.spans[idx]
		rec, tokS = sp.recAtStart, strconv.Itoa(idx)
		if sp.parent.IsValid() {
			tid, sid := sp.parent.TraceID(), sp.parent.SpanID()
			parS = fmt.Sprintf("%x-%x-%d", tid[:], sid[:], int(sp.parent.TraceFlags()&3))
		}
		if e.prop {
			if m := c43TPRe.FindStringSubmatch(x.tp); m != nil && strings.Trim(m[1], "0") != "" && strings.Trim(m[2], "0") != "" {
				if want := fmt.Sprintf("%s-%s-%s", m[1], m[2], m[3]); parS != want {
					c.Oracle("e2e-not-parented", fmt.Sprintf("%s: caller sent traceparent %q, span parent is %s", where, x.tp, parS))
				}
				c.Stat("e2e-parented")
			} else if x.tp == "" && parS != "-" {
				c.Oracle("parent-invented", fmt.Sprintf("%s: no traceparent sent, span parent is %s", where, parS))
			}
		}
	}
	c.Out(fmt.Sprintf("start %s %s", c43B(rec), metaTok), fmt.Sprintf("tok=%s parent=%s", tokS, parS))
	spanS := "-"
	if idx >= 0 {
		sp := e.spans[idx]
		spanS = sp.render()
		if sp.recAtStart {
			if sp.endCalls != 1 {
				c.Oracle("e2e-span-not-ended-once", fmt.Sprintf("%s: recording span ended %d times", where, sp.endCalls))
			}
			if sp.late != 0 {
				c.Oracle("span-op-after-end", fmt.Sprintf("%s: %d span calls after End()", where, sp.late))
			}
			if ro, ok := sp.Span.(sdktrace.ReadOnlySpan); ok {
				if (ro.Status().Code == codes.Error) != clientFailed {
					c.Oracle("e2e-status-mismatch", fmt.Sprintf("%s: the client-visible response carries an exception=%v but the span status is %v", where, clientFailed, ro.Status().Code))
				}
			}
		}
	}
	okN, errN, _ := e.collect()
	wantOK, wantErr := e.cntOK, e.cntErr
	if e.metrics {
		if clientFailed {
			wantErr++
		} else {
			wantOK++
		}
	}
	if okN != wantOK || errN != wantErr {
		c.Oracle("e2e-count-mismatch", fmt.Sprintf("%s: client-visible exception=%v (metrics=%v) but the request counter went ok %d->%d, error %d->%d", where, clientFailed, e.metrics, e.cntOK, okN, e.cntErr, errN))
	}
	e.cntOK, e.cntErr = okN, errN
	if clientFailed {
		c.Stat("e2e-dispatch-failed")
	} else {
		c.Stat("e2e-dispatch-ok")
	}
	c.Out(fmt.Sprintf("end %d 1 %s", k, c43B(clientFailed)), fmt.Sprintf("span=%s cnt=%d/%d", spanS, okN, errN))
}

// RoundTrip serves one HTTP request in process (HTTP transport of the end-to-end family).
func (e *c43Env) RoundTrip(req *http.Request) (*http.Response, error) {
	x := e.e2e
	var body []byte
	if req.Body != nil {
		body, _ = io.ReadAll(req.Body)
		req.Body.Close()
	}
	sreq := req.Clone(req.Context())
	sreq.Body = io.NopCloser(bytes.NewReader(body))
	sreq.ContentLength = int64(len(body))
	sreq.RequestURI = req.URL.RequestURI()
	sreq.RemoteAddr = "192.0.2.9:999"
	if x.tp != "" {
		sreq.Header.Set("traceparent", x.tp)
		// about half of the traced HTTP calls also carry a tracestate header: it never changes the parent
		if len(x.tp) > 10 && x.tp[10]%2 == 0 {
			sreq.Header.Set("tracestate", "vendor=c43,other=1")
		}
	}
	before, sb, eb := len(e.spans), x.tee.starts, x.tee.ends
	rec := httptest.NewRecorder()
	aborted := false
	func() {
		defer func() {
			if rv := recover(); rv != nil {
				aborted = true
			}
		}()
		x.hs.ServeHTTP(rec, sreq)
	}()
	exc, _, parsed := c43HasException(rec.Body.Bytes())
	failed := exc || aborted || !parsed || rec.Code >= 400
	e.observe(before, sb, eb, failed, x.line+" "+req.URL.Path)
	if aborted {
		return nil, errors.New("connection aborted by a handler panic")
	}
	return &http.Response{
		Status: fmt.Sprintf("%d %s", rec.Code, http.StatusText(rec.Code)), StatusCode: rec.Code,
		Proto: "HTTP/1.1", ProtoMajor: 1, ProtoMinor: 1, Header: rec.Header().Clone(),
		Body: io.NopCloser(bytes.NewReader(rec.Body.Bytes())), ContentLength: int64(rec.Body.Len()), Request: req,
	}, nil
}

func (e *c43Env) call(l string, f []string) {
	c := e.c
	x := e.e2e
	x.line = l
	x.tp = ""
	if f[3] != "-" {
		b, ok := UnX(f[3])
		if !ok {
			c.Out(l, "bad-op")
			return
		}
		x.tp = string(b)
	}
	kind, plan := f[1], f[2]
	if kind != "un" && kind != "px" && kind != "ex" {
		c.Out(l, "bad-op")
		return
	}
	c.Stat("e2e-call-" + kind)
	if e.transport == "pipe" {
		e.callPipe(l, kind, plan)
		return
	}
	ctx := context.Background()
	p := x.paramsBatch(plan)
	defer p.Release()
	switch kind {
	case "un":
		if b, err := x.client.CallUnary(ctx, "un", p, nil); err == nil {
			b.Release()
		}
	case "px":
		st, err := x.client.OpenProducer(ctx, "px", p, vgirpc.ClientStreamSchema{Output: c43Schema})
		if err == nil {
			for i := 0; i < 12; i++ {
				b, ok, err := st.Next(ctx)
				if err != nil || !ok {
					break
				}
				b.Release()
			}
			st.Close()
		}
	case "ex":
		m, _ := c43PlanMap(plan)
		st, err := x.client.OpenExchange(ctx, "ex", p, vgirpc.ClientStreamSchema{Input: c43Schema, Output: c43Schema})
		if err == nil {
			for i := 0; i < m["turns"]; i++ {
				in := c43Batch(int64(i))
				b, err := st.Exchange(ctx, in)
				in.Release()
				if err != nil {
					break
				}
				b.Release()
			}
			st.Close()
		}
	}
}

// callPipe frames the request (and, for streams, the whole lockstep input) up front and lets the
// real serve loop run over it.
func (e *c43Env) callPipe(l, kind, plan string) {
	x := e.e2e
	p := x.paramsBatch(plan)
	keys := []string{vgirpc.MetaMethod, vgirpc.MetaRequestVersion}
	vals := []string{kind, vgirpc.ProtocolVersion}
	if x.tp != "" {
		keys = append(keys, "traceparent")
		vals = append(vals, x.tp)
	}
	if x.clientVer != "" {
		keys = append(keys, vgirpc.MetaProtocolVersion)
		vals = append(vals, x.clientVer)
	}
	reqBatch := array.NewRecordBatchWithMetadata(p.Schema(), p.Columns(), p.NumRows(), arrow.NewMetadata(keys, vals))
	in := c43FrameStream(p.Schema(), []arrow.RecordBatch{reqBatch})
	reqBatch.Release()
	p.Release()
	m, _ := c43PlanMap(plan)
	switch kind {
	case "px":
		empty := arrow.NewSchema(nil, nil)
		var ticks []arrow.RecordBatch
		for i := 0; i < m["n"]+3; i++ {
			ticks = append(ticks, array.NewRecordBatch(empty, nil, 0))
		}
		in = append(in, c43FrameStream(empty, ticks)...)
	case "ex":
		var data []arrow.RecordBatch
		for i := 0; i < m["turns"]; i++ {
			data = append(data, c43Batch(int64(i)))
		}
		in = append(in, c43FrameStream(c43Schema, data)...)
		for _, b := range data {
			b.Release()
		}
	}
	before, sb, eb := len(e.spans), x.tee.starts, x.tee.ends
	var out bytes.Buffer
	e.srv.Serve(bytes.NewReader(in), &out)
	exc, streams, parsed := c43HasException(out.Bytes())
	if !parsed || streams == 0 {
		e.c.Oracle("e2e-response-unreadable", fmt.Sprintf("%s: the pipe response is not a sequence of Arrow IPC streams (%d bytes)", l, out.Len()))
	}
	e.observe(before, sb, eb, exc || !parsed, l)
}

// ---------------------------------------------------------------- generator

func c43GenE2E(g *Gen) {
	r := g.Rng
	for i, n := 0, g.N(400, 4000); i < n; i++ {
		b := func(p int) int {
			if r.Chance(p) {
				return 1
			}
			return 0
		}
		transport := Pick(r, []string{"pipe", "pipe", "http"})
		// server options: none of them may change what the hook reports about a call
		var opts []string
		if r.Chance(55) {
			pv := Pick(r, []string{"1.2.0", "1.2.3", "2.0.0", "0.1.0"})
			opts = append(opts, "pv="+pv)
			switch x := r.Intn(100); {
			case x < 50:
				opts = append(opts, "cv="+pv) // matching
			case x < 60:
				opts = append(opts, "cv="+Pick(r, []string{"1.2.9", "1.2.1"})) // patch differs: still matching for 1.2.x
			case x < 85:
				opts = append(opts, "cv="+Pick(r, []string{"1.3.0", "3.0.0", "0.0.1", "1.1.9"})) // mismatching
			} // else: client declares nothing
		} else if r.Chance(25) {
			opts = append(opts, "cv="+Pick(r, []string{"1.2.0", "9.9.9"})) // un-versioned server, versioned client
		}
		if r.Chance(30) {
			opts = append(opts, "dbg")
		}
		if transport == "http" && r.Chance(30) {
			opts = append(opts, "sticky")
		}
		if transport == "http" && r.Chance(30) {
			opts = append(opts, "caps")
		}
		optTok := "-"
		if len(opts) > 0 {
			optTok = strings.Join(opts, ",")
		}
		lines := []string{fmt.Sprintf("e2e %s %d %d %d %s %s %s", transport, b(90), b(90), b(70), Pick(r, []string{"tc", "tc", "tcb", "none"}),
			Pick(r, []string{"always", "always", "always", "parent", "never"}), optTok)}
		for k, m := 0, r.Range(1, 5); k < m; k++ {
			tp := "-"
			if r.Chance(55) {
				tp = XS(c43Traceparent(r))
			}
			var kind, plan string
			switch r.Intn(3) {
			case 0:
				kind, plan = "un", Pick(r, []string{"value", "value", "error", "goerr", "panic"})
			case 1:
				kind = "px"
				if r.Chance(12) {
					plan = Pick(r, []string{"initerr", "initpanic"})
				} else {
					n := r.Range(0, 4)
					at := -1
					if r.Chance(65) {
						at = r.Range(0, n)
					}
					plan = fmt.Sprintf("n=%d;at=%d;what=%s", n, at, Pick(r, []string{"error", "goerr", "panic", "silent", "silent", "finish"}))
				}
			default:
				kind = "ex"
				t := r.Range(0, 4)
				at := -1
				if r.Chance(65) {
					at = r.Range(0, 3)
				}
				plan = fmt.Sprintf("turns=%d;at=%d;what=%s", t, at, Pick(r, []string{"error", "goerr", "panic", "silent", "silent"}))
			}
			lines = append(lines, fmt.Sprintf("call %s %s %s", kind, plan, tp))
		}
		g.Case(lines...)
	}
}
