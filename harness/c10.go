package main

import (
	"bytes"
	"context"
	"fmt"
	"io"
	"math/big"
	"net/http"
	"net/http/httptest"
	"strings"

	"github.com/apache/arrow-go/v18/arrow"
	"github.com/apache/arrow-go/v18/arrow/array"
	"github.com/apache/arrow-go/v18/arrow/ipc"
	"github.com/apache/arrow-go/v18/arrow/memory"

	"github.com/Query-farm/vgi-rpc-go/vgirpc"
)

// C10 — the protocol-version gate admits exactly same-major.minor clients.
//
// Script ops (stateless; byte strings as x<hex>, "-" = not given):
//   parse <v>                         parseSemver                      -> "ok M m p" | "err"
//   set <v>                           Server.SetProtocolVersion        -> "unset" | "set M m p <text>" | "panic"
//   hist <v1,v2,…>                    a HISTORY of SetProtocolVersion calls on one server -> per-call result + final state
//   check <hist|-> <client|->         the guard + checkProtocolVersion after that history -> "allow" | "refuse:<direction>"
//   call <pipe|http> <hist|-> <describe|unary|producer|exchange> <client|-> [flaw]
//        flaw = one OTHER defect of the same request (params-extra/renamed/retyped, rows0, rows2, unknown-method,
//        no-method-key, bad-request-version, route-mismatch, wrong-route-kind, content-type): "other-error" when it wins
//   conn <hist|-> <kind>/<client|->/<flaw> …   2-6 calls on ONE pipe connection (Server.Serve once); each call is handed
//        to the model as its own `call pipe …` line and judged by the gate on its own
//        a real request through Server.Serve (pipe) or HttpServer.ServeHTTP (unary route /{m},
//        stream-init route /{m}/init): "dispatched" (the handler ran / describe answered) or
//        "refused kind=<vgi_rpc.error_kind> dir=<direction class of the message>"

func init() {
	Register(&Prop{
		ID: "C10",
		Rule: "server versions x client strings (canonical, leading zeros, prerelease/build suffixes, whitespace, trailing newline, " +
			"non-ASCII digits, 20+-digit components, empty, absent) through parseSemver, SetProtocolVersion, the guard, and real requests on " +
			"pipe (unary/producer/exchange/describe) and HTTP (unary, stream init, describe). Non-trivial = a case holding a check/call " +
			"line with a declared server version and a present client string; distinct = distinct scripts",
		Gen:  c10Gen,
		Exec: c10Exec,
		NonTrivial: func(lines []string) bool {
			for _, l := range lines {
				f := strings.Fields(l)
				if len(f) == 3 && f[0] == "check" && f[1] != "-" && f[1] != "x" && f[2] != "-" {
					return true
				}
				if len(f) >= 5 && f[0] == "call" && f[2] != "-" && f[2] != "x" && f[4] != "-" {
					return true
				}
				if len(f) >= 3 && f[0] == "conn" && f[1] != "-" && f[1] != "x" {
					return true
				}
			}
			return false
		},
	})
}

// ---------------------------------------------------------------- generation

func c10Num(r *Rng) string {
	switch r.Intn(14) {
	case 0:
		return "0"
	case 1:
		return "1"
	case 2:
		return fmt.Sprint(r.Intn(10))
	case 3:
		return fmt.Sprint(r.Intn(1000))
	case 4:
		return "9223372036854775807" // MaxInt64
	case 5:
		return "9223372036854775808"
	case 6:
		return "9223372036854775806"
	case 7:
		return "18446744073709551615"
	case 8:
		return "18446744073709551616"
	case 9: // 20+ digits
		n := r.Range(20, 40)
		b := make([]byte, n)
		b[0] = byte('1' + r.Intn(9))
		for i := 1; i < n; i++ {
			b[i] = byte('0' + r.Intn(10))
		}
		return string(b)
	case 10:
		return "4294967296"
	case 11:
		return "2147483647"
	}
	return fmt.Sprint(r.Intn(30))
}

func c10Canonical(r *Rng) string { return c10Num(r) + "." + c10Num(r) + "." + c10Num(r) }

// a client string near a given server version
func c10Near(r *Rng, server string) string {
	p := strings.Split(server, ".")
	if len(p) != 3 {
		return c10Canonical(r)
	}
	bump := func(s string, d int64) string {
		n, ok := new(big.Int).SetString(s, 10)
		if !ok {
			return s
		}
		n.Add(n, big.NewInt(d))
		if n.Sign() < 0 {
			return "0"
		}
		return n.String()
	}
	switch r.Intn(8) {
	case 0:
		return server
	case 1:
		return p[0] + "." + p[1] + "." + c10Num(r) // same major.minor, other patch
	case 2:
		return p[0] + "." + bump(p[1], 1) + "." + p[2]
	case 3:
		return p[0] + "." + bump(p[1], -1) + "." + p[2]
	case 4:
		return bump(p[0], 1) + "." + p[1] + "." + p[2]
	case 5:
		return bump(p[0], -1) + "." + p[1] + "." + p[2]
	case 6:
		return bump(p[0], 1) + "." + bump(p[1], -1) + "." + p[2] // major above, minor below
	default:
		return bump(p[0], -1) + "." + bump(p[1], 1) + "." + p[2] // major below, minor above
	}
}

func c10Malform(r *Rng, v string) string {
	switch r.Intn(22) {
	case 0:
		return "0" + v // leading zero on major
	case 1:
		p := strings.Split(v, ".")
		i := r.Intn(len(p))
		p[i] = "0" + p[i]
		return strings.Join(p, ".")
	case 2:
		return v + "-rc1"
	case 3:
		return v + "+build.5"
	case 4:
		return " " + v
	case 5:
		return v + " "
	case 6:
		return v + "\n"
	case 7:
		return "\n" + v
	case 8:
		return v + "."
	case 9:
		return "." + v
	case 10:
		return v + ".0"
	case 11:
		if i := strings.LastIndex(v, "."); i >= 0 {
			return v[:i]
		}
		return v
	case 12:
		return "v" + v
	case 13:
		return strings.Replace(v, ".", "..", 1)
	case 14:
		return strings.Replace(v, ".", ",", 1)
	case 15:
		return "-" + v
	case 16:
		return "+" + v
	case 17: // non-ASCII digits
		return strings.Map(func(c rune) rune {
			if c >= '0' && c <= '9' && r.Chance(50) {
				return 0x0660 + (c - '0') // Arabic-Indic
			}
			return c
		}, v) + ""
	case 18:
		return strings.Replace(v, ".", "．", 1) // fullwidth full stop
	case 19:
		return v + "\x00"
	case 20:
		return strings.Replace(v, ".", " .", 1)
	default:
		k := r.Intn(len(v) + 1)
		return v[:k] + string([]byte{byte(r.Intn(256))}) + v[k:]
	}
}

func c10Client(r *Rng, server string) string {
	switch x := r.Intn(100); {
	case x < 8:
		return "-" // absent
	case x < 45:
		return XS(c10Near(r, server))
	case x < 60:
		return XS(c10Canonical(r))
	case x < 90:
		base := c10Near(r, server)
		if r.Chance(30) {
			base = c10Canonical(r)
		}
		return XS(c10Malform(r, base))
	case x < 93:
		return XS("")
	case x < 96:
		return XS(Pick(r, []string{"1", "1.0", "1.0.0.0", "a.b.c", "...", "..", "1..0", "latest", "1.0.x", "१.०.०", "1.0.0\r\n", "0x1.0.0", "1e3.0.0", "1_0.0.0"}))
	default:
		return XS(string(r.Bytes(r.Intn(8))))
	}
}

func c10Server1(r *Rng) string {
	switch x := r.Intn(100); {
	case x < 6:
		return XS("") // SetProtocolVersion("") opts out
	case x < 16:
		return XS(Pick(r, []string{"1.0.0", "0.0.0", "0.1.0", "2.5.7", "10.20.30", "1.2.0"}))
	default:
		return XS(c10Canonical(r))
	}
}

// c10Server returns a configuration history: "-" (no call) or a comma list of SetProtocolVersion arguments
// (declare, re-declare, clear with "", invalid values that panic, repeats).
func c10Server(r *Rng) string {
	switch x := r.Intn(100); {
	case x < 10:
		return "-"
	case x < 60:
		return c10Server1(r)
	}
	n := r.Range(2, 4)
	var calls []string
	for i := 0; i < n; i++ {
		switch y := r.Intn(100); {
		case y < 30:
			calls = append(calls, XS(""))
		case y < 50:
			calls = append(calls, XS(c10Malform(r, c10Canonical(r))))
		case y < 60 && len(calls) > 0:
			calls = append(calls, calls[r.Intn(len(calls))])
		default:
			calls = append(calls, c10Server1(r))
		}
	}
	return strings.Join(calls, ",")
}

// c10Effective is the reference reading of a history: the last call that is "" or canonical decides.
func c10Effective(hist string) (declared bool, version string) {
	if hist == "-" {
		return false, ""
	}
	for _, h := range strings.Split(hist, ",") {
		v := UnXS(h)
		if v == "" {
			declared, version = false, ""
		} else if _, _, ok := c10Ref(v); ok {
			declared, version = true, v
		}
	}
	return declared, version
}

var c10Flaws = []string{"params-extra", "params-renamed", "params-retyped", "rows0", "rows2", "unknown-method", "no-method-key",
	"bad-request-version", "route-mismatch", "wrong-route-kind", "content-type"}

func c10FlawLate(f string) bool { return strings.HasPrefix(f, "params-") }

// c10Near2: a version with the server's major.minor and any patch (admitted when the server declares st).
func c10Near2(r *Rng, st string) string {
	p := strings.Split(st, ".")
	if len(p) != 3 {
		return st
	}
	return p[0] + "." + p[1] + "." + c10Num(r)
}

func c10ClientText(arg string) string {
	if arg == "-" {
		return ""
	}
	return UnXS(arg)
}

func c10Gen(g *Gen) {
	// a well-mixed sub-stream: the framework's seeds are shifted copies of one splitmix stream
	r := NewRng(g.Rng.U64())
	n := g.N(4000, 150000)
	for i := 0; i < n; i++ {
		var lines []string
		sv := c10Server(r)
		_, st := c10Effective(sv)
		// the decision functions, many clients against this server
		for k := r.Range(3, 8); k > 0; k-- {
			lines = append(lines, "check "+sv+" "+c10Client(r, st))
		}
		if sv != "-" && r.Chance(40) {
			lines = append(lines, "hist "+sv)
		}
		if r.Chance(25) { // invalid server configuration
			lines = append(lines, "set "+XS(c10Malform(r, c10Canonical(r))))
		}
		if r.Chance(25) {
			lines = append(lines, "set "+c10Server1(r))
		}
		for k := r.Range(1, 3); k > 0; k-- {
			v := c10Near(r, st)
			if r.Chance(50) {
				v = c10Malform(r, v)
			}
			lines = append(lines, "parse "+XS(v))
		}
		// real requests, the version dimension crossed with every other refusal a request can earn
		for k := r.Range(1, 3); k > 0; k-- {
			route := Pick(r, []string{"pipe", "http"})
			kind := Pick(r, []string{"unary", "unary", "producer", "exchange", "describe"})
			flaw := "none"
			if kind != "describe" && r.Chance(55) {
				flaw = Pick(r, c10Flaws)
				if r.Chance(50) {
					flaw = Pick(r, []string{"params-extra", "params-renamed", "params-retyped"})
				}
				if route == "pipe" && (flaw == "route-mismatch" || flaw == "wrong-route-kind" || flaw == "content-type") {
					flaw = "unknown-method"
				}
			}
			lines = append(lines, fmt.Sprintf("call %s %s %s %s %s", route, sv, kind, c10Client(r, st), flaw))
		}
		// several calls on ONE pipe connection, client versions drawn independently
		if r.Chance(45) {
			k := r.Range(2, 6)
			good := func() string {
				if st == "" {
					return c10Client(r, st)
				}
				return XS(c10Near2(r, st))
			}
			badv := func() string {
				for {
					v := c10Client(r, st)
					if declared, ver := c10Effective(sv); !declared || c10Expect(ver, c10ClientText(v), v != "-") != "admit" {
						return v
					}
				}
			}
			pattern := r.Intn(4)
			toks := make([]string, k)
			for j := 0; j < k; j++ {
				var cv string
				switch pattern {
				case 0: // compatible first, then bad ones
					if j == 0 {
						cv = good()
					} else {
						cv = badv()
					}
				case 1: // bad first, then compatible
					if j == 0 {
						cv = badv()
					} else {
						cv = good()
					}
				case 2: // alternating
					if j%2 == 0 {
						cv = good()
					} else {
						cv = badv()
					}
				default:
					cv = c10Client(r, st)
				}
				kind := Pick(r, []string{"unary", "unary", "producer", "exchange", "describe"})
				flaw := "none"
				if kind == "unary" && r.Chance(15) {
					flaw = Pick(r, []string{"params-extra", "params-renamed", "params-retyped"})
				}
				toks[j] = kind + "/" + cv + "/" + flaw
			}
			lines = append(lines, "conn "+sv+" "+strings.Join(toks, " "))
		}
		g.Case(lines...)
	}
	if g.Thorough() {
		// exhaustive: every string of length <= 5 over {0 1 9 . - + space} against two servers
		alpha := []byte("019.-+ ")
		var rec func(prefix []byte, depth int)
		var batch []string
		flush := func() {
			if len(batch) > 0 {
				g.Case(batch...)
				batch = nil
			}
		}
		rec = func(prefix []byte, depth int) {
			batch = append(batch, "check "+XS("1.0.0")+" "+X(prefix), "check "+XS("0.9.1")+" "+X(prefix))
			if len(batch) >= 200 {
				flush()
			}
			if depth == 0 {
				return
			}
			for _, a := range alpha {
				rec(append(append([]byte{}, prefix...), a), depth-1)
			}
		}
		rec(nil, 5)
		flush()
	}
}

// ---------------------------------------------------------------- reference (independent of the code under test)

// c10Ref parses a canonical MAJOR.MINOR.PATCH by hand.
func c10Ref(v string) (maj, min *big.Int, ok bool) {
	parts := strings.Split(v, ".")
	if len(parts) != 3 {
		return nil, nil, false
	}
	var nums [3]*big.Int
	for i, p := range parts {
		if p == "" || (len(p) > 1 && p[0] == '0') {
			return nil, nil, false
		}
		for j := 0; j < len(p); j++ {
			if p[j] < '0' || p[j] > '9' {
				return nil, nil, false
			}
		}
		nums[i], _ = new(big.Int).SetString(p, 10)
	}
	return nums[0], nums[1], true
}

// expected verdict for a declared server version
func c10Expect(server string, client string, present bool) string {
	sM, sm, ok := c10Ref(server)
	if !ok {
		return "?"
	}
	if !present {
		return "absent"
	}
	cM, cm, ok := c10Ref(client)
	if !ok {
		return "malformed"
	}
	switch a, b := cM.Cmp(sM), cm.Cmp(sm); {
	case a == 0 && b == 0:
		return "admit"
	case a < 0 || (a == 0 && b < 0):
		return "client-too-old"
	default:
		return "server-too-old"
	}
}

// ---------------------------------------------------------------- world

type c10Params struct {
	X int64 `vgirpc:"x"`
}

var c10Schema = arrow.NewSchema([]arrow.Field{{Name: "x", Type: arrow.PrimitiveTypes.Int64}}, nil)

type c10Producer struct{}

func (*c10Producer) Produce(_ context.Context, out *vgirpc.OutputCollector, _ *vgirpc.CallContext) error {
	return out.Finish()
}

type c10Exchanger struct{}

func (*c10Exchanger) Exchange(_ context.Context, in arrow.RecordBatch, out *vgirpc.OutputCollector, _ *vgirpc.CallContext) error {
	return out.Emit(in)
}

func init() {
	vgirpc.RegisterStateType(&c10Producer{})
	vgirpc.RegisterStateType(&c10Exchanger{})
}

// c10NewServer builds a server with one method of every kind; *ran counts handler entries.
func c10NewServer(hist string, ran *int) (s *vgirpc.Server, steps []string) {
	s = vgirpc.NewServer()
	vgirpc.Unary(s, "u", func(_ context.Context, _ *vgirpc.CallContext, p c10Params) (int64, error) {
		*ran++
		return p.X + 1, nil
	})
	vgirpc.Producer(s, "p", c10Schema, func(_ context.Context, _ *vgirpc.CallContext, _ c10Params) (*vgirpc.StreamResult, error) {
		*ran++
		return &vgirpc.StreamResult{OutputSchema: c10Schema, State: &c10Producer{}}, nil
	})
	vgirpc.Exchange(s, "e", c10Schema, c10Schema, func(_ context.Context, _ *vgirpc.CallContext, _ c10Params) (*vgirpc.StreamResult, error) {
		*ran++
		return &vgirpc.StreamResult{OutputSchema: c10Schema, InputSchema: c10Schema, State: &c10Exchanger{}}, nil
	})
	if hist != "-" {
		for _, h := range strings.Split(hist, ",") {
			v := UnXS(h)
			steps = append(steps, c10SetOnce(s, v))
		}
	}
	return s, steps
}

// c10SetOnce performs one SetProtocolVersion call and renders what it did.
func c10SetOnce(s *vgirpc.Server, v string) (out string) {
	defer func() {
		if recover() != nil {
			out = "panic"
		}
	}()
	s.SetProtocolVersion(v)
	return c10State(s)
}

func c10State(s *vgirpc.Server) string {
	set, text, parts := s.VerifC10Declared()
	if !set {
		return "unset"
	}
	return fmt.Sprintf("set %s %s %s %s", parts[0], parts[1], parts[2], XS(text))
}

func c10IPC(schema *arrow.Schema, rows int, meta arrow.Metadata, withBatch bool) []byte {
	var buf bytes.Buffer
	w := ipc.NewWriter(&buf, ipc.WithSchema(schema))
	if withBatch {
		cols := make([]arrow.Array, schema.NumFields())
		for i := range cols {
			if schema.Field(i).Type.ID() == arrow.STRING {
				b := array.NewStringBuilder(memory.NewGoAllocator())
				for k := 0; k < rows; k++ {
					b.Append("seven")
				}
				cols[i] = b.NewArray()
				b.Release()
				continue
			}
			b := array.NewInt64Builder(memory.NewGoAllocator())
			for k := 0; k < rows; k++ {
				b.Append(int64(7 + k))
			}
			cols[i] = b.NewArray()
			b.Release()
		}
		rec := array.NewRecordBatchWithMetadata(schema, cols, int64(rows), meta)
		if err := w.Write(rec); err != nil {
			panic(err)
		}
		rec.Release()
		for _, c := range cols {
			c.Release()
		}
	}
	if err := w.Close(); err != nil {
		panic(err)
	}
	return buf.Bytes()
}

// c10Request frames a request; flaw adds one other defect (see c10Flaws).
func c10Request(method string, client string, present bool, flaw string) []byte {
	mm := method
	switch flaw {
	case "unknown-method":
		mm = "nope"
	case "route-mismatch":
		mm = "other"
	}
	rv := vgirpc.ProtocolVersion
	if flaw == "bad-request-version" {
		rv = "2"
	}
	var keys, vals []string
	if flaw != "no-method-key" {
		keys, vals = append(keys, vgirpc.MetaMethod), append(vals, mm)
	}
	keys, vals = append(keys, vgirpc.MetaRequestVersion), append(vals, rv)
	if present {
		keys = append(keys, vgirpc.MetaProtocolVersion)
		vals = append(vals, client)
	}
	schema := c10Schema
	if method == "__describe__" {
		schema = arrow.NewSchema(nil, nil)
	}
	rows := 1
	switch flaw {
	case "params-extra":
		schema = arrow.NewSchema([]arrow.Field{{Name: "x", Type: arrow.PrimitiveTypes.Int64}, {Name: "y", Type: arrow.PrimitiveTypes.Int64}}, nil)
	case "params-renamed":
		schema = arrow.NewSchema([]arrow.Field{{Name: "z", Type: arrow.PrimitiveTypes.Int64}}, nil)
	case "params-retyped":
		schema = arrow.NewSchema([]arrow.Field{{Name: "x", Type: arrow.BinaryTypes.String}}, nil)
	case "rows0":
		rows = 0
	case "rows2":
		rows = 2
	}
	return c10IPC(schema, rows, arrow.NewMetadata(keys, vals), true)
}

// c10Scan walks every IPC stream in a response and returns the first error batch's kind and message.
func c10Scan(data []byte) (kind, msg string, isErr bool, streams int) {
	rd := bytes.NewReader(data)
	for rd.Len() > 0 {
		r, err := ipc.NewReader(rd)
		if err != nil {
			return kind, msg, isErr, streams
		}
		streams++
		for r.Next() {
			if rb, ok := r.RecordBatch().(arrow.RecordBatchWithMetadata); ok && !isErr {
				md := rb.Metadata()
				if lv, ok := md.GetValue(vgirpc.MetaLogLevel); ok && lv == "EXCEPTION" {
					isErr = true
					kind, _ = md.GetValue(vgirpc.MetaErrorKind)
					msg, _ = md.GetValue(vgirpc.MetaLogMessage)
				}
			}
		}
		r.Release()
	}
	return kind, msg, isErr, streams
}

// direction class of a ProtocolVersionError message: the sentence after the last "Direction: ".
func c10Direction(msg string) string {
	i := strings.LastIndex(msg, "\n  Direction: ")
	if i < 0 {
		return "none"
	}
	s := msg[i+len("\n  Direction: "):]
	switch {
	case strings.HasPrefix(s, "the client did not send"):
		return "absent"
	case strings.HasPrefix(s, "client sent a malformed"):
		return "malformed"
	case strings.HasPrefix(s, "client is too old"):
		if !strings.Contains(s, "upgrade the VGI extension/client") {
			return "client-too-old-but-no-upgrade-hint"
		}
		return "client-too-old"
	case strings.HasPrefix(s, "server is too old"):
		if !strings.Contains(s, "upgrade the VGI worker") {
			return "server-too-old-but-no-upgrade-hint"
		}
		return "server-too-old"
	}
	return "other"
}

// c10ChunkReader hands the server one call's bytes at a time and reports when the server starts on the next call
// (everything written before that moment answers the previous calls).
type c10ChunkReader struct {
	chunks    [][]byte
	idx, off  int
	onAdvance func(i int)
}

func (r *c10ChunkReader) Read(p []byte) (int, error) {
	for r.idx < len(r.chunks) && r.off == len(r.chunks[r.idx]) {
		if r.idx+1 == len(r.chunks) {
			return 0, io.EOF
		}
		r.idx++
		r.off = 0
		r.onAdvance(r.idx)
	}
	if r.idx >= len(r.chunks) {
		return 0, io.EOF
	}
	n := copy(p, r.chunks[r.idx][r.off:])
	r.off += n
	return n, nil
}

// c10Judge classifies one call's response, runs the property oracle on it and returns the observation.
func c10Judge(c *Case, l, route, sv, kind, cv string, present bool, flaw string, resp []byte, status, ran int) string {
	site := route + "-" + kind
	errKind, msg, isErr, streams := c10Scan(resp)
	var obs string
	dispatched, other := false, false
	switch {
	case isErr && errKind == "protocol_version_mismatch":
		obs = "refused kind=" + errKind + " dir=" + c10Direction(msg)
		if ran != 0 {
			c.Oracle("handler-ran-despite-refusal", fmt.Sprintf("%s: handler entered %d time(s) although the call was refused", l, ran))
		}
		if route == "http" && status != http.StatusBadRequest {
			obs += fmt.Sprintf(" status=%d", status)
		}
	case isErr || status >= 400:
		obs, other = "other-error", true
		if strings.Contains(msg, "nil pointer") || strings.Contains(msg, "panicked") {
			c.Oracle("gate-panicked@"+site, fmt.Sprintf("%s: %s", l, msg))
		}
	case kind == "describe" && streams >= 1:
		obs, dispatched = "dispatched", true
	case ran == 1:
		obs, dispatched = "dispatched", true
	default:
		obs = fmt.Sprintf("other ran=%d streams=%d status=%d", ran, streams, status)
	}
	dir := ""
	if i := strings.Index(obs, " dir="); i >= 0 {
		dir = strings.Fields(obs[i+5:])[0]
	}
	c10Oracle(c, l, site, sv, kind == "describe", cv, present, flaw, dispatched, other, dir)
	c.Stat("call-" + site + "-" + strings.Fields(obs)[0])
	if flaw != "none" {
		c.Stat("flaw-" + flaw + "-" + strings.Fields(obs)[0])
	}
	return obs
}

func c10Exec(c *Case) {
	for _, l := range c.Lines {
		f := strings.Fields(l)
		if len(f) == 0 {
			continue
		}
		switch {
		case f[0] == "parse" && len(f) == 2:
			v := UnXS(f[1])
			a, b, p, err := vgirpc.VerifC10ParseSemver(v)
			_, _, ok := c10Ref(v)
			if ok != (err == nil) {
				c.Oracle("parse-not-canonical-grammar", fmt.Sprintf("parseSemver(%q): err=%v, canonical=%v", v, err, ok))
			}
			if err != nil {
				c.Stat("parse-err")
				c.Out(l, "err")
			} else {
				c.Stat("parse-ok")
				c.Out(l, fmt.Sprintf("ok %s %s %s", a, b, p))
			}
		case f[0] == "set" && len(f) == 2:
			s := vgirpc.NewServer()
			v := UnXS(f[1])
			_, _, canon := c10Ref(v)
			obs := c10SetOnce(s, v)
			switch {
			case obs == "panic":
				c.Stat("set-panic")
				if v == "" || canon {
					c.Oracle("set-panics-on-valid", fmt.Sprintf("SetProtocolVersion(%q) panicked", v))
				}
			case obs == "unset":
				c.Stat("set-unset")
				if v != "" {
					c.Oracle("set-accepts-invalid", fmt.Sprintf("SetProtocolVersion(%q) left the gate off", v))
				}
			default:
				c.Stat("set-ok")
				if !canon {
					c.Oracle("set-accepts-invalid", fmt.Sprintf("SetProtocolVersion(%q) accepted a non-canonical version", v))
				}
			}
			c.Out(l, obs)
		case f[0] == "hist" && len(f) == 2:
			ran := 0
			s, steps := c10NewServer(f[1], &ran)
			final := c10State(s)
			// the state must be what the last effective call declared
			declared, ver := c10Effective(f[1])
			if set, text, _ := s.VerifC10Declared(); set != declared || (declared && text != ver) {
				c.Oracle("history-state-not-last-declaration", fmt.Sprintf("%s: after the calls the server is %q, the last effective declaration is declared=%v %q", l, final, declared, ver))
			}
			for i := range steps {
				steps[i] = strings.ReplaceAll(steps[i], " ", ":")
			}
			c.Stat("hist")
			c.Out(l, strings.TrimSpace(strings.Join(steps, " ")+" final="+strings.ReplaceAll(final, " ", ":")))
		case f[0] == "check" && len(f) == 3:
			ran := 0
			s, _ := c10NewServer(f[1], &ran)
			present := f[2] != "-"
			cv := ""
			if present {
				cv = UnXS(f[2])
			}
			obs := "allow"
			func() {
				defer func() {
					if r := recover(); r != nil {
						obs = "panic"
						c.Oracle("gate-panicked@check", fmt.Sprintf("%s: %v", l, r))
					}
				}()
				if pverr := s.VerifC10Check(cv, present); pverr != nil {
					obs = "refuse:" + c10Direction(pverr.Message)
					if pverr.ErrorKind() != "protocol_version_mismatch" {
						c.Oracle("refusal-wrong-error-kind", fmt.Sprintf("%s: kind %q", l, pverr.ErrorKind()))
					}
				}
			}()
			if obs != "panic" {
				c10Oracle(c, l, "check", f[1], false, cv, present, "none", obs == "allow", false, strings.TrimPrefix(obs, "refuse:"))
			}
			c.Stat("check-" + obs)
			c.Out(l, obs)
		case f[0] == "call" && (len(f) == 5 || len(f) == 6):
			route, sv, kind := f[1], f[2], f[3]
			flaw := "none"
			if len(f) == 6 {
				flaw = f[5]
			}
			ran := 0
			s, _ := c10NewServer(sv, &ran)
			present := f[4] != "-"
			cv := ""
			if present {
				cv = UnXS(f[4])
			}
			method := map[string]string{"unary": "u", "producer": "p", "exchange": "e", "describe": "__describe__"}[kind]
			if method == "" || (route != "pipe" && route != "http") {
				c.Out(l, "err:bad-op")
				continue
			}
			req := c10Request(method, cv, present, flaw)
			var resp []byte
			status := 0
			panicked := ""
			func() {
				defer func() {
					if r := recover(); r != nil {
						panicked = fmt.Sprint(r)
					}
				}()
				if route == "pipe" {
					in := append([]byte{}, req...)
					switch kind {
					case "producer": // one tick
						in = append(in, c10IPC(arrow.NewSchema(nil, nil), 0, arrow.Metadata{}, true)...)
					case "exchange": // one input batch
						in = append(in, c10IPC(c10Schema, 1, arrow.Metadata{}, true)...)
					}
					var out bytes.Buffer
					s.Serve(bytes.NewReader(in), &out)
					resp = out.Bytes()
				} else {
					h := vgirpc.NewHttpServer(s)
					h.InitPages()
					pm := method
					if flaw == "unknown-method" {
						pm = "nope"
					}
					path := "/" + pm
					streamRoute := kind == "producer" || kind == "exchange"
					if flaw == "wrong-route-kind" {
						streamRoute = !streamRoute
					}
					if streamRoute {
						path += "/init"
					}
					hr := httptest.NewRequest(http.MethodPost, path, bytes.NewReader(req))
					ct := "application/vnd.apache.arrow.stream"
					if flaw == "content-type" {
						ct = "text/plain"
					}
					hr.Header.Set("Content-Type", ct)
					w := httptest.NewRecorder()
					h.ServeHTTP(w, hr)
					resp = w.Body.Bytes()
					status = w.Code
				}
			}()
			site := route + "-" + kind
			if panicked != "" {
				c.Oracle("gate-panicked@"+site, fmt.Sprintf("%s: %s", l, panicked))
				c.Stat("call-" + site + "-panic")
				c.Out(l, "panic")
				continue
			}
			c.Out(l, c10Judge(c, l, route, sv, kind, cv, present, flaw, resp, status, ran))
		case f[0] == "conn" && len(f) >= 3:
			// ONE pipe connection carrying several calls; every call is judged by the gate on its own
			sv := f[1]
			ran := 0
			s, _ := c10NewServer(sv, &ran)
			type call struct {
				kind, client, flaw string
			}
			var calls []call
			var chunks [][]byte
			bad := false
			for _, t := range f[2:] {
				p := strings.Split(t, "/")
				method := ""
				if len(p) == 3 {
					method = map[string]string{"unary": "u", "producer": "p", "exchange": "e", "describe": "__describe__"}[p[0]]
				}
				if method == "" {
					bad = true
					break
				}
				present := p[1] != "-"
				cv := ""
				if present {
					cv = UnXS(p[1])
				}
				in := c10Request(method, cv, present, p[2])
				switch p[0] {
				case "producer":
					in = append(in, c10IPC(arrow.NewSchema(nil, nil), 0, arrow.Metadata{}, true)...)
				case "exchange":
					in = append(in, c10IPC(c10Schema, 1, arrow.Metadata{}, true)...)
				}
				calls = append(calls, call{p[0], p[1], p[2]})
				chunks = append(chunks, in)
			}
			if bad {
				c.Out(l, "err:bad-op")
				continue
			}
			var out bytes.Buffer
			bounds := make([]int, len(chunks)+1) // response offset at which call i starts
			rans := make([]int, len(chunks)+1)
			rd := &c10ChunkReader{chunks: chunks, onAdvance: func(i int) { bounds[i], rans[i] = out.Len(), ran }}
			panicked := ""
			func() {
				defer func() {
					if r := recover(); r != nil {
						panicked = fmt.Sprint(r)
					}
				}()
				s.Serve(rd, &out)
			}()
			for i := rd.idx + 1; i <= len(chunks); i++ { // calls the loop never reached end where the output ends
				bounds[i], rans[i] = out.Len(), ran
			}
			resp := out.Bytes()
			c.Stat(fmt.Sprintf("conn-%d-calls", len(calls)))
			for i, cl := range calls {
				ml := fmt.Sprintf("call pipe %s %s %s %s", sv, cl.kind, cl.client, cl.flaw)
				if panicked != "" && i >= rd.idx {
					c.Oracle("gate-panicked@pipe-"+cl.kind, fmt.Sprintf("%s (call %d): %s", l, i+1, panicked))
					c.Out(ml, "panic")
					continue
				}
				present := cl.client != "-"
				cv := ""
				if present {
					cv = UnXS(cl.client)
				}
				c.Out(ml, c10Judge(c, fmt.Sprintf("%s (call %d of %d on one connection: %s)", l, i+1, len(calls), ml), "pipe", sv, cl.kind, cv, present, cl.flaw,
					resp[bounds[i]:bounds[i+1]], 0, rans[i+1]-rans[i]))
			}
		default:
			c.Out(l, "err:bad-op")
		}
	}
}

// c10Oracle states the property on the real outcome. site names the call site (check / route-kind); hist is the
// configuration history (judged by its LAST effective declaration); flaw is the request's other defect.
func c10Oracle(c *Case, line, site, hist string, isDescribe bool, cv string, present bool, flaw string, dispatched, other bool, dir string) {
	declared, ver := c10Effective(hist)
	want := "admit"
	if declared && !isDescribe {
		want = c10Expect(ver, cv, present)
	}
	if flaw != "none" && !c10FlawLate(flaw) {
		// a defect the current code reports before it reaches the guard (framing, unknown method, route):
		// the property does not order these against the version; the precedence is tied by the correspondence
		return
	}
	switch {
	case want == "admit" && flaw != "none":
		// admitted version + unbindable parameters: a binding error, never a dispatch
		if dispatched {
			c.Oracle("dispatched-with-unbindable-params@"+site, fmt.Sprintf("%s: handler ran", line))
		} else if !other {
			cls := "refused-though-same-major-minor"
			if !declared {
				cls = "refused-with-no-declared-version"
			}
			c.Oracle(cls+"@"+site, fmt.Sprintf("%s: expected the parameter-binding error, got a version refusal (%s)", line, dir))
		}
	case want == "admit" && !dispatched:
		cls := "refused-though-same-major-minor"
		if isDescribe {
			cls = "describe-refused"
		} else if !declared {
			cls = "refused-with-no-declared-version"
		}
		c.Oracle(cls+"@"+site, fmt.Sprintf("%s: expected dispatch, got refusal (%s)", line, dir))
	case want != "admit" && dispatched:
		c.Oracle("dispatched-though-"+want+"@"+site, fmt.Sprintf("%s: dispatched although the client version is %s", line, want))
	case want != "admit" && other:
		c.Oracle("version-refusal-masked-by-"+flaw+"@"+site, fmt.Sprintf("%s: the client version is %s but the answer is another error, not protocol_version_mismatch", line, want))
	case want != "admit" && dir != want:
		c.Oracle("wrong-direction-"+want+"@"+site, fmt.Sprintf("%s: message direction %q, expected %q", line, dir, want))
	}
}
