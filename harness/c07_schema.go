package main

// C07: an abstract description of a batch schema (what a peer may send), its tokens for the
// script/model, conversion from/to arrow, perturbations, and wire-cell generation for it.
//
//	<atype> : i8 … u64 f32 f64 bool utf8 lutf8 bin lbin fsb<w> date32 ts tsutc time64 dur dec dict
//	        | list T | map K V | struct <n> (x<name> <0|1> T)*n | other<id>

import (
	"fmt"
	"strconv"
	"strings"

	"github.com/apache/arrow-go/v18/arrow"
)

type c07AT struct {
	K      string // leaf token, "fsb", "list", "map", "struct", "other"
	W      int    // fsb width / other id
	Elem   *c07AT // list element, map item
	Key    *c07AT
	Fields []c07AF
}

type c07AF struct {
	Name     string
	Nullable bool
	T        *c07AT
}

// Arrow types the derivation never produces ("type-perturbed" columns).
var c07Others = []arrow.DataType{
	&arrow.TimestampType{Unit: arrow.Millisecond},
	&arrow.TimestampType{Unit: arrow.Nanosecond},
	&arrow.TimestampType{Unit: arrow.Second, TimeZone: "UTC"},
	arrow.FixedWidthTypes.Time32ms,
	arrow.FixedWidthTypes.Date64,
	&arrow.Decimal128Type{Precision: 10, Scale: 2},
	&arrow.Decimal128Type{Precision: 38, Scale: 4},
	&arrow.DictionaryType{IndexType: arrow.PrimitiveTypes.Int32, ValueType: arrow.BinaryTypes.String},
	&arrow.DictionaryType{IndexType: arrow.PrimitiveTypes.Int8, ValueType: arrow.BinaryTypes.String},
	arrow.FixedWidthTypes.Float16,
	arrow.Null,
	arrow.LargeListOf(arrow.PrimitiveTypes.Int32),
	arrow.ListOfNonNullable(arrow.PrimitiveTypes.Int32),
	&arrow.TimestampType{Unit: arrow.Microsecond, TimeZone: "Europe/Paris"},
	&arrow.DurationType{Unit: arrow.Millisecond},
	&arrow.Time64Type{Unit: arrow.Nanosecond},
}

var c07LeafArrow = map[string]arrow.DataType{
	"i8": arrow.PrimitiveTypes.Int8, "i16": arrow.PrimitiveTypes.Int16, "i32": arrow.PrimitiveTypes.Int32, "i64": arrow.PrimitiveTypes.Int64,
	"u8": arrow.PrimitiveTypes.Uint8, "u16": arrow.PrimitiveTypes.Uint16, "u32": arrow.PrimitiveTypes.Uint32, "u64": arrow.PrimitiveTypes.Uint64,
	"f32": arrow.PrimitiveTypes.Float32, "f64": arrow.PrimitiveTypes.Float64, "bool": arrow.FixedWidthTypes.Boolean,
	"utf8": arrow.BinaryTypes.String, "lutf8": arrow.BinaryTypes.LargeString, "bin": arrow.BinaryTypes.Binary, "lbin": arrow.BinaryTypes.LargeBinary,
	"date32": arrow.FixedWidthTypes.Date32, "ts": &arrow.TimestampType{Unit: arrow.Microsecond},
	"tsutc":  &arrow.TimestampType{Unit: arrow.Microsecond, TimeZone: "UTC"},
	"time64": arrow.FixedWidthTypes.Time64us, "dur": arrow.FixedWidthTypes.Duration_us,
	"dec":  &arrow.Decimal128Type{Precision: 20, Scale: 4},
	"dict": &arrow.DictionaryType{IndexType: arrow.PrimitiveTypes.Int16, ValueType: arrow.BinaryTypes.String},
}

// c07FromArrow describes an arrow type; ok=false for a type outside the description language.
func c07FromArrow(dt arrow.DataType) (*c07AT, bool) {
	s := c08TypeString(dt)
	if _, ok := c07LeafArrow[s]; ok {
		return &c07AT{K: s}, true
	}
	switch t := dt.(type) {
	case *arrow.FixedSizeBinaryType:
		return &c07AT{K: "fsb", W: t.ByteWidth}, true
	case *arrow.ListType:
		e, ok := c07FromArrow(t.Elem())
		return &c07AT{K: "list", Elem: e}, ok && t.ElemField().Nullable
	case *arrow.MapType:
		k, ok1 := c07FromArrow(t.KeyType())
		v, ok2 := c07FromArrow(t.ItemType())
		return &c07AT{K: "map", Key: k, Elem: v}, ok1 && ok2
	case *arrow.StructType:
		fs, ok := c07FieldsFromArrow(t.Fields())
		return &c07AT{K: "struct", Fields: fs}, ok
	}
	return nil, false
}

func c07FieldsFromArrow(fs []arrow.Field) ([]c07AF, bool) {
	out := make([]c07AF, len(fs))
	all := true
	for i, f := range fs {
		t, ok := c07FromArrow(f.Type)
		all = all && ok
		out[i] = c07AF{Name: f.Name, Nullable: f.Nullable, T: t}
	}
	return out, all
}

func (t *c07AT) arrow() arrow.DataType {
	switch t.K {
	case "fsb":
		return &arrow.FixedSizeBinaryType{ByteWidth: t.W}
	case "other":
		return c07Others[t.W%len(c07Others)]
	case "list":
		return arrow.ListOf(t.Elem.arrow())
	case "map":
		return arrow.MapOf(t.Key.arrow(), t.Elem.arrow())
	case "struct":
		return arrow.StructOf(c07FieldsToArrow(t.Fields)...)
	}
	return c07LeafArrow[t.K]
}

func c07FieldsToArrow(fs []c07AF) []arrow.Field {
	out := make([]arrow.Field, len(fs))
	for i, f := range fs {
		out[i] = arrow.Field{Name: f.Name, Type: f.T.arrow(), Nullable: f.Nullable}
	}
	return out
}

func (t *c07AT) tokens() []string {
	switch t.K {
	case "fsb":
		return []string{"fsb" + strconv.Itoa(t.W)}
	case "other":
		return []string{"other" + strconv.Itoa(t.W)}
	case "list":
		return append([]string{"list"}, t.Elem.tokens()...)
	case "map":
		return append(append([]string{"map"}, t.Key.tokens()...), t.Elem.tokens()...)
	case "struct":
		return append([]string{"struct"}, c07FieldsTokens(t.Fields)...)
	}
	return []string{t.K}
}

func c07FieldsTokens(fs []c07AF) []string {
	out := []string{strconv.Itoa(len(fs))}
	for _, f := range fs {
		n := "0"
		if f.Nullable {
			n = "1"
		}
		out = append(out, XS(f.Name), n)
		out = append(out, f.T.tokens()...)
	}
	return out
}

func c07ParseAT(toks []string) (*c07AT, []string, error) {
	if len(toks) == 0 {
		return nil, nil, fmt.Errorf("atype: out of tokens")
	}
	tok := toks[0]
	switch {
	case tok == "list":
		e, r, err := c07ParseAT(toks[1:])
		if err != nil {
			return nil, nil, err
		}
		return &c07AT{K: "list", Elem: e}, r, nil
	case tok == "map":
		k, r, err := c07ParseAT(toks[1:])
		if err != nil {
			return nil, nil, err
		}
		v, r, err := c07ParseAT(r)
		if err != nil {
			return nil, nil, err
		}
		return &c07AT{K: "map", Key: k, Elem: v}, r, nil
	case tok == "struct":
		fs, r, err := c07ParseAFs(toks[1:])
		if err != nil {
			return nil, nil, err
		}
		return &c07AT{K: "struct", Fields: fs}, r, nil
	case strings.HasPrefix(tok, "fsb"):
		w, err := strconv.Atoi(tok[3:])
		if err != nil || w <= 0 {
			return nil, nil, fmt.Errorf("atype: bad %q", tok)
		}
		return &c07AT{K: "fsb", W: w}, toks[1:], nil
	case strings.HasPrefix(tok, "other"):
		w, err := strconv.Atoi(tok[5:])
		if err != nil || w < 0 {
			return nil, nil, fmt.Errorf("atype: bad %q", tok)
		}
		return &c07AT{K: "other", W: w}, toks[1:], nil
	}
	if _, ok := c07LeafArrow[tok]; ok {
		return &c07AT{K: tok}, toks[1:], nil
	}
	return nil, nil, fmt.Errorf("atype: unknown %q", tok)
}

func c07ParseAFs(toks []string) ([]c07AF, []string, error) {
	if len(toks) == 0 {
		return nil, nil, fmt.Errorf("fields: out of tokens")
	}
	n, err := strconv.Atoi(toks[0])
	if err != nil || n < 0 {
		return nil, nil, fmt.Errorf("fields: bad count %q", toks[0])
	}
	r := toks[1:]
	fs := []c07AF{}
	for i := 0; i < n; i++ {
		if len(r) < 2 {
			return nil, nil, fmt.Errorf("fields: out of tokens")
		}
		name, ok := UnX(r[0])
		if !ok || (r[1] != "0" && r[1] != "1") {
			return nil, nil, fmt.Errorf("fields: bad name/nullable")
		}
		t, rr, err := c07ParseAT(r[2:])
		if err != nil {
			return nil, nil, err
		}
		fs = append(fs, c07AF{Name: string(name), Nullable: r[1] == "1", T: t})
		r = rr
	}
	return fs, r, nil
}

func (t *c07AT) clone() *c07AT {
	if t == nil {
		return nil
	}
	c := &c07AT{K: t.K, W: t.W, Elem: t.Elem.clone(), Key: t.Key.clone()}
	for _, f := range t.Fields {
		c.Fields = append(c.Fields, c07AF{Name: f.Name, Nullable: f.Nullable, T: f.T.clone()})
	}
	return c
}

func c07CloneFields(fs []c07AF) []c07AF {
	return (&c07AT{K: "struct", Fields: fs}).clone().Fields
}

// ---------------------------------------------------------------- perturbations

var c07LeafPool = []string{"i8", "i16", "i32", "i64", "u8", "u16", "u32", "u64", "f32", "f64", "bool", "utf8", "lutf8", "bin", "lbin",
	"date32", "ts", "tsutc", "time64", "dur", "dec", "dict"}

// c07OtherLeaf returns a type different from t (a near miss most of the time).
func c07OtherType(r *Rng, t *c07AT) *c07AT {
	near := map[string][]string{
		"i8": {"u8", "i16"}, "i16": {"u16", "i32", "i8"}, "i32": {"u32", "i64", "i16", "date32"}, "i64": {"u64", "i32", "ts", "dur", "time64"},
		"u8": {"i8", "u16"}, "u16": {"i16", "u32"}, "u32": {"i32", "u64"}, "u64": {"i64", "u32"},
		"f32": {"f64"}, "f64": {"f32", "dec"}, "bool": {"u8", "i8"}, "utf8": {"lutf8", "dict", "bin"}, "lutf8": {"utf8"},
		"bin": {"lbin", "utf8"}, "lbin": {"bin"}, "date32": {"i32", "ts"}, "ts": {"tsutc", "i64", "date32"}, "tsutc": {"ts"},
		"time64": {"i64", "dur"}, "dur": {"i64", "time64"}, "dec": {"f64", "utf8"}, "dict": {"utf8"},
	}
	for {
		var c *c07AT
		switch x := r.Intn(100); {
		case x < 45 && near[t.K] != nil:
			c = &c07AT{K: Pick(r, near[t.K])}
		case x < 60:
			c = &c07AT{K: "other", W: r.Intn(len(c07Others))}
		case x < 70 && t.K == "fsb":
			c = &c07AT{K: "fsb", W: t.W + Pick(r, []int{1, -1, 4})}
			if c.W <= 0 {
				c.W = t.W + 1
			}
		case x < 78:
			c = &c07AT{K: "list", Elem: t.clone()}
		case x < 84 && t.K == "list":
			c = t.Elem.clone()
		case x < 90:
			c = &c07AT{K: "fsb", W: Pick(r, []int{1, 4, 8, 16})}
		default:
			c = &c07AT{K: Pick(r, c07LeafPool)}
		}
		if strings.Join(c.tokens(), " ") != strings.Join(t.tokens(), " ") {
			return c
		}
	}
}

// c07PerturbType changes one thing somewhere inside t (returns a changed copy).
func c07PerturbType(r *Rng, t *c07AT) *c07AT {
	c := t.clone()
	switch c.K {
	case "list":
		if r.Chance(70) {
			c.Elem = c07PerturbType(r, c.Elem)
			return c
		}
	case "map":
		if r.Chance(75) {
			if r.Bool() {
				// keep keys to strings/integers so that entries stay orderable
				if c.Key.K == "utf8" {
					c.Key = &c07AT{K: Pick(r, []string{"i32", "i64", "lutf8"})}
				} else {
					c.Key = &c07AT{K: Pick(r, []string{"utf8", "u8", "i16"})}
					if c.Key.K == t.Key.K {
						c.Key = &c07AT{K: "utf8"}
					}
				}
			} else {
				c.Elem = c07PerturbType(r, c.Elem)
			}
			return c
		}
	case "struct":
		if r.Chance(80) {
			c.Fields = c07PerturbFields(r, c.Fields, true)
			return c
		}
	}
	return c07OtherType(r, t)
}

// c07PerturbFields applies one perturbation to a field list: reorder, narrow, widen, rename,
// nullability flip or type change. A list it cannot change that way gets an extra column.
func c07PerturbFields(r *Rng, fs []c07AF, nested bool) []c07AF {
	c := c07CloneFields(fs)
	extra := c07AF{Name: Pick(r, []string{"extra", "x", "v", "value", "zz"}), Nullable: r.Bool(), T: &c07AT{K: Pick(r, c07LeafPool)}}
	for tries := 0; tries < 20; tries++ {
		switch r.Intn(7) {
		case 0: // reorder
			if len(c) >= 2 {
				i := r.Intn(len(c))
				j := (i + 1 + r.Intn(len(c)-1)) % len(c)
				if strings.Join(c07FieldsTokens([]c07AF{c[i]}), " ") != strings.Join(c07FieldsTokens([]c07AF{c[j]}), " ") {
					c[i], c[j] = c[j], c[i]
					return c
				}
			}
		case 1: // narrow
			if len(c) >= 1 && (len(c) >= 2 || !nested) {
				i := r.Intn(len(c))
				return append(c[:i:i], c[i+1:]...)
			}
		case 2: // widen
			i := r.Intn(len(c) + 1)
			out := append([]c07AF{}, c[:i]...)
			out = append(out, extra)
			return append(out, c[i:]...)
		case 3: // rename
			if len(c) >= 1 {
				i := r.Intn(len(c))
				c[i].Name = Pick(r, []string{c[i].Name + "_", strings.ToUpper(c[i].Name) + "x", "renamed", " " + c[i].Name, ""})
				if c[i].Name != fs[i].Name {
					return c
				}
			}
		case 4: // nullability
			if len(c) >= 1 {
				i := r.Intn(len(c))
				c[i].Nullable = !c[i].Nullable
				return c
			}
		default: // type
			if len(c) >= 1 {
				i := r.Intn(len(c))
				c[i].T = c07PerturbType(r, c[i].T)
				return c
			}
		}
	}
	return append(c, extra)
}

// ---------------------------------------------------------------- cells for a schema

var c07ATKind = map[string][2]string{ // atype -> (go kind, type option) for c08GenCell
	"i8": {"i8", ""}, "i16": {"i16", ""}, "i32": {"i32", ""}, "i64": {"i64", ""}, "u8": {"u8", ""}, "u16": {"u16", ""}, "u32": {"u32", ""}, "u64": {"u64", ""},
	"f32": {"f32", ""}, "f64": {"f64", ""}, "bool": {"bool", ""}, "utf8": {"str", ""}, "lutf8": {"str", ""}, "dict": {"str", "enum"}, "bin": {"bytes", ""}, "lbin": {"bytes", ""},
	"date32": {"time", "date"}, "ts": {"time", "timestamp"}, "tsutc": {"time", "timestamp"}, "time64": {"time", "time"}, "dur": {"dur", "duration"}, "dec": {"str", "decimal"},
}

// c07GenCell draws wire cell tokens for a column/child/element of type t.
func c07GenCell(r *Rng, t *c07AT, nullable bool, nullPct int) []string {
	if t.K == "other" {
		return []string{"N"}
	}
	if nullable && r.Chance(nullPct) {
		return []string{"N"}
	}
	switch t.K {
	case "fsb":
		return []string{fmt.Sprintf("y:%x", r.Bytes(t.W))}
	case "list":
		n := r.Range(0, 3)
		out := []string{fmt.Sprintf("l:%d", n)}
		for i := 0; i < n; i++ {
			out = append(out, c07GenCell(r, t.Elem, true, 20)...)
		}
		return out
	case "map":
		keys := []string{}
		switch t.Key.K {
		case "utf8", "lutf8", "dict":
			keys = []string{"s:", "s:41", "s:61", "s:6162", "s:7a"}
		case "i8", "i16", "i32", "i64":
			keys = []string{"i:-1", "i:-10", "i:0", "i:10", "i:9"} // in decimal-text order
		case "u8", "u16", "u32", "u64":
			keys = []string{"i:0", "i:10", "i:200", "i:9"}
		default:
			return []string{"m:0"}
		}
		// an ordered subset of distinct keys
		sel := []string{}
		for _, k := range keys {
			if r.Chance(45) {
				sel = append(sel, k)
			}
		}
		out := []string{fmt.Sprintf("m:%d", len(sel))}
		for _, k := range sel {
			out = append(out, k)
			out = append(out, c07GenCell(r, t.Elem, true, 25)...)
		}
		return out
	case "struct":
		out := []string{"r"}
		for _, f := range t.Fields {
			out = append(out, c07GenCell(r, f.T, f.Nullable, 30)...)
		}
		return out
	}
	kk := c07ATKind[t.K]
	for {
		toks, _ := c08GenCell(r, kk[0], kk[1], false)
		if toks[0] != "N" {
			return toks
		}
	}
}

func c07GenRow(r *Rng, fs []c07AF) []string {
	out := []string{}
	for _, f := range fs {
		pct := 15
		if f.Nullable {
			pct = 40
		}
		out = append(out, c07GenCell(r, f.T, true, pct)...) // a null may arrive in a non-nullable column too
	}
	return out
}
