package main

import (
	"fmt"
	"strings"
)

// C14 — a continuation token only resumes the stream method that minted it.
//
// One case per ordered pair (a, b) of registered stream methods (producer, exchange, dynamic
// returning producer / exchange / both-interface states, two of each kind so that same-kind pairs
// exist): every token set a minted (init cursor, later cursor, its call token, mixed with b's own
// call token) is presented at b's continuation route, on the instance that saw the /init and on
// a cold one, with and without the cancel flag; plus unary and unknown routes, and cursors a key
// holder sealed with a method name but a state that does not implement that method's interface.
// Executor: c12_world.go.

func init() {
	Register(&Prop{
		ID: "C14",
		Rule: "all ordered pairs of the 9 registered stream methods (incl. a=b as control) x token sets {init cursor, later cursor} x call token {a's, b's} " +
			"x instance {warm, cold} x cancel; unary/unknown routes; hook-sealed cursors whose state kind does not fit the named method; " +
			"non-trivial = a cursor is presented at a route other than its minting method, or with a non-fitting state; distinct = distinct scripts",
		Gen:  c14Gen,
		Exec: tkExecProp("C14"),
		NonTrivial: func(lines []string) bool {
			minted := map[string]string{}
			for _, l := range lines {
				f := strings.Fields(l)
				kv := tkFields(f)
				if f[0] == "init" && len(f) > 3 {
					minted[kv["cur"]] = f[3]
				}
				if f[0] == "mint" {
					return true
				}
				if f[0] == "cont" && len(f) > 3 {
					slot := strings.TrimPrefix(strings.SplitN(kv["cur"], "|", 2)[0], "$")
					if m, ok := minted[slot]; ok && m != f[3] {
						return true
					}
				}
			}
			return false
		},
	})
}

func c14Gen(g *Gen) {
	r := g.Rng
	ms := tkStreamMethods()
	kindOf := map[string]string{}
	for _, m := range tkMethods {
		kindOf[m.name] = m.kind
	}
	ids := []string{"anon", tkID(true, "bearer", "alice")}
	rounds := g.N(1, 4)
	for round := 0; round < rounds; round++ {
		for _, a := range ms {
			for _, b := range ms {
				id := Pick(r, ids)
				key := tkKeyOfLen(r, Pick(r, []int{16, 32, 32}))
				rh, hk := r.Chance(70), r.Chance(70)
				lines := []string{
					tkInstLine("i0", key, 100000, 4096, false, "w0", rh, hk),
					tkInstLine("i1", key, 100000, Pick(r, []int{0, 4096}), false, "w1", rh, hk),
					fmt.Sprintf("init i0 %s %s limit=40 sess=- cur=ca call=ka", id, a),
					fmt.Sprintf("init i0 %s %s limit=40 sess=- cur=cb call=kb", id, b),
				}
				cont := func(inst, route, cur, call string, cancel int, out string) {
					lines = append(lines, fmt.Sprintf("cont %s %s %s cur=%s call=%s cancel=%d sess=- out=%s", inst, id, route, cur, call, cancel, out))
				}
				for _, inst := range []string{"i0", "i1"} {
					cont(inst, b, "$ca", "$ka", 0, "-")
					cont(inst, b, "$ca", "$kb", 0, "-")
					cont(inst, b, "$ca", "-", 0, "-")
					cont(inst, b, "$cb", "$ka", 0, "-") // b's own cursor, a's call token
				}
				cont(Pick(r, []string{"i0", "i1"}), b, "$ca", "$ka", 1, "-")
				// protocol metadata on the continuation batch (vgi_rpc.method naming the minting method, the
				// route's, or garbage; request version/id, protocol version, server id, shm keys, a location on a
				// non-empty batch): none of it may let a foreign cursor through, or break an own one
				for _, mm := range []string{a, b, "nosuch", ""} {
					inst := Pick(r, []string{"i0", "i1"})
					lines = append(lines,
						fmt.Sprintf("cont %s %s %s cur=$ca call=$ka cancel=0 sess=- out=- mm=%s extra=%d extra_loc=%d", inst, id, b, mm, r.Intn(2), r.Intn(2)),
						fmt.Sprintf("cont %s %s %s cur=$cb call=$kb cancel=0 sess=- out=- mm=%s extra=%d", inst, id, b, mm, r.Intn(2)))
				}
				lines = append(lines, fmt.Sprintf("cont i1 %s %s cur=$ca call=$kb cancel=%d sess=- out=- mm=%s extra=1", id, b, r.Intn(2), a))
				// a later cursor of a's stream
				cont(Pick(r, []string{"i0", "i1"}), a, "$ca", "$ka", 0, "ca2")
				cont("i0", b, "$ca2", "$ka", 0, "-")
				cont("i1", b, "$ca2", "$kb", 0, "-")
				// and the other direction
				cont(Pick(r, []string{"i0", "i1"}), a, "$cb", "$kb", 0, "-")
				// unary and unknown routes
				cont("i0", "who", "$ca", "$ka", 0, "-")
				cont("i1", "open", "$ca2", "$ka", r.Intn(2), "-")
				cont("i0", "nosuch", "$ca", "$ka", 0, "-")
				// cursors sealed by a key holder: right method name, state of another interface
				for k, sk := range []string{"P", "E", "B", "N"} {
					slot := fmt.Sprintf("fx%d", k)
					lines = append(lines, fmt.Sprintf("mint cursor %s i0 %s age=0 callid=@ca method=%s skind=%s count=1 limit=40", slot, id, b, sk))
					cont(Pick(r, []string{"i0", "i1"}), b, "$"+slot, "$ka", r.Intn(2)*r.Intn(2), "-")
				}
				lines = append(lines, fmt.Sprintf("mint cursor fu i0 %s age=0 callid=@ca method=who skind=%s count=1 limit=40", id, Pick(r, []string{"P", "E", "B"})))
				cont("i1", "who", "$fu", "$ka", 0, "-")
				lines = append(lines, fmt.Sprintf("mint cursor fe i0 %s age=0 callid=@ca method=- skind=%s count=1 limit=40", id, kindOf[b]))
				cont("i1", b, "$fe", "$ka", 0, "-")
				// externalized continuations on an instance with an external-location config: tokens on the
				// pointer batch, on the uploaded batch, or both — route's own (b), foreign (a) or absent.
				// The uploaded batch's tokens supersede the pointer's; whichever cursor decides must be b's.
				lines = append(lines, tkInstLine("x0", key, 100000, Pick(r, []int{0, 4096}), false, "wx", rh, hk)+" ext=1")
				type tok struct{ cur, call string }
				own, foreign, none := tok{"$cb", "$kb"}, tok{"$ca", "$ka"}, tok{"-", "-"}
				for _, p := range []tok{none, own, foreign} {
					for _, u := range []tok{none, own, foreign} {
						if p == none && u == none && r.Chance(50) {
							continue
						}
						lines = append(lines, fmt.Sprintf("cont x0 %s %s cur=%s call=%s cancel=%d sess=- out=- ptr=1 xcur=%s xcall=%s in=%s",
							id, b, p.cur, p.call, b2i(r.Chance(10)), u.cur, u.call, Pick(r, []string{"i64", "i32"})))
					}
				}
				// mixed: foreign cursor uploaded with the route's call token, and the reverse; a pointer on a server without the config
				lines = append(lines,
					fmt.Sprintf("cont x0 %s %s cur=$cb call=$kb cancel=0 sess=- out=- ptr=1 xcur=$ca xcall=- in=i64", id, b),
					fmt.Sprintf("cont x0 %s %s cur=$ca call=$ka cancel=0 sess=- out=- ptr=1 xcur=$cb xcall=- in=i64", id, b),
					fmt.Sprintf("cont x0 %s %s cur=- call=$kb cancel=0 sess=- out=- ptr=1 xcur=$ca2 xcall=- in=i64", id, b),
					fmt.Sprintf("cont i1 %s %s cur=$cb call=$kb cancel=0 sess=- out=- ptr=1 xcur=$ca xcall=$ka in=i64", id, b))
				// a handler that rewrites its CallContext.Method / RequestID (init handler and every turn) to b's
				// name while serving a: what it mints stays bound to a — b's route refuses it, a's route resumes it
				lines = append(lines, fmt.Sprintf("init i0 %s %s limit=40 sess=- cur=ra call=rk retag=%s", id, a, b))
				cont("i0", b, "$ra", "$rk", 0, "-")
				cont("i1", a, "$ra", "$rk", 0, "ra2")
				cont("i1", b, "$ra2", "$rk", 0, "-")
				cont("i0", a, "$ra2", "$rk", 0, "ra3")
				cont("i1", b, "$ra3", "$rk", r.Intn(2), "-")
				// a refused pairing (b's cursor with a's call token) on an instance with no entry for b's call
				// must not leave a's call behind under b's call id
				lines = append(lines, tkInstLine("p0", key, 100000, 4096, false, "wp", rh, true))
				cont("p0", b, "$cb", "$ka", 0, "-")
				cont("p0", b, "$cb", "$kb", 0, "cbp")
				cont("p0", a, "$ca2", "$kb", 0, "-")
				cont("p0", a, "$ca2", "$ka", 0, "cap")
				// both streams still continue on their own routes
				cont("i1", a, "$ca2", "$ka", 0, "ca3")
				cont("i1", b, "$cb", "$kb", 0, "cb2")
				g.Case(lines...)
			}
		}
	}
}
