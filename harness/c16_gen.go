package main

import (
	"fmt"
	"sort"
	"strings"
)

// ---- generators shared by the HTTP stream properties ------------------------------------------

var (
	fwKeyState  = "vgi_rpc.stream_state#b64"
	fwKeyCall   = "vgi_rpc.call_state#b64"
	fwKeyCancel = "vgi_rpc.cancel"
)

// request-metadata key alphabet: user keys, near misses of the framework keys, other protocol keys
var reqMetaKeys = []string{
	"if_none_match", "if_modified_since", "k", "K", "a", "b", "vgi_pushdown_filters", "traceparent",
	"vgi_rpc.stream_state", "vgi_rpc.stream_state#b64 ", " vgi_rpc.stream_state#b64", "VGI_RPC.STREAM_STATE#B64",
	"vgi_rpc.stream_state#b64x", "vgi_rpc.call_state", "vgi_rpc.call_state#b6", "vgi_rpc.cancel2", "vgi_rpc.cance",
	"Vgi_rpc.cancel", "vgi_rpc.cancel\t", "vgi_rpc.request_id", "vgi_rpc.method", "vgi_rpc.server_id",
	"vgi_rpc.shm_offset", "ключ", "é", "鍵", "🔑", "x=y", "a,b", "",
	"long-key-................................................................................",
}

var metaValues = []string{"", "1", "v", "true", "etag-abc", "0", "значение", "a=b,c", " ", "vgi_rpc.cancel",
	"AAAAAAAAAAAAAAAAAAAAAAAAAAAAAAAAAAAAAAAAAAAAAAAAAAAAAAAAAAAAAAAAAAAAAAAA", "Zm9v", "\t"}

// emit-metadata key alphabet (must stay sorted-unique per emit; includes collisions with the
// framework keys)
var emitMetaKeys = []string{"vgi_batch_index", "vgi.cache.etag", "a", "b", "k", "ключ", "",
	"vgi_rpc.stream_state#b64", "vgi_rpc.call_state#b64", "vgi_rpc.cancel", "vgi_rpc.stream_state", "zz"}

func genVals(r *Rng, max int) string {
	n := r.Intn(max + 1)
	parts := make([]string, n)
	for i := range parts {
		switch r.Intn(6) {
		case 0:
			parts[i] = fmt.Sprint(-r.Intn(1000))
		case 1:
			parts[i] = "0"
		case 2:
			parts[i] = fmt.Sprint(int32(r.U64())) // fits int32 so the castable schema stays exact
		default:
			parts[i] = fmt.Sprint(r.Intn(100))
		}
	}
	return "c" + strings.Join(parts, ".")
}

func genEmitMeta(r *Rng, collide bool) string {
	if r.Chance(45) {
		return ""
	}
	n := r.Range(1, 3)
	set := map[string]string{}
	for i := 0; i < n; i++ {
		k := Pick(r, emitMetaKeys)
		if !collide && strings.HasPrefix(k, "vgi_rpc.") {
			k = "u" + k
		}
		set[k] = Pick(r, metaValues)
	}
	keys := make([]string, 0, len(set))
	for k := range set {
		keys = append(keys, k)
	}
	sort.Strings(keys)
	parts := make([]string, len(keys))
	for i, k := range keys {
		parts[i] = hx(k) + "=" + hx(set[k])
	}
	return strings.Join(parts, ",")
}

func genEmit(r *Rng, exchange, collide bool) string {
	prop := r.Intn(2)
	src := genVals(r, 4)
	if exchange && r.Chance(60) {
		src = fmt.Sprintf("i%d", r.Range(-3, 3))
	}
	return fmt.Sprintf("e%d:%s:%s", prop, src, genEmitMeta(r, collide))
}

// genTick draws one Produce/Exchange program. Most ticks are well-behaved (logs + one emit).
func genTick(r *Rng, exchange, collide bool) string {
	var acts []string
	logs := func(max int) {
		for i := r.Intn(max + 1); i > 0; i-- {
			acts = append(acts, fmt.Sprintf("l%d", r.Intn(50)))
		}
	}
	switch x := r.Intn(100); {
	case x < 55: // logs, emit, logs
		logs(2)
		acts = append(acts, genEmit(r, exchange, collide))
		logs(1)
	case x < 62: // no data
		logs(2)
	case x < 70: // second emit (propagated or ignored)
		acts = append(acts, genEmit(r, exchange, collide))
		logs(1)
		acts = append(acts, genEmit(r, exchange, collide))
		logs(1)
	case x < 78: // error, possibly after an emit
		if r.Bool() {
			acts = append(acts, genEmit(r, exchange, collide))
		}
		logs(1)
		acts = append(acts, fmt.Sprintf("r%d", r.Intn(9)))
	case x < 85: // panic
		logs(1)
		if r.Bool() {
			acts = append(acts, genEmit(r, exchange, collide))
		}
		acts = append(acts, fmt.Sprintf("p%d", r.Intn(9)))
	case x < 93: // finish (an error on exchange streams), before or after an emit
		if r.Bool() {
			acts = append(acts, genEmit(r, exchange, collide))
		}
		acts = append(acts, fmt.Sprintf("f%d", r.Intn(2)))
		if r.Chance(30) {
			acts = append(acts, genEmit(r, exchange, collide))
		}
	default: // free mix
		for i := r.Range(0, 5); i > 0; i-- {
			switch r.Intn(5) {
			case 0:
				acts = append(acts, fmt.Sprintf("l%d", r.Intn(50)))
			case 1, 2:
				acts = append(acts, genEmit(r, exchange, collide))
			case 3:
				acts = append(acts, fmt.Sprintf("f%d", r.Intn(2)))
			default:
				acts = append(acts, fmt.Sprintf("r%d", r.Intn(9)))
			}
		}
	}
	if len(acts) == 0 {
		return "_"
	}
	return strings.Join(acts, ";")
}

func genProg(r *Rng, exchange, collide bool, maxTicks int) string {
	n := r.Intn(maxTicks + 1)
	if n == 0 {
		return "-"
	}
	ticks := make([]string, n)
	for i := range ticks {
		ticks[i] = genTick(r, exchange, collide)
	}
	return strings.Join(ticks, "/")
}

// genUserMeta draws request metadata words (literal values only).
func genUserMeta(r *Rng, max int) []string {
	n := r.Intn(max + 1)
	out := make([]string, 0, n)
	for i := 0; i < n; i++ {
		out = append(out, hx(Pick(r, reqMetaKeys))+"=x"+hx(Pick(r, metaValues)))
	}
	return out
}

// shuffleInsert inserts w at a random position.
func shuffleInsert(r *Rng, ws []string, w string) []string {
	i := r.Intn(len(ws) + 1)
	out := append([]string{}, ws[:i]...)
	out = append(out, w)
	return append(out, ws[i:]...)
}

// ---- C16 generator -------------------------------------------------------------------------------

func c16Gen(g *Gen) {
	r := g.Rng
	n := g.N(2000, 15000)
	for i := 0; i < n; i++ {
		switch x := r.Intn(100); {
		case x < 70:
			c16GenHistory(g, false)
		case x < 85:
			c16GenHistory(g, true)
		default:
			c16GenStrip(g)
		}
	}
	if g.Thorough() {
		c16GenExhaustive(g)
	}
}

// shadowTick predicts (for steering the generator only) what one scripted tick does.
func shadowTick(acts []scriptAct, producer bool) (failed, data, finished bool) {
	for _, a := range acts {
		switch a.Op {
		case 'e':
			if data {
				if a.Prop {
					return true, data, finished
				}
			} else {
				data = true
			}
		case 'f':
			if producer {
				finished = true
			} else if a.Prop {
				return true, data, finished
			}
		case 'r', 'p':
			return true, data, finished
		}
	}
	return false, data, finished
}

// shadowTurn predicts whether a continuation on a cursor at pos hands out a new cursor, and at
// which position.
func shadowTurn(ticks [][]scriptAct, pos int, producer bool, limit int) (newPos int, minted bool) {
	if !producer {
		acts := []scriptAct{{Op: 'e', Prop: true, Input: true}}
		if pos < len(ticks) {
			acts = ticks[pos]
		}
		failed, data, _ := shadowTick(acts, false)
		return pos + 1, !failed && data
	}
	n := 0
	for {
		if pos >= len(ticks) {
			return pos + 1, false
		}
		failed, data, fin := shadowTick(ticks[pos], true)
		pos++
		if failed || (!fin && !data) || fin {
			return pos, false
		}
		n++
		if limit > 0 && n >= limit {
			return pos, true
		}
	}
}

// c16GenHistory: one stream (exchange or producer with a batch limit) driven through a history of
// continuation requests. A shadow of the cursors handed out keeps most requests on live cursors.
func c16GenHistory(g *Gen, producer bool) {
	r := g.Rng
	cache := r.Chance(65)
	maxresp := 0
	switch r.Intn(14) {
	case 0:
		maxresp = 1 // every body is over the cap
	case 1:
		maxresp = 1 << 30
	}
	limit := 0
	if producer {
		limit = r.Range(1, 3)
		maxresp = 0 // producers and max_response_bytes are C19's subject
	}
	// every registered stream kind: static methods (registered with or without a header type) and
	// the dynamic method in both flavours, each with or without a header value
	dynamic := r.Chance(42)
	hdrCfg := r.Chance(40)
	xin := r.Chance(35) // the server resolves external-location pointer inputs
	// externalised OUTPUTS: an in-memory storage and a low threshold, so data batches below / at / above
	// it travel inline or as a pointer to an upload (which must carry the cursor)
	ext := r.Chance(30)
	thr := Pick(r, []int{1, rowsBufSize(3), rowsBufSize(8), rowsBufSize(20)}) // sizes some batch has exactly
	xin = xin || ext // any external-location config also resolves pointer inputs
	cfgLine := fmt.Sprintf("cfg cache=%d maxresp=%d limit=%d hdr=%d xin=%d", b2i(cache), maxresp, limit, b2i(hdrCfg), b2i(xin))
	if ext {
		cfgLine += fmt.Sprintf(" ext=1 thr=%d zstd=%d", thr, b2i(r.Chance(4)))
	}
	lines := []string{cfgLine}
	kind, initKind := "ex", "ex"
	if producer {
		kind, initKind = "pr", "pr"
	}
	if dynamic {
		kind = "dyn"
		initKind = map[bool]string{false: "dx", true: "dp"}[producer]
	}
	hword := ""
	if r.Chance(45) {
		hword = fmt.Sprintf(" h%d", r.Range(1, 99))
	}
	cancelAct := Pick(r, []string{"absent", "ok", "ok", "err", "panic"})
	collide := r.Chance(35)
	var prog string
	if producer {
		// mostly well-behaved ticks so the stream outlives several responses
		n := r.Range(0, 9)
		ticks := make([]string, 0, n)
		for i := 0; i < n; i++ {
			if r.Chance(80) {
				ticks = append(ticks, strings.Join([]string{fmt.Sprintf("l%d", r.Intn(50)), genEmit(r, false, collide)}[r.Intn(2):], ";"))
			} else {
				ticks = append(ticks, genTick(r, false, collide))
			}
		}
		prog = strings.Join(ticks, "/")
		if n == 0 {
			prog = "-"
		}
	} else {
		prog = genProg(r, true, collide, 7)
	}
	if ext {
		// resize some emits around the threshold: one row below it, exactly at it, one row above
		ts := strings.Split(prog, "/")
		for i, t := range ts {
			if t == "-" || !r.Chance(60) {
				continue
			}
			at := rowsAtThr(thr)
			rows := Pick(r, []int{at - 1, at, at + 1, 2 * at, 40})
			if rows < 0 {
				rows = 0
			}
			em := fmt.Sprintf("e1:n%dx%d:%s", rows, r.Range(1, 9), genEmitMeta(r, collide))
			if !producer && r.Chance(35) {
				em = fmt.Sprintf("E1:n%dx%d", rows, r.Range(1, 9))
			}
			if r.Chance(30) {
				em = fmt.Sprintf("l%d;", r.Intn(50)) + em
			}
			ts[i] = em
		}
		prog = strings.Join(ts, "/")
	}
	// static methods: the state's TYPE may implement both stream interfaces
	if !dynamic && r.Chance(35) {
		hword += " dual"
	}
	ticks, _ := parseScriptProg(prog)
	type shadowTok struct {
		pos  int
		call int
		prog [][]scriptAct
	}
	var toks []shadowTok
	calls := 0
	doInit := func(prog string, ticks [][]scriptAct) {
		lines = append(lines, fmt.Sprintf("init 0 %s %s %s%s", initKind, cancelAct, prog, hword))
		if !producer {
			toks = append(toks, shadowTok{0, calls, ticks})
			calls++
		} else if np, ok := shadowTurn(ticks, 0, true, limit); ok {
			toks = append(toks, shadowTok{np, calls, ticks})
			calls++
		}
	}
	doInit(prog, ticks)
	if r.Chance(15) { // a second stream, so tokens of another call are around
		p2 := genProg(r, !producer, false, 3)
		t2, _ := parseScriptProg(p2)
		doInit(p2, t2)
	}
	cur := 0
	turns := r.Range(1, 10)
	for t := 0; t < turns; t++ {
		schema := "ok"
		if producer {
			schema = Pick(r, []string{"empty", "empty", "ok", "bad"})
		} else {
			switch r.Intn(16) {
			case 0:
				schema = "cast"
			case 1:
				schema = "bad"
			case 2:
				schema = "empty"
			}
		}
		if len(toks) > 0 && r.Chance(80) {
			cur = len(toks) - 1
		} else if len(toks) > 0 {
			cur = r.Intn(len(toks))
		}
		meta := genUserMeta(r, 4)
		tok := fmt.Sprintf("T%d", cur)
		call := "C0"
		if cur < len(toks) {
			call = fmt.Sprintf("C%d", toks[cur].call)
		}
		presented, callOK, cancelled := true, true, false
		mode := r.Intn(100)
		switch {
		case mode < 66: // conformant client
			meta = shuffleInsert(r, meta, hx(fwKeyState)+"="+tok)
			meta = shuffleInsert(r, meta, hx(fwKeyCall)+"="+call)
		case mode < 70: // no call token (fine with the cache, refused without)
			meta = shuffleInsert(r, meta, hx(fwKeyState)+"="+tok)
			callOK = cache
		case mode < 73: // no cursor at all
			meta = shuffleInsert(r, meta, hx(fwKeyCall)+"="+call)
			presented = false
		case mode < 77: // garbage / empty / mis-typed cursor
			bad := Pick(r, []string{"x", "x" + hx("garbage"), "x" + hx("AAAA"), call, "T99", "x" + hx(strings.Repeat("QUJD", 30))})
			meta = shuffleInsert(r, meta, hx(fwKeyState)+"="+bad)
			meta = shuffleInsert(r, meta, hx(fwKeyCall)+"="+call)
			presented = false
		case mode < 81: // wrong call token
			bad := Pick(r, []string{"x", "x" + hx("junk"), tok, "C1", "C7"})
			if cur < len(toks) && fmt.Sprintf("C%d", toks[cur].call) == bad {
				bad = "C9"
			}
			meta = shuffleInsert(r, meta, hx(fwKeyState)+"="+tok)
			meta = shuffleInsert(r, meta, hx(fwKeyCall)+"="+bad)
			callOK = cache
		case mode < 86: // duplicate framework keys: the first one decides
			dup := Pick(r, []string{"x" + hx("dup"), fmt.Sprintf("T%d", r.Intn(len(toks)+1)), "x"})
			if r.Bool() {
				meta = append([]string{hx(fwKeyState) + "=" + tok}, append(meta, hx(fwKeyState)+"="+dup)...)
			} else {
				meta = append([]string{hx(fwKeyState) + "=" + dup}, append(meta, hx(fwKeyState)+"="+tok)...)
				presented = false // (unless dup happens to be a live cursor; the shadow is only a hint)
			}
			meta = shuffleInsert(r, meta, hx(fwKeyCall)+"="+call)
			if r.Bool() {
				meta = append(meta, hx(fwKeyCall)+"=x"+hx("dupcall"))
			}
		case mode < 90: // a token smuggled under a user key, next to the proper ones
			meta = shuffleInsert(r, meta, hx(fwKeyState)+"="+tok)
			meta = shuffleInsert(r, meta, hx(fwKeyCall)+"="+call)
			meta = shuffleInsert(r, meta, hx(Pick(r, []string{"k", "vgi_rpc.stream_state", "saved"}))+"="+Pick(r, []string{tok, call}))
		default: // cancel
			meta = shuffleInsert(r, meta, hx(fwKeyState)+"="+tok)
			meta = shuffleInsert(r, meta, hx(fwKeyCall)+"="+call)
			meta = shuffleInsert(r, meta, hx(fwKeyCancel)+"=x"+hx(Pick(r, []string{"1", "", "true", "0", "false", "no"})))
			cancelled = true
			if r.Bool() {
				schema = "empty"
			}
		}
		// external input: the request batch is a pointer to an object holding the real input batch;
		// tokens, cancel and user keys go on the pointer batch, on the fetched batch, or on both
		schemaOKForShadow := producer || schema == "ok" || schema == "cast"
		if r.Chance(map[bool]int{true: 32, false: 5}[xin]) {
			var ptr, fet []string
			tokSide := r.Intn(3) // 0 pointer, 1 fetched, 2 both
			for _, w := range meta {
				key := strings.SplitN(w, "=", 2)[0]
				switch {
				case key == hx(fwKeyState) || key == hx(fwKeyCall):
					if tokSide != 1 {
						ptr = append(ptr, w)
					}
					if tokSide != 0 {
						fet = append(fet, w)
					}
				case key == hx(fwKeyCancel):
					if r.Chance(65) {
						ptr = append(ptr, w)
					} else {
						fet = append(fet, w) // inert there: the turn runs
						cancelled = false
					}
				default:
					if r.Bool() {
						ptr = append(ptr, w)
					} else {
						fet = append(fet, w)
					}
				}
			}
			missing := r.Chance(6)
			switch {
			case !xin:
				schemaOKForShadow = true // the zero-row pointer batch itself is the input
				if tokSide == 1 {
					presented = false
				}
			case missing && !cancelled:
				presented = false
			}
			if missing {
				meta = append(ptr, "@!")
			} else {
				meta = append(append(ptr, "@"), fet...)
			}
		}
		route := kind
		if r.Chance(4) { // the cursor presented on the other method's continuation route: refused
			route = Pick(r, map[string][]string{"ex": {"pr", "dyn"}, "pr": {"ex", "dyn"}, "dyn": {"ex", "pr"}}[kind])
			presented = false
		}
		lines = append(lines, fmt.Sprintf("x 0 %s %s %s %s", route, schema, genVals(r, 3), strings.Join(meta, " ")))
		if presented && callOK && !cancelled && cur < len(toks) && maxresp != 1 && schemaOKForShadow {
			if np, ok := shadowTurn(toks[cur].prog, toks[cur].pos, producer, limit); ok {
				toks = append(toks, shadowTok{np, toks[cur].call, toks[cur].prog})
			}
		}
	}
	if len(toks) > 0 && r.Chance(40) {
		// cancel at whatever point the history reached (newest or any earlier cursor)
		i := len(toks) - 1
		if r.Chance(30) {
			i = r.Intn(len(toks))
		}
		meta := genUserMeta(r, 2)
		meta = shuffleInsert(r, meta, hx(fwKeyState)+"="+fmt.Sprintf("T%d", i))
		meta = shuffleInsert(r, meta, hx(fwKeyCall)+"="+fmt.Sprintf("C%d", toks[i].call))
		meta = shuffleInsert(r, meta, hx(fwKeyCancel)+"=x"+hx(Pick(r, []string{"1", "", "true"})))
		lines = append(lines, fmt.Sprintf("x 0 %s %s c %s", kind, Pick(r, []string{"empty", "ok"}), strings.Join(meta, " ")))
	}
	g.Case(lines...)
}

// rowsBufSize: the Arrow buffer size (what the externalize threshold is compared with) of a scripted
// data batch of n rows — 8 bytes per value plus the validity bitmap the builder allocates.
func rowsBufSize(n int) int {
	b := int64Batch(scriptValueSchema, make([]int64, n))
	defer b.Release()
	return int(arrowBufferSize(b))
}

// rowsAtThr: the row count whose buffer size is exactly thr (searching just below thr/8), or thr/8.
func rowsAtThr(thr int) int {
	for n := thr / 8; n >= 0 && n >= thr/8-16; n-- {
		if rowsBufSize(n) == thr {
			return n
		}
	}
	return thr / 8
}

func b2i(b bool) int {
	if b {
		return 1
	}
	return 0
}

func c16GenStrip(g *Gen) {
	r := g.Rng
	lines := []string{}
	for k := r.Range(1, 6); k > 0; k-- {
		var ws []string
		for i := r.Intn(7); i > 0; i-- {
			key := Pick(r, reqMetaKeys)
			if r.Chance(40) {
				key = Pick(r, []string{fwKeyState, fwKeyCall, fwKeyCancel})
			}
			ws = append(ws, hx(key)+"=x"+hx(Pick(r, metaValues)))
		}
		lines = append(lines, strings.TrimSpace("strip "+strings.Join(ws, " ")))
	}
	g.Case(lines...)
}

// c16GenExhaustive (thorough tier): every exchange tick of up to 3 actions over a small action
// alphabet, one turn each, followed by a cancel.
func c16GenExhaustive(g *Gen) {
	alpha := []string{"l1", "e1:i1:", "e0:c7:" + hx("a") + "=" + hx("1"), "e1:c:" + hx(fwKeyState) + "=" + hx("mine"), "f1", "f0", "r2", "p3"}
	var rec func(prefix []string, depth int)
	emitCase := func(acts []string) {
		tick := "_"
		if len(acts) > 0 {
			tick = strings.Join(acts, ";")
		}
		std := hx(fwKeyState) + "=T0 " + hx(fwKeyCall) + "=C0 " + hx("k") + "=x" + hx("v")
		for _, k := range [][2]string{{"ex", "ex"}, {"dx", "dyn"}} {
			g.Case("cfg cache=1 maxresp=0 limit=0 hdr="+fmt.Sprint(len(acts)%2),
				"init 0 "+k[0]+" ok "+tick+" h7",
				"x 0 "+k[1]+" ok c1.2 "+std,
				"x 0 "+k[1]+" ok c5 "+hx(fwKeyState)+"=T1 "+hx(fwKeyCall)+"=C0",
				"x 0 "+k[1]+" empty c "+hx(fwKeyCancel)+"=x31 "+hx(fwKeyState)+"=T0")
		}
	}
	rec = func(prefix []string, depth int) {
		emitCase(prefix)
		if depth == 0 {
			return
		}
		for _, a := range alpha {
			rec(append(append([]string{}, prefix...), a), depth-1)
		}
	}
	rec(nil, 3)
}
