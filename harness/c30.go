package main

import (
	"bytes"
	"crypto/sha256"
	"encoding/hex"
	"fmt"
	"hash/fnv"
	"net/http"
	"net/http/httptest"
	"strconv"
	"strings"
	"sync"
	"time"

	"github.com/Query-farm/vgi-rpc-go/vgirpc"
	"github.com/apache/arrow-go/v18/arrow"
	"github.com/apache/arrow-go/v18/arrow/array"
	"github.com/apache/arrow-go/v18/arrow/ipc"
	"github.com/apache/arrow-go/v18/arrow/memory"
	"github.com/klauspost/compress/zstd"
)

// C30 — externalized batches resolve to exactly the uploaded data.
//
// Script lines (each line is one independent call against the real code):
//
//   ext cfg=<0|1> storage=<0|1> thr=<abs:N|rel:K> alg=<name|-> level=<n> upfail=<0|1> b=<batch>
//       externalizeBatchCtx on the batch; thr=rel:K means threshold = batchBufferSize+K.
//   rt  (same keys as ext) val=<nil|ok|rej|https> tamper=<mode> sha=<mode> [mf=<cap> md=<cap>]
//       mf / md: MaxFetchBytes / MaxDecompressedBytes of the resolving side, e<K> = stored size + K,
//       r<K> = raw IPC size + K (K may be negative), absent = default
//       externalize, serve the uploaded object from a local TLS origin (tampered per <mode>),
//       then ResolveExternalLocation on the returned pointer. Emits an `ext` and a `res` line.
//   hist alg=<-|zstd> level=<n> items=<batch>|<batch>|... order=<i,j,...>
//       externalizes the items one after the other into ONE in-memory storage that RETAINS the byte
//       slice it is handed (no copy), then resolves the pointers in the given order (indices into
//       items, repeats allowed); every pointer must resolve to its own original.
//   res cfg=<0|1> val=<nil|ok|rej|https> prows=<n> pmeta=<symbolic meta> sha=<mode> scheme=<https|http>
//       status=<code> enc=<plain|zstd|zcorrupt> tamper=<mode> schema=<k> stream=<batch;batch;...|->
//       builds an IPC stream from the batches, serves it, resolves a hand-made pointer to it.
//
//   <batch>  = <schemaKind>/<rows>/<seed>/<symbolic meta>
//   <symbolic meta> = - | k=v,k=v  with k,v hex; the generator uses the real key constants
//   tamper   = none | flip:eos | flip:tail | append | trunc:<permille> | garbage | empty
//   sha      = good | none | wrong | upper | empty
//
// Observations compared with the model: ext -> inline | err:<kind> … | ptr meta=… charged=… enc=… data=…
//                                       res -> pass | err:<kind> | ok <schema:rows:payload:meta>

func init() {
	Register(&Prop{
		ID: "C30",
		Rule: "ext: batches of 7 schemas (one high-entropy/incompressible) x rows x custom metadata, thresholds at buf-1/buf/buf+1/default, compression none/zstd/other x levels; " +
			"rt: full externalize->TLS origin->resolve round trips with tampering and checksum modes; res: fetched streams built from data/log/pointer/odd batches " +
			"in any order (exhaustive to length 3 quick, 4 thorough) with tampered bytes, encodings and statuses; non-trivial = case has an rt or res line; distinct = distinct scripts",
		Gen:  c30Gen,
		Exec: c30Exec,
		NonTrivial: func(lines []string) bool {
			for _, l := range lines {
				if strings.HasPrefix(l, "rt ") || strings.HasPrefix(l, "res ") || strings.HasPrefix(l, "hist ") {
					return true
				}
			}
			return false
		},
	})
}

// ---------------------------------------------------------------- batches

var c30Mem = memory.NewGoAllocator()

func c30Schema(kind int) *arrow.Schema {
	md := func(k, v string) *arrow.Metadata { m := arrow.NewMetadata([]string{k}, []string{v}); return &m }
	switch kind {
	case 1:
		return arrow.NewSchema([]arrow.Field{{Name: "v", Type: arrow.PrimitiveTypes.Int64}, {Name: "s", Type: arrow.BinaryTypes.String}}, nil)
	case 2:
		return arrow.NewSchema([]arrow.Field{{Name: "f", Type: arrow.PrimitiveTypes.Float64, Nullable: true}, {Name: "b", Type: arrow.FixedWidthTypes.Boolean}}, nil)
	case 3: // schema-level metadata that LOOKS like a log marker: must not matter
		return arrow.NewSchema([]arrow.Field{{Name: "v", Type: arrow.PrimitiveTypes.Int64}}, md(vgirpc.MetaLogLevel, "INFO"))
	case 4: // schema-level metadata that LOOKS like a pointer marker: must not matter
		return arrow.NewSchema([]arrow.Field{{Name: "v", Type: arrow.PrimitiveTypes.Int64}}, md(vgirpc.MetaLocation, "https://elsewhere.example/x"))
	case 5:
		return arrow.NewSchema([]arrow.Field{{Name: "v", Type: arrow.PrimitiveTypes.Int64}}, md("app", "meta"))
	case 6: // high-entropy column: the IPC bytes do not shrink under zstd
		return arrow.NewSchema([]arrow.Field{{Name: "h", Type: arrow.PrimitiveTypes.Uint64}}, nil)
	default:
		return arrow.NewSchema([]arrow.Field{{Name: "v", Type: arrow.PrimitiveTypes.Int64}}, nil)
	}
}

type c30Batch struct {
	kind, rows, seed int
	meta             [][2]string
}

func c30ParseMeta(s string) [][2]string {
	if s == "-" || s == "" {
		return nil
	}
	var out [][2]string
	for _, p := range strings.Split(s, ",") {
		kv := strings.SplitN(p, "=", 2)
		k, _ := hex.DecodeString(kv[0])
		v, _ := hex.DecodeString(kv[1])
		out = append(out, [2]string{string(k), string(v)})
	}
	return out
}

func c30ShowMeta(keys, vals []string) string {
	if len(keys) == 0 {
		return "-"
	}
	parts := make([]string, len(keys))
	for i := range keys {
		parts[i] = hex.EncodeToString([]byte(keys[i])) + "=" + hex.EncodeToString([]byte(vals[i]))
	}
	return strings.Join(parts, ",")
}

func c30MetaStr(m [][2]string) string {
	var k, v []string
	for _, p := range m {
		k = append(k, p[0])
		v = append(v, p[1])
	}
	return c30ShowMeta(k, v)
}

func c30ParseBatch(s string) c30Batch {
	f := strings.Split(s, "/")
	if len(f) != 4 {
		panic("bad batch desc " + s)
	}
	k, _ := strconv.Atoi(f[0])
	r, _ := strconv.Atoi(f[1])
	sd, _ := strconv.Atoi(f[2])
	return c30Batch{k, r, sd, c30ParseMeta(f[3])}
}

func (b c30Batch) String() string {
	return fmt.Sprintf("%d/%d/%d/%s", b.kind, b.rows, b.seed, c30MetaStr(b.meta))
}

func c30Build(b c30Batch, schema *arrow.Schema) arrow.RecordBatch {
	cols := make([]arrow.Array, schema.NumFields())
	for i, f := range schema.Fields() {
		switch f.Type.ID() {
		case arrow.INT64:
			bl := array.NewInt64Builder(c30Mem)
			for r := 0; r < b.rows; r++ {
				bl.Append(int64(b.seed)*1000003 + int64(r))
			}
			cols[i] = bl.NewArray()
			bl.Release()
		case arrow.UINT64:
			bl := array.NewUint64Builder(c30Mem)
			rg := NewRng(uint64(b.seed)*7919 + 13)
			for r := 0; r < b.rows; r++ {
				bl.Append(rg.U64())
			}
			cols[i] = bl.NewArray()
			bl.Release()
		case arrow.STRING:
			bl := array.NewStringBuilder(c30Mem)
			for r := 0; r < b.rows; r++ {
				bl.Append(fmt.Sprintf("s%d-%d-é", b.seed, r))
			}
			cols[i] = bl.NewArray()
			bl.Release()
		case arrow.FLOAT64:
			bl := array.NewFloat64Builder(c30Mem)
			for r := 0; r < b.rows; r++ {
				if r%5 == 4 {
					bl.AppendNull()
				} else {
					bl.Append(float64(b.seed) + float64(r)/2)
				}
			}
			cols[i] = bl.NewArray()
			bl.Release()
		case arrow.BOOL:
			bl := array.NewBooleanBuilder(c30Mem)
			for r := 0; r < b.rows; r++ {
				bl.Append((r+b.seed)%2 == 0)
			}
			cols[i] = bl.NewArray()
			bl.Release()
		default:
			panic("unsupported type")
		}
	}
	var rec arrow.RecordBatch
	if len(b.meta) > 0 {
		var k, v []string
		for _, p := range b.meta {
			k = append(k, p[0])
			v = append(v, p[1])
		}
		rec = array.NewRecordBatchWithMetadata(schema, cols, int64(b.rows), arrow.NewMetadata(k, v))
	} else {
		rec = array.NewRecordBatch(schema, cols, int64(b.rows))
	}
	for _, c := range cols {
		c.Release()
	}
	return rec
}

func c30CustomMeta(rec arrow.RecordBatch) arrow.Metadata {
	if rb, ok := rec.(arrow.RecordBatchWithMetadata); ok {
		return rb.Metadata()
	}
	return arrow.Metadata{}
}

func c30SchemaID(s *arrow.Schema) uint32 {
	h := fnv.New32a()
	h.Write([]byte(s.String()))
	return h.Sum32() % 1000000
}

// c30View is the model's view of a batch: schema id, rows, fingerprint of the values, custom metadata.
func c30View(rec arrow.RecordBatch) string {
	h := sha256.New()
	for i := 0; i < int(rec.NumCols()); i++ {
		fmt.Fprintf(h, "%d|%s|", i, rec.Column(i).String())
	}
	md := c30CustomMeta(rec)
	return fmt.Sprintf("%d:%d:%s:%s", c30SchemaID(rec.Schema()), rec.NumRows(), hex.EncodeToString(h.Sum(nil)[:8]), c30ShowMeta(md.Keys(), md.Values()))
}

// c30Decode is the reference decoding of a fetched body: what an Arrow IPC stream reader yields.
func c30Decode(data []byte) (views []string, recs []arrow.RecordBatch, ok bool) {
	defer func() {
		if r := recover(); r != nil {
			ok = false
		}
	}()
	rd, err := ipc.NewReader(bytes.NewReader(data), ipc.WithAllocator(c30Mem))
	if err != nil {
		return nil, nil, false
	}
	defer rd.Release()
	for rd.Next() {
		rec := rd.RecordBatch()
		rec.Retain()
		recs = append(recs, rec)
		views = append(views, c30View(rec))
	}
	return views, recs, true
}

func c30IsLog(rec arrow.RecordBatch) bool {
	return rec.NumRows() == 0 && c30CustomMeta(rec).FindKey(vgirpc.MetaLogLevel) >= 0
}

func c30IsPtr(rec arrow.RecordBatch) bool {
	return rec.NumRows() == 0 && c30CustomMeta(rec).FindKey(vgirpc.MetaLocation) >= 0 && !c30IsLog(rec)
}

func c30SameBatch(a, b arrow.RecordBatch) bool {
	if !a.Schema().Equal(b.Schema()) || !a.Schema().Metadata().Equal(b.Schema().Metadata()) {
		return false
	}
	if a.NumRows() != b.NumRows() || !array.RecordEqual(a, b) {
		return false
	}
	ma, mb := c30CustomMeta(a), c30CustomMeta(b)
	return c30ShowMeta(ma.Keys(), ma.Values()) == c30ShowMeta(mb.Keys(), mb.Values())
}

// ---------------------------------------------------------------- origin + storage

type c30Object struct {
	body   []byte
	enc    string
	status int
}

var (
	c30Once    sync.Once
	c30Srv     *httptest.Server
	c30Objects sync.Map // path -> c30Object
	c30Seq     int64
	c30SeqMu   sync.Mutex
)

func c30Origin() *httptest.Server {
	c30Once.Do(func() {
		c30Srv = httptest.NewTLSServer(http.HandlerFunc(func(w http.ResponseWriter, r *http.Request) {
			v, ok := c30Objects.Load(r.URL.Path)
			if !ok {
				w.WriteHeader(404)
				return
			}
			o := v.(c30Object)
			if o.enc != "" {
				w.Header().Set("Content-Encoding", o.enc)
			}
			if o.status != 0 && o.status != 200 {
				w.WriteHeader(o.status)
				return
			}
			w.Write(o.body)
		}))
	})
	return c30Srv
}

func c30NewPath() string {
	c30SeqMu.Lock()
	defer c30SeqMu.Unlock()
	c30Seq++
	return fmt.Sprintf("/o/%d", c30Seq)
}

type c30Storage struct {
	fail    bool
	retain  bool // keep the very slice that was handed over (like an in-memory backend), no copy
	uploads []c30Object
	url     string
}

// c30Hist: set while a `hist` line runs — one retaining storage shared by all its externalizations.
var c30Hist *c30Storage

func (s *c30Storage) Upload(data []byte, schema *arrow.Schema, enc string) (string, error) {
	body := data
	if !s.retain {
		body = append([]byte(nil), data...)
	}
	s.uploads = append(s.uploads, c30Object{body: body, enc: enc})
	if s.fail {
		return "", fmt.Errorf("storage unavailable")
	}
	s.url = c30Origin().URL + c30NewPath()
	return s.url, nil
}

var (
	c30ZMu  sync.Mutex
	c30ZDec *zstd.Decoder
	c30ZEnc *zstd.Encoder
)

func c30Zdec(b []byte) ([]byte, bool) {
	c30ZMu.Lock()
	defer c30ZMu.Unlock()
	if c30ZDec == nil {
		d, err := zstd.NewReader(nil, zstd.WithDecoderConcurrency(1))
		if err != nil {
			return nil, false
		}
		c30ZDec = d
	}
	out, err := c30ZDec.DecodeAll(b, nil)
	return out, err == nil
}

func c30Zenc(b []byte) []byte {
	c30ZMu.Lock()
	defer c30ZMu.Unlock()
	if c30ZEnc == nil {
		c30ZEnc, _ = zstd.NewWriter(nil, zstd.WithEncoderConcurrency(1))
	}
	return c30ZEnc.EncodeAll(b, nil)
}

func c30Sha(b []byte) string { h := sha256.Sum256(b); return hex.EncodeToString(h[:]) }

func c30Tamper(mode string, raw []byte) []byte {
	out := append([]byte(nil), raw...)
	switch {
	case mode == "none":
	case mode == "garbage":
		// a well-framed message (continuation marker, small length) whose flatbuffer is junk.
		// (Arbitrary bytes are not used: a corrupted length or vector count inside the Arrow
		// framing makes the Arrow reader attempt multi-GB allocations, which is about the
		// library, not about this property.)
		out = append([]byte{0xff, 0xff, 0xff, 0xff, 0x10, 0, 0, 0}, bytes.Repeat([]byte{0}, 16)...)
	case mode == "empty":
		out = []byte{}
	case mode == "flip:eos":
		// low byte of the end-of-stream length: same batches, then a framing error the walk ignores
		if len(out) >= 8 {
			out[len(out)-4] ^= 0x5a
		}
	case mode == "flip:tail":
		// last byte of the last record-batch body (value bytes or padding); generator only uses it
		// when the last batch has rows
		if len(out) >= 9 {
			out[len(out)-9] ^= 0x5a
		}
	case mode == "append":
		out = append(out, 0xff, 0xff, 0xff, 0xff, 0, 0, 0, 0)
	case strings.HasPrefix(mode, "trunc:"):
		p, _ := strconv.Atoi(mode[6:])
		out = out[:len(out)*p/1000]
	default:
		panic("bad tamper " + mode)
	}
	return out
}

// ---------------------------------------------------------------- exec

func c30KV(fields []string) map[string]string {
	m := map[string]string{}
	for _, f := range fields {
		if i := strings.IndexByte(f, '='); i > 0 {
			m[f[:i]] = f[i+1:]
		}
	}
	return m
}

func c30ResErrClass(err error) string {
	s := err.Error()
	switch {
	case strings.Contains(s, "missing URL"):
		return "err:missing-url"
	case strings.HasPrefix(s, "URL rejected by validator"):
		return "err:validator"
	case strings.HasPrefix(s, "fetching external data"):
		return "err:fetch"
	case strings.Contains(s, "checksum mismatch"):
		return "err:checksum"
	case strings.HasPrefix(s, "parsing external IPC data"):
		return "err:parse"
	case strings.Contains(s, "redirect loop"):
		return "err:loop"
	case strings.Contains(s, "no data batch"):
		return "err:nodata"
	}
	return "err:other"
}

func c30Validator(kind string) func(string) error {
	switch kind {
	case "nil":
		return nil
	case "ok":
		return func(string) error { return nil }
	case "rej":
		return func(string) error { return fmt.Errorf("not on the allow list") }
	case "https":
		return vgirpc.HTTPSOnlyValidator
	}
	panic("bad validator " + kind)
}

func c30ValToken(kind, url string) string {
	v := c30Validator(kind)
	if v == nil {
		return "nil"
	}
	if v(url) == nil {
		return "ok"
	}
	return "rej"
}

// c30Caps: MaxFetchBytes / MaxDecompressedBytes for the next resolve (0 = default); set by rt lines.
var c30Caps [2]int64

func c30ResCfg(val string) *vgirpc.ExternalLocationConfig {
	return &vgirpc.ExternalLocationConfig{
		MaxFetchBytes:        c30Caps[0],
		MaxDecompressedBytes: c30Caps[1],
		URLValidator: c30Validator(val),
		HTTPClient:   c30Origin().Client(),
		MaxRetries:   1,
		RetryDelay:   time.Nanosecond,
	}
}

// c30DoExt runs externalization and emits the `ext` line. Returns the pointer (or nil), its
// metadata, the storage and the original batch.
func c30DoExt(c *Case, kv map[string]string) (ptr arrow.RecordBatch, ptrMeta arrow.Metadata, st *c30Storage, orig arrow.RecordBatch) {
	bd := c30ParseBatch(kv["b"])
	orig = c30Build(bd, c30Schema(bd.kind))
	buf := vgirpc.VerifC30BatchBufferSize(orig)
	// the harness's own reading of the buffer size (sum of the column buffers)
	var own int64
	for i := 0; i < int(orig.NumCols()); i++ {
		for _, b := range orig.Column(i).Data().Buffers() {
			if b != nil {
				own += int64(b.Len())
			}
		}
	}
	if own != buf {
		c.Oracle("buffer-size-not-sum-of-buffers", fmt.Sprintf("batchBufferSize=%d, column buffers sum to %d", buf, own))
	}
	var thr int64
	switch t := kv["thr"]; {
	case strings.HasPrefix(t, "abs:"):
		thr, _ = strconv.ParseInt(t[4:], 10, 64)
	case strings.HasPrefix(t, "rel:"):
		k, _ := strconv.ParseInt(t[4:], 10, 64)
		thr = buf + k
	default:
		panic("bad thr")
	}
	level, _ := strconv.Atoi(kv["level"])
	st = &c30Storage{fail: kv["upfail"] == "1"}
	if c30Hist != nil {
		st = c30Hist
	}
	uploadsBefore := len(st.uploads)
	var cfg *vgirpc.ExternalLocationConfig
	if kv["cfg"] == "1" {
		cfg = &vgirpc.ExternalLocationConfig{ExternalizeThresholdBytes: thr}
		if kv["storage"] == "1" {
			cfg.Storage = st
		}
		if kv["alg"] != "-" {
			cfg.Compression = &vgirpc.Compression{Algorithm: kv["alg"], Level: level}
		}
	}
	out, outMeta, charged, err := vgirpc.VerifC30Externalize(orig, arrow.Metadata{}, cfg)

	// environment values for the model: the raw bytes that were (or would have been) uploaded
	rawlen, sha, dataKind := 0, "", "none"
	var up *c30Object
	if len(st.uploads) > uploadsBefore {
		up = &st.uploads[len(st.uploads)-1]
		payload, ok := up.body, true
		if up.enc == "zstd" {
			payload, ok = c30Zdec(up.body)
			dataKind = "zenc"
		} else {
			dataKind = "raw"
		}
		if ok {
			rawlen, sha = len(payload), c30Sha(payload)
			_, recs, pok := c30Decode(payload)
			if !pok || len(recs) != 1 || !c30SameBatch(recs[0], orig) {
				dataKind = "other"
				c.Oracle("upload-not-original", fmt.Sprintf("%s: the uploaded object does not decode to exactly the original batch", kv["b"]))
			}
		} else {
			dataKind = "other"
			c.Oracle("upload-not-original", "uploaded object tagged zstd does not decompress")
		}
	}
	algTok := "-"
	if kv["alg"] != "-" {
		algTok = hex.EncodeToString([]byte(kv["alg"]))
	}
	urlTok := "!"
	if st.url != "" {
		urlTok = hex.EncodeToString([]byte(st.url))
	}
	modelLine := fmt.Sprintf("ext cfg=%s storage=%s thr=%d alg=%s level=%d rows=%d buf=%d rawlen=%d sha=%s url=%s",
		kv["cfg"], kv["storage"], thr, algTok, level, orig.NumRows(), buf, rawlen, hex.EncodeToString([]byte(sha)), urlTok)

	upDesc := func() string {
		if up == nil {
			return "enc= data=none"
		}
		return fmt.Sprintf("enc=%s data=%s", hex.EncodeToString([]byte(up.enc)), dataKind)
	}
	effThr := thr
	if effThr <= 0 {
		effThr = 1_048_576
	}
	shouldExt := cfg != nil && cfg.Storage != nil && orig.NumRows() > 0 && buf >= effThr
	switch {
	case err != nil:
		s := err.Error()
		switch {
		case strings.Contains(s, "creating zstd encoder"):
			c.Stat("ext-err-encoder")
			c.Out(modelLine, "err:encoder")
		case strings.Contains(s, "uploading to external storage"):
			c.Stat("ext-err-upload")
			c.Out(modelLine, "err:upload "+upDesc())
		default:
			c.Out(modelLine, "err:other")
		}
		if out != orig {
			c.Oracle("error-does-not-return-original", "externalization failed but did not hand back the original batch")
		}
	case out == orig:
		c.Stat("ext-inline")
		c.Out(modelLine, "inline")
		if charged != 0 || len(st.uploads) != uploadsBefore {
			c.Oracle("inline-but-uploaded", fmt.Sprintf("batch returned inline, charged=%d uploads=%d", charged, len(st.uploads)-uploadsBefore))
		}
		if shouldExt {
			c.Oracle("inline-at-or-above-threshold", fmt.Sprintf("buf=%d threshold=%d rows=%d stayed inline", buf, effThr, orig.NumRows()))
		}
	default:
		c.Stat("ext-pointer-" + dataKind)
		c.Out(modelLine, fmt.Sprintf("ptr meta=%s charged=%d %s", c30ShowMeta(outMeta.Keys(), outMeta.Values()), charged, upDesc()))
		if !shouldExt {
			c.Oracle("externalized-below-threshold", fmt.Sprintf("buf=%d threshold=%d rows=%d was externalized", buf, effThr, orig.NumRows()))
		}
		if out.NumRows() != 0 || !out.Schema().Equal(orig.Schema()) || !out.Schema().Metadata().Equal(orig.Schema().Metadata()) {
			c.Oracle("pointer-shape", "pointer batch is not a zero-row batch of the original schema")
		}
		if !vgirpc.IsExternalLocationBatch(out, outMeta) {
			c.Oracle("pointer-shape", "returned pointer is not recognised by IsExternalLocationBatch")
		}
		if i := outMeta.FindKey(vgirpc.MetaLocationSHA256); i < 0 || outMeta.Values()[i] != sha {
			c.Oracle("checksum-not-of-raw-ipc", "pointer checksum is not the SHA-256 of the raw (pre-compression) IPC bytes")
		}
		if charged != int64(rawlen) {
			c.Oracle("charged-not-raw-size", fmt.Sprintf("charged %d, raw IPC size %d", charged, rawlen))
		}
		ptr, ptrMeta = out, outMeta
	}
	return ptr, ptrMeta, st, orig
}

func c30ShaMode(mode, good string, keys, vals []string) ([]string, []string) {
	// drop any existing checksum entry first
	var k2, v2 []string
	for i := range keys {
		if keys[i] != vgirpc.MetaLocationSHA256 {
			k2 = append(k2, keys[i])
			v2 = append(v2, vals[i])
		}
	}
	switch mode {
	case "none":
	case "good":
		k2, v2 = append(k2, vgirpc.MetaLocationSHA256), append(v2, good)
	case "wrong":
		b := []byte(good)
		if b[0] == '0' {
			b[0] = '1'
		} else {
			b[0] = '0'
		}
		k2, v2 = append(k2, vgirpc.MetaLocationSHA256), append(v2, string(b))
	case "upper":
		k2, v2 = append(k2, vgirpc.MetaLocationSHA256), append(v2, strings.ToUpper(good))
	case "empty":
		k2, v2 = append(k2, vgirpc.MetaLocationSHA256), append(v2, "")
	default:
		panic("bad sha mode " + mode)
	}
	return k2, v2
}

// c30DoRes serves `served` (already encoded per enc) and resolves the pointer (rows, meta).
// decoded/decodedOK is the harness's own decoding of what a faithful fetch returns.
func c30DoRes(c *Case, cfgOn bool, val string, ptr arrow.RecordBatch, pm arrow.Metadata, url string, fetchOK bool, decoded []byte, orig arrow.RecordBatch, tampered bool) {
	views, recs, pok := c30Decode(decoded)
	parse := "none"
	if pok {
		parse = "-"
		if len(views) > 0 {
			parse = strings.Join(views, ";")
		}
	}
	fetchTok := "err"
	if fetchOK {
		fetchTok = "ok"
	} else {
		parse = "none"
	}
	cfgTok := "0"
	var cfg *vgirpc.ExternalLocationConfig
	if cfgOn {
		cfgTok = "1"
		cfg = c30ResCfg(val)
	}
	digest := c30Sha(decoded)
	modelLine := fmt.Sprintf("res cfg=%s val=%s rows=%d meta=%s fetch=%s digest=%s parse=%s",
		cfgTok, c30ValToken(val, url), ptr.NumRows(), c30ShowMeta(pm.Keys(), pm.Values()), fetchTok, hex.EncodeToString([]byte(digest)), parse)

	got, gotMeta, err := vgirpc.ResolveExternalLocation(ptr, pm, cfg)
	_ = gotMeta
	nData, nPtr := 0, 0
	for _, r := range recs {
		if c30IsPtr(r) {
			nPtr++
		} else if !c30IsLog(r) {
			nData++
		}
	}
	switch {
	case err != nil:
		cl := c30ResErrClass(err)
		c.Stat("res-" + cl)
		c.Out(modelLine, cl)
		if got != ptr {
			c.Oracle("error-does-not-return-input", "resolution failed but did not hand back the input batch")
		}
		// completeness: a clean, validated, checksum-consistent stream with exactly one data batch must resolve
		if cfgOn && vgirpc.IsExternalLocationBatch(ptr, pm) && fetchOK && pok && nPtr == 0 && nData == 1 && c30ValToken(val, url) != "rej" {
			shaOK := true
			if i := pm.FindKey(vgirpc.MetaLocationSHA256); i >= 0 && pm.Values()[i] != digest {
				shaOK = false
			}
			if shaOK && url != "" {
				c.Oracle("data-not-resolved", fmt.Sprintf("stream with exactly one data batch and no pointer was refused: %v", err))
			}
		}
	case got == ptr:
		c.Stat("res-pass")
		c.Out(modelLine, "pass")
		if cfgOn && vgirpc.IsExternalLocationBatch(ptr, pm) {
			c.Oracle("pointer-passed-through", "a pointer batch was returned unresolved without an error")
		}
	default:
		c.Stat("res-ok")
		v := c30View(got)
		if nData >= 2 {
			c.Out(modelLine, "ok one-of-several-data")
		} else {
			c.Out(modelLine, "ok "+v)
		}
		// the property, directly on the real result
		if c30IsLog(got) {
			c.Oracle("log-returned-as-data", fmt.Sprintf("resolved batch is a log batch of the fetched stream (%s)", v))
		}
		if c30IsPtr(got) {
			c.Oracle("pointer-returned-as-data", fmt.Sprintf("resolved batch is itself a pointer (%s)", v))
		}
		if nPtr > 0 {
			c.Oracle("nested-pointer-not-refused", "the fetched stream contains a pointer batch but resolution succeeded")
		}
		found := false
		for _, r := range recs {
			if c30SameBatch(r, got) {
				found = true
			}
		}
		if !found {
			c.Oracle("returned-batch-not-in-stream", "resolved batch is not one of the batches of the fetched stream")
		}
		if i := pm.FindKey(vgirpc.MetaLocationSHA256); i >= 0 && pm.Values()[i] != digest {
			c.Oracle("checksum-mismatch-accepted", "pointer checksum differs from the SHA-256 of the download, yet a batch was returned")
		}
		if orig != nil {
			if tampered && pm.FindKey(vgirpc.MetaLocationSHA256) >= 0 {
				c.Oracle("tampered-download-accepted", "the download differs from the upload and the pointer has a checksum, yet a batch was returned")
			}
			if !tampered && !c30SameBatch(got, orig) {
				if c30Hist != nil {
					c.Oracle("resolved-data-of-another-upload", fmt.Sprintf("resolved %s, but this pointer was made for %s", v, c30View(orig)))
				} else {
					c.Oracle("roundtrip-not-equal", fmt.Sprintf("resolved %s, original %s", v, c30View(orig)))
				}
			}
		}
		got.Release()
	}
	shaConsistent := true
	if i := pm.FindKey(vgirpc.MetaLocationSHA256); i >= 0 && pm.Values()[i] != digest {
		shaConsistent = false
	}
	if orig != nil && !tampered && shaConsistent && err != nil && cfgOn && c30ValToken(val, url) != "rej" && fetchOK {
		c.Oracle("roundtrip-refused", fmt.Sprintf("untampered externalized batch failed to resolve: %v", err))
	}
	if c30Hist != nil && orig != nil && err != nil {
		// the storage is honest (it serves the object it was given, under its encoding): every pointer must resolve
		cl := "pointer-of-honest-storage-refused"
		if c30ResErrClass(err) == "err:checksum" {
			cl = "checksum-mismatch-on-honest-storage"
		}
		c.Oracle(cl, fmt.Sprintf("an object stored by a slice-retaining backend no longer resolves: %v", err))
	}
	for _, r := range recs {
		r.Release()
	}
}

func c30Exec(c *Case) {
	for _, l := range c.Lines {
		f := strings.Fields(l)
		if len(f) == 0 {
			continue
		}
		kv := c30KV(f[1:])
		switch f[0] {
		case "ext":
			ptr, _, _, orig := c30DoExt(c, kv)
			if ptr != nil {
				ptr.Release()
			}
			orig.Release()
		case "rt":
			ptr, pm, st, orig := c30DoExt(c, kv)
			if ptr == nil {
				orig.Release()
				continue
			}
			up := st.uploads[0]
			raw, ok := up.body, true
			if up.enc == "zstd" {
				raw, ok = c30Zdec(up.body)
			}
			if !ok {
				orig.Release()
				continue
			}
			tam := c30Tamper(kv["tamper"], raw)
			served := tam
			if up.enc == "zstd" {
				served = c30Zenc(tam)
			}
			path := strings.TrimPrefix(st.url, c30Origin().URL)
			c30Objects.Store(path, c30Object{body: served, enc: up.enc})
			keys, vals := pm.Keys(), pm.Values()
			if kv["sha"] != "keep" {
				keys, vals = c30ShaMode(kv["sha"], c30Sha(raw), keys, vals)
			}
			pm2 := arrow.NewMetadata(keys, vals)
			// the two caps, independently: e+K = stored (encoded) size + K, r+K = raw IPC size + K
			capOf := func(tok string) int64 {
				switch {
				case strings.HasPrefix(tok, "e"):
					k, _ := strconv.ParseInt(tok[1:], 10, 64)
					return int64(len(served)) + k
				case strings.HasPrefix(tok, "r"):
					k, _ := strconv.ParseInt(tok[1:], 10, 64)
					return int64(len(tam)) + k
				}
				return 0
			}
			c30Caps = [2]int64{capOf(kv["mf"]), capOf(kv["md"])}
			// would a faithful fetch under these caps hand the body on? (environment, by the documented rule)
			mfEff, mdEff := c30Caps[0], c30Caps[1]
			if mfEff <= 0 {
				mfEff = 256 << 20
			}
			if mdEff <= 0 {
				mdEff = 4 << 30
			}
			fetchOK := int64(len(served)) <= mfEff
			if up.enc == "zstd" {
				win := int64(len(tam))
				if win < 1024 {
					win = 1024
				}
				fetchOK = fetchOK && int64(len(tam)) <= mdEff && win <= mdEff
			}
			if c30Caps != [2]int64{} {
				c.Stat(fmt.Sprintf("rt-caps-fetch-%v", fetchOK))
			}
			c30DoRes(c, true, kv["val"], ptr, pm2, st.url, fetchOK, tam, orig, !bytes.Equal(tam, raw))
			c30Caps = [2]int64{}
			c30Objects.Delete(path)
			ptr.Release()
			orig.Release()
		case "hist":
			// externalize every item into ONE storage that retains the slices it is given, then resolve
			// all pointers in the given order; each must yield its own original
			st := &c30Storage{retain: true}
			c30Hist = st
			type item struct {
				ptr  arrow.RecordBatch
				pm   arrow.Metadata
				orig arrow.RecordBatch
				up   int
				url  string
			}
			var items []item
			for _, b := range strings.Split(kv["items"], "|") {
				kvi := map[string]string{"cfg": "1", "storage": "1", "thr": "abs:1", "alg": kv["alg"], "level": kv["level"], "upfail": "0", "b": b}
				ptr, pm, _, orig := c30DoExt(c, kvi)
				if ptr == nil {
					orig.Release()
					continue
				}
				items = append(items, item{ptr, pm, orig, len(st.uploads) - 1, st.url})
			}
			for _, tok := range strings.Split(kv["order"], ",") {
				i, err := strconv.Atoi(tok)
				if err != nil || i < 0 || i >= len(items) {
					continue
				}
				it := items[i]
				obj := st.uploads[it.up] // the retained slice as it is NOW
				decoded, fetchOK := obj.body, true
				if obj.enc == "zstd" {
					decoded, fetchOK = c30Zdec(obj.body)
				}
				path := strings.TrimPrefix(it.url, c30Origin().URL)
				c30Objects.Store(path, c30Object{body: obj.body, enc: obj.enc})
				c30DoRes(c, true, "ok", it.ptr, it.pm, it.url, fetchOK, decoded, it.orig, false)
				c30Objects.Delete(path)
			}
			for _, it := range items {
				it.ptr.Release()
				it.orig.Release()
			}
			c30Hist = nil
		case "res":
			kind, _ := strconv.Atoi(kv["schema"])
			schema := c30Schema(kind)
			var buf bytes.Buffer
			w := ipc.NewWriter(&buf, ipc.WithSchema(schema), ipc.WithAllocator(c30Mem))
			if kv["stream"] != "-" {
				for _, bs := range strings.Split(kv["stream"], ";") {
					rec := c30Build(c30ParseBatch(bs), schema)
					if err := w.Write(rec); err != nil {
						panic(err)
					}
					rec.Release()
				}
			}
			w.Close()
			raw := buf.Bytes()
			tam := c30Tamper(kv["tamper"], raw)
			served, enc, fetchOK := tam, "", true
			switch kv["enc"] {
			case "zstd":
				served, enc = c30Zenc(tam), "zstd"
			case "zcorrupt": // tagged zstd, body is not zstd
				enc, fetchOK = "zstd", false
				if _, ok := c30Zdec(tam); ok {
					fetchOK = true
				}
			}
			status, _ := strconv.Atoi(kv["status"])
			if status != 200 {
				fetchOK = false
			}
			path := c30NewPath()
			c30Objects.Store(path, c30Object{body: served, enc: enc, status: status})
			url := c30Origin().URL + path
			if kv["scheme"] == "http" {
				url = "http://" + strings.TrimPrefix(url, "https://")
				fetchOK = false // a TLS origin does not answer plaintext requests with 200
			}
			prows, _ := strconv.Atoi(kv["prows"])
			ptr := c30Build(c30Batch{kind: kind, rows: prows, seed: 77}, schema)
			var keys, vals []string
			for _, p := range c30ParseMeta(kv["pmeta"]) {
				k, v := p[0], p[1]
				if k == vgirpc.MetaLocation && v == "@" {
					v = url
				}
				keys, vals = append(keys, k), append(vals, v)
			}
			keys, vals = c30ShaMode(kv["sha"], c30Sha(raw), keys, vals)
			pm := arrow.NewMetadata(keys, vals)
			loc := ""
			if i := pm.FindKey(vgirpc.MetaLocation); i >= 0 {
				loc = pm.Values()[i]
			}
			if loc != url {
				fetchOK = fetchOK && false
			}
			c30DoRes(c, kv["cfg"] == "1", kv["val"], ptr, pm, loc, fetchOK, tam, nil, false)
			c30Objects.Delete(path)
			ptr.Release()
		default:
			c.Out(l, "err:bad-op")
		}
	}
}

// ---------------------------------------------------------------- generation

func c30Hex(s string) string { return hex.EncodeToString([]byte(s)) }

func c30GenMeta(r *Rng, flavour string) string {
	var parts []string
	add := func(k, v string) { parts = append(parts, c30Hex(k)+"="+c30Hex(v)) }
	switch flavour {
	case "log":
		add(vgirpc.MetaLogLevel, Pick(r, []string{"INFO", "EXCEPTION", "DEBUG", ""}))
		if r.Bool() {
			add(vgirpc.MetaLogMessage, "after the data")
		}
	case "ptr":
		add(vgirpc.MetaLocation, Pick(r, []string{"https://elsewhere.example/next", "https://127.0.0.1:1/x", ""}))
		if r.Bool() {
			add(vgirpc.MetaLocationSHA256, strings.Repeat("ab", 32))
		}
	case "logptr":
		if r.Bool() {
			add(vgirpc.MetaLogLevel, "INFO")
			add(vgirpc.MetaLocation, "https://elsewhere.example/next")
		} else {
			add(vgirpc.MetaLocation, "https://elsewhere.example/next")
			add(vgirpc.MetaLogLevel, "INFO")
		}
	case "app":
		n := r.Range(1, 3)
		for i := 0; i < n; i++ {
			add(Pick(r, []string{"vgi_batch_index", "k", "vgi_rpc.request_id", "dup", "dup", "ключ"}), Pick(r, []string{"0", "v", "", "значение", "x=y,z"}))
		}
	case "none":
	}
	if len(parts) == 0 {
		return "-"
	}
	return strings.Join(parts, ",")
}

// c30GenStreamBatch draws one batch of a fetched stream by flavour.
func c30GenStreamBatch(r *Rng, kind int, flavour string) string {
	seed := r.Range(1, 999)
	switch flavour {
	case "data":
		return fmt.Sprintf("%d/%d/%d/%s", kind, r.Range(1, 6), seed, c30GenMeta(r, Pick(r, []string{"none", "none", "app"})))
	case "empty": // zero rows, no marker: an (empty) data batch
		return fmt.Sprintf("%d/0/%d/%s", kind, seed, c30GenMeta(r, Pick(r, []string{"none", "app"})))
	case "log":
		return fmt.Sprintf("%d/0/%d/%s", kind, seed, c30GenMeta(r, "log"))
	case "ptr":
		return fmt.Sprintf("%d/0/%d/%s", kind, seed, c30GenMeta(r, "ptr"))
	case "logptr": // zero rows with both keys: a log
		return fmt.Sprintf("%d/0/%d/%s", kind, seed, c30GenMeta(r, "logptr"))
	case "oddlog": // rows > 0 carrying the log key: data
		return fmt.Sprintf("%d/%d/%d/%s", kind, r.Range(1, 4), seed, c30GenMeta(r, "log"))
	case "oddptr": // rows > 0 carrying the location key: data
		return fmt.Sprintf("%d/%d/%d/%s", kind, r.Range(1, 4), seed, c30GenMeta(r, "ptr"))
	}
	panic("flavour")
}

var c30Flavours = []string{"data", "log", "ptr", "empty", "oddlog", "logptr", "oddptr"}

func c30ResLine(r *Rng, kind int, stream []string, opts map[string]string) string {
	get := func(k, d string) string {
		if v, ok := opts[k]; ok {
			return v
		}
		return d
	}
	s := "-"
	if len(stream) > 0 {
		s = strings.Join(stream, ";")
	}
	pmeta := get("pmeta", c30Hex(vgirpc.MetaLocation)+"="+c30Hex("@"))
	return fmt.Sprintf("res cfg=%s val=%s prows=%s pmeta=%s sha=%s scheme=%s status=%s enc=%s tamper=%s schema=%d stream=%s",
		get("cfg", "1"), get("val", "ok"), get("prows", "0"), pmeta, get("sha", "good"), get("scheme", "https"),
		get("status", "200"), get("enc", "plain"), get("tamper", "none"), kind, s)
}

func c30ExtArgs(r *Rng) string {
	kind := r.Intn(6)
	rows := Pick(r, []int{0, 1, 1, 2, 3, 7, 16, 64, 257})
	meta := c30GenMeta(r, Pick(r, []string{"none", "none", "app", "app", "log", "ptr", "logptr"}))
	thr := Pick(r, []string{"rel:0", "rel:0", "rel:-1", "rel:1", "rel:-8", "abs:1", "abs:0", "abs:-5", "abs:64", "abs:1048576"})
	alg, level := "-", 0
	// (zstd.NewWriter inside externalizeBatchCtx costs ~0.1 s per call on a many-core box, so the
	// compressed share is kept moderate)
	switch r.Intn(8) {
	case 0:
		alg, level = "zstd", Pick(r, []int{0, 1, 2, 3, 4, 5, 22, -1})
	case 1:
		alg, level = Pick(r, []string{"gzip", "ZSTD", "zstd ", "none"}), Pick(r, []int{0, 3, 9})
	}
	cfg, storage, upfail := "1", "1", "0"
	switch r.Intn(20) {
	case 0:
		cfg = "0"
	case 1:
		storage = "0"
	case 2:
		upfail = "1"
	}
	return fmt.Sprintf("cfg=%s storage=%s thr=%s alg=%s level=%d upfail=%s b=%d/%d/%d/%s", cfg, storage, thr, alg, level, upfail, kind, rows, r.Range(1, 999), meta)
}

func c30Gen(g *Gen) {
	r := g.Rng
	tampers := []string{"none", "none", "none", "flip:eos", "flip:eos", "flip:tail", "append", "trunc:0", "trunc:500", "trunc:990", "trunc:900", "trunc:200", "garbage", "empty"}

	// (a) write path around the threshold
	for i := 0; i < g.N(120, 1500); i++ {
		g.Case("ext " + c30ExtArgs(r))
	}
	// one default-threshold (1 MiB) case on each side
	g.Case("ext cfg=1 storage=1 thr=abs:0 alg=- level=0 upfail=0 b=0/131072/5/-")
	g.Case("ext cfg=1 storage=1 thr=abs:-1 alg=zstd level=1 upfail=0 b=0/131071/5/-")

	// (b) full round trips
	for i := 0; i < g.N(200, 3000); i++ {
		args := c30ExtArgs(r)
		// make most of them actually externalize
		if r.Chance(80) {
			args = strings.Replace(args, "cfg=0", "cfg=1", 1)
			args = strings.Replace(args, "storage=0", "storage=1", 1)
		}
		g.Case(fmt.Sprintf("rt %s val=%s tamper=%s sha=%s", args, Pick(r, []string{"nil", "ok", "ok", "https", "rej"}),
			Pick(r, tampers), Pick(r, []string{"keep", "keep", "keep", "good", "none", "wrong", "upper", "empty"})))
	}

	// (b') incompressible (high-entropy) batches at/above the threshold WITH compression: zstd cannot
	// shrink them; whatever is uploaded must still decode, under the encoding it is tagged with, to
	// the original batch
	for i := 0; i < g.N(24, 300); i++ {
		rows := Pick(r, []int{64, 200, 1000, 1000, 2000, 4096, 4096, 20000})
		if !g.Thorough() && rows > 4096 && r.Chance(70) {
			rows = 512
		}
		g.Case(fmt.Sprintf("rt cfg=1 storage=1 thr=%s alg=zstd level=%d upfail=0 b=6/%d/%d/%s val=%s tamper=none sha=keep",
			Pick(r, []string{"rel:0", "rel:-8", "abs:1", "abs:64"}), Pick(r, []int{0, 1, 2, 3, 4}), rows, r.Range(1, 999),
			c30GenMeta(r, Pick(r, []string{"none", "none", "app"})), Pick(r, []string{"nil", "ok", "https"})))
	}
	// (b'') the two size caps of the resolving side varied independently around the stored (encoded)
	// and the raw size of a compressible batch: the encoded body is checked against MaxFetchBytes,
	// the decoded payload against MaxDecompressedBytes — in particular  stored <= MaxFetchBytes < raw
	// <= MaxDecompressedBytes must resolve
	for i := 0; i < g.N(30, 300); i++ {
		rows := Pick(r, []int{300, 1000, 2000, 5000})
		alg := "zstd"
		if r.Chance(20) {
			alg = "-"
		}
		mf := Pick(r, []string{"e+0", "e+1", "e+100", "e-1", "r-1", "r+0", "r-100", "e+0", "e+10"})
		md := Pick(r, []string{"r+0", "r+1", "r+1000", "r-1", "r+0", "r+5000", "e+0"})
		g.Case(fmt.Sprintf("rt cfg=1 storage=1 thr=abs:1 alg=%s level=%d upfail=0 b=%d/%d/%d/- val=%s tamper=none sha=keep mf=%s md=%s",
			alg, Pick(r, []int{0, 1, 3}), Pick(r, []int{0, 1, 5}), rows, r.Range(1, 999), Pick(r, []string{"nil", "ok"}), mf, md))
	}
	// (b3) histories: several externalizations into one slice-retaining storage, resolved afterwards
	// in arbitrary order
	for i := 0; i < g.N(40, 400); i++ {
		k := r.Range(2, 6)
		var items, order []string
		for j := 0; j < k; j++ {
			items = append(items, fmt.Sprintf("%d/%d/%d/%s", Pick(r, []int{0, 0, 1, 2, 5, 6}), Pick(r, []int{1, 3, 16, 64, 64, 200, 1000, 3000}), r.Range(1, 999),
				c30GenMeta(r, Pick(r, []string{"none", "none", "app"}))))
			order = append(order, strconv.Itoa(j))
		}
		for j := k - 1; j > 0; j-- {
			x := r.Intn(j + 1)
			order[j], order[x] = order[x], order[j]
		}
		if r.Chance(30) {
			order = append(order, strconv.Itoa(r.Intn(k)))
		}
		alg := "-"
		if r.Chance(20) {
			alg = "zstd"
		}
		g.Case(fmt.Sprintf("hist alg=%s level=%d items=%s order=%s", alg, Pick(r, []int{0, 1, 3}), strings.Join(items, "|"), strings.Join(order, ",")))
	}
	// (b4) large compressible batches (raw IPC of 5 MiB and more) through the zstd round trip at every
	// encoder level: the decoder must cope with whatever window the encoder chose
	{
		lv := Pick(r, []int{0, 2, 3, 4})
		g.Case(fmt.Sprintf("rt cfg=1 storage=1 thr=abs:1 alg=zstd level=%d upfail=0 b=0/%d/%d/- val=ok tamper=none sha=keep", lv, 5*131072+r.Range(1, 5000), r.Range(1, 999)))
		if g.Thorough() {
			for _, rows := range []int{5 * 131072, 9 * 131072, 17 * 131072} {
				for _, level := range []int{0, 1, 2, 3, 4} {
					g.Case(fmt.Sprintf("rt cfg=1 storage=1 thr=abs:1 alg=zstd level=%d upfail=0 b=%d/%d/%d/- val=nil tamper=none sha=keep", level, Pick(r, []int{0, 5}), rows+r.Range(1, 999), r.Range(1, 999)))
				}
			}
		}
	}
	// (c) fetched streams: random arrangements
	for i := 0; i < g.N(300, 4000); i++ {
		kind := r.Intn(6)
		n := r.Range(0, 6)
		var stream []string
		lastHasRows := false
		for k := 0; k < n; k++ {
			fl := Pick(r, c30Flavours)
			if r.Chance(40) {
				fl = Pick(r, []string{"data", "log"})
			}
			stream = append(stream, c30GenStreamBatch(r, kind, fl))
			lastHasRows = fl == "data" || fl == "oddlog" || fl == "oddptr"
		}
		opts := map[string]string{}
		if r.Chance(35) {
			opts["tamper"] = Pick(r, tampers)
			if opts["tamper"] == "flip:tail" && !lastHasRows {
				opts["tamper"] = "flip:eos"
			}
		}
		if r.Chance(40) {
			opts["sha"] = Pick(r, []string{"none", "none", "wrong", "upper", "empty"})
		}
		if r.Chance(30) {
			opts["enc"] = Pick(r, []string{"zstd", "zstd", "zcorrupt"})
		}
		if r.Chance(8) {
			opts["status"] = Pick(r, []string{"404", "500", "403", "204"})
		}
		if r.Chance(15) {
			opts["val"] = Pick(r, []string{"nil", "rej", "https"})
		}
		if r.Chance(5) {
			opts["scheme"] = "http"
			opts["val"] = Pick(r, []string{"https", "rej"})
		}
		if r.Chance(4) {
			opts["cfg"] = "0"
		}
		if r.Chance(6) {
			opts["prows"] = Pick(r, []string{"1", "3"})
		}
		if r.Chance(10) {
			loc := c30Hex(vgirpc.MetaLocation) + "=" + c30Hex("@")
			opts["pmeta"] = Pick(r, []string{
				"-",
				c30Hex(vgirpc.MetaLocation) + "=",
				loc + "," + c30Hex(vgirpc.MetaLogLevel) + "=" + c30Hex("INFO"),
				c30Hex(vgirpc.MetaLogLevel) + "=" + c30Hex("INFO") + "," + loc,
				c30Hex("other") + "=" + c30Hex("x") + "," + loc,
				loc + "," + c30Hex(vgirpc.MetaLocation) + "=" + c30Hex("https://second.example/ignored"),
				c30Hex(vgirpc.MetaLocationSHA256) + "=" + c30Hex("00"),
			})
		}
		g.Case(c30ResLine(r, kind, stream, opts))
	}

	// (d) exhaustive arrangements of the five principal batch kinds
	maxLen := 3
	if g.Thorough() {
		maxLen = 4
	}
	alpha := []string{"data", "log", "ptr", "empty", "oddlog"}
	var rec func(prefix []string, depth int)
	rec = func(prefix []string, depth int) {
		if depth == 0 {
			var stream []string
			for _, fl := range prefix {
				stream = append(stream, c30GenStreamBatch(r, 0, fl))
			}
			g.Case(c30ResLine(r, 0, stream, map[string]string{"sha": Pick(r, []string{"good", "none"})}))
			return
		}
		for _, a := range alpha {
			rec(append(append([]string{}, prefix...), a), depth-1)
		}
	}
	for d := 0; d <= maxLen; d++ {
		rec(nil, d)
	}
}
