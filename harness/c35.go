package main

import (
	"bytes"
	"encoding/binary"
	"fmt"
	"math/big"
	"os"
	"regexp"
	"sort"
	"strconv"
	"strings"

	"github.com/Query-farm/vgi-rpc-go/vgirpc"
	"github.com/apache/arrow-go/v18/arrow"
	"github.com/apache/arrow-go/v18/arrow/array"
)

// C35 — batches written to shared memory read back identically; pointers are safe.
//
// Script ops (one real POSIX segment per case):
//
//	new <dataSize>                     ShmCreate(header + dataSize)
//	write <cols> <rows> <seed>         AllocateAndWrite(batch)        (+ read-back oracle through ReadBatch)
//	mwrite <cols> <rows> <seed> <md>   MaybeWriteToShm(batch with metadata md) -> pointer batch #k
//	resolve <k>                        ResolveShmBatch(pointer #k)    (+ equality oracle)
//	ptr <cols> <rows> <md>             ResolveShmBatch on a hand-made batch whose metadata (incl. the
//	                                   shm_offset / shm_length strings) is <md>, in that order
//	free <off> | reset                 FreeOffset / Reset
//	poke <off> <hex>                   a peer overwrites mapped data bytes
//	skip <hex>                         skipOneIPCMessage(bytes)
//	kind <cols>                        storage-layout discriminator
//
// <cols> grammar: see c35_batches.go. <md> = "-" or xK:xV,... (hex).
//
// Model-line enrichment (environment values only): the batch's complete IPC stream as arrow-go
// serializes it and the capacity estimate on write/mwrite; `dec` = whether arrow-go's reader gets a first batch out of the addressed bytes
// (computed by the harness with big-integer bounds, "na" when the pointer is not a valid in-segment
// range) on resolve/ptr.

const c35MinBatchBytes = 64

func init() {
	// read once by shmMinBatchBytes(); small so that both sides of the threshold are cheap to reach
	os.Setenv("VGI_RPC_SHM_MIN_BATCH_BYTES", strconv.Itoa(c35MinBatchBytes))
	Register(&Prop{
		ID: "C35",
		Rule: "random batches over the type grammar (plain / top-level dictionary / nested dictionary, nulls, 0..40 rows) written to real " +
			"POSIX segments sized around the capacity estimate, interleaved with free/reset/poke; pointer metadata from a grammar of " +
			"offset/length strings (boundaries around segment size, live slots, 2^63, 2^64, wrap-around pairs, signs, spaces, hex, " +
			"unicode digits, empty, duplicates, missing keys); non-trivial = at least one write/mwrite and one resolve/ptr, or a skip; " +
			"distinct = distinct scripts",
		Gen:  c35Gen,
		Exec: c35Exec,
		NonTrivial: func(lines []string) bool {
			w, r, s := false, false, false
			for _, l := range lines {
				switch {
				case strings.HasPrefix(l, "write "), strings.HasPrefix(l, "mwrite "):
					w = true
				case strings.HasPrefix(l, "resolve "), strings.HasPrefix(l, "ptr "):
					r = true
				case strings.HasPrefix(l, "skip "):
					s = true
				}
			}
			return (w && r) || s
		},
	})
}

// ------------------------------------------------------------------ generator

var c35Leaves = []string{"i8", "i16", "i32", "i64", "u8", "u16", "u32", "u64", "f32", "f64", "bool", "str", "bin", "lstr", "lbin", "date32", "tsus", "fsb4", "fsb8", "null"}
var c35DictVals = []string{"str", "str", "bin", "i64", "i32"}

func c35GenType(r *Rng, depth int, dictPct int) string {
	x := r.Intn(100)
	switch {
	case x < dictPct:
		return Pick(r, []string{"dict8", "dict16", "dict32"}) + "," + Pick(r, c35DictVals)
	case depth > 0 && x < dictPct+30:
		switch r.Intn(5) {
		case 0:
			return "list," + c35GenType(r, depth-1, dictPct)
		case 1:
			return "llist," + c35GenType(r, depth-1, dictPct)
		case 2:
			return "flist2," + c35GenType(r, depth-1, dictPct)
		case 3:
			k := r.Range(1, 3)
			parts := []string{fmt.Sprintf("struct%d", k)}
			for i := 0; i < k; i++ {
				parts = append(parts, c35GenType(r, depth-1, dictPct))
			}
			return strings.Join(parts, ",")
		default:
			return "map," + Pick(r, []string{"str", "i32", "i64"}) + "," + c35GenType(r, depth-1, dictPct)
		}
	}
	return Pick(r, c35Leaves)
}

// c35GenCols: mode 0 plain, 1 top-level dictionary, 2 nested dictionary only, 3 anything
// dictionaries 3 and 4 levels deep through every container kind (struct, list, large_list,
// fixed_size_list, map key-side siblings and map values)
var c35DeepDict = []string{
	"struct1,struct1,struct1,dict8,str",
	"list,list,list,dict16,str",
	"llist,struct1,list,dict8,bin",
	"flist2,struct1,flist2,dict8,i64",
	"map,str,map,i32,struct1,dict32,str",
	"struct2,i64,map,str,list,dict8,str",
	"list,struct2,str,llist,struct1,dict8,str",
	"struct1,struct1,struct1,struct1,dict8,str",
	"map,i64,list,struct2,i32,flist2,dict16,str",
}

func c35GenCols(r *Rng, mode int) string {
	if (mode == 2 || mode == 3) && r.Chance(20) {
		cols := []string{Pick(r, c35DeepDict)}
		if r.Bool() {
			cols = append(cols, c35GenType(r, 1, 0))
		}
		if r.Bool() {
			cols[0], cols[len(cols)-1] = cols[len(cols)-1], cols[0]
		}
		return strings.Join(cols, ";")
	}
	for {
		n := r.Range(1, 4)
		if r.Chance(3) {
			return "-"
		}
		cols := make([]string, n)
		for i := range cols {
			switch mode {
			case 0:
				cols[i] = c35GenType(r, 2, 0)
			case 1, 3:
				cols[i] = c35GenType(r, 2, 15)
			case 2:
				cols[i] = c35GenType(r, 3, 25)
			}
		}
		s := strings.Join(cols, ";")
		k := c35OwnKind(s)
		if (mode == 0 && k == "plain") || (mode == 1 && k == "top") || (mode == 2 && k == "nested") || mode == 3 {
			return s
		}
		if mode == 1 {
			cols[r.Intn(n)] = Pick(r, []string{"dict8", "dict16", "dict32"}) + "," + Pick(r, c35DictVals)
			return strings.Join(cols, ";")
		}
		if mode == 2 && k == "plain" {
			cols[r.Intn(n)] = Pick(r, []string{"list,dict8,str", "struct2,i64,dict32,str", "list,struct1,dict16,bin", "map,str,dict8,str", "flist2,dict8,i64", "struct1,struct1,list,dict8,str"})
			return strings.Join(cols, ";")
		}
	}
}

var c35MetaKeys = []string{"k", "user", "vgi_rpc.shm_source", "vgi_rpc.request_id", "", "ключ", "vgi_rpc.shm_offset", "vgi_rpc.shm_length", "k"}

func c35GenMeta(r *Rng) string {
	n := r.Intn(4)
	if n == 0 {
		return "-"
	}
	var ks, vs []string
	for i := 0; i < n; i++ {
		ks = append(ks, Pick(r, c35MetaKeys))
		vs = append(vs, Pick(r, []string{"", "v", "123", "значение", "65536"}))
	}
	return c35ShowMeta(ks, vs)
}

const (
	c35KOff = "vgi_rpc.shm_offset"
	c35KLen = "vgi_rpc.shm_length"
	c35KSrc = "vgi_rpc.shm_source"
	c35KLog = "vgi_rpc.log_level"
)

var (
	c35Two63 = new(big.Int).Lsh(big.NewInt(1), 63)
	c35Two64 = new(big.Int).Lsh(big.NewInt(1), 64)
)

func bi(x int64) *big.Int { return big.NewInt(x) }

// c35GenPtrStrings returns offset/length strings steering at the boundary classes of the bounds
// arithmetic. live: (off,len) of slots believed allocated; size = total segment size.
func c35GenPtrStrings(r *Rng, size int64, live [][2]int64, safeStart func() int64) (string, string) {
	off, ln := new(big.Int), new(big.Int)
	pickLive := func() [2]int64 {
		if len(live) > 0 {
			return live[r.Intn(len(live))]
		}
		return [2]int64{65536, 64}
	}
	exactDeco := false
	switch r.Intn(16) {
	case 14, 15: // exact live slot, strings decorated below (sign, zeros, spaces ...)
		s := pickLive()
		off.SetInt64(s[0])
		ln.SetInt64(s[1])
		exactDeco = true
	case 0: // exact live slot
		s := pickLive()
		off.SetInt64(s[0])
		ln.SetInt64(s[1])
	case 1: // live slot, length off by a little
		s := pickLive()
		off.SetInt64(s[0])
		ln.SetInt64(s[1] + int64(r.Range(-2, 2)))
	case 2: // region ending around the segment end
		o := pickLive()[0]
		if r.Chance(30) {
			o = safeStart()
		}
		off.SetInt64(o)
		ln.SetInt64(size - o + int64(r.Range(-1, 1)))
	case 3: // offset around the segment end, tiny length
		off.SetInt64(size + int64(r.Range(-2, 2)))
		ln.SetInt64(int64(r.Range(0, 2)))
	case 4: // negative length, |len| <= offset  (wraps to end < offset: slice panic path)
		o := int64(r.Range(1, int(size)))
		off.SetInt64(o)
		ln.SetInt64(-int64(r.Range(1, int(o))))
	case 5: // negative length, |len| > offset (wraps high: out of bounds)
		o := int64(r.Range(0, int(size)))
		off.SetInt64(o)
		ln.SetInt64(-(o + int64(r.Range(1, 5))))
	case 6: // offset near 2^64, positive length wrapping into the segment
		k := int64(r.Range(1, 70000))
		off.Sub(c35Two64, bi(k))
		ln.SetInt64(k + int64(r.Range(0, int(size))))
	case 7: // offset at/over 2^64 (ParseUint range)
		off.Add(c35Two64, bi(int64(r.Range(-1, 2))))
		ln.SetInt64(int64(r.Range(0, 10)))
	case 8: // length around int64 limits
		off.SetInt64(int64(r.Range(0, int(size))))
		ln.Set(Pick(r, []*big.Int{new(big.Int).Sub(c35Two63, bi(1)), c35Two63, new(big.Int).Neg(c35Two63),
			new(big.Int).Sub(new(big.Int).Neg(c35Two63), bi(1)), c35Two64, new(big.Int).Add(c35Two63, bi(int64(r.Intn(1000))))}))
	case 9: // offset around 2^63 with min-int length (sum wraps to small)
		off.Add(c35Two63, bi(int64(r.Range(0, int(size)))))
		ln.Neg(c35Two63)
	case 10: // header area / zero
		off.SetInt64(int64(Pick(r, []int{0, 0, 4, 8, 16, 24, 40, r.Range(4, 65536)})))
		ln.SetInt64(int64(r.Range(0, 64)))
	case 11: // huge digit strings
		off.Exp(bi(10), bi(int64(r.Range(19, 40))), nil)
		ln.SetInt64(1)
	case 12: // anything in range
		off.SetInt64(safeStart() + int64(Pick(r, []int{0, 0, 0, int(size)})))
		ln.SetInt64(int64(r.Range(-10, int(size)+10)))
	default: // live offset, length reaching beyond the segment
		s := pickLive()
		off.SetInt64(s[0])
		ln.SetInt64(size - s[0] + int64(r.Range(0, 3)))
	}
	os, ls := off.String(), ln.String()
	deco := func(s string) string {
		n := 40
		if exactDeco {
			n = 12
			if r.Bool() {
				return s
			}
		}
		switch r.Intn(n) {
		case 0:
			return "+" + s
		case 1:
			return " " + s
		case 2:
			return s + " "
		case 3:
			return "0x" + s
		case 4:
			return "000" + s
		case 5:
			return ""
		case 6:
			return s + "\x00"
		case 7:
			return "１２" // full-width digits
		case 8:
			return "٣" // arabic-indic digit
		case 9:
			return s + "e0"
		case 10:
			return "1_0"
		case 11:
			return "-" + s
		case 12:
			return s + ".0"
		case 13:
			return "-0"
		case 14:
			return "+"
		case 15:
			return "-"
		case 16:
			return "\t" + s
		case 17:
			return s + "\n"
		}
		return s
	}
	return deco(os), deco(ls)
}

func c35GenPtrMeta(r *Rng, offS, lenS string) string {
	ks := []string{c35KOff, c35KLen}
	vs := []string{offS, lenS}
	switch r.Intn(20) {
	case 0: // length key missing
		ks, vs = ks[:1], vs[:1]
	case 1: // offset key missing -> not a pointer batch
		ks, vs = ks[1:], vs[1:]
	case 2: // log batch
		ks = append(ks, c35KLog)
		vs = append(vs, "INFO")
	case 3: // duplicate offset key: first wins
		ks = append(ks, c35KOff)
		vs = append(vs, "65536")
	case 4: // duplicate in front
		ks = append([]string{c35KOff}, ks...)
		vs = append([]string{"70000"}, vs...)
	case 5: // reversed order
		ks[0], ks[1] = ks[1], ks[0]
		vs[0], vs[1] = vs[1], vs[0]
	}
	n := r.Intn(3)
	for i := 0; i < n; i++ {
		k := Pick(r, []string{"k", "user", c35KSrc, "", "ключ", "k"})
		v := Pick(r, []string{"", "v", "значение"})
		if r.Bool() {
			ks, vs = append(ks, k), append(vs, v)
		} else {
			ks, vs = append([]string{k}, ks...), append([]string{v}, vs...)
		}
	}
	return c35ShowMeta(ks, vs)
}

// c35Shadow steers generation only: a first-fit table like the allocator's, fed with the sizes
// the generator computes by serializing the same batch Exec will build.
type c35Slot struct {
	off, ln int64
	cols   string
	rows   int
}

type c35Shadow struct {
	size    int64
	tab     []c35Slot
	hw      int64 // highest byte any allocation has reached (data below may hold stale streams)
	tailLow int64 // lowest byte a tail copy was written to (size when none)
	rows    int   // rows of the batch being inserted
}

// safeStart: an offset whose bytes are either the start of a stream the harness wrote (a slot) or
// never-written zeros. Pointers into the MIDDLE of a slot make arrow-go parse arbitrary bytes as a
// schema/record-batch flatbuffer, whose vector lengths it allocates unchecked (non-recoverable
// out-of-memory aborts were observed in fieldFromFB and in messageReader.Message).
func (s *c35Shadow) safeStart(r *Rng) int64 {
	lo := s.hw
	if lo < 65536 {
		lo = 65536
	}
	if len(s.tab) > 0 && (r.Bool() || lo >= s.tailLow) {
		return s.tab[r.Intn(len(s.tab))].off
	}
	if lo >= s.tailLow {
		return 65536
	}
	return lo + int64(r.Intn(int(s.tailLow-lo)))
}

func (s *c35Shadow) fit(sz int64, insert bool, cols string) (int64, bool) {
	if sz <= 0 {
		return 0, false
	}
	prev := int64(65536)
	for i, e := range s.tab {
		if e.off-prev >= sz {
			if insert {
				s.tab = append(s.tab[:i], append([]c35Slot{{prev, sz, cols, s.rows}}, s.tab[i:]...)...)
			}
			return prev, true
		}
		prev = e.off + e.ln
	}
	if s.size-prev >= sz {
		if insert {
			s.tab = append(s.tab, c35Slot{prev, sz, cols, s.rows})
			if prev+sz > s.hw {
				s.hw = prev + sz
			}
		}
		return prev, true
	}
	return 0, false
}

// c35StoredLen: how many bytes the batch occupies in a segment, and the capacity estimate.
func c35StoredLen(cols string, rows int, seed uint64) (stored, est, bufsz int64) {
	b, err := c35Batch(cols, rows, seed, arrow.Metadata{}, false)
	if err != nil {
		panic(err)
	}
	defer b.Release()
	full := c35FullStream(b)
	stored = int64(len(full))
	if c35OwnKind(cols) == "top" {
		so := c35SchemaOnly(b.Schema())
		stored = int64(len(full) - (len(so) - 8) - 8)
	}
	bufsz = vgirpc.VerifC35BatchBufferSize(b)
	return stored, bufsz + 4096, bufsz
}

func c35Gen(g *Gen) {
	r := g.Rng
	n := g.N(400, 8000)
	for i := 0; i < n; i++ {
		// segment data sizes around the capacity estimate (buffer bytes + 4096)
		dataSize := Pick(r, []int{4096, 4200, 5000, 6000, 8192, 8192, 12000, 20000, 20000, 40000})
		size := int64(65536 + dataSize)
		lines := []string{fmt.Sprintf("new %d", dataSize)}
		sh := &c35Shadow{size: size, tailLow: size}
		live := func() [][2]int64 {
			out := make([][2]int64, len(sh.tab))
			for j, e := range sh.tab {
				out[j] = [2]int64{e.off, e.ln}
			}
			return out
		}
		nptr := 0
		nops := r.Range(4, 22)
		for k := 0; k < nops; k++ {
			x := r.Intn(100)
			switch {
			case x < 20:
				cols := c35GenCols(r, r.Intn(4))
				rows := Pick(r, []int{0, 1, 2, 3, 5, 8, 17, 40})
				seed := uint64(r.Intn(1000))
				lines = append(lines, fmt.Sprintf("write %s %d %d", cols, rows, seed))
				stored, est, _ := c35StoredLen(cols, rows, seed)
				sh.rows = rows
				if _, ok := sh.fit(est, false, ""); ok {
					sh.fit(stored, true, cols)
				}
			case x < 40:
				cols := c35GenCols(r, r.Intn(4))
				rows := Pick(r, []int{0, 3, 8, 17, 17, 40, 40, 60})
				seed := uint64(r.Intn(1000))
				lines = append(lines, fmt.Sprintf("mwrite %s %d %d %s", cols, rows, seed, c35GenMeta(r)))
				stored, est, bufsz := c35StoredLen(cols, rows, seed)
				sh.rows = rows
				if rows > 0 && bufsz >= c35MinBatchBytes {
					if _, ok := sh.fit(est, false, ""); ok {
						if _, ok := sh.fit(stored, true, cols); ok {
							nptr++
						}
					}
				}
			case x < 56:
				if nptr > 0 {
					lines = append(lines, fmt.Sprintf("resolve %d", r.Intn(nptr+1)))
				} else {
					lines = append(lines, "resolve 0")
				}
			case x < 80:
				offS, lenS := c35GenPtrStrings(r, size, live(), func() int64 { return sh.safeStart(r) })
				rows := 0
				if r.Chance(5) {
					rows = r.Range(1, 3)
				}
				cols := c35GenCols(r, r.Intn(4))
				// pointer batches normally carry the schema of the batch they point at
				for _, e := range sh.tab {
					if strconv.FormatInt(e.off, 10) == offS && r.Chance(75) {
						cols = e.cols
					}
				}
				lines = append(lines, fmt.Sprintf("ptr %s %d %s", cols, rows, c35GenPtrMeta(r, offS, lenS)))
			case x < 87:
				if len(sh.tab) > 0 && r.Chance(70) {
					j := r.Intn(len(sh.tab))
					lines = append(lines, fmt.Sprintf("free %d", sh.tab[j].off))
					sh.tab = append(sh.tab[:j], sh.tab[j+1:]...)
				} else {
					lines = append(lines, fmt.Sprintf("free %d", 65536+r.Intn(dataSize)))
				}
			case x < 89:
				lines = append(lines, "reset")
				sh.tab = nil
			case x < 93:
				// a peer corrupts a few bytes of a slot that holds rows: the tail of the record-batch
				// body (values/offsets; the 8 bytes before the EOS marker, or the last 8 bytes of the
				// stripped layout), sometimes the low bytes of the first message-length field. Bytes
				// inside flatbuffer metadata are left alone: arrow-go allocates vector lengths it
				// reads from there without any bound (see safeStart / c35Huge).
				var cand []c35Slot
				for _, e := range sh.tab {
					if e.rows > 0 && e.ln > 64 {
						cand = append(cand, e)
					}
				}
				if len(cand) == 0 {
					lines = append(lines, "kind "+c35GenCols(r, 3))
					continue
				}
				e := cand[r.Intn(len(cand))]
				base := e.off
				o := base + e.ln - 16 + int64(r.Intn(8))
				if c35OwnKind(e.cols) == "top" {
					o = base + e.ln - 8 + int64(r.Intn(8))
				}
				b := r.Bytes(1)
				if r.Chance(20) {
					o = base + int64(Pick(r, []int{0, 1, 2, 3, 4, 5}))
					b = []byte{byte(r.U64())}
					if o < base+4 {
						b = []byte{0}
					}
				}
				lines = append(lines, fmt.Sprintf("poke %d %s", o, X(b)))
			case x < 95:
				lines = append(lines, "kind "+c35GenCols(r, 3))
			default:
				// a complete stream copied so that it ends exactly at the end of the segment, then
				// pointers at, just inside and just beyond that boundary
				cols := c35GenCols(r, r.Intn(3))
				rows, seed := r.Range(1, 9), uint64(r.Intn(1000))
				b, err := c35Batch(cols, rows, seed, arrow.Metadata{}, false)
				if err != nil {
					panic(err)
				}
				var st []byte
				if c35OwnKind(cols) == "top" {
					st, _ = vgirpc.VerifC35SerializeForShm(b)
				} else {
					st = c35FullStream(b)
				}
				b.Release()
				if len(st) > 0 && len(st) < dataSize {
					o := size - int64(len(st))
					if o < sh.tailLow {
						sh.tailLow = o
					}
					lines = append(lines, fmt.Sprintf("poke %d %s", o, X(st)))
					// the same exact region written with decorated numerals: "+N" is not a ParseUint
					// numeral (offset) but is an Atoi numeral (length); leading zeros are fine in both
					os, ls := strconv.FormatInt(o, 10), strconv.Itoa(len(st))
					for _, v := range [][2]string{{"+" + os, ls}, {os, "+" + ls}, {"00" + os, "000" + ls}, {os, "-" + ls}, {"-" + os, ls}, {os + " ", ls}, {os, " " + ls}} {
						if r.Chance(60) {
							lines = append(lines, fmt.Sprintf("ptr %s 0 %s", cols, c35ShowMeta([]string{c35KOff, c35KLen}, []string{v[0], v[1]})))
						}
					}
					for _, d := range [][2]int64{{0, 0}, {0, 1}, {-1, 1}, {0, -1}} {
						if d != [2]int64{0, 0} && r.Bool() {
							continue
						}
						lines = append(lines, fmt.Sprintf("ptr %s 0 %s", cols,
							c35ShowMeta([]string{c35KOff, c35KLen}, []string{strconv.FormatInt(o+d[0], 10), strconv.FormatInt(int64(len(st))+d[1], 10)})))
					}
				}
			}
		}
		g.Case(lines...)
	}
	// table capacity: fill all ShmMaxAllocs (4094) entries with the smallest batches, nothing freed;
	// the next write must be refused and every slot must still read back; free one, write one more
	for i, nc := 0, g.N(1, 6); i < nc; i++ {
		cols := Pick(r, []string{"i8", "bool", "i8;^k=v", "u8", "dict8,str", "struct1,dict8,str"})
		seed := r.Intn(1000)
		over := r.Range(1, 12)
		lines := []string{"new 3000000",
			fmt.Sprintf("bulk %s 1 %d %d", cols, seed, 4094-r.Intn(3)),
			fmt.Sprintf("bulk %s 1 %d %d", cols, seed, 3+over),
			"verify",
			fmt.Sprintf("bulk %s 1 %d 1", cols, seed),
			fmt.Sprintf("free %d", 65536),
			"verify",
			fmt.Sprintf("bulk %s 1 %d 2", cols, seed),
			"verify"}
		g.Case(lines...)
	}
	// sequences of batches on ONE segment whose schemas are pairwise "almost equal": same column
	// names and type ids, different field metadata / schema metadata / fixed-size-binary width
	// (everything Schema.Fingerprint() ignores), written and read back one after the other
	for i, na := 0, g.N(60, 1200); i < na; i++ {
		lines := []string{"new 60000"}
		nc := r.Range(1, 3)
		base := make([]string, nc)
		for k := range base {
			base[k] = Pick(r, []string{"i64", "str", "fsb4", "fsb4", "f64", "list,i32", "struct2,i64,str", "bin"})
		}
		variant := func() string {
			cols := append([]string{}, base...)
			for k := range cols {
				if strings.HasPrefix(cols[k], "fsb") && r.Bool() {
					cols[k] = Pick(r, []string{"fsb4", "fsb8"})
				}
				if r.Chance(50) {
					cols[k] += ",~unit=" + Pick(r, []string{"s", "m", "kg", "metres"})
				}
				if r.Chance(15) {
					cols[k] += ",~origin=" + Pick(r, []string{"a", "b"})
				}
			}
			if r.Chance(40) {
				cols = append(cols, "^"+Pick(r, []string{"owner=x", "owner=y", "rev=2"}))
			}
			return strings.Join(cols, ";")
		}
		nptr := 0
		for k := r.Range(2, 5); k > 0; k-- {
			rows, seed := Pick(r, []int{1, 3, 8, 17}), r.Intn(1000)
			if r.Bool() {
				lines = append(lines, fmt.Sprintf("write %s %d %d", variant(), rows, seed))
			} else {
				lines = append(lines, fmt.Sprintf("mwrite %s %d %d -", variant(), Pick(r, []int{8, 17, 40}), seed))
				lines = append(lines, fmt.Sprintf("resolve %d", nptr))
				nptr++
			}
		}
		g.Case(lines...)
	}
	// skipOneIPCMessage on real, truncated and mutated streams and on crafted flatbuffers
	m := g.N(150, 3000)
	for i := 0; i < m; i++ {
		var lines []string
		for k := 0; k < 6; k++ {
			var buf []byte
			switch r.Intn(4) {
			case 0, 1:
				b, err := c35Batch(c35GenCols(r, 3), r.Intn(4), uint64(r.Intn(1000)), arrow.Metadata{}, false)
				if err != nil {
					panic(err)
				}
				buf = c35FullStream(b)
				b.Release()
				switch r.Intn(4) {
				case 0:
					buf = buf[:r.Intn(len(buf)+1)]
				case 1:
					for j := r.Range(1, 3); j > 0; j-- {
						buf[r.Intn(minInt(len(buf), 64))] = byte(r.U64())
					}
				case 2:
					buf = buf[4:] // legacy framing without the continuation marker
				}
				if len(buf) > 700 {
					buf = buf[:700]
				}
			case 2: // crafted: [cont] metaLen meta(with controlled root/vtable offsets) tail
				mlen := r.Range(0, 40)
				meta := make([]byte, mlen)
				for j := range meta {
					meta[j] = byte(r.Intn(24))
					if r.Chance(10) {
						meta[j] = byte(r.U64())
					}
				}
				if r.Bool() {
					buf = append(buf, 0xFF, 0xFF, 0xFF, 0xFF)
				}
				declared := mlen + r.Range(-2, 2)
				if declared < 0 {
					declared = 0
				}
				buf = append(buf, byte(declared), byte(declared>>8), 0, 0)
				buf = append(buf, meta...)
				buf = append(buf, r.Bytes(r.Intn(12))...)
			default:
				buf = r.Bytes(r.Intn(24))
			}
			lines = append(lines, "skip "+X(buf))
		}
		g.Case(lines...)
	}
}

func minInt(a, b int) int {
	if a < b {
		return a
	}
	return b
}

// ------------------------------------------------------------------ exec

type c35Ptr struct {
	pointer arrow.RecordBatch
	orig    arrow.RecordBatch
	stored  []byte
	off     uint64
	length  int
	cols    string
	origK   []string
	origV   []string
}

var c35Dec = regexp.MustCompile(`^[0-9]+$`)
var c35SDec = regexp.MustCompile(`^[+-]?[0-9]+$`)

// c35PointerRange is the property's own reading of a pointer, in unbounded integers: the offset
// string must be a plain decimal below 2^64, the length string a decimal int64 that is not
// negative, and offset+length must not pass the end of the segment.
func c35PointerRange(offS, lenS string, hasLen bool, size int64) (lo, hi int64, valid bool) {
	if !hasLen || !c35Dec.MatchString(offS) || !c35SDec.MatchString(lenS) {
		return 0, 0, false
	}
	o, _ := new(big.Int).SetString(offS, 10)
	l, _ := new(big.Int).SetString(lenS, 10)
	if o.Cmp(c35Two64) >= 0 || l.Cmp(c35Two63) >= 0 || l.Sign() < 0 {
		return 0, 0, false
	}
	e := new(big.Int).Add(o, l)
	if e.Cmp(bi(size)) > 0 {
		return 0, 0, false
	}
	return o.Int64(), e.Int64(), true
}

func c35MetaOf(b arrow.RecordBatch) (ks, vs []string) {
	if rb, ok := b.(arrow.RecordBatchWithMetadata); ok {
		md := rb.Metadata()
		return append([]string{}, md.Keys()...), append([]string{}, md.Values()...)
	}
	return nil, nil
}

func c35First(ks, vs []string, k string) (string, bool) {
	for i := range ks {
		if ks[i] == k {
			return vs[i], true
		}
	}
	return "", false
}

type c35BulkSlot struct {
	off   uint64
	ln    int
	batch arrow.RecordBatch
}

func c35Exec(c *Case) {
	var seg *vgirpc.ShmSegment
	var ptrs []*c35Ptr
	var bulk []c35BulkSlot // slots written by `bulk`, still allocated
	defer func() {
		for _, b := range bulk {
			b.batch.Release()
		}
	}()
	defer func() {
		for _, p := range ptrs {
			p.pointer.Release()
			p.orig.Release()
		}
		if seg != nil {
			seg.Close()
		}
	}()
	hdr := func() string { return X(seg.VerifHeaderPrefix()) }
	canonSrc := func(ks, vs []string) []string {
		out := append([]string{}, vs...)
		for i := range ks {
			if ks[i] == c35KSrc && vs[i] == seg.Name() {
				out[i] = "SEG"
			}
		}
		return out
	}
	// resolveObs runs ResolveShmBatch and renders the canonical observation.
	resolveObs := func(b arrow.RecordBatch, sortBody bool) (obs string, out arrow.RecordBatch, relOff uint64, rel bool, err error, panicked bool) {
		func() {
			defer func() {
				if rv := recover(); rv != nil {
					panicked = true
					err = fmt.Errorf("panic: %v", rv)
				}
			}()
			out, relOff, rel, err = vgirpc.ResolveShmBatch(b, seg)
		}()
		switch {
		case panicked:
			obs = "panic"
		case err != nil:
			obs = "err"
		case out == b && !rel:
			obs = "notptr"
		default:
			ks, vs := c35MetaOf(out)
			vs = canonSrc(ks, vs)
			if sortBody && len(ks) > 1 {
				// pointer batches made by MaybeWriteToShm list the batch's own keys in Go map
				// order (random); unique keys, so sorting all but the appended source key is canonical
				n := len(ks) - 1
				idx := make([]int, n)
				for i := range idx {
					idx[i] = i
				}
				sort.SliceStable(idx, func(a, b int) bool { return bytes.Compare([]byte(ks[idx[a]]), []byte(ks[idx[b]])) < 0 })
				sk, sv := make([]string, 0, n+1), make([]string, 0, n+1)
				for _, i := range idx {
					sk, sv = append(sk, ks[i]), append(sv, vs[i])
				}
				ks, vs = append(sk, ks[n]), append(sv, vs[n])
			}
			obs = fmt.Sprintf("ok rel=%d %s", relOff, c35ShowMeta(ks, vs))
			if !rel {
				obs += " norelease"
			}
		}
		return
	}

	for _, l := range c.Lines {
		f := strings.Fields(l)
		if len(f) == 0 {
			continue
		}
		switch f[0] {
		case "skip":
			buf := MustUnX(f[1])
			var n int
			var err error
			panicked := false
			func() {
				defer func() {
					if recover() != nil {
						panicked = true
					}
				}()
				n, err = vgirpc.VerifC35SkipOneIPCMessage(buf)
			}()
			switch {
			case panicked:
				c.Stat("skip-panic")
				c.Oracle("skip-message-panic", fmt.Sprintf("skipOneIPCMessage panicked on %s", f[1]))
				c.Out(l, "panic")
			case err != nil:
				c.Stat("skip-err")
				c.Out(l, "err")
			default:
				c.Stat("skip-ok")
				c.Out(l, fmt.Sprintf("ok %d", n))
			}
			continue
		case "kind":
			s, err := c35Schema(f[1])
			if err != nil {
				panic(err)
			}
			k := vgirpc.VerifC35SchemaKind(s)
			if k != c35OwnKind(f[1]) {
				c.Oracle("layout-discriminator", fmt.Sprintf("schema %s classified %s, structure says %s", f[1], k, c35OwnKind(f[1])))
			}
			c.Stat("kind-" + k)
			c.Out(l, k)
			continue
		case "new":
			n, _ := strconv.Atoi(f[1])
			if seg != nil {
				seg.Close()
			}
			s, err := vgirpc.ShmCreate(vgirpc.ShmHeaderSize + n)
			if err != nil {
				panic(err)
			}
			seg = s
			c.Out(l, "ok "+hdr())
			continue
		}
		if seg == nil {
			c.Out(l, "err:no-segment")
			continue
		}
		size := int64(seg.Size())
		switch f[0] {
		case "write":
			rows, _ := strconv.Atoi(f[2])
			seed, _ := strconv.ParseUint(f[3], 10, 64)
			b, err := c35Batch(f[1], rows, seed, arrow.Metadata{}, false)
			if err != nil {
				panic(err)
			}
			full := c35FullStream(b)
			est := vgirpc.VerifC35EstimateSerializedSize(b)
			kind := vgirpc.VerifC35SchemaKind(b.Schema())
			ml := fmt.Sprintf("write %s %d %s", f[1], est, X(full))
			off, ln, ok, werr := seg.AllocateAndWrite(b)
			switch {
			case werr != nil:
				c.Stat("write-err")
				c.Out(ml, fmt.Sprintf("err %s %s", kind, hdr()))
			case !ok:
				c.Stat("write-nofit")
				c.Out(ml, fmt.Sprintf("nofit %s %s", kind, hdr()))
			default:
				c.Stat("write-ok-" + kind)
				region := seg.VerifC35Region(off, off+uint64(ln))
				c.Out(ml, fmt.Sprintf("ok %s %d %d %s %s", kind, off, ln, c35Fnv(region), hdr()))
				c35CheckSlot(c, seg, l, off, ln)
				// read-back oracle (public API, what the peer does with the numbers)
				got, rerr := seg.ReadBatch(off, ln, b.Schema())
				if rerr != nil {
					c.Oracle("readback-failed-"+kind, fmt.Sprintf("%q: ReadBatch(%d,%d): %v", l, off, ln, rerr))
				} else {
					if !c35SchemaStrictEqual(got.Schema(), b.Schema()) {
						c.Oracle("readback-schema-mismatch", fmt.Sprintf("%q: schema read back differs (names/types/widths/field or schema metadata): wrote %v read %v", l, b.Schema(), got.Schema()))
					} else if !got.Schema().Equal(b.Schema()) || !array.RecordEqual(got, b) {
						c.Oracle("readback-mismatch-"+kind, fmt.Sprintf("%q: batch read back differs: wrote %v read %v", l, b, got))
					}
					got.Release()
				}
			}
			b.Release()
		case "mwrite":
			rows, _ := strconv.Atoi(f[2])
			seed, _ := strconv.ParseUint(f[3], 10, 64)
			mk, mv := c35ParseMeta(f[4])
			b, err := c35Batch(f[1], rows, seed, arrow.NewMetadata(mk, mv), true)
			if err != nil {
				panic(err)
			}
			full := c35FullStream(b)
			ml := fmt.Sprintf("mwrite %s %d %s %s", f[1], vgirpc.VerifC35EstimateSerializedSize(b), X(full), f[4])
			var out arrow.RecordBatch
			var replaced bool
			var werr error
			panicked := false
			func() {
				defer func() {
					if rv := recover(); rv != nil {
						panicked = true
					}
				}()
				out, replaced, werr = vgirpc.MaybeWriteToShm(b, seg)
			}()
			switch {
			case panicked:
				c.Oracle("write-panic", fmt.Sprintf("%q: MaybeWriteToShm panicked", l))
				c.Out(ml, "panic")
				b.Release()
			case werr != nil:
				c.Stat("mwrite-err")
				c.Out(ml, "err "+hdr())
				b.Release()
			case !replaced:
				c.Stat("mwrite-same")
				if out != b {
					c.Oracle("mwrite-not-same-batch", fmt.Sprintf("%q: replaced=false but a different batch came back", l))
				}
				// whether a batch is shipped through shm at all (rows, size threshold, capacity
				// pre-check) is policy outside C35; a declined write must leave the table untouched
				c.Out("mwrite-declined", "same "+hdr())
				b.Release()
			default:
				c.Stat("mwrite-ptr")
				ks, vs := c35MetaOf(out)
				p := &c35Ptr{pointer: out, orig: b, cols: f[1], origK: mk, origV: mv}
				offS, _ := c35First(ks, vs, c35KOff)
				lenS, _ := c35First(ks, vs, c35KLen)
				lo, hi, valid := c35PointerRange(offS, lenS, true, size)
				if !valid {
					c.Oracle("emitted-pointer-invalid", fmt.Sprintf("%q: pointer offset=%q length=%q is not a valid in-segment range", l, offS, lenS))
				} else {
					p.off, p.length = uint64(lo), int(hi-lo)
					p.stored = seg.VerifC35Region(uint64(lo), uint64(hi))
					c35CheckSlot(c, seg, l, p.off, p.length)
				}
				if out.NumRows() != 0 || !vgirpc.IsShmPointerBatch(out) || !out.Schema().Equal(b.Schema()) {
					c.Oracle("emitted-pointer-shape", fmt.Sprintf("%q: pointer batch must be zero-row, same schema, recognised as pointer", l))
				}
				// canonical metadata: the two pointer keys as emitted, the rest sorted by key
				var headK, headV, tailK, tailV []string
				if len(ks) >= 2 {
					headK, headV, tailK, tailV = ks[:2], vs[:2], ks[2:], vs[2:]
				} else {
					headK, headV = ks, vs
				}
				idx := make([]int, len(tailK))
				for i := range idx {
					idx[i] = i
				}
				sort.SliceStable(idx, func(a, b int) bool { return bytes.Compare([]byte(tailK[idx[a]]), []byte(tailK[idx[b]])) < 0 })
				ck, cv := append([]string{}, headK...), append([]string{}, headV...)
				for _, i := range idx {
					ck, cv = append(ck, tailK[i]), append(cv, tailV[i])
				}
				c.Out(ml, fmt.Sprintf("ptr %d %s %s %s", len(ptrs), c35ShowMeta(ck, cv), c35Fnv(p.stored), hdr()))
				ptrs = append(ptrs, p)
			}
		case "resolve":
			k, _ := strconv.Atoi(f[1])
			if k < 0 || k >= len(ptrs) {
				c.Out(l+" na", "err:no-pointer")
				continue
			}
			p := ptrs[k]
			cur := seg.VerifC35Region(p.off, p.off+uint64(p.length))
			if c35Huge(c35OwnKind(p.cols), p.pointer.Schema(), cur) {
				c.Stat("guard-huge-length")
				c.Out("guard", "guard")
				continue
			}
			intact := p.stored != nil && bytes.Equal(cur, p.stored)
			dec := "0"
			if cur != nil && c35Decodable(c35OwnKind(p.cols), p.pointer.Schema(), cur) {
				dec = "1"
			}
			obs, out, relOff, rel, err, panicked := resolveObs(p.pointer, true)
			if panicked {
				c.Oracle("pointer-panic", fmt.Sprintf("%q: ResolveShmBatch panicked: %v", l, err))
			}
			if intact {
				c.Stat("resolve-intact")
				if err != nil {
					c.Oracle("resolve-failed-on-intact-slot", fmt.Sprintf("%q: pointer to an unmodified slot did not resolve: %v", l, err))
				} else {
					if !c35SchemaStrictEqual(out.Schema(), p.orig.Schema()) {
						c.Oracle("readback-schema-mismatch", fmt.Sprintf("%q: resolved schema differs (names/types/widths/field or schema metadata): wrote %v got %v", l, p.orig.Schema(), out.Schema()))
					} else if !out.Schema().Equal(p.orig.Schema()) || !array.RecordEqual(out, p.orig) {
						c.Oracle("resolve-mismatch-"+c35OwnKind(p.cols), fmt.Sprintf("%q: resolved batch differs from the batch written: wrote %v got %v", l, p.orig, out))
					}
					if !rel || relOff != p.off {
						c.Oracle("resolve-release-offset", fmt.Sprintf("%q: release=%v offset=%d, slot is at %d", l, rel, relOff, p.off))
					}
					c35CheckResolvedMeta(c, l, out, p.origK, p.origV, seg.Name())
				}
			} else {
				c.Stat("resolve-modified")
			}
			if out != nil && out != p.pointer {
				out.Release()
			}
			c.Out(l+" "+dec, obs)
		case "ptr":
			rows, _ := strconv.Atoi(f[2])
			mk, mv := c35ParseMeta(f[3])
			b, err := c35Batch(f[1], rows, 1, arrow.NewMetadata(mk, mv), true)
			if err != nil {
				panic(err)
			}
			offS, hasOff := c35First(mk, mv, c35KOff)
			lenS, hasLen := c35First(mk, mv, c35KLen)
			_, isLog := c35First(mk, mv, c35KLog)
			isPtr := rows == 0 && hasOff && !isLog
			lo, hi, valid := c35PointerRange(offS, lenS, hasLen, size)
			dec := "na"
			if isPtr && valid && c35Huge(c35OwnKind(f[1]), b.Schema(), seg.VerifC35Region(uint64(lo), uint64(hi))) {
				c.Stat("guard-huge-length")
				c.Out("guard", "guard")
				b.Release()
				continue
			}
			if isPtr && valid {
				dec = "0"
				if c35Decodable(c35OwnKind(f[1]), b.Schema(), seg.VerifC35Region(uint64(lo), uint64(hi))) {
					dec = "1"
				}
			}
			obs, out, relOff, rel, rerr, panicked := resolveObs(b, false)
			switch {
			case panicked:
				c.Stat("ptr-panic")
				c.Oracle("pointer-panic", fmt.Sprintf("%q: ResolveShmBatch panicked on offset=%q length=%q: %v", l, offS, lenS, rerr))
			case !isPtr:
				c.Stat("ptr-notpointer")
				if obs != "notptr" {
					c.Oracle("non-pointer-not-passed-through", fmt.Sprintf("%q: not a pointer batch, must come back unchanged; got %s", l, obs))
				}
			case !valid:
				c.Stat("ptr-bad")
				if rerr == nil {
					c.Oracle("bad-pointer-accepted", fmt.Sprintf("%q: offset=%q length=%q is malformed/negative/overflowing/out of segment (size %d) but resolved: %s", l, offS, lenS, size, obs))
				}
			default:
				if dec == "1" {
					c.Stat("ptr-good-decodable")
					if rerr != nil {
						c.Oracle("good-pointer-refused", fmt.Sprintf("%q: in-segment decodable region [%d,%d) refused: %v", l, lo, hi, rerr))
					} else {
						if !rel || relOff != uint64(lo) {
							c.Oracle("resolve-release-offset", fmt.Sprintf("%q: release=%v offset=%d, pointer says %d", l, rel, relOff, lo))
						}
						c35CheckResolvedMeta(c, l, out, mk, mv, seg.Name())
					}
				} else {
					c.Stat("ptr-good-undecodable")
					if rerr == nil {
						c.Oracle("undecodable-region-resolved", fmt.Sprintf("%q: region [%d,%d) does not hold a readable stream but resolved: %s", l, lo, hi, obs))
					}
				}
			}
			if out != nil && out != b {
				out.Release()
			}
			b.Release()
			c.Out(fmt.Sprintf("ptr %d %s %s", rows, f[3], dec), obs)
		case "bulk":
			// table-capacity cases: <count> writes of the same small batch in a row, nothing freed
			rows, _ := strconv.Atoi(f[2])
			seed, _ := strconv.ParseUint(f[3], 10, 64)
			count, _ := strconv.Atoi(f[4])
			b, err := c35Batch(f[1], rows, seed, arrow.Metadata{}, false)
			if err != nil {
				panic(err)
			}
			ml := fmt.Sprintf("bulk %s %d %s %d", f[1], vgirpc.VerifC35EstimateSerializedSize(b), X(c35FullStream(b)), count)
			okN, first, last := 0, "-", "-"
			for i := 0; i < count; i++ {
				off, ln, ok, werr := seg.AllocateAndWrite(b)
				if werr != nil || !ok {
					continue
				}
				okN++
				if first == "-" {
					first = strconv.FormatUint(off, 10)
				}
				last = strconv.FormatUint(off, 10)
				b.Retain()
				bulk = append(bulk, c35BulkSlot{off, ln, b})
			}
			b.Release()
			c.Stat("bulk")
			tab := seg.VerifTable()
			if len(tab) > vgirpc.ShmMaxAllocs {
				c.Oracle("table-over-capacity", fmt.Sprintf("%q: the table holds %d entries, the header has room for %d", l, len(tab), vgirpc.ShmMaxAllocs))
			}
			c.Out(ml, fmt.Sprintf("bulk ok=%d first=%s last=%s slots=%d h=%s", okN, first, last, len(tab), c35Fnv(seg.VerifHeaderPrefix())))
		case "verify":
			// EVERY slot written by bulk and not freed since must still read back identical
			good := 0
			for _, b := range bulk {
				got, rerr := seg.ReadBatch(b.off, b.ln, b.batch.Schema())
				if rerr == nil && c35SchemaStrictEqual(got.Schema(), b.batch.Schema()) && array.RecordEqual(got, b.batch) {
					good++
				} else {
					if len(c.oracle) < 5 { // report the first few only
						c.Oracle("live-slot-corrupted", fmt.Sprintf("%q: slot [%d,+%d) no longer reads back the batch written there (err=%v)", l, b.off, b.ln, rerr))
					}
				}
				if got != nil {
					got.Release()
				}
			}
			c.Stat("verify")
			c.Out(l, fmt.Sprintf("live=%d", good))
		case "free":
			n, _ := strconv.ParseUint(f[1], 10, 64)
			for i, b := range bulk {
				if b.off == n {
					b.batch.Release()
					bulk = append(bulk[:i], bulk[i+1:]...)
					break
				}
			}
			if err := seg.FreeOffset(n); err != nil {
				c.Stat("free-miss")
				c.Out(l, "err "+hdr())
			} else {
				c.Stat("free-ok")
				c.Out(l, "ok "+hdr())
			}
		case "reset":
			seg.Reset()
			c.Out(l, "ok "+hdr())
		case "poke":
			off, _ := strconv.ParseUint(f[1], 10, 64)
			b := MustUnX(f[2])
			if off < vgirpc.ShmHeaderSize || int64(off)+int64(len(b)) > size {
				c.Out(l, "err")
			} else if !seg.VerifC35Poke(off, b) {
				c.Out(l, "err:poke")
			} else {
				c.Stat("poke")
				c.Out(l, "ok")
			}
		default:
			c.Out(l, "err:bad-op")
		}
	}
}

// c35Huge: would arrow-go's stream reader, fed these bytes the way the storage layout prescribes,
// try to allocate more than 64 MiB for a message (metadata length or flatbuffer bodyLength read
// from garbage)? arrow-go allocates before it reads, a multi-gigabyte request takes seconds to
// minutes here and a larger one is a process-fatal "out of memory" that no recover() can catch —
// in the harness's own decode attempt as much as inside ResolveShmBatch. Such regions are skipped
// (line "guard" on both sides) and never compared. The walk uses the same framing rule as the
// reader: [continuation] length, metadata, body.
func c35Huge(kind string, schema *arrow.Schema, region []byte) bool {
	const limit = 64 << 20
	stream := region
	if kind == "top" {
		so := c35SchemaOnly(schema)
		stream = append(append([]byte{}, so[:len(so)-8]...), region...)
	}
	pos := 0
	for msgs := 0; msgs < 64 && pos+4 <= len(stream); msgs++ {
		p := pos
		l := binary.LittleEndian.Uint32(stream[p : p+4])
		if l == 0xFFFFFFFF {
			p += 4
			if p+4 > len(stream) {
				return false
			}
			l = binary.LittleEndian.Uint32(stream[p : p+4])
		}
		if int32(l) > limit {
			return true
		}
		if int32(l) <= 0 {
			return false // EOS or an invalid length: the reader stops here
		}
		n, err := vgirpc.VerifC35SkipOneIPCMessage(stream[pos:])
		if err != nil {
			return false // truncated metadata: the reader fails on EOF before any body allocation
		}
		if n < 0 || n > len(stream)-pos+limit {
			return true
		}
		if n > len(stream)-pos || n == 0 {
			return false
		}
		pos += n
	}
	return false
}

// c35CheckSlot: a written batch must occupy exactly one table entry inside the data area.
func c35CheckSlot(c *Case, seg *vgirpc.ShmSegment, l string, off uint64, ln int) {
	if off < vgirpc.ShmHeaderSize || off+uint64(ln) > uint64(seg.Size()) {
		c.Oracle("write-outside-data-area", fmt.Sprintf("%q: slot [%d,+%d) outside the data area", l, off, ln))
	}
	found := 0
	for _, e := range seg.VerifTable() {
		if e[0] == off && e[1] == uint64(ln) {
			found++
		} else if e[0] < off+uint64(ln) && off < e[0]+e[1] {
			c.Oracle("write-overlaps-slot", fmt.Sprintf("%q: slot [%d,+%d) overlaps table entry %v", l, off, ln, e))
		}
	}
	if found != 1 {
		c.Oracle("write-not-in-table", fmt.Sprintf("%q: slot [%d,+%d) appears %d times in the table", l, off, ln, found))
	}
}

// c35CheckResolvedMeta: pointer keys gone, every other entry kept in order, shm_source = segment
// name appended.
func c35CheckResolvedMeta(c *Case, l string, out arrow.RecordBatch, origK, origV []string, segName string) {
	ks, vs := c35MetaOf(out)
	var wantK, wantV []string
	seen := map[string]bool{}
	_ = seen
	for i := range origK {
		if origK[i] == c35KOff || origK[i] == c35KLen {
			continue
		}
		wantK, wantV = append(wantK, origK[i]), append(wantV, origV[i])
	}
	// through MaybeWriteToShm the original metadata passes through a map: compare as last-wins sets
	canon := func(k, v []string) string {
		m := map[string]string{}
		for i := range k {
			m[k[i]] = v[i]
		}
		keys := make([]string, 0, len(m))
		for kk := range m {
			keys = append(keys, kk)
		}
		sort.Strings(keys)
		var sb strings.Builder
		for _, kk := range keys {
			fmt.Fprintf(&sb, "%q=%q;", kk, m[kk])
		}
		return sb.String()
	}
	for i := range ks {
		if ks[i] == c35KOff || ks[i] == c35KLen {
			c.Oracle("pointer-key-not-stripped", fmt.Sprintf("%q: resolved batch still carries %s", l, ks[i]))
			return
		}
	}
	if n := len(ks); n == 0 || ks[n-1] != c35KSrc || vs[n-1] != segName {
		c.Oracle("source-key-missing", fmt.Sprintf("%q: resolved metadata %v/%v does not end with shm_source=<segment name>", l, ks, vs))
		return
	}
	if canon(ks[:len(ks)-1], vs[:len(vs)-1]) != canon(wantK, wantV) {
		c.Oracle("resolved-metadata-changed", fmt.Sprintf("%q: resolved metadata %v/%v, expected the original entries %v/%v", l, ks, vs, wantK, wantV))
	}
}
