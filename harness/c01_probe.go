package main

import (
	"bufio"
	"encoding/binary"
	"fmt"
	"io"
	"os"
	"os/exec"
	"runtime/debug"
	"strings"
	"sync"
	"syscall"
	"time"
)

// Screening child for inputs that may kill the PROCESS (not just panic): arrow-go's IPC reader
// sizes some allocations from untrusted flatbuffer fields (e.g. schemaFromFB:
// make([]arrow.Field, schema.FieldsLength())), so a few corrupted bytes can ask for tens of
// gigabytes and the Go runtime aborts with "fatal error: out of memory", which no recover()
// catches. Running such an input in the harness process would kill the whole run, so malformed
// inputs are first replayed in a child process of the same binary (env VERIF_PROBE=<name>) that
// has a 4 GiB address-space limit. The child answers per input:
//
//	'k'  survived          'p' a Go panic was recovered (the parent re-runs and classifies it)
//	other bytes: property-specific notes of the probe function (e.g. 's' = too slow to repeat)
//	<child died>           the input kills the process (reported by the parent as an oracle failure)
//
// Used by C01 (wire helpers on arbitrary bytes) and C03 (Serve / HTTP handler on arbitrary bytes).

var probeFuncs = map[string]func(data []byte) byte{}

// RegisterProbe is called from init() of the property files. f runs the code under test on data.
func RegisterProbe(name string, f func(data []byte) byte) { probeFuncs[name] = f }

const probeEnv = "VERIF_PROBE"

// probeChildMain is entered from init() below when the binary was started as a probe child.
func probeChildMain(name string) {
	lim := uint64(4) << 30
	_ = syscall.Setrlimit(syscall.RLIMIT_AS, &syscall.Rlimit{Cur: lim, Max: lim})
	debug.SetGCPercent(50)
	in := bufio.NewReader(os.Stdin)
	out := os.Stdout
	for {
		var hdr [4]byte
		if _, err := io.ReadFull(in, hdr[:]); err != nil {
			os.Exit(0)
		}
		data := make([]byte, binary.LittleEndian.Uint32(hdr[:]))
		if _, err := io.ReadFull(in, data); err != nil {
			os.Exit(0)
		}
		f := probeFuncs[name]
		ack := byte('k')
		func() {
			defer func() {
				if r := recover(); r != nil {
					ack = 'p'
				}
			}()
			if f != nil {
				ack = f(data)
			}
		}()
		if _, err := out.Write([]byte{ack}); err != nil {
			os.Exit(0)
		}
	}
}

type probeChild struct {
	cmd    *exec.Cmd
	in     io.WriteCloser
	out    *bufio.Reader
	stderr *probeTail
}

// probeTail keeps the first bytes the child wrote to stderr (the runtime's "fatal error: ..." line).
type probeTail struct {
	mu  sync.Mutex
	buf []byte
}

func (t *probeTail) Write(p []byte) (int, error) {
	t.mu.Lock()
	defer t.mu.Unlock()
	if len(t.buf) < 200 {
		t.buf = append(t.buf, p[:min(len(p), 200-len(t.buf))]...)
	}
	return len(p), nil
}

func (t *probeTail) firstLine() string {
	t.mu.Lock()
	defer t.mu.Unlock()
	s := string(t.buf)
	if i := strings.IndexByte(s, '\n'); i >= 0 {
		s = s[:i]
	}
	return s
}

var probeChildren = map[string]*probeChild{}

func probeStart(name string) (*probeChild, error) {
	cmd := exec.Command(os.Args[0], "list", "probe")
	cmd.Env = append(os.Environ(), probeEnv+"="+name)
	in, err := cmd.StdinPipe()
	if err != nil {
		return nil, err
	}
	outp, err := cmd.StdoutPipe()
	if err != nil {
		return nil, err
	}
	errBuf := &probeTail{}
	cmd.Stderr = errBuf
	if err := cmd.Start(); err != nil {
		return nil, err
	}
	return &probeChild{cmd: cmd, in: in, out: bufio.NewReader(outp), stderr: errBuf}, nil
}

// ProbeSurvives replays data in the screening child. survived=false: the child process died on
// this input (or did not answer within 60 s).
func ProbeSurvives(name string, data []byte) (survived bool, note string) {
	ch := probeChildren[name]
	if ch == nil {
		var err error
		ch, err = probeStart(name)
		if err != nil {
			panic("cannot start probe child: " + err.Error())
		}
		probeChildren[name] = ch
	}
	var hdr [4]byte
	binary.LittleEndian.PutUint32(hdr[:], uint32(len(data)))
	_, e1 := ch.in.Write(hdr[:])
	_, e2 := ch.in.Write(data)
	type ans struct {
		b   byte
		err error
	}
	res := make(chan ans, 1)
	go func() {
		b, err := ch.out.ReadByte()
		res <- ans{b, err}
	}()
	var a ans
	select {
	case a = <-res:
	case <-time.After(60 * time.Second):
		a = ans{0, fmt.Errorf("no answer within 60s")}
	}
	if e1 != nil || e2 != nil || a.err != nil {
		_ = ch.cmd.Process.Kill()
		state, _ := ch.cmd.Process.Wait()
		delete(probeChildren, name)
		st := ""
		if state != nil {
			st = state.String()
		}
		return false, fmt.Sprintf("child process died: %s; %s", st, ch.stderr.firstLine())
	}
	return true, string(a.b)
}

// probeEnter must be called at the end of the init() that registers a probe function: when the
// binary was started as the screening child for that function it never returns.
func probeEnter() {
	if name := os.Getenv(probeEnv); name != "" {
		if _, ok := probeFuncs[name]; ok {
			probeChildMain(name)
		}
	}
}

// ipcLargestDeclaredLength walks the IPC message framing of data the way arrow-go's message reader
// does (continuation marker / legacy length prefix, flatbuffer metadata, body of
// Message.bodyLength bytes) and returns the largest metadata or body length a frame DECLARES
// beyond the bytes actually present. The reader allocates a declared length before it notices the
// input is short, so a corrupted prefix of a few hundred megabytes only makes a run slow (it is
// the same "unexpected EOF" path as a small one); such inputs are skipped by the generators'
// callers. The walk stops at the first frame it cannot follow.
func ipcLargestDeclaredLength(data []byte) int64 {
	var worst int64
	u32 := func(off int) (uint32, bool) {
		if off < 0 || off+4 > len(data) {
			return 0, false
		}
		return binary.LittleEndian.Uint32(data[off:]), true
	}
	pos := 0
	for steps := 0; steps < 10000 && pos+4 <= len(data); steps++ {
		w, _ := u32(pos)
		pos += 4
		if w == 0xFFFFFFFF {
			var ok bool
			if w, ok = u32(pos); !ok {
				return worst
			}
			pos += 4
		}
		mlen := int64(int32(w))
		if mlen == 0 {
			continue // end-of-stream marker: the next stream may follow
		}
		if mlen < 0 {
			return worst
		}
		if mlen > int64(len(data)-pos) {
			if mlen > worst {
				worst = mlen
			}
			return worst
		}
		meta := data[pos : pos+int(mlen)]
		pos += int(mlen)
		// flatbuffer Message: root table -> vtable slot 3 = bodyLength (int64)
		body := int64(0)
		func() {
			if len(meta) < 8 {
				return
			}
			root := int(binary.LittleEndian.Uint32(meta))
			if root < 0 || root+4 > len(meta) {
				return
			}
			vt := root - int(int32(binary.LittleEndian.Uint32(meta[root:])))
			if vt < 0 || vt+4 > len(meta) {
				return
			}
			vlen := int(binary.LittleEndian.Uint16(meta[vt:]))
			slot := vt + 4 + 2*3
			if slot+2 > vt+vlen || slot+2 > len(meta) {
				return
			}
			fo := int(binary.LittleEndian.Uint16(meta[slot:]))
			if fo == 0 || root+fo+8 > len(meta) {
				return
			}
			body = int64(binary.LittleEndian.Uint64(meta[root+fo:]))
		}()
		if body < 0 {
			return worst
		}
		if body > int64(len(data)-pos) {
			if body > worst {
				worst = body
			}
			return worst
		}
		pos += int(body)
	}
	return worst
}
