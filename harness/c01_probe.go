package main

import (
	"bufio"
	"encoding/binary"
	"fmt"
	"io"
	"os"
	"os/exec"
	"runtime/debug"
	"syscall"
	"time"
)

// Screening child for inputs that may kill the PROCESS (not just panic): arrow-go's IPC reader
// sizes some allocations from untrusted flatbuffer fields (e.g. schemaFromFB:
// make([]arrow.Field, schema.FieldsLength())), so a few corrupted bytes can ask for tens of
// gigabytes and the Go runtime aborts with "fatal error: out of memory", which no recover()
// catches. Running such an input in the harness process would kill the whole run, so malformed
// inputs are first replayed in a child process of the same binary (env VERIF_PROBE=<name>) that
// has a 4 GiB address-space limit. The child answers per input:
//
//	'k'  survived          'p' a Go panic was recovered (the parent re-runs and classifies it)
//	<child died>           the input kills the process (reported by the parent as an oracle failure)
//
// Used by C01 (wire helpers on arbitrary bytes) and C03 (Serve / HTTP handler on arbitrary bytes).

var probeFuncs = map[string]func(data []byte){}

// RegisterProbe is called from init() of the property files. f runs the code under test on data.
func RegisterProbe(name string, f func(data []byte)) { probeFuncs[name] = f }

const probeEnv = "VERIF_PROBE"

// probeChildMain is entered from init() below when the binary was started as a probe child.
func probeChildMain(name string) {
	lim := uint64(4) << 30
	_ = syscall.Setrlimit(syscall.RLIMIT_AS, &syscall.Rlimit{Cur: lim, Max: lim})
	debug.SetGCPercent(50)
	in := bufio.NewReader(os.Stdin)
	out := os.Stdout
	for {
		var hdr [4]byte
		if _, err := io.ReadFull(in, hdr[:]); err != nil {
			os.Exit(0)
		}
		data := make([]byte, binary.LittleEndian.Uint32(hdr[:]))
		if _, err := io.ReadFull(in, data); err != nil {
			os.Exit(0)
		}
		f := probeFuncs[name]
		ack := byte('k')
		func() {
			defer func() {
				if r := recover(); r != nil {
					ack = 'p'
				}
			}()
			if f != nil {
				f(data)
			}
		}()
		if _, err := out.Write([]byte{ack}); err != nil {
			os.Exit(0)
		}
	}
}

type probeChild struct {
	cmd *exec.Cmd
	in  io.WriteCloser
	out *bufio.Reader
}

var probeChildren = map[string]*probeChild{}

func probeStart(name string) (*probeChild, error) {
	cmd := exec.Command(os.Args[0], "list", "probe")
	cmd.Env = append(os.Environ(), probeEnv+"="+name)
	in, err := cmd.StdinPipe()
	if err != nil {
		return nil, err
	}
	outp, err := cmd.StdoutPipe()
	if err != nil {
		return nil, err
	}
	cmd.Stderr = io.Discard
	if err := cmd.Start(); err != nil {
		return nil, err
	}
	return &probeChild{cmd: cmd, in: in, out: bufio.NewReader(outp)}, nil
}

// ProbeSurvives replays data in the screening child. survived=false: the child process died on
// this input (or did not answer within 60 s).
func ProbeSurvives(name string, data []byte) (survived bool, note string) {
	ch := probeChildren[name]
	if ch == nil {
		var err error
		ch, err = probeStart(name)
		if err != nil {
			panic("cannot start probe child: " + err.Error())
		}
		probeChildren[name] = ch
	}
	var hdr [4]byte
	binary.LittleEndian.PutUint32(hdr[:], uint32(len(data)))
	_, e1 := ch.in.Write(hdr[:])
	_, e2 := ch.in.Write(data)
	type ans struct {
		b   byte
		err error
	}
	res := make(chan ans, 1)
	go func() {
		b, err := ch.out.ReadByte()
		res <- ans{b, err}
	}()
	var a ans
	select {
	case a = <-res:
	case <-time.After(60 * time.Second):
		a = ans{0, fmt.Errorf("no answer within 60s")}
	}
	if e1 != nil || e2 != nil || a.err != nil {
		_ = ch.cmd.Process.Kill()
		state, _ := ch.cmd.Process.Wait()
		delete(probeChildren, name)
		st := ""
		if state != nil {
			st = state.String()
		}
		return false, fmt.Sprintf("probe child died (%s %v)", st, a.err)
	}
	return true, string(a.b)
}

// probeEnter must be called at the end of the init() that registers a probe function: when the
// binary was started as the screening child for that function it never returns.
func probeEnter() {
	if name := os.Getenv(probeEnv); name != "" {
		if _, ok := probeFuncs[name]; ok {
			probeChildMain(name)
		}
	}
}
