package main

import (
	"fmt"
	"net/url"
	"strings"
)

// ---------------------------------------------------------------------------------------------
// generators
// ---------------------------------------------------------------------------------------------

var c27Allowable = []string{
	"https://allowed.example", "https://allowed.example:8443", "http://app.test", "http://app.test:3000",
	"https://cupola.query-farm.services", "http://::1", "https://[::1]", "http://localhost:3000",
	"https://ALLOWED.example", "https://allowed.example/", "https://xn--caf-dma.example", "https://caf\xc3\xa9.example",
	"http://10.0.0.1", "https://a%b.example", "",
	"https://allowed.example:443", "http://app.test:80", "HTTPS://Allowed.Example:8443", " https://allowed.example:8443 ", "https://allowed.example:8443/", "https://port.example:9443",
}

func c27GenAllow(r *Rng) []string {
	n := r.Intn(4)
	seen := map[string]bool{}
	var out []string
	for i := 0; i < n; i++ {
		a := Pick(r, c27Allowable)
		if r.Chance(60) {
			a = c27Allowable[r.Intn(5)]
		} else if r.Chance(35) {
			a = Pick(r, []string{"https://allowed.example:8443", "http://app.test:3000", "https://port.example:9443", "https://allowed.example:443", "http://app.test:80"})
		}
		if !seen[a] {
			seen[a] = true
			out = append(out, a)
		}
	}
	return out
}

func c27Hex(r *Rng, lo, hi int) string {
	n := r.Range(lo, hi)
	const d = "0123456789abcdefABCDEF"
	b := make([]byte, n)
	for i := range b {
		b[i] = d[r.Intn(len(d))]
	}
	return string(b)
}

func c27GenIPv6(r *Rng) string {
	if r.Chance(25) {
		return Pick(r, []string{"::1", "::", "1::", "::ffff:1.2.3.4", "fe80::1%25eth0", "fe80::1%eth0", "1:2:3:4:5:6:7:8", "1:2:3:4:5:6:7::",
			"1:2:3:4:5:6:7:8:9", "1:2:3:4:5:6:1.2.3.4", "::1.2.3.4", "1::2::3", ":1", "1:", "12345::", "::g", "::1%25", "::1%25a b", "::1%2541",
			"::1%25%zz", "::1%25%7f", "::01.2.3.4", "::1.2.3", "::1.2.3.4.5", "::1.2.3.256", "::1.2..4", "1.2.3.4", "::1.2.3.4.", "::.1.2.3",
			"1:2:3:4:5:6:7:1.2.3.4", "1:2:3:4:5::1.2.3.4", "::%2541", "%25", "", "::1]", "a", "::a.b.c.d", "::ffff:1.2.3.4%25z", "0:0:0:0:0:0:0:0", "::0:0:0:0:0:0:0:0"})
	}
	var b strings.Builder
	groups := r.Range(1, 9)
	ell := -1
	if r.Chance(60) {
		ell = r.Intn(groups + 1)
	}
	for i := 0; i < groups; i++ {
		if i == ell {
			b.WriteString("::")
		} else if i > 0 {
			b.WriteString(":")
		}
		if i == groups-1 && r.Chance(15) {
			fmt.Fprintf(&b, "%d.%d.%d.%d", r.Intn(300), r.Intn(256), r.Intn(256), r.Intn(256))
		} else {
			b.WriteString(c27Hex(r, 1, 4+r.Intn(2)*r.Intn(2)))
		}
	}
	if ell == groups {
		b.WriteString("::")
	}
	if r.Chance(15) {
		b.WriteString(Pick(r, []string{"%25eth0", "%25", "%eth0", "%251", "%25a%20b", "%25a%2fb"}))
	}
	return b.String()
}

// c27PortVariant takes an allowlist entry and returns the same scheme+host with the port dropped,
// replaced or (for a port-less entry) added: the entries that name a port must match on it.
func c27PortVariant(r *Rng, entry string) string {
	i := strings.Index(entry, "://")
	if i < 0 {
		return entry
	}
	host := strings.TrimSuffix(strings.TrimSpace(entry[i+3:]), "/")
	scheme := strings.TrimSpace(entry[:i])
	if j := strings.LastIndex(host, ":"); j >= 0 && !strings.Contains(host[j:], "]") {
		host = host[:j]
	}
	return scheme + "://" + host + Pick(r, []string{"", "", ":8443", ":9999", ":443", ":80", ":3000", ":1", ":", ":08443", ":9443"})
}

// c27GenURL draws a URL-ish string from a component grammar, steering toward the allowlist.
func c27GenURL(r *Rng, allow []string) string {
	hosts := []string{"allowed.example", "app.test", "cupola.query-farm.services", "localhost", "127.0.0.1", "[::1]", "evil.example",
		"allowed.example.evil.example", "evil.example\\.allowed.example", "LOCALHOST", "Allowed.Example", "localhost.", "%6cocalhost", "xn--caf-dma.example",
		"caf\xc3\xa9.example", "caf%C3%A9.example", "a b", "a%25b", "a%b.example", "[", "]", "[::1", "::1]", "::1", "1.2.3.4", "[1.2.3.4]", "10.0.0.1", "host:80", "",
		"127.0.0.1.evil.example", "localhost@evil.example", "evil.example#@allowed.example", "evil.example?@allowed.example", "evil.example/@allowed.example",
		"allowed.example%2f", "allowed.example%00", "allowed.example%ff", "a\"b", "a<b>", "a^b", "a|b", "a{b}", "a`b", "a~b_-.!$&'()*+,;=", "[::1]a", "[::1]]", "[[::1]", "x[::1]"}
	for _, a := range allow {
		if i := strings.Index(a, "://"); i >= 0 {
			hosts = append(hosts, a[i+3:])
		}
	}
	if r.Chance(30) {
		// well-formed candidates around the allowlist: scheme/host/port recombined
		base := Pick(r, append([]string{"http://localhost", "http://127.0.0.1", "http://localhost:5173", "https://localhost", "http://[::1]:3000", "https://evil.example",
			"http://127.0.0.1.evil.example", "http://127.evil.example:8080", "http://127.0.0.2", "http://127.1", "http://localhost.evil.example", "http://localhostevil.example", "http://evil.example/localhost", "http://0.0.0.0", "http://[::ffff:127.0.0.1]"}, allow...))
		if r.Chance(30) {
			if i := strings.Index(base, "://"); i >= 0 {
				base = Pick(r, []string{"http", "https", "HTTPS", "Http"}) + base[i:]
			}
		}
		if r.Chance(25) {
			base += Pick(r, []string{":8443", ":3000", ":80", ":", ":443", ":08443"})
		} else if r.Chance(40) && len(allow) > 0 {
			base = c27PortVariant(r, Pick(r, allow))
		}
		if r.Chance(15) {
			if i := strings.Index(base, "://"); i >= 0 {
				base = base[:i+3] + Pick(r, []string{"user@", "u:p@", "allowed.example@", "a%40b@"}) + base[i+3:]
			}
		}
		return base + Pick(r, []string{"", "/", "/app", "/app?x=1", "/app#frag", "?q", "#f", "/a%2Fb", "/%zz", "/p#%zz", "/p?%zz", "\\x", "/\\x", "/p#a#b", "/p?x=y#a=b&c=d"})
	}
	scheme := Pick(r, []string{"http", "https", "https", "https", "http", "HTTP", "hTTps", "ftp", "javascript", "data", "ws", "http+x", "h-t.p", "1http", "", "", "ht tp", "http\\", "%68ttp", "file"})
	sep := Pick(r, []string{"://", "://", "://", "://", "://", ":/", ":", ":///", ":\\\\", "//", "", ":/\\", "://\\", ":////"})
	if scheme == "" {
		sep = Pick(r, []string{"", "//", "/", "///", "\\\\", "/\\", ":", "://", "////", "?", "#"})
	}
	user := Pick(r, []string{"", "", "", "", "", "user@", "user:pass@", "a@b@", "allowed.example@", "allowed.example:443@", "%41@", "%zz@", "%4@", "us er@", "\\@", "a/b@",
		"u:p:q@", ":@", "@", "caf\xc3\xa9@", "a%2Fb:c%40d@", "localhost@", "https://allowed.example@"})
	host := Pick(r, hosts)
	if r.Chance(10) {
		host = "[" + c27GenIPv6(r) + "]"
	}
	port := Pick(r, []string{"", "", "", "", ":", ":80", ":443", ":8443", ":3000", ":080", ":abc", ":80a", ":-1", ":65536", ":99999999999", ":80:90", "::80", ":8443:", ":+1", ":%38%30", ": 80"})
	path := Pick(r, []string{"", "", "/", "/p", "/p/q", "/p%2Fq", "/%zz", "/%4", "/%", "/\\evil.example", "//evil.example", "/a b", "/a:b", "/.", "/..", "/;x", "/@", "/\xff", "/%00", "/p\x7f", "/p\x01"})
	query := Pick(r, []string{"", "", "", "?", "?a=b", "?a=%zz", "??", "?a=b?c", "?x=/y", "?x=//evil.example", "?x=\\", "?\xc3\xa9", "?a b", "?%"})
	frag := Pick(r, []string{"", "", "", "#", "#f", "#%zz", "#a#b", "#\x01", "#a b", "#/p?q", "#token=x", "#%41", "#%4", "#\r\nX: y", "#\xff"})
	u := scheme + sep + user + host + port + path + query + frag
	// byte noise
	for r.Chance(12) && len(u) > 0 {
		i := r.Intn(len(u) + 1)
		nb := Pick(r, []string{"\\", "/", "@", ":", "#", "?", "%", "[", "]", " ", "\t", "\n", "\x00", "\x7f", "\x80", "\xff", ".", "%2f", "%5c", "%40", "%25", "%00", "*", "+", "a"})
		switch r.Intn(3) {
		case 0:
			u = u[:i] + nb + u[i:]
		case 1:
			if i < len(u) {
				u = u[:i] + nb + u[i+1:]
			}
		case 2:
			if i < len(u) {
				u = u[:i] + u[i+1:]
			}
		}
	}
	return u
}

// c27GenLocalURL draws an original-URL candidate (what validateOriginalURL may be handed).
func c27GenLocalURL(r *Rng, prefix string) string {
	q := Pick(r, []string{"", "", "?a=b", "?", "?x=//evil.example", "?x=https://evil.example", "?\\\\evil", "?#", "?%zz", "?a=b&_vgi_return_to=https%3A%2F%2Fevil.example", "?\xc3\xa9=\xff", "?a#b", "?a b", "?\x01"})
	switch r.Intn(10) {
	case 0, 1, 2:
		return prefix + Pick(r, []string{"", "/describe", "/", "/describe/", "X", "/..", "/../x", "//x", "/\\x", "%2f"}) + q
	case 3:
		return "/" + q
	case 4:
		return Pick(r, []string{"//evil.example", "///evil.example", "////evil.example", "/\\evil.example", "\\\\evil.example", "\\/evil.example", "/\\/evil.example", "/\t/evil.example",
			"https://evil.example", "https:evil.example", "https:/evil.example", "HTTPS://evil.example", "javascript:alert(1)", "//evil.example" + prefix, "//evil.example/" + prefix,
			"", "*", "?", "#", "relative", "rel:ative", "./x", "../x", ":", ":x", "/:x", "a/b:c", "http:", "mailto:a@b", "//", "///", "//@", "//:80", "//[::1]", "//%zz", "/%zz", "/%2f%2fevil.example",
			"/%5cevil.example", "/.//evil.example", "/..//evil.example", "//evil.example\\@" + prefix, "/#//evil.example", "/?//evil.example", "//evil.example%2f..", "%2f%2fevil.example"}) + q
	case 5:
		return prefix + "?" + strings.Repeat("a", r.Range(2030, 2060)-len(prefix)) + Pick(r, []string{"", "%", "%4", "%41", "#", "//x"})
	case 6:
		return prefix + "/describe?" + strings.Repeat("b=%41&", r.Range(330, 345))
	default:
		return c27GenURL(r, nil)
	}
}

func c27RandField(r *Rng, kind int) []byte {
	switch r.Intn(10) {
	case 0:
		return nil
	case 1:
		return r.Bytes(r.Range(1, 4))
	case 2:
		return r.Bytes(Pick(r, []int{255, 256, 257, 2047, 2048, 2049}))
	case 3, 4:
		return r.Bytes(r.Range(0, 300))
	}
	switch kind {
	case 0: // verifier
		const a = "ABCDEFGHIJKLMNOPQRSTUVWXYZabcdefghijklmnopqrstuvwxyz0123456789-_"
		b := make([]byte, 43)
		for i := range b {
			b[i] = a[r.Intn(len(a))]
		}
		return b
	case 1: // state
		const a = "ABCDEFGHIJKLMNOPQRSTUVWXYZabcdefghijklmnopqrstuvwxyz0123456789-_"
		b := make([]byte, 32)
		for i := range b {
			b[i] = a[r.Intn(len(a))]
		}
		return b
	case 2:
		return []byte(c27GenLocalURL(r, Pick(r, []string{"", "/vgi", "/api/v1"})))
	default:
		if r.Bool() {
			return nil
		}
		return []byte(c27GenURL(r, c27Allowable[:5]))
	}
}

func c27GenMut(r *Rng, approxRawLen int) string {
	b64len := (approxRawLen + 2) / 3 * 4
	switch r.Intn(14) {
	case 0, 1, 2:
		// every region: version, timestamp, lengths, fields, MAC
		return fmt.Sprintf("flip:%d:%d", r.Intn(approxRawLen+1), 1<<uint(r.Intn(8)))
	case 3:
		return fmt.Sprintf("flip:%d:%d", Pick(r, []int{0, 1, 8, 9, 10, approxRawLen - 32, approxRawLen - 33, approxRawLen - 1}), r.Range(1, 255))
	case 4:
		return fmt.Sprintf("trunc:%d", Pick(r, []int{1, 2, 31, 32, 33, approxRawLen - 49, approxRawLen - 48, approxRawLen, r.Intn(approxRawLen + 1)}))
	case 5:
		return fmt.Sprintf("cut64:%d", Pick(r, []int{1, 2, 3, 4, 5, r.Intn(b64len + 1)}))
	case 6:
		return "nopad"
	case 7:
		return fmt.Sprintf("nl:%d", r.Intn(b64len+1))
	case 8:
		return fmt.Sprintf("extra:%d", r.Range(1, 40))
	case 9:
		return fmt.Sprintf("lenbump:%d:%d", r.Intn(4), Pick(r, []int{1, -1, 2, 255, 256, 65535, 30000, r.Range(-40, 40)}))
	case 10:
		return fmt.Sprintf("b64set:%d:%d", r.Intn(b64len+1), Pick(r, []int{'A', 'B', '-', '_', '+', '/', '=', ' ', '.', 'z', '0', 0, 255, '\r'}))
	case 11:
		return fmt.Sprintf("b64set:%d:%d", b64len-1-r.Intn(3), Pick(r, []int{'A', 'B', 'Q', 'g', 'w', '=', '-'}))
	default:
		return "none"
	}
}

func c27CraftSpec(r *Rng, key string, own bool, maxAge int, forceMut string) (spec string, nontrivialLen int) {
	v, s, u, rt := c27RandField(r, 0), c27RandField(r, 1), c27RandField(r, 2), c27RandField(r, 3)
	rawLen := 9 + 8 + len(v) + len(s) + len(u) + len(rt) + 32
	t := ""
	switch r.Intn(12) {
	case 0:
		t = fmt.Sprintf("d%d", -maxAge)
	case 1:
		t = fmt.Sprintf("d%d", -maxAge-1)
	case 2:
		t = fmt.Sprintf("d%d", -maxAge+1)
	case 3:
		t = "d1"
	case 4:
		t = "d0"
	case 5:
		t = Pick(r, []string{"a0", "a1", "a9223372036854775807", "a9223372036854775808", "a18446744073709551615", "a18446744073709551015", "a4102444800", "d-86400", "d3600", "d2", "d-1"})
	default:
		t = fmt.Sprintf("d%d", -r.Intn(maxAge+1))
	}
	ver := 4
	if r.Chance(8) {
		ver = Pick(r, []int{0, 1, 2, 3, 5, 255, 132})
	}
	k := "own"
	if !own {
		k = key
	}
	mut := forceMut
	if mut == "" {
		mut = "none"
		if r.Chance(55) {
			mut = c27GenMut(r, rawLen)
		}
	}
	return fmt.Sprintf("craft/%s/%d/%s/%s/%s/%s/%s/%s", t, ver, X(v), X(s), X(u), X(rt), k, mut), rawLen
}

func c27GenKey(r *Rng) []byte {
	switch r.Intn(6) {
	case 0:
		return r.Bytes(16)
	case 1:
		return r.Bytes(Pick(r, []int{63, 64, 65, 100}))
	case 2:
		return []byte("test-signing-key-32-bytes-long!!")
	default:
		return r.Bytes(32)
	}
}

func c27Token(r *Rng) string {
	const a = "ABCDEFGHIJKLMNOPQRSTUVWXYZabcdefghijklmnopqrstuvwxyz0123456789._-"
	n := r.Range(8, 40)
	b := make([]byte, n)
	for i := range b {
		b[i] = a[r.Intn(len(a))]
	}
	return "T" + string(b)
}

// c27CleanReturn: flow-level return URLs carry no control bytes (a header cannot transport them
// unchanged) and no spaces.
func c27CleanReturn(u string) bool {
	for i := 0; i < len(u); i++ {
		if u[i] < 0x21 || u[i] == 0x7f {
			return false
		}
	}
	return len(u) < 600
}

func c27GenFlowReturn(r *Rng, allow []string) string {
	for tries := 0; tries < 50; tries++ {
		var u string
		switch r.Intn(8) {
		case 0, 1, 2:
			base := Pick(r, append([]string{"http://localhost", "http://localhost:5173", "http://127.0.0.1:8080", "https://cupola.query-farm.services"}, allow...))
			u = base + Pick(r, []string{"", "/", "/app", "/app?x=1", "/app#frag", "/app?x=1#a=b", ":9999/x", "/cb?next=https://evil.example", "#"})
		case 3:
			u = ""
		case 4:
			u = c27PortVariant(r, Pick(r, allow)) + Pick(r, []string{"", "/", "/app", "/app?x=1#frag"})
		default:
			u = c27GenURL(r, allow)
		}
		if c27CleanReturn(u) {
			return u
		}
	}
	return ""
}

func c27QuerySafe(s string) string {
	// raw query bytes a request line can carry: no space, no control bytes
	var b []byte
	for i := 0; i < len(s); i++ {
		if s[i] > 0x20 && s[i] != 0x7f {
			b = append(b, s[i])
		}
	}
	return string(b)
}

func c27GenTarget(r *Rng, prefix string, allow []string) string {
	root := prefix
	if root == "" {
		root = "/"
	}
	path := Pick(r, []string{root, root, prefix + "/describe", prefix + "/describe"})
	if r.Chance(25) {
		// raw request targets probing which paths reach the page handlers at all
		path = Pick(r, []string{"//evil.example", "///evil.example", "/\\evil.example", "/%2F%2Fevil.example", "/%5Cevil.example", "/.//evil.example", prefix + "/", prefix + "//describe",
			prefix + "/describe/", prefix + "/../describe", prefix + "/%64escribe", prefix + "/describe%2F", prefix + "X", prefix + "/descr%69be", "/", "//", prefix + "/./describe",
			"https://evil.example" + root, "http://evil.example/", "*", prefix + "/describe;x", prefix + "/_oauth/callback", prefix + "/_oauth/logout", prefix + "/health"})
	}
	var parts []string
	if r.Chance(60) {
		parts = append(parts, "_vgi_return_to="+url.QueryEscape(c27GenFlowReturn(r, allow)))
	}
	for r.Chance(35) {
		parts = append(parts, c27QuerySafe(Pick(r, []string{"a=b", "x=//evil.example", "x=https://evil.example/", "next=\\\\evil", "%zz", "a=%4", "#frag", "a=b#c", "\xc3\xa9=\xff", "q=" + strings.Repeat("z", r.Range(1, 2100)),
			"_vgi_return_to=https%3A%2F%2Fevil.example", "_VGI_RETURN_TO=https://allowed.example", "a;b=c", "_vgi_return_to", "?", "??x", "a=b&&c", "%00", "a[]=1", "'\"<>", "{}|^`"})))
	}
	if r.Chance(15) && len(parts) > 1 {
		parts[0], parts[len(parts)-1] = parts[len(parts)-1], parts[0]
	}
	if len(parts) == 0 {
		if r.Chance(10) {
			return path + "?"
		}
		return path
	}
	return path + "?" + strings.Join(parts, "&")
}

func c27Gen(g *Gen) {
	r := g.Rng

	// ---- unit stream 1: cookie codec
	for i, n := 0, g.N(2500, 40000); i < n; i++ {
		key := c27GenKey(r)
		maxAge := Pick(r, []int{600, 600, 600, 1, 5, 0, -1, 86400})
		var lines []string
		for k, m := 0, r.Range(1, 5); k < m; k++ {
			switch r.Intn(10) {
			case 0, 1:
				v, s, u, rt := c27RandField(r, 0), c27RandField(r, 1), c27RandField(r, 2), c27RandField(r, 3)
				if r.Intn(300) == 0 {
					u = r.Bytes(Pick(r, []int{65535, 65536, 65537, 70000}))
				}
				t := Pick(r, []int64{0, 1, 1700000000, 1790000000, -1, 9223372036854775807, -9223372036854775808, int64(r.U64())})
				lines = append(lines, fmt.Sprintf("pack %s %s %s %s %s %d", X(v), X(s), X(u), X(rt), X(key), t))
			case 2:
				// foreign key
				other := c27GenKey(r)
				if r.Chance(30) && len(key) > 0 {
					other = append([]byte{}, key...)
					other[r.Intn(len(other))] ^= 1 << uint(r.Intn(8))
				}
				spec, _ := c27CraftSpec(r, X(other), false, maxAge, "none")
				lines = append(lines, fmt.Sprintf("unpack %s %s %d", spec, X(key), maxAge))
			case 3:
				// garbage literals
				lit := Pick(r, []string{"", "A", "AA", "AAA", "AAAA", "====", "AA==", "AAA=", "A===", "AA=A", "AAA=AAAA", strings.Repeat("A", 66), strings.Repeat("A", 65), strings.Repeat("_", 68),
					strings.Repeat("-", 100) + "==", "!!!!", strings.Repeat("A", 64) + "\n" + strings.Repeat("A", 4), string(r.Bytes(r.Range(0, 120))), strings.Repeat("BAAA", 30)})
				lines = append(lines, fmt.Sprintf("unpack %s %s %d", XS(lit), X(key), maxAge))
			default:
				spec, _ := c27CraftSpec(r, "", true, maxAge, "")
				lines = append(lines, fmt.Sprintf("unpack %s %s %d", spec, X(key), maxAge))
			}
		}
		g.Case(lines...)
	}
	if g.Thorough() {
		// exhaustive single-byte tampering and truncation of one honest cookie
		key := []byte("0123456789abcdef0123456789abcdef")
		base := "craft/d-5/4/" + XS("verifier-verifier-verifier-verifier-verifi") + "/" + XS("state-state-state-state-state-st") + "/" + XS("/vgi/describe?a=b") + "/" + XS("https://allowed.example/app") + "/own/"
		rawLen := 9 + 8 + 43 + 32 + 17 + 27 + 32
		for i := 0; i < rawLen; i++ {
			var lines []string
			for bit := 0; bit < 8; bit++ {
				lines = append(lines, fmt.Sprintf("unpack %sflip:%d:%d %s 600", base, i, 1<<uint(bit), X(key)))
			}
			lines = append(lines, fmt.Sprintf("unpack %strunc:%d %s 600", base, i+1, X(key)))
			g.Case(lines...)
		}
		for i := 0; i <= (rawLen+2)/3*4; i++ {
			g.Case(fmt.Sprintf("unpack %scut64:%d %s 600", base, i, X(key)), fmt.Sprintf("unpack %snl:%d %s 600", base, i, X(key)))
		}
		for d := -606; d <= 6; d++ {
			if d > -595 && d < -5 {
				continue
			}
			g.Case(fmt.Sprintf("unpack craft/d%d/4/x61/x62/x2f/x/own/none %s 600", d, X(key)))
		}
	}

	// ---- unit stream 2: URL parser tie + validators
	for i, n := 0, g.N(2500, 40000); i < n; i++ {
		allow := c27GenAllow(r)
		var lines []string
		for k := 0; k < 12; k++ {
			u := c27GenURL(r, allow)
			switch r.Intn(4) {
			case 0:
				lines = append(lines, "parse "+XS(u))
			case 1:
				pfx := Pick(r, []string{"", "", "/vgi", "/api/v1", "/a", "/vgi", "/", ""})
				lines = append(lines, fmt.Sprintf("origurl %s %s", XS(c27GenLocalURL(r, pfx)), XS(pfx)))
			default:
				if r.Chance(4) {
					u = "https://allowed.example/" + strings.Repeat("p", Pick(r, []int{2023, 2024, 2025, 2100}))
				}
				lines = append(lines, fmt.Sprintf("returnto %s %s", XS(u), c27ListX(allow)))
			}
		}
		if r.Chance(30) {
			lines = append(lines, "parse "+XS("http://["+c27GenIPv6(r)+"]"+Pick(r, []string{"", ":80", "/p", ":x"})))
			lines = append(lines, fmt.Sprintf("returnto %s %s", XS("http://["+c27GenIPv6(r)+"]:3000/x"), c27ListX(append(allow, "http://::1"))))
		}
		g.Case(lines...)
	}

	// ---- flow stream: real server
	for i, n := 0, g.N(400, 6000); i < n; i++ {
		prefix := Pick(r, []string{"", "", "/vgi", "/vgi", "/api/v1", "/a"})
		allow := c27GenAllow(r)
		var clean []string
		for _, a := range allow {
			if a != "" {
				clean = append(clean, a)
			}
		}
		key := c27GenKey(r)
		disc := "1"
		if r.Chance(6) {
			disc = "0"
		}
		lines := []string{fmt.Sprintf("cfg %s %s %s %s", XS(prefix), c27ListX(clean), X(key), disc)}
		effective := append([]string{"https://cupola.query-farm.services"}, clean...)
		for k, m := 0, r.Range(2, 7); k < m; k++ {
			tok, exp := "-", "0"
			if r.Chance(30) {
				switch r.Intn(3) {
				case 0:
					tok = XS(c27Token(r))
				case 1:
					tok, exp = XS("eyJhbGciOiJub25lIn0.eyJleHAiOjF9.sig"), "1" // {"exp":1}
				case 2:
					tok = XS("eyJhbGciOiJub25lIn0.eyJleHAiOjMyNTAzNjgwMDAwfQ.sig") // {"exp":32503680000}
				}
			}
			lines = append(lines, fmt.Sprintf("page %s %s %s", XS(c27GenTarget(r, prefix, effective)), tok, exp))
			if r.Chance(75) {
				lines = append(lines, c27GenCallback(r, prefix, effective))
			}
		}
		g.Case(lines...)
	}
}

func c27GenCallback(r *Rng, prefix string, allow []string) string {
	errP, code, state := "", "code-"+c27Token(r), "$"
	switch r.Intn(14) {
	case 0:
		errP = Pick(r, []string{"access_denied", "x", "<script>"})
	case 1:
		code = ""
	case 2:
		state = "x"
	case 3:
		state = XS("not-the-state")
	case 4:
		state = XS(c27Token(r))
	case 6, 7:
		state = "~"
	case 5:
		code = string(r.Bytes(r.Range(1, 20)))
	}
	idp := "ok:" + XS(c27Token(r))
	if r.Chance(12) {
		idp = Pick(r, []string{"fail:http500", "fail:nojson", "fail:notoken"})
	}
	cookie := "$"
	switch r.Intn(12) {
	case 0:
		cookie = "-"
	case 1, 2, 3:
		cookie = "$/" + c27GenMut(r, 9+8+43+32+30+30+32)
	case 4:
		cookie = XS(Pick(r, []string{"AAAA", "x", strings.Repeat("A", 68), strings.Repeat("QUFB", 40)}))
	case 5, 6:
		// crafted with the server's own key: the server re-validates the original URL; return_to is
		// kept to values the login path itself would have packed
		st := c27Token(r)
		rt := ""
		if r.Chance(40) {
			base := Pick(r, allow)
			if c27ReturnAllowed(base, allow) && c27CleanReturn(base) && strings.Count(base, "/") == 2 {
				rt = base + Pick(r, []string{"", "/", "/app#x", "/app?y"})
			}
		}
		orig := c27GenLocalURL(r, prefix)
		if !c27CleanReturn(orig) {
			orig = prefix + "/describe"
		}
		t := Pick(r, []string{"d0", "d-1", "d-599", "d-600", "d-601", "d1", "d2", "d-3600", "a0", "a18446744073709551615"})
		ver := 4
		if r.Chance(10) {
			ver = 3
		}
		cookie = fmt.Sprintf("craft/%s/%d/%s/%s/%s/%s/own/none", t, ver, XS("verifier-"+c27Token(r)), XS(st), XS(orig), XS(rt))
		if r.Chance(70) {
			state = XS(st)
		}
	case 7:
		// foreign key
		st := c27Token(r)
		cookie = fmt.Sprintf("craft/d0/4/%s/%s/%s/%s/%s/none", XS("verifier"), XS(st), XS(prefix+"/describe"), XS("https://evil.example/"), X(r.Bytes(32)))
		state = XS(st)
	}
	return fmt.Sprintf("callback %s %s %s %s %s", XS(errP), XS(code), state, cookie, idp)
}
