package main

// Shared world executor for the sealed-state-token family (C12, C13, C14, C15).
//
// One script language drives REAL HttpServer instances in-process (ServeHTTP with a recorder):
//
//	inst <name> key=x.. ttl=<ms> cache=<n> sticky=<0|1> sid=x<serverid> rehydrate=<0|1> hook=<0|1>
//	aad <cursor|call> <ident>            ikey <ident>            norm x<key>
//	init <inst> <ident> <method> limit=<n> sess=<tok> cur=<slot> call=<slot>
//	cont <inst> <ident> <method> cur=<tok> call=<tok> cancel=<0|1> sess=<tok> out=<slot> [pair=1]
//	mint cursor <slot> <inst> <ident> age=<s> callid=<@slot|new|x..> method=<m> skind=<P|E|B|N> count=<n> limit=<n>
//	mint call   <slot> <inst> <ident> age=<s> callid=<@slot|new|x..> schema=<0|1> streamid=<@slot|x..>
//	mint session <slot> <inst> <ident> serverid=<self|x..> sid=<@slot|x..>
//	advance <seconds>
//	sopen <inst> <ident> accept=<0|1> sess=<tok> out=<slot>     suse|sclose|sdel <inst> <ident> sess=<tok>
//
// <ident>: anon | a/x<domain>/x<principal> | n/x<domain>/x<principal>
// <tok>:   - | x<hex literal> | $slot[|mutation…]      (mutations: see tkMutate)
//
// Tokens are random (nonce, call id), so scripts name them by slot and describe alterations
// symbolically; the model line carries the resulting bytes. Time never waits: `advance` re-seals
// every held token one step older through the server's own sealToken (hook) and ages every cache
// entry, and the model is told the virtual clock.

import (
	"bytes"
	"context"
	"crypto/rand"
	"crypto/sha256"
	"encoding/base64"
	"encoding/hex"
	"fmt"
	"io"
	"net/http"
	"net/http/httptest"
	"regexp"
	"sort"
	"strconv"
	"strings"
	"time"

	"github.com/Query-farm/vgi-rpc-go/vgirpc"
	"github.com/apache/arrow-go/v18/arrow"
	"github.com/apache/arrow-go/v18/arrow/array"
	"github.com/apache/arrow-go/v18/arrow/ipc"
	"github.com/apache/arrow-go/v18/arrow/memory"
)

// ---------------------------------------------------------------- harness stream states

// The stream states carry a turn counter; every callback appends to the case's event log, so
// "no state method ran" is observable.

type TkStateP struct {
	Retag  string // the handler rewrites its CallContext.Method to this on every turn ("" = leaves it alone)
	Sess   bool   // the handler calls ctx.OpenSession on every turn (errors ignored)
	Origin string
	Count  int
	Limit  int
}
type TkStateE struct {
	Retag  string // the handler rewrites its CallContext.Method to this on every turn ("" = leaves it alone)
	Sess   bool   // the handler calls ctx.OpenSession on every turn (errors ignored)
	Origin string
	Count  int
	Limit  int
}
type TkStateB struct { // implements both interfaces
	Retag  string // the handler rewrites its CallContext.Method to this on every turn ("" = leaves it alone)
	Sess   bool   // the handler calls ctx.OpenSession on every turn (errors ignored)
	Origin string
	Count  int
	Limit  int
}
type TkStateN struct { // implements neither
	Retag  string // the handler rewrites its CallContext.Method to this on every turn ("" = leaves it alone)
	Sess   bool   // the handler calls ctx.OpenSession on every turn (errors ignored)
	Origin string
	Count  int
	Limit  int
}

var tkCur *tkWorld // the world of the case being executed (cases run one at a time)

func tkEvent(s string) {
	if tkCur != nil {
		tkCur.events = append(tkCur.events, s)
	}
}

func tkForeign(origin string, cc *vgirpc.CallContext) {
	if tkCur != nil && cc != nil && origin != cc.Method {
		tkCur.foreign = append(tkCur.foreign, fmt.Sprintf("state of %q ran under method %q", origin, cc.Method))
	}
}

var tkSchema = arrow.NewSchema([]arrow.Field{{Name: "value", Type: arrow.PrimitiveTypes.Int64}}, nil)

var tkSchema32 = arrow.NewSchema([]arrow.Field{{Name: "value", Type: arrow.PrimitiveTypes.Int32}}, nil)

// tkSchemaTag names the two input schemas the family uses.
func tkSchemaTag(s *arrow.Schema) string {
	switch {
	case s == nil:
		return "-"
	case s.Equal(tkSchema):
		return "i64"
	case s.Equal(tkSchema32):
		return "i32"
	}
	return "other"
}

func tkSchemaTagIPC(b []byte) string {
	switch {
	case len(b) == 0:
		return "-"
	case bytes.Equal(b, vgirpc.VerifC12SerializeSchema(tkSchema)):
		return "i64"
	case bytes.Equal(b, vgirpc.VerifC12SerializeSchema(tkSchema32)):
		return "i32"
	}
	return "other"
}

func tkSchemaOfTag(t string) []byte {
	switch t {
	case "i64":
		return vgirpc.VerifC12SerializeSchema(tkSchema)
	case "i32":
		return vgirpc.VerifC12SerializeSchema(tkSchema32)
	}
	return nil
}

func tkOneRow(v int64) arrow.Array {
	b := array.NewInt64Builder(memory.NewGoAllocator())
	defer b.Release()
	b.Append(v)
	return b.NewArray()
}

// tkBehave: what a scripted handler does to its CallContext besides its stream work — retag
// Method / RequestID (a handler may write these fields; they must not influence what the
// framework binds tokens to) and open a sticky session from inside a stream turn.
func tkBehave(retag string, sess bool, cc *vgirpc.CallContext) {
	if cc == nil {
		return
	}
	if sess {
		if err := cc.OpenSession(&tkSess{N: 1}, time.Hour); err == nil {
			tkEvent("opened:" + cc.SessionID())
		}
	}
	if retag != "" {
		cc.Method = retag
		cc.RequestID = "retagged"
	}
}

func tkProduce(origin string, count *int, limit int, out *vgirpc.OutputCollector, cc *vgirpc.CallContext) error {
	tkEvent("produce")
	tkForeign(origin, cc)
	*count++
	if *count > limit {
		return out.Finish()
	}
	col := tkOneRow(int64(*count))
	defer col.Release()
	return out.EmitArrays([]arrow.Array{col}, 1)
}

func tkExchange(origin string, count *int, in arrow.RecordBatch, out *vgirpc.OutputCollector, cc *vgirpc.CallContext) error {
	tkEvent("exchange:" + tkSchemaTag(in.Schema()))
	tkForeign(origin, cc)
	*count++
	col := tkOneRow(int64(*count))
	defer col.Release()
	return out.EmitArrays([]arrow.Array{col}, 1)
}

func tkCancel(origin string, cc *vgirpc.CallContext) error {
	tkEvent("cancel")
	tkForeign(origin, cc)
	return nil
}

func (s *TkStateP) Produce(_ context.Context, out *vgirpc.OutputCollector, cc *vgirpc.CallContext) error {
	defer tkBehave(s.Retag, s.Sess, cc)
	return tkProduce(s.Origin, &s.Count, s.Limit, out, cc)
}
func (s *TkStateP) OnCancel(_ context.Context, cc *vgirpc.CallContext) error {
	return tkCancel(s.Origin, cc)
}
func (s *TkStateE) Exchange(_ context.Context, in arrow.RecordBatch, out *vgirpc.OutputCollector, cc *vgirpc.CallContext) error {
	defer tkBehave(s.Retag, s.Sess, cc)
	return tkExchange(s.Origin, &s.Count, in, out, cc)
}
func (s *TkStateE) OnCancel(_ context.Context, cc *vgirpc.CallContext) error {
	return tkCancel(s.Origin, cc)
}
func (s *TkStateB) Produce(_ context.Context, out *vgirpc.OutputCollector, cc *vgirpc.CallContext) error {
	defer tkBehave(s.Retag, s.Sess, cc)
	return tkProduce(s.Origin, &s.Count, s.Limit, out, cc)
}
func (s *TkStateB) Exchange(_ context.Context, in arrow.RecordBatch, out *vgirpc.OutputCollector, cc *vgirpc.CallContext) error {
	defer tkBehave(s.Retag, s.Sess, cc)
	return tkExchange(s.Origin, &s.Count, in, out, cc)
}
func (s *TkStateB) OnCancel(_ context.Context, cc *vgirpc.CallContext) error {
	return tkCancel(s.Origin, cc)
}
func (s *TkStateN) OnCancel(_ context.Context, cc *vgirpc.CallContext) error {
	return tkCancel(s.Origin, cc)
}

type tkSess struct{ N int }

func init() {
	vgirpc.RegisterStateType(&TkStateP{})
	vgirpc.RegisterStateType(&TkStateE{})
	vgirpc.RegisterStateType(&TkStateB{})
	vgirpc.RegisterStateType(&TkStateN{})
}

func tkNewState(kind, origin string, count, limit int) interface{} {
	switch kind {
	case "P":
		return &TkStateP{Origin: origin, Count: count, Limit: limit}
	case "E":
		return &TkStateE{Origin: origin, Count: count, Limit: limit}
	case "B":
		return &TkStateB{Origin: origin, Count: count, Limit: limit}
	}
	return &TkStateN{Origin: origin, Count: count, Limit: limit}
}

func tkStateDesc(st interface{}) (kind string, count, limit int) {
	switch s := st.(type) {
	case *TkStateP:
		return "P", s.Count, s.Limit
	case *TkStateE:
		return "E", s.Count, s.Limit
	case *TkStateB:
		return "B", s.Count, s.Limit
	case *TkStateN:
		return "N", s.Count, s.Limit
	}
	return "?", 0, 0
}

// The registered method family (the same on every instance): name, type, state kind minted.
// in: static exchange methods — the registered input schema; dynamic methods — the input schema
// their /init declares at run time ("-" = none).
type tkMethod struct{ name, typ, kind, in string }

var tkMethods = []tkMethod{
	{"prod", "p", "P", "-"}, {"prod2", "p", "P", "-"}, {"pb", "p", "B", "-"},
	{"exch", "e", "E", "i64"}, {"exch2", "e", "E", "i64"}, {"exb", "e", "B", "i64"},
	{"dynp", "d", "P", "-"}, {"dyne", "d", "E", "i64"}, {"dynb", "d", "B", "i64"}, {"dynn", "d", "E", "-"},
	{"who", "u", "N", "-"}, {"open", "u", "N", "-"}, {"close", "u", "N", "-"},
}

func tkMethodsArg() string {
	var p []string
	for _, m := range tkMethods {
		p = append(p, m.name+":"+m.typ+":"+m.kind+":"+m.in)
	}
	return strings.Join(p, ",")
}

func tkStreamMethods() []string {
	var out []string
	for _, m := range tkMethods {
		if m.typ != "u" {
			out = append(out, m.name)
		}
	}
	return out
}

type tkParams struct {
	Value int64 `vgirpc:"value"`
}

// ---------------------------------------------------------------- identities

const tkIdentHeader = "X-Verif-Ident"

func tkAuthOf(id string) *vgirpc.AuthContext {
	if id == "anon" || id == "" {
		return vgirpc.Anonymous()
	}
	f := strings.Split(id, "/")
	if len(f) != 3 {
		panic("bad ident " + id)
	}
	return &vgirpc.AuthContext{Authenticated: f[0] == "a", Domain: UnXS(f[1]), Principal: UnXS(f[2])}
}

// tkSameIdent: two script identities denote the same caller.
func tkSameIdent(a, b string) bool {
	x, y := tkAuthOf(a), tkAuthOf(b)
	if !x.Authenticated || !y.Authenticated {
		return !x.Authenticated && !y.Authenticated
	}
	return x.Domain == y.Domain && x.Principal == y.Principal
}

// independent restatement of the documented AAD layout (oracle side)
func tkSpecAad(kind, id string) []byte {
	a := tkAuthOf(id)
	pre := "vgi_rpc.state.v4\x00"
	if kind == "call" {
		pre = "vgi_rpc.call.v1\x00"
	}
	if !a.Authenticated {
		return []byte(pre + "\x00anonymous")
	}
	return []byte(pre + "\x01" + a.Domain + "\x00" + a.Principal)
}

// ---------------------------------------------------------------- world

type tkInst struct {
	name      string
	key       []byte
	ttlMs     int64
	cache     int
	sticky    bool
	serverID  string
	rehydrate bool
	hook      bool
	external  bool // the server has an ExternalLocationConfig (fetches pointer batches)
	store     *tkStore
	srv       *vgirpc.Server
	h         *vgirpc.HttpServer
}

type tkSlot struct {
	kind   string // cursor | call | session
	inst   string // instance whose key sealed it
	ident  string
	tok    []byte
	vcreat int64 // virtual CreatedAt (seconds)
	callID string
	method string
	minter string // the route whose handler run minted it (cursor); == method unless the binding is broken
	state  interface{}
	schema []byte
	insch  []byte // InputSchemaIPC of a call token
	stream string
	server string
	sid    []byte
}

type tkWorld struct {
	c           *Case
	prop        string
	insts       map[string]*tkInst
	slots       map[string]*tkSlot
	delta       int64 // seconds the virtual clock is ahead of the wall clock
	events      []string
	foreign     []string
	streams     map[string]bool
	sigBody     map[string][]byte // per instance: first bad-signature response of the case (uniformity oracle)
	sigDesc     map[string]string
	lastPair    string              // outcome of the previous cont line (for pair=1)
	tight       bool                // the current request is phase-controlled: lifetime oracles use a 100 ms margin
	lastSeen    string              // what the exchange handler received on the previous cont line
	callStream  map[string]string   // callID -> stream id its call token carries
	streamOwner map[string]string   // hex(stream id) -> identity it was minted for
	streamMeth  map[string]string   // hex(stream id) -> method whose /init minted it
	warm        map[string][]string // instance|callID -> identities that legitimately warmed a cache entry there
}

// tkStore is the fake object store behind an instance's external-location config: an
// http.RoundTripper that serves uploaded IPC streams from memory (no network).
type tkStore struct{ objects map[string][]byte }

func (st *tkStore) RoundTrip(req *http.Request) (*http.Response, error) {
	b, ok := st.objects[req.URL.String()]
	if !ok {
		return &http.Response{StatusCode: 404, Body: io.NopCloser(bytes.NewReader(nil)), Header: http.Header{}, Request: req}, nil
	}
	return &http.Response{StatusCode: 200, Body: io.NopCloser(bytes.NewReader(b)), ContentLength: int64(len(b)), Header: http.Header{}, Request: req}, nil
}

type tkHook struct{}

func (tkHook) OnDispatchStart(ctx context.Context, info vgirpc.DispatchInfo) (context.Context, vgirpc.HookToken) {
	if info.MethodType == vgirpc.DispatchMethodStream {
		sid := "rnd"
		if tkCur != nil && tkCur.streams[info.StreamID] {
			sid = hex.EncodeToString([]byte(info.StreamID))
		}
		tkEvent("hs:" + hex.EncodeToString([]byte(info.Method)) + ":" + sid)
	}
	return ctx, info.MethodType
}
func (tkHook) OnDispatchEnd(_ context.Context, tok vgirpc.HookToken, _ vgirpc.DispatchInfo, _ *vgirpc.CallStatistics, _ error) {
	if tok == vgirpc.DispatchMethodStream {
		tkEvent("he")
	}
}

func (w *tkWorld) newInst(name string, f map[string]string) *tkInst {
	in := &tkInst{name: name}
	in.key = MustUnX(f["key"])
	in.ttlMs, _ = strconv.ParseInt(f["ttl"], 10, 64)
	in.cache, _ = strconv.Atoi(f["cache"])
	in.sticky = f["sticky"] == "1"
	in.serverID = UnXS(f["sid"])
	in.rehydrate = f["rehydrate"] == "1"
	in.hook = f["hook"] == "1"
	in.external = f["ext"] == "1"

	s := vgirpc.NewServer()
	s.SetServerID(in.serverID)
	for _, m := range tkMethods {
		m := m
		handler := func(_ context.Context, cc *vgirpc.CallContext, p tkParams) (*vgirpc.StreamResult, error) {
			tkEvent("init:" + m.name)
			limit, retagIdx, sess := int(p.Value%1000), int(p.Value/1000%100), p.Value/100000%2 == 1
			st := tkNewState(m.kind, m.name, 0, limit)
			retag := ""
			if retagIdx > 0 && retagIdx <= len(tkMethods) {
				retag = tkMethods[retagIdx-1].name
			}
			switch x := st.(type) {
			case *TkStateP:
				x.Retag, x.Sess = retag, sess
			case *TkStateE:
				x.Retag, x.Sess = retag, sess
			case *TkStateB:
				x.Retag, x.Sess = retag, sess
			}
			res := &vgirpc.StreamResult{OutputSchema: tkSchema, State: st}
			defer tkBehave(retag, sess && m.typ != "p" && !(m.typ == "d" && (m.kind == "P" || m.kind == "B")), cc) // producers open in their folded first turn
			if m.in == "i64" {
				res.InputSchema = tkSchema
			}
			return res, nil
		}
		switch m.typ {
		case "p":
			vgirpc.Producer(s, m.name, tkSchema, handler)
		case "e":
			vgirpc.Exchange(s, m.name, tkSchema, tkSchema, handler)
		case "d":
			vgirpc.DynamicStreamWithHeader(s, m.name, nil, handler)
		}
	}
	vgirpc.Unary(s, "who", func(_ context.Context, cc *vgirpc.CallContext, p tkParams) (int64, error) {
		tkEvent("who:" + cc.SessionID())
		return 1, nil
	})
	vgirpc.Unary(s, "open", func(_ context.Context, cc *vgirpc.CallContext, p tkParams) (int64, error) {
		if err := cc.OpenSession(&tkSess{N: int(p.Value)}, time.Hour); err != nil {
			tkEvent("open-refused")
			return 0, err
		}
		tkEvent("opened:" + cc.SessionID())
		return 1, nil
	})
	vgirpc.Unary(s, "close", func(_ context.Context, cc *vgirpc.CallContext, p tkParams) (int64, error) {
		if cc.CloseSession() {
			tkEvent("closed 1")
		} else {
			tkEvent("closed 0")
		}
		return 1, nil
	})
	if in.hook {
		s.SetDispatchHook(tkHook{})
	}
	if in.external {
		in.store = &tkStore{objects: map[string][]byte{}}
		s.SetExternalLocation(&vgirpc.ExternalLocationConfig{HTTPClient: &http.Client{Transport: in.store}})
	}
	h, err := vgirpc.NewHttpServerWithKey(s, in.key)
	if err != nil {
		panic(err)
	}
	_ = h.SetCompressionLevel(0)
	h.SetTokenTTL(time.Duration(in.ttlMs) * time.Millisecond)
	h.SetCallStateCacheEntries(in.cache) // after SetTokenTTL, which rebuilds the cache at the default size
	h.SetProducerBatchLimit(1)
	h.SetAuthenticate(func(r *http.Request) (*vgirpc.AuthContext, error) {
		return tkAuthOf(r.Header.Get(tkIdentHeader)), nil
	})
	if in.rehydrate {
		h.SetRehydrateFunc(func(state interface{}, method string) error {
			tkEvent("rh:" + hex.EncodeToString([]byte(method)))
			if k, _, _ := tkStateDesc(state); k != "?" {
				var origin string
				switch s := state.(type) {
				case *TkStateP:
					origin = s.Origin
				case *TkStateE:
					origin = s.Origin
				case *TkStateB:
					origin = s.Origin
				case *TkStateN:
					origin = s.Origin
				}
				if origin != method && tkCur != nil {
					tkCur.foreign = append(tkCur.foreign, fmt.Sprintf("rehydrate of a %q state under method %q", origin, method))
				}
			}
			return nil
		})
	}
	if in.sticky {
		h.EnableSticky(time.Hour)
	}
	in.srv, in.h = s, h
	w.insts[name] = in
	return in
}

func (w *tkWorld) nowVirtMs() int64 { return time.Now().UnixMilli() + w.delta*1000 }

// ---------------------------------------------------------------- requests

type tkResp struct {
	status  int
	rpcErr  bool
	body    []byte
	hdr     http.Header
	panicV  interface{}
	message string
	kind    string // vgi_rpc.error_kind
	hasExc  bool
}

// tkPointerIPC: a zero-row external-location pointer batch carrying meta.
func tkPointerIPC(meta arrow.Metadata, in string) []byte {
	schema := tkSchema
	if in == "i32" {
		schema = tkSchema32
	}
	rec, _ := vgirpc.MakeExternalLocationBatch(schema, "unused")
	defer rec.Release()
	withMeta := array.NewRecordBatchWithMetadata(schema, rec.Columns(), 0, meta)
	defer withMeta.Release()
	var buf bytes.Buffer
	wr := ipc.NewWriter(&buf, ipc.WithSchema(schema))
	if err := wr.Write(withMeta); err != nil {
		panic(err)
	}
	wr.Close()
	return buf.Bytes()
}

func tkIPC(meta arrow.Metadata, in string) []byte {
	schema := tkSchema
	col := tkOneRow(7)
	if in == "i32" {
		schema = tkSchema32
		col.Release()
		b := array.NewInt32Builder(memory.NewGoAllocator())
		b.Append(7)
		col = b.NewArray()
		b.Release()
	}
	defer col.Release()
	var rec arrow.RecordBatch
	if meta.Len() > 0 {
		rec = array.NewRecordBatchWithMetadata(schema, []arrow.Array{col}, 1, meta)
	} else {
		rec = array.NewRecordBatch(schema, []arrow.Array{col}, 1)
	}
	defer rec.Release()
	var buf bytes.Buffer
	wr := ipc.NewWriter(&buf, ipc.WithSchema(schema))
	if err := wr.Write(rec); err != nil {
		panic(err)
	}
	wr.Close()
	return buf.Bytes()
}

func tkRequestBody(method string, value int64) []byte {
	col := tkOneRow(value)
	defer col.Release()
	rec := array.NewRecordBatch(tkSchema, []arrow.Array{col}, 1)
	defer rec.Release()
	var buf bytes.Buffer
	if err := vgirpc.WriteRequest(&buf, method, rec, ""); err != nil {
		panic(err)
	}
	return buf.Bytes()
}

func (w *tkWorld) do(in *tkInst, verb, path, ident string, sess []byte, hdr map[string]string, body []byte) (r tkResp) {
	req := httptest.NewRequest(verb, path, bytes.NewReader(body))
	req.Header.Set("Content-Type", "application/vnd.apache.arrow.stream")
	req.Header.Set(tkIdentHeader, ident)
	if sess != nil {
		req.Header["Vgi-Session"] = []string{string(sess)}
	}
	for k, v := range hdr {
		req.Header.Set(k, v)
	}
	rr := httptest.NewRecorder()
	func() {
		defer func() {
			if p := recover(); p != nil {
				r.panicV = p
			}
		}()
		in.h.ServeHTTP(rr, req)
	}()
	r.status = rr.Code
	r.hdr = rr.Header()
	r.rpcErr = rr.Header().Get("X-VGI-RPC-Error") == "true"
	r.body = rr.Body.Bytes()
	r.message, r.kind, r.hasExc = tkException(r.body)
	return r
}

func tkException(body []byte) (msg, kind string, found bool) {
	rd := bytes.NewReader(body)
	for rd.Len() > 0 {
		before := rd.Len()
		r, err := ipc.NewReader(rd)
		if err != nil {
			return
		}
		for r.Next() {
			if rb, ok := r.RecordBatch().(arrow.RecordBatchWithMetadata); ok {
				md := rb.Metadata()
				if lv, _ := md.GetValue(vgirpc.MetaLogLevel); lv == "EXCEPTION" {
					msg, _ = md.GetValue(vgirpc.MetaLogMessage)
					kind, _ = md.GetValue(vgirpc.MetaErrorKind)
					r.Release()
					return msg, kind, true
				}
			}
		}
		r.Release()
		if rd.Len() == before {
			return
		}
	}
	return
}

var tkVersionRe = regexp.MustCompile(`^Unsupported state token version (\d+) \(expected (\d+)\)$`)

// tkClass maps a response to the model's small error enum. Unknown texts stay visible.
func tkClass(r tkResp) string {
	if r.panicV != nil {
		return "abort"
	}
	if !r.hasExc {
		return "ok"
	}
	if r.kind == "session_lost" {
		return "session-lost"
	}
	m := r.message
	for _, pre := range []string{"RuntimeError: ", "TypeError: "} {
		m = strings.TrimPrefix(m, pre)
	}
	switch {
	case m == "Missing state token in exchange request":
		return "missing-state"
	case m == "Malformed state token", strings.HasPrefix(m, "state token decode:"):
		// both are post-authentication plaintext-format failures (unpack / gob)
		return "malformed"
	case m == "State token signature verification failed":
		return "signature"
	case strings.HasPrefix(m, "State token expired"):
		return "expired"
	case m == "State token was not issued by this method":
		return "wrong-method"
	case m == "Missing call token in exchange request":
		return "missing-call"
	case strings.HasPrefix(m, "Method '") && strings.HasSuffix(m, "is unary; use base endpoint"):
		return "unary"
	}
	if g := tkVersionRe.FindStringSubmatch(m); g != nil {
		return "version:" + g[1] + ":" + g[2]
	}
	if r.status == 404 {
		return "not-found"
	}
	return "other:" + strings.ReplaceAll(m, " ", "_")
}

// tkDecision is what is compared with the model: accepted / refused / session lost. The fine
// class (tkClass, from the message text) only feeds the statistics, so a reworded message is
// not a difference.
func tkDecision(r tkResp) string {
	switch {
	case r.panicV != nil:
		return "abort"
	case !r.hasExc:
		return "ok"
	case r.kind == "session_lost":
		return "session-lost"
	}
	return "refused"
}

func tkStatus(r tkResp) string {
	if r.panicV != nil {
		return "abort"
	}
	s := strconv.Itoa(r.status)
	if r.rpcErr {
		s += "e"
	}
	return s
}

// ---------------------------------------------------------------- token references and mutations

func tkDecodeAny(text []byte) (raw []byte, enc string, ok bool) {
	s := string(text)
	for _, e := range []string{"std", "rawurl", "url", "rawstd"} {
		if b, err := tkEnc(e).DecodeString(s); err == nil {
			return b, e, true
		}
	}
	return nil, "", false
}

func tkEnc(name string) *base64.Encoding {
	switch name {
	case "std":
		return base64.StdEncoding
	case "rawstd":
		return base64.RawStdEncoding
	case "url":
		return base64.URLEncoding
	case "rawurl":
		return base64.RawURLEncoding
	}
	panic("bad encoding " + name)
}

func tkPos(p string, n int) int {
	i, _ := strconv.Atoi(p)
	if i < 0 {
		i += n
	}
	if i < 0 {
		i = 0
	}
	if i > n {
		i = n
	}
	return i
}

// tkMutate applies one alteration to a token text.
//
//	text level: tx:<pos>:<xor>  ts:<pos>:<byte>  ti:<pos>:<byte>  td:<pos>  tt:<len>  ta:<hex>
//	raw level (decode, alter the envelope bytes, re-encode the same way):
//	            rx:<pos>:<xor>  rt:<len>  ra:<hex>  rv:<version>
//	re-encoding: enc:<std|rawstd|url|rawurl>   bits (flip an ignored trailing bit of the last group)
func tkMutate(text []byte, op string) []byte {
	f := strings.Split(op, ":")
	t := append([]byte(nil), text...)
	byteArg := func(s string) byte { v, _ := strconv.Atoi(s); return byte(v) }
	switch f[0] {
	case "tx":
		if len(t) == 0 {
			return t
		}
		i := tkPos(f[1], len(t)-1)
		t[i] ^= byteArg(f[2])
		return t
	case "ts":
		if len(t) == 0 {
			return t
		}
		i := tkPos(f[1], len(t)-1)
		t[i] = byteArg(f[2])
		return t
	case "ti":
		i := tkPos(f[1], len(t))
		return append(t[:i:i], append([]byte{byteArg(f[2])}, t[i:]...)...)
	case "td":
		if len(t) == 0 {
			return t
		}
		i := tkPos(f[1], len(t)-1)
		return append(t[:i:i], t[i+1:]...)
	case "tt":
		return t[:tkPos(f[1], len(t))]
	case "ta":
		b, _ := hex.DecodeString(f[1])
		return append(t, b...)
	case "bits":
		// change bits the non-strict decoder ignores: only meaningful when the last group is partial
		s := strings.TrimRight(string(t), "=")
		if len(s)%4 == 2 || len(s)%4 == 3 {
			const std = "ABCDEFGHIJKLMNOPQRSTUVWXYZabcdefghijklmnopqrstuvwxyz0123456789+/"
			const url = "ABCDEFGHIJKLMNOPQRSTUVWXYZabcdefghijklmnopqrstuvwxyz0123456789-_"
			last := s[len(s)-1]
			for _, al := range []string{std, url} {
				if k := strings.IndexByte(al, last); k >= 0 {
					t[len(s)-1] = al[k^1]
					break
				}
			}
		}
		return t
	}
	raw, enc, ok := tkDecodeAny(t)
	if !ok {
		return t
	}
	switch f[0] {
	case "rx":
		if len(raw) > 0 {
			raw[tkPos(f[1], len(raw)-1)] ^= byteArg(f[2])
		}
	case "rt":
		raw = raw[:tkPos(f[1], len(raw))]
	case "ra":
		b, _ := hex.DecodeString(f[1])
		raw = append(raw, b...)
	case "rv":
		if len(raw) > 0 {
			raw[0] = byteArg(f[1])
		}
	case "enc":
		enc = f[1]
	default:
		panic("bad mutation " + op)
	}
	return []byte(tkEnc(enc).EncodeToString(raw))
}

// tokRef resolves `-`, `x<hex>`, `$slot|op|op…`. base is the slot the token derives from (nil for literals).
func (w *tkWorld) tokRef(ref string) (tok []byte, base *tkSlot, altered bool) {
	if ref == "-" || ref == "" {
		return nil, nil, false
	}
	if strings.HasPrefix(ref, "x") {
		return MustUnX(ref), nil, true
	}
	parts := strings.Split(strings.TrimPrefix(ref, "$"), "|")
	s := w.slots[parts[0]]
	if s == nil {
		return nil, nil, false
	}
	t := append([]byte(nil), s.tok...)
	for _, op := range parts[1:] {
		t = tkMutate(t, op)
	}
	return t, s, len(parts) > 1
}

func tkOpt(b []byte, present bool) string {
	if !present {
		return "-"
	}
	return X(b)
}

// ---------------------------------------------------------------- ops

func tkFields(words []string) map[string]string {
	m := map[string]string{}
	for _, wd := range words {
		if i := strings.IndexByte(wd, '='); i > 0 {
			m[wd[:i]] = wd[i+1:]
		}
	}
	return m
}

func tkExecProp(prop string) func(c *Case) {
	return func(c *Case) {
		w := &tkWorld{c: c, prop: prop, insts: map[string]*tkInst{}, slots: map[string]*tkSlot{}, streams: map[string]bool{},
			sigBody: map[string][]byte{}, sigDesc: map[string]string{}, warm: map[string][]string{},
			callStream: map[string]string{}, streamOwner: map[string]string{}, streamMeth: map[string]string{}}
		tkCur = w
		defer func() { tkCur = nil }()
		for _, l := range c.Lines {
			f := strings.Fields(l)
			if len(f) == 0 {
				continue
			}
			w.events, w.foreign = nil, nil
			w.line(l, f)
		}
	}
}

func (w *tkWorld) bad(l, why string) { w.c.Out(l, "err:script:"+why) }

func (w *tkWorld) line(l string, f []string) {
	c := w.c
	kv := tkFields(f)
	switch f[0] {
	case "inst":
		in := w.newInst(f[1], kv)
		c.Out(l+" methods="+tkMethodsArg(), "ok normkey="+hex.EncodeToString(vgirpc.VerifC12NormalizeKey(in.key)))
	case "aad":
		c.Out(l, X(vgirpc.VerifC12Aad(f[1], tkAuthOf(f[2]))))
		c.Stat("aad")
	case "ikey":
		a := tkAuthOf(f[1])
		c.Out(l, XS(vgirpc.VerifC12CacheIdentity(a))+" "+XS(vgirpc.VerifC13PrincipalKey(a)))
	case "norm":
		c.Out(l, X(vgirpc.VerifC12NormalizeKey(MustUnX(f[1]))))
	case "advance":
		w.advance(l, f)
	case "phase":
		// wait (at most one second) until the wall clock is <ms> into its current second: with whole-second
		// CreatedAt values this is what makes sub-second token ages expressible
		target, _ := strconv.Atoi(f[1])
		for i := 0; i < 2500; i++ {
			if ms := int(time.Now().UnixMilli() % 1000); ms >= target && ms < target+50 {
				break
			}
			time.Sleep(time.Millisecond)
		}
		c.Out("advance 0", "ok")
		c.Stat("phase")
	case "setttl", "setcache":
		in := w.insts[f[1]]
		if in == nil || len(f) < 3 {
			w.bad(l, f[0])
			return
		}
		n, _ := strconv.ParseInt(f[2], 10, 64)
		if f[0] == "setttl" {
			in.h.SetTokenTTL(time.Duration(n) * time.Millisecond)
			in.ttlMs = n
		} else {
			in.h.SetCallStateCacheEntries(int(n))
			in.cache = int(n)
		}
		c.Out(l, "ok")
		c.Stat(f[0])
	case "init":
		w.opInit(l, f, kv)
	case "cont":
		w.opCont(l, f, kv)
	case "mint":
		w.opMint(l, f, kv)
	case "sopen", "suse", "sclose", "sdel":
		w.opSticky(l, f, kv)
	default:
		c.Out(l, "err:bad-op")
	}
}

func (w *tkWorld) sealLine(name string, s *tkSlot) string {
	switch s.kind {
	case "cursor":
		k, cnt, lim := tkStateDesc(s.state)
		return fmt.Sprintf("seal cursor %s %s tok=%s created=%d callid=%s method=%s skind=%s count=%d limit=%d",
			s.inst, s.ident, X(s.tok), s.vcreat, XS(s.callID), XS(s.method), k, cnt, lim)
	case "call":
		return fmt.Sprintf("seal call %s %s tok=%s created=%d callid=%s schema=%s streamid=%s insch=%s",
			s.inst, s.ident, X(s.tok), s.vcreat, XS(s.callID), X(s.schema), XS(s.stream), tkSchemaTagIPC(s.insch))
	}
	return fmt.Sprintf("seal session %s %s tok=%s serverid=%s sid=%s", s.inst, s.ident, X(s.tok), XS(s.server), X(s.sid))
}

// reseal: the same token contents under a fresh nonce with the given wall-clock CreatedAt.
func (w *tkWorld) reseal(s *tkSlot, realCreated int64) {
	in := w.insts[s.inst]
	a := tkAuthOf(s.ident)
	var tok []byte
	var err error
	switch s.kind {
	case "cursor":
		tok, err = in.h.VerifC12SealCursor(realCreated, s.callID, s.method, s.state, a)
	case "call":
		tok, err = in.h.VerifC15SealCall(realCreated, s.callID, s.schema, s.insch, s.stream, a)
	default:
		return
	}
	if err != nil {
		panic(err)
	}
	s.tok = tok
}

func (w *tkWorld) advance(l string, f []string) {
	d, _ := strconv.ParseInt(f[1], 10, 64)
	w.delta += d
	w.c.Out(l, "ok")
	w.c.Stat("advance")
	for _, in := range w.insts {
		in.h.VerifC15CacheShift(time.Duration(d) * time.Second)
	}
	names := make([]string, 0, len(w.slots))
	for n := range w.slots {
		names = append(names, n)
	}
	sort.Strings(names)
	for _, n := range names {
		s := w.slots[n]
		if s.kind == "session" {
			continue
		}
		w.reseal(s, s.vcreat-w.delta)
		w.c.Out(w.sealLine(n, s), "ok")
	}
}

// oracle fires only for the property being checked (a C14 defect is not a C12 violation).
func (w *tkWorld) oracle(prop, class, desc string) {
	if prop == w.prop || prop == "*" {
		w.c.Oracle(class, desc)
	}
}

// learnCursor peeks a freshly minted cursor and stores it in a slot.
func (w *tkWorld) learnCursor(slot string, in *tkInst, ident string, tok []byte, minter string) (*tkSlot, error) {
	cr, cid, m, st, err := in.h.VerifC12PeekCursor(tok, tkAuthOf(ident))
	if err != nil {
		return nil, err
	}
	s := &tkSlot{kind: "cursor", inst: in.name, ident: ident, tok: tok, vcreat: cr + w.delta, callID: cid, method: m, minter: minter, state: st}
	if slot != "" && slot != "-" {
		w.slots[slot] = s
	}
	return s, nil
}

// mintBinding: a token the server just minted for `ident` must open under exactly that identity's
// AAD (checked against an independent restatement of the layout) and under no other pool identity.
func (w *tkWorld) mintBinding(in *tkInst, kind, ident string, tok []byte, what string) {
	a := tkAuthOf(ident)
	if !bytes.Equal(vgirpc.VerifC12Aad(kind, a), tkSpecAad(kind, ident)) {
		w.oracle("C13", "aad-layout-"+kind, fmt.Sprintf("%s: AAD for %s is %x, documented layout gives %x", what, ident, vgirpc.VerifC12Aad(kind, a), tkSpecAad(kind, ident)))
	}
}

func (w *tkWorld) opInit(l string, f []string, kv map[string]string) {
	c := w.c
	if len(f) < 4 || w.insts[f[1]] == nil {
		w.bad(l, "init")
		return
	}
	in, ident, method := w.insts[f[1]], f[2], f[3]
	limit, _ := strconv.ParseInt(kv["limit"], 10, 64)
	sess, _, _ := w.tokRef(kv["sess"])
	now := w.nowVirtMs()
	// handler behaviour knobs travel in the parameter value: limit + 1000*(index of the method name the
	// handler retags its CallContext to) + 100000*(handler opens a sticky session in its turns)
	value := limit % 1000
	for i, m := range tkMethods {
		if kv["retag"] == m.name {
			value += int64(1000 * (i + 1))
		}
	}
	if kv["sessopen"] == "1" {
		value += 100000
	}
	var hdr map[string]string
	if kv["accept"] == "1" {
		hdr = map[string]string{"VGI-Session-Accept": "true"}
	}
	r := w.do(in, "POST", "/"+method+"/init", ident, sess, hdr, tkRequestBody(method, value))
	defer w.turnSession(l, in, ident, sess, kv["sess"] != "-" && kv["sess"] != "", kv["sout"], r)
	cur, call := vgirpc.FindStreamTokens(r.body)
	base := fmt.Sprintf("init %s %s %s limit=%d sess=%s now=%d", f[1], ident, method, limit, tkOpt(sess, kv["sess"] != "-" && kv["sess"] != ""), now)
	cls := tkClass(r)
	dec := tkDecision(r)
	if dec == "ok" && len(cur) == 0 {
		cls, dec = "finished", "finished"
	}
	obs := tkStatus(r) + " " + dec
	if len(cur) == 0 || len(call) == 0 || r.hasExc {
		c.Out(base, obs)
		c.Stat("init-" + cls)
		return
	}
	cs, err := w.learnCursor(kv["cur"], in, ident, cur, method)
	if err != nil {
		c.Out(base, "err:minted-cursor-does-not-open")
		w.oracle("*", "minted-cursor-does-not-open", fmt.Sprintf("%q: cursor minted for %s does not open for it: %v", l, ident, err))
		return
	}
	kcr, kcid, ksch, kin, kstream, err := in.h.VerifC15PeekCall(call, tkAuthOf(ident))
	if err != nil {
		c.Out(base, "err:minted-call-does-not-open")
		w.oracle("*", "minted-call-does-not-open", fmt.Sprintf("%q: call token minted for %s does not open for it: %v", l, ident, err))
		return
	}
	ks := &tkSlot{kind: "call", inst: in.name, ident: ident, tok: call, vcreat: kcr + w.delta, callID: kcid, schema: ksch, insch: kin, stream: kstream}
	if want := tkMethodIn(method); tkSchemaTagIPC(kin) != want {
		w.oracle("C15", "call-token-input-schema-wrong", fmt.Sprintf("%q: call token of %s carries input schema %s, the stream declared %s", l, method, tkSchemaTagIPC(kin), want))
	}
	if n := kv["call"]; n != "" && n != "-" {
		w.slots[n] = ks
	}
	w.streams[kstream] = true
	w.callStream[kcid] = kstream
	w.streamOwner[hex.EncodeToString([]byte(kstream))] = ident
	w.streamMeth[hex.EncodeToString([]byte(kstream))] = method
	w.warm[in.name+"|"+kcid] = append(w.warm[in.name+"|"+kcid], ident)
	w.mintBinding(in, "cursor", ident, cur, l)
	w.mintBinding(in, "call", ident, call, l)
	if cs.callID != kcid {
		w.oracle("*", "init-callid-mismatch", fmt.Sprintf("%q: cursor names call %s, call token %s", l, cs.callID, kcid))
	}
	if cs.method != method {
		w.oracle("C14", "cursor-not-bound-to-minting-method", fmt.Sprintf("%q: cursor minted by %s carries method %q", l, method, cs.method))
	}
	c.Out(fmt.Sprintf("%s callid=%s streamid=%s schema=%s created=%d kcreated=%d cur=%s call=%s", base, XS(kcid), XS(kstream), X(ksch), cs.vcreat, ks.vcreat, X(cur), X(call)), obs)
	c.Stat("init-ok")
}

func (w *tkWorld) opCont(l string, f []string, kv map[string]string) {
	c := w.c
	if len(f) < 4 || w.insts[f[1]] == nil {
		w.bad(l, "cont")
		return
	}
	in, ident, method := w.insts[f[1]], f[2], f[3]
	cur, curBase, curAlt := w.tokRef(kv["cur"])
	call, callBase, callAlt := w.tokRef(kv["call"])
	sess, sessBase, _ := w.tokRef(kv["sess"])
	curPresent := kv["cur"] != "-" && kv["cur"] != "" && (curBase != nil || strings.HasPrefix(kv["cur"], "x"))
	callPresent := kv["call"] != "-" && kv["call"] != "" && (callBase != nil || strings.HasPrefix(kv["call"], "x"))
	sessPresent := kv["sess"] != "-" && kv["sess"] != "" && (sessBase != nil || strings.HasPrefix(kv["sess"], "x"))
	cancel := kv["cancel"] == "1"

	var keys, vals []string
	if curPresent {
		keys, vals = append(keys, vgirpc.MetaStreamState), append(vals, string(cur))
	}
	if callPresent {
		keys, vals = append(keys, vgirpc.MetaCallState), append(vals, string(call))
	}
	if cancel {
		keys, vals = append(keys, vgirpc.MetaCancel), append(vals, "true")
	}
	inKind := kv["in"]
	if inKind != "i32" {
		inKind = "i64"
	}
	// protocol metadata a continuation batch has no business carrying: none of it may change the outcome
	if mm, ok := kv["mm"]; ok {
		keys, vals = append(keys, vgirpc.MetaMethod), append(vals, mm)
	}
	if kv["extra"] == "1" {
		keys = append(keys, vgirpc.MetaRequestVersion, vgirpc.MetaRequestID, vgirpc.MetaProtocolVersion, vgirpc.MetaServerID, "vgi_rpc.shm_segment_name", "vgi_rpc.shm_offset", "x-user-key")
		vals = append(vals, "1", "req-77", "9.9.9", "someone-else", "/nosuch", "0", "v")
		if !(kv["ptr"] == "1") && kv["extra_loc"] == "1" {
			keys, vals = append(keys, vgirpc.MetaLocation), append(vals, "http://store.test/obj/none") // not a pointer: the batch has a row
		}
	}
	// ptr=1: the continuation's input is externalized — the POST carries a zero-row pointer batch
	// (tokens cur/call on it), the uploaded batch (tokens xcur/xcall on it) sits in the instance's store
	ptr := kv["ptr"] == "1"
	xcur, xcurBase, xcurAlt := w.tokRef(kv["xcur"])
	xcall, xcallBase, xcallAlt := w.tokRef(kv["xcall"])
	xcurPresent := ptr && kv["xcur"] != "-" && kv["xcur"] != "" && (xcurBase != nil || strings.HasPrefix(kv["xcur"], "x"))
	xcallPresent := ptr && kv["xcall"] != "-" && kv["xcall"] != "" && (xcallBase != nil || strings.HasPrefix(kv["xcall"], "x"))
	var body []byte
	if ptr {
		url := fmt.Sprintf("http://store.test/obj/%d", len(w.c.modelIn))
		var xk, xv []string
		if xcurPresent {
			xk, xv = append(xk, vgirpc.MetaStreamState), append(xv, string(xcur))
		}
		if xcallPresent {
			xk, xv = append(xk, vgirpc.MetaCallState), append(xv, string(xcall))
		}
		if in.store != nil {
			in.store.objects[url] = tkIPC(arrow.NewMetadata(xk, xv), inKind)
		}
		keys, vals = append(keys, vgirpc.MetaLocation), append(vals, url)
		body = tkPointerIPC(arrow.NewMetadata(keys, vals), inKind)
	} else {
		body = tkIPC(arrow.NewMetadata(keys, vals), inKind)
	}
	// which tokens decide, restated from the documented behaviour (the oracles judge these): the
	// uploaded batch's cursor / call token supersede the pointer's when the server fetches
	ext := ptr && in.external
	ptrCur, ptrCall, ptrCurPresent, ptrCallPresent := cur, call, curPresent, callPresent
	if ext && !cancel {
		if xcurPresent {
			cur, curBase, curAlt, curPresent = xcur, xcurBase, xcurAlt, true
		}
		if xcallPresent {
			call, callBase, callAlt, callPresent = xcall, xcallBase, xcallAlt, true
		}
	}

	// was the call-state cache going to answer? (observed, before the request, for the oracles only)
	cacheHit := false
	if curBase != nil && curBase.kind == "cursor" && in.cache > 0 { // a cache configured off (0 entries) never answers
		want := curBase.callID + "\x00" + tkSpecIdentKey(ident) // documented key layout, restated (not the hooked function)
		for _, k := range in.h.VerifC15CacheKeys() {
			if k == want {
				cacheHit = true
			}
		}
	}

	now := w.nowVirtMs()
	if !sessPresent {
		sess = nil
	}
	var hdr map[string]string
	if kv["accept"] == "1" {
		hdr = map[string]string{"VGI-Session-Accept": "true"}
	}
	r := w.do(in, "POST", "/"+method+"/exchange", ident, sess, hdr, body)
	defer w.turnSession(l, in, ident, sess, sessPresent, kv["sout"], r)
	cls := tkClass(r)
	// a session opened from inside the turn is reported on its own model line (turnSession)
	kept := w.events[:0:0]
	for _, e := range w.events {
		if !strings.HasPrefix(e, "opened:") {
			kept = append(kept, e)
		}
	}
	w.events = kept
	events := "-"
	if len(w.events) > 0 {
		events = strings.Join(w.events, ",")
	}
	next := "-"
	var newTok []byte
	var ns *tkSlot
	if r.panicV == nil && !r.hasExc {
		newTok, _ = vgirpc.FindStreamTokens(r.body)
		if len(newTok) > 0 {
			var err error
			ns, err = w.learnCursor(kv["out"], in, ident, newTok, method)
			if err != nil {
				next = "unopenable"
				w.oracle("*", "minted-cursor-does-not-open", fmt.Sprintf("%q: continuation cursor does not open for %s: %v", l, ident, err))
			} else {
				k, cnt, lim := tkStateDesc(ns.state)
				next = fmt.Sprintf("%s:%s:%s:%d:%d", hex.EncodeToString([]byte(ns.callID)), hex.EncodeToString([]byte(ns.method)), k, cnt, lim)
				w.mintBinding(in, "cursor", ident, newTok, l)
				if ns.method != method {
					w.oracle("C14", "cursor-not-bound-to-minting-method", fmt.Sprintf("%q: cursor minted by a continuation of %s carries method %q", l, method, ns.method))
				}
			}
		}
	}
	obs := fmt.Sprintf("%s %s ev=%s next=%s", tkStatus(r), tkDecision(r), events, next)
	tight := kv["tight"] == "1"
	if tight {
		// sub-second timing: if the TTL boundary of either token falls between the harness's clock reading and
		// the end of the request (plus slack), the server's own reading may be on either side — not compared
		after := w.nowVirtMs()
		for _, b := range []*tkSlot{curBase, callBase} {
			if b != nil && (b.kind == "cursor" || b.kind == "call") {
				edge := b.vcreat*1000 + in.ttlMs
				if edge >= now-30 && edge <= after+30 {
					c.Out("advance 0", "ok")
					c.Stat("timing-ambiguous")
					return
				}
			}
		}
	}
	ml := fmt.Sprintf("cont %s %s %s cur=%s call=%s cancel=%s sess=%s now=%d", f[1], ident, method,
		tkOpt(ptrCur, ptrCurPresent), tkOpt(ptrCall, ptrCallPresent), map[bool]string{true: "1", false: "0"}[cancel], tkOpt(sess, sessPresent), now)
	if ptr {
		ml += fmt.Sprintf(" ext=%d xcur=%s xcall=%s", b2i(ext), tkOpt(xcur, xcurPresent), tkOpt(xcall, xcallPresent))
	}
	ml += " in=" + inKind
	if ns != nil {
		ml += fmt.Sprintf(" ncreated=%d new=%s", ns.vcreat, X(newTok))
	}
	c.Out(ml, obs)
	c.Stat("cont-" + strings.SplitN(cls, ":", 2)[0])

	accepted := r.panicV == nil && !r.hasExc && r.status == 200
	// the resolved call user code observes (dispatch hook's stream id) must be the one of the call the
	// cursor names — never another call's, in particular never another identity's
	if curBase != nil && curBase.kind == "cursor" {
		if want, known := w.callStream[curBase.callID]; known {
			for _, e := range w.events {
				if strings.HasPrefix(e, "hs:") {
					got := e[strings.LastIndex(e, ":")+1:]
					if got != hex.EncodeToString([]byte(want)) {
						owner, class := w.streamOwner[got], "resolved-call-of-another-call"
						if owner != "" && !tkSameIdent(owner, ident) {
							class = "cache-entry-served-to-other-identity"
						}
						w.oracle("C13", class, fmt.Sprintf("%q: cursor names call %s (stream %s) but the dispatch hook saw stream %s (minted for %q)", l, curBase.callID, want, got, owner))
						w.oracle("C15", "cache-changes-handler-input", fmt.Sprintf("%q: cursor names call %s (stream %s) but the dispatch hook saw stream %s", l, curBase.callID, want, got))
						if m := w.streamMeth[got]; m != "" && m != method {
							w.oracle("C14", "call-state-of-another-method-served", fmt.Sprintf("%q: route %s was handed the resolved call of a stream minted by %s (stream %s instead of %s)", l, method, m, got, want))
						}
					}
				}
			}
		}
	}
	// C13, history independence at the cache: a caller whose own call token was not presented can only
	// be answered from an entry that the SAME caller warmed on this instance
	if accepted && curBase != nil && curBase.kind == "cursor" && !curAlt && tkSameIdent(curBase.ident, ident) {
		ownCall := callBase != nil && callBase.kind == "call" && tkEnvelopeEqual(call, callBase) && tkSameIdent(callBase.ident, ident) && callBase.callID == curBase.callID
		if !ownCall {
			mine := false
			for _, who := range w.warm[in.name+"|"+curBase.callID] {
				if tkSameIdent(who, ident) {
					mine = true
				}
			}
			if !mine {
				w.oracle("C13", "cache-entry-served-to-other-identity", fmt.Sprintf("%q: %s was accepted without its own call token although only %v ever resolved call %s on %s", l, ident, w.warm[in.name+"|"+curBase.callID], curBase.callID, in.name))
			}
		}
	}
	if accepted && curBase != nil && curBase.kind == "cursor" {
		w.warm[in.name+"|"+curBase.callID] = append(w.warm[in.name+"|"+curBase.callID], ident)
	}
	w.tight = tight
	w.contOracles(l, in, ident, method, r, cls, accepted, cacheHit, cur, curBase, curAlt, curPresent, call, callBase, callAlt, callPresent, now)
	seen := ""
	for _, e := range w.events {
		if strings.HasPrefix(e, "exchange:") || strings.HasPrefix(e, "hs:") {
			seen += e + " " // what user code observed of the resolved call: stream id (hook), input schema (handler)
		}
	}
	if kv["pair"] == "1" {
		dec := tkStatus(r) + " " + tkDecision(r)
		if w.lastPair != "" && w.lastPair != dec {
			w.oracle("C15", "cache-changes-outcome", fmt.Sprintf("%q: this instance answered %q, the cache-less instance sharing the key answered %q to the same request", l, dec, w.lastPair))
		} else if w.lastPair != "" && w.lastSeen != seen {
			w.oracle("C15", "cache-changes-handler-input", fmt.Sprintf("%q: user code on this instance observed %q, on the cache-less instance sharing the key %q, for the same request", l, seen, w.lastSeen))
		}
	}
	w.lastPair, w.lastSeen = tkStatus(r)+" "+tkDecision(r), seen
}

// tkSpecNormKey restates the documented key normalisation independently of the code under test
// (exactly 32 bytes pass through, every other length is SHA-256'd): the oracles judge "same token
// key" with it, never with normalizeTokenKey itself.
func tkSpecNormKey(key []byte) []byte {
	if len(key) == 32 {
		return append([]byte(nil), key...)
	}
	sum := sha256.Sum256(key)
	return sum[:]
}

// envelopeEqual: does the presented text decode (Go's StdEncoding) to exactly the bytes the server sealed?
func tkEnvelopeEqual(presented []byte, base *tkSlot) bool {
	if base == nil {
		return false
	}
	a, err1 := base64.StdEncoding.DecodeString(string(presented))
	var b []byte
	var err2 error
	if base.kind == "session" {
		b, err2 = base64.RawURLEncoding.DecodeString(string(base.tok))
	} else {
		b, err2 = base64.StdEncoding.DecodeString(string(base.tok))
	}
	return err1 == nil && err2 == nil && bytes.Equal(a, b)
}

func (w *tkWorld) contOracles(l string, in *tkInst, ident, method string, r tkResp, cls string, accepted, cacheHit bool,
	cur []byte, curBase *tkSlot, curAlt, curPresent bool, call []byte, callBase *tkSlot, callAlt, callPresent bool, now int64) {
	c := w.c
	sameKey := func(s *tkSlot) bool {
		return s != nil && bytes.Equal(tkSpecNormKey(w.insts[s.inst].key), tkSpecNormKey(in.key))
	}
	// what the cursor is, judged independently of the server
	curGenuine := curBase != nil && curBase.kind == "cursor" && tkEnvelopeEqual(cur, curBase) && sameKey(curBase)
	callGenuine := callBase != nil && callBase.kind == "call" && tkEnvelopeEqual(call, callBase) && sameKey(callBase)
	ranCode := len(w.events) > 0

	// ---- C12: forged or altered tokens never reach stream state
	if curBase != nil && curPresent && !sameKey(curBase) {
		c.Stat("c12-foreign-key-cursor")
		if accepted || ranCode {
			w.oracle("C12", "foreign-key-token-accepted", fmt.Sprintf("%q: cursor sealed by %s (key %x) accepted by %s (key %x): different token keys", l, curBase.inst, w.insts[curBase.inst].key, in.name, in.key))
		}
	}
	if curGenuine && !cacheHit && callBase != nil && callPresent && !sameKey(callBase) && tkSameIdent(curBase.ident, ident) && curBase.method == method {
		c.Stat("c12-foreign-key-call")
		if accepted || ranCode {
			w.oracle("C12", "foreign-key-token-accepted", fmt.Sprintf("%q: call token sealed by %s (key %x) accepted by %s (key %x) on a cache miss: different token keys", l, callBase.inst, w.insts[callBase.inst].key, in.name, in.key))
		}
	}
	if curPresent && !curGenuine {
		c.Stat("c12-cursor-not-genuine")
		if accepted || ranCode {
			w.oracle("C12", "forged-cursor-reached-state", fmt.Sprintf("%q: cursor is not an unaltered token sealed under this key, yet status=%s class=%s events=%v", l, tkStatus(r), cls, w.events))
		} else if r.status != 400 || r.panicV != nil {
			w.oracle("C12", "forged-cursor-not-client-error", fmt.Sprintf("%q: refused with %s %s instead of a 400", l, tkStatus(r), cls))
		}
	}
	if curGenuine && !cacheHit && !callGenuine && tkSameIdent(curBase.ident, ident) && curBase.method == method {
		c.Stat("c12-call-consulted-not-genuine")
		if accepted || ranCode {
			w.oracle("C12", "forged-call-token-reached-state", fmt.Sprintf("%q: the cache missed and the call token is not an unaltered token sealed under this key, yet status=%s class=%s events=%v", l, tkStatus(r), cls, w.events))
		} else if r.status != 400 || r.panicV != nil {
			w.oracle("C12", "forged-call-token-not-client-error", fmt.Sprintf("%q: refused with %s %s instead of a 400", l, tkStatus(r), cls))
		}
	}
	if r.status == 400 && ranCode {
		w.oracle("C12", "refused-but-user-code-ran", fmt.Sprintf("%q: 400 %s but callbacks ran: %v", l, cls, w.events))
	}
	// bad-signature responses are indistinguishable: well-formed envelope of the right version whose
	// (key, nonce, aad, ciphertext) was never sealed. Judged from how the harness built the token.
	sigByConstruction := false
	if raw, err := base64.StdEncoding.DecodeString(string(cur)); curPresent && err == nil && len(raw) >= 42 && raw[0] == 6 &&
		!(curGenuine && tkSameIdent(curBase.ident, ident)) && !(curBase != nil && curBase.kind == "session") {
		sigByConstruction = true // well-formed cursor envelope that was never sealed for this caller under this key
	} else if curGenuine && tkSameIdent(curBase.ident, ident) && curBase.method == method && !cacheHit && callPresent && now-curBase.vcreat*1000 < in.ttlMs-1500 {
		if raw, err := base64.StdEncoding.DecodeString(string(call)); err == nil && len(raw) >= 42 && raw[0] == 1 &&
			!(callGenuine && tkSameIdent(callBase.ident, ident)) {
			sigByConstruction = true // same for the consulted call token
		}
	}
	if sigByConstruction {
		c.Stat("c12-aead-failure-by-construction")
		// (per instance: the body carries the instance's server id)
		if w.sigBody[in.name] == nil {
			w.sigBody[in.name], w.sigDesc[in.name] = append([]byte{}, r.body...), l
		} else if !bytes.Equal(w.sigBody[in.name], r.body) || r.status != 400 {
			w.oracle("C12", "bad-signature-distinguishable", fmt.Sprintf("%q and %q both fail authentication but their responses differ", w.sigDesc[in.name], l))
		}
	}

	// ---- C13: identity and kind binding
	if curBase != nil && curPresent && !curAlt && curBase.kind == "cursor" && sameKey(curBase) && !tkSameIdent(curBase.ident, ident) {
		c.Stat("c13-cross-identity-cursor")
		if accepted || ranCode {
			w.oracle("C13", "cross-identity-cursor-accepted", fmt.Sprintf("%q: cursor minted for %s accepted from %s", l, curBase.ident, ident))
		}
	}
	if curGenuine && tkSameIdent(curBase.ident, ident) && !cacheHit && callBase != nil && callPresent && !callAlt && callBase.kind == "call" && sameKey(callBase) && !tkSameIdent(callBase.ident, ident) {
		c.Stat("c13-cross-identity-call")
		if accepted || ranCode {
			w.oracle("C13", "cross-identity-call-token-accepted", fmt.Sprintf("%q: call token minted for %s accepted from %s (cache missed)", l, callBase.ident, ident))
		}
	}
	if curBase != nil && curPresent && curBase.kind != "cursor" {
		c.Stat("c13-cross-kind-as-cursor")
		if accepted || ranCode {
			w.oracle("C13", "cross-kind-accepted-"+curBase.kind+"-as-cursor", fmt.Sprintf("%q: a %s token was accepted as a cursor", l, curBase.kind))
		}
	}
	if curGenuine && !cacheHit && callBase != nil && callPresent && callBase.kind != "call" && tkSameIdent(curBase.ident, ident) {
		c.Stat("c13-cross-kind-as-call")
		if accepted || ranCode {
			w.oracle("C13", "cross-kind-accepted-"+callBase.kind+"-as-call", fmt.Sprintf("%q: a %s token was accepted as a call token", l, callBase.kind))
		}
	}
	// own, untouched, fresh tokens are accepted whatever other identities did before
	ttl := in.ttlMs
	fresh := func(s *tkSlot) bool { return now-s.vcreat*1000 < ttl-1500 }
	if curGenuine && !curAlt && tkSameIdent(curBase.ident, ident) && curBase.method == method && fresh(curBase) &&
		callGenuine && !callAlt && tkSameIdent(callBase.ident, ident) && callBase.callID == curBase.callID && fresh(callBase) && !in.sticky {
		c.Stat("honest-continuation")
		if !accepted {
			w.oracle("C13", "own-token-refused", fmt.Sprintf("%q: %s presented its own fresh tokens and got %s %s", l, ident, tkStatus(r), cls))
		}
	}

	// ---- C14: a token only resumes the method that minted it
	if curGenuine && !curAlt && tkSameIdent(curBase.ident, ident) && curBase.minter != method {
		c.Stat("c14-cross-method")
		if r.panicV != nil {
			w.oracle("C14", "cross-method-aborts-connection", fmt.Sprintf("%q: token minted by %s at route %s panicked: %v", l, curBase.minter, method, r.panicV))
		} else if r.status != 400 && !(r.status == 404 && !tkRegistered(method)) {
			w.oracle("C14", "cross-method-not-refused", fmt.Sprintf("%q: token minted by %s at route %s answered %s %s", l, curBase.minter, method, tkStatus(r), cls))
		}
		if ranCode {
			w.oracle("C14", "cross-method-code-ran", fmt.Sprintf("%q: token minted by %s at route %s ran %v", l, curBase.minter, method, w.events))
		}
	}
	if len(w.foreign) > 0 {
		w.oracle("C14", "foreign-state-reached-user-code", fmt.Sprintf("%q: %s", l, strings.Join(w.foreign, "; ")))
	}
	if r.panicV != nil {
		w.oracle("C14", "continuation-aborts-connection", fmt.Sprintf("%q: handler panicked: %v", l, r.panicV))
	}

	// ---- C15: lifetime
	margin := int64(1500)
	if w.tight {
		margin = 100
	}
	if curGenuine && now-curBase.vcreat*1000 > ttl+margin {
		c.Stat("c15-cursor-expired")
		if accepted || ranCode {
			w.oracle("C15", "expired-cursor-accepted", fmt.Sprintf("%q: cursor is %d ms old, ttl %d ms, answered %s %s", l, now-curBase.vcreat*1000, ttl, tkStatus(r), cls))
		}
	}
	if curGenuine && callGenuine && !callAlt && callBase.callID == curBase.callID && now-callBase.vcreat*1000 > ttl+margin {
		c.Stat("c15-call-expired")
		if accepted || ranCode {
			class := "expired-call-token-accepted"
			if cacheHit {
				class = "cache-extends-call-token-lifetime"
			}
			w.oracle("C15", class, fmt.Sprintf("%q: call token is %d ms old, ttl %d ms, cacheHit=%v, answered %s %s", l, now-callBase.vcreat*1000, ttl, cacheHit, tkStatus(r), cls))
		}
	}
}

func (w *tkWorld) opMint(l string, f []string, kv map[string]string) {
	c := w.c
	if len(f) < 5 || w.insts[f[3]] == nil {
		w.bad(l, "mint")
		return
	}
	kind, slot, in, ident := f[1], f[2], w.insts[f[3]], f[4]
	age, _ := strconv.ParseInt(kv["age"], 10, 64)
	realCreated := time.Now().Unix() - age
	a := tkAuthOf(ident)
	callID := kv["callid"]
	switch {
	case strings.HasPrefix(callID, "@"):
		if s := w.slots[callID[1:]]; s != nil {
			callID = s.callID
		} else {
			w.bad(l, "unknown-slot")
			return
		}
	case callID == "new":
		b := make([]byte, 16)
		rand.Read(b)
		callID = hex.EncodeToString(b)
	case strings.HasPrefix(callID, "x"):
		callID = UnXS(callID)
	}
	s := &tkSlot{kind: kind, inst: in.name, ident: ident, vcreat: realCreated + w.delta, callID: callID}
	var err error
	switch kind {
	case "cursor":
		cnt, _ := strconv.Atoi(kv["count"])
		lim, _ := strconv.Atoi(kv["limit"])
		s.method = kv["method"]
		if s.method == "-" {
			s.method = ""
		}
		s.minter = s.method
		s.state = tkNewState(kv["skind"], s.method, cnt, lim)
		s.tok, err = in.h.VerifC12SealCursor(realCreated, callID, s.method, s.state, a)
	case "call":
		if kv["schema"] == "1" {
			s.schema = vgirpc.VerifC12SerializeSchema(tkSchema)
		}
		st := kv["streamid"]
		if strings.HasPrefix(st, "@") {
			if o := w.slots[st[1:]]; o != nil {
				st = XS(o.stream)
			}
		}
		s.stream = UnXS(st)
		w.streams[s.stream] = true
		s.insch = tkSchemaOfTag(kv["insch"])
		s.tok, err = in.h.VerifC15SealCall(realCreated, callID, s.schema, s.insch, s.stream, a)
	case "session":
		s.server = in.serverID
		if v := kv["serverid"]; v != "self" && v != "" {
			s.server = UnXS(v)
		}
		sid := kv["sid"]
		if strings.HasPrefix(sid, "@") {
			if o := w.slots[sid[1:]]; o != nil {
				s.sid = o.sid
			}
		} else {
			s.sid = MustUnX(sid)
		}
		var t string
		t, err = in.h.VerifC13SealSession(s.server, s.sid, time.Now().Unix()+3600, a, 0)
		s.tok = []byte(t)
		if len(s.sid) < 12 {
			s.sid = append(s.sid, make([]byte, 12-len(s.sid))...)
		}
		s.sid = s.sid[:12]
	default:
		w.bad(l, "mint-kind")
		return
	}
	if err != nil {
		c.Out(l, "err:seal:"+err.Error())
		return
	}
	w.slots[slot] = s
	c.Out(w.sealLine(slot, s), "ok")
	c.Stat("mint-" + kind)
}

func (w *tkWorld) opSticky(l string, f []string, kv map[string]string) {
	c := w.c
	if len(f) < 3 || w.insts[f[1]] == nil {
		w.bad(l, "sticky")
		return
	}
	op, in, ident := f[0], w.insts[f[1]], f[2]
	sess, base, alt := w.tokRef(kv["sess"])
	present := kv["sess"] != "-" && kv["sess"] != "" && (base != nil || strings.HasPrefix(kv["sess"], "x"))
	if !present {
		sess = nil
	}
	ml := fmt.Sprintf("%s %s %s sess=%s", op, f[1], ident, tkOpt(sess, present))
	var obs string
	resumed := ""
	switch op {
	case "suse", "sclose", "sopen":
		method := map[string]string{"suse": "who", "sclose": "close", "sopen": "open"}[op]
		hdr := map[string]string{}
		if op == "sopen" {
			ml += " accept=" + kv["accept"]
			if kv["accept"] == "1" {
				hdr["VGI-Session-Accept"] = "true"
			}
		}
		r := w.do(in, "POST", "/"+method, ident, sess, hdr, tkRequestBody(method, 1))
		ev := strings.Join(w.events, ",")
		switch {
		case r.panicV != nil:
			obs = "abort"
		case r.kind == "session_lost":
			obs = "lost"
		case op == "suse" && strings.HasPrefix(ev, "who:"):
			resumed = strings.TrimPrefix(ev, "who:")
			if resumed == "" {
				obs = "session -"
			} else {
				obs = "session " + resumed
			}
		case op == "sclose" && strings.HasPrefix(ev, "closed"):
			obs = ev
			if ev == "closed 1" {
				resumed = "closed"
			}
		case op == "sopen" && ev == "open-refused":
			obs = "open-refused"
		case op == "sopen" && strings.HasPrefix(ev, "opened:"):
			obs = "opened"
			tok := r.hdr.Get("VGI-Session")
			if tok == "" {
				obs = "opened-without-token"
				break
			}
			srv, sid, _, err := in.h.VerifC13PeekSession(tok, tkAuthOf(ident))
			if err != nil {
				obs = "err:minted-session-does-not-open"
				w.oracle("*", "minted-session-does-not-open", fmt.Sprintf("%q: session token minted for %s does not open for it: %v", l, ident, err))
				break
			}
			s := &tkSlot{kind: "session", inst: in.name, ident: ident, tok: []byte(tok), server: srv, sid: sid}
			if n := kv["out"]; n != "" && n != "-" {
				w.slots[n] = s
			}
			ml += fmt.Sprintf(" sid=%s tok=%s", X(sid), XS(tok))
		default:
			obs = "other:" + tkStatus(r) + ":" + strings.ReplaceAll(r.message, " ", "_") + ":" + ev
		}
	case "sdel":
		r := w.do(in, "DELETE", "/__session__", ident, sess, nil, nil)
		obs = tkStatus(r)
		if r.status == 204 {
			resumed = "deleted"
		}
	}
	c.Out(ml, obs)
	c.Stat(op + "-" + strings.Fields(obs)[0])

	// ---- C13 oracles on sticky-session tokens
	if base != nil && present {
		sameKey := bytes.Equal(tkSpecNormKey(w.insts[base.inst].key), tkSpecNormKey(in.key))
		if base.kind == "session" && !alt && sameKey && !tkSameIdent(base.ident, ident) && resumed != "" {
			w.oracle("C13", "cross-identity-session-accepted", fmt.Sprintf("%q: session token minted for %s resumed (%s) by %s", l, base.ident, resumed, ident))
		}
		if base.kind != "session" && resumed != "" {
			w.oracle("C13", "cross-kind-accepted-"+base.kind+"-as-session", fmt.Sprintf("%q: a %s token resumed a session (%s)", l, base.kind, resumed))
		}
		if base.kind == "session" && alt && resumed != "" {
			rawA, _, okA := tkDecodeAny([]byte(strings.TrimSpace(string(sess)))) // the header value is TrimSpace'd
			rawB, _, okB := tkDecodeAny(base.tok)
			if !(okA && okB && bytes.Equal(rawA, rawB)) {
				w.oracle("C13", "altered-session-token-accepted", fmt.Sprintf("%q: altered session token resumed a session (%s)", l, resumed))
			}
		}
	}
}

// ---------------------------------------------------------------- generator helpers shared by C12–C15

func tkKeyOfLen(r *Rng, n int) string { return X(r.Bytes(n)) }

func tkInstLine(name, key string, ttlMs, cache int, sticky bool, serverID string, rehydrate, hook bool) string {
	b := func(v bool) int {
		if v {
			return 1
		}
		return 0
	}
	return fmt.Sprintf("inst %s key=%s ttl=%d cache=%d sticky=%d sid=%s rehydrate=%d hook=%d", name, key, ttlMs, cache, b(sticky), XS(serverID), b(rehydrate), b(hook))
}

func indexOf(xs []string, x string) int {
	for i, y := range xs {
		if y == x {
			return i
		}
	}
	return 0
}

func b2i(b bool) int {
	if b {
		return 1
	}
	return 0
}

func sample(r *Rng, xs []string, k int) []string {
	if len(xs) <= k {
		return xs
	}
	out := make([]string, 0, k)
	idx := map[int]bool{}
	for len(out) < k {
		i := r.Intn(len(xs))
		if !idx[i] {
			idx[i] = true
			out = append(out, xs[i])
		}
	}
	return out
}

func tkID(auth bool, domain, principal string) string {
	t := "n"
	if auth {
		t = "a"
	}
	return t + "/" + XS(domain) + "/" + XS(principal)
}

func tkRegistered(method string) bool {
	for _, m := range tkMethods {
		if m.name == method {
			return true
		}
	}
	return false
}

// tkMethodIn: the input-schema tag a dynamic method's /init puts into the call token ("-" for the others).
func tkMethodIn(method string) string {
	for _, m := range tkMethods {
		if m.name == method && m.typ == "d" {
			return m.in
		}
	}
	return "-"
}

// tkSpecIdentKey restates the documented identity half of the call-state cache key
// ("\x00anonymous" | domain + "\x00" + principal) independently of the code under test.
func tkSpecIdentKey(id string) string {
	a := tkAuthOf(id)
	if !a.Authenticated {
		return "\x00anonymous"
	}
	return a.Domain + "\x00" + a.Principal
}

// turnSession: a sticky session a handler opened from inside this turn (ctx.OpenSession in an init
// handler, Exchange or Produce). The minted token must open for the caller of the turn; the model
// is told through an `sopen` line (OpenSession is the same function whatever handler calls it).
func (w *tkWorld) turnSession(l string, in *tkInst, ident string, sess []byte, sessPresent bool, slot string, r tkResp) {
	tok := r.hdr.Get("VGI-Session")
	if tok == "" || r.panicV != nil {
		return
	}
	ml := fmt.Sprintf("sopen %s %s sess=%s accept=1", in.name, ident, tkOpt(sess, sessPresent))
	srv, sid, _, err := in.h.VerifC13PeekSession(tok, tkAuthOf(ident))
	if err != nil {
		w.c.Out(ml, "err:minted-session-does-not-open")
		w.oracle("*", "minted-session-does-not-open", fmt.Sprintf("%q: the session token a handler opened in this turn for %s does not open for it: %v", l, ident, err))
		if _, _, _, e2 := in.h.VerifC13PeekSession(tok, vgirpc.Anonymous()); e2 == nil && tkAuthOf(ident).Authenticated {
			w.oracle("C13", "session-minted-for-wrong-identity", fmt.Sprintf("%q: the session opened in this turn by %s is sealed for the anonymous caller", l, ident))
		}
		return
	}
	s := &tkSlot{kind: "session", inst: in.name, ident: ident, tok: []byte(tok), server: srv, sid: sid}
	if slot != "" && slot != "-" {
		w.slots[slot] = s
	}
	w.c.Out(ml+fmt.Sprintf(" sid=%s tok=%s", X(sid), XS(tok)), "opened")
	w.c.Stat("turn-opened-session")
}
