package main

import (
	"fmt"
	"strconv"
	"strings"

	"github.com/apache/arrow-go/v18/arrow"

	"github.com/Query-farm/vgi-rpc-go/vgirpc"
)

// C16 — HTTP continuations advance the stream exactly one turn; the handler sees the request's
// metadata with the framework keys stripped.
//
// Script (one in-process HttpServer per case, scripted stream methods "ex" and "pr"):
//
//	cfg cache=<0|1> maxresp=<n> limit=<n> hdr=<0|1>   first line; hdr=1 registers the static methods
//	                                              with a header type (ExchangeWithHeader/ProducerWithHeader)
//	init <inst> <ex|pr|dx|dp> <absent|ok|err|panic> <prog> [h<n>] [dual]
//	                                              dual (static methods): the returned state's TYPE implements both
//	                                              ExchangeState and ProducerState; the model ignores the word — which
//	                                              callback runs must follow the registered method
//	                                              POST /<m>/init with a scripted state (c16_script.go);
//	                                              dx/dp = the dynamic method "dyn" returning an exchange /
//	                                              producer state; h<n> = StreamResult.Header value
//	x <inst> <ex|pr|dyn> <ok|cast|bad|empty> <c…vals> <khex>=<val> …
//	                                              POST /<m>/exchange; val = x<hex> | T<i> | C<c>
//	                                              (T<i> = i-th cursor seen in this case, C<c> = call token)
//	                                              with "@ <khex>=<val> …" after the metadata words the request batch is an
//	                                              external-location POINTER (zero rows, vgi_rpc.location + the words before
//	                                              "@") to an object holding the real input batch (<schema>, <vals>, the
//	                                              words after "@" as its metadata); "@!" = the object does not exist.
//	                                              cfg xin=1 gives the server the external-location config that resolves it.
//	strip <khex>=x<hex> …                         stripFrameworkTickMetadata directly
//
// Model line = script line (+ " wire=<n>" on x lines: the serialized response body length).
// Observation = "<status>[E] <batches> | <handler events>" (see c16_env.go).

func init() {
	Register(&Prop{
		ID: "C16",
		Rule: "exchange / producer-continuation / cancel histories against an in-process HttpServer with scripted stream states: per-turn outcomes " +
			"(emit with/without metadata incl. keys colliding with the framework keys, logs, no emit, second emit, finish, error, panic, cap refusal), " +
			"request metadata drawn from framework keys, near-misses, duplicates, unicode, tokens under user keys; cancel at any point; replays of old cursors; " +
			"missing/garbage/mis-paired tokens; plus direct stripFrameworkTickMetadata lines. Non-trivial = a case with an accepted init and at least one continuation request; distinct = distinct scripts",
		Gen:  c16Gen,
		Exec: c16Exec,
		NonTrivial: func(lines []string) bool {
			i, x := false, false
			for _, l := range lines {
				if strings.HasPrefix(l, "init ") {
					i = true
				}
				if strings.HasPrefix(l, "x ") || strings.HasPrefix(l, "strip ") {
					x = true
				}
			}
			return (i && x) || (x && !i && len(lines) > 0 && strings.HasPrefix(lines[0], "strip"))
		},
	})
}

func c16Exec(c *Case) {
	var e *streamEnv
	defer func() {
		if e != nil {
			e.close()
		}
	}()
	ensure := func() {
		if e == nil {
			e = newStreamEnv(streamCfg{cache: true, instances: 1})
		}
	}
	for _, l := range c.Lines {
		f := strings.Fields(l)
		if len(f) == 0 {
			continue
		}
		switch f[0] {
		case "cfg":
			cfg, ok := parseStreamCfg(f[1:])
			if !ok || e != nil {
				c.Out(l, "err:bad-line")
				continue
			}
			e = newStreamEnv(cfg)
			c.Out(l, "ok")
		case "init":
			ensure()
			if len(f) < 5 || len(f) > 7 || (f[2] != "ex" && f[2] != "pr" && f[2] != "dx" && f[2] != "dp") {
				c.Out(l, "err:bad-line")
				continue
			}
			inst, _ := strconv.Atoi(f[1])
			if _, err := parseScriptProg(f[4]); err != nil {
				c.Out(l, "err:bad-line")
				continue
			}
			hdr, dual, okw := int64(0), false, true
			for _, w := range f[5:] {
				switch {
				case w == "dual" && !dual && (f[2] == "ex" || f[2] == "pr"):
					dual = true
				case strings.HasPrefix(w, "h") && hdr == 0:
					n, err := strconv.ParseInt(w[1:], 10, 64)
					if err != nil || n <= 0 {
						okw = false
					}
					hdr = n
				default:
					okw = false
				}
			}
			if !okw || (dual && len(f) == 7 && f[6] != "dual") {
				c.Out(l, "err:bad-line")
				continue
			}
			method, kind := f[2], ""
			switch f[2] {
			case "dx":
				method, kind = "dyn", "ex"
			case "dp":
				method, kind = "dyn", "pr"
			}
			res := e.post(inst, "/"+method+"/init", e.initBodyDual(method, kind, hdr, dual, f[3], f[4]), nil)
			out := e.renderResp(res)
			calls := e.rec.take()
			c.Stat("init-" + f[2])
			c.Out(l, out+" | "+e.renderEvents(calls, false))
			if res.aborted != "" {
				c.Oracle("init-aborted-connection", fmt.Sprintf("%q: the handler panicked (%s): the client gets no complete response", l, res.aborted))
				continue
			}
			c16InitOracle(c, e, l, f[2], res, calls)
		case "x":
			ensure()
			if len(f) < 5 {
				c.Out(l, "err:bad-line")
				continue
			}
			inst, _ := strconv.Atoi(f[1])
			route := f[2]
			vals, okv := parseVals(f[4])
			// split at the external-input marker
			ptrWords, fetWords, ext, missing := f[5:], []string(nil), false, false
			for i, w := range f[5:] {
				if w == "@" || w == "@!" {
					ptrWords, fetWords, ext, missing = f[5:5+i], f[5+i+1:], true, w == "@!"
					break
				}
			}
			keys, values, syms, okm := e.parseMetaWords(ptrWords)
			fk, fv, fs, okf := e.parseMetaWords(fetWords)
			if (route != "ex" && route != "pr" && route != "dyn") || !okv || !okm || !okf || (missing && len(fetWords) > 0) {
				c.Out(l, "err:bad-line")
				continue
			}
			before := len(e.tokens)
			body := exchangeBody(f[3], vals, keys, values)
			modelLine := l
			if ext {
				var obj []byte
				if !missing {
					obj = exchangeBody(f[3], vals, fk, fv)
				}
				url := e.inStore.put(obj)
				keys = append([]string{vgirpc.MetaLocation}, keys...)
				values = append([]string{url}, values...)
				syms = append([]string{""}, syms...)
				body = exchangeBody("ok", nil, keys, values) // the pointer batch: zero rows, location + the client's keys
				modelLine = strings.Join(f[:5], " ") + " " + hx(vgirpc.MetaLocation) + "=x" + hx(url)
				if len(ptrWords) > 0 {
					modelLine += " " + strings.Join(ptrWords, " ")
				}
				modelLine += " " + map[bool]string{false: "@", true: "@!"}[missing]
				if len(fetWords) > 0 {
					modelLine += " " + strings.Join(fetWords, " ")
				}
				c.Stat("x-external-input")
			}
			res := e.post(inst, "/"+route+"/exchange", body, nil)
			out := e.renderResp(res)
			calls := e.rec.take()
			wire := 0
			if res.status == 200 && !res.rpcErr {
				wire = len(res.body)
			} else {
				for _, b := range res.batches {
					if msg, ok := b.get(vgirpc.MetaLogMessage); ok {
						if m := capWireRe.FindStringSubmatch(msg); m != nil {
							wire, _ = strconv.Atoi(m[1])
						}
					}
				}
			}
			c.Out(fmt.Sprintf("%s wire=%d", modelLine, wire), out+" | "+e.renderEvents(calls, true))
			// what the request amounts to for the oracle: a resolved pointer hands the FETCHED batch's
			// metadata on (its cursor / call token first, the pointer's as fallback; a cancel key on the
			// fetched batch is inert)
			schema := f[3]
			_, ptrCancel := firstValue(keys, values, vgirpc.MetaCancel)
			_, isLog := firstValue(keys, values, vgirpc.MetaLogLevel)
			if ext && e.cfg.xin && !ptrCancel && !isLog {
				if missing {
					if len(calls) > 0 {
						c.Oracle("rejected-request-ran-handler", fmt.Sprintf("%q: the pointer cannot be resolved but the state was invoked", l))
					}
					continue
				}
				var ek, ev, es []string
				for i, k := range fk {
					if k != vgirpc.MetaCancel {
						ek, ev, es = append(ek, k), append(ev, fv[i]), append(es, fs[i])
					}
				}
				for _, fwk := range []string{vgirpc.MetaStreamState, vgirpc.MetaCallState} {
					for i, k := range keys {
						if k == fwk {
							ek, ev, es = append(ek, k), append(ev, values[i]), append(es, syms[i])
							break
						}
					}
				}
				keys, values, syms = ek, ev, es
			} else if ext {
				schema = "ok" // the pointer batch itself is the input
			}
			c16TurnOracle(c, e, l, route, schema, keys, values, syms, res, calls, before)
		case "strip":
			ensure()
			keys, values, _, okm := e.parseMetaWords(f[1:])
			if !okm {
				c.Out(l, "err:bad-line")
				continue
			}
			var md arrow.Metadata
			if len(keys) > 0 {
				md = arrow.NewMetadata(keys, values)
			}
			got := vgirpc.VerifC16Strip(md)
			c.Stat("strip")
			c.Out(l, e.renderSeen(got.Keys(), got.Values()))
			wantK, wantV := stripExpected(keys, values)
			if strings.Join(wantK, "\x00") != strings.Join(got.Keys(), "\x00") || strings.Join(wantV, "\x00") != strings.Join(got.Values(), "\x00") {
				cls := "handler-meta-mismatch"
				for _, k := range got.Keys() {
					if isPropertyFrameworkKey(k) {
						cls = "handler-saw-framework-key"
					}
				}
				c.Oracle(cls, fmt.Sprintf("%q: stripFrameworkTickMetadata returned keys %q", l, got.Keys()))
			}
		default:
			c.Out(l, "err:bad-line")
		}
	}
}

// The property's own list of keys a handler must never see (stated independently of the code's
// frameworkTickMetadataKeys table).
func isPropertyFrameworkKey(k string) bool {
	return k == "vgi_rpc.stream_state#b64" || k == "vgi_rpc.call_state#b64" || k == "vgi_rpc.cancel"
}

func stripExpected(keys, values []string) (k, v []string) {
	for i, kk := range keys {
		if !isPropertyFrameworkKey(kk) {
			k = append(k, kk)
			v = append(v, values[i])
		}
	}
	return
}

func firstValue(keys, values []string, key string) (string, bool) {
	for i, k := range keys {
		if k == key {
			return values[i], true
		}
	}
	return "", false
}

func c16InitOracle(c *Case, e *streamEnv, l, kind string, res *httpResult, calls []*scriptCall) {
	if kind != "ex" && kind != "dx" {
		return
	}
	// an exchange init runs no turn and hands out exactly one cursor + the call token
	if len(calls) != 0 {
		c.Oracle("init-ran-turn", fmt.Sprintf("%q: exchange init invoked the state %d time(s)", l, len(calls)))
	}
	if res.status == 200 && !res.rpcErr {
		n := 0
		for _, b := range res.batches {
			if v, ok := b.get(vgirpc.MetaStreamState); ok {
				if _, isTok := e.symOf(v, false); isTok {
					n++
				}
			}
		}
		if n != 1 {
			c.Oracle("init-cursor-count", fmt.Sprintf("%q: exchange init returned %d cursors", l, n))
		}
	}
}

// c16TurnOracle states C16 directly on the real response and on what the scripted handler saw.
func c16TurnOracle(c *Case, e *streamEnv, l, route, schema string, keys, values, syms []string,
	res *httpResult, calls []*scriptCall, tokensBefore int) {
	_, cancelled := firstValue(keys, values, vgirpc.MetaCancel)
	if res.aborted != "" {
		cls := "continuation-aborted-connection"
		if cancelled {
			cls = "cancel-aborted-connection"
		}
		c.Oracle(cls, fmt.Sprintf("%q: the handler panicked (%s): the client gets an aborted connection, not a complete response", l, res.aborted))
		return
	}
	var cur *tokInfo
	curIdx := -1
	if tv, ok := firstValue(keys, values, vgirpc.MetaStreamState); ok {
		for i := 0; i < tokensBefore; i++ {
			if e.tokens[i] == tv {
				cur, curIdx = &e.info[i], i
			}
		}
	}
	nEx, nPr, nCa := 0, 0, 0
	for _, k := range calls {
		switch k.Kind {
		case "exchange":
			nEx++
		case "produce":
			nPr++
		case "cancel":
			nCa++
		}
	}
	// an externalised output arrives as a pointer batch: a client fetches it and reads the data batch and
	// its metadata (the cursor) off the fetched stream; judge what the client ends up with
	if e.store != nil {
		resolved := make([]respBatch, len(res.batches))
		for i, b := range res.batches {
			resolved[i] = b
			if rb, ok := e.resolvePointer(b); ok {
				resolved[i] = rb
				c.Stat("output-externalised")
			}
		}
		rc := *res
		rc.batches = resolved
		res = &rc
	}
	hasExc, nonLog := false, 0
	var nonLogBatch respBatch
	for _, b := range res.batches {
		if b.isException() {
			hasExc = true
		}
		if !b.isLog() {
			nonLog++
			nonLogBatch = b
		}
	}
	failed := res.status != 200 || res.rpcErr || hasExc
	// every token value anywhere in the response
	type tokAt struct {
		batch int
		key   string
		sym   string
	}
	// (a token value the request itself planted under a user key reaches the handler, which may echo it
	// back as per-emit metadata: that entry is the client's own, not a cursor of the response)
	echoed := map[string]bool{}
	for _, k := range calls {
		for i, kk := range k.Keys {
			if !isPropertyFrameworkKey(kk) {
				echoed[kk+"\x00"+k.Values[i]] = true
			}
		}
	}
	var toks []tokAt
	for bi, b := range res.batches {
		for i, k := range b.keys {
			if echoed[k+"\x00"+b.values[i]] {
				continue
			}
			if sym, ok := e.symOf(b.values[i], false); ok {
				toks = append(toks, tokAt{bi, k, sym})
			}
		}
	}
	switch {
	case res.status == 200 && !failed:
		c.Stat("turn-accepted")
	case res.status == 400:
		c.Stat("turn-rejected-400")
	default:
		c.Stat("turn-failed")
	}

	// (4) handler metadata: request metadata minus the framework keys, in order; no token values
	tokenUnderUserKey := false
	for i, k := range keys {
		if syms[i] != "" && !isPropertyFrameworkKey(k) {
			tokenUnderUserKey = true
		}
	}
	firstTurn := true
	for _, k := range calls {
		if k.Kind == "cancel" {
			continue
		}
		if firstTurn {
			firstTurn = false
			wantK, wantV := stripExpected(keys, values)
			sawFw := false
			for _, kk := range k.Keys {
				if isPropertyFrameworkKey(kk) {
					sawFw = true
				}
			}
			if sawFw {
				c.Oracle("handler-saw-framework-key", fmt.Sprintf("%q: handler InputMetadata keys %q", l, k.Keys))
			} else if strings.Join(wantK, "\x00") != strings.Join(k.Keys, "\x00") || strings.Join(wantV, "\x00") != strings.Join(k.Values, "\x00") {
				c.Oracle("handler-meta-mismatch", fmt.Sprintf("%q: handler saw keys %q, want the request's metadata minus framework keys %q", l, k.Keys, wantK))
			}
		}
		if !tokenUnderUserKey {
			for _, v := range k.Values {
				if _, isTok := e.symOf(v, false); isTok {
					c.Oracle("handler-saw-token", fmt.Sprintf("%q: a state token reached the handler's InputMetadata", l))
				}
			}
		}
	}

	// rejected before dispatch: nothing ran
	if res.status == 400 && len(calls) > 0 {
		c.Oracle("rejected-request-ran-handler", fmt.Sprintf("%q: 400 response but the state was invoked %d time(s)", l, len(calls)))
	}
	if cur == nil {
		// no valid cursor presented: the request must not be accepted
		if !failed {
			c.Oracle("accepted-without-cursor", fmt.Sprintf("%q: accepted although no minted cursor was presented", l))
		}
		if len(toks) > 0 {
			c.Oracle("failed-turn-has-cursor", fmt.Sprintf("%q: rejected request answered with a token", l))
		}
		return
	}

	// (3) cancel
	if cancelled && res.status == 200 {
		want := 1
		if cur.cancel == "absent" {
			want = 0
		}
		c.Stat("cancel-accepted")
		if nCa != want {
			c.Oracle("cancel-hook-count", fmt.Sprintf("%q: OnCancel ran %d time(s), want %d", l, nCa, want))
		}
		if nEx+nPr != 0 {
			c.Oracle("cancel-ran-turn", fmt.Sprintf("%q: cancel invoked Exchange/Produce %d time(s)", l, nEx+nPr))
		}
		if len(res.batches) != 0 || res.rpcErr {
			c.Oracle("cancel-nonempty-response", fmt.Sprintf("%q: cancel answered with %d batch(es)", l, len(res.batches)))
		}
		if len(toks) != 0 {
			c.Oracle("cancel-returned-cursor", fmt.Sprintf("%q: cancel response carries a token", l))
		}
		// the answer is a well-formed EMPTY IPC stream (schema + end-of-stream), whatever the hook did:
		// a zero-length or cut-off body is not something a client can read as "cancelled"
		if n := countIPCStreams(res.body); n != 1 || !res.parseOK || !ipcEndsWithEOS(res.body) {
			c.Oracle("cancel-response-not-empty-ipc-stream", fmt.Sprintf("%q (hook %s): cancel answered 200 with a %d-byte body holding %d complete IPC stream(s), want exactly one empty stream", l, cur.cancel, len(res.body), n))
		}
		return
	}
	if cancelled {
		return
	}
	if nCa != 0 {
		c.Oracle("cancel-hook-without-cancel", fmt.Sprintf("%q: OnCancel ran on a non-cancel request", l))
	}

	// (2) failed turn: an error, no cursor
	if failed {
		if len(toks) > 0 {
			c.Oracle("failed-turn-has-cursor", fmt.Sprintf("%q: failed turn answered with token %s on batch %d", l, toks[0].sym, toks[0].batch))
		}
		if !hasExc {
			c.Oracle("failed-turn-no-error", fmt.Sprintf("%q: failing response carries no exception batch", l))
		}
		if !cur.producer && res.parseOK && len(res.batches) != 1 {
			c.Oracle("failed-turn-not-single-error", fmt.Sprintf("%q: failed exchange answered with %d batches", l, len(res.batches)))
		}
	}
	if route == "pr" || cur.producer {
		if nEx != 0 {
			c.Oracle("producer-turn-ran-exchange", fmt.Sprintf("%q: a continuation of a producer method ran Exchange %d time(s)", l, nEx))
		}
		return
	}

	// handler failure must surface as a failed turn
	for _, k := range calls {
		if k.Kind == "exchange" && (k.Outcome != "ok" || k.Emitted == 0) && !failed {
			c.Oracle("handler-failure-not-reported", fmt.Sprintf("%q: Exchange outcome=%s emitted=%d but the response is a success", l, k.Outcome, k.Emitted))
		}
	}
	if nPr != 0 {
		c.Oracle("exchange-turn-ran-produce", fmt.Sprintf("%q: a continuation of an exchange method ran Produce %d time(s)", l, nPr))
	}
	if res.status == 200 && nEx != 1 && (schema == "ok" || schema == "cast") {
		c.Oracle("exchange-turn-count", fmt.Sprintf("%q: Exchange ran %d time(s) for one continuation", l, nEx))
	}
	for _, k := range calls {
		if k.Kind == "exchange" && k.Pos != cur.pos {
			c.Oracle("exchange-turn-position", fmt.Sprintf("%q: Exchange ran at position %d, the cursor T%d was at %d", l, k.Pos, curIdx, cur.pos))
		}
	}

	// (1) accepted exchange: exactly one data batch carrying a fresh cursor one step on
	if !failed {
		if nonLog != 1 {
			c.Oracle("exchange-ok-not-one-data", fmt.Sprintf("%q: accepted exchange answered with %d data batches", l, nonLog))
			return
		}
		for _, t := range toks {
			if res.batches[t.batch].isLog() {
				c.Oracle("cursor-on-non-data", fmt.Sprintf("%q: token %s rides log batch %d", l, t.sym, t.batch))
			}
		}
		v, ok := nonLogBatch.get(vgirpc.MetaStreamState)
		sym, isTok := "", false
		if ok {
			sym, isTok = e.symOf(v, false)
		}
		if !ok || !isTok || sym[0] != 'T' {
			c.Oracle("exchange-ok-no-cursor", fmt.Sprintf("%q: the data batch's %s is not a cursor the server can open", l, vgirpc.MetaStreamState))
			return
		}
		n, _ := strconv.Atoi(sym[1:])
		if n < tokensBefore {
			c.Oracle("exchange-cursor-not-fresh", fmt.Sprintf("%q: returned cursor %s was already handed out", l, sym))
			return
		}
		ni := e.info[n]
		if ni.pos != cur.pos+1 || ni.call != cur.call || ni.producer != cur.producer {
			c.Oracle("cursor-state-not-one-step", fmt.Sprintf("%q: new cursor at (call %d,pos %d), presented (call %d,pos %d)", l, ni.call, ni.pos, cur.call, cur.pos))
		}
		nState := 0
		for _, t := range toks {
			if t.sym[0] == 'T' {
				nState++
			}
		}
		if nState != 1 {
			c.Oracle("exchange-ok-cursor-count", fmt.Sprintf("%q: response carries %d cursors", l, nState))
		}
	}
}
