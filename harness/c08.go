package main

// C08 — values survive Arrow serialization for every supported type.
//
// Script ops (one per line; a case is one line):
//
//	sc  <type>               derive the schema                  -> schema=<S> | err:derive
//	rt  <type> | <value>     serializeVgirpcStruct, read the IPC stream, deserializeParams
//	                         -> schema=<S> wire=<row 0> back=<value> | err:derive | … err:encode | … err:decode
//	rth <type> | <value>     like rt, but the run of consecutive rth lines of a case is a HISTORY: all values are
//	                         serialized first (the byte strings kept), then all are decoded, last first
//	wr  <type> | <cells>     a peer's batch with these cells -> deserializeParams -> serializeVgirpcStruct
//	wrx <type> | <cells>     same; the generator asserts every cell is representable in its Go field, so
//	                         the oracle demands the re-serialized row equals the row sent
//
// Types and values are described in c08_types.go, cells in c08_arrow.go.

import (
	"bytes"
	"fmt"
	"math/big"
	"reflect"
	"regexp"
	"strings"
	"sync"

	"github.com/Query-farm/vgi-rpc-go/vgirpc"
	"github.com/apache/arrow-go/v18/arrow"
	"github.com/apache/arrow-go/v18/arrow/ipc"
)

func init() {
	Register(&Prop{
		ID: "C08",
		Rule: "struct types built with reflect.StructOf over every leaf kind x vgirpc tag, nested in pointers, lists, maps and " +
			"struct-tagged structs; values steered to range edges (integer width limits, +-2^63 us, every int32 day class, " +
			"292-year and 1970 boundaries, NaN/Inf, nil/empty collections, unicode and invalid UTF-8); a separate stream of " +
			"wire-side cells (wr/wrx) and a malformed stream (tag soup, unsupported pairs, over-deep nesting). " +
			"A case is non-trivial when it is an rt/wr/wrx line whose type has at least one tagged field; distinct = distinct script lines",
		Gen:  c08Gen,
		Exec: c08Exec,
		NonTrivial: func(lines []string) bool {
			for _, l := range lines {
				if (strings.HasPrefix(l, "rt") || strings.HasPrefix(l, "wr")) && strings.Contains(l, " x") {
					return true
				}
			}
			return false
		},
	})
}

func c08SplitBar(toks []string) ([]string, []string) {
	for i, t := range toks {
		if t == "|" {
			return toks[:i], toks[i+1:]
		}
	}
	return toks, nil
}

// c08ReadRow0 reads the first batch of an IPC stream (retained; caller releases).
func c08ReadRow0(data []byte) (arrow.RecordBatch, error) {
	r, err := ipc.NewReader(bytes.NewReader(data))
	if err != nil {
		return nil, err
	}
	defer r.Release()
	if !r.Next() {
		return nil, fmt.Errorf("no batch in stream: %v", r.Err())
	}
	b := r.RecordBatch()
	b.Retain()
	return b, nil
}

func c08Exec(c *Case) {
	for i := 0; i < len(c.Lines); i++ {
		l := c.Lines[i]
		f := strings.Fields(l)
		if len(f) == 0 {
			continue
		}
		switch f[0] {
		case "sc", "rt", "wr", "wrx":
			c08ExecLine(c, l, f)
		case "cc":
			c08ExecConcurrent(c, l, f)
		case "rth": // a history: the maximal run of rth lines is serialized first, decoded afterwards
			j := i
			for j < len(c.Lines) && strings.HasPrefix(c.Lines[j], "rth ") {
				j++
			}
			c08ExecHistory(c, c.Lines[i:j])
			i = j - 1
		default:
			c.Out(l, "err:bad-op")
		}
	}
}

// c08ExecConcurrent: first use of a struct type the process has never described, from many
// goroutines released together: each derives the (memoized) schema and serializes the value; all
// must see what a later, sequential call sees. A schedule search: it finds a race only when the
// scheduler produces the interleaving. For the model the line is an ordinary round trip.
func c08ExecConcurrent(c *Case, l string, f []string) {
	tt, vt := c08SplitBar(f[1:])
	ty, rest, err := c08ParseTy(tt)
	if err != nil || len(rest) != 0 || ty.K != "st" {
		c.Out(l, "err:script")
		return
	}
	val, rest, err := c08ParseVal(ty, vt)
	if err != nil || len(rest) != 0 {
		c.Out(l, "err:script")
		return
	}
	rv, err := c08Build(ty, val)
	if err != nil {
		c.Out(l, "err:script")
		return
	}
	rt := ty.rtype()
	const workers = 12
	type res struct{ schema, row string }
	results := make([]res, workers)
	start := make(chan struct{})
	var wg sync.WaitGroup
	one := func() (r res) {
		defer func() {
			if p := recover(); p != nil {
				r.row = fmt.Sprintf("panic: %v", p)
			}
		}()
		s, err := vgirpc.VerifC08CachedSchema(rt)
		switch {
		case err != nil:
			r.schema = "err:derive"
		case s == nil:
			r.schema = "nil-schema-without-error"
		default:
			r.schema = c08SchemaString(s)
		}
		data, err, pan := vgirpc.VerifC08Serialize(rv.Interface())
		switch {
		case pan != nil:
			r.row = fmt.Sprintf("panic: %v", pan)
		case err != nil:
			r.row = "err:encode"
		default:
			b, err := c08ReadRow0(data)
			if err != nil {
				r.row = "err:ipc"
			} else {
				r.row = c08SchemaString(b.Schema()) + " " + c08RowString(b)
				b.Release()
			}
		}
		return r
	}
	for w := 0; w < workers; w++ {
		wg.Add(1)
		go func(w int) {
			defer wg.Done()
			<-start
			results[w] = one()
		}(w)
	}
	close(start)
	wg.Wait()
	seq := one()
	c.Stat("concurrent-first-use")
	for w, r := range results {
		if r != seq {
			c.Oracle("schema-differs-under-concurrency", fmt.Sprintf("%s: goroutine %d of %d on first use saw schema %q / row %q, a sequential call sees %q / %q", l, w, workers, r.schema, r.row, seq.schema, seq.row))
			break
		}
	}
	// the observation for the model: an ordinary round trip, after the dust has settled
	c08ExecLine(c, l, append([]string{"rt"}, f[1:]...))
}

// c08ExecHistory: every value of the run is serialized (all returned byte strings kept), then
// every byte string is decoded, last one first. Each line is an independent round trip for the
// model; for the implementation, bytes handed out by an earlier call must still be that call's
// bytes after the later calls.
func c08ExecHistory(c *Case, lines []string) {
	type item struct {
		l, out     string
		ty         *c08Ty
		rt         reflect.Type
		sch        string
		data, snap []byte
		want       string
		wantOK     bool
		done       bool
	}
	items := make([]*item, len(lines))
	for k, l := range lines {
		it := &item{l: l}
		items[k] = it
		f := strings.Fields(l)
		tt, vt := c08SplitBar(f[1:])
		ty, rest, err := c08ParseTy(tt)
		if err != nil || len(rest) != 0 || ty.K != "st" {
			it.out, it.done = "err:script", true
			continue
		}
		it.ty, it.rt = ty, ty.rtype()
		s, err := vgirpc.VerifC08CachedSchema(it.rt)
		if err != nil {
			it.out, it.done = "err:derive", true
			continue
		}
		it.sch = c08SchemaString(s)
		val, rest, err := c08ParseVal(ty, vt)
		if err != nil || len(rest) != 0 {
			it.out, it.done = "err:script", true
			continue
		}
		rv, err := c08Build(ty, val)
		if err != nil {
			it.out, it.done = "err:script", true
			continue
		}
		it.want, it.wantOK = c08ExpectTop(ty, val)
		data, err, pan := vgirpc.VerifC08Serialize(rv.Interface())
		if err != nil || pan != nil {
			if it.wantOK {
				c.Oracle("supported-value-rejected-encode", fmt.Sprintf("%s: %v %v", l, err, pan))
			}
			it.out, it.done = "schema="+it.sch+" err:encode", true
			continue
		}
		it.data, it.snap = data, append([]byte{}, data...)
	}
	for k := len(items) - 1; k >= 0; k-- {
		it := items[k]
		if it.done {
			continue
		}
		c.Stat("history-member")
		if !bytes.Equal(it.data, it.snap) {
			c.Oracle("roundtrip-aliased-buffer", fmt.Sprintf("%s: the %d bytes returned for value %d of %d changed while the later values were serialized", it.l, len(it.snap), k+1, len(items)))
		}
		out := "schema=" + it.sch
		batch, err := c08ReadRow0(it.data)
		if err != nil {
			c.Oracle("roundtrip-after-later-serialization", fmt.Sprintf("%s: the bytes no longer hold a readable stream: %v", it.l, err))
			it.out = out + " err:ipc"
			continue
		}
		if ws := c08SchemaString(batch.Schema()); ws != it.sch {
			c.Oracle("roundtrip-after-later-serialization", fmt.Sprintf("%s: stream schema %s, derived %s", it.l, ws, it.sch))
		}
		out += " wire=" + c08RowString(batch)
		back, err, pan := vgirpc.VerifC08Deserialize(batch, it.rt)
		if err != nil || pan != nil {
			if it.wantOK {
				c.Oracle("roundtrip-after-later-serialization", fmt.Sprintf("%s: decode failed: %v %v", it.l, err, pan))
			}
			it.out = out + " err:decode"
			batch.Release()
			continue
		}
		got := c08Show(it.ty, back)
		batch.Release()
		if it.wantOK && got != it.want {
			c.Oracle("roundtrip-after-later-serialization", fmt.Sprintf("%s: value %d of %d decoded %s, sent %s", it.l, k+1, len(items), got, it.want))
		}
		it.out = out + " back=" + got
	}
	for _, it := range items {
		c.Out(it.l, it.out)
	}
}

func c08ExecLine(c *Case, l string, f []string) {
	tt, vt := c08SplitBar(f[1:])
	ty, rest, err := c08ParseTy(tt)
	if err != nil || len(rest) != 0 || ty.K != "st" {
		c.Out(l, "err:script")
		return
	}
	rt := ty.rtype()

	// schema: the uncached walk, twice, and the memoized one every call uses
	s1, e1 := vgirpc.VerifC08DeriveSchema(rt)
	s2, e2 := vgirpc.VerifC08DeriveSchema(rt)
	s3, e3 := vgirpc.VerifC08CachedSchema(rt)
	s4, e4 := vgirpc.VerifC08CachedSchema(reflect.PointerTo(rt))
	if (e1 == nil) != (e2 == nil) || (e1 == nil) != (e3 == nil) || (e1 == nil) != (e4 == nil) {
		c.Oracle("schema-not-deterministic", fmt.Sprintf("%s: derivation errors differ between calls: %v / %v / %v / %v", l, e1, e2, e3, e4))
	}
	if e1 != nil {
		c.Stat("derive-error")
		c.Out(l, "err:derive")
		return
	}
	sch := c08SchemaString(s1)
	if e2 == nil && e3 == nil && e4 == nil {
		if c08SchemaString(s2) != sch || c08SchemaString(s3) != sch || c08SchemaString(s4) != sch ||
			!s1.Equal(s2) || !s1.Equal(s3) || !s1.Equal(s4) || s1.Metadata().Len() != 0 || s3.Metadata().Len() != 0 {
			c.Oracle("schema-not-deterministic", fmt.Sprintf("%s: %s vs %s vs %s vs %s", l, sch, c08SchemaString(s2), c08SchemaString(s3), c08SchemaString(s4)))
		}
	}
	out := "schema=" + sch
	if f[0] == "sc" {
		c.Stat("sc")
		c.Out(l, out)
		return
	}

	if f[0] == "rt" {
		val, rest, err := c08ParseVal(ty, vt)
		if err != nil || len(rest) != 0 {
			c.Out(l, "err:script")
			return
		}
		rv, err := c08Build(ty, val)
		if err != nil {
			c.Out(l, "err:script")
			return
		}
		want, wantOK := c08ExpectTop(ty, val)
		data, err, pan := vgirpc.VerifC08Serialize(rv.Interface())
		if err != nil || pan != nil {
			c.Stat("rt-encode-error")
			if wantOK {
				c.Oracle("supported-value-rejected-encode", fmt.Sprintf("%s: every field is representable on the wire, yet serialization failed: %v %v", l, err, pan))
			}
			c.Out(l, out+" err:encode")
			return
		}
		batch, err := c08ReadRow0(data)
		if err != nil {
			c.Oracle("ipc-unreadable", fmt.Sprintf("%s: %v", l, err))
			c.Out(l, out+" err:ipc")
			return
		}
		defer batch.Release()
		if ws := c08SchemaString(batch.Schema()); ws != sch {
			c.Oracle("wire-schema-differs", fmt.Sprintf("%s: batch schema %s, derived %s", l, ws, sch))
		}
		out += " wire=" + c08RowString(batch)
		back, err, pan := vgirpc.VerifC08Deserialize(batch, rt)
		if err != nil || pan != nil {
			c.Stat("rt-decode-error")
			if wantOK {
				c.Oracle("supported-value-rejected-decode", fmt.Sprintf("%s: the serializer's own output was refused: %v %v", l, err, pan))
			}
			c.Out(l, out+" err:decode")
			return
		}
		got := c08Show(ty, back)
		if wantOK {
			c.Stat("rt-oracle")
			if got != want {
				c.Oracle(c08DiffClass(ty, want, got), fmt.Sprintf("%s: decoded %s, the value sent is %s (up to the documented precision)", l, got, want))
			}
		} else {
			c.Stat("rt-no-oracle")
		}
		c.Out(l, out+" back="+got)
		return
	}

	// wr / wrx
	in, err := c08BuildBatch(s1, vt)
	if err != nil {
		c.Out(l, "err:script")
		return
	}
	defer in.Release()
	sent := c08RowString(in)
	back, err, pan := vgirpc.VerifC08Deserialize(in, rt)
	if err != nil || pan != nil {
		c.Stat("wr-decode-error")
		if f[0] == "wrx" {
			c.Oracle("wire-value-rejected-decode", fmt.Sprintf("%s: %v %v", l, err, pan))
		}
		c.Out(l, out+" err:decode")
		return
	}
	out += " back=" + c08Show(ty, back)
	data, err, pan := vgirpc.VerifC08Serialize(back.Interface())
	if err != nil || pan != nil {
		c.Stat("wr-encode-error")
		if f[0] == "wrx" {
			c.Oracle("wire-value-rejected-encode", fmt.Sprintf("%s: %v %v", l, err, pan))
		}
		c.Out(l, out+" err:encode")
		return
	}
	b2, err := c08ReadRow0(data)
	if err != nil {
		c.Oracle("ipc-unreadable", fmt.Sprintf("%s: %v", l, err))
		c.Out(l, out+" err:ipc")
		return
	}
	defer b2.Release()
	again := c08RowString(b2)
	if f[0] == "wrx" {
		c.Stat("wrx-oracle")
		if again != sent {
			c.Oracle("wire-roundtrip-"+c08FirstDiffKind(sent, again), fmt.Sprintf("%s: sent %s, after decode+encode %s", l, sent, again))
		}
	} else {
		c.Stat("wr")
	}
	c.Out(l, out+" wire="+again)
}

// ---------------------------------------------------------------- oracle: the value a round trip must give

var c08PlainDecimal = regexp.MustCompile(`^[+-]?([0-9]+\.?[0-9]*|\.[0-9]+)$`)

type c08TagInfo struct {
	name, arrowType, elemType string
	hasDefault                bool
}

func c08ParseTag(tag string) c08TagInfo {
	parts := strings.Split(tag, ",")
	ti := c08TagInfo{name: parts[0]}
	for _, p := range parts[1:] {
		switch {
		case strings.HasPrefix(p, "default="):
			ti.hasDefault = true
		case strings.HasPrefix(p, "elem="):
			ti.elemType = strings.TrimPrefix(p, "elem=")
		case p == "nullable":
		default:
			ti.arrowType = p
		}
	}
	return ti
}

func c08FloorDiv(a, b int64) int64 {
	q := a / b
	if a%b != 0 && (a < 0) != (b < 0) {
		q--
	}
	return q
}

var c08WireInts = map[string]string{"int8": "i8", "int16": "i16", "int32": "i32", "uint8": "u8", "uint16": "u16", "uint32": "u32", "uint64": "u64"}

// c08ExpectLeaf: the canonical text a supported leaf must decode to; ok=false when the pair is not
// in the supported family or the value is not representable in the wire type.
func c08ExpectLeaf(kind, at string, v *c08Val) (string, bool) {
	kind = c08Base(kind)
	if strings.HasPrefix(at, "fixed_binary[") && strings.HasSuffix(at, "]") {
		var w int
		if _, err := fmt.Sscanf(at, "fixed_binary[%d]", &w); err != nil || w <= 0 || kind != "bytes" {
			return "", false
		}
		if v.K == 'n' {
			return "", false // a nil []byte has length 0, never w
		}
		return "y:" + fmt.Sprintf("%x", v.S), len(v.S) == w
	}
	switch kind {
	case "i8", "i16", "i32", "i64", "int", "u8", "u16", "u32", "u64", "uint":
		wire := kind
		if at != "" {
			w, ok := c08WireInts[at]
			if !ok {
				return "", false
			}
			wire = w
		}
		lo, hi, _ := c08IntRange(wire)
		return "i:" + v.I.String(), v.I.Cmp(lo) >= 0 && v.I.Cmp(hi) <= 0
	case "f32":
		return "g:" + c08ShowF32(uint32(v.Bits)), at == "" || at == "float32"
	case "f64":
		return "f:" + c08ShowF64(v.Bits), at == ""
	case "bool":
		if v.B {
			return "b:1", at == ""
		}
		return "b:0", at == ""
	case "str":
		switch at {
		case "", "large_string", "enum", "dict_string":
			return "s:" + fmt.Sprintf("%x", v.S), true
		case "decimal":
			s := string(v.S)
			if !c08PlainDecimal.MatchString(s) {
				return "", false
			}
			r, ok := new(big.Rat).SetString(s)
			if !ok {
				return "", false
			}
			r.Mul(r, big.NewRat(10000, 1))
			n := new(big.Int).Quo(r.Num(), r.Denom()) // truncates toward zero
			rem := new(big.Int).Sub(r.Num(), new(big.Int).Mul(n, r.Denom()))
			if new(big.Int).Mul(big.NewInt(2), new(big.Int).Abs(rem)).Cmp(r.Denom()) >= 0 {
				if r.Sign() < 0 {
					n.Sub(n, big.NewInt(1))
				} else {
					n.Add(n, big.NewInt(1))
				}
			}
			limit := new(big.Int).Exp(big.NewInt(10), big.NewInt(20), nil)
			if new(big.Int).Abs(n).Cmp(limit) >= 0 {
				return "", false
			}
			abs := new(big.Int).Abs(n)
			ip, fp := new(big.Int).QuoRem(abs, big.NewInt(10000), new(big.Int))
			sign := ""
			if n.Sign() < 0 {
				sign = "-"
			}
			return "s:" + fmt.Sprintf("%x", fmt.Sprintf("%s%s.%04d", sign, ip, fp.Int64())), true
		}
		return "", false
	case "bytes":
		if at == "" || at == "binary" || at == "large_binary" {
			return "y:" + fmt.Sprintf("%x", v.S), true
		}
		return "", false
	case "time":
		switch at {
		case "date":
			day := c08FloorDiv(v.Sec, 86400)
			return fmt.Sprintf("t:%d:0", day*86400), day >= -(1<<31) && day < (1<<31)
		case "timestamp", "timestamp_utc":
			us := new(big.Int).Add(new(big.Int).Mul(big.NewInt(v.Sec), big.NewInt(1000000)), big.NewInt(v.Nsec/1000))
			return fmt.Sprintf("t:%d:%d", v.Sec, v.Nsec/1000*1000), us.IsInt64()
		case "time":
			sod := v.Sec - c08FloorDiv(v.Sec, 86400)*86400
			return fmt.Sprintf("t:%d:%d", sod, v.Nsec/1000*1000), true
		}
		return "", false
	case "dur":
		if at == "duration" {
			return fmt.Sprintf("d:%d", v.Ns/1000*1000), true
		}
		return "", false
	}
	return "", false
}

func c08Zero(t *c08Ty) string {
	switch c08Base(t.K) {
	case "ptr":
		return "nil"
	case "sl":
		return "[]"
	case "map":
		return "{}"
	case "st":
		parts := make([]string, len(t.Fields))
		for i, f := range t.Fields {
			parts[i] = c08Zero(f.T)
		}
		return "(" + strings.Join(parts, ",") + ")"
	case "i8", "i16", "i32", "i64", "int", "u8", "u16", "u32", "u64", "uint":
		return "i:0"
	case "f32":
		return "g:00000000"
	case "f64":
		return "f:0000000000000000"
	case "bool":
		return "b:0"
	case "str":
		return "s:"
	case "bytes":
		return "y:"
	case "time":
		return "t:-62135596800:0"
	case "dur":
		return "d:0"
	}
	return "?"
}

// c08Expect: expected canonical text of value v of type t carried in a column/child/element whose
// tag options are (at, et). ok=false: outside the family the property speaks about.
func c08Expect(t *c08Ty, at, et string, v *c08Val, depth int) (string, bool) {
	if t.K == "ptr" {
		if t.Elem.K == "ptr" {
			return "", false
		}
		if v.K == 'n' {
			return "nil", true
		}
		return c08Expect(t.Elem, at, et, v, depth)
	}
	if at == "struct" {
		if t.K != "st" || depth >= 8 {
			return "", false
		}
		return c08ExpectStruct(t, v, depth+1)
	}
	if t.isLeaf() {
		return c08ExpectLeaf(t.K, at, v)
	}
	if at != "" { // a type override on a collection is not a supported pair
		return "", false
	}
	switch t.K {
	case "sl":
		if v.K == 'n' {
			return "[]", true
		}
		parts := make([]string, len(v.Elems))
		for i, e := range v.Elems {
			s, ok := c08Expect(t.Elem, et, "", e, depth)
			if !ok {
				return "", false
			}
			parts[i] = s
		}
		return "[" + strings.Join(parts, ",") + "]", true
	case "map":
		if kk := c08Base(t.Key.K); t.Key.K == "ptr" || !(kk == "str" || kk[0] == 'i' || kk[0] == 'u') {
			return "", false
		}
		if v.K == 'n' {
			return "{}", true
		}
		type ent struct{ key, text string }
		ents := make([]ent, len(v.Elems))
		for i := range v.Elems {
			ks, ok1 := c08Expect(t.Key, "", "", v.Keys[i], depth)
			vs, ok2 := c08Expect(t.Elem, "", "", v.Elems[i], depth)
			if !ok1 || !ok2 {
				return "", false
			}
			kt := string(v.Keys[i].S)
			if v.Keys[i].K == 'i' {
				kt = v.Keys[i].I.String()
			}
			ents[i] = ent{kt, ks + "=" + vs}
		}
		for i := 1; i < len(ents); i++ { // insertion sort by key text
			for j := i; j > 0 && ents[j].key < ents[j-1].key; j-- {
				ents[j], ents[j-1] = ents[j-1], ents[j]
			}
		}
		parts := make([]string, len(ents))
		for i, e := range ents {
			parts[i] = e.text
		}
		return "{" + strings.Join(parts, ",") + "}", true
	}
	return "", false
}

// c08ExpectStruct: fields with a vgirpc tag travel, the others come back zero. Field lookup in a
// nested struct is by tag name, so the expectation is only stated for distinct, non-empty names
// and no arrow tags.
func c08ExpectStruct(t *c08Ty, v *c08Val, depth int) (string, bool) {
	seen := map[string]bool{}
	parts := make([]string, len(t.Fields))
	tagged := 0
	for i, f := range t.Fields {
		if f.ATag != "" {
			return "", false
		}
		if f.Tag == "" || f.Tag == "-" {
			parts[i] = c08Zero(f.T)
			continue
		}
		ti := c08ParseTag(f.Tag)
		if ti.name == "" || seen[ti.name] || (ti.hasDefault && f.T.K == "ptr") {
			return "", false
		}
		seen[ti.name] = true
		tagged++
		s, ok := c08Expect(f.T, ti.arrowType, ti.elemType, v.Elems[i], depth)
		if !ok {
			return "", false
		}
		parts[i] = s
	}
	if depth > 0 && tagged == 0 {
		return "", false
	}
	return "(" + strings.Join(parts, ",") + ")", true
}

func c08ExpectTop(t *c08Ty, v *c08Val) (string, bool) { return c08ExpectStruct(t, v, 0) }

// c08DiffClass names the kind of the first leaf that differs (stable slug for known findings).
func c08DiffClass(t *c08Ty, want, got string) string {
	if c08HasNamed(t) {
		return "roundtrip-named-type-with-methods"
	}
	kind := c08FirstDiffKind(want, got)
	if kind == "time" { // refine by the wire type of the time-valued fields of the struct
		wires := map[string]bool{}
		var walk func(t *c08Ty)
		walk = func(t *c08Ty) {
			for _, f := range t.Fields {
				ti := c08ParseTag(f.Tag)
				for _, a := range []string{ti.arrowType, ti.elemType} {
					switch a {
					case "date":
						wires["date"] = true
					case "timestamp", "timestamp_utc":
						wires["timestamp"] = true
					case "time":
						wires["timeofday"] = true
					}
				}
				u := f.T
				for u.K == "ptr" || u.K == "sl" {
					u = u.Elem
				}
				if u.K == "st" {
					walk(u)
				}
			}
		}
		walk(t)
		if len(wires) == 1 {
			for w := range wires {
				kind = w
			}
		}
	}
	return "roundtrip-" + kind
}

func c08FirstDiffKind(a, b string) string {
	i := 0
	for i < len(a) && i < len(b) && a[i] == b[i] {
		i++
	}
	// walk back to the start of the token
	j := i
	if j >= len(a) {
		j = len(a) - 1
	}
	for j > 0 && !strings.ContainsRune("(,=[{", rune(a[j-1])) {
		j--
	}
	tok := a[j:]
	if k := strings.IndexAny(tok, ":,)]}="); k >= 0 {
		tok = tok[:k]
	}
	if tok == "" || strings.ContainsAny(tok, "([{") {
		return "structure"
	}
	switch tok {
	case "i", "i8", "i16", "i32", "i64", "u8", "u16", "u32", "u64":
		return "integer"
	case "g", "f", "f32", "f64":
		return "float"
	case "b":
		return "bool"
	case "s", "ls", "dict":
		return "string"
	case "y", "ly", "fy":
		return "binary"
	case "t":
		return "time"
	case "d", "dur":
		return "duration"
	case "nil", "N":
		return "null"
	case "date", "ts", "time", "dec":
		return tok
	}
	return "structure"
}
