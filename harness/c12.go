package main

import (
	"fmt"
	"strings"
)

// C12 — forged or altered state tokens never reach stream state.
//
// Cases: real /init on an instance, a few honest turns, then a battery of continuations whose
// cursor or call token was altered (text-level and envelope-level single/multi byte edits,
// truncations, extensions, every version byte, re-encodings), minted under another key, minted
// for another caller or of the other kind — on the instance that saw the /init (call cache warm:
// the call token is not consulted) and on an instance sharing the key that did not (cold: it is).
// The script grammar and the executor are in c12_world.go.

func init() {
	Register(&Prop{
		ID: "C12",
		Rule: "real init + honest turns + battery of altered/foreign/cross-kind tokens against warm and cold instances " +
			"(thorough: exhaustive single-byte edits, all truncation lengths, all 256 version bytes per token); " +
			"non-trivial = at least one init and one continuation presenting an altered, foreign or literal token; distinct = distinct scripts",
		Gen:  c12Gen,
		Exec: tkExecProp("C12"),
		NonTrivial: func(lines []string) bool {
			ini, alt := false, false
			for _, l := range lines {
				if strings.HasPrefix(l, "init ") {
					ini = true
				}
				if strings.HasPrefix(l, "cont ") && (strings.Contains(l, "|") || strings.Contains(l, "=x") || strings.Contains(l, "=$f")) {
					alt = true
				}
			}
			return ini && alt
		},
	})
}

var c12Idents = []string{"anon", "a/" + XS("bearer") + "/" + XS("alice"), "a/" + XS("jwt") + "/" + XS("bob")}

// c12Edits: one battery of alterations for a token whose text has n bytes (raw m bytes).
func c12Edits(r *Rng, n, m int, exhaustive bool) []string {
	var e []string
	add := func(s string, a ...interface{}) { e = append(e, fmt.Sprintf(s, a...)) }
	if exhaustive {
		for p := 0; p < n; p++ {
			add("tx:%d:1", p)
			add("td:%d", p)
			add("ti:%d:65", p)
		}
		add("ti:%d:65", n)
		for k := 0; k < n; k++ {
			add("tt:%d", k)
		}
		for p := 0; p < m; p++ {
			add("rx:%d:%d", p, 1<<uint(r.Intn(8)))
		}
		for k := 0; k < m; k++ {
			add("rt:%d", k)
		}
		for v := 0; v < 256; v++ {
			add("rv:%d", v)
		}
	}
	xors := []int{1, 2, 4, 0x20, 0x40, 0x80, 0xff, 0x7f}
	setb := []int{'=', '\n', '\r', ' ', 0, 0xff, 'A', '-', '_', '+', '/', '.', '%'}
	insb := []int{'\n', '\r', 'A', '=', ' ', 0, '-', 0x80}
	for k := 0; k < 10; k++ {
		add("tx:%d:%d", r.Intn(n), Pick(r, xors))
		add("ts:%d:%d", r.Intn(n), Pick(r, setb))
		add("ti:%d:%d", r.Intn(n+1), Pick(r, insb))
		add("td:%d", r.Intn(n))
	}
	for _, p := range []int{0, 1, 2, 3, n - 1, n - 2, n - 3, n - 4} {
		add("tx:%d:%d", p, Pick(r, xors))
		add("td:%d", p)
	}
	for _, k := range []int{0, 1, 2, 3, 4, 8, 52, 53, 54, 55, 56, 57, 60, n - 4, n - 3, n - 2, n - 1} {
		if k >= 0 && k < n {
			add("tt:%d", k)
		}
	}
	for _, h := range []string{"41", "3d", "0a", "0d0a", "41414141", "3d3d", "20", "00", "41413d3d"} {
		add("ta:%s", h)
	}
	// envelope level: version byte, nonce, ciphertext, tag
	for _, p := range []int{0, 1, 12, 24, 25, 26, m - 17, m - 16, m - 1} {
		if p >= 0 && p < m {
			add("rx:%d:%d", p, Pick(r, xors))
		}
	}
	for k := 0; k < 6; k++ {
		add("rx:%d:%d", r.Intn(m), Pick(r, xors))
	}
	add("rx:%d:1|rx:%d:1", r.Intn(m), r.Intn(m))
	for _, k := range []int{0, 1, 24, 25, 39, 40, 41, 42, m - 16, m - 1} {
		if k >= 0 && k < m {
			add("rt:%d", k)
		}
	}
	for _, h := range []string{"00", "ff", "0000000000000000", "41"} {
		add("ra:%s", h)
	}
	for _, v := range []int{0, 1, 2, 4, 5, 6, 7, 8, 0x36, 0x7f, 0x80, 0xfe, 0xff, r.Intn(256), r.Intn(256), r.Intn(256)} {
		add("rv:%d", v)
	}
	// re-encodings of the SAME envelope (accepted when Go's StdEncoding decodes them to the same bytes)
	add("enc:rawstd")
	add("enc:url")
	add("enc:rawurl")
	add("bits")
	add("ti:%d:10", r.Intn(n+1))
	add("ti:%d:13|ti:%d:10", r.Intn(n+1), r.Intn(n+1))
	add("ta:0a")
	add("ta:0d0a0d0a")
	add("enc:url|ti:%d:10", r.Intn(n))
	add("rv:%d|enc:rawurl", Pick(r, []int{1, 6}))
	return e
}

func c12Gen(g *Gen) {
	r := g.Rng
	n := g.N(40, 160)
	streamMethods := []string{"exch", "prod", "dyne", "dynp", "exb", "pb", "dynb", "exch2", "prod2"}
	for i := 0; i < n; i++ {
		exhaustive := g.Thorough() && i%8 == 0
		keyLen := Pick(r, []int{16, 17, 24, 31, 32, 32, 32, 33, 48, 64})
		key := tkKeyOfLen(r, keyLen)
		fkey := tkKeyOfLen(r, Pick(r, []int{16, 32, 32, 40, 64}))
		cache0 := Pick(r, []int{0, 4096, 4096}) // several streams share i0/i1: sizes that never evict (eviction order is not C12's business)
		rh, hk := r.Bool(), r.Bool()
		id := Pick(r, c12Idents)
		other := c12Idents[(indexOf(c12Idents, id)+1+r.Intn(2))%3]
		m := Pick(r, streamMethods)
		lines := []string{
			tkInstLine("i0", key, 100000, cache0, false, "w0", rh, hk),
			tkInstLine("i1", key, 100000, Pick(r, []int{0, 4096}), false, "w1", rh, hk),
			tkInstLine("f0", fkey, 100000, 4096, false, "wf", rh, hk),
		}
		if r.Chance(30) {
			lines = append(lines, "norm "+tkKeyOfLen(r, Pick(r, []int{16, 20, 31, 32, 33, 64})))
		}
		lines = append(lines, fmt.Sprintf("init i0 %s %s limit=%d sess=- cur=c0 call=k0", id, m, r.Range(4, 9)))
		lines = append(lines, fmt.Sprintf("init f0 %s %s limit=5 sess=- cur=fc0 call=fk0", id, m))
		lines = append(lines, fmt.Sprintf("init i0 %s %s limit=6 sess=- cur=d0 call=kd0", id, m)) // a second stream of the same caller
		curSlot := "c0"
		for t := r.Intn(3); t > 0; t-- {
			nx := fmt.Sprintf("c%d", len(lines))
			lines = append(lines, fmt.Sprintf("cont %s %s %s cur=$%s call=$k0 cancel=0 sess=- out=%s", Pick(r, []string{"i0", "i1"}), id, m, curSlot, nx))
			curSlot = nx
		}
		// token lengths: the state gob is small and fixed-shape; lengths are only used to aim edits
		curN, curM := 330, 246
		callN, callM := 392, 292
		cont := func(inst, who, cur, call string) {
			lines = append(lines, fmt.Sprintf("cont %s %s %s cur=%s call=%s cancel=%d sess=- out=-", inst, who, m, cur, call, b2i(r.Chance(8))))
		}
		edits := c12Edits(r, curN, curM, exhaustive)
		if !exhaustive {
			edits = sample(r, edits, g.N(45, 90))
		}
		for _, e := range edits {
			cont(Pick(r, []string{"i0", "i0", "i1"}), id, "$"+curSlot+"|"+e, "$k0")
		}
		cedits := c12Edits(r, callN, callM, false)
		cedits = sample(r, cedits, g.N(30, 70))
		for _, e := range cedits {
			// cold instance: the call token is consulted; warm instance: it is not
			cont(Pick(r, []string{"i1", "i1", "i0"}), id, "$"+curSlot, "$k0|"+e)
		}
		// foreign key, foreign identity, other kind, literals, absent
		cont("i0", id, "$fc0", "$k0")
		cont("i1", id, "$fc0", "$fk0")
		cont("i1", id, "$"+curSlot, "$fk0")
		lines = append(lines, fmt.Sprintf("mint cursor fc1 f0 %s age=0 callid=@c0 method=%s skind=%s count=1 limit=9", id, m, Pick(r, []string{"P", "E", "B"})))
		lines = append(lines, fmt.Sprintf("mint call fk1 f0 %s age=0 callid=@c0 schema=1 streamid=%s", id, XS("feedfacefeedfacefeedfacefeedface")))
		cont("i0", id, "$fc1", "$k0")
		cont("i1", id, "$"+curSlot, "$fk1")
		cont(Pick(r, []string{"i0", "i1"}), other, "$"+curSlot, "$k0")
		cont("i1", id, "$k0|rv:6", "$k0")
		// genuine tokens of the same caller, but of another call
		cont("i1", id, "$"+curSlot, "$kd0")
		cont("i1", id, "$d0", "$k0")
		cont("i1", id, "$d0", "$kd0")
		cont("i1", id, "$"+curSlot, "$"+curSlot+"|rv:1")
		cont("i1", id, "$k0", "$"+curSlot)
		for k := 0; k < 4; k++ {
			cont(Pick(r, []string{"i0", "i1"}), id, X(r.Bytes(Pick(r, []int{0, 1, 3, 40, 41, 60, 200}))), "$k0")
			cont("i1", id, "$"+curSlot, X(r.Bytes(Pick(r, []int{1, 3, 40, 41, 60, 200}))))
		}
		cont("i0", id, "x", "$k0")
		cont("i1", id, "$"+curSlot, "x")
		cont("i0", id, "-", "$k0")
		cont("i1", id, "$"+curSlot, "-")
		cont("i1", id, XS("not base64 at all!"), "$k0")
		// a well-formed envelope that no server sealed
		cont("i1", id, "$"+curSlot+"|rx:30:255|rx:31:255|rx:-1:255", "$k0")
		// foreign keys that share a long prefix with this server's key: a 32-byte key and longer keys
		// extending it, and long keys equal in their first 32 bytes but differing later — all distinct keys
		base := r.Bytes(64)
		pk := func(n int, tweak bool) string {
			k := append([]byte(nil), base[:n]...)
			if tweak {
				k[n-1] ^= 0x5a // suffix differs, first 32 bytes equal (n > 32)
			}
			return X(k)
		}
		type pfx struct{ home, other string }
		pairs := []pfx{
			{pk(32, false), pk(33, false)}, {pk(32, false), pk(48, false)}, {pk(32, false), pk(64, false)},
			{pk(33, false), pk(32, false)}, {pk(48, false), pk(64, false)}, {pk(64, false), pk(48, false)},
			{pk(33, false), pk(33, true)}, {pk(48, false), pk(48, true)}, {pk(64, false), pk(64, true)}, {pk(64, true), pk(33, false)},
		}
		for k, p := range sample2(r, pairs, g.N(3, 10)) {
			h, o := fmt.Sprintf("h%d", k), fmt.Sprintf("o%d", k)
			lines = append(lines, tkInstLine(h, p.home, 100000, Pick(r, []int{0, 4096}), false, "wh", rh, hk),
				tkInstLine(o, p.other, 100000, 4096, false, "wo", rh, hk),
				fmt.Sprintf("init %s %s %s limit=5 sess=- cur=%sc call=%sk", h, id, m, h, h),
				fmt.Sprintf("init %s %s %s limit=5 sess=- cur=%sc call=%sk", o, id, m, o, o),
				fmt.Sprintf("mint cursor %sf %s %s age=0 callid=@%sc method=%s skind=%s count=1 limit=9", o, o, id, h, m, kindOfMethod(m)))
			cont(h, id, "$"+o+"c", "$"+o+"k") // the other server's whole token set
			cont(h, id, "$"+o+"f", "$"+h+"k") // its cursor naming this server's call, with this server's call token
			cont(h, id, "$"+h+"c", "$"+o+"k") // genuine cursor, foreign call token (consulted when the cache is off)
			cont(o, id, "$"+h+"c", "$"+h+"k") // and the other direction
			cont(h, id, "$"+h+"c", "$"+h+"k") // control: own tokens accepted
		}
		// the stream still works after all the refusals
		lines = append(lines, fmt.Sprintf("cont i1 %s %s cur=$%s call=$k0 cancel=0 sess=- out=cz", id, m, curSlot))
		g.Case(lines...)
	}
}

func kindOfMethod(m string) string {
	for _, x := range tkMethods {
		if x.name == m {
			return x.kind
		}
	}
	return "E"
}

func sample2[T any](r *Rng, xs []T, k int) []T {
	if len(xs) <= k {
		return xs
	}
	out := make([]T, 0, k)
	seen := map[int]bool{}
	for len(out) < k {
		i := r.Intn(len(xs))
		if !seen[i] {
			seen[i] = true
			out = append(out, xs[i])
		}
	}
	return out
}
