package main

import (
	"bytes"
	"encoding/hex"
	"fmt"
	"net/http"
	"net/http/httptest"
	"strconv"
	"strings"
	"sync"
	"time"

	"github.com/Query-farm/vgi-rpc-go/vgirpc"
)

// C32 — parallel range fetches terminate with the exact resource or an error.
//
// One script line = one call of FetchWithParallelRangeRequests against a scripted origin:
//
//   fetch res=<hex> thr=<int> cs=<int> par=<int> maxfetch=<int> mult=<off|never|aggr> maxhedges=<int>
//         head=<ok|drop|nolen|noranges> resp=<c:a:K,...|-> order=<c:a,...|-> simple=<status>
//
//   resp   answer of the origin to the a-th request (0 = first, 1 = second/hedge) for chunk c:
//          x full range (206) | s<k> 206 with only the first k bytes | w 200 with the whole body |
//          t<k> 200 with the first k bytes of the whole body | e<code> that status | d connection dropped.
//          Unlisted requests get x.
//   order  the origin holds every range request and releases answers in this order (entries whose
//          request has not arrived are skipped), then lowest (chunk, attempt) first.
//   mult   SpeculativeRetryMultiplier: off = 0 (hedging disabled), never = 1e6 (never slow; larger values overflow time.Duration),
//          aggr = 1e-12 (every pending chunk is slow as soon as two completions are recorded).
//
// Observation compared with the model: simple ok x<hex> | simple err | toolarge | ok x<hex> | err.

func init() {
	Register(&Prop{
		ID: "C32",
		Rule: "resources 1..40 bytes x chunk sizes (incl. 0/negative, 1, len-1, len, len+1) x parallelism (incl. 0/negative, 1, <n, >=2n) x hedging off/never/aggressive x hedge budgets; " +
			"per-request answers drawn from full/short/whole-body-200/truncated-200/status/drop; release orders random, failures-first and successes-first; " +
			"non-trivial = parallel path with at least one non-full answer or a scripted order; distinct = distinct scripts",
		Gen:  c32Gen,
		Exec: c32Exec,
		NonTrivial: func(lines []string) bool {
			for _, l := range lines {
				if !strings.Contains(l, " resp=- ") || !strings.Contains(l, " order=- ") {
					return true
				}
			}
			return false
		},
	})
}

type c32Req struct {
	chunk, attempt int
	start, end     int64
	release        chan string
	released       bool
}

type c32Origin struct {
	mu        sync.Mutex
	res       []byte
	cs        int64
	head      string
	simple    int
	table     map[[2]int]string
	parked    []*c32Req
	counts    map[int]int
	sawSimple bool
	rangeReqs int
	extra     int
	active    int // handlers that have not returned yet (parked or still writing their answer)
	stop      chan struct{}
}

func (o *c32Origin) ServeHTTP(w http.ResponseWriter, r *http.Request) {
	if r.Method == "HEAD" {
		switch o.head {
		case "drop":
			c32Drop(w)
			return
		case "nolen":
			w.Header().Set("Accept-Ranges", "bytes")
			return
		case "noranges":
			w.Header().Set("Content-Length", strconv.Itoa(len(o.res)))
			return
		}
		w.Header().Set("Accept-Ranges", "bytes")
		w.Header().Set("Content-Length", strconv.Itoa(len(o.res)))
		return
	}
	rg := r.Header.Get("Range")
	if rg == "" {
		o.mu.Lock()
		o.sawSimple = true
		o.mu.Unlock()
		if o.simple != 200 {
			w.WriteHeader(o.simple)
			return
		}
		w.Write(o.res)
		return
	}
	var a, b int64
	if _, err := fmt.Sscanf(rg, "bytes=%d-%d", &a, &b); err != nil {
		w.WriteHeader(400)
		return
	}
	o.mu.Lock()
	chunk := int(a / o.cs)
	att := o.counts[chunk]
	o.counts[chunk]++
	o.rangeReqs++
	if att >= 2 {
		o.extra++
	}
	req := &c32Req{chunk: chunk, attempt: att, start: a, end: b, release: make(chan string, 1)}
	o.parked = append(o.parked, req)
	o.mu.Unlock()

	o.mu.Lock()
	o.active++
	o.mu.Unlock()
	defer func() {
		o.mu.Lock()
		o.active--
		o.mu.Unlock()
	}()
	var kind string
	select {
	case kind = <-req.release:
	case <-r.Context().Done():
		return
	case <-o.stop:
		return
	}
	if b >= int64(len(o.res)) {
		b = int64(len(o.res)) - 1
	}
	want := o.res[a : b+1]
	switch {
	case kind == "x":
		w.Header().Set("Content-Range", fmt.Sprintf("bytes %d-%d/%d", a, b, len(o.res)))
		w.WriteHeader(206)
		w.Write(want)
	case strings.HasPrefix(kind, "s"):
		k, _ := strconv.Atoi(kind[1:])
		if k > len(want) {
			k = len(want)
		}
		w.Header().Set("Content-Range", fmt.Sprintf("bytes %d-%d/%d", a, a+int64(k)-1, len(o.res)))
		w.WriteHeader(206)
		w.Write(want[:k])
	case kind == "w":
		w.WriteHeader(200)
		w.Write(o.res)
	case strings.HasPrefix(kind, "t"):
		k, _ := strconv.Atoi(kind[1:])
		if k > len(o.res) {
			k = len(o.res)
		}
		w.WriteHeader(200)
		w.Write(o.res[:k])
	case strings.HasPrefix(kind, "e"):
		code, _ := strconv.Atoi(kind[1:])
		w.WriteHeader(code)
	case kind == "d":
		c32Drop(w)
	default:
		w.WriteHeader(500)
	}
}

func c32Drop(w http.ResponseWriter) {
	if hj, ok := w.(http.Hijacker); ok {
		if conn, _, err := hj.Hijack(); err == nil {
			conn.Close()
			return
		}
	}
	w.WriteHeader(500)
}

// find a parked, unreleased request.
func (o *c32Origin) find(chunk, att int) *c32Req {
	o.mu.Lock()
	defer o.mu.Unlock()
	for _, p := range o.parked {
		if p.chunk == chunk && p.attempt == att && !p.released {
			return p
		}
	}
	return nil
}

func (o *c32Origin) wasReleased(chunk, att int) bool {
	o.mu.Lock()
	defer o.mu.Unlock()
	for _, p := range o.parked {
		if p.chunk == chunk && p.attempt == att && p.released {
			return true
		}
	}
	return false
}

func (o *c32Origin) lowest() *c32Req {
	o.mu.Lock()
	defer o.mu.Unlock()
	var best *c32Req
	for _, p := range o.parked {
		if p.released {
			continue
		}
		if best == nil || p.chunk < best.chunk || (p.chunk == best.chunk && p.attempt < best.attempt) {
			best = p
		}
	}
	return best
}

func (o *c32Origin) doRelease(p *c32Req) {
	o.mu.Lock()
	p.released = true
	kind, ok := o.table[[2]int{p.chunk, p.attempt}]
	o.mu.Unlock()
	if !ok {
		kind = "x"
	}
	p.release <- kind
}

type c32Spec struct {
	res                      []byte
	resTok                   string
	thr, cs, maxfetch        int64
	par, maxhedges, simple   int
	mult, head               string
	table                    map[[2]int]string
	tableOrder               [][2]int
	order                    [][2]int
}

func c32ParseSpec(l string) c32Spec {
	kv := map[string]string{}
	for _, f := range strings.Fields(l)[1:] {
		if i := strings.IndexByte(f, '='); i > 0 {
			kv[f[:i]] = f[i+1:]
		}
	}
	var s c32Spec
	if strings.HasPrefix(kv["res"], "gen:") { // gen:<len>:<a>:<b>: byte i = (i/4096)*a + b
		p := strings.Split(kv["res"], ":")
		n, _ := strconv.Atoi(p[1])
		a, _ := strconv.Atoi(p[2])
		b, _ := strconv.Atoi(p[3])
		s.res = make([]byte, n)
		for i := range s.res {
			s.res[i] = byte((i/4096)*a + b)
		}
		s.resTok = kv["res"]
	} else {
		s.res, _ = hex.DecodeString(kv["res"])
		s.resTok = "x" + kv["res"]
	}
	s.thr, _ = strconv.ParseInt(kv["thr"], 10, 64)
	s.cs, _ = strconv.ParseInt(kv["cs"], 10, 64)
	s.maxfetch, _ = strconv.ParseInt(kv["maxfetch"], 10, 64)
	s.par, _ = strconv.Atoi(kv["par"])
	s.maxhedges, _ = strconv.Atoi(kv["maxhedges"])
	s.simple, _ = strconv.Atoi(kv["simple"])
	s.mult, s.head = kv["mult"], kv["head"]
	s.table = map[[2]int]string{}
	if kv["resp"] != "-" && kv["resp"] != "" {
		for _, e := range strings.Split(kv["resp"], ",") {
			p := strings.Split(e, ":")
			c, _ := strconv.Atoi(p[0])
			a, _ := strconv.Atoi(p[1])
			if _, dup := s.table[[2]int{c, a}]; !dup {
				s.tableOrder = append(s.tableOrder, [2]int{c, a})
			}
			s.table[[2]int{c, a}] = p[2]
		}
	}
	if kv["order"] != "-" && kv["order"] != "" {
		for _, e := range strings.Split(kv["order"], ",") {
			p := strings.Split(e, ":")
			c, _ := strconv.Atoi(p[0])
			a, _ := strconv.Atoi(p[1])
			s.order = append(s.order, [2]int{c, a})
		}
	}
	return s
}

func (s c32Spec) effCS() int64 {
	if s.cs <= 0 {
		return 8 * 1024 * 1024
	}
	return s.cs
}

// c32RunOnce performs the fetch against a fresh scripted origin with the given pacing.
func c32RunOnce(s c32Spec, gap time.Duration) (obs string, got []byte, err error, hang bool, panicked any, o *c32Origin) {
	o = &c32Origin{res: s.res, cs: s.effCS(), head: s.head, simple: s.simple, table: s.table,
		counts: map[int]int{}, stop: make(chan struct{})}
	srv := httptest.NewServer(o)
	defer func() {
		close(o.stop)
		srv.CloseClientConnections()
		srv.Close()
	}()
	mult := 0.0
	switch s.mult {
	case "never":
		mult = 1e6
	case "aggr":
		mult = 1e-12
	}
	cfg := &vgirpc.FetchConfig{ParallelThresholdBytes: s.thr, ChunkSizeBytes: s.cs, MaxParallelRequests: s.par,
		TimeoutSeconds: 5, MaxFetchBytes: s.maxfetch, SpeculativeRetryMultiplier: mult, MaxSpeculativeHedges: s.maxhedges}
	// no connection reuse: a dropped connection must not be retried transparently by the
	// transport (it would reach the origin as a further request for the same chunk)
	client := &http.Client{Transport: &http.Transport{DisableKeepAlives: true}}
	defer client.CloseIdleConnections()
	type result struct {
		b   []byte
		err error
		p   any
	}
	done := make(chan result, 1)
	go func() {
		var r result
		defer func() {
			if p := recover(); p != nil {
				r.p = p
			}
			done <- r
		}()
		r.b, r.err = vgirpc.FetchWithParallelRangeRequests(client, srv.URL+"/obj", cfg)
	}()

	aggr := s.mult == "aggr"
	var fin *result
	isDone := func() bool {
		if fin != nil {
			return true
		}
		select {
		case r := <-done:
			fin = &r
			return true
		default:
			return false
		}
	}
	waitFor := func(chunk, att int, timeout time.Duration) *c32Req {
		deadline := time.Now().Add(timeout)
		for {
			if p := o.find(chunk, att); p != nil {
				return p
			}
			if o.wasReleased(chunk, att) || isDone() || time.Now().After(deadline) {
				return nil
			}
			time.Sleep(200 * time.Microsecond)
		}
	}
	for _, e := range s.order {
		if isDone() {
			break
		}
		timeout := gap
		if aggr {
			if e[1] == 0 {
				timeout = 400 * time.Millisecond
			} else {
				timeout = 8 * gap
			}
		}
		if p := waitFor(e[0], e[1], timeout); p != nil {
			o.doRelease(p)
			time.Sleep(gap)
		}
	}
	// drain: lowest parked first
	idleSince := time.Now()
	for !isDone() {
		if p := o.lowest(); p != nil {
			o.doRelease(p)
			idleSince = time.Now()
			if aggr {
				time.Sleep(gap)
			}
			continue
		}
		// "nothing is coming": no request parked, no answer still being written, and the client has had
		// time to read what was sent (scaled with the resource size for multi-megabyte bodies)
		o.mu.Lock()
		busy := o.active > 0
		o.mu.Unlock()
		if busy {
			idleSince = time.Now()
		}
		if time.Since(idleSince) > 1500*time.Millisecond+time.Duration(len(s.res)/(1<<20))*400*time.Millisecond {
			hang = true
			break
		}
		time.Sleep(300 * time.Microsecond)
	}
	if hang {
		return "hang", nil, nil, true, nil, o
	}
	got, err, panicked = fin.b, fin.err, fin.p
	o.mu.Lock()
	sawSimple := o.sawSimple
	o.mu.Unlock()
	switch {
	case panicked != nil:
		obs = "panic"
	case sawSimple && err == nil:
		obs = "simple ok " + c32Show(got)
	case sawSimple:
		obs = "simple err"
	case err != nil && strings.Contains(err.Error(), "content too large"):
		obs = "toolarge"
	case err != nil:
		obs = "err"
	default:
		obs = "ok " + c32Show(got)
	}
	return obs, got, err, false, panicked, o
}

// c32Show: short results in full, long ones as length + polynomial fingerprint (same rule as the driver).
func c32Show(b []byte) string {
	if len(b) <= 256 {
		return X(b)
	}
	h := uint64(7)
	for _, x := range b {
		h = (h*31 + uint64(x)) % 1000000007
	}
	return fmt.Sprintf("len=%d fp=%d", len(b), h)
}

func c32ModelResp(kind string, s c32Spec) string {
	switch {
	case kind == "x":
		return fmt.Sprintf("p%d", s.effCS())
	case strings.HasPrefix(kind, "s"):
		return "p" + kind[1:]
	case kind == "w":
		return fmt.Sprintf("w%d", len(s.res))
	case strings.HasPrefix(kind, "t"):
		return "w" + kind[1:]
	}
	return "f"
}

func c32Exec(c *Case) {
	for _, l := range c.Lines {
		if !strings.HasPrefix(l, "fetch ") {
			c.Out(l, "err:bad-op")
			continue
		}
		s := c32ParseSpec(l)
		// model line: configuration + what the origin is scripted to answer (environment)
		headOK, length, ranges := "1", int64(len(s.res)), "1"
		switch s.head {
		case "drop":
			headOK = "0"
		case "nolen":
			length = -1
		case "noranges":
			ranges = "0"
		}
		var respParts []string
		for _, k := range s.tableOrder {
			respParts = append(respParts, fmt.Sprintf("%d:%d:%s", k[0], k[1], c32ModelResp(s.table[k], s)))
		}
		resp := "-"
		if len(respParts) > 0 {
			resp = strings.Join(respParts, ",")
		}
		var ordParts []string
		for _, e := range s.order {
			ordParts = append(ordParts, fmt.Sprintf("%d:%d", e[0], e[1]))
		}
		ord := "-"
		if len(ordParts) > 0 {
			ord = strings.Join(ordParts, ",")
		}
		hedging, mode := "1", "none"
		switch s.mult {
		case "off":
			hedging = "0"
		case "aggr":
			mode = "aggr"
		}
		modelLine := fmt.Sprintf("fetch res=%s thr=%d cs=%d par=%d maxfetch=%d hedging=%s maxhedges=%d head=%s len=%d ranges=%s mode=%s resp=%s order=%s simple=%d",
			s.resTok, s.thr, s.cs, s.par, s.maxfetch, hedging, s.maxhedges, headOK, length, ranges, mode, resp, ord, s.simple)

		gap := 2 * time.Millisecond
		obs, got, err, hang, panicked, o := c32RunOnce(s, gap)
		if s.mult == "aggr" && !hang {
			// hedging decisions depend on real time: accept an outcome only when two differently
			// paced runs agree, otherwise take a third, slow run
			obs2, got2, err2, hang2, p2, o2 := c32RunOnce(s, 10*time.Millisecond)
			if obs2 != obs {
				c.Stat("timing-rerun")
				obs, got, err, hang, panicked, o = c32RunOnce(s, 40*time.Millisecond)
			} else {
				obs, got, err, hang, panicked, o = obs2, got2, err2, hang2, p2, o2
			}
		}
		c.Stat("obs-" + strings.Fields(obs)[0])
		if o.extra > 0 {
			c.Stat("more-than-one-hedge-per-chunk")
		}
		if o.rangeReqs > 0 {
			c.Stat("parallel-path")
		}
		c.Out(modelLine, obs)

		// the property, directly
		if hang {
			c.Oracle("range-fetch-hang", "FetchWithParallelRangeRequests did not return although the origin had answered every request it received")
			continue
		}
		if panicked != nil {
			c.Oracle("range-fetch-panic", fmt.Sprintf("panic: %v", panicked))
			continue
		}
		if err == nil && !bytes.Equal(got, s.res) {
			c.Oracle("wrong-bytes-returned", fmt.Sprintf("returned %d bytes that are not the %d-byte resource, err=nil", len(got), len(s.res)))
		}
		if err != nil && o.rangeReqs > 0 {
			allFull := true
			for _, k := range s.table {
				if k != "x" {
					allFull = false
				}
			}
			firstFull := true
			for k, v := range s.table {
				if k[1] == 0 && v != "x" {
					firstFull = false
				}
			}
			if allFull {
				c.Oracle("honest-server-fetch-failed", fmt.Sprintf("every range request was answered in full, yet: %v", err))
			} else if firstFull {
				c.Oracle("failed-duplicate-changed-the-result", fmt.Sprintf("every chunk's first request was answered in full; only hedged duplicates failed, yet: %v", err))
			}
		}
	}
}

// ---------------------------------------------------------------- generation

func c32Line(res []byte, thr, cs int64, par int, maxfetch int64, mult string, maxhedges int, head string, resp, order []string, simple int) string {
	j := func(xs []string) string {
		if len(xs) == 0 {
			return "-"
		}
		return strings.Join(xs, ",")
	}
	return fmt.Sprintf("fetch res=%s thr=%d cs=%d par=%d maxfetch=%d mult=%s maxhedges=%d head=%s resp=%s order=%s simple=%d",
		hex.EncodeToString(res), thr, cs, par, maxfetch, mult, maxhedges, head, j(resp), j(order), simple)
}

func c32RandKind(r *Rng, resLen int, cs int64) string {
	switch r.Intn(12) {
	case 0, 1:
		return fmt.Sprintf("s%d", r.Intn(int(cs)+1)) // may equal the full length of a short last chunk
	case 2:
		return "s0"
	case 3, 4:
		return "w"
	case 5:
		return fmt.Sprintf("t%d", max(0, Pick(r, []int{0, 1, int(cs), resLen - 1, resLen, int(cs) - 1})))
	case 6, 7:
		return Pick(r, []string{"e500", "e404", "e416", "e503", "e204", "e301"})
	case 8:
		return "d"
	case 9: // a 200 whose body has exactly the requested LENGTH but is the head of the resource
		return fmt.Sprintf("t%d", cs)
	default:
		return "x"
	}
}

func c32Gen(g *Gen) {
	r := g.Rng
	mkRes := func(n int) []byte {
		b := make([]byte, n)
		for i := range b {
			b[i] = byte(r.Intn(256))
		}
		return b
	}
	// (a) probe decision: thresholds, caps, HEAD behaviours, degenerate limits
	for i := 0; i < g.N(60, 600); i++ {
		n := r.Range(1, 24)
		res := mkRes(n)
		thr := int64(Pick(r, []int{0, 1, n - 1, n, n + 1, 100, -3}))
		cs := int64(Pick(r, []int{0, -1, 1, 2, 3, n - 1, n, n + 1, 7}))
		par := Pick(r, []int{0, -2, 1, 2, 3, 8, 64})
		maxfetch := int64(Pick(r, []int{n - 1, n, n + 1, 1000, 1000, 0, -1}))
		head := Pick(r, []string{"ok", "ok", "ok", "ok", "drop", "nolen", "noranges"})
		simple := Pick(r, []int{200, 200, 200, 404, 500})
		g.Case(c32Line(res, thr, cs, par, maxfetch, Pick(r, []string{"off", "never"}), r.Range(-1, 4), head, nil, nil, simple))
	}
	// (b) hedging off / never: arbitrary answers, any parallelism, release orders that put
	// failures first or last (the outcome must not depend on the order)
	for i := 0; i < g.N(220, 2500); i++ {
		n := r.Range(1, 40)
		res := mkRes(n)
		cs := int64(Pick(r, []int{1, 2, 3, 4, 5, 7, 8, 16, n - 1, n, n + 1}))
		if cs <= 0 {
			cs = 1
		}
		if (int64(n)+cs-1)/cs > 12 {
			cs = int64(n)/12 + 1
		}
		nc := int((int64(n) + cs - 1) / cs)
		par := Pick(r, []int{1, 2, 3, nc, 2 * nc, 64, 0})
		var resp, failFirst, okLater []string
		for c := 0; c < nc; c++ {
			if r.Chance(35) {
				k := c32RandKind(r, n, cs)
				resp = append(resp, fmt.Sprintf("%d:0:%s", c, k))
				if k != "x" {
					failFirst = append(failFirst, fmt.Sprintf("%d:0", c))
					continue
				}
			}
			okLater = append(okLater, fmt.Sprintf("%d:0", c))
		}
		var order []string
		switch r.Intn(4) {
		case 0: // failures first, successes last (the arrangement in which the old loop blocked)
			order = append(append(order, failFirst...), okLater...)
		case 1: // successes first
			order = append(append(order, okLater...), failFirst...)
		case 2:
			order = append(append(order, failFirst...), okLater...)
			for k := len(order) - 1; k > 0; k-- {
				j := r.Intn(k + 1)
				order[k], order[j] = order[j], order[k]
			}
		}
		g.Case(c32Line(res, 1, cs, par, 1000, Pick(r, []string{"off", "off", "never"}), r.Range(0, 3), "ok", resp, order, 200))
	}
	// (c) aggressive hedging: duplicates, failing originals rescued by hedges, failing hedges
	// after a successful original, budgets; parallelism wide enough that every launched request
	// reaches the origin at once
	for i := 0; i < g.N(45, 600); i++ {
		n := r.Range(2, 24)
		res := mkRes(n)
		cs := int64(Pick(r, []int{2, 3, 4, 5, 8, n/2 + 1, n / 3 + 1}))
		if (int64(n)+cs-1)/cs > 6 {
			cs = int64(n)/6 + 1
		}
		nc := int((int64(n) + cs - 1) / cs)
		var resp, order []string
		for c := 0; c < nc; c++ {
			if r.Chance(40) {
				resp = append(resp, fmt.Sprintf("%d:0:%s", c, c32RandKind(r, n, cs)))
			}
			if r.Chance(35) {
				resp = append(resp, fmt.Sprintf("%d:1:%s", c, c32RandKind(r, n, cs)))
			}
		}
		// an order over initial attempts and hedges, hedges after at least two entries
		var ents [][2]int
		for c := 0; c < nc; c++ {
			ents = append(ents, [2]int{c, 0})
		}
		for k := len(ents) - 1; k > 0; k-- {
			j := r.Intn(k + 1)
			ents[k], ents[j] = ents[j], ents[k]
		}
		keep := r.Range(0, len(ents))
		ents = ents[:keep]
		for c := 0; c < nc; c++ {
			if r.Chance(40) {
				pos := r.Range(min(2, len(ents)), len(ents))
				ents = append(ents[:pos], append([][2]int{{c, 1}}, ents[pos:]...)...)
			}
		}
		for _, e := range ents {
			order = append(order, fmt.Sprintf("%d:%d", e[0], e[1]))
		}
		g.Case(c32Line(res, 1, cs, 64, 1000, "aggr", Pick(r, []int{0, 1, 2, 4, -1}), "ok", resp, order, 200))
	}
	// (d) aggressive hedging, directed: after two completions every pending chunk is hedged; one
	// chunk's original then succeeds and its duplicate fails (a failure to be ignored, but still a
	// result that has been received), while another chunk loses both attempts. The call must end
	// with an error, not wait for a result that is not coming.
	for i := 0; i < g.N(10, 120); i++ {
		nc := r.Range(4, 6)
		cs := int64(r.Range(2, 5))
		n := int(cs)*(nc-1) + r.Range(1, int(cs))
		res := mkRes(n)
		perm := make([]int, nc)
		for k := range perm {
			perm[k] = k
		}
		for k := nc - 1; k > 0; k-- {
			j := r.Intn(k + 1)
			perm[k], perm[j] = perm[j], perm[k]
		}
		a, b, dup, dead := perm[0], perm[1], perm[2], perm[3]
		fk := func() string { return Pick(r, []string{"e500", "d", "s0", "w", "e404"}) }
		resp := []string{fmt.Sprintf("%d:1:%s", dup, fk()), fmt.Sprintf("%d:0:%s", dead, fk())}
		if r.Chance(70) {
			resp = append(resp, fmt.Sprintf("%d:1:%s", dead, fk()))
		}
		order := []string{fmt.Sprintf("%d:0", a), fmt.Sprintf("%d:0", b), fmt.Sprintf("%d:0", dup), fmt.Sprintf("%d:1", dup)}
		if r.Bool() {
			order = append(order, fmt.Sprintf("%d:0", dead), fmt.Sprintf("%d:1", dead))
		} else {
			order = append(order, fmt.Sprintf("%d:1", dead), fmt.Sprintf("%d:0", dead))
		}
		g.Case(c32Line(res, 1, cs, 64, 1000, "aggr", Pick(r, []int{0, 0, 8, -1}), "ok", resp, order, 200))
	}
	// (e) aggressive hedging against an ALL-HONEST origin (every request answered in full): for one
	// chunk the hedge is answered first and its original afterwards, while other chunks are still
	// pending. Whatever the completion order, the result must be the exact resource.
	for i := 0; i < g.N(12, 150); i++ {
		nc := r.Range(4, 7)
		cs := int64(r.Range(2, 5))
		n := int(cs)*(nc-1) + r.Range(1, int(cs))
		res := mkRes(n)
		perm := make([]int, nc)
		for k := range perm {
			perm[k] = k
		}
		for k := nc - 1; k > 0; k-- {
			j := r.Intn(k + 1)
			perm[k], perm[j] = perm[j], perm[k]
		}
		order := []string{fmt.Sprintf("%d:0", perm[0]), fmt.Sprintf("%d:0", perm[1])}
		// hedged chunks: hedge first, then the original; the remaining chunks stay pending meanwhile
		nh := r.Range(1, nc-3)
		for k := 0; k < nh; k++ {
			c := perm[2+k]
			if r.Chance(80) {
				order = append(order, fmt.Sprintf("%d:1", c), fmt.Sprintf("%d:0", c))
			} else {
				order = append(order, fmt.Sprintf("%d:0", c), fmt.Sprintf("%d:1", c))
			}
		}
		g.Case(c32Line(res, 1, cs, 64, 1000, "aggr", Pick(r, []int{0, 0, 16, -1}), "ok", nil, order, 200))
	}
	// (f) fewer slots than chunks and transport-level failures (connection dropped before any
	// answer): at least as many dropped requests as there are slots, the other chunks still queued
	// behind the semaphore. A failed attempt must give its slot back.
	for i := 0; i < g.N(20, 200); i++ {
		par := r.Range(1, 3)
		nc := par + r.Range(1, 5)
		cs := int64(r.Range(1, 4))
		n := int(cs)*(nc-1) + r.Range(1, int(cs))
		res := mkRes(n)
		ndrop := par + r.Range(0, nc-par)
		var resp []string
		perm := make([]int, nc)
		for k := range perm {
			perm[k] = k
		}
		for k := nc - 1; k > 0; k-- {
			j := r.Intn(k + 1)
			perm[k], perm[j] = perm[j], perm[k]
		}
		for k := 0; k < ndrop && k < nc; k++ {
			resp = append(resp, fmt.Sprintf("%d:0:d", perm[k]))
		}
		g.Case(c32Line(res, 1, cs, par, 1000, Pick(r, []string{"off", "never"}), 0, "ok", resp, nil, 200))
	}
	// (g) defaulted chunk size (ChunkSizeBytes 0 / negative = 8 MiB) with a resource LARGER than the
	// default chunk, i.e. at least two chunks computed from the default
	big := func(n int, cs int64, par int, mult string, resp []string) string {
		return fmt.Sprintf("fetch res=gen:%d:%d:%d thr=1 cs=%d par=%d maxfetch=%d mult=%s maxhedges=2 head=ok resp=%s order=- simple=200",
			n, r.Range(1, 250), r.Range(0, 255), cs, par, 64<<20, mult, func() string {
				if len(resp) == 0 {
					return "-"
				}
				return strings.Join(resp, ",")
			}())
	}
	// (the model side of one such case costs ~8 s and ~1.2 GB in the Lean driver: the quick tier has
	// exactly one, in the corpus; the thorough tier adds more, up to 17 MiB)
	if g.Thorough() {
		g.Case(big(8*1024*1024+r.Range(1, 4096), 0, Pick(r, []int{2, 8}), "off", nil))
		for i := 0; i < 4; i++ {
			n := Pick(r, []int{8<<20 + 1, 16 << 20, 16<<20 + 1, 17<<20 + 123})
			var resp []string
			if r.Chance(40) {
				resp = append(resp, fmt.Sprintf("%d:0:%s", r.Intn(3), Pick(r, []string{"w", "s100", "e500", "t8388608"})))
			}
			g.Case(big(n, Pick(r, []int64{0, 0, -1}), Pick(r, []int{1, 2, 8, 0}), Pick(r, []string{"off", "never"}), resp))
		}
	}
	if g.Thorough() {
		// exhaustive: 3 chunks, every assignment of {x, s1, w, e500} to the three initial attempts,
		// every release order, hedging off
		res := []byte{1, 2, 3, 4, 5, 6, 7, 8}
		kinds := []string{"x", "s1", "w", "e500"}
		perms := [][]int{{0, 1, 2}, {0, 2, 1}, {1, 0, 2}, {1, 2, 0}, {2, 0, 1}, {2, 1, 0}}
		for a := 0; a < 4; a++ {
			for b := 0; b < 4; b++ {
				for c := 0; c < 4; c++ {
					for _, p := range perms {
						resp := []string{"0:0:" + kinds[a], "1:0:" + kinds[b], "2:0:" + kinds[c]}
						var order []string
						for _, x := range p {
							order = append(order, fmt.Sprintf("%d:0", x))
						}
						g.Case(c32Line(res, 1, 3, 8, 100, "off", 0, "ok", resp, order, 200))
					}
				}
			}
		}
	}
}
