package main

import (
	"encoding/hex"
	"fmt"
	"strconv"
	"strings"
)

var c01Methods = []string{"", "m", "echo", "Ünï/cødé", "日本語", "a b", "__describe__", "vgi_rpc.method", "\x00", "😀", strings.Repeat("n", 300),
	// valid UTF-8 that "looks invalid": the replacement character itself, non-characters, the code
	// points next to the surrogate range, the last code point, NUL inside a name
	"\uFFFD", "lookup\uFFFDname", "\uFFFD\uFFFD", "\uFFFE", "\uFFFF", "\uD7FF", "\uE000", "\U0010FFFF", "a\x00b", "\uFFFC", "\u0080", "\u07FF\u0800", "\U00010000",
	"\xff", "ab\xc0", "\xed\xa0\x80", "\xf4\x90\x80\x80", "\xc0\xaf", "a\xe2\x82", "\xf0\x9f\x98"}
var c01Pvs = []string{"", "", "1.2.3", "0.0.0", "junk", "1.2", " ", "9999999999999999999999.0.0", "1.0.0\n", "é"}
var c01Names = []string{"x", "result", "a", "", "vgi_rpc.method", "ü", "request", "col with space"}

func c01HexS(s string) string { return hex.EncodeToString([]byte(s)) }

func c01GenCols(r *Rng, max int) string {
	n := r.Intn(max + 1)
	if n == 0 {
		return "-"
	}
	var p []string
	for i := 0; i < n; i++ {
		name := Pick(r, c01Names)
		if r.Chance(60) {
			name = fmt.Sprintf("c%d", i)
		}
		p = append(p, fmt.Sprintf("%s:%s:%d", c01HexS(name), Pick(r, c01TypeCodes), r.Intn(2)))
	}
	return strings.Join(p, ",")
}

var c01Keys = []string{"vgi_rpc.method", "vgi_rpc.request_version", "vgi_rpc.request_id", "vgi_rpc.log_level",
	"vgi_rpc.stream_state#b64", "vgi_rpc.call_state#b64", "vgi_rpc.protocol_version", "vgi_rpc.location",
	"vgi_rpc.shm_offset", "vgi_rpc.cancel", "vgi_rpc.log_message", "traceparent", "x"}

func c01GenMeta(r *Rng, requestish bool) string {
	var p []string
	add := func(k, v string) { p = append(p, c01HexS(k)+"="+c01HexS(v)) }
	if requestish {
		if r.Chance(85) {
			add("vgi_rpc.method", Pick(r, c01Methods))
		}
		if r.Chance(85) {
			add("vgi_rpc.request_version", Pick(r, []string{"1", "1", "1", "1", "2", "", "01"}))
		}
	}
	for r.Chance(55) {
		k := Pick(r, c01Keys)
		var v string
		switch k {
		case "vgi_rpc.log_level":
			v = Pick(r, []string{"INFO", "EXCEPTION", "ERROR", "", "exception", "TRACE"})
		case "vgi_rpc.stream_state#b64", "vgi_rpc.call_state#b64":
			v = Pick(r, []string{"", "dG9r", "QUJD", "x"})
		case "vgi_rpc.protocol_version":
			v = Pick(r, c01Pvs)
		case "vgi_rpc.request_version":
			v = Pick(r, []string{"1", "2"})
		case "vgi_rpc.method":
			v = Pick(r, c01Methods)
		default:
			v = Pick(r, []string{"", "1", "v", "http://x/y", string(r.Bytes(r.Intn(5)))})
		}
		add(k, v)
	}
	if len(p) == 0 {
		return "-"
	}
	// shuffle lightly: order matters for first/last-wins lookups
	if r.Chance(30) && len(p) > 1 {
		i, j := r.Intn(len(p)), r.Intn(len(p))
		p[i], p[j] = p[j], p[i]
	}
	return strings.Join(p, ",")
}

func c01GenMut(r *Rng) string {
	switch r.Intn(5) {
	case 0:
		return fmt.Sprintf("trunc:%d", r.Intn(1001))
	case 1:
		return fmt.Sprintf("flip:%d:%d", r.Intn(1000), r.Intn(8))
	case 2:
		return "junk:" + hex.EncodeToString(r.Bytes(r.Range(1, 24)))
	case 3:
		return fmt.Sprintf("drop:%d:%d", r.Intn(1000), r.Range(1, 16))
	default:
		return "junk:ffffffff00000000" // a bare end-of-stream marker
	}
}

func c01X2(s string) string { return "x" + hex.EncodeToString([]byte(s)) }

func c01GenStream(r *Rng, cols string, nb int, requestish bool, withTokens bool) string {
	w := []string{"S", cols}
	for i := 0; i < nb; i++ {
		if withTokens && r.Chance(30) {
			w = append(w, "K", c01X2(Pick(r, []string{"dG9r", "QUJD", "", "t"})), c01X2(Pick(r, []string{"", "", "Y2FsbA", "c"})))
			continue
		}
		w = append(w, "B", strconv.Itoa(Pick(r, []int{0, 0, 1, 1, 1, 2, 5})), strconv.FormatUint(r.U64()>>1, 10), c01GenMeta(r, requestish && i == 0))
	}
	return strings.Join(w, " ")
}

var c01Envelopes = []string{"ok", "ok", "nullable", "named:" + c01HexS("value"), "named:" + c01HexS(""), "large", "utf8", "i64", "two", "empty"}

func c01GenLine(r *Rng, mut string) string {
	seed := func() string { return strconv.FormatUint(r.U64()>>1, 10) }
	switch k := r.Intn(100); {
	case k < 26:
		rows := Pick(r, []int{1, 1, 1, 1, 0, 2, 5})
		return fmt.Sprintf("wr %s %s %s %s %d %s", mut, c01X2(Pick(r, c01Methods)), c01X2(Pick(r, c01Pvs)), c01GenCols(r, 6), rows, seed())
	case k < 34:
		return fmt.Sprintf("wu %s %s x%s", mut, Pick(r, c01Envelopes), hex.EncodeToString(r.Bytes(Pick(r, []int{0, 1, 7, 300}))))
	case k < 39:
		return fmt.Sprintf("resp %s err %s", mut, Pick(r, []string{"ok", "empty", "i64", "two"}))
	case k < 44:
		return fmt.Sprintf("resp %s unary %d x%s", mut, r.Intn(4), hex.EncodeToString(r.Bytes(r.Intn(12))))
	case k < 46:
		return fmt.Sprintf("resp %s void %d", mut, r.Intn(4))
	case k < 54:
		// a producer-init-like response: optional header stream, data stream with exactly one stamped batch
		w := []string{"body", mut, "tok1"}
		if r.Bool() {
			w = append(w, "S", c01HexS("h")+":i64:0", "B", "1", seed(), "-")
		}
		w = append(w, "S", c01GenCols(r, 3))
		pre, post := r.Intn(3), r.Intn(3)
		for i := 0; i < pre; i++ {
			w = append(w, "B", strconv.Itoa(r.Intn(3)), seed(), Pick(r, []string{"-", c01HexS("vgi_rpc.log_level") + "=" + c01HexS("INFO"), c01HexS("x") + "=" + c01HexS("y")}))
		}
		w = append(w, "K", c01X2(Pick(r, []string{"dG9rZW4", "QQ", string(r.Bytes(r.Range(1, 40)))})), c01X2(Pick(r, []string{"", "", "Y2FsbA", string(r.Bytes(r.Range(1, 9)))})))
		for i := 0; i < post; i++ {
			w = append(w, "B", strconv.Itoa(r.Intn(3)), seed(), "-")
		}
		if r.Chance(30) {
			w = append(w, "S", "-", "B", "0", seed(), "-")
		}
		return strings.Join(w, " ")
	case k < 66:
		lv := func(l string) string { return c01HexS("vgi_rpc.log_level") + "=" + c01HexS(l) }
		env := c01HexS("result") + ":bin:0"
		switch r.Intn(3) {
		case 0:
			w := []string{"body", mut, "errstream", "S", Pick(r, []string{env, env, "-"})}
			for i, n := 0, r.Intn(3); i < n; i++ {
				w = append(w, "B", "0", seed(), lv(Pick(r, []string{"INFO", "WARN", "exception"})))
			}
			w = append(w, "B", "0", seed(), lv("EXCEPTION"))
			if r.Chance(70) {
				w = append(w, "B", "1", seed(), "-")
			}
			return strings.Join(w, " ")
		case 1:
			w := []string{"body", mut, "logonly", "S", env}
			for i, n := 0, r.Intn(4); i < n; i++ {
				w = append(w, "B", "0", seed(), Pick(r, []string{lv("INFO"), "-", lv("")}))
			}
			return strings.Join(w, " ")
		default:
			bad := Pick(r, []string{c01HexS("result") + ":utf8:0", c01HexS("result") + ":lbin:0", c01HexS("value") + ":bin:0",
				c01HexS("result") + ":i64:0," + c01HexS("result") + ":bin:0", c01HexS("result") + ":dict:0", "-"})
			w := []string{"body", mut, "nonbinary", "S", bad}
			if r.Bool() {
				w = append(w, "B", "0", seed(), lv("INFO"))
			}
			w = append(w, "B", Pick(r, []string{"1", "2"}), seed(), "-")
			return strings.Join(w, " ")
		}
	case k < 74:
		// protocol-version scan: several batches carrying (possibly empty, duplicated) versions
		w := []string{"body", mut, "pvscan", "S", c01GenCols(r, 2)}
		pvk := c01HexS("vgi_rpc.protocol_version")
		for i, n := 0, r.Range(1, 4); i < n; i++ {
			var kv []string
			for j, m := 0, r.Intn(3); j < m; j++ {
				kv = append(kv, pvk+"="+c01HexS(Pick(r, []string{"", "", "1.2.3", "2.0.0", "x"})))
			}
			if r.Chance(30) {
				kv = append(kv, c01HexS("vgi_rpc.method")+"="+c01HexS("m"), c01HexS("vgi_rpc.request_version")+"="+c01HexS("1"))
			}
			md := "-"
			if len(kv) > 0 {
				md = strings.Join(kv, ",")
			}
			w = append(w, "B", strconv.Itoa(r.Intn(2)), seed(), md)
		}
		return strings.Join(w, " ")
	case k < 82:
		// request-shaped bodies around the row-count rule and its pointer exemptions
		var kv []string
		add := func(k, v string) { kv = append(kv, c01HexS(k)+"="+c01HexS(v)) }
		add("vgi_rpc.method", Pick(r, []string{"m", "echo", ""}))
		add("vgi_rpc.request_version", "1")
		if r.Chance(45) {
			add("vgi_rpc.location", Pick(r, []string{"http://x/y", ""}))
		}
		if r.Chance(45) {
			add("vgi_rpc.shm_offset", Pick(r, []string{"0", "64", ""}))
		}
		if r.Chance(25) {
			add("vgi_rpc.log_level", Pick(r, []string{"INFO", ""}))
		}
		if r.Chance(30) {
			add("vgi_rpc.request_id", "r1")
		}
		cols := c01GenCols(r, 2)
		if r.Chance(70) && cols == "-" {
			cols = c01HexS("x") + ":i64:0"
		}
		return strings.Join([]string{"body", mut, "reqptr", "S", cols, "B", strconv.Itoa(Pick(r, []int{0, 0, 1, 2, 5})), seed(), strings.Join(kv, ",")}, " ")
	case k < 88:
		// several call tokens around one cursor, across streams
		ck := c01HexS("vgi_rpc.call_state#b64")
		sk := c01HexS("vgi_rpc.stream_state#b64")
		w := []string{"body", mut, "calltok"}
		for s, ns := 0, r.Range(1, 3); s < ns; s++ {
			w = append(w, "S", Pick(r, []string{"-", c01HexS("x") + ":i64:0"}))
			for b, nb := 0, r.Range(1, 4); b < nb; b++ {
				var kv []string
				if r.Chance(50) {
					kv = append(kv, ck+"="+c01HexS(Pick(r, []string{"", "c1", "c2", "c3"})))
				}
				if r.Chance(30) {
					kv = append(kv, sk+"="+c01HexS(Pick(r, []string{"", "", "t1", "t2"})))
				}
				if r.Chance(20) {
					kv = append(kv, ck+"="+c01HexS("dup"))
				}
				md := "-"
				if len(kv) > 0 {
					md = strings.Join(kv, ",")
				}
				w = append(w, "B", strconv.Itoa(r.Intn(2)), seed(), md)
			}
		}
		return strings.Join(w, " ")
	case k < 96:
		// free-form body: 1..4 concatenated streams with arbitrary metadata
		w := []string{"body", mut, "free"}
		ns := r.Range(1, 4)
		for i := 0; i < ns; i++ {
			cols := c01GenCols(r, 3)
			if r.Chance(25) {
				cols = Pick(r, []string{c01HexS("result") + ":bin:0", c01HexS("x") + ":i64:0," + c01HexS("result") + ":bin:1", c01HexS("result") + ":bin:0," + c01HexS("result") + ":i64:0"})
			}
			w = append(w, c01GenStream(r, cols, r.Intn(4), i == 0 && r.Chance(70), true))
		}
		return strings.Join(w, " ")
	default:
		n := Pick(r, []int{0, 1, 3, 8, 16, 64, 200})
		b := r.Bytes(n)
		switch {
		case r.Chance(40) && n >= 8: // looks like an IPC continuation marker + small length
			copy(b, []byte{0xff, 0xff, 0xff, 0xff})
			b[4], b[5], b[6], b[7] = byte(r.Intn(64)), 0, 0, 0
		case r.Chance(75) && n >= 4: // legacy framing: the first word is the metadata length; keep it small
			b[1], b[2], b[3] = byte(r.Intn(2)), 0, 0
		}
		return "raw - x" + hex.EncodeToString(b)
	}
}

func c01Gen(g *Gen) {
	r := g.Rng
	n := g.N(900, 20000)
	for i := 0; i < n; i++ {
		g.Case(c01GenLine(r, "-"))
	}
	for i := 0; i < n*2/3; i++ {
		g.Case(c01GenLine(r, c01GenMut(r)))
	}
	if g.Thorough() {
		// exhaustive: every position of a stamped batch in <= 3 streams x <= 3 batches, with a
		// competing call token before / after it
		seq := 0
		for ns := 1; ns <= 3; ns++ {
			for nb := 1; nb <= 3; nb++ {
				for ts := 0; ts < ns; ts++ {
					for tb := 0; tb < nb; tb++ {
						for cs := 0; cs < ns; cs++ {
							for cb := 0; cb < nb; cb++ {
								w := []string{"body", "-", "free"}
								for s := 0; s < ns; s++ {
									w = append(w, "S", Pick(r, []string{"-", c01HexS("x") + ":i64:0"}))
									for b := 0; b < nb; b++ {
										seq++
										switch {
										case s == ts && b == tb:
											w = append(w, "K", c01X2("T"), c01X2(Pick(r, []string{"", "C"})))
										case s == cs && b == cb:
											w = append(w, "B", "0", strconv.Itoa(seq), c01HexS("vgi_rpc.call_state#b64")+"="+c01HexS("other"))
										default:
											w = append(w, "B", strconv.Itoa(seq%2), strconv.Itoa(seq), "-")
										}
									}
								}
								g.Case(strings.Join(w, " "))
							}
						}
					}
				}
			}
		}
	}
}
