package main

import (
	"bytes"
	"crypto/sha256"
	"encoding/hex"
	"fmt"
	"net/http"
	"net/http/httptest"
	neturl "net/url"
	"regexp"
	"strconv"
	"strings"
	"sync"
	"time"

	"github.com/Query-farm/vgi-rpc-go/vgirpc"
	"github.com/apache/arrow-go/v18/arrow"
	"github.com/klauspost/compress/zstd"
)

// C31 — external fetches obey the URL validator and the size limits on every hop.
//
// One script line = one ResolveExternalLocation call on a pointer to <start> of a scripted origin
// (a TLS server "h" and a plain-HTTP server "p"):
//
//   get retries=<int> maxfetch=<int> maxdec=<int> maxredir=<int> val=<nil|allow|https|deny>
//       start=<sch>/<path> user=<0|1> query=<0|1> routes=<k|sch/path|R;...|->
//
//   routes  in attempt k (or *) the URL sch/path answers R:
//           r:<sch>/<path>[?]      302 to that URL (absolute Location; trailing ? adds a secret query)
//           s:<code>               that status, empty body
//           drop                   the connection is closed without an answer
//           b:<n>:plain|chunked|cut   200 with n body bytes (declared length / chunked / declared but cut short)
//           z:<n>:all|stream|corrupt|multi<k>  200, Content-Encoding: zstd, body = zstd of n bytes
//                                     (single frame with content size / streamed frame / garbage /
//                                      k concatenated frames, each declaring its own content size)
//           anything else answers 404.
//   val     nil: no validator; allow: accepts all; https: HTTPSOnlyValidator; deny: rejects URLs whose
//           path contains "deny".
//   user/query  the pointer URL carries user info / a query string with secret markers: user=1..9 are
//           spellings of the user info (lower-case hex escapes, needless escapes, escaped '@'/':', '+',
//           empty user or password, ...), query=1..4 spellings of query/fragment; v6=1 uses an IPv6
//           literal host (every attempt fails at the transport level).
//
// Observation compared with the model: the request log (per attempt, as URL numbers) and the outcome
// (rejected-first | fetched:<len> | failed:<n>:<error text>).

func init() {
	Register(&Prop{
		ID: "C31",
		Rule: "redirect chains of length 0..maxredir+2 (targets accepted / rejected / cross-scheme / looping), validators nil/allow/https/deny, " +
			"bodies at cap-1/cap/cap+1 (declared, chunked, cut), zstd bodies decoding to cap-1/cap/cap+1/10*cap (with and without declared size, corrupt), " +
			"transient failure sequences over the attempts, retry counts incl. 0/negative/huge, pointer URLs with user info and query secrets; " +
			"non-trivial = at least one route; distinct = distinct scripts",
		Gen:  c31Gen,
		Exec: c31Exec,
		NonTrivial: func(lines []string) bool {
			for _, l := range lines {
				if !strings.Contains(l, " routes=-") {
					return true
				}
			}
			return false
		},
	})
}

type c31Route struct {
	attempt int // -1 = any
	key     string
	resp    string
}

type c31Origin struct {
	mu     sync.Mutex
	routes []c31Route
	base   map[string]string // "h" / "p" -> base URL
	qsec   string
}

func (o *c31Origin) handler(sch string) http.Handler {
	return http.HandlerFunc(func(w http.ResponseWriter, r *http.Request) {
		att, _ := strconv.Atoi(r.Header.Get("X-Verif-Attempt"))
		key := sch + r.URL.Path
		var resp string
		o.mu.Lock()
		for _, rt := range o.routes {
			if rt.key == key && (rt.attempt == -1 || rt.attempt == att) {
				resp = rt.resp
				break
			}
		}
		o.mu.Unlock()
		f := strings.Split(resp, ":")
		switch f[0] {
		case "r":
			w.Header().Set("Location", o.target(f[1]))
			w.WriteHeader(302)
		case "s":
			code, _ := strconv.Atoi(f[1])
			w.WriteHeader(code)
		case "drop":
			c32DropConn(w)
		case "b":
			n, _ := strconv.Atoi(f[1])
			body := bytes.Repeat([]byte{'b'}, n)
			switch f[2] {
			case "plain":
				w.Header().Set("Content-Length", strconv.Itoa(n))
				w.Write(body)
			case "chunked":
				w.WriteHeader(200)
				if fl, ok := w.(http.Flusher); ok {
					fl.Flush()
				}
				w.Write(body)
			case "cut":
				w.Header().Set("Content-Length", strconv.Itoa(n))
				w.Write(body[:n/2])
				if fl, ok := w.(http.Flusher); ok {
					fl.Flush()
				}
				c32DropConn(w)
			}
		case "z":
			n, _ := strconv.Atoi(f[1])
			body := c31ZBody(n, f[2])
			w.Header().Set("Content-Encoding", "zstd")
			w.Header().Set("Content-Length", strconv.Itoa(len(body)))
			w.Write(body)
		default:
			w.WriteHeader(404)
		}
	})
}

func c32DropConn(w http.ResponseWriter) {
	if hj, ok := w.(http.Hijacker); ok {
		if conn, _, err := hj.Hijack(); err == nil {
			conn.Close()
			return
		}
	}
	panic(http.ErrAbortHandler)
}

var (
	c31ZMu    sync.Mutex
	c31ZCache = map[string][]byte{}
)

func c31ZBody(n int, mode string) []byte {
	c31ZMu.Lock()
	defer c31ZMu.Unlock()
	key := fmt.Sprintf("%d:%s", n, mode)
	if b, ok := c31ZCache[key]; ok {
		return b
	}
	raw := bytes.Repeat([]byte{'z'}, n)
	var out []byte
	switch mode {
	case "all":
		e, _ := zstd.NewWriter(nil, zstd.WithEncoderConcurrency(1))
		out = e.EncodeAll(raw, nil)
		e.Close()
	case "stream":
		var buf bytes.Buffer
		e, _ := zstd.NewWriter(&buf, zstd.WithEncoderConcurrency(1))
		for i := 0; i < len(raw); i += 7 {
			j := i + 7
			if j > len(raw) {
				j = len(raw)
			}
			e.Write(raw[i:j])
			e.Flush()
		}
		e.Close()
		out = buf.Bytes()
	case "corrupt":
		out = []byte("definitely not a zstd frame")
	default: // multi<k>: k concatenated frames, each with its declared content size, n bytes in total
		k, _ := strconv.Atoi(strings.TrimPrefix(mode, "multi"))
		if k < 1 {
			k = 1
		}
		e, _ := zstd.NewWriter(nil, zstd.WithEncoderConcurrency(1))
		for i := 0; i < k; i++ {
			lo, hi := n*i/k, n*(i+1)/k
			out = e.EncodeAll(raw[lo:hi], out)
		}
		e.Close()
	}
	c31ZCache[key] = out
	return out
}

// target turns "h/path" or "p/path?" into the absolute URL.
func (o *c31Origin) target(t string) string {
	q := ""
	if strings.HasSuffix(t, "?") {
		t = strings.TrimSuffix(t, "?")
		q = "?next=" + o.qsec + "T"
	}
	return o.base[t[:1]] + t[1:] + q
}

var (
	c31Once    sync.Once
	c31H, c31P *httptest.Server
	c31Org     = &c31Origin{base: map[string]string{}}
)

func c31Servers() {
	c31Once.Do(func() {
		c31H = httptest.NewTLSServer(c31Org.handler("h"))
		c31P = httptest.NewServer(c31Org.handler("p"))
		c31Org.base["h"] = c31H.URL
		c31Org.base["p"] = c31P.URL
	})
}

// logging transport: numbers the attempts (a request that is not a redirect follow-up starts one)
type c31Transport struct {
	inner    http.RoundTripper
	mu       sync.Mutex
	attempts [][]string
}

func (t *c31Transport) RoundTrip(req *http.Request) (*http.Response, error) {
	t.mu.Lock()
	if req.Response == nil {
		t.attempts = append(t.attempts, nil)
	}
	k := len(t.attempts) - 1
	t.attempts[k] = append(t.attempts[k], req.URL.String())
	t.mu.Unlock()
	r2 := req.Clone(req.Context())
	r2.Header.Set("X-Verif-Attempt", strconv.Itoa(k))
	return t.inner.RoundTrip(r2)
}

var c31AttemptsRe = regexp.MustCompile(`^fetching external data after (\d+) attempts: `)
var c31ShaRe = regexp.MustCompile(`got ([0-9a-f]{64})$`)
var c31DecompRe = regexp.MustCompile(`^(.*max_decompressed_bytes=\d+: )`)

func c31Exec(c *Case) {
	c31Servers()
	for _, l := range c.Lines {
		if !strings.HasPrefix(l, "get ") {
			c.Out(l, "err:bad-op")
			continue
		}
		kv := map[string]string{}
		for _, f := range strings.Fields(l)[1:] {
			if i := strings.IndexByte(f, '='); i > 0 {
				kv[f[:i]] = f[i+1:]
			}
		}
		atoi := func(k string) int64 { v, _ := strconv.ParseInt(kv[k], 10, 64); return v }
		qsec := fmt.Sprintf("QSEC%dx", c.Index)
		usec := fmt.Sprintf("USEC%dx", c.Index)
		c31Org.mu.Lock()
		c31Org.qsec = qsec
		c31Org.routes = nil
		if kv["routes"] != "-" {
			for _, e := range strings.Split(kv["routes"], ";") {
				p := strings.SplitN(e, "|", 3)
				att := -1
				if p[0] != "*" {
					att, _ = strconv.Atoi(p[0])
				}
				c31Org.routes = append(c31Org.routes, c31Route{att, p[1], p[2]})
			}
		}
		routes := append([]c31Route(nil), c31Org.routes...)
		c31Org.mu.Unlock()

		// pointer URL
		start := kv["start"]
		base := c31Org.base[start[:1]]
		ptrURL := base + start[1:]
		// secrets: every spelling that must never show up in an error (raw as written in the URL,
		// and percent-decoded)
		secrets := []string{qsec, usec}
		idx3 := fmt.Sprintf("%dx", c.Index)
		userinfo := ""
		switch kv["user"] {
		case "1":
			userinfo = "alice:" + usec
		case "2": // lower-case hex escape (url.User.String() re-escapes it in upper case)
			userinfo = "alice:hun%2f" + usec
			secrets = append(secrets, "hun%2f", "hun/")
		case "3": // needless escape in the user name
			userinfo = "al%69ce" + idx3 + ":" + usec
			secrets = append(secrets, "al%69ce"+idx3, "alice"+idx3)
		case "4": // the secret itself spelled with a needless escape
			userinfo = "alice:US%45C" + idx3
			secrets = append(secrets, "US%45C"+idx3, "USEC"+idx3)
		case "5": // escaped '@' and ':' inside the password
			userinfo = "alice:p%40" + usec + "%3atail"
			secrets = append(secrets, "p%40", "p@"+usec)
		case "6": // '+' and sub-delims, empty user name
			userinfo = ":" + usec + "+a!b$c"
		case "7": // user name only (no password), and it is the secret
			userinfo = usec
		case "8": // empty password
			userinfo = usec + "user:"
		case "9": // lower-case hex of a byte that needs escaping, mixed case
			userinfo = "%c3%a9l%C3%A9ve:" + usec + "%2F%2f"
			secrets = append(secrets, "%c3%a9l", "\u00e9l\u00e9ve")
		}
		if userinfo != "" {
			ptrURL = strings.Replace(ptrURL, "://", "://"+userinfo+"@", 1)
		}
		if kv["v6"] == "1" { // IPv6 literal host (nothing listens there: every attempt is a transport failure)
			if u0, err := neturl.Parse(ptrURL); err == nil {
				ptrURL = strings.Replace(ptrURL, u0.Host, "[::1]:"+u0.Port(), 1)
			}
		}
		switch kv["query"] {
		case "1":
			ptrURL += "?X-Amz-Signature=" + qsec + "&x=1#frag" + qsec
		case "2": // escapes in both hex cases, '+', no fragment
			ptrURL += "?sig=Q%53EC" + idx3 + "+a%2fb%2Fc&" + qsec
			secrets = append(secrets, "Q%53EC"+idx3, "QSEC"+idx3)
		case "3": // fragment only
			ptrURL += "#" + qsec
		case "4": // empty query marker then fragment
			ptrURL += "?#" + qsec
		}

		var validator func(string) error
		switch kv["val"] {
		case "allow":
			validator = func(string) error { return nil }
		case "https":
			validator = vgirpc.HTTPSOnlyValidator
		case "deny":
			validator = func(u string) error {
				p := u
				if i := strings.IndexAny(p, "?#"); i >= 0 {
					p = p[:i]
				}
				if strings.Contains(p, "deny") {
					return fmt.Errorf("host/path %s is not on the allow list", u)
				}
				return nil
			}
		}

		// URL numbering: 0 = pointer URL, then every redirect target in route order
		// (the client re-serialises URLs: requests are matched on the canonical spelling)
		canon := func(u string) string {
			if pu, err := neturl.Parse(u); err == nil {
				return pu.String()
			}
			return u
		}
		urls := []string{ptrURL}
		idx := map[string]int{canon(ptrURL): 0}
		num := func(u string) int {
			if i, ok := idx[canon(u)]; ok {
				return i
			}
			idx[canon(u)] = len(urls)
			urls = append(urls, u)
			return len(urls) - 1
		}
		// every URL that can be requested: the pointer URL and the redirect targets
		for _, rt := range routes {
			if strings.HasPrefix(rt.resp, "r:") {
				num(c31Org.target(rt.resp[2:]))
			}
		}
		// the origin routes by scheme and path only
		keyOf := func(u string) string {
			pu, err := neturl.Parse(u)
			if err != nil {
				return "?"
			}
			sch := "h"
			if pu.Scheme == "http" {
				sch = "p"
			}
			return sch + pu.Path
		}
		type bodyInfo struct{ encLen, decLen int }
		bodies := map[string]bodyInfo{}    // sha256 hex of fetched data -> lengths
		cutBodies := map[string]bodyInfo{} // sha256 hex of a proper prefix of a served body -> (sent, kept)
		var mroutes []string
		for _, rt := range routes {
			att := "*"
			if rt.attempt >= 0 {
				att = strconv.Itoa(rt.attempt)
			}
			f := strings.Split(rt.resp, ":")
			var mr string
			switch f[0] {
			case "r":
				mr = fmt.Sprintf("r:%d", num(c31Org.target(f[1])))
			case "s":
				mr = "s:" + f[1]
			case "drop":
				mr = "t"
			case "b":
				n, _ := strconv.Atoi(f[1])
				switch f[2] {
				case "plain":
					mr = fmt.Sprintf("b:%d:%d:0:0:!:0", n, n)
				case "chunked":
					mr = fmt.Sprintf("b:-1:%d:0:0:!:0", n)
				case "cut":
					mr = fmt.Sprintf("b:%d:%d:1:0:!:0", n, n/2)
					if n == 0 { // nothing to cut: an ordinary empty body
						mr = "b:0:0:0:0:!:0"
					}
				}
				h := sha256.Sum256(bytes.Repeat([]byte{'b'}, n))
				bodies[hex.EncodeToString(h[:])] = bodyInfo{n, n}
				// every proper prefix of what the origin sent: if the fetcher hands one of those on,
				// it accepted a body of n bytes after cutting it (only the oracle uses these)
				for k := 0; k < n && n <= 8192; k++ {
					hp := sha256.Sum256(bytes.Repeat([]byte{'b'}, k))
					cutBodies[hex.EncodeToString(hp[:])] = bodyInfo{n, k}
				}
			case "z":
				n, _ := strconv.Atoi(f[1])
				zb := c31ZBody(n, f[2])
				dl := strconv.Itoa(n)
				if f[2] == "corrupt" {
					dl = "!"
				}
				// the frame's window as the decoder sees it (environment value from the frame header)
				win := uint64(0)
				var hd zstd.Header
				if hd.Decode(zb) == nil {
					win = hd.WindowSize
					if hd.SingleSegment && hd.HasFCS && win < hd.FrameContentSize {
						win = hd.FrameContentSize
					}
					if win < 1024 {
						win = 1024
					}
				}
				mr = fmt.Sprintf("b:%d:%d:0:1:%s:%d", len(zb), len(zb), dl, win)
				h := sha256.Sum256(bytes.Repeat([]byte{'z'}, n))
				bodies[hex.EncodeToString(h[:])] = bodyInfo{len(zb), n}
			default:
				mr = "s:404"
			}
			for ui := 0; ui < len(urls); ui++ {
				if ui == 0 && kv["v6"] == "1" {
					continue
				}
				if keyOf(urls[ui]) == rt.key {
					mroutes = append(mroutes, fmt.Sprintf("%s|%d|%s", att, ui, mr))
				}
			}
		}
		if kv["v6"] == "1" {
			mroutes = append([]string{"*|0|t"}, mroutes...)
		}
		var rej []string
		if validator != nil {
			for i, u := range urls {
				if validator(u) != nil {
					rej = append(rej, strconv.Itoa(i))
				}
			}
		}
		join := func(xs []string, sep string) string {
			if len(xs) == 0 {
				return "-"
			}
			return strings.Join(xs, sep)
		}
		valTok := "1"
		if validator == nil {
			valTok = "0"
		}
		modelLine := fmt.Sprintf("fetch retries=%d maxfetch=%d maxdec=%d maxredir=%d val=%s n=%d rej=%s redact=%s routes=%s",
			atoi("retries"), atoi("maxfetch"), atoi("maxdec"), atoi("maxredir"), valTok, len(urls), join(rej, ","),
			XS(vgirpc.VerifC31RedactURL(ptrURL)), join(mroutes, ";"))

		// run the real code
		tr := &c31Transport{inner: c31H.Client().Transport}
		cfg := &vgirpc.ExternalLocationConfig{
			URLValidator: validator, MaxRetries: int(atoi("retries")), RetryDelay: time.Nanosecond,
			HTTPClient: &http.Client{Transport: tr}, MaxFetchBytes: atoi("maxfetch"),
			MaxDecompressedBytes: atoi("maxdec"), MaxRedirects: int(atoi("maxredir")),
		}
		schema := arrow.NewSchema([]arrow.Field{{Name: "v", Type: arrow.PrimitiveTypes.Int64}}, nil)
		ptr, pm := vgirpc.MakeExternalLocationBatch(schema, ptrURL, strings.Repeat("0", 64))
		_, _, err := vgirpc.ResolveExternalLocation(ptr, pm, cfg)
		ptr.Release()

		// observation
		var logParts []string
		for _, a := range tr.attempts {
			var xs []string
			for _, u := range a {
				i, ok := idx[canon(u)]
				if !ok {
					xs = append(xs, "?"+u)
				} else {
					xs = append(xs, strconv.Itoa(i))
				}
			}
			logParts = append(logParts, strings.Join(xs, ">"))
		}
		out := "other"
		errText := ""
		if err != nil {
			errText = err.Error()
		}
		fetchedEnc, fetchedDec := -1, -1
		switch {
		case strings.HasPrefix(errText, "URL rejected by validator: "):
			out = "rejected-first"
		case c31AttemptsRe.MatchString(errText):
			n := c31AttemptsRe.FindStringSubmatch(errText)[1]
			t := errText
			if m := c31DecompRe.FindStringSubmatch(t); m != nil {
				t = m[1]
			}
			out = "failed:" + n + ":" + XS(t)
		case strings.HasPrefix(errText, "SHA-256 checksum mismatch"):
			m := c31ShaRe.FindStringSubmatch(errText)
			if m != nil {
				if bi, ok := bodies[m[1]]; ok {
					out = fmt.Sprintf("fetched:%d", bi.decLen)
					fetchedEnc, fetchedDec = bi.encLen, bi.decLen
				} else if bi, ok := cutBodies[m[1]]; ok {
					out = fmt.Sprintf("fetched:%d", bi.decLen)
					fetchedEnc, fetchedDec = bi.encLen, bi.encLen
					c.Oracle("truncated-body-accepted", fmt.Sprintf("the origin sent %d body bytes, the fetcher kept the first %d and reported success", bi.encLen, bi.decLen))
				} else {
					out = "fetched:unknown-body"
					c.Oracle("fetched-bytes-are-not-what-the-origin-sent", "the fetch succeeded with bytes that are neither a served body nor its decoding")
				}
			}
		}
		c.Stat("out-" + strings.SplitN(out, ":", 2)[0])
		c.Out(modelLine, fmt.Sprintf("log=%s out=%s", join(logParts, "/"), out))

		// the property, directly on what happened
		effRedir := atoi("maxredir")
		if effRedir <= 0 {
			effRedir = 5
		}
		effRetries := atoi("retries")
		if effRetries <= 0 || effRetries > 2 {
			effRetries = 2
		}
		if len(tr.attempts) > int(effRetries)+1 || len(tr.attempts) > 3 {
			c.Oracle("too-many-attempts", fmt.Sprintf("%d attempts with MaxRetries=%d", len(tr.attempts), atoi("retries")))
		}
		for _, a := range tr.attempts {
			if int64(len(a))-1 > effRedir {
				c.Oracle("too-many-redirects", fmt.Sprintf("%d redirects followed in one attempt, limit %d", len(a)-1, effRedir))
			}
			if validator != nil {
				for _, u := range a {
					if validator(u) != nil {
						c.Oracle("request-to-rejected-url", "a request was sent to a URL the validator rejects: "+u)
					}
				}
			}
		}
		effFetch, effDec := atoi("maxfetch"), atoi("maxdec")
		if effFetch <= 0 {
			effFetch = 256 << 20
		}
		if effDec <= 0 {
			effDec = 4 << 30
		}
		if fetchedEnc >= 0 && int64(fetchedEnc) > effFetch {
			c.Oracle("oversized-body-accepted", fmt.Sprintf("a %d-byte body was accepted with max_fetch_bytes=%d", fetchedEnc, effFetch))
		}
		if fetchedDec >= 0 && fetchedDec != fetchedEnc && int64(fetchedDec) > effDec {
			c.Oracle("decoded-over-cap-accepted", fmt.Sprintf("a payload decoding to %d bytes was accepted with max_decompressed_bytes=%d", fetchedDec, effDec))
		}
		redacted := vgirpc.VerifC31RedactURL(ptrURL)
		for _, sec := range secrets {
			if strings.Contains(errText, sec) && !strings.HasPrefix(errText, "SHA-256") {
				c.Oracle("secret-in-error-text", fmt.Sprintf("error text contains a query/userinfo secret (%q): %s", sec, errText))
				break
			}
		}
		for _, sec := range secrets {
			if strings.Contains(redacted, sec) {
				c.Oracle("secret-in-redacted-url", fmt.Sprintf("the redaction of the pointer URL still contains %q: %s", sec, redacted))
				break
			}
		}
	}
}

// ---------------------------------------------------------------- generation

func c31Gen(g *Gen) {
	r := g.Rng
	type cfgT struct{ retries, maxfetch, maxdec, maxredir int }
	pickCfg := func() cfgT {
		return cfgT{Pick(r, []int{0, 1, 2, 3, 7, -1}), Pick(r, []int{64, 64, 100, 0}), Pick(r, []int{200, 200, 1000, 0, 1500}), Pick(r, []int{0, 1, 2, 3, 5, -2})}
	}
	effRedir := func(c cfgT) int {
		if c.maxredir <= 0 {
			return 5
		}
		return c.maxredir
	}
	body := func(c cfgT) string {
		mf, md := c.maxfetch, c.maxdec
		if mf <= 0 {
			mf = 64
		}
		if md <= 0 {
			md = 200
		}
		switch r.Intn(10) {
		case 0, 1, 2:
			return fmt.Sprintf("b:%d:%s", Pick(r, []int{0, 1, mf - 1, mf, mf + 1, mf * 3}), Pick(r, []string{"plain", "plain", "chunked", "chunked", "cut"}))
		case 3, 4, 5, 6:
			return fmt.Sprintf("z:%d:%s", Pick(r, []int{1, md - 1, md, md + 1, md * 10, md / 2}), Pick(r, []string{"all", "all", "stream", "corrupt"}))
		default:
			return fmt.Sprintf("b:%d:plain", r.Range(1, 40))
		}
	}
	failure := func() string {
		return Pick(r, []string{"s:500", "s:503", "s:404", "s:403", "s:204", "s:302", "drop"})
	}
	line := func(c cfgT, val, start string, user, query bool, routes []string) string {
		b := func(x bool) string {
			if x {
				return "1"
			}
			return "0"
		}
		us, qs := b(user), b(query)
		if user && r.Chance(60) { // the many spellings of user info
			us = strconv.Itoa(r.Range(1, 9))
		}
		if query && r.Chance(40) {
			qs = strconv.Itoa(r.Range(1, 4))
		}
		rs := "-"
		if len(routes) > 0 {
			rs = strings.Join(routes, ";")
		}
		v6 := ""
		if start[:1] == "h" && (val == "nil" || val == "allow") && r.Chance(4) {
			v6 = " v6=1"
		}
		return fmt.Sprintf("get retries=%d maxfetch=%d maxdec=%d maxredir=%d val=%s start=%s user=%s query=%s%s routes=%s",
			c.retries, c.maxfetch, c.maxdec, c.maxredir, val, start, us, qs, v6, rs)
	}
	// (a) redirect chains
	for i := 0; i < g.N(170, 2000); i++ {
		c := pickCfg()
		val := Pick(r, []string{"nil", "allow", "https", "deny", "deny", "https"})
		n := r.Range(0, effRedir(c)+2)
		start := "h/s"
		if r.Chance(8) {
			start = Pick(r, []string{"p/s", "h/deny/s"})
		}
		var routes []string
		cur := start
		for k := 0; k < n; k++ {
			sch := "h"
			if r.Chance(12) {
				sch = "p" // cross-scheme hop: refused by the https validator
			}
			next := fmt.Sprintf("%s/hop%d", sch, k)
			if r.Chance(12) {
				next = fmt.Sprintf("%s/deny/hop%d", sch, k)
			}
			if r.Chance(8) && k > 0 {
				next = start // loop back
			}
			if r.Chance(30) && next != start {
				next += "?"
			}
			routes = append(routes, fmt.Sprintf("*|%s|r:%s", cur, next))
			cur = strings.TrimSuffix(next, "?")
			if cur == start {
				break
			}
		}
		if cur != start || n == 0 {
			end := body(c)
			if r.Chance(25) {
				end = failure()
			}
			routes = append(routes, fmt.Sprintf("*|%s|%s", cur, end))
		}
		g.Case(line(c, val, start, r.Chance(50), r.Chance(60), routes))
	}
	// (b) transient failures across attempts, then success or not
	for i := 0; i < g.N(120, 1500); i++ {
		c := pickCfg()
		var routes []string
		nfail := r.Range(0, 4)
		for k := 0; k < nfail; k++ {
			if r.Chance(30) {
				routes = append(routes, fmt.Sprintf("%d|h/s|r:h/t%d", k, k), fmt.Sprintf("%d|h/t%d|%s", k, k, failure()))
			} else {
				routes = append(routes, fmt.Sprintf("%d|h/s|%s", k, failure()))
			}
		}
		routes = append(routes, fmt.Sprintf("*|h/s|%s", body(c)))
		g.Case(line(c, Pick(r, []string{"nil", "allow", "https"}), "h/s", r.Chance(50), r.Chance(60), routes))
	}
	// (c) caps, directly
	for i := 0; i < g.N(90, 1000); i++ {
		c := pickCfg()
		g.Case(line(c, Pick(r, []string{"nil", "https"}), "h/s", r.Chance(30), r.Chance(50), []string{"*|h/s|" + body(c)}))
	}
	// (c') over-cap bodies sent WITHOUT a Content-Length (only the streaming limit can catch them),
	// directly and behind a redirect
	for i := 0; i < g.N(40, 400); i++ {
		c := pickCfg()
		mf := c.maxfetch
		if mf <= 0 {
			c.maxfetch, mf = 64, 64
		}
		b := fmt.Sprintf("b:%d:chunked", Pick(r, []int{mf + 1, mf + 1, mf + 2, mf + 48, 2 * mf, mf, mf - 1}))
		if r.Chance(30) {
			g.Case(line(c, "nil", "h/s", r.Chance(30), r.Chance(50), []string{"*|h/s|r:h/big", "*|h/big|" + b}))
		} else {
			g.Case(line(c, "nil", "h/s", r.Chance(30), r.Chance(50), []string{"*|h/s|" + b}))
		}
	}
	// (c'') multi-frame zstd bodies: every frame (and its declared size) fits under the decompression
	// cap, the total may not
	for i := 0; i < g.N(40, 400); i++ {
		c := pickCfg()
		c.maxdec = Pick(r, []int{1500, 2048, 4096})
		if c.maxfetch > 0 {
			c.maxfetch = 0 // default cap: the encoded body is small anyway
		}
		frame := Pick(r, []int{300, 512, 1024, 1100})
		k := Pick(r, []int{2, 3, 4, 8, 16})
		total := frame * k
		if r.Chance(30) { // land exactly around the cap
			total = c.maxdec + Pick(r, []int{-1, 0, 1, 2})
		}
		b := fmt.Sprintf("z:%d:multi%d", total, k)
		if r.Chance(25) {
			g.Case(line(c, "nil", "h/s", r.Chance(30), r.Chance(50), []string{"*|h/s|r:h/zz", "*|h/zz|" + b}))
		} else {
			g.Case(line(c, "nil", "h/s", r.Chance(30), r.Chance(50), []string{"*|h/s|" + b}))
		}
	}
	// (c3) every spelling of user info / query against every failure that formats the pointer URL
	for u := 1; u <= 9; u++ {
		for q := 0; q <= 4; q++ {
			if !g.Thorough() && (u*5+q)%2 == int(g.Seed%2) {
				continue
			}
			c := pickCfg()
			f := Pick(r, []string{"s:500", "s:404", "drop", "b:40:cut", "z:10:corrupt"})
			g.Case(fmt.Sprintf("get retries=%d maxfetch=64 maxdec=2000 maxredir=%d val=%s start=h/s user=%d query=%d routes=*|h/s|%s",
				c.retries, c.maxredir, Pick(r, []string{"nil", "allow", "https"}), u, q, f))
		}
	}
	g.Case("get retries=1 maxfetch=64 maxdec=2000 maxredir=5 val=nil start=h/s user=2 query=2 v6=1 routes=*|h/s|b:5:plain")
	// (d) the pointer URL itself refused / nothing routed
	for i := 0; i < g.N(20, 200); i++ {
		c := pickCfg()
		g.Case(line(c, Pick(r, []string{"https", "deny"}), Pick(r, []string{"p/s", "h/deny/x", "h/ok"}), r.Chance(70), r.Chance(70), nil))
	}
}
