package main

// Shared in-process environment for the HTTP stream properties (C16, C19, C11): one vgirpc.Server
// with the scripted stream methods, 1..3 HttpServer instances sharing a token key, symbolic token
// bookkeeping (T<i> = i-th cursor observed, C<c> = call token of the c-th call id observed) and
// canonical rendering of responses / handler observations in the syntax the Lean drivers print.

import (
	"bytes"
	"context"
	"encoding/hex"
	"fmt"
	"io"
	"net/http"
	"net/http/httptest"
	"regexp"
	"sort"
	"strconv"
	"strings"
	"sync"
	"time"

	"github.com/klauspost/compress/zstd"

	"github.com/apache/arrow-go/v18/arrow"
	"github.com/apache/arrow-go/v18/arrow/array"
	"github.com/apache/arrow-go/v18/arrow/ipc"
	"github.com/apache/arrow-go/v18/arrow/memory"

	"github.com/Query-farm/vgi-rpc-go/vgirpc"
)

const arrowCT = "application/vnd.apache.arrow.stream"

// figure reported by a wire-cap refusal
var capWireRe = regexp.MustCompile(`max_response_bytes \((\d+) > (\d+)\)`)

type unaryParams struct {
	Logs int64  `vgirpc:"logs"`
	Size int64  `vgirpc:"size"`
	Mode string `vgirpc:"mode"`
}

var unaryParamsSchema = arrow.NewSchema([]arrow.Field{
	{Name: "logs", Type: arrow.PrimitiveTypes.Int64},
	{Name: "size", Type: arrow.PrimitiveTypes.Int64},
	{Name: "mode", Type: arrow.BinaryTypes.String},
}, nil)

// memStorage is an in-memory vgirpc.ExternalStorage: fixed-length URLs, every upload recorded.
type memStorage struct {
	mu   sync.Mutex
	objs [][]byte
	encs []string
}

func (m *memStorage) Upload(data []byte, _ *arrow.Schema, contentEncoding string) (string, error) {
	m.mu.Lock()
	defer m.mu.Unlock()
	m.objs = append(m.objs, append([]byte(nil), data...))
	m.encs = append(m.encs, contentEncoding)
	return fmt.Sprintf("https://store.invalid/o/%08d", len(m.objs)-1), nil
}

func (m *memStorage) count() int {
	m.mu.Lock()
	defer m.mu.Unlock()
	return len(m.objs)
}

// raw returns the uncompressed bytes of object i.
func (m *memStorage) raw(i int) []byte {
	m.mu.Lock()
	defer m.mu.Unlock()
	if i < 0 || i >= len(m.objs) {
		return nil
	}
	if m.encs[i] == "zstd" {
		dec, err := zstd.NewReader(nil)
		if err != nil {
			return nil
		}
		defer dec.Close()
		out, err := dec.DecodeAll(m.objs[i], nil)
		if err != nil {
			return nil
		}
		return out
	}
	return m.objs[i]
}

// byURL returns the object index a storage URL names, or -1.
func (m *memStorage) byURL(u string) int {
	const prefix = "https://store.invalid/o/"
	if !strings.HasPrefix(u, prefix) {
		return -1
	}
	n, err := strconv.Atoi(u[len(prefix):])
	if err != nil {
		return -1
	}
	return n
}

type scriptParams struct {
	Prog   string `vgirpc:"prog"`
	Cancel string `vgirpc:"cancel"`
	Rec    string `vgirpc:"rec"`
	Kind   string `vgirpc:"kind"` // dynamic method only: ex | pr
	Hdr    int64  `vgirpc:"hdr"`  // > 0: StreamResult.Header carries this value
	Dual   int64  `vgirpc:"dual"` // static methods: the state type implements both stream interfaces
	HPad   int64  `vgirpc:"hpad"` // > 0 (with hdr > 0): the header also carries a string of this many bytes
}

var scriptParamsSchema = arrow.NewSchema([]arrow.Field{
	{Name: "prog", Type: arrow.BinaryTypes.String},
	{Name: "cancel", Type: arrow.BinaryTypes.String},
	{Name: "rec", Type: arrow.BinaryTypes.String},
	{Name: "kind", Type: arrow.BinaryTypes.String},
	{Name: "hdr", Type: arrow.PrimitiveTypes.Int64},
	{Name: "dual", Type: arrow.PrimitiveTypes.Int64},
	{Name: "hpad", Type: arrow.PrimitiveTypes.Int64},
}, nil)

// scriptHeader is the stream header the scripted methods return.
type scriptHeader struct {
	N int64 `vgirpc:"n"`
}

var scriptHeaderSchema = arrow.NewSchema([]arrow.Field{{Name: "n", Type: arrow.PrimitiveTypes.Int64}}, nil)

func (h *scriptHeader) ArrowSchema() *arrow.Schema { return scriptHeaderSchema }

// scriptPadHeader is a stream header of a chosen serialized size (the header batch is whatever the
// returned value serializes to; the registered header schema is descriptive only).
type scriptPadHeader struct {
	N   int64  `vgirpc:"n"`
	Pad string `vgirpc:"pad"`
}

var scriptPadHeaderSchema = arrow.NewSchema([]arrow.Field{{Name: "n", Type: arrow.PrimitiveTypes.Int64}, {Name: "pad", Type: arrow.BinaryTypes.String}}, nil)

func (h *scriptPadHeader) ArrowSchema() *arrow.Schema { return scriptPadHeaderSchema }

type streamCfg struct {
	cache     bool
	maxResp   int64
	maxExt    int64
	limit     int
	instances int
	ext       bool  // configure an in-memory external storage
	thr       int64 // externalize threshold (bytes)
	zstd      bool  // compress uploads
	hdr       bool  // register the static methods with a header type (ExchangeWithHeader / ProducerWithHeader)
	xin       bool  // external-location config present: pointer inputs are fetched (from inStore) and resolved
}

// inputStore serves the objects external-location pointer inputs name (an http.RoundTripper over
// memory: no network).
type inputStore struct {
	mu      sync.Mutex
	objects map[string][]byte
	n       int
}

func (st *inputStore) RoundTrip(req *http.Request) (*http.Response, error) {
	st.mu.Lock()
	b, ok := st.objects[req.URL.String()]
	st.mu.Unlock()
	if !ok {
		return &http.Response{StatusCode: 404, Body: io.NopCloser(bytes.NewReader(nil)), Header: http.Header{}, Request: req}, nil
	}
	return &http.Response{StatusCode: 200, Body: io.NopCloser(bytes.NewReader(b)), ContentLength: int64(len(b)), Header: http.Header{}, Request: req}, nil
}

// put stores an object (nil: only reserve the URL, nothing is stored) and returns its URL.
func (st *inputStore) put(data []byte) string {
	st.mu.Lock()
	defer st.mu.Unlock()
	u := fmt.Sprintf("https://store.invalid/in/%06d", st.n)
	st.n++
	if data != nil {
		st.objects[u] = data
	}
	return u
}

type tokInfo struct {
	call     int
	pos      int
	producer bool
	cancel   string
}

type streamEnv struct {
	inStore *inputStore
	noLearn bool // never try to open unknown values as tokens (no server at hand)
	store   *memStorage
	cfg     streamCfg
	srv     *vgirpc.Server
	hs      []*vgirpc.HttpServer
	recID   string
	rec     *scriptRecorder
	tokens  []string
	info    []tokInfo
	callIDs []string
	callTok map[string]int
}

var streamTokenKey = []byte("verif-stream-token-key-0123456789abcdef")[:32]

// scriptStreamHandler is the init handler of the scripted stream methods; kind "" = decided by the
// request (the dynamic method).
func scriptStreamHandler(kind string) func(context.Context, *vgirpc.CallContext, scriptParams) (*vgirpc.StreamResult, error) {
	return func(_ context.Context, _ *vgirpc.CallContext, p scriptParams) (*vgirpc.StreamResult, error) {
		k := kind
		if k == "" {
			k = p.Kind
		}
		sk := k
		if kind != "" && p.Dual != 0 {
			sk = k + "+"
		}
		res := &vgirpc.StreamResult{OutputSchema: scriptValueSchema, State: newScriptState(sk, p.Cancel, p.Prog, p.Rec)}
		if k == "ex" {
			res.InputSchema = scriptValueSchema
		}
		if p.Hdr > 0 {
			res.Header = &scriptHeader{N: p.Hdr}
			if p.HPad > 0 {
				res.Header = &scriptPadHeader{N: p.Hdr, Pad: strings.Repeat("h", int(p.HPad))}
			}
		}
		return res, nil
	}
}

// registerScriptMethods registers the scripted methods: "ex" (static exchange), "pr" (static
// producer), "dyn" (dynamic stream: exchange or producer per call, header optional per call) and
// the unary "un". withHeader selects the header-declaring registration of the static methods.
func registerScriptMethods(srv *vgirpc.Server) { registerScriptMethodsHdr(srv, false) }

func registerScriptMethodsHdr(srv *vgirpc.Server, withHeader bool) {
	if withHeader {
		vgirpc.ExchangeWithHeader(srv, "ex", scriptValueSchema, scriptValueSchema, scriptHeaderSchema, scriptStreamHandler("ex"))
		vgirpc.ProducerWithHeader(srv, "pr", scriptValueSchema, scriptHeaderSchema, scriptStreamHandler("pr"))
	} else {
		vgirpc.Exchange(srv, "ex", scriptValueSchema, scriptValueSchema, scriptStreamHandler("ex"))
		vgirpc.Producer(srv, "pr", scriptValueSchema, scriptStreamHandler("pr"))
	}
	vgirpc.DynamicStreamWithHeader(srv, "dyn", scriptHeaderSchema, scriptStreamHandler(""))
	vgirpc.Unary(srv, "un", func(_ context.Context, cc *vgirpc.CallContext, p unaryParams) (string, error) {
		for i := int64(0); i < p.Logs; i++ {
			cc.ClientLog(vgirpc.LogInfo, fmt.Sprintf("m%d", i))
		}
		switch p.Mode {
		case "fail":
			return "", &vgirpc.RpcError{Type: "ValueError", Message: fmt.Sprintf("fail-%d", p.Size)}
		case "panic":
			panic(fmt.Sprintf("panic-%d", p.Size))
		}
		return strings.Repeat("a", int(p.Size)), nil
	})
}

func newStreamEnv(cfg streamCfg) *streamEnv {
	return newStreamEnvWith(cfg, func(srv *vgirpc.Server) { registerScriptMethodsHdr(srv, cfg.hdr) })
}

// newStreamEnvWith builds the environment with a caller-chosen method registration.
func newStreamEnvWith(cfg streamCfg, register func(*vgirpc.Server)) *streamEnv {
	e := &streamEnv{cfg: cfg, callTok: map[string]int{}}
	e.srv = vgirpc.NewServer()
	register(e.srv)
	e.inStore = &inputStore{objects: map[string][]byte{}}
	if cfg.ext || cfg.xin {
		ec := &vgirpc.ExternalLocationConfig{HTTPClient: &http.Client{Transport: e.inStore}, RetryDelay: time.Millisecond}
		if cfg.ext {
			e.store = &memStorage{}
			ec.Storage, ec.ExternalizeThresholdBytes = e.store, cfg.thr
			if cfg.zstd {
				ec.Compression = &vgirpc.Compression{Algorithm: "zstd", Level: 3}
			}
		}
		e.srv.SetExternalLocation(ec)
	}
	if cfg.instances < 1 {
		cfg.instances = 1
		e.cfg.instances = 1
	}
	for i := 0; i < cfg.instances; i++ {
		h, err := vgirpc.NewHttpServerWithKey(e.srv, streamTokenKey)
		if err != nil {
			panic(err)
		}
		if !cfg.cache {
			h.SetCallStateCacheEntries(0)
		}
		h.SetMaxResponseBytes(cfg.maxResp)
		h.SetMaxExternalizedResponseBytes(cfg.maxExt)
		h.SetProducerBatchLimit(cfg.limit)
		h.SetEnableLandingPage(false)
		h.SetEnableDescribePage(false)
		h.SetEnableNotFoundPage(false)
		h.InitPages()
		e.hs = append(e.hs, h)
	}
	e.recID, e.rec = newScriptRecorder()
	return e
}

func (e *streamEnv) close() { dropScriptRecorder(e.recID) }

func parseStreamCfg(f []string) (streamCfg, bool) {
	cfg := streamCfg{cache: true, instances: 1}
	for _, w := range f {
		kv := strings.SplitN(w, "=", 2)
		if len(kv) != 2 {
			return cfg, false
		}
		n, err := strconv.ParseInt(kv[1], 10, 64)
		if err != nil || n < 0 {
			return cfg, false
		}
		switch kv[0] {
		case "cache":
			cfg.cache = n != 0
		case "maxresp":
			cfg.maxResp = n
		case "maxext":
			cfg.maxExt = n
		case "limit":
			cfg.limit = int(n)
		case "inst":
			cfg.instances = int(n)
		case "ext":
			cfg.ext = n != 0
		case "thr":
			cfg.thr = n
		case "zstd":
			cfg.zstd = n != 0
		case "hdr":
			cfg.hdr = n != 0
		case "xin":
			cfg.xin = n != 0
		default:
			return cfg, false
		}
	}
	if cfg.ext {
		cfg.xin = true // any external-location config also resolves pointer inputs
	}
	return cfg, true
}

// ---------------------------------------------------------------- requests

type httpResult struct {
	aborted string // non-empty: the handler panicked (a real server aborts the connection)
	status  int
	rpcErr  bool
	body    []byte
	header  http.Header
	batches []respBatch
	parseOK bool
}

type respBatch struct {
	stream int
	rows   int
	vals   []int64
	keys   []string
	values []string
	ncols  int
}

func (b respBatch) get(k string) (string, bool) {
	for i, kk := range b.keys {
		if kk == k {
			return b.values[i], true
		}
	}
	return "", false
}

func (e *streamEnv) post(inst int, path string, body []byte, hdr map[string]string) *httpResult {
	if inst < 0 || inst >= len(e.hs) {
		inst = 0
	}
	req := httptest.NewRequest(http.MethodPost, path, bytes.NewReader(body))
	req.Header.Set("Content-Type", arrowCT)
	for k, v := range hdr {
		req.Header.Set(k, v)
	}
	rr := httptest.NewRecorder()
	aborted := ""
	func() {
		// net/http recovers a panicking handler and aborts the connection: the client gets no
		// complete response. In-process the same panic would unwind into the harness.
		defer func() {
			if rv := recover(); rv != nil {
				aborted = fmt.Sprint(rv)
			}
		}()
		e.hs[inst].ServeHTTP(rr, req)
	}()
	if aborted != "" {
		return &httpResult{status: 0, aborted: aborted, header: http.Header{}}
	}
	res := &httpResult{status: rr.Code, rpcErr: strings.EqualFold(rr.Header().Get("X-VGI-RPC-Error"), "true"),
		body: rr.Body.Bytes(), header: rr.Header()}
	res.batches, res.parseOK = parseIPCBody(res.body)
	return res
}

// countIPCStreams counts the concatenated IPC streams of a body (empty streams included).
func countIPCStreams(body []byte) int {
	r := bytes.NewReader(body)
	n := 0
	for r.Len() > 0 {
		rd, err := ipc.NewReader(r)
		if err != nil {
			return n
		}
		for rd.Next() {
		}
		err = rd.Err()
		rd.Release()
		if err != nil {
			return n
		}
		n++
	}
	return n
}

// ipcEndsWithEOS: the body's last IPC stream is closed by the end-of-stream marker (continuation
// 0xFFFFFFFF + zero length), which is how a client tells "stream finished" from "connection cut".
func ipcEndsWithEOS(body []byte) bool {
	return bytes.HasSuffix(body, []byte{0xff, 0xff, 0xff, 0xff, 0, 0, 0, 0})
}

// headerStreamLen: when the body holds two or more IPC streams (an /init answer of a method with a
// stream header), the byte length of the first one (the header stream); otherwise 0.
func headerStreamLen(body []byte) int {
	if countIPCStreams(body) < 2 {
		return 0
	}
	r := bytes.NewReader(body)
	rd, err := ipc.NewReader(r)
	if err != nil {
		return 0
	}
	for rd.Next() {
	}
	rd.Release()
	return len(body) - r.Len()
}

// parseIPCBody reads every concatenated IPC stream of a response body.
func parseIPCBody(body []byte) ([]respBatch, bool) {
	var out []respBatch
	r := bytes.NewReader(body)
	stream := 0
	for r.Len() > 0 {
		rd, err := ipc.NewReader(r)
		if err != nil {
			return out, false
		}
		for rd.Next() {
			rb := rd.RecordBatch()
			b := respBatch{stream: stream, rows: int(rb.NumRows()), ncols: int(rb.NumCols())}
			if bwm, ok := rb.(arrow.RecordBatchWithMetadata); ok {
				md := bwm.Metadata()
				b.keys = append(b.keys, md.Keys()...)
				b.values = append(b.values, md.Values()...)
			}
			if rb.NumCols() > 0 {
				if sc, ok := rb.Column(0).(*array.String); ok {
					for i := 0; i < sc.Len(); i++ {
						b.vals = append(b.vals, int64(len(sc.Value(i))))
					}
				} else {
					b.vals, _ = inputValues(rb)
				}
			}
			out = append(out, b)
		}
		err = rd.Err()
		rd.Release()
		if err != nil {
			return out, false
		}
		stream++
	}
	return out, true
}

// initBody builds the /init request body for a scripted static method.
func (e *streamEnv) initBody(method, cancel, prog string) []byte {
	return e.initBodyFull(method, "", 0, cancel, prog)
}

// initBodyFull also names the stream kind (for the dynamic method) and a header value (0: none).
func (e *streamEnv) initBodyFull(method, kind string, hdr int64, cancel, prog string) []byte {
	return e.initBodyDual(method, kind, hdr, false, cancel, prog)
}

// initBodyDual: dual = ask a static method for a state type that implements both stream interfaces.
func (e *streamEnv) initBodyDual(method, kind string, hdr int64, dual bool, cancel, prog string) []byte {
	return e.initBodyPad(method, kind, hdr, 0, dual, cancel, prog)
}

// initBodyPad also sizes the header value (hpad bytes of string next to the number).
func (e *streamEnv) initBodyPad(method, kind string, hdr, hpad int64, dual bool, cancel, prog string) []byte {
	mem := memory.NewGoAllocator()
	cols := make([]arrow.Array, 7)
	pb := array.NewInt64Builder(mem)
	pb.Append(hpad)
	cols[6] = pb.NewArray()
	pb.Release()
	for i, v := range []string{prog, cancel, e.recID, kind} {
		b := array.NewStringBuilder(mem)
		b.Append(v)
		cols[i] = b.NewArray()
		b.Release()
	}
	hb := array.NewInt64Builder(mem)
	hb.Append(hdr)
	cols[4] = hb.NewArray()
	hb.Release()
	db := array.NewInt64Builder(mem)
	if dual {
		db.Append(1)
	} else {
		db.Append(0)
	}
	cols[5] = db.NewArray()
	db.Release()
	batch := array.NewRecordBatch(scriptParamsSchema, cols, 1)
	for _, c := range cols {
		c.Release()
	}
	defer batch.Release()
	var buf bytes.Buffer
	if err := vgirpc.WriteRequest(&buf, method, batch, ""); err != nil {
		panic(err)
	}
	return buf.Bytes()
}

// exchangeBody builds a continuation request: one batch of the given schema kind with the given
// custom metadata (order and duplicates preserved).
func exchangeBody(schemaKind string, vals []int64, keys, values []string) []byte {
	mem := memory.NewGoAllocator()
	var schema *arrow.Schema
	var cols []arrow.Array
	switch schemaKind {
	case "ok":
		schema = scriptValueSchema
		b := array.NewInt64Builder(mem)
		b.AppendValues(vals, nil)
		cols = []arrow.Array{b.NewArray()}
		b.Release()
	case "cast":
		schema = arrow.NewSchema([]arrow.Field{{Name: "value", Type: arrow.PrimitiveTypes.Int32}}, nil)
		b := array.NewInt32Builder(mem)
		for _, v := range vals {
			b.Append(int32(v))
		}
		cols = []arrow.Array{b.NewArray()}
		b.Release()
	case "bad":
		schema = arrow.NewSchema([]arrow.Field{{Name: "other", Type: arrow.PrimitiveTypes.Int64}}, nil)
		b := array.NewInt64Builder(mem)
		b.AppendValues(vals, nil)
		cols = []arrow.Array{b.NewArray()}
		b.Release()
	default: // "empty": the empty-schema batch a client sends for ticks and cancels
		schema = arrow.NewSchema(nil, nil)
		vals = nil
	}
	var batch arrow.RecordBatch
	if len(keys) > 0 {
		batch = array.NewRecordBatchWithMetadata(schema, cols, int64(len(vals)), arrow.NewMetadata(keys, values))
	} else {
		batch = array.NewRecordBatch(schema, cols, int64(len(vals)))
	}
	for _, c := range cols {
		c.Release()
	}
	defer batch.Release()
	var buf bytes.Buffer
	w := ipc.NewWriter(&buf, ipc.WithSchema(schema))
	if err := w.Write(batch); err != nil {
		panic(err)
	}
	if err := w.Close(); err != nil {
		panic(err)
	}
	return buf.Bytes()
}

// ---------------------------------------------------------------- symbolic tokens

// symOf maps a metadata value to its symbolic token name if it is a token this case has seen
// (or, when learn is set, a token that opens under the shared key: it is then registered).
func (e *streamEnv) symOf(v string, learn bool) (string, bool) {
	for i, t := range e.tokens {
		if t == v {
			return fmt.Sprintf("T%d", i), true
		}
	}
	if c, ok := e.callTok[v]; ok {
		return fmt.Sprintf("C%d", c), true
	}
	if !learn || e.noLearn || len(e.hs) == 0 || len(v) < 40 {
		return "", false
	}
	if callID, state, err := e.hs[0].VerifC16OpenCursor([]byte(v)); err == nil {
		core, ok := scriptCoreOf(state)
		if !ok {
			return "", false
		}
		isProducer, hasCancel := scriptStateKind(state)
		cancel := core.Cancel
		if !hasCancel {
			cancel = "absent"
		}
		e.tokens = append(e.tokens, v)
		e.info = append(e.info, tokInfo{call: e.callIndex(callID), pos: core.Pos, producer: isProducer, cancel: cancel})
		return fmt.Sprintf("T%d", len(e.tokens)-1), true
	}
	if callID, err := e.hs[0].VerifC16OpenCall([]byte(v)); err == nil {
		c := e.callIndex(callID)
		e.callTok[v] = c
		return fmt.Sprintf("C%d", c), true
	}
	return "", false
}

func (e *streamEnv) callIndex(callID string) int {
	for i, c := range e.callIDs {
		if c == callID {
			return i
		}
	}
	e.callIDs = append(e.callIDs, callID)
	return len(e.callIDs) - 1
}

// tokenString renders the concrete value for a symbolic reference in a script; references to
// tokens that were never minted become a recognisable literal that cannot open.
func (e *streamEnv) tokenString(sym string) string {
	n, err := strconv.Atoi(sym[1:])
	if err == nil && n >= 0 {
		if sym[0] == 'T' && n < len(e.tokens) {
			return e.tokens[n]
		}
		if sym[0] == 'C' {
			for t, c := range e.callTok {
				if c == n {
					return t
				}
			}
		}
	}
	return "never-minted-" + sym
}

// describeSym renders T<i> as the model does: T<i>(c<call>,p<pos>).
func (e *streamEnv) describeSym(sym string) string {
	if sym[0] == 'T' {
		n, _ := strconv.Atoi(sym[1:])
		if n < len(e.info) {
			return fmt.Sprintf("%s(c%d,p%d)", sym, e.info[n].call, e.info[n].pos)
		}
	}
	return sym
}

// ---------------------------------------------------------------- rendering

func hx(s string) string { return hex.EncodeToString([]byte(s)) }

func errKind(msg string) string {
	switch {
	case strings.Contains(msg, "fail-"):
		return "handler" + msg[strings.Index(msg, "fail-")+5:]
	case strings.Contains(msg, "panic-"):
		return "panic" + msg[strings.Index(msg, "panic-")+6:]
	case strings.Contains(msg, "No data batch was emitted"):
		return "noData"
	case strings.Contains(msg, "only one data batch may be emitted"):
		return "secondEmit"
	case strings.Contains(msg, "finish() is not allowed on exchange"):
		return "finishExchange"
	case strings.Contains(msg, "max_externalized_response_bytes"):
		return "capExt"
	case strings.Contains(msg, "max_response_bytes"):
		return "capWire"
	case strings.Contains(msg, "Missing state token"):
		return "missingToken"
	case strings.Contains(msg, "Missing call token"):
		return "missingCall"
	case strings.Contains(msg, "Malformed state token"), strings.Contains(msg, "signature verification failed"),
		strings.Contains(msg, "Unsupported state token version"):
		return "badToken"
	case strings.Contains(msg, "not issued by this method"):
		return "wrongMethod"
	case strings.Contains(msg, "resolving external request"):
		return "resolveExt"
	case strings.Contains(msg, "Input schema mismatch"):
		return "cast"
	}
	if len(msg) > 40 {
		msg = msg[:40]
	}
	return "other:" + hx(msg)
}

func (b respBatch) isLog() bool {
	lv, ok := b.get(vgirpc.MetaLogLevel)
	return ok && lv != ""
}

func (b respBatch) isException() bool {
	lv, _ := b.get(vgirpc.MetaLogLevel)
	return lv == string(vgirpc.LogException)
}

// resolvePointer replaces an external-location pointer batch by the batch that was uploaded
// (values and custom metadata of the first batch of the stored IPC stream).
func (e *streamEnv) resolvePointer(b respBatch) (respBatch, bool) {
	if e.store == nil || b.rows != 0 || b.isLog() {
		return b, false
	}
	u, ok := b.get(vgirpc.MetaLocation)
	if !ok {
		return b, false
	}
	idx := e.store.byURL(u)
	raw := e.store.raw(idx)
	if raw == nil {
		return b, false
	}
	inner, ok := parseIPCBody(raw)
	if !ok || len(inner) == 0 {
		return b, false
	}
	return inner[0], true
}

// renderBatch: L<n> | X:<kind> | D[v.v]{k=v,...}^<cursor>~<call>
func (e *streamEnv) renderBatch(b respBatch) string {
	if rb, ok := e.resolvePointer(b); ok {
		b = rb
	}
	if b.isLog() {
		msg, _ := b.get(vgirpc.MetaLogMessage)
		if b.isException() {
			return "X:" + errKind(msg)
		}
		if strings.HasPrefix(msg, "m") {
			if _, err := strconv.Atoi(msg[1:]); err == nil {
				return "L" + msg[1:]
			}
		}
		return "L?" + hx(msg)
	}
	vs := make([]string, len(b.vals))
	for i, v := range b.vals {
		vs[i] = strconv.FormatInt(v, 10)
	}
	type kv struct{ k, v string }
	var lits []kv
	for i, k := range b.keys {
		if _, isTok := e.symOf(b.values[i], true); isTok {
			continue
		}
		lits = append(lits, kv{k, b.values[i]})
	}
	sort.SliceStable(lits, func(i, j int) bool {
		if lits[i].k != lits[j].k {
			return lits[i].k < lits[j].k
		}
		return lits[i].v < lits[j].v
	})
	ls := make([]string, len(lits))
	for i, l := range lits {
		ls[i] = hx(l.k) + "=" + hx(l.v)
	}
	first := func(key string) string {
		v, ok := b.get(key)
		if !ok {
			return "-"
		}
		if sym, isTok := e.symOf(v, true); isTok {
			return e.describeSym(sym)
		}
		return "x" + hx(v)
	}
	return "D[" + strings.Join(vs, ".") + "]{" + strings.Join(ls, ",") + "}^" + first(vgirpc.MetaStreamState) + "~" + first(vgirpc.MetaCallState)
}

func (e *streamEnv) renderResp(r *httpResult) string {
	st := strconv.Itoa(r.status)
	if r.rpcErr {
		st += "E"
	}
	if r.aborted != "" {
		return "!connection-aborted"
	}
	if !r.parseOK {
		return st + " !unparseable-body"
	}
	// learn new tokens in wire order first, so indices follow the order of appearance
	for _, b := range r.batches {
		if rb, ok := e.resolvePointer(b); ok {
			b = rb
		}
		for i := range b.keys {
			e.symOf(b.values[i], true)
		}
	}
	parts := make([]string, len(r.batches))
	for i, b := range r.batches {
		parts[i] = e.renderBatch(b)
	}
	if r.status == 200 && r.aborted == "" && (countIPCStreams(r.body) == 0 || !ipcEndsWithEOS(r.body)) {
		// a 200 answer is at least one complete IPC stream (schema ... end-of-stream), even when it carries no batch
		return st + " !not-an-ipc-stream"
	}
	if len(parts) == 0 {
		return st + " -"
	}
	return st + " " + strings.Join(parts, ",")
}

func (e *streamEnv) renderSeen(keys, values []string) string {
	parts := make([]string, len(keys))
	for i, k := range keys {
		v := "x" + hx(values[i])
		if sym, ok := e.symOf(values[i], false); ok {
			v = sym
		}
		parts[i] = hx(k) + "=" + v
	}
	return "{" + strings.Join(parts, ",") + "}"
}

func (e *streamEnv) renderEvents(calls []*scriptCall, withSeen bool) string {
	if len(calls) == 0 {
		return "-"
	}
	parts := make([]string, len(calls))
	for i, c := range calls {
		switch c.Kind {
		case "exchange":
			vs := make([]string, len(c.Input))
			for j, v := range c.Input {
				vs[j] = strconv.FormatInt(v, 10)
			}
			parts[i] = fmt.Sprintf("E%d%s[%s]", c.Pos, e.renderSeen(c.Keys, c.Values), strings.Join(vs, "."))
		case "produce":
			if withSeen {
				parts[i] = fmt.Sprintf("P%d%s", c.Pos, e.renderSeen(c.Keys, c.Values))
			} else {
				parts[i] = fmt.Sprintf("P%d", c.Pos)
			}
		default:
			parts[i] = "K"
		}
	}
	return strings.Join(parts, ",")
}

// parseVals parses "c1.2.-3" / "c".
func parseVals(s string) ([]int64, bool) {
	if len(s) == 0 || s[0] != 'c' {
		return nil, false
	}
	if len(s) == 1 {
		return nil, true
	}
	var out []int64
	for _, p := range strings.Split(s[1:], ".") {
		n, err := strconv.ParseInt(p, 10, 64)
		if err != nil {
			return nil, false
		}
		out = append(out, n)
	}
	return out, true
}

// parseMetaWords parses "<khex>=<val>" words; val = x<hex> | T<i> | C<i>. Returns keys, the
// concrete values, and the symbolic form of each value ("" for literals).
func (e *streamEnv) parseMetaWords(ws []string) (keys, values, syms []string, ok bool) {
	for _, w := range ws {
		kv := strings.SplitN(w, "=", 2)
		if len(kv) != 2 {
			return nil, nil, nil, false
		}
		k, ok1 := UnX("x" + kv[0])
		if !ok1 || kv[1] == "" {
			return nil, nil, nil, false
		}
		keys = append(keys, string(k))
		switch kv[1][0] {
		case 'x':
			v, ok2 := UnX(kv[1])
			if !ok2 {
				return nil, nil, nil, false
			}
			values = append(values, string(v))
			syms = append(syms, "")
		case 'T', 'C':
			if _, err := strconv.Atoi(kv[1][1:]); err != nil {
				return nil, nil, nil, false
			}
			values = append(values, e.tokenString(kv[1]))
			syms = append(syms, kv[1])
		default:
			return nil, nil, nil, false
		}
	}
	return keys, values, syms, true
}
