package main

import (
	"context"
	"fmt"
	"net"
	"os"
	"runtime/debug"
	"strconv"
	"strings"
	"sync"
	"sync/atomic"
	"time"

	"github.com/Query-farm/vgi-rpc-go/vgirpc"
	"github.com/apache/arrow-go/v18/arrow"
	"github.com/apache/arrow-go/v18/arrow/array"
	"github.com/apache/arrow-go/v18/arrow/ipc"
	"github.com/apache/arrow-go/v18/arrow/memory"
)

// C42 — socket listeners: per-connection framing, idle shutdown only with zero open connections,
// socket file owner-only while serving and removed on return.
//
// One case = one REAL listener (Server.RunUnix on a file path, or Server.RunTcp on 127.0.0.1:0)
// started in a goroutine, and real client connections speaking the wire protocol.
//
//   listen <unix|tcp> <idle_ms>     start; -> "bound mode=<decimal mode|->"
//   conn <c>                        dial + one echo(0) round trip (so the server has counted it) -> "ok 1000" | "refused"
//   send <c> <x> / recv <c>         write a request / read one response (split, to interleave connections)
//   call <c> <x>                    send + recv -> "resp <x+1000>"
//   close <c>                       client closes the connection
//   idle                            wait for the idle shutdown: "returned mode=-" | "serving mode=…" (bounded wait)
//   stat                            "accepting mode=…" | "closed mode=…"
//   wait <ms>                       let time pass
//   hook <ok|fail> | rebind         make the serve-start hook refuse / accept; move the Server's transport binding to "pipe"
//   connx <c>                       dial a connection that the serve-start hook refuses -> "hookrefused"
//   shm <c> <x> | pcall <c> <x>     a call advertising connection c's own shm segment / a call whose parameters are a
//                                   pointer into it (every other segment holds x+500 at the same offset)
//   storm <conns> <calls>           concurrent search on a private listener: every client checks its own answers
//
// Every line handed to the model carries ` @<ms>`, the time since `listen` at which it starts (the clock is
// an environment input). Operations that start within 40 ms of an armed idle timer's deadline are `void`.
//
// With an idle timeout configured the generator dials new connections only while another one is
// open (otherwise the dial would race the re-armed timer, a window the model documents and the
// theorems cover, but which a script cannot force).

func init() {
	Register(&Prop{
		ID: "C42",
		Rule: "real RunUnix/RunTcp listeners with idle timeouts 0/20/30/50 ms, 1-5 client connections with interleaved and split " +
			"send/recv calls, closes in every order, idle waits while connections are open (must keep serving) and after the last " +
			"close (must return, socket file gone), stat of the socket file; non-trivial = at least two connections and one idle wait; " +
			"distinct = distinct scripts",
		Gen:  c42Gen,
		Exec: c42Exec,
		NonTrivial: func(lines []string) bool {
			conns, idle := 0, false
			for _, l := range lines {
				if strings.HasPrefix(l, "conn ") {
					conns++
				}
				if l == "idle" {
					idle = true
				}
			}
			return conns >= 2 && idle
		},
	})
}

type c42Params struct {
	N int64 `vgirpc:"n"`
}

func c42Server(hookFail *atomic.Bool) *vgirpc.Server {
	s := vgirpc.NewServer()
	s.SetServeStartHook(func(vgirpc.TransportKind, map[string]bool) error {
		if hookFail.Load() {
			return fmt.Errorf("scripted serve-start hook refusal")
		}
		return nil
	})
	vgirpc.Unary(s, "echo", func(_ context.Context, _ *vgirpc.CallContext, p c42Params) (int64, error) {
		return p.N + 1000, nil
	})
	return s
}

var c42Seq atomic.Int64
var c42NoReturn atomic.Int32

// scheduling latency allowed around a timer deadline (ms); must equal Drive/C42.lean `margin`
const c42Margin = 40

type c42Listener struct {
	kind     string
	idle     time.Duration
	path     string // unix
	addr     string
	done     chan struct{}
	err      error
	returned atomic.Bool
	retAt    time.Time
	conns    map[int]net.Conn
	lastZero time.Time // when the last client connection was closed by the script
	t0       time.Time // clock origin of the script's @ms stamps
	zeroMs   int       // @ms stamp of the close that brought the open count to zero (-1: none)
	void     bool
	curMs    int
	modeAtReady int
	gcRestore   func()
	srv      *vgirpc.Server
	hookFail atomic.Bool
	segs     map[int]*vgirpc.ShmSegment
}

func c42Start(kind string, idleMs int) (*c42Listener, error) {
	l := &c42Listener{kind: kind, idle: time.Duration(idleMs) * time.Millisecond, done: make(chan struct{}), conns: map[int]net.Conn{}, zeroMs: -1}
	srv := c42Server(&l.hookFail)
	l.srv = srv
	l.segs = map[int]*vgirpc.ShmSegment{}
	ready := make(chan string, 1)
	if kind == "unix" {
		l.path = fmt.Sprintf("%s/verif-c42-%d-%d.sock", os.TempDir(), os.Getpid(), c42Seq.Add(1))
		// a stale file must be replaced
		_ = os.WriteFile(l.path, []byte("stale"), 0o644)
		go func() {
			l.err = srv.RunUnix(l.path, l.idle, func(p string) {
				// the readiness instant: from here on clients may connect, so the file must be owner-only NOW
				if st, err := os.Lstat(p); err == nil {
					l.modeAtReady = int(st.Mode().Perm())
				} else {
					l.modeAtReady = -1
				}
				ready <- p
			})
			l.retAt = time.Now()
			l.returned.Store(true)
			close(l.done)
		}()
	} else {
		go func() {
			l.err = srv.RunTcp("127.0.0.1", 0, l.idle, func(h string, p int) { ready <- net.JoinHostPort(h, strconv.Itoa(p)) })
			l.retAt = time.Now()
			l.returned.Store(true)
			close(l.done)
		}()
	}
	select {
	case a := <-ready:
		l.addr = a
		return l, nil
	case <-l.done:
		return nil, fmt.Errorf("listener returned before binding: %v", l.err)
	case <-time.After(10 * time.Second):
		return nil, fmt.Errorf("listener did not come up")
	}
}

func (l *c42Listener) network() string {
	if l.kind == "unix" {
		return "unix"
	}
	return "tcp"
}

func (l *c42Listener) mode() string {
	if l.kind != "unix" {
		return "mode=-"
	}
	st, err := os.Lstat(l.path)
	if err != nil {
		return "mode=-"
	}
	return fmt.Sprintf("mode=%d", int(st.Mode().Perm()))
}

var c42ReqCache sync.Map

func c42Request(n int) []byte {
	if b, ok := c42ReqCache.Load(n); ok {
		return b.([]byte)
	}
	mem := memory.NewGoAllocator()
	schema := arrow.NewSchema([]arrow.Field{{Name: "n", Type: arrow.PrimitiveTypes.Int64}}, nil)
	bld := array.NewInt64Builder(mem)
	bld.Append(int64(n))
	col := bld.NewArray()
	bld.Release()
	batch := array.NewRecordBatch(schema, []arrow.Array{col}, 1)
	col.Release()
	var buf strings.Builder
	if err := vgirpc.WriteRequest(&buf, "echo", batch, ""); err != nil {
		panic(err)
	}
	batch.Release()
	b := []byte(buf.String())
	c42ReqCache.Store(n, b)
	return b
}

// c42RawRequest builds an echo request by hand: extra custom metadata (segment advertisement), or a
// zero-row pointer batch (parameters live in shared memory at off/length).
func c42RawRequest(x int, extra map[string]string, pointer bool, off uint64, length int) []byte {
	mem := memory.NewGoAllocator()
	schema := arrow.NewSchema([]arrow.Field{{Name: "n", Type: arrow.PrimitiveTypes.Int64}}, nil)
	keys := []string{vgirpc.MetaMethod, vgirpc.MetaRequestVersion}
	vals := []string{"echo", vgirpc.ProtocolVersion}
	for k, v := range extra {
		keys = append(keys, k)
		vals = append(vals, v)
	}
	bld := array.NewInt64Builder(mem)
	rows := int64(1)
	if pointer {
		rows = 0
		keys = append(keys, vgirpc.MetaShmOffset, vgirpc.MetaShmLength)
		vals = append(vals, strconv.FormatUint(off, 10), strconv.Itoa(length))
	} else {
		bld.Append(int64(x))
	}
	col := bld.NewArray()
	bld.Release()
	batch := array.NewRecordBatchWithMetadata(schema, []arrow.Array{col}, rows, arrow.NewMetadata(keys, vals))
	col.Release()
	defer batch.Release()
	var buf strings.Builder
	w := ipc.NewWriter(&buf, ipc.WithSchema(schema))
	if err := w.Write(batch); err != nil {
		panic(err)
	}
	_ = w.Close()
	return []byte(buf.String())
}

func c42ParamsBatch(x int) arrow.RecordBatch {
	mem := memory.NewGoAllocator()
	schema := arrow.NewSchema([]arrow.Field{{Name: "n", Type: arrow.PrimitiveTypes.Int64}}, nil)
	bld := array.NewInt64Builder(mem)
	bld.Append(int64(x))
	col := bld.NewArray()
	bld.Release()
	b := array.NewRecordBatch(schema, []arrow.Array{col}, 1)
	col.Release()
	return b
}

func c42Send(conn net.Conn, x int) error {
	_ = conn.SetWriteDeadline(time.Now().Add(5 * time.Second))
	_, err := conn.Write(c42Request(x))
	return err
}

// read exactly one response stream; returns the int64 of the first non-empty batch
func c42Recv(conn net.Conn) (int64, error) { return c42RecvT(conn, 5*time.Second) }

func c42RecvT(conn net.Conn, d time.Duration) (int64, error) {
	_ = conn.SetReadDeadline(time.Now().Add(d))
	rdr, err := ipc.NewReader(conn)
	if err != nil {
		return 0, err
	}
	defer rdr.Release()
	var v int64
	got := false
	for rdr.Next() {
		rec := rdr.RecordBatch()
		if rec.NumRows() > 0 && rec.NumCols() > 0 {
			if col, ok := rec.Column(0).(*array.Int64); ok {
				v, got = col.Value(0), true
			}
		}
	}
	if err := rdr.Err(); err != nil {
		return 0, err
	}
	if !got {
		return 0, fmt.Errorf("no value in response")
	}
	return v, nil
}

func (l *c42Listener) cleanup() {
	if l.gcRestore != nil {
		l.gcRestore()
	}
	l.hookFail.Store(false)
	for _, c := range l.conns {
		_ = c.Close()
	}
	for _, sg := range l.segs {
		_ = sg.Close()
	}
	if l.idle > 0 {
		// every connection is closed: the listener goes idle and returns by itself (unless it never
		// saw a connection, in which case only the >= 60 s grace timer is armed: nudge it once)
		select {
		case <-l.done:
		case <-time.After(50 * time.Millisecond):
			if c, err := net.DialTimeout(l.network(), l.addr, time.Second); err == nil {
				_ = c.Close()
			}
			grace := l.idle + 3*time.Second
			if c42NoReturn.Load() >= 3 {
				grace = l.idle + 200*time.Millisecond
			}
			select {
			case <-l.done:
			case <-time.After(grace):
				c42NoReturn.Add(1)
			}
		}
	}
	if l.kind == "unix" {
		_ = os.Remove(l.path) // only a listener without idle timeout can still own it
	}
}

func c42Exec(c *Case) {
	var l *c42Listener
	defer func() {
		if l != nil {
			l.cleanup()
		}
	}()
	for _, line := range c.Lines {
		f := strings.Fields(line)
		if len(f) == 0 {
			continue
		}
		if l == nil {
			if f[0] != "listen" || len(f) != 3 || (f[1] != "unix" && f[1] != "tcp") {
				c.Out(line, "bad-op")
				continue
			}
			ms, err := strconv.Atoi(f[2])
			if err != nil || ms < 0 {
				c.Out(line, "bad-op")
				continue
			}
			nl, err := c42Start(f[1], ms)
			if err != nil {
				c.Oracle("listener-start", err.Error())
				c.Out(line, "err:start")
				continue
			}
			l = nl
			l.t0 = time.Now()
			m := l.mode()
			if l.kind == "unix" && l.modeAtReady != 0o600 {
				c.Oracle("socket-mode-not-owner-only-at-ready", fmt.Sprintf("at the readiness callback (onBound) the socket file had mode %#o, want owner-only 0600", l.modeAtReady))
				m = fmt.Sprintf("mode=%d", l.modeAtReady)
			}
			if l.kind == "unix" && m != "mode=384" {
				c.Oracle("socket-mode", fmt.Sprintf("socket file is %s after bind, want owner-only 0600", m))
			}
			c.Stat("listen-" + f[1])
			c.Out(line+" @0", "bound "+m)
			continue
		}
		// the script's clock: every line carries the time at which it starts
		tau := int(time.Since(l.t0) / time.Millisecond)
		stamped := fmt.Sprintf("%s @%d", line, tau)
		if l.void {
			c.Out(stamped, "void")
			continue
		}
		// an armed idle timer (no open connection): too close to its deadline nothing can be predicted
		if l.idle > 0 && len(l.conns) == 0 && l.zeroMs >= 0 && !(len(f) == 1 && f[0] == "idle") {
			deadline := l.zeroMs + int(l.idle/time.Millisecond)
			if tau < deadline+c42Margin && deadline < tau+c42Margin {
				l.void = true
				c.Stat("void")
				c.Out(stamped, "void")
				continue
			}
			if tau >= deadline+c42Margin {
				l.zeroMs = -1 // the timer has expired by now (the model lets it expire here as well)
			}
			if tau < deadline && (f[0] == "conn" || f[0] == "stat") && l.returned.Load() {
				c.Oracle("returned-before-idle-period", fmt.Sprintf("listener returned %d ms after the last close although the idle timeout is %v", tau-l.zeroMs, l.idle))
			}
		}
		l.curMs = tau
		c.Out(stamped, c42Line(c, l, line, f))
	}
}

func c42Line(c *Case, l *c42Listener, line string, f []string) string {
	connOf := func(s string) (int, net.Conn, bool) {
		n, err := strconv.Atoi(s)
		if err != nil {
			return 0, nil, false
		}
		return n, l.conns[n], true
	}
	switch {
	case f[0] == "conn" && len(f) == 2:
		n, old, ok := connOf(f[1])
		if !ok {
			return "bad-op"
		}
		if old != nil {
			return "refused"
		}
		conn, err := net.DialTimeout(l.network(), l.addr, 2*time.Second)
		if err != nil {
			if l.idle > 0 && len(l.conns) == 0 && l.zeroMs >= 0 && l.curMs+c42Margin <= l.zeroMs+int(l.idle/time.Millisecond) {
				c.Oracle("returned-before-idle-period", fmt.Sprintf("dial refused %d ms after the last close: the listener stopped although the idle timeout is %v", l.curMs-l.zeroMs, l.idle))
			}
			return "refused"
		}
		if err := c42Send(conn, 0); err != nil {
			_ = conn.Close()
			return "refused"
		}
		v, err := c42Recv(conn)
		if err != nil {
			_ = conn.Close()
			return "refused"
		}
		l.conns[n] = conn
		c.Stat("conn")
		return fmt.Sprintf("ok %d", v)
	case f[0] == "send" && len(f) == 3:
		_, conn, ok := connOf(f[1])
		x, err := strconv.Atoi(f[2])
		if !ok || err != nil || x < 0 {
			return "bad-op"
		}
		if conn == nil {
			return "err:closed"
		}
		if err := c42Send(conn, x); err != nil {
			return "err:closed"
		}
		c.Stat("send")
		return "ok"
	case f[0] == "recv" && len(f) == 2:
		_, conn, ok := connOf(f[1])
		if !ok {
			return "bad-op"
		}
		if conn == nil {
			return "err:nothing"
		}
		v, err := c42RecvT(conn, 2*time.Second)
		if err != nil {
			return "err:nothing"
		}
		c.Stat("recv")
		return fmt.Sprintf("resp %d", v)
	case f[0] == "call" && len(f) == 3:
		_, conn, ok := connOf(f[1])
		x, err := strconv.Atoi(f[2])
		if !ok || err != nil || x < 0 {
			return "bad-op"
		}
		if conn == nil {
			return "err:closed"
		}
		if err := c42Send(conn, x); err != nil {
			return "err:closed"
		}
		v, err := c42Recv(conn)
		if err != nil {
			return "err:nothing"
		}
		if v != int64(x)+1000 {
			c.Oracle("response-from-other-call", fmt.Sprintf("%q: connection answered %d, want %d", line, v, x+1000))
		}
		c.Stat("call")
		return fmt.Sprintf("resp %d", v)
	case f[0] == "close" && len(f) == 2:
		n, conn, ok := connOf(f[1])
		if !ok {
			return "bad-op"
		}
		if conn == nil {
			return "err:closed"
		}
		before := time.Now() // taken BEFORE the close: the server cannot arm its timer earlier than this
		_ = conn.Close()
		delete(l.conns, n)
		if len(l.conns) == 0 {
			l.lastZero = before
			l.zeroMs = l.curMs
		}
		c.Stat("close")
		return "ok"
	case f[0] == "idle" && len(f) == 1:
		open := len(l.conns)
		wait := min(2*l.idle+15*time.Millisecond, 70*time.Millisecond)
		if l.idle > 0 && open == 0 && !l.lastZero.IsZero() {
			wait = l.idle + 1500*time.Millisecond // it must return; waiting ends as soon as it does
			if c42NoReturn.Load() >= 3 {
				wait = l.idle + 150*time.Millisecond // it evidently never does (defect already reported): stop paying for it
			}
		}
		if l.idle == 0 {
			wait = 60 * time.Millisecond
		}
		select {
		case <-l.done:
		case <-time.After(wait):
		}
		if l.returned.Load() {
			l.zeroMs = -1
			c.Stat("idle-returned")
			if open > 0 {
				c.Oracle("stopped-while-open", fmt.Sprintf("listener returned while %d connection(s) were open", open))
			}
			if l.idle == 0 {
				c.Oracle("stopped-without-idle-timeout", "listener returned although no idle timeout is configured")
			}
			if !l.lastZero.IsZero() && l.retAt.Sub(l.lastZero) < l.idle*8/10 {
				c.Oracle("returned-before-idle-period", fmt.Sprintf("listener returned %v after the last close, idle timeout is %v", l.retAt.Sub(l.lastZero), l.idle))
			}
			m := l.mode()
			if l.kind == "unix" && m != "mode=-" {
				c.Oracle("socket-not-removed", "RunUnix returned but the socket file still exists")
			}
			return "returned " + m
		}
		if l.idle > 0 && open == 0 && !l.lastZero.IsZero() {
			c42NoReturn.Add(1)
		}
		c.Stat("idle-serving")
		// still serving: with open connections it must also still ACCEPT
		if open > 0 {
			if pc, err := net.DialTimeout(l.network(), l.addr, time.Second); err != nil {
				c.Oracle("stopped-while-open", fmt.Sprintf("listener no longer accepts although %d connection(s) are open: %v", open, err))
				return "closed " + l.mode()
			} else {
				// the probe is a connection too: give it one round trip so that it is counted, then close
				// it while the scripted connections keep the counter above zero
				if c42Send(pc, 0) == nil {
					_, _ = c42Recv(pc)
				}
				_ = pc.Close()
			}
		}
		return "serving " + l.mode()
	case f[0] == "hook" && len(f) == 2:
		if f[1] != "ok" && f[1] != "fail" {
			return "bad-op"
		}
		l.hookFail.Store(f[1] == "fail")
		c.Stat("hook-" + f[1])
		return "ok"
	case f[0] == "rebind" && len(f) == 1:
		// the same Server also serves a pipe: the transport binding moves to "pipe", so the next socket
		// connection re-fires the serve-start hook
		l.srv.Serve(strings.NewReader(""), &strings.Builder{})
		c.Stat("rebind")
		return "ok"
	case f[0] == "connx" && len(f) == 2:
		n, old, ok := connOf(f[1])
		if !ok {
			return "bad-op"
		}
		if old != nil {
			return "refused"
		}
		before := time.Now()
		// A connection the server forgot to close is eventually closed by the garbage collector's
		// finalizer, which would hide the defect behind GC timing: keep the collector off while looking.
		gcOld := debug.SetGCPercent(-1)
		restoreGC := func() { debug.SetGCPercent(gcOld) }
		conn, err := net.DialTimeout(l.network(), l.addr, 2*time.Second)
		if err != nil {
			restoreGC()
			return "refused"
		}
		res := "hookrefused"
		leftOpen := false
		if c42Send(conn, 0) == nil {
			r0 := time.Now()
			v, err := c42RecvT(conn, 400*time.Millisecond)
			if err == nil {
				res = fmt.Sprintf("ok %d", v) // it was served after all
			} else if time.Since(r0) >= 390*time.Millisecond {
				// a refused connection must be hung up by the server at once (the client reads EOF)
				leftOpen = true
				c.Oracle("refused-connection-left-open", fmt.Sprintf("%q: the serve-start hook refused the connection but the server did not close it (no EOF within 400 ms)", line))
			}
		}
		if leftOpen {
			l.conns[n] = conn // from the client's side it IS still open
			l.gcRestore = restoreGC // the collector stays off until the end of the case
			c.Stat("connx")
			return "leftopen"
		}
		restoreGC()
		_ = conn.Close()
		if len(l.conns) == 0 {
			l.lastZero = before
			l.zeroMs = l.curMs
		}
		c.Stat("connx")
		return res
	case (f[0] == "shm" || f[0] == "pcall") && len(f) == 3:
		n, conn, ok := connOf(f[1])
		x, err := strconv.Atoi(f[2])
		if !ok || err != nil || x < 0 {
			return "bad-op"
		}
		if f[0] == "pcall" && l.segs[n] == nil {
			return "err:noseg"
		}
		if conn == nil {
			return "err:closed"
		}
		var body []byte
		var decoys [][2]any
		if f[0] == "shm" {
			sg := l.segs[n]
			if sg == nil {
				var err error
				sg, err = vgirpc.ShmCreate(vgirpc.ShmHeaderSize + 1<<16)
				if err != nil {
					c.Oracle("listener-start", "ShmCreate: "+err.Error())
					return "err:shm"
				}
				l.segs[n] = sg
			}
			body = c42RawRequest(x, map[string]string{vgirpc.MetaShmSegmentName: sg.Name(), vgirpc.MetaShmSegmentSize: strconv.Itoa(sg.Size())}, false, 0, 0)
		} else {
			pb := c42ParamsBatch(x)
			off, length, okw, werr := l.segs[n].AllocateAndWrite(pb)
			pb.Release()
			if werr != nil || !okw {
				return "err:shm"
			}
			// every other connection's segment holds different parameters at the same place
			for d, sg := range l.segs {
				if d == n {
					continue
				}
				db := c42ParamsBatch(x + 500)
				if o2, _, ok2, e2 := sg.AllocateAndWrite(db); e2 == nil && ok2 {
					decoys = append(decoys, [2]any{sg, o2})
				}
				db.Release()
			}
			body = c42RawRequest(x, nil, true, off, length)
		}
		_ = conn.SetWriteDeadline(time.Now().Add(5 * time.Second))
		if _, err := conn.Write(body); err != nil {
			return "err:closed"
		}
		v, rerr := c42Recv(conn)
		for _, dc := range decoys {
			_ = dc[0].(*vgirpc.ShmSegment).FreeOffset(dc[1].(uint64))
		}
		if rerr != nil {
			return "err:nothing"
		}
		if v == int64(x)+1500 {
			c.Oracle("connection-saw-other-connections-data", fmt.Sprintf("%q: the pointer request of connection %d was resolved through another connection's shared-memory segment (answer %d, own data would give %d)", line, n, v, x+1000))
		} else if v != int64(x)+1000 {
			c.Oracle("response-from-other-call", fmt.Sprintf("%q: connection answered %d, want %d", line, v, x+1000))
		}
		c.Stat(f[0])
		return fmt.Sprintf("resp %d", v)
	case f[0] == "wait" && len(f) == 2:
		n, err := strconv.Atoi(f[1])
		if err != nil || n < 0 {
			return "bad-op"
		}
		time.Sleep(time.Duration(n) * time.Millisecond)
		c.Stat("wait")
		return "ok"
	case f[0] == "stat" && len(f) == 1:
		m := l.mode()
		if l.returned.Load() {
			return "closed " + m
		}
		if l.kind == "unix" && m != "mode=384" {
			c.Oracle("socket-mode", fmt.Sprintf("socket file is %s while serving, want owner-only 0600", m))
		}
		return "accepting " + m
	case f[0] == "storm" && len(f) == 3:
		nc, e1 := strconv.Atoi(f[1])
		nk, e2 := strconv.Atoi(f[2])
		if e1 != nil || e2 != nil || nc < 1 || nk < 1 {
			return "bad-op"
		}
		c.Stat("storm")
		return c42Storm(c, l.kind, nc, nk)
	}
	return "bad-op"
}

// concurrent search: nc clients hammer a private listener with interleaved calls; every client
// checks that each answer is the answer to ITS request
func c42Storm(c *Case, kind string, nc, nk int) string {
	pl, err := c42Start(kind, 25)
	if err != nil {
		c.Oracle("listener-start", err.Error())
		return "err:start"
	}
	var mixed, lost atomic.Int64
	var wg sync.WaitGroup
	hold, err := net.DialTimeout(pl.network(), pl.addr, 2*time.Second) // keeps the counter above zero
	if err == nil {
		_ = c42Send(hold, 0)
		_, _ = c42Recv(hold)
	}
	for i := 0; i < nc; i++ {
		wg.Add(1)
		go func(i int) {
			defer wg.Done()
			conn, err := net.DialTimeout(pl.network(), pl.addr, 2*time.Second)
			if err != nil {
				lost.Add(1)
				return
			}
			defer conn.Close()
			for k := 0; k < nk; k++ {
				x := i*100000 + k
				// pipeline two requests now and then
				if k%3 == 2 {
					if c42Send(conn, x) != nil || c42Send(conn, x+50000) != nil {
						lost.Add(1)
						return
					}
					v1, e1 := c42Recv(conn)
					v2, e2 := c42Recv(conn)
					if e1 != nil || e2 != nil {
						lost.Add(1)
						return
					}
					if v1 != int64(x)+1000 || v2 != int64(x)+51000 {
						mixed.Add(1)
					}
					continue
				}
				if c42Send(conn, x) != nil {
					lost.Add(1)
					return
				}
				v, err := c42Recv(conn)
				if err != nil {
					lost.Add(1)
					return
				}
				if v != int64(x)+1000 {
					mixed.Add(1)
				}
			}
		}(i)
	}
	wg.Wait()
	if pl.returned.Load() {
		c.Oracle("stopped-while-open", "storm: listener returned while the holding connection was open")
	}
	if hold != nil {
		_ = hold.Close()
	}
	pl.lastZero = time.Now()
	select {
	case <-pl.done:
		if m := pl.mode(); kind == "unix" && m != "mode=-" {
			c.Oracle("socket-not-removed", "storm: RunUnix returned but the socket file still exists")
		}
	case <-time.After(5 * time.Second):
		c.Oracle("idle-shutdown-missing", "storm: listener did not return within 5 s of its last connection closing (idle timeout 25 ms)")
		pl.cleanup()
	}
	if mixed.Load() > 0 {
		c.Oracle("response-from-other-call", fmt.Sprintf("storm: %d answers did not belong to the request sent on that connection", mixed.Load()))
	}
	if lost.Load() > 0 {
		c.Oracle("connection-lost", fmt.Sprintf("storm: %d client(s) lost their connection or got no answer", lost.Load()))
	}
	return fmt.Sprintf("ok mixed=%d lost=%d", mixed.Load(), lost.Load())
}

// ---------------------------------------------------------------- generator

func c42Gen(g *Gen) {
	r := g.Rng
	n := g.N(140, 2500)
	for i := 0; i < n; i++ {
		kind := Pick(r, []string{"unix", "unix", "tcp"})
		idle := Pick(r, []int{20, 30, 50, 20, 30, 0})
		if i%12 != 0 && idle == 0 {
			idle = 30 // a listener without idle timeout can never be stopped: keep those few
		}
		lines := []string{fmt.Sprintf("listen %s %d", kind, idle), "stat"}
		open := []int{}
		hasSeg := map[int]bool{}
		pending := map[int]int{} // sent, not yet received
		next := 1
		x := 1
		steps := r.Range(4, 18)
		everOpen := false
		negIdle := 0
		for k := 0; k < steps; k++ {
			switch y := r.Intn(100); {
			case y < 22 && next <= 5:
				if idle > 0 && everOpen && len(open) == 0 {
					continue // would race the re-armed idle timer
				}
				lines = append(lines, fmt.Sprintf("conn %d", next))
				if r.Chance(30) {
					lines = append(lines, fmt.Sprintf("shm %d %d", next, x))
					hasSeg[next] = true
					x += r.Range(1, 7)
				}
				open = append(open, next)
				next++
				everOpen = true
			case y < 45 && len(open) > 0:
				c := Pick(r, open)
				if pending[c] > 0 {
					lines = append(lines, fmt.Sprintf("recv %d", c))
					pending[c]--
				} else if hasSeg[c] && r.Chance(60) {
					lines = append(lines, fmt.Sprintf("pcall %d %d", c, x))
					x += r.Range(1, 7)
				} else {
					lines = append(lines, fmt.Sprintf("call %d %d", c, x))
					x += r.Range(1, 7)
				}
			case y < 62 && len(open) > 0:
				c := Pick(r, open)
				if pending[c] < 2 {
					lines = append(lines, fmt.Sprintf("send %d %d", c, x))
					x += r.Range(1, 7)
					pending[c]++
				}
			case y < 75 && len(open) > 0:
				c := Pick(r, open)
				if pending[c] > 0 {
					lines = append(lines, fmt.Sprintf("recv %d", c))
					pending[c]--
				}
			case y < 88 && len(open) > 0:
				if idle > 0 && len(open) == 1 {
					continue // the last close ends the script (below)
				}
				j := r.Intn(len(open))
				c := open[j]
				for pending[c] > 0 { // drain first so that the close is a clean EOF between requests
					lines = append(lines, fmt.Sprintf("recv %d", c))
					pending[c]--
				}
				lines = append(lines, fmt.Sprintf("close %d", c))
				open = append(open[:j], open[j+1:]...)
			case y < 94:
				if (len(open) > 0 || idle == 0 || !everOpen) && negIdle < 2 {
					lines = append(lines, "idle") // must keep serving
					negIdle++
				}
			default:
				lines = append(lines, "stat")
			}
		}
		// wind down: close everything in random order, then the idle period
		for len(open) > 0 {
			j := r.Intn(len(open))
			c := open[j]
			for pending[c] > 0 {
				lines = append(lines, fmt.Sprintf("recv %d", c))
				pending[c]--
			}
			if len(open) > 1 && r.Chance(30) && negIdle < 3 {
				lines = append(lines, "idle")
				negIdle++
			}
			lines = append(lines, fmt.Sprintf("close %d", c))
			open = append(open[:j], open[j+1:]...)
		}
		lines = append(lines, "idle", "stat")
		if everOpen && idle > 0 {
			lines = append(lines, fmt.Sprintf("conn %d", next), "idle")
		}
		g.Case(lines...)
	}
	// reconnects relative to the idle timer: close (arms T), reconnect within T, close again — the idle
	// period restarts at the LAST close: a dial 0.75 T later must be served, the listener may return
	// only a full T after it
	rc := g.N(8, 80)
	for i := 0; i < rc; i++ {
		kind := Pick(r, []string{"tcp", "unix", "tcp"})
		T := Pick(r, []int{400, 500})
		lines := []string{fmt.Sprintf("listen %s %d", kind, T), "conn 1", "call 1 1", "close 1",
			fmt.Sprintf("wait %d", T*45/100), "conn 2", "call 2 2", "close 2"}
		switch r.Intn(3) {
		case 0:
			lines = append(lines, "idle", "stat")
		case 1:
			lines = append(lines, fmt.Sprintf("wait %d", T*75/100), "conn 3", "call 3 3", "close 3", "idle", "stat")
		default:
			lines = append(lines, fmt.Sprintf("wait %d", T*30/100), "conn 3", "close 3", fmt.Sprintf("wait %d", T*75/100), "stat", "conn 4", "call 4 4", "close 4", "idle")
		}
		g.Case(lines...)
	}
	// connections refused by the serve-start hook, interleaved with healthy open connections; and two
	// connections with their own shared-memory segments
	hk := g.N(12, 120)
	for i := 0; i < hk; i++ {
		kind := Pick(r, []string{"tcp", "unix", "tcp"})
		T := Pick(r, []int{20, 30})
		var lines []string
		switch r.Intn(3) {
		case 0:
			lines = []string{fmt.Sprintf("listen %s %d", kind, T), "conn 1", "call 1 1", "rebind", "hook fail", "connx 2"}
			if r.Chance(30) {
				lines = append(lines, "connx 3")
			}
			lines = append(lines, "hook ok", "idle", "stat", "call 1 2", "conn 4", "call 4 3", "idle", "close 1", "close 4", "idle", "stat")
		case 1:
			lines = []string{fmt.Sprintf("listen %s %d", kind, T), "hook fail", "connx 1", "idle", "stat"}
		default:
			lines = []string{fmt.Sprintf("listen %s %d", kind, T), "conn 1", "shm 1 10", "conn 2", "shm 2 20", "pcall 1 11", "pcall 2 21",
				"conn 3", "pcall 1 12", "shm 3 30", "pcall 2 22", "pcall 1 13", "pcall 3 31", "close 2", "pcall 1 14", "close 1", "close 3", "idle"}
		}
		g.Case(lines...)
	}
	s := g.N(4, 40)
	for i := 0; i < s; i++ {
		g.Case(fmt.Sprintf("listen %s 30", Pick(r, []string{"unix", "tcp"})), fmt.Sprintf("storm %d %d", r.Range(2, 8), r.Range(3, 12)))
	}
}
