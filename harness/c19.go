package main

import (
	"bytes"
	"fmt"
	"regexp"
	"strconv"
	"strings"

	"github.com/apache/arrow-go/v18/arrow"
	"github.com/apache/arrow-go/v18/arrow/array"
	"github.com/apache/arrow-go/v18/arrow/ipc"
	"github.com/apache/arrow-go/v18/arrow/memory"

	"github.com/Query-farm/vgi-rpc-go/vgirpc"
)

// C19 — response size caps hold on every response.
//
// Every request is first run on an uncapped TWIN server (same methods, same token key, own
// storage): its answer gives the would-be body size, the per-batch wire sizes, the buffer sizes
// and the raw upload sizes — environment values that do not depend on any cap decision. Caps
// written relative to those figures are resolved, set on the REAL server, and the request is run
// there. The Lean model gets the resolved caps and the sizes and decides on its own.
//
//	cfg cache=<0|1> limit=<n> ext=<0|1> thr=<n> zstd=<0|1>
//	u <logs> <size> <ok|fail|panic> <wcap> <ecap>            unary call of method "un"
//	init 0 <ex|pr> <cancel> <prog> [H<n>] <wcap> <ecap>      H<n>: the method returns a stream header carrying n extra bytes
//	                                                         (written in front of the data stream when cfg hdr=1; counts against the wire cap)
//	x 0 <ex|pr> <schema> <vals> <khex>=<val>… <wcap> <ecap>
//	drain <T<i>> <wcap>                                      last line: follow the tokens to the end
//
//	wcap := w0 | w<n> | w~<k>:<d>   (body after k cycles of the twin's answer, k=0: whole body) + d
//	ecap := e0 | e<n> | e~<k>:<d>   (raw bytes of the twin's first k uploads, k=0: all) + d
//	             | e^<k>:<d>        (raw bytes of the first k-1 uploads + buffer size of the k-th) + d; k=0: the last upload

func init() {
	Register(&Prop{
		ID: "C19",
		Rule: "unary / exchange / producer calls against a capped in-process HttpServer and an uncapped twin; caps absolute (0, 1, huge) or placed " +
			"relative to the twin's measured sizes (body after k cycles, raw upload totals, pre-flight threshold) with offsets -1/0/+1 and others; " +
			"batch counts and sizes around the externalize threshold, inline or uploaded (zstd on/off), logs before/after the data batch, failing cycles; " +
			"producer histories end with a drain that follows the continuation tokens. Non-trivial = at least one capped request (cap != 0); distinct = distinct scripts",
		Gen:  c19Gen,
		Exec: c19Exec,
		NonTrivial: func(lines []string) bool {
			for _, l := range lines {
				f := strings.Fields(l)
				for _, w := range f {
					if (strings.HasPrefix(w, "w") || strings.HasPrefix(w, "e")) && len(w) > 1 && w != "w0" && w != "e0" &&
						(w[1] == '~' || w[1] == '^' || (w[1] >= '1' && w[1] <= '9')) {
						return true
					}
				}
			}
			return false
		},
	})
}

// ipcMessageSizes returns the sizes of the successive IPC messages of ONE stream at the start of
// body: the schema message, every record batch message, and the end-of-stream marker.
func ipcMessageSizes(body []byte) (schema int, batches []int, eos int, ok bool) {
	r := bytes.NewReader(body)
	mr := ipc.NewMessageReader(r)
	defer mr.Release()
	for {
		before := r.Len()
		m, err := mr.Message()
		if err != nil {
			eos = before - r.Len()
			return schema, batches, eos, r.Len() == 0
		}
		n := before - r.Len()
		switch m.Type() {
		case ipc.MessageSchema:
			schema = n
		case ipc.MessageRecordBatch:
			batches = append(batches, n)
		default:
			return schema, batches, 0, false
		}
	}
}

// twinFacts are the environment values measured on the uncapped twin for one request.
type twinFacts struct {
	res        *httpResult
	body       int     // whole response body
	body0      int     // bytes in front of the data stream (the header stream of an /init answer)
	sizes      []int   // wire size of every batch (schema message folded into the first)
	cycles     []int   // batches per handler cycle (logs + data, or 1 for the error batch)
	bufs       []int64 // buffer size of each cycle's data batch (0: none)
	rows       []int
	raws       []int64 // raw upload size of each cycle's data batch (0: inline)
	uploadRaws []int64 // raw sizes of the uploads in order
	eos        int
}

func (t *twinFacts) bodyAfter(k int) int {
	if k <= 0 || k >= len(t.cycles) {
		return t.body
	}
	n, total := 0, t.body0
	for i := 0; i < k; i++ {
		n += t.cycles[i]
	}
	for i := 0; i < n && i < len(t.sizes); i++ {
		total += t.sizes[i]
	}
	return total
}

type c19Env struct {
	cfg  streamCfg
	real *streamEnv
	twin *streamEnv
}

func newC19Env(cfg streamCfg) *c19Env {
	cfg.maxResp, cfg.maxExt = 0, 0
	return &c19Env{cfg: cfg, real: newStreamEnv(cfg), twin: newStreamEnv(cfg)}
}

func (e *c19Env) close() { e.real.close(); e.twin.close() }

// measure runs a request on the twin and derives the environment facts.
func (e *c19Env) measure(path string, body []byte) *twinFacts {
	upBefore := 0
	if e.twin.store != nil {
		upBefore = e.twin.store.count()
	}
	e.twin.rec.take()
	e.real.rec.take()
	res := e.twin.post(0, path, body, nil)
	calls := append(e.twin.rec.take(), e.real.rec.take()...)
	f := &twinFacts{body: len(res.body), res: res, body0: headerStreamLen(res.body)}
	schema, sizes, eos, _ := ipcMessageSizes(res.body[f.body0:])
	f.eos = eos
	if len(sizes) > 0 {
		sizes[0] += schema
	}
	f.sizes = sizes
	bi := 0
	if f.body0 > 0 {
		for bi < len(res.batches) && res.batches[bi].stream == 0 {
			bi++ // the header stream's batches
		}
	}
	up := upBefore
	for _, c := range calls {
		if c.Kind == "cancel" {
			continue
		}
		n := 1 // error batch
		if c.Outcome == "ok" && (c.Emitted > 0 || c.Finished) {
			n = c.Logs + c.Emitted
		}
		f.cycles = append(f.cycles, n)
		f.bufs = append(f.bufs, c.BufSize)
		f.rows = append(f.rows, c.Rows)
		raw := int64(0)
		for j := bi; j < bi+n && j < len(res.batches); j++ {
			b := res.batches[j]
			if _, isPtr := b.get(vgirpc.MetaLocation); isPtr && !b.isLog() && e.twin.store != nil {
				raw = int64(len(e.twin.store.raw(up)))
				up++
			}
		}
		if raw > 0 {
			f.uploadRaws = append(f.uploadRaws, raw)
		}
		f.raws = append(f.raws, raw)
		bi += n
	}
	return f
}

// resolveCaps turns the two cap words into absolute numbers using the twin's facts.
func resolveCaps(wcap, ecap string, f *twinFacts) (w, x int64, ok bool) {
	rel := func(s string) (k int, d int64, ok bool) {
		kd := strings.SplitN(s, ":", 2)
		if len(kd) != 2 {
			return 0, 0, false
		}
		kk, err1 := strconv.Atoi(kd[0])
		dd, err2 := strconv.ParseInt(kd[1], 10, 64)
		return kk, dd, err1 == nil && err2 == nil && kk >= 0
	}
	atLeast1 := func(n int64) int64 {
		if n < 1 {
			return 1
		}
		return n
	}
	if len(wcap) < 2 || wcap[0] != 'w' || len(ecap) < 2 || ecap[0] != 'e' {
		return 0, 0, false
	}
	switch wcap[1] {
	case '~':
		k, d, okk := rel(wcap[2:])
		if !okk {
			return 0, 0, false
		}
		w = atLeast1(int64(f.bodyAfter(k)) + d)
	default:
		n, err := strconv.ParseInt(wcap[1:], 10, 64)
		if err != nil || n < 0 {
			return 0, 0, false
		}
		w = n
	}
	sumFirst := func(k int) int64 { // raw bytes of the first k uploads
		var t int64
		for i, r := range f.uploadRaws {
			if i >= k {
				break
			}
			t += r
		}
		return t
	}
	switch ecap[1] {
	case '~':
		k, d, okk := rel(ecap[2:])
		if !okk {
			return 0, 0, false
		}
		if k == 0 {
			k = len(f.uploadRaws)
		}
		x = atLeast1(sumFirst(k) + d)
	case '^':
		k, d, okk := rel(ecap[2:])
		if !okk {
			return 0, 0, false
		}
		if k == 0 { // the LAST upload of the twin's answer
			k = len(f.uploadRaws)
			if k == 0 {
				k = 1
			}
		}
		var bufK int64 // buffer size of the k-th uploaded data batch
		n := 0
		for i, r := range f.raws {
			if r > 0 {
				n++
				if n == k {
					bufK = f.bufs[i]
				}
			}
		}
		x = atLeast1(sumFirst(k-1) + bufK + d)
	default:
		n, err := strconv.ParseInt(ecap[1:], 10, 64)
		if err != nil || n < 0 {
			return 0, 0, false
		}
		x = n
	}
	return w, x, true
}

func joinInts[T int | int64](xs []T) string {
	parts := make([]string, len(xs))
	for i, x := range xs {
		parts[i] = fmt.Sprint(x)
	}
	return strings.Join(parts, ".")
}

func (e *c19Env) setCaps(w, x int64) {
	e.real.hs[0].SetMaxResponseBytes(w)
	e.real.hs[0].SetMaxExternalizedResponseBytes(x)
}

// realFacts: what the capped server did for one request.
type realFacts struct {
	res     *httpResult
	calls   []*scriptCall
	uploads []int64 // raw sizes of the uploads this request made
	wire    int     // body length, or the figure a wire-cap refusal reports
	claimed int64   // figure of a cap refusal (0: none)
	capKind string  // "", capWire, capExt
}

func (e *c19Env) run(path string, body []byte) *realFacts {
	before := 0
	if e.real.store != nil {
		before = e.real.store.count()
	}
	e.real.rec.take()
	res := e.real.post(0, path, body, nil)
	rf := &realFacts{res: res, calls: e.real.rec.take()}
	if e.real.store != nil {
		for i := before; i < e.real.store.count(); i++ {
			rf.uploads = append(rf.uploads, int64(len(e.real.store.raw(i))))
		}
	}
	if res.status == 200 && !res.rpcErr {
		rf.wire = len(res.body)
	}
	for _, b := range res.batches {
		if !b.isException() {
			continue
		}
		msg, _ := b.get(vgirpc.MetaLogMessage)
		if m := capWireRe.FindStringSubmatch(msg); m != nil {
			rf.wire, _ = strconv.Atoi(m[1])
			rf.claimed, _ = strconv.ParseInt(m[1], 10, 64)
			rf.capKind = "capWire"
		} else if m := capExtRe.FindStringSubmatch(msg); m != nil {
			rf.claimed, _ = strconv.ParseInt(m[1], 10, 64)
			rf.capKind = "capExt"
		}
	}
	return rf
}

func (e *c19Env) unaryBody(logs, size int64, mode string) []byte {
	mem := memory.NewGoAllocator()
	lb := array.NewInt64Builder(mem)
	lb.Append(logs)
	sb := array.NewInt64Builder(mem)
	sb.Append(size)
	mb := array.NewStringBuilder(mem)
	mb.Append(mode)
	cols := []arrow.Array{lb.NewArray(), sb.NewArray(), mb.NewArray()}
	lb.Release()
	sb.Release()
	mb.Release()
	batch := array.NewRecordBatch(unaryParamsSchema, cols, 1)
	for _, c := range cols {
		c.Release()
	}
	defer batch.Release()
	var buf bytes.Buffer
	if err := vgirpc.WriteRequest(&buf, "un", batch, ""); err != nil {
		panic(err)
	}
	return buf.Bytes()
}

func posEvents(calls []*scriptCall) string {
	if len(calls) == 0 {
		return "-"
	}
	parts := make([]string, 0, len(calls))
	for _, c := range calls {
		switch c.Kind {
		case "exchange":
			parts = append(parts, fmt.Sprintf("E%d", c.Pos))
		case "produce":
			parts = append(parts, fmt.Sprintf("P%d", c.Pos))
		default:
			parts = append(parts, "K")
		}
	}
	return strings.Join(parts, ",")
}

func c19Exec(c *Case) {
	var e *c19Env
	defer func() {
		if e != nil {
			e.close()
		}
	}()
	ensure := func() {
		if e == nil {
			e = newC19Env(streamCfg{cache: true, instances: 1})
		}
	}
	for _, l := range c.Lines {
		f := strings.Fields(l)
		if len(f) == 0 {
			continue
		}
		switch f[0] {
		case "cfg":
			cfg, ok := parseStreamCfg(f[1:])
			if !ok || e != nil {
				c.Out(l, "err:bad-line")
				continue
			}
			e = newC19Env(cfg)
			c.Out(l, "ok")
		case "u":
			ensure()
			if len(f) != 6 {
				c.Out(l, "err:bad-line")
				continue
			}
			logs, err1 := strconv.ParseInt(f[1], 10, 64)
			size, err2 := strconv.ParseInt(f[2], 10, 64)
			if err1 != nil || err2 != nil || logs < 0 || size < 0 || (f[3] != "ok" && f[3] != "fail" && f[3] != "panic") {
				c.Out(l, "err:bad-line")
				continue
			}
			body := e.unaryBody(logs, size, f[3])
			tw := e.measure("/un", body)
			buf := int64(0)
			if f[3] == "ok" {
				buf, _ = e.real.srv.VerifC19ResultBufferSize("un", strings.Repeat("a", int(size)))
			}
			// a unary call has no handler cycles: its single "cycle" is the result batch
			tw.cycles, tw.bufs, tw.rows = []int{len(tw.sizes)}, []int64{buf}, []int{1}
			tw.raws = []int64{0}
			if e.twin.store != nil {
				for _, b := range tw.res.batches {
					if _, isPtr := b.get(vgirpc.MetaLocation); isPtr && !b.isLog() {
						tw.raws[0] = int64(len(e.twin.store.raw(e.twin.store.count() - 1)))
						tw.uploadRaws = []int64{tw.raws[0]}
					}
				}
			}
			w, x, ok := resolveCaps(f[4], f[5], tw)
			if !ok {
				c.Out(l, "err:bad-line")
				continue
			}
			e.setCaps(w, x)
			rf := e.run("/un", body)
			raw := tw.raws[0]
			if len(rf.uploads) > 0 {
				raw = rf.uploads[0]
			}
			c.Stat("unary-" + f[3])
			c.Out(fmt.Sprintf("u %s %s %s maxresp=%d maxext=%d wire=%d buf=%d raw=%d", f[1], f[2], f[3], w, x, rf.wire, buf, raw),
				e.real.renderResp(rf.res)+fmt.Sprintf(" | up=%d", len(rf.uploads)))
			c19HardOracle(c, l, "unary", w, x, rf, tw, buf)
		case "init", "x":
			ensure()
			if len(f) < 7 {
				c.Out(l, "err:bad-line")
				continue
			}
			wcap, ecap := f[len(f)-2], f[len(f)-1]
			core := f[:len(f)-2]
			var path string
			var body, twinBody []byte
			route := core[2]
			var keys, values []string
			hasHdrWord := false
			if f[0] == "init" {
				hdr, hpad := int64(0), int64(0)
				if len(core) == 6 && len(core[5]) >= 2 && core[5][0] == 'H' {
					n, err := strconv.ParseInt(core[5][1:], 10, 64)
					if err != nil || n < 0 || n > 1<<22 {
						c.Out(l, "err:bad-line")
						continue
					}
					hdr, hpad, hasHdrWord = 1, n, true
				} else if len(core) != 5 {
					c.Out(l, "err:bad-line")
					continue
				}
				if route != "ex" && route != "pr" {
					c.Out(l, "err:bad-line")
					continue
				}
				if _, err := parseScriptProg(core[4]); err != nil {
					c.Out(l, "err:bad-line")
					continue
				}
				path = "/" + route + "/init"
				body = e.real.initBodyPad(route, "", hdr, hpad, false, core[3], core[4])
				twinBody = e.twin.initBodyPad(route, "", hdr, hpad, false, core[3], core[4])
			} else {
				vals, okv := parseVals(core[4])
				var okm bool
				keys, values, _, okm = e.real.parseMetaWords(core[5:])
				if (route != "ex" && route != "pr") || !okv || !okm {
					c.Out(l, "err:bad-line")
					continue
				}
				path = "/" + route + "/exchange"
				body = exchangeBody(core[3], vals, keys, values)
				twinBody = body
			}
			tw := e.measure(path, twinBody)
			w, x, ok := resolveCaps(wcap, ecap, tw)
			if !ok {
				c.Out(l, "err:bad-line")
				continue
			}
			e.setCaps(w, x)
			before := len(e.real.tokens)
			rf := e.run(path, body)
			out := e.real.renderResp(rf.res)
			// raw sizes: the twin's per cycle; for a single exchange cycle the real upload (the
			// uploaded batch carries the real cursor)
			raws := append([]int64(nil), tw.raws...)
			if route == "ex" && f[0] == "x" && len(rf.uploads) > 0 && len(raws) > 0 {
				raws[0] = rf.uploads[0]
			}
			// wire sizes: a batch's size can vary by a few bytes with the (random) order of its
			// metadata keys, so the batches the real server flushed are measured on its own body;
			// the twin supplies the sizes of the batches beyond those.
			sizes := append([]int(nil), tw.sizes...)
			if route == "pr" {
				rs, rb, _, _ := ipcMessageSizes(rf.res.body[headerStreamLen(rf.res.body):])
				if len(rb) > 0 {
					rb[0] += rs
				}
				nReal := 0
				for _, k := range rf.calls {
					if k.Kind == "produce" && k.Outcome == "ok" && (k.Emitted > 0 || k.Finished) {
						nReal += k.Logs + k.Emitted
					}
				}
				for i := 0; i < nReal && i < len(rb) && i < len(sizes); i++ {
					sizes[i] = rb[i]
				}
			}
			c.Stat(f[0] + "-" + route)
			envWords := fmt.Sprintf("maxresp=%d maxext=%d wire=%d bufs=%s raws=%s sizes=%s", w, x, rf.wire,
				joinInts(tw.bufs), joinInts(raws), joinInts(sizes))
			if hasHdrWord {
				// bytes already in the response buffer when the produce loop starts: the header stream
				envWords += fmt.Sprintf(" body0=%d", tw.body0)
			}
			c.Out(strings.Join(core, " ")+" "+envWords, out+" | "+posEvents(rf.calls)+fmt.Sprintf(" | up=%d", len(rf.uploads)))
			if hasHdrWord {
				if tw.body0 > 0 {
					c.Stat("init-with-header")
				}
				if rb0 := headerStreamLen(rf.res.body); rf.res.status == 200 && rb0 != tw.body0 {
					c.Oracle("header-stream-size-differs", fmt.Sprintf("%q: header stream is %d bytes on the capped server, %d on the twin", l, rb0, tw.body0))
				}
			}
			if route == "ex" && f[0] == "x" {
				buf := int64(0)
				if len(tw.bufs) > 0 {
					buf = tw.bufs[0]
				}
				c19HardOracle(c, l, "exchange", w, x, rf, tw, buf)
			}
			if route == "pr" {
				c19ProducerOracle(c, e, l, w, x, rf, tw, before)
			}
			_ = keys
			_ = values
		case "drain":
			ensure()
			if len(f) != 3 || len(f[1]) < 2 || f[1][0] != 'T' {
				c.Out(l, "err:bad-line")
				continue
			}
			w, _, ok := resolveCaps(f[2], "e0", &twinFacts{})
			if !ok {
				c.Out(l, "err:bad-line")
				continue
			}
			e.setCaps(w, 0)
			c.Stat("drain")
			c.Out(fmt.Sprintf("drain %s maxresp=%d", f[1], w), c19Drain(c, e, l, f[1]))
		default:
			c.Out(l, "err:bad-line")
		}
	}
}

// ---------------------------------------------------------------- oracles

var capExtRe = regexp.MustCompile(`max_externalized_response_bytes \((\d+) > (\d+)\)`)

const capTolerance = 64 // bytes: token/timestamp jitter between the twin's and the real body

// c19HardOracle: unary and exchange — the hard caps.
func c19HardOracle(c *Case, l, kind string, w, x int64, rf *realFacts, tw *twinFacts, buf int64) {
	res := rf.res
	hasExc, nonLog := false, 0
	for _, b := range res.batches {
		if b.isException() {
			hasExc = true
		}
		if !b.isLog() {
			nonLog++
		}
	}
	ok := res.status == 200 && !res.rpcErr && !hasExc
	var upTotal int64
	for _, u := range rf.uploads {
		upTotal += u
	}
	if ok {
		c.Stat(kind + "-delivered")
		if w > 0 && int64(len(res.body)) > w {
			c.Oracle(kind+"-body-over-wire-cap", fmt.Sprintf("%q: delivered a %d-byte body, max_response_bytes=%d", l, len(res.body), w))
		}
		if x > 0 && upTotal > x {
			c.Oracle(kind+"-upload-over-external-cap", fmt.Sprintf("%q: delivered after uploading %d raw bytes, max_externalized_response_bytes=%d", l, upTotal, x))
		}
		return
	}
	switch rf.capKind {
	case "capWire":
		c.Stat(kind + "-refused-wire")
		if w == 0 || rf.claimed <= w {
			c.Oracle(kind+"-wire-refusal-within-cap", fmt.Sprintf("%q: refused a %d-byte body with max_response_bytes=%d", l, rf.claimed, w))
		}
		if d := rf.claimed - int64(tw.body); d > capTolerance || d < -capTolerance {
			c.Oracle(kind+"-wire-charge-wrong", fmt.Sprintf("%q: refusal charges %d bytes, the uncapped body is %d", l, rf.claimed, tw.body))
		}
	case "capExt":
		c.Stat(kind + "-refused-ext")
		if x == 0 || rf.claimed <= x {
			c.Oracle(kind+"-ext-refusal-within-cap", fmt.Sprintf("%q: refused %d external bytes with max_externalized_response_bytes=%d", l, rf.claimed, x))
		}
		var twinRaw int64
		if len(tw.uploadRaws) > 0 {
			twinRaw = tw.uploadRaws[0]
		}
		if rf.claimed != buf && (rf.claimed-twinRaw > capTolerance || twinRaw-rf.claimed > capTolerance) {
			c.Oracle(kind+"-ext-charge-wrong", fmt.Sprintf("%q: refusal charges %d bytes; buffer size %d, raw upload %d", l, rf.claimed, buf, twinRaw))
		}
		if rf.claimed == buf && len(rf.uploads) > 0 && buf > x {
			c.Oracle(kind+"-uploaded-despite-preflight", fmt.Sprintf("%q: %d bytes over the cap were uploaded before the refusal", l, buf))
		}
	default:
		return // an ordinary failure (handler error, refused request): not a cap matter
	}
	// a refusal replaces the response: one exception, nothing else of the call's output
	if nonLog != 0 {
		c.Oracle(kind+"-refusal-carries-data", fmt.Sprintf("%q: cap refusal still carries %d data batch(es)", l, nonLog))
	}
	if !res.rpcErr {
		c.Oracle(kind+"-refusal-without-error-header", fmt.Sprintf("%q: cap refusal without X-VGI-RPC-Error", l))
	}
	for _, b := range res.batches {
		if _, has := b.get(vgirpc.MetaStreamState); has {
			c.Oracle(kind+"-refusal-carries-cursor", fmt.Sprintf("%q: cap refusal carries a continuation token", l))
		}
	}
}

// c19ProducerOracle: the soft wire cap, the hard external cap and the continuation token.
func c19ProducerOracle(c *Case, e *c19Env, l string, w, x int64, rf *realFacts, tw *twinFacts, tokensBefore int) {
	res := rf.res
	if res.status != 200 || !res.parseOK {
		return
	}
	// the cap is on the whole response body: what stands in front of the data stream (the stream
	// header of an /init answer) counts as much as the batches
	body0 := headerStreamLen(res.body)
	schema, sizes, _, _ := ipcMessageSizes(res.body[body0:])
	if len(sizes) > 0 {
		sizes[0] += schema
	}
	// cycles of the real run
	var cycles []int
	failed, finished := false, false
	dataBatches := 0
	for _, k := range rf.calls {
		if k.Kind != "produce" {
			continue
		}
		if k.Outcome == "ok" && (k.Emitted > 0 || k.Finished) {
			cycles = append(cycles, k.Logs+k.Emitted)
			dataBatches += k.Emitted
			finished = k.Finished
		} else {
			cycles = append(cycles, 1)
			failed = true
		}
	}
	hasExc, hasToken := false, false
	for _, b := range res.batches {
		if b.isException() {
			hasExc = true
			failed = true
		}
		if v, ok := b.get(vgirpc.MetaStreamState); ok {
			if _, isTok := e.real.symOf(v, false); isTok {
				hasToken = true
			}
		}
	}
	if len(cycles) == 0 {
		return
	}
	// body before each cycle after the first must be under the cap (the loop may not go on at/over it)
	prefix, bi := body0, 0
	for ci, n := range cycles {
		if ci > 0 && w > 0 && int64(prefix) >= w {
			c.Oracle("producer-continued-past-wire-cap", fmt.Sprintf("%q: cycle %d started with %d body bytes, max_response_bytes=%d", l, ci, prefix, w))
			break
		}
		for j := 0; j < n && bi < len(sizes); j++ {
			prefix += sizes[bi]
			bi++
		}
	}
	lastCycle := 0
	{
		n := cycles[len(cycles)-1]
		for j := len(sizes) - n; j < len(sizes); j++ {
			if j >= 0 && !(hasToken && j == len(sizes)-1) {
				lastCycle += sizes[j]
			}
		}
	}
	_ = lastCycle
	if !failed && !finished {
		c.Stat("producer-turn-continues")
		if !hasToken {
			c.Oracle("producer-unfinished-without-token", fmt.Sprintf("%q: the stream is not finished, the response has no error and no continuation token", l))
		}
		// it stopped: there must be a reason (batch limit or wire cap)
		limit := e.cfg.limit
		if !(limit > 0 && dataBatches >= limit) && !(w > 0 && int64(prefix) >= w) {
			c.Oracle("producer-stopped-without-reason", fmt.Sprintf("%q: turn ended after %d data batches / %d bytes (limit %d, max_response_bytes=%d)", l, dataBatches, prefix, limit, w))
		}
	} else {
		if finished && !failed {
			c.Stat("producer-turn-finished")
		} else {
			c.Stat("producer-turn-failed")
		}
		if hasToken {
			c.Oracle("producer-token-after-end", fmt.Sprintf("%q: finished/failed turn carries a continuation token", l))
		}
	}
	// external cap: every upload passed the pre-flight  Σ raw(previous) + buffer(this) <= cap
	if x > 0 && len(rf.uploads) > 0 {
		var already int64
		ui := 0
		for _, k := range rf.calls {
			if k.Kind != "produce" || k.Emitted == 0 || ui >= len(rf.uploads) {
				continue
			}
			if k.Rows > 0 && k.BufSize >= e.cfg.thr && e.cfg.thr > 0 {
				if already+k.BufSize > x {
					c.Oracle("producer-upload-over-external-cap", fmt.Sprintf("%q: upload %d of %d buffer bytes after %d raw bytes, max_externalized_response_bytes=%d", l, ui+1, k.BufSize, already, x))
				}
				already += rf.uploads[ui]
				ui++
			}
		}
	}
	if hasExc && rf.capKind == "capExt" {
		c.Stat("producer-refused-ext")
		if !res.rpcErr {
			c.Oracle("producer-ext-refusal-without-error-header", fmt.Sprintf("%q", l))
		}
		if x == 0 || rf.claimed <= x {
			c.Oracle("producer-ext-refusal-within-cap", fmt.Sprintf("%q: refused at %d projected bytes with max_externalized_response_bytes=%d", l, rf.claimed, x))
		}
	}
}

// c19Drain follows the continuation tokens from a cursor to the end of the stream and renders
// everything the client received (logs, data, the terminating error) without tokens.
func c19Drain(c *Case, e *c19Env, l, sym string) string {
	tok := e.real.tokenString(sym)
	call := ""
	n, _ := strconv.Atoi(sym[1:])
	if n < len(e.real.info) {
		for t, ci := range e.real.callTok {
			if ci == e.real.info[n].call {
				call = t
			}
		}
	}
	var parts []string
	status := "end"
	for turn := 0; ; turn++ {
		if turn > 300 {
			c.Oracle("producer-drain-does-not-terminate", fmt.Sprintf("%q: more than 300 turns", l))
			status = "runaway"
			break
		}
		keys := []string{vgirpc.MetaStreamState}
		vals := []string{tok}
		if call != "" {
			keys = append(keys, vgirpc.MetaCallState)
			vals = append(vals, call)
		}
		e.real.rec.take()
		res := e.real.post(0, "/pr/exchange", exchangeBody("empty", nil, keys, vals), nil)
		calls := e.real.rec.take()
		if res.status != 200 || !res.parseOK {
			status = fmt.Sprintf("http%d", res.status)
			for _, b := range res.batches {
				parts = append(parts, plainBatch(e.real, b))
			}
			break
		}
		next := ""
		for _, b := range res.batches {
			if rb, ok := e.real.resolvePointer(b); ok {
				b = rb
			}
			v, has := b.get(vgirpc.MetaStreamState)
			if has && !b.isLog() && b.rows == 0 && len(b.keys) == 1 {
				next = v // the zero-row token batch
				continue
			}
			parts = append(parts, plainBatch(e.real, b))
			if b.isException() {
				status = "err"
			}
		}
		if len(calls) == 0 && next != "" {
			c.Oracle("producer-turn-without-progress", fmt.Sprintf("%q: a continuation ran no Produce call but returned a token", l))
			break
		}
		if next == "" {
			break
		}
		tok = next
	}
	if len(parts) == 0 {
		return status + " -"
	}
	return status + " " + strings.Join(parts, ",")
}

func plainBatch(e *streamEnv, b respBatch) string {
	s := e.renderBatch(b)
	if i := strings.LastIndex(s, "^"); i >= 0 && strings.HasPrefix(s, "D[") {
		return s[:i]
	}
	return s
}
