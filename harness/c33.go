package main

import (
	crand "crypto/rand"
	"encoding/hex"
	"fmt"
	"io"
	"net/http"
	"net/http/httptest"
	"os"
	"os/exec"
	"regexp"
	"strconv"
	"strings"
	"sync"

	"github.com/google/uuid"

	vgigcs "github.com/Query-farm/vgi-rpc-go/vgirpc/gcs"
	vgis3 "github.com/Query-farm/vgi-rpc-go/vgirpc/s3"
)

// C33 — storage backends never reuse an object key.
//
// Script lines:
//   fmt x<hex>                         formatUUID on those 16 bytes (pure formatting, compared exactly)
//   gen n=<N> workers=<W>              N calls of the S3 key generator from W goroutines
//   s3 n=<N> workers=<W> prefix=<hex> enc=<none|zstd>
//                                      N real S3Storage.Upload calls against a local fake S3 endpoint;
//                                      the object keys are what the endpoint saw in the PUT requests
//   (gen and s3 lines may say fault=shortread: crypto/rand.Reader is replaced, for the duration of the
//    line, by a source that returns ONE byte per Read call and never an error; keys must stay distinct
//    and fully random)
//   gcs n=<N> workers=<W> prefix=<hex> enc=<none|zstd> [fault=entropy]
//                                      N real GCSStorage.Upload calls against a local fake GCS endpoint;
//                                      fault=entropy: while the uuid library's entropy source reports an
//                                      error (uuid.SetRand with a failing reader, restored afterwards).
//                                      Such an upload must fail (write nothing) or still use a fresh key.
//
//   (s3/gcs lines may say plen=<N> instead of prefix=: a prefix of exactly N bytes, e.g. 0, 1, 1017, 1018, 1024, 2000)
//   xproc procs=<K> n=<N>              K child processes (this binary re-executed with GODEBUG=randautoseed=0,
//                                      i.e. every process-global pseudo-random source starts in the same
//                                      state) each generate N S3 keys and N uuid.New() values; no key may be
//                                      shared between processes
//
// For gen/s3/gcs the model is handed the 16 bytes recovered from each observed key (the random
// draw is an environment value) and must reproduce the key text; the oracle checks that no key
// occurs twice within the case (all lines of a case share one key space per backend+prefix).

// Child mode: re-executed by an `xproc` line; prints keys and exits before the framework's main runs.
func init() {
	if n, err := strconv.Atoi(os.Getenv("VERIF_C33_CHILD")); err == nil && n > 0 {
		for i := 0; i < n; i++ {
			fmt.Println("s3 " + vgis3.VerifC33GenerateUUID())
		}
		for i := 0; i < n; i++ {
			fmt.Println("uuid " + uuid.New().String())
		}
		os.Exit(0)
	}
}

func c33Prefix(kv map[string]string) string {
	if v, ok := kv["plen"]; ok {
		n, _ := strconv.Atoi(v)
		return strings.Repeat("tenant-7/", n/9+1)[:n]
	}
	if p, ok := kv["prefix"]; ok {
		b, _ := hex.DecodeString(p)
		return string(b)
	}
	return ""
}

func init() {
	Register(&Prop{
		ID: "C33",
		Rule: "fmt: random and boundary 16-byte values; gen: 60k sequential + 96k concurrent (16 goroutines) in one key space (1M + 1.6M thorough) generator calls; s3/gcs: real Upload calls (sequential and concurrent, " +
			"several prefixes, both encodings) against local fake endpoints, keys taken from the requests; non-trivial = a gen/s3/gcs line; distinct = distinct scripts",
		Gen:  c33Gen,
		Exec: c33Exec,
		NonTrivial: func(lines []string) bool {
			for _, l := range lines {
				if !strings.HasPrefix(l, "fmt ") {
					return true
				}
			}
			return false
		},
	})
}

var c33UUIDRe = regexp.MustCompile(`^[0-9a-f]{8}-[0-9a-f]{4}-[0-9a-f]{4}-[0-9a-f]{4}-[0-9a-f]{12}$`)

// ------------------------------------------------------------ fake endpoints

type c33Fake struct {
	mu   sync.Mutex
	keys []string
}

func (f *c33Fake) add(k string) {
	f.mu.Lock()
	f.keys = append(f.keys, k)
	f.mu.Unlock()
}

func (f *c33Fake) take() []string {
	f.mu.Lock()
	defer f.mu.Unlock()
	k := f.keys
	f.keys = nil
	return k
}

var (
	c33Once            sync.Once
	c33S3Fake          = &c33Fake{}
	c33GCSFake         = &c33Fake{}
	c33S3Srv, c33GCSrv *httptest.Server
	c33GCSNameRe       = regexp.MustCompile(`"name":"([^"]+)"`)
)

func c33Servers() {
	c33Once.Do(func() {
		// path-style S3: PUT /<bucket>/<key>
		c33S3Srv = httptest.NewServer(http.HandlerFunc(func(w http.ResponseWriter, r *http.Request) {
			io.Copy(io.Discard, r.Body)
			if r.Method == "PUT" {
				p := strings.TrimPrefix(r.URL.Path, "/")
				if i := strings.IndexByte(p, '/'); i >= 0 {
					c33S3Fake.add(p[i+1:])
				}
			}
			w.Header().Set("ETag", `"0"`)
			w.WriteHeader(200)
		}))
		// GCS JSON API: POST /upload/storage/v1/b/<bucket>/o  (object name in the metadata part or the query)
		c33GCSrv = httptest.NewServer(http.HandlerFunc(func(w http.ResponseWriter, r *http.Request) {
			body, _ := io.ReadAll(r.Body)
			name := r.URL.Query().Get("name")
			if name == "" {
				if m := c33GCSNameRe.FindSubmatch(body); m != nil {
					name = string(m[1])
				}
			}
			if strings.Contains(r.URL.Path, "/o") && name != "" {
				c33GCSFake.add(name)
			}
			w.Header().Set("Content-Type", "application/json")
			fmt.Fprintf(w, `{"kind":"storage#object","bucket":"b","name":%q,"size":"1","generation":"1"}`, name)
		}))
		os.Setenv("AWS_ACCESS_KEY_ID", "verif")
		os.Setenv("AWS_SECRET_ACCESS_KEY", "verif-secret")
		os.Setenv("AWS_REGION", "us-east-1")
		os.Setenv("AWS_EC2_METADATA_DISABLED", "true")
		os.Setenv("STORAGE_EMULATOR_HOST", strings.TrimPrefix(c33GCSrv.URL, "http://"))
	})
}

// ------------------------------------------------------------ exec

func c33Parallel(n, workers int, f func()) {
	if workers <= 1 {
		for i := 0; i < n; i++ {
			f()
		}
		return
	}
	var wg sync.WaitGroup
	per := n / workers
	for w := 0; w < workers; w++ {
		wg.Add(1)
		go func() {
			defer wg.Done()
			for i := 0; i < per; i++ {
				f()
			}
		}()
	}
	wg.Wait()
}

// c33Check: shape + uniqueness oracle, and a sample of model comparisons.
// c33ShortReader hands out the real entropy ONE byte per Read call and never reports an error —
// allowed by the io.Reader contract (slow device, chunking wrapper).
type c33ShortReader struct{ inner io.Reader }

// c33ReadLog: the read results the short reader handed out (only kept while non-nil).
var (
	c33ReadLogMu sync.Mutex
	c33ReadLog   *[]string
)

func (s c33ShortReader) Read(p []byte) (int, error) {
	if len(p) == 0 {
		return 0, nil
	}
	n, err := s.inner.Read(p[:1])
	c33ReadLogMu.Lock()
	if c33ReadLog != nil {
		*c33ReadLog = append(*c33ReadLog, hex.EncodeToString(p[:n]))
	}
	c33ReadLogMu.Unlock()
	return n, err
}

// c33WithShortReads runs f while crypto/rand.Reader is replaced by the short-reading source.
func c33WithShortReads(on bool, f func()) {
	if !on {
		f()
		return
	}
	old := crand.Reader
	crand.Reader = c33ShortReader{old}
	defer func() { crand.Reader = old }()
	f()
}

// c33LowEntropy: S3 keys whose 16 bytes are mostly zero (a true draw has ~0.06 zero bytes on average).
func c33LowEntropy(c *Case, line string, keys []string) {
	low, ex := 0, ""
	for _, k := range keys {
		if i := len(k) - 36; i >= 0 {
			raw, err := hex.DecodeString(strings.ReplaceAll(k[i:], "-", ""))
			if err != nil || len(raw) != 16 {
				continue
			}
			z := 0
			for _, b := range raw {
				if b == 0 {
					z++
				}
			}
			if z >= 8 {
				low++
				ex = k
			}
		}
	}
	if low > 0 {
		c.Oracle("s3-key-low-entropy-under-short-reads", fmt.Sprintf("%q: %d of %d keys have at least 8 zero bytes out of 16 (e.g. %s): the entropy source's short reads were not completed", line, low, len(keys), ex))
	}
}

// c33FailingReader is an entropy source that reports an error (what a getrandom/urandom failure looks like).
type c33FailingReader struct{}

func (c33FailingReader) Read(p []byte) (int, error) {
	return 0, fmt.Errorf("entropy source unavailable")
}

func c33Check(c *Case, line, backend, prefix, ext string, keys []string, seen map[string]bool) {
	c33CheckF(c, line, backend, prefix, ext, keys, seen, false)
}

func c33CheckF(c *Case, line, backend, prefix, ext string, keys []string, seen map[string]bool, fault bool) {
	dups, bad := 0, 0
	firstDup := ""
	sample := 0
	for _, k := range keys {
		space := backend + "|" + k
		if seen[space] {
			dups++
			if firstDup == "" {
				firstDup = k
			}
		}
		seen[space] = true
		body := strings.TrimSuffix(strings.TrimPrefix(k, prefix), ext)
		if !strings.HasPrefix(k, prefix) || !strings.HasSuffix(k, ext) || !c33UUIDRe.MatchString(body) {
			bad++
			if sample < 6 {
				sample++
				c.Out(fmt.Sprintf("%s prefix=%s draw=x uuid=x zstd=0", backend, XS(prefix)), k)
			}
			continue
		}
		if fault { // the model says: no randomness, no key
			if sample < 6 {
				sample++
				z := "0"
				if ext == ".arrow.zst" {
					z = "1"
				}
				c.Out(fmt.Sprintf("gcs prefix=%s uuid=! zstd=%s", XS(prefix), z), k)
			}
			continue
		}
		if sample < 6 { // the model must reproduce the key from the bytes it encodes
			sample++
			raw, _ := hex.DecodeString(strings.ReplaceAll(body, "-", ""))
			if backend == "s3" {
				c.Out(fmt.Sprintf("s3 prefix=%s draw=%s", XS(prefix), X(raw)), k)
			} else {
				z := "0"
				if ext == ".arrow.zst" {
					z = "1"
				}
				c.Out(fmt.Sprintf("gcs prefix=%s uuid=%s zstd=%s", XS(prefix), X(raw), z), k)
			}
		}
	}
	c.Stat(backend + "-lines")
	if bad > 0 {
		c.Oracle("key-not-prefix-plus-uuid", fmt.Sprintf("%q: %d of %d object keys are not <prefix><uuid><ext>", line, bad, len(keys)))
	}
	if dups > 0 && fault {
		c.Oracle("key-reused-under-entropy-failure", fmt.Sprintf("%q: %d of the %d objects written while the entropy source was failing went to a key already used (e.g. %s)", line, dups, len(keys), firstDup))
	} else if dups > 0 {
		c.Oracle(backend+"-object-key-reused", fmt.Sprintf("%q: %d of %d uploads wrote to an object key that an earlier upload had used (e.g. %s)", line, dups, len(keys), firstDup))
	}
}

func c33Exec(c *Case) {
	c33Servers()
	seen := map[string]bool{}
	for _, l := range c.Lines {
		f := strings.Fields(l)
		if len(f) == 0 {
			continue
		}
		kv := map[string]string{}
		for _, x := range f[1:] {
			if i := strings.IndexByte(x, '='); i > 0 {
				kv[x[:i]] = x[i+1:]
			}
		}
		n, _ := strconv.Atoi(kv["n"])
		workers, _ := strconv.Atoi(kv["workers"])
		prefix := c33Prefix(kv)
		switch f[0] {
		case "xproc":
			procs, _ := strconv.Atoi(kv["procs"])
			exe, err := os.Executable()
			if err != nil {
				panic(err)
			}
			owner := map[string]int{} // key -> first process that produced it
			shared, firstShared := 0, ""
			var all []string
			for pi := 0; pi < procs; pi++ {
				cmd := exec.Command(exe, "list", "C33")
				cmd.Env = append(os.Environ(), "GODEBUG=randautoseed=0", "VERIF_C33_CHILD="+strconv.Itoa(n))
				out, err := cmd.Output()
				if err != nil {
					panic(fmt.Sprintf("child process failed: %v", err))
				}
				for _, ln := range strings.Split(strings.TrimSpace(string(out)), "\n") {
					p := strings.SplitN(ln, " ", 2)
					if len(p) != 2 {
						continue
					}
					k := p[0] + "|" + p[1]
					if o, ok := owner[k]; ok && o != pi {
						shared++
						if firstShared == "" {
							firstShared = p[1]
						}
					} else if !ok {
						owner[k] = pi
					}
					if p[0] == "s3" {
						all = append(all, p[1])
					}
				}
			}
			c.Stat("xproc-lines")
			if len(all) != procs*n {
				c.Oracle("child-processes-produced-no-keys", fmt.Sprintf("%q: %d keys from %d processes", l, len(all), procs))
			}
			if shared > 0 {
				c.Oracle("object-key-shared-across-processes", fmt.Sprintf("%q: %d keys were produced by more than one process started in the same pseudo-random state (e.g. %s)", l, shared, firstShared))
			}
			c33Check(c, l, "s3", "", "", all, map[string]bool{})
		case "fmt":
			b := MustUnX(f[1])
			var a [16]byte
			copy(a[:], b)
			txt := vgis3.VerifC33FormatUUID(a)
			c.Out(l, txt)
			// formatting must lose nothing: the text decodes back to the 16 bytes
			if back, err := hex.DecodeString(strings.ReplaceAll(txt, "-", "")); err != nil || string(back) != string(a[:]) || !c33UUIDRe.MatchString(txt) {
				c.Oracle("uuid-text-does-not-determine-the-bytes", fmt.Sprintf("formatUUID(%x) = %q", a, txt))
			}
		case "gen":
			var mu sync.Mutex
			keys := make([]string, 0, n)
			short := kv["fault"] == "shortread"
			if short && workers <= 1 {
				// a few calls one at a time with the read results recorded: the model, given exactly
				// those read results, must produce the same key
				c33WithShortReads(true, func() {
					for i := 0; i < 4; i++ {
						var log []string
						c33ReadLogMu.Lock()
						c33ReadLog = &log
						c33ReadLogMu.Unlock()
						k := vgis3.VerifC33GenerateUUID()
						c33ReadLogMu.Lock()
						c33ReadLog = nil
						c33ReadLogMu.Unlock()
						c.Out(fmt.Sprintf("s3r prefix=x chunks=%s", strings.Join(log, ",")), k)
					}
				})
			}
			c33WithShortReads(short, func() {
				c33Parallel(n, workers, func() {
					k := vgis3.VerifC33GenerateUUID()
					mu.Lock()
					keys = append(keys, k)
					mu.Unlock()
				})
			})
			c33Check(c, l, "s3", "", "", keys, seen)
			if short {
				c.Stat("shortread-lines")
				c33LowEntropy(c, l, keys)
			}
		case "s3":
			st, err := vgis3.NewS3Storage("bkt", vgis3.S3Config{Prefix: prefix, EndpointURL: c33S3Srv.URL, Region: "us-east-1"})
			if err != nil {
				panic(err)
			}
			c33S3Fake.take()
			enc := ""
			if kv["enc"] == "zstd" {
				enc = "zstd"
			}
			var errs int
			var mu sync.Mutex
			short := kv["fault"] == "shortread"
			c33WithShortReads(short, func() {
				c33Parallel(n, workers, func() {
					if _, err := st.Upload([]byte("payload"), nil, enc); err != nil {
						mu.Lock()
						errs++
						mu.Unlock()
					}
				})
			})
			keys := c33S3Fake.take()
			if short {
				c.Stat("shortread-lines")
				c33LowEntropy(c, l, keys)
			}
			if errs > 0 || len(keys) != n/max(workers, 1)*max(workers, 1) {
				c.Oracle("uploads-did-not-reach-the-fake-endpoint", fmt.Sprintf("%q: %d upload errors, %d keys observed", l, errs, len(keys)))
			}
			eff := prefix
			if eff == "" {
				eff = "vgi-rpc/"
			}
			c33Check(c, l, "s3", eff, "", keys, seen)
		case "gcs":
			st, err := vgigcs.NewGCSStorage("bkt", vgigcs.GCSConfig{Prefix: prefix})
			if err != nil {
				panic(err)
			}
			c33GCSFake.take()
			enc, ext := "", ".arrow"
			if kv["enc"] == "zstd" {
				enc, ext = "zstd", ".arrow.zst"
			}
			fault := kv["fault"] == "entropy"
			if fault {
				uuid.SetRand(c33FailingReader{})
			}
			c33Parallel(n, workers, func() {
				defer func() { recover() }() // uuid.New panics when the entropy read fails: the upload fails
				// the signed-URL step needs real credentials and fails here; the object has been written by then
				st.Upload([]byte("payload"), nil, enc)
			})
			if fault {
				uuid.SetRand(nil)
			}
			keys := c33GCSFake.take()
			total := n / max(workers, 1) * max(workers, 1)
			if !fault && len(keys) != total {
				c.Oracle("uploads-did-not-reach-the-fake-endpoint", fmt.Sprintf("%q: %d keys observed", l, len(keys)))
			}
			eff := prefix
			if eff == "" {
				eff = "vgi-rpc/"
			}
			if fault {
				c.Stat("gcs-fault-lines")
				if len(keys) == 0 {
					z := "0"
					if ext == ".arrow.zst" {
						z = "1"
					}
					c.Out(fmt.Sprintf("gcs prefix=%s uuid=! zstd=%s", XS(eff), z), "refused")
				}
			}
			c33CheckF(c, l, "gcs", eff, ext, keys, seen, fault)
		default:
			c.Out(l, "err:bad-op")
		}
	}
}

// ------------------------------------------------------------ generation

func c33Gen(g *Gen) {
	r := g.Rng
	// pure formatting: boundary and random values
	var fm []string
	for _, b := range [][]byte{make([]byte, 16), bytesRepeat(0xff, 16), bytesRepeat(0x0f, 16), bytesRepeat(0xf0, 16),
		{0, 1, 2, 3, 4, 5, 6, 7, 8, 9, 10, 11, 12, 13, 14, 15}} {
		fm = append(fm, "fmt "+X(b))
	}
	for i := 0; i < g.N(200, 3000); i++ {
		fm = append(fm, "fmt "+X(r.Bytes(16)))
	}
	g.Case(fm...)
	// the generator alone: long sequential runs and concurrent runs share one key space
	g.Case(fmt.Sprintf("gen n=%d workers=1", g.N(60000, 1000000)), fmt.Sprintf("gen n=%d workers=16", g.N(96000, 1600000)))
	for i := 0; i < g.N(6, 30); i++ {
		g.Case(fmt.Sprintf("gen n=%d workers=%d", r.Range(1000, 20000), Pick(r, []int{1, 2, 4, 8, 32})))
	}
	// several processes whose process-global pseudo-random sources start in the same state
	g.Case(fmt.Sprintf("xproc procs=%d n=%d", 3, g.N(6, 50)))
	g.Case(fmt.Sprintf("xproc procs=%d n=%d", 2, r.Range(1, 4)))
	// prefix lengths around the object-name limit of the stores (1024 bytes), both backends and encodings
	for _, pl := range []int{0, 1, 900, 1000, 1017, 1018, 1024, 2000} {
		enc := Pick(r, []string{"none", "zstd"})
		g.Case(fmt.Sprintf("s3 n=%d workers=%d plen=%d enc=%s", r.Range(8, 16), Pick(r, []int{1, 4}), pl, enc),
			fmt.Sprintf("gcs n=%d workers=%d plen=%d enc=%s", r.Range(4, 8), Pick(r, []int{1, 2}), pl, enc),
			fmt.Sprintf("gcs n=%d workers=1 plen=%d enc=%s", r.Range(3, 6), pl, Pick(r, []string{"none", "zstd"})))
	}
	// a short-reading (never failing) entropy source behind crypto/rand.Reader
	g.Case("s3 n=300 workers=1 prefix= enc=none fault=shortread", fmt.Sprintf("gen n=%d workers=%d fault=shortread", g.N(2000, 50000), Pick(r, []int{1, 4})))
	g.Case(fmt.Sprintf("s3 n=%d workers=4 plen=%d enc=zstd fault=shortread", r.Range(300, 400), Pick(r, []int{0, 8, 40})),
		fmt.Sprintf("s3 n=%d workers=1 prefix= enc=none", r.Range(20, 60)))
	// real uploads
	prefixes := []string{"", "vgi-rpc/", "a/b/", "x", "tenant-1/2026/09/"}
	for i := 0; i < g.N(6, 40); i++ {
		p := Pick(r, prefixes)
		var ls []string
		for k := 0; k < r.Range(1, 3); k++ {
			ls = append(ls, fmt.Sprintf("s3 n=%d workers=%d prefix=%s enc=%s", r.Range(30, 100), Pick(r, []int{1, 1, 4, 8}), hex.EncodeToString([]byte(p)), Pick(r, []string{"none", "zstd"})))
		}
		g.Case(ls...)
	}
	// (each GCS upload allocates the client library's 16 MiB media buffer: kept few in the quick tier)
	for i := 0; i < g.N(4, 40); i++ {
		p := Pick(r, prefixes)
		var ls []string
		if r.Chance(50) { // uploads while the entropy source fails, between healthy ones
			ls = append(ls, fmt.Sprintf("gcs n=%d workers=%d prefix=%s enc=%s fault=entropy", r.Range(2, 8), Pick(r, []int{1, 1, 2}), hex.EncodeToString([]byte(p)), Pick(r, []string{"none", "zstd"})))
		}
		for k := 0; k < r.Range(1, g.N(1, 3)); k++ {
			ls = append(ls, fmt.Sprintf("gcs n=%d workers=%d prefix=%s enc=%s", r.Range(16, g.N(40, 150)), Pick(r, []int{1, 1, 4, 8}), hex.EncodeToString([]byte(p)), Pick(r, []string{"none", "zstd"})))
		}
		g.Case(ls...)
	}
}

func bytesRepeat(b byte, n int) []byte {
	out := make([]byte, n)
	for i := range out {
		out[i] = b
	}
	return out
}
