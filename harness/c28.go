package main

import (
	"fmt"
	"net/http"
	"net/http/httptest"
	"net/url"
	"sort"
	"strconv"
	"strings"

	"github.com/Query-farm/vgi-rpc-go/vgirpc"
)

// C28 — client-side parsing recovers exactly what the WWW-Authenticate header advertises.
//
// Script ops (stateless, any number per case; byte strings travel as x<hex>):
//   emit <res> <nAS> <cid> <flag> <csec> <dcid> <dcsec>
//        a real HttpServer is configured with SetOAuthResourceMetadata and made to answer a 401;
//        the WWW-Authenticate value of that response is parsed with the six real Parse… functions.
//        Model line is enriched with the well-known URL net/url derived from <res> ("-" = url.Parse
//        failed): that derivation is library behaviour the model does not contain.
//   emits <k> (<res> <nAS> <cid> <flag> <csec> <dcid> <dcsec>)*k
//        a HISTORY of k SetOAuthResourceMetadata calls on ONE server, then a real 401: the client must read the LAST
//        accepted configuration
//   emitx <step> …   like emits, with the OTHER setters interleaved in any order: M:<7 fields joined by ':'> =
//        SetOAuthResourceMetadata, K = SetOAuthPkce, P:<prefix> = SetPrefix, A = SetAuthenticate. The model line is the
//        `emits` line of the M steps alone (the other setters must not touch the challenge)
//   build <url> <cid> <flag> <csec> <dcid> <dcsec>
//        buildWWWAuthenticate on an arbitrary (unvalidated) URL and field values, then the six parsers.
//   validate <res> <nAS> <cid> <flag> <csec> <dcid> <dcsec>      OAuthResourceMetadata.Validate
//   hdr <header>              the six parsers on an arbitrary header value
//   param <header> <name>     parseQuotedParam on an arbitrary header and parameter name
//
// Observation of a built header: its scheme and its parameters SORTED (order and the exact
// separator bytes are not part of the property), plus the six parsed values.

func init() {
	Register(&Prop{
		ID: "C28",
		Rule: "metadata values over the validation charset (every subset of optional fields empty, values colliding with parameter names), " +
			"resource URLs from the RFC 3986 grammar steered to end in ',<param>=', run through a real HttpServer 401 and the real parsers; " +
			"plus arbitrary/malformed header values and parameter names. A case is non-trivial when it has an emit/build line with at least " +
			"one optional field set or a hdr/param line containing a double quote; distinct = distinct scripts",
		Gen:  c28Gen,
		Exec: c28Exec,
		NonTrivial: func(lines []string) bool {
			for _, l := range lines {
				f := strings.Fields(l)
				if len(f) == 0 {
					continue
				}
				switch f[0] {
				case "emits", "emitx":
					return true
				case "emit":
					if len(f) == 8 && (f[3] != "x" || f[4] == "true" || f[5] != "x" || f[6] != "x" || f[7] != "x") {
						return true
					}
				case "build":
					if len(f) == 7 && (f[2] != "x" || f[3] == "true" || f[4] != "x" || f[5] != "x" || f[6] != "x") {
						return true
					}
				case "hdr", "param":
					if len(f) >= 2 && strings.Contains(f[1], "22") {
						return true
					}
				}
			}
			return false
		},
	})
}

// ---------------------------------------------------------------- generation

var c28Names = []string{"resource_metadata", "client_id", "use_id_token_as_bearer", "client_secret",
	"device_code_client_id", "device_code_client_secret"}

const c28IDChars = "ABCDEFGHIJKLMNOPQRSTUVWXYZabcdefghijklmnopqrstuvwxyz0123456789-._~"

func c28GenID(r *Rng) string {
	switch r.Intn(12) {
	case 0:
		return Pick(r, c28Names) // a value that looks like a parameter name
	case 1:
		return "true"
	case 2:
		return string(c28IDChars[r.Intn(len(c28IDChars))])
	case 3:
		return Pick(r, []string{"client_id", "id", "_id", "device_code_", "-", ".", "~", "_", "0"})
	}
	n := r.Range(1, 40)
	b := make([]byte, n)
	for i := range b {
		b[i] = c28IDChars[r.Intn(len(c28IDChars))]
	}
	return string(b)
}

// a field value: mostly valid or empty, sometimes invalid
func c28GenField(r *Rng, pEmpty int) string {
	if r.Chance(pEmpty) {
		return ""
	}
	if r.Chance(6) {
		base := c28GenID(r)
		bad := Pick(r, []string{"\"", " ", ",", "=", "é", "\n", "\\", "/", "+", ":", "\x00", "\xff", "a b", "\"x\"", "%22"})
		switch r.Intn(3) {
		case 0:
			return bad
		case 1:
			return base + bad
		default:
			k := r.Intn(len(base) + 1)
			return base[:k] + bad + base[k:]
		}
	}
	return c28GenID(r)
}

const c28Unreserved = "abcdefghijklmnopqrstuvwxyzABCDEFGHIJKLMNOPQRSTUVWXYZ0123456789-._~"
const c28SubDelims = "!$&'()*+,;="

func c28GenPchars(r *Rng, n int, extra string) string {
	var sb strings.Builder
	for i := 0; i < n; i++ {
		switch x := r.Intn(20); {
		case x < 12:
			sb.WriteByte(c28Unreserved[r.Intn(len(c28Unreserved))])
		case x < 15:
			sb.WriteByte(c28SubDelims[r.Intn(len(c28SubDelims))])
		case x < 16:
			fmt.Fprintf(&sb, "%%%02X", r.Intn(256))
		case x < 17:
			sb.WriteString(Pick(r, []string{"%22", "%5C", "%20", "%2C", "%3D", "%22", "%5c", "%2c%20client_id%3D%22x", "%22%2C%20client_id%3D"}))
		case x < 18 && extra != "":
			sb.WriteByte(extra[r.Intn(len(extra))])
		default:
			sb.WriteByte(":@"[r.Intn(2)])
		}
	}
	return sb.String()
}

// suffixes that try to complete a parameter name right before the closing quote of resource_metadata
func c28Tail(r *Rng) string {
	n := Pick(r, c28Names)
	return Pick(r, []string{",", ",%20", "%20", ";", "/", "", "&"}) + n + Pick(r, []string{"=", "", "=%22"})
}

// an RFC 3986 URI (never contains a raw double quote)
func c28GenURL(r *Rng) string {
	var sb strings.Builder
	sb.WriteString(Pick(r, []string{"https", "https", "https", "http", "urn", "vgi+x", "a1.-"}))
	sb.WriteString(":")
	if r.Chance(92) {
		sb.WriteString("//")
		if r.Chance(10) {
			sb.WriteString(c28GenPchars(r, r.Range(1, 6), "") + "@")
		}
		switch r.Intn(8) {
		case 0:
			sb.WriteString("127.0.0.1")
		case 1:
			sb.WriteString("[::1]")
		case 2:
			sb.WriteString(Pick(r, c28Names) + ".example")
		default:
			sb.WriteString(Pick(r, []string{"api.example.com", "h", "rs.example.org", "xn--bcher-kva.example", "a-b.c"}))
		}
		if r.Chance(25) {
			fmt.Fprintf(&sb, ":%d", Pick(r, []int{80, 443, 8443, 1, 65535}))
		}
	}
	segs := r.Intn(4)
	for i := 0; i < segs; i++ {
		sb.WriteString("/")
		sb.WriteString(c28GenPchars(r, r.Intn(8), ""))
	}
	if r.Chance(40) {
		sb.WriteString("/" + c28GenPchars(r, r.Intn(4), "") + c28Tail(r))
	}
	if r.Chance(20) {
		sb.WriteString("/")
	}
	if r.Chance(25) {
		sb.WriteString("?" + c28GenPchars(r, r.Intn(8), "/?"))
		if r.Chance(50) {
			sb.WriteString(c28Tail(r))
		}
	}
	if r.Chance(10) {
		sb.WriteString("#" + c28GenPchars(r, r.Intn(6), "/?"))
		if r.Chance(50) {
			sb.WriteString(c28Tail(r))
		}
	}
	return sb.String()
}

// an arbitrary URL-ish byte string for the unvalidated builder (may hold quotes, spaces, commas)
func c28GenRawURL(r *Rng) string {
	u := c28GenURL(r)
	switch r.Intn(10) {
	case 0:
		return u + ", " + Pick(r, c28Names) + "="
	case 1:
		return u + " " + Pick(r, c28Names) + "="
	case 2:
		return u + "," + Pick(r, c28Names) + "="
	case 3:
		k := r.Intn(len(u) + 1)
		return u[:k] + "\"" + u[k:]
	case 4:
		return u + "\", " + Pick(r, c28Names) + "=\"evil"
	case 5:
		return ""
	case 6:
		return string(r.Bytes(r.Intn(12)))
	}
	return u
}

// a challenge in the general well-formed shape (any scheme, any separator runs, any order)
func c28GenChallenge(r *Rng) string {
	var sb strings.Builder
	sb.WriteString(Pick(r, []string{"Bearer", "Bearer", "Bearer", "bearer", "DPoP", "Basic", "", "X"}))
	n := r.Intn(7)
	for i := 0; i < n; i++ {
		sb.WriteString(Pick(r, []string{" ", ", ", ",", "  ", " ,", ",,", ", ", ", "}))
		var name string
		if r.Chance(70) {
			name = Pick(r, c28Names)
		} else {
			base := Pick(r, c28Names)
			name = Pick(r, []string{"realm", "error", "scope", "x" + base, base + "2", strings.ToUpper(base), "x_" + base,
				base + "=", "=" + base, base[1:], base[:len(base)-1], "device_code_", "x-" + base})
		}
		var val string
		switch r.Intn(6) {
		case 0:
			val = ""
		case 1:
			val = c28GenURL(r)
		case 2:
			val = Pick(r, c28Names) + "="
		case 3:
			val = "a, " + Pick(r, c28Names) + "="
		default:
			val = c28GenID(r)
		}
		sb.WriteString(name + "=\"" + val + "\"")
	}
	return sb.String()
}

func c28Mutate(r *Rng, h string) string {
	b := []byte(h)
	for k := r.Range(1, 3); k > 0; k-- {
		switch r.Intn(6) {
		case 0: // delete a byte
			if len(b) > 0 {
				i := r.Intn(len(b))
				b = append(b[:i:i], b[i+1:]...)
			}
		case 1: // insert a structural byte
			i := r.Intn(len(b) + 1)
			c := Pick(r, []byte{'"', ',', ' ', '=', '\\', '\t', 'x', ';'})
			b = append(b[:i:i], append([]byte{c}, b[i:]...)...)
		case 2: // truncate
			if len(b) > 0 {
				b = b[:r.Intn(len(b))]
			}
		case 3: // replace a byte
			if len(b) > 0 {
				b[r.Intn(len(b))] = Pick(r, []byte{'"', ',', ' ', '=', 0xff, 'A'})
			}
		case 4: // duplicate a tail
			if len(b) > 0 {
				i := r.Intn(len(b))
				b = append(b, b[i:]...)
			}
		case 5: // drop all spaces
			b = []byte(strings.ReplaceAll(string(b), " ", ""))
		}
	}
	return string(b)
}

func c28Noise(r *Rng) string {
	toks := []string{"\"", "\"", ",", " ", "=", "=\"", "Bearer", "\\", "\t", "a", "true", "é", "\xff", "\"\"", ", "}
	toks = append(toks, c28Names...)
	var sb strings.Builder
	for k := r.Intn(14); k > 0; k-- {
		sb.WriteString(Pick(r, toks))
	}
	return sb.String()
}

func c28MetaArgs(res string, nas int, cid string, flag bool, csec, dcid, dcsec string) string {
	return fmt.Sprintf("%s %d %s %v %s %s %s", XS(res), nas, XS(cid), flag, XS(csec), XS(dcid), XS(dcsec))
}

func c28Gen(g *Gen) {
	// a well-mixed sub-stream: the framework's seeds are shifted copies of one splitmix stream
	r := NewRng(g.Rng.U64())
	n := g.N(10000, 200000)
	for i := 0; i < n; i++ {
		pEmpty := Pick(r, []int{20, 50, 50, 80})
		cid, csec, dcid, dcsec := c28GenField(r, pEmpty), c28GenField(r, pEmpty), c28GenField(r, pEmpty), c28GenField(r, pEmpty)
		flag := r.Chance(35)
		res := c28GenURL(r)
		if r.Chance(3) {
			res = Pick(r, []string{"", "://bad", "http://[::1", "https://h/%zz", "http://h/a b", "http://h/\x7f"})
		}
		nas := 1
		if r.Chance(4) {
			nas = 0
		} else if r.Chance(10) {
			nas = r.Range(2, 3)
		}
		lines := []string{"emit " + c28MetaArgs(res, nas, cid, flag, csec, dcid, dcsec)}
		if r.Chance(60) { // a configuration history on one server: rotate / drop fields under the same or another resource
			k := r.Range(1, 3)
			hist := fmt.Sprintf("emits %d", k)
			curRes := res
			for j := 0; j < k; j++ {
				if j > 0 && r.Chance(30) {
					curRes = c28GenURL(r)
				}
				rj, nj := curRes, 1
				if r.Chance(8) {
					rj = Pick(r, []string{"", "http://[::1", "https://h/%zz"})
				}
				if r.Chance(5) {
					nj = 0
				}
				pe := Pick(r, []int{20, 50, 80})
				hist += " " + c28MetaArgs(rj, nj, c28GenField(r, pe), r.Chance(40), c28GenField(r, pe), c28GenField(r, pe), c28GenField(r, pe))
			}
			lines = append(lines, hist)
		}
		if r.Chance(50) { // every setter that could touch the challenge, in any order
			k := r.Range(2, 6)
			toks := []string{}
			curRes := Pick(r, []string{res, "https://gw.example.com/tenants/acme/vgi", "https://gw.example.com/vgi/", "https://gw.example.com/a/b?x=1", c28GenURL(r)})
			for j := 0; j < k; j++ {
				switch x := r.Intn(100); {
				case x < 45 || j == 0 && x < 70:
					if r.Chance(25) {
						curRes = c28GenURL(r)
					}
					id := c28GenID(r)
					if r.Chance(15) {
						id = ""
					}
					sec := ""
					if r.Chance(65) {
						sec = c28GenID(r)
					}
					pe := Pick(r, []int{50, 80})
					nj := 1
					if r.Chance(4) {
						nj = 0
					}
					toks = append(toks, "M:"+strings.ReplaceAll(c28MetaArgs(curRes, nj, id, r.Chance(40), sec, c28GenField(r, pe), c28GenField(r, pe)), " ", ":"))
				case x < 70:
					if r.Chance(60) && !strings.Contains(strings.Join(toks, " ")+" ", " A ") && (len(toks) == 0 || toks[0] != "A") {
						toks = append(toks, "A") // SetOAuthPkce requires an authenticator
					}
					toks = append(toks, "K")
				case x < 88:
					toks = append(toks, "P:"+XS(Pick(r, []string{"", "/vgi", "/api/v1", "/tenants", "/x"})))
				default:
					toks = append(toks, "A")
				}
			}
			lines = append(lines, "emitx "+strings.Join(toks, " "))
		}
		if r.Chance(50) {
			lines = append(lines, "validate "+c28MetaArgs(res, nas, cid, flag, csec, dcid, dcsec))
		}
		// the unvalidated builder on the same fields with a raw URL
		lines = append(lines, fmt.Sprintf("build %s %s %v %s %s %s", XS(c28GenRawURL(r)), XS(cid), flag, XS(csec), XS(dcid), XS(dcsec)))
		// parser on general challenges, mutations and noise
		ch := c28GenChallenge(r)
		lines = append(lines, "hdr "+XS(ch))
		if r.Chance(60) {
			lines = append(lines, "hdr "+XS(c28Mutate(r, ch)))
		}
		if r.Chance(30) {
			lines = append(lines, "hdr "+XS(c28Noise(r)))
		}
		if r.Chance(40) {
			name := Pick(r, c28Names)
			if r.Chance(40) {
				name = Pick(r, []string{"", "=", "realm", "client_id=", "id", "_id", "Bearer", "x" + name, strings.ToUpper(name), name[1:]})
			}
			h := ch
			if r.Bool() {
				h = c28Mutate(r, ch)
			}
			lines = append(lines, "param "+XS(h)+" "+XS(name))
		}
		g.Case(lines...)
	}
	if g.Thorough() {
		// exhaustive: every subset of the optional fields x short colliding values x URL endings
		vals := []string{"a", "client_id", "true"}
		urls := []string{"https://h/a", "https://h/a,client_id=", "https://h/?x=,client_secret=", "https://h/device_code_client_id="}
		for mask := 0; mask < 32; mask++ {
			for _, v := range vals {
				for _, u := range urls {
					f := func(bit int) string {
						if mask&(1<<bit) != 0 {
							return v
						}
						return ""
					}
					flag := mask&16 != 0
					g.Case("emit "+c28MetaArgs(u, 1, f(0), flag, f(1), f(2), f(3)),
						fmt.Sprintf("build %s %s %v %s %s %s", XS(u), XS(f(0)), flag, XS(f(1)), XS(f(2)), XS(f(3))))
				}
			}
		}
	}
}

// ---------------------------------------------------------------- execution

func c28Parsed(h string) (string, [6]string) {
	v := [6]string{
		vgirpc.ParseResourceMetadataURL(h),
		vgirpc.ParseClientID(h),
		strconv.FormatBool(vgirpc.ParseUseIDTokenAsBearer(h)),
		vgirpc.ParseClientSecret(h),
		vgirpc.ParseDeviceCodeClientID(h),
		vgirpc.ParseDeviceCodeClientSecret(h),
	}
	return fmt.Sprintf("rm=%s cid=%s idtok=%s csec=%s dcid=%s dcsec=%s", XS(v[0]), XS(v[1]), v[2], XS(v[3]), XS(v[4]), XS(v[5])), v
}

// c28Tokenize is the harness's own reading of a challenge: scheme, then one or more
// (separator run, name="value") groups. Independent of the code under test.
func c28Tokenize(h string) (scheme string, params [][2]string, ok bool) {
	isSep := func(b byte) bool { return b == ' ' || b == ',' }
	i := 0
	for i < len(h) && !isSep(h[i]) && h[i] != '"' {
		i++
	}
	scheme = h[:i]
	for i < len(h) {
		j := i
		for j < len(h) && isSep(h[j]) {
			j++
		}
		if j == i {
			return "", nil, false
		}
		i = j
		for j < len(h) && !isSep(h[j]) && h[j] != '"' {
			j++
		}
		if j >= len(h) || h[j] != '"' || j == i || h[j-1] != '=' {
			return "", nil, false
		}
		name := h[i : j-1]
		k := strings.IndexByte(h[j+1:], '"')
		if k < 0 {
			return "", nil, false
		}
		params = append(params, [2]string{name, h[j+1 : j+1+k]})
		i = j + 1 + k + 1
	}
	return scheme, params, true
}

func c28Canonical(h string) string {
	scheme, ps, ok := c28Tokenize(h)
	if !ok {
		return "fmt=bad raw=" + XS(h)
	}
	sort.Slice(ps, func(a, b int) bool {
		if ps[a][0] != ps[b][0] {
			return ps[a][0] < ps[b][0]
		}
		return ps[a][1] < ps[b][1]
	})
	parts := make([]string, len(ps))
	for i, p := range ps {
		parts[i] = XS(p[0]) + ":" + XS(p[1])
	}
	return "scheme=" + XS(scheme) + " params=" + strings.Join(parts, ",")
}

func c28ErrKind(err error) string {
	s := err.Error()
	switch {
	case strings.Contains(s, "resource is required"):
		return "err:resource-required"
	case strings.Contains(s, "authorization_servers is required"):
		return "err:auth-servers-required"
	case strings.Contains(s, "device_code_client_id contains"):
		return "err:dc-client-id-chars"
	case strings.Contains(s, "device_code_client_secret contains"):
		return "err:dc-client-secret-chars"
	case strings.Contains(s, "client_id contains"):
		return "err:client-id-chars"
	case strings.Contains(s, "client_secret contains"):
		return "err:client-secret-chars"
	case strings.Contains(s, "parsing resource URL"):
		return "err:resource-url"
	}
	return "err:other"
}

func c28Meta(res string, nas int, cid string, flag bool, csec, dcid, dcsec string) *vgirpc.OAuthResourceMetadata {
	m := &vgirpc.OAuthResourceMetadata{Resource: res, ClientID: cid, UseIDTokenAsBearer: flag, ClientSecret: csec,
		DeviceCodeClientID: dcid, DeviceCodeClientSecret: dcsec}
	for i := 0; i < nas; i++ {
		m.AuthorizationServers = append(m.AuthorizationServers, fmt.Sprintf("https://as%d.example", i))
	}
	return m
}

// the property, stated on the real outputs
func c28Oracle(c *Case, line, url string, m *vgirpc.OAuthResourceMetadata, got [6]string) {
	want := [6]string{url, m.ClientID, strconv.FormatBool(m.UseIDTokenAsBearer), m.ClientSecret, m.DeviceCodeClientID, m.DeviceCodeClientSecret}
	classes := [6]string{"resource-metadata-url-not-recovered", "client-id-not-recovered", "id-token-flag-not-recovered",
		"client-secret-not-recovered", "device-code-client-id-not-recovered", "device-code-client-secret-not-recovered"}
	for i := range want {
		if got[i] != want[i] {
			c.Oracle(classes[i], fmt.Sprintf("%s: advertised %q, client reads %q", line, want[i], got[i]))
		}
	}
}

// c28LocationOracle: independently of the code's own derivation, the URL the client reads must name the RFC 9728
// well-known document of the resource: same scheme and host, path = well-known prefix + the resource's path.
func c28LocationOracle(c *Case, line, resource, readURL string) {
	u, err := url.Parse(resource)
	if err != nil || u.Host == "" || u.Opaque != "" {
		return
	}
	r, err := url.Parse(readURL)
	want := "/.well-known/oauth-protected-resource" + strings.TrimSuffix(u.Path, "/")
	if err != nil || r.Scheme != u.Scheme || r.Host != u.Host || r.Path != want {
		got := "unparsable"
		if err == nil {
			got = r.Scheme + "://" + r.Host + " path " + strconv.Quote(r.Path)
		}
		c.Oracle("resource-metadata-url-wrong-location", fmt.Sprintf("%s: resource %q: client reads %q (%s), expected %s://%s path %q", line, resource, readURL, got, u.Scheme, u.Host, want))
	}
}

func c28Exec(c *Case) {
	for _, l := range c.Lines {
		f := strings.Fields(l)
		if len(f) == 0 {
			continue
		}
		switch {
		case f[0] == "hdr" && len(f) == 2:
			s, _ := c28Parsed(UnXS(f[1]))
			c.Stat("hdr")
			c.Out(l, "p "+s)
		case f[0] == "param" && len(f) == 3:
			c.Stat("param")
			c.Out(l, "v "+XS(vgirpc.VerifC28ParseParam(UnXS(f[1]), UnXS(f[2]))))
		case f[0] == "validate" && len(f) == 8:
			nas, _ := strconv.Atoi(f[2])
			m := c28Meta(UnXS(f[1]), nas, UnXS(f[3]), f[4] == "true", UnXS(f[5]), UnXS(f[6]), UnXS(f[7]))
			if err := m.Validate(); err != nil {
				k := c28ErrKind(err)
				c.Stat("validate-" + k)
				c.Out(l, k)
			} else {
				c.Stat("validate-ok")
				c.Out(l, "ok")
			}
		case f[0] == "build" && len(f) == 7:
			url := UnXS(f[1])
			m := c28Meta("https://r.example/x", 1, UnXS(f[2]), f[3] == "true", UnXS(f[4]), UnXS(f[5]), UnXS(f[6]))
			h := vgirpc.VerifC28Build(url, m)
			ps, got := c28Parsed(h)
			if strings.Contains(url+m.ClientID+m.ClientSecret+m.DeviceCodeClientID+m.DeviceCodeClientSecret, "\"") {
				// a value with a raw quote: the header has no canonical reading; it still is a parser input
				c.Stat("build-quoted-value")
				c.Out("hdr "+XS(h), "p "+ps)
				continue
			}
			if m.Validate() == nil {
				c.Stat("build-valid")
				c28Oracle(c, l, url, m, got)
			} else {
				c.Stat("build-unvalidated")
			}
			c.Out(l, "h "+c28Canonical(h)+" p "+ps)
		case f[0] == "emit" && len(f) == 8:
			nas, _ := strconv.Atoi(f[2])
			m := c28Meta(UnXS(f[1]), nas, UnXS(f[3]), f[4] == "true", UnXS(f[5]), UnXS(f[6]), UnXS(f[7]))
			murl, uerr := vgirpc.VerifC28MetadataURL(m.Resource)
			menr := XS(murl)
			if uerr != nil {
				menr = "-"
			}
			ml := "emit " + menr + " " + strings.Join(f[1:], " ")
			hs := vgirpc.NewHttpServer(vgirpc.NewServer())
			hs.SetAuthenticate(func(*http.Request) (*vgirpc.AuthContext, error) {
				return nil, &vgirpc.RpcError{Type: "ValueError", Message: "unauthorized"}
			})
			if err := hs.SetOAuthResourceMetadata(m); err != nil {
				k := c28ErrKind(err)
				c.Stat("emit-" + k)
				c.Out(ml, k)
				continue
			}
			hs.InitPages()
			req := httptest.NewRequest("POST", "/some_method", nil)
			req.Header.Set("Content-Type", "application/vnd.apache.arrow.stream")
			w := httptest.NewRecorder()
			hs.ServeHTTP(w, req)
			vals := w.Header().Values("WWW-Authenticate")
			if w.Code != http.StatusUnauthorized || len(vals) != 1 {
				c.Stat("emit-no-challenge")
				c.Oracle("no-challenge-on-401", fmt.Sprintf("%s: status %d, %d WWW-Authenticate values", l, w.Code, len(vals)))
				c.Out(ml, "err:no-challenge")
				continue
			}
			h := vals[0]
			ps, got := c28Parsed(h)
			if !strings.Contains(m.Resource, "\"") {
				// the Resource itself holds no raw quote (RFC 3986): the client must recover the advertised URL and fields
				c28Oracle(c, l, murl, m, got)
				c28LocationOracle(c, l, m.Resource, got[0])
			}
			if strings.Contains(murl, "\"") {
				c.Stat("emit-quoted-url")
				c.Out("hdr "+XS(h), "p "+ps)
				continue
			}
			c.Stat("emit-ok")
			if m.ClientID == "" && m.DeviceCodeClientID != "" {
				c.Stat("emit-ok-dcid-without-cid")
			}
			c.Out(ml, "h "+c28Canonical(h)+" p "+ps)
		case f[0] == "emitx" && len(f) >= 2:
			// a history of ALL the setters that could touch the challenge, in any order, on one server; then a real 401.
			// steps: M:<res>:<nAS>:<cid>:<flag>:<csec>:<dcid>:<dcsec> | K (SetOAuthPkce) | P:<prefix> (SetPrefix) | A (SetAuthenticate)
			hs := vgirpc.NewHttpServer(vgirpc.NewServer())
			reject := func(*http.Request) (*vgirpc.AuthContext, error) {
				return nil, &vgirpc.RpcError{Type: "ValueError", Message: "unauthorized"}
			}
			var msteps, mfields []string
			var last *vgirpc.OAuthResourceMetadata
			lastURL, prefix := "", ""
			haveAuth, bad := false, false
			panicked := ""
			func() {
				defer func() {
					if r := recover(); r != nil {
						panicked = fmt.Sprint(r)
					}
				}()
				for _, st := range f[1:] {
					g := strings.Split(st, ":")
					switch {
					case g[0] == "M" && len(g) == 8:
						nas, _ := strconv.Atoi(g[2])
						m := c28Meta(UnXS(g[1]), nas, UnXS(g[3]), g[4] == "true", UnXS(g[5]), UnXS(g[6]), UnXS(g[7]))
						murl, uerr := vgirpc.VerifC28MetadataURL(m.Resource)
						menr := XS(murl)
						if uerr != nil {
							menr = "-"
						}
						mfields = append(mfields, menr+" "+strings.Join(g[1:], " "))
						if err := hs.SetOAuthResourceMetadata(m); err != nil {
							msteps = append(msteps, c28ErrKind(err))
						} else {
							msteps = append(msteps, "ok")
							last, lastURL = m, murl
						}
					case g[0] == "K" && len(g) == 1:
						if err := hs.SetOAuthPkce(vgirpc.OAuthPkceConfig{}); err != nil {
							c.Stat("emitx-pkce-refused")
						} else {
							c.Stat("emitx-pkce-ok")
							if last != nil && last.ClientSecret != "" {
								c.Stat("emitx-pkce-ok-with-client-secret")
							}
						}
					case g[0] == "P" && len(g) == 2:
						prefix = UnXS(g[1])
						hs.SetPrefix(prefix)
						c.Stat("emitx-prefix")
					case g[0] == "A" && len(g) == 1:
						hs.SetAuthenticate(reject)
						haveAuth = true
					default:
						bad = true
					}
				}
				if !haveAuth {
					hs.SetAuthenticate(reject) // something has to answer 401
				}
			}()
			if bad {
				c.Out(l, "err:bad-op")
				continue
			}
			ml := fmt.Sprintf("emits %d", len(mfields))
			if len(mfields) > 0 {
				ml += " " + strings.Join(mfields, " ")
			}
			pre := "steps=" + strings.Join(msteps, ",") + " "
			if panicked != "" {
				c.Oracle("setter-panicked", fmt.Sprintf("%s: %s", l, panicked))
				c.Out(ml, pre+"panic")
				continue
			}
			hs.InitPages()
			req := httptest.NewRequest("POST", prefix+"/some_method", nil)
			req.Header.Set("Content-Type", "application/vnd.apache.arrow.stream")
			w := httptest.NewRecorder()
			hs.ServeHTTP(w, req)
			vals := w.Header().Values("WWW-Authenticate")
			c.Stat("emitx")
			if last == nil {
				if len(vals) != 0 {
					c.Oracle("challenge-without-accepted-configuration", fmt.Sprintf("%s: %q", l, vals))
					c.Out(ml, pre+"h "+c28Canonical(vals[0]))
				} else {
					c.Out(ml, pre+"none")
				}
				continue
			}
			if w.Code != http.StatusUnauthorized || len(vals) != 1 {
				c.Oracle("no-challenge-on-401", fmt.Sprintf("%s: status %d, %d WWW-Authenticate values", l, w.Code, len(vals)))
				c.Out(ml, pre+"err:no-challenge")
				continue
			}
			h := vals[0]
			ps, got := c28Parsed(h)
			if !strings.Contains(last.Resource, "\"") {
				// the LAST configured metadata and the URL derived from the RESOURCE, whatever other setters ran
				c28Oracle(c, l, lastURL, last, got)
				c28LocationOracle(c, l, last.Resource, got[0])
			}
			if strings.Contains(lastURL, "\"") {
				c.Out("hdr "+XS(h), "p "+ps)
				continue
			}
			c.Out(ml, pre+"h "+c28Canonical(h)+" p "+ps)
		case f[0] == "emits" && len(f) >= 2:
			// a configuration HISTORY on one server, then a real 401
			k, _ := strconv.Atoi(f[1])
			if k < 1 || len(f) != 2+7*k {
				c.Out(l, "err:bad-op")
				continue
			}
			hs := vgirpc.NewHttpServer(vgirpc.NewServer())
			hs.SetAuthenticate(func(*http.Request) (*vgirpc.AuthContext, error) {
				return nil, &vgirpc.RpcError{Type: "ValueError", Message: "unauthorized"}
			})
			ml := "emits " + f[1]
			var steps []string
			var last *vgirpc.OAuthResourceMetadata
			lastURL := ""
			for i := 0; i < k; i++ {
				g := f[2+7*i : 2+7*(i+1)]
				nas, _ := strconv.Atoi(g[1])
				m := c28Meta(UnXS(g[0]), nas, UnXS(g[2]), g[3] == "true", UnXS(g[4]), UnXS(g[5]), UnXS(g[6]))
				murl, uerr := vgirpc.VerifC28MetadataURL(m.Resource)
				menr := XS(murl)
				if uerr != nil {
					menr = "-"
				}
				ml += " " + menr + " " + strings.Join(g, " ")
				if err := hs.SetOAuthResourceMetadata(m); err != nil {
					steps = append(steps, c28ErrKind(err))
				} else {
					steps = append(steps, "ok")
					last, lastURL = m, murl
				}
			}
			hs.InitPages()
			req := httptest.NewRequest("POST", "/some_method", nil)
			req.Header.Set("Content-Type", "application/vnd.apache.arrow.stream")
			w := httptest.NewRecorder()
			hs.ServeHTTP(w, req)
			vals := w.Header().Values("WWW-Authenticate")
			pre := "steps=" + strings.Join(steps, ",") + " "
			c.Stat(fmt.Sprintf("emits-%d", k))
			if last == nil {
				if len(vals) != 0 {
					c.Oracle("challenge-without-accepted-configuration", fmt.Sprintf("%s: %q", l, vals))
					c.Out(ml, pre+"h "+c28Canonical(vals[0]))
				} else {
					c.Out(ml, pre+"none")
				}
				continue
			}
			if w.Code != http.StatusUnauthorized || len(vals) != 1 {
				c.Oracle("no-challenge-on-401", fmt.Sprintf("%s: status %d, %d WWW-Authenticate values", l, w.Code, len(vals)))
				c.Out(ml, pre+"err:no-challenge")
				continue
			}
			h := vals[0]
			ps, got := c28Parsed(h)
			if !strings.Contains(last.Resource, "\"") {
				// the property on the LAST accepted configuration
				c28Oracle(c, l, lastURL, last, got)
				c28LocationOracle(c, l, last.Resource, got[0])
			}
			if strings.Contains(lastURL, "\"") {
				c.Out("hdr "+XS(h), "p "+ps)
				continue
			}
			c.Out(ml, pre+"h "+c28Canonical(h)+" p "+ps)
		default:
			c.Out(l, "err:bad-op")
		}
	}
}
