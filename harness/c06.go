package main

import (
	"fmt"
	"strconv"
	"strings"
	"sync"

	"github.com/Query-farm/vgi-rpc-go/vgirpc"
)

// C06 — pipe streams obey the lockstep contract.
//
// Script line (one stream call on a fresh pipe session, followed by a unary probe call):
//   stream <method> <lvl> <rid> INIT … TURNS … REST <turn> IN <schemaVariant> <n> {d <val> <k> kv* | c}*n
// (grammar of the stream script: c06_family.go). The model line replaces <method> by its
// registration facts, the schema variant by its field list and adds to every data batch what
// arrow-go's compute.CastDatum (not vgirpc) makes of it against {x:int64}.
// Observation: every IPC stream the server wrote for the call (schema; log/exception/data
// batches with level, message, extras, value, custom metadata; no request ids; logs of the
// init handler - message prefix "init" - are left out: C06 is about turn logs) and the
// callbacks the state object saw (P<k>, X<k>=<input as seen>, C).

func init() {
	Register(&Prop{
		ID: "C06",
		Rule: "scripted producer/exchange/dynamic states (header or none, init logs/outcome, per-turn log/emit/emit-with-metadata/" +
			"echo/finish statements with propagate-or-ignore, turn end ok/error/panic, cancel hook absent/ok/err/panic) x client input " +
			"streams over 9 schema variants (equal, castable, uncastable, renamed, wrong arity, ticks) with cancel batches at any position; " +
			"non-trivial = the state object received at least one callback; distinct = distinct script lines",
		Gen:  c06Gen,
		Exec: c06Exec,
		NonTrivial: func(lines []string) bool {
			for _, l := range lines {
				if call, err := c06ParseLine(l); err == nil && call.script.Init.Kind == "ok" && len(call.in) > 0 {
					return true
				}
			}
			return false
		},
	})
}

var (
	c06Once   sync.Once
	c06Server *vgirpc.Server
)

func c06Setup() {
	c06Once.Do(func() {
		s := vgirpc.NewServer()
		s.SetServerID("verif-srv")
		famRegisterUnary(s)
		famRegisterStreams(s)
		c06Server = s
	})
}

// ---------------------------------------------------------------- generator

func c06Val(r *Rng) string {
	if r.Chance(8) {
		return "rows=0[]"
	}
	if r.Chance(8) {
		return fmt.Sprintf("rows=2[i:%d/i:%d]", r.Range(-5, 5), r.Range(100, 105))
	}
	return famTokI64(int64(r.Range(-3, 60)))
}

func c06Log(r *Rng) famOp {
	l := famLog{Level: famRandLevel(r), Msg: "t" + strconv.Itoa(r.Intn(50))}
	if r.Chance(25) {
		l.Extras = []vgirpc.KV{{Key: Pick(r, []string{"k", "a", "k"}), Value: famRandText(r)}, {Key: "k", Value: "v"}}[:r.Range(1, 2)]
	}
	return famOp{Kind: "log", Log: l}
}

func c06Fail(r *Rng, tag string) famOutcome {
	if r.Bool() {
		sub := Pick(r, []string{"rpc", "plain", "wrap"})
		o := famOutcome{Kind: "err", Sub: sub, Msg: tag + "-failed-" + strconv.Itoa(r.Intn(1000))}
		if sub == "rpc" {
			o.Typ = Pick(r, []string{"ValueError", "RuntimeError", "Custom"})
		}
		return o
	}
	sub := Pick(r, []string{"str", "err", "int"})
	o := famOutcome{Kind: "panic", Sub: sub, Msg: "PANIC-" + tag + "-" + strconv.Itoa(r.Intn(1000))}
	if sub == "int" {
		o.Int = 900000 + r.Intn(99999)
	}
	return o
}

// c06Turn draws one turn. fault selects an injected contract violation.
func c06Turn(r *Rng, producer bool) famTurn {
	var t famTurn
	t.End = famOutcome{Kind: "ok"}
	logs := func(max int) {
		for n := r.Intn(max + 1); n > 0; n-- {
			t.Ops = append(t.Ops, c06Log(r))
		}
	}
	emit := func() famOp {
		switch x := r.Intn(10); {
		case x < 4:
			return famOp{Kind: "echo", Prop: r.Bool()}
		case x < 8:
			return famOp{Kind: "emit", Val: c06Val(r), Prop: r.Bool()}
		default:
			return famOp{Kind: "emit", Val: c06Val(r), Prop: r.Bool(),
				MD: []vgirpc.KV{{Key: "vgi_batch_index", Value: strconv.Itoa(r.Intn(9))}, {Key: Pick(r, []string{"m", "vgi_batch_index", "z"}), Value: "v"}}[:r.Range(1, 2)]}
		}
	}
	logs(2)
	switch x := r.Intn(100); {
	case x < 58: // well-behaved
		t.Ops = append(t.Ops, emit())
		logs(1)
	case x < 64: // error / panic at the end, with or without a prior emit
		if r.Bool() {
			t.Ops = append(t.Ops, emit())
		}
		t.End = c06Fail(r, "turn")
	case x < 70: // no data batch at all
	case x < 77: // second emit (propagated or ignored)
		t.Ops = append(t.Ops, emit())
		logs(1)
		t.Ops = append(t.Ops, emit())
	case x < 88: // finish (refused on exchange), alone / after an emit / before an emit
		f := famOp{Kind: "finish", Prop: r.Bool()}
		switch r.Intn(3) {
		case 0:
			t.Ops = append(t.Ops, f)
		case 1:
			t.Ops = append(t.Ops, emit(), f)
		default:
			t.Ops = append(t.Ops, f, emit())
		}
		logs(1)
	default: // finish for producers, plain emit for exchanges
		if producer {
			t.Ops = append(t.Ops, famOp{Kind: "finish", Prop: true})
		} else {
			t.Ops = append(t.Ops, emit())
		}
	}
	return t
}

func c06GoodTurn(r *Rng) famTurn {
	t := famTurn{End: famOutcome{Kind: "ok"}}
	if r.Chance(40) {
		t.Ops = append(t.Ops, c06Log(r))
	}
	if r.Bool() {
		t.Ops = append(t.Ops, famOp{Kind: "echo", Prop: true})
	} else {
		t.Ops = append(t.Ops, famOp{Kind: "emit", Val: c06Val(r), Prop: true})
	}
	return t
}

func c06InputVal(r *Rng, variant string) string {
	switch variant {
	case "exact", "nullable", "name":
		if r.Chance(10) {
			return fmt.Sprintf("rows=2[i:%d/i:%d]", r.Intn(9), r.Intn(9))
		}
		if r.Chance(5) {
			return "rows=0[]"
		}
		return famTokI64(int64(r.Range(-1000, 1000)))
	case "i32":
		return "i32:" + strconv.Itoa(Pick(r, []int{0, 7, -7, 2147483647, -2147483648}))
	case "f64":
		return famTokF64(Pick(r, []float64{0, 3, -4, 2.5, 1e30, float64(r.Intn(100))}))
	case "utf8":
		return famTokStr(Pick(r, []string{"12", "-3", "abc", "", " 5", "9223372036854775808"}))
	case "two":
		return fmt.Sprintf("rows=1[i:%d|i:%d]", r.Intn(9), r.Intn(9))
	case "swap":
		return fmt.Sprintf("rows=1[i32:%d|i:%d]", r.Intn(9), r.Intn(9))
	default: // empty: a tick
		return "rows=0[]"
	}
}

func c06Script(r *Rng, method string) (*famStreamScript, bool) {
	producerMethod := strings.HasPrefix(method, "p_")
	s := &famStreamScript{}
	if r.Chance(40) {
		for n := r.Range(1, 3); n > 0; n-- {
			s.InitLogs = append(s.InitLogs, famLog{Level: famRandLevel(r), Msg: "init" + strconv.Itoa(r.Intn(9))})
		}
	}
	producer := producerMethod
	switch x := r.Intn(100); {
	case x < 5:
		s.Init.Fail = c06Fail(r, "init")
		s.Init.Kind = s.Init.Fail.Kind
	case x < 7:
		s.Init.Kind = "nil"
	default:
		s.Init.Kind = "ok"
		switch method {
		case "p_plain", "p_hdr":
			s.Init.State = Pick(r, []string{"prod", "prod", "prod", "prod", "prod", "prod", "prod", "prod", "prod", "both", "both", "both", "exch", "neither"})
		case "e_plain", "e_hdr":
			s.Init.State = Pick(r, []string{"exch", "exch", "exch", "exch", "exch", "exch", "exch", "exch", "exch", "both", "both", "both", "prod", "neither"})
		default:
			s.Init.State = Pick(r, []string{"prod", "exch", "prod", "exch", "prod", "exch", "prod", "exch", "both", "both", "neither"})
			producer = s.Init.State == "prod" || s.Init.State == "both"
		}
		s.Init.Hook = Pick(r, []string{"absent", "ok", "ok", "err", "panic"})
		s.Init.Header = "-"
		if r.Chance(60) {
			s.Init.Header = famHeaderToken(famHeader{N: int64(r.Range(-2, 99)), Note: Pick(r, []string{"", "hdr", "ünï ✓"})})
		}
		s.Init.InSch = "-"
		if method == "d_hdr" && !producer {
			s.Init.InSch = "decl"
		}
	}
	clean := r.Chance(35) // a stream of well-behaved turns only
	for n := r.Intn(6); n > 0; n-- {
		if clean {
			s.Turns = append(s.Turns, c06GoodTurn(r))
		} else {
			s.Turns = append(s.Turns, c06Turn(r, producer))
		}
	}
	switch {
	case producer && r.Chance(70):
		s.Rest = famTurn{Ops: []famOp{{Kind: "finish", Prop: true}}, End: famOutcome{Kind: "ok"}}
	case clean || r.Chance(70):
		s.Rest = c06GoodTurn(r)
	default:
		s.Rest = c06Turn(r, producer)
	}
	return s, producer
}

func c06Inputs(r *Rng, producer bool) (string, []famInBatch) {
	var variant string
	if producer {
		variant = Pick(r, []string{"empty", "empty", "empty", "empty", "exact", "two"})
	} else {
		variant = Pick(r, []string{"exact", "exact", "exact", "exact", "exact", "exact", "exact", "exact", "nullable", "nullable", "i32", "i32", "f64", "f64", "utf8", "utf8", "name", "two", "swap", "empty"})
	}
	n := r.Intn(9)
	var bs []famInBatch
	for i := 0; i < n; i++ {
		b := famInBatch{Val: c06InputVal(r, variant)}
		if r.Chance(15) {
			b.MD = []vgirpc.KV{{Key: "vgi_pushdown_filters", Value: "f" + strconv.Itoa(i)}}
		}
		bs = append(bs, b)
	}
	if r.Chance(30) { // cancel at any position (also first / after the end of the script)
		p := r.Intn(len(bs) + 1)
		bs = append(bs[:p], append([]famInBatch{{Cancel: true}}, bs[p:]...)...)
		if r.Chance(15) {
			bs = append(bs, famInBatch{Cancel: true})
		}
	}
	return variant, bs
}

func c06Line(method, lvl, rid string, s *famStreamScript, variant string, in []famInBatch) string {
	t := append([]string{"stream", method, XS(lvl), XS(rid)}, s.tokens()...)
	return strings.Join(append(t, famInputTokens(variant, in)...), " ")
}

func c06Gen(g *Gen) {
	r := g.Rng
	n := g.N(4000, 60000)
	for i := 0; i < n; i++ {
		method := Pick(r, famStreamMethods)
		s, producer := c06Script(r, method)
		variant, in := c06Inputs(r, producer)
		lvl := Pick(r, []string{"", "", "TRACE", "INFO", "ERROR", "info"})
		rid := Pick(r, []string{"", "r1", "req-✓"})
		g.Case(c06Line(method, lvl, rid, s, variant, in))
	}
	if g.Thorough() {
		// exhaustive: every sequence of <= 3 turns over a turn-action alphabet x cancel position, both modes
		okEnd := famOutcome{Kind: "ok"}
		alpha := func(producer bool) []famTurn {
			a := []famTurn{
				{Ops: []famOp{{Kind: "echo", Prop: true}}, End: okEnd},
				{Ops: []famOp{{Kind: "log", Log: famLog{Level: "INFO", Msg: "l"}}, {Kind: "emit", Val: "i:1", Prop: true}}, End: okEnd},
				{End: okEnd}, // no data
				{Ops: []famOp{{Kind: "echo", Prop: true}, {Kind: "echo", Prop: true}}, End: okEnd},
				{Ops: []famOp{{Kind: "echo", Prop: false}, {Kind: "echo", Prop: false}}, End: okEnd},
				{Ops: []famOp{{Kind: "finish", Prop: true}}, End: okEnd},
				{Ops: []famOp{{Kind: "finish", Prop: false}, {Kind: "echo", Prop: true}}, End: okEnd},
				{Ops: []famOp{{Kind: "echo", Prop: true}}, End: famOutcome{Kind: "err", Sub: "plain", Msg: "turn-failed"}},
				{Ops: []famOp{{Kind: "echo", Prop: true}}, End: famOutcome{Kind: "panic", Sub: "str", Msg: "PANIC-turn"}},
			}
			_ = producer
			return a
		}
		for _, method := range []string{"p_plain", "e_hdr"} {
			producer := method == "p_plain"
			a := alpha(producer)
			var rec func(prefix []famTurn, depth int)
			rec = func(prefix []famTurn, depth int) {
				if depth == 0 {
					for cancelAt := -1; cancelAt <= 4; cancelAt++ {
						s := &famStreamScript{Turns: prefix, Rest: a[0]}
						s.Init = famInit{Kind: "ok", State: map[bool]string{true: "prod", false: "exch"}[producer], Hook: "ok", Header: "-", InSch: "-"}
						if !producer {
							s.Init.Header = famHeaderToken(famHeader{N: 1, Note: "h"})
						}
						variant := map[bool]string{true: "empty", false: "exact"}[producer]
						var in []famInBatch
						for k := 0; k < 4; k++ {
							if k == cancelAt {
								in = append(in, famInBatch{Cancel: true})
							}
							v := "rows=0[]"
							if !producer {
								v = famTokI64(int64(10 + k))
							}
							in = append(in, famInBatch{Val: v})
						}
						if cancelAt == 4 {
							in = append(in, famInBatch{Cancel: true})
						}
						g.Case(c06Line(method, "", "r", s, variant, in))
					}
					return
				}
				for _, t := range a {
					rec(append(append([]famTurn{}, prefix...), t), depth-1)
				}
			}
			for d := 0; d <= 3; d++ {
				rec(nil, d)
			}
		}
	}
}

// ---------------------------------------------------------------- exec

type c06Call struct {
	method, lvl, rid string
	script           *famStreamScript
	variant          string
	in               []famInBatch
	scriptTokens     []string
}

func c06ParseLine(l string) (*c06Call, error) {
	f := strings.Fields(l)
	if len(f) < 5 || f[0] != "stream" {
		return nil, fmt.Errorf("not a stream line")
	}
	c := &c06Call{method: f[1]}
	lvl, ok1 := UnX(f[2])
	rid, ok2 := UnX(f[3])
	if !ok1 || !ok2 {
		return nil, fmt.Errorf("bad header")
	}
	c.lvl, c.rid = string(lvl), string(rid)
	s, rest, err := famParseStreamScript(f[4:])
	if err != nil {
		return nil, err
	}
	c.script = s
	c.scriptTokens = f[4 : len(f)-len(rest)]
	c.variant, c.in, rest, err = famParseInput(rest)
	if err != nil {
		return nil, err
	}
	if len(rest) != 0 {
		return nil, fmt.Errorf("trailing tokens")
	}
	return c, nil
}

const c06ProbeVal = "i:424242"

// c06ExcCanon: an exception batch is `exc err:<hex>` when its message is one of the script's own
// error messages, `exc panic` when it contains one of the script's panic values, else `exc fw`.
func c06ExcCanon(s *famStreamScript, msg string) string {
	var errs, panics []string
	add := func(o famOutcome) {
		switch o.Kind {
		case "err":
			_, m := o.failure()
			errs = append(errs, m)
		case "panic":
			if t := o.panicText(); t != "" {
				panics = append(panics, t)
			}
		}
	}
	if s.Init.Kind == "err" || s.Init.Kind == "panic" {
		add(s.Init.Fail)
	}
	for _, t := range s.Turns {
		add(t.End)
	}
	add(s.Rest.End)
	for _, e := range errs {
		if e == msg {
			return "exc err:" + fmt.Sprintf("%x", msg)
		}
	}
	for _, p := range panics {
		if strings.Contains(msg, p) {
			return "exc panic"
		}
	}
	return "exc fw"
}

func c06StreamCanon(s *famStreamScript, st famStream) string {
	parts := []string{famSchemaCanon(st.Schema)}
	for _, b := range st.Batches {
		switch b.kind() {
		case "log":
			lvl, _ := b.get(vgirpc.MetaLogLevel)
			msg, _ := b.get(vgirpc.MetaLogMessage)
			if strings.HasPrefix(msg, "init") {
				continue // init-handler logs (generated with this prefix): C06 does not speak about them
			}
			_, ex := b.extras()
			parts = append(parts, fmt.Sprintf("log %s %s %s", XS(lvl), XS(msg), ex))
		case "exc":
			msg, _ := b.get(vgirpc.MetaLogMessage)
			parts = append(parts, c06ExcCanon(s, msg))
		default:
			parts = append(parts, b.canon())
		}
	}
	return strings.Join(parts, " ; ")
}

func c06MethodFacts(info vgirpc.VerifC04Method) []string {
	typ := info.Kind
	out, reg := famSchemaCanon(famOutSchema), "0" // what the scripted init returns as StreamResult.OutputSchema
	if info.OutputSchema != nil {
		out, reg = famSchemaCanon(info.OutputSchema), "1"
	}
	hh := "0"
	if info.HasHeader {
		hh = "1"
	}
	return []string{typ, out, reg, famFieldsCanon(info.InputSchema), hh, famSchemaCanon(info.HeaderSchema)}
}

func c06Exec(c *Case) {
	c06Setup()
	famResetShared()
	for _, l := range c.Lines {
		call, err := c06ParseLine(l)
		if err != nil {
			c.Out(l, "err:bad-script")
			continue
		}
		info, ok := c06Server.VerifC04Method(call.method)
		if !ok || info.Kind == "unary" {
			c.Out(l, "err:unknown-method")
			continue
		}
		// model line
		ml := append([]string{"stream"}, c06MethodFacts(info)...)
		ml = append(ml, XS(call.lvl), XS(call.rid))
		for i, t := range call.scriptTokens {
			// the init's `decl` input schema becomes its field list
			if t == "decl" && i >= 4 && call.scriptTokens[i-4] == "ok" {
				t = famFieldsCanon(famInSchema)
			}
			ml = append(ml, t)
		}
		ml = append(ml, "IN", famFieldsCanon(famInVariants[call.variant]), strconv.Itoa(len(call.in)))
		for _, b := range call.in {
			if b.Cancel {
				ml = append(ml, "c")
			} else {
				ml = append(ml, "d", b.Val, famLibCast(call.variant, b.Val, famInSchema))
			}
		}
		modelLine := strings.Join(ml, " ")

		// run: request, input stream, probe — one pipe session
		sid := famNewSID()
		input := famRequest(call.method, sid+" "+strings.Join(call.scriptTokens, " "), call.lvl, call.rid)
		instream, err := famInputStream(call.variant, call.in)
		if err != nil {
			c.Out(l, "err:bad-input "+err.Error())
			continue
		}
		input = append(input, instream...)
		input = append(input, famRequest("u_i64", "0 ret "+c06ProbeVal, "", "probe")...)
		out, p := famServePipe(c06Server, input)
		calls := famTakeCalls(sid)
		if p != nil {
			c.Out(modelLine, "err:server-panic")
			c.Oracle("pipe-server-panic", fmt.Sprintf("%q: Serve panicked: %v", l, p))
			continue
		}
		streams, rerr := famReadStreams(out)
		probeOK := false
		if n := len(streams); n > 0 && rerr == nil {
			last := streams[n-1]
			if len(last.Batches) == 1 && last.Batches[0].Val == c06ProbeVal {
				probeOK = true
				streams = streams[:n-1]
			}
		}
		parts := []string{}
		for _, st := range streams {
			parts = append(parts, c06StreamCanon(call.script, st))
		}
		obs := strings.Join(parts, " || ") + " ## calls=" + strings.Join(calls, ",")
		c.Out(modelLine, obs)
		if !probeOK {
			c.Oracle("session-out-of-frame", fmt.Sprintf("%q: the unary call following the stream was not answered in frame (decode err=%v)", l, rerr))
		}
		c06Oracle(c, call, info, streams, calls, l)
	}
}

// ---------------------------------------------------------------- oracle

// turnClass is a conservative static reading of a turn script.
//
//	"data"   exactly one emit/echo statement, no finish, ends ok        -> completes with one data batch
//	"finish" producer only: one finish statement, at most one emit, ends ok -> ends the stream
//	"fail"   ends in error/panic, or has no emit and (exchange or no finish) -> exactly one exception
//	"?"      anything else (second emit, finish on exchange mixed with emits …)
func c06TurnClass(t famTurn, producer bool) string {
	emits, finishes := 0, 0
	for _, op := range t.Ops {
		switch op.Kind {
		case "emit", "echo":
			emits++
		case "finish":
			finishes++
		}
	}
	switch {
	case t.End.Kind != "ok":
		return "fail"
	case emits == 0 && (!producer || finishes == 0):
		return "fail"
	case emits == 1 && finishes == 0:
		return "data"
	case producer && finishes == 1 && emits <= 1:
		return "finish"
	}
	return "?"
}

func c06Oracle(c *Case, call *c06Call, info vgirpc.VerifC04Method, streams []famStream, calls []string, line string) {
	fail := func(class, format string, a ...any) {
		c.Oracle(class, fmt.Sprintf("%q: ", line)+fmt.Sprintf(format, a...))
	}
	s := call.script
	// ---- clauses that hold for every call
	nExc, excLast := 0, false
	for si, st := range streams {
		for bi, b := range st.Batches {
			if b.kind() == "exc" {
				nExc++
				excLast = si == len(streams)-1 && bi == len(st.Batches)-1
			}
		}
	}
	if nExc > 1 {
		fail("more-than-one-exception", "%d exception batches", nExc)
	}
	if nExc == 1 && !excLast {
		fail("output-after-exception", "the exception batch is not the last batch written for the call")
	}
	nCancelCalls, turnCalls := 0, []string{}
	for i, cb := range calls {
		if cb == "C" {
			nCancelCalls++
			if i != len(calls)-1 {
				fail("turn-run-after-cancel", "callbacks %v: a turn ran after OnCancel", calls)
			}
		} else {
			turnCalls = append(turnCalls, cb)
		}
	}
	if nCancelCalls > 1 {
		fail("cancel-hook-more-than-once", "OnCancel ran %d times", nCancelCalls)
	}
	if s.Init.Kind != "ok" {
		c.Stat("init-" + s.Init.Kind)
		if len(calls) != 0 {
			fail("callback-after-failed-init", "init did not return a state but callbacks %v ran", calls)
		}
		if nExc != 1 {
			fail("failed-init-without-exception", "init failed but %d exception batches were written", nExc)
		}
		return
	}
	// mode and fit (registration facts, not the implementation's decision)
	var producer, fits bool
	st := s.Init.State
	isP, isE := st == "prod" || st == "both", st == "exch" || st == "both"
	switch info.Kind {
	case "producer":
		producer, fits = true, isP
	case "exchange":
		producer, fits = false, isE
	default:
		producer, fits = isP, isP || isE
	}
	if !fits {
		c.Stat("state-does-not-fit")
		if len(calls) != 0 || nExc != 1 {
			fail("unfit-state-dispatched", "state %s does not fit a %s method: callbacks %v, %d exceptions", st, info.Kind, calls, nExc)
		}
		return
	}
	// ---- header: its own stream, first, nothing else in it but init logs
	wantHeader := info.HasHeader && s.Init.Header != "-"
	if wantHeader {
		if len(streams) != 2 {
			fail("header-not-own-stream", "want header stream + output stream, got %d streams", len(streams))
			return
		}
		h := streams[0]
		if !h.Schema.Equal(famHdrSchema) {
			fail("header-not-own-stream", "first stream has schema %s", famSchemaCanon(h.Schema))
		}
		nd := 0
		for i, b := range h.Batches {
			switch b.kind() {
			case "log":
			case "data":
				nd++
				if b.Val != s.Init.Header || i != len(h.Batches)-1 {
					fail("header-stream-content", "header stream batch %d is %s, want last = %s", i, b.canon(), s.Init.Header)
				}
			default:
				fail("header-stream-content", "header stream holds a %s batch", b.kind())
			}
		}
		if nd != 1 {
			fail("header-stream-content", "header stream holds %d data batches", nd)
		}
		c.Stat("header")
	} else if len(streams) != 1 {
		fail("unexpected-stream-count", "no header expected, got %d streams", len(streams))
		return
	}
	out := streams[len(streams)-1]
	if !out.Schema.Equal(famOutSchema) {
		fail("output-schema-mismatch", "output stream schema %s", famSchemaCanon(out.Schema))
	}
	var data []famBatch
	for _, b := range out.Batches {
		if k := b.kind(); k == "data" || k == "void" {
			data = append(data, b)
		}
	}
	// inputs before the first cancel
	pre, cancelled := call.in, false
	for i, b := range call.in {
		if b.Cancel {
			pre, cancelled = call.in[:i], true
			break
		}
	}
	if producer {
		c.Stat("mode-producer")
	} else {
		c.Stat("mode-exchange")
	}
	// turn callbacks are P0,P1,… / X0,X1,… in order, never beyond the inputs before the cancel
	for i, cb := range turnCalls {
		want := "P" + strconv.Itoa(i)
		if !producer {
			want = "X" + strconv.Itoa(i) + "="
		}
		if !strings.HasPrefix(cb, want) {
			fail("turn-order", "callback %d is %q, want %s…", i, cb, want)
			return
		}
	}
	if len(turnCalls) > len(pre) {
		if cancelled {
			fail("turn-run-after-cancel", "%d turns ran, only %d input batches precede the cancel batch", len(turnCalls), len(pre))
		} else {
			fail("turn-without-input", "%d turns ran for %d input batches", len(turnCalls), len(pre))
		}
		return
	}
	if len(data) > len(turnCalls) {
		fail("more-data-than-turns", "%d data batches for %d turns", len(data), len(turnCalls))
	}
	// exchange: inputs reach the state in input order, cast to the declared schema
	castFails := false
	if !producer {
		for i, cb := range turnCalls {
			want := famLibCast(call.variant, pre[i].Val, famInSchema)
			if got := cb[strings.IndexByte(cb, '=')+1:]; got != want {
				fail("exchange-input-order-or-cast", "turn %d saw input %s, the client's batch %d is %s (cast: %s)", i, got, i, pre[i].Val, want)
			}
		}
		// first input that does not fit the declared schema (renamed / arity / uncastable)
		for i := range pre {
			if w := famLibCast(call.variant, pre[i].Val, famInSchema); w == "-" || w == "fail" || call.variant == "name" {
				castFails = true
				if len(turnCalls) > i {
					fail("uncastable-input-dispatched", "input batch %d (%s as %s) reached the state", i, pre[i].Val, call.variant)
				}
				pre = pre[:i]
				break
			}
		}
	}
	// walk the script with the conservative classes
	expectTurns, end := 0, "inputs" // inputs | finish | fail | unknown
	for k := 0; k < len(pre); k++ {
		cl := c06TurnClass(s.turnAt(k), producer)
		expectTurns++
		if cl == "data" {
			continue
		}
		end = map[string]string{"finish": "finish", "fail": "fail", "?": "unknown"}[cl]
		break
	}
	if end == "unknown" {
		c.Stat("oracle-partial")
		// at least: no turn ran beyond the inputs, exceptions/cancel clauses above
		return
	}
	c.Stat("end-" + end)
	if len(turnCalls) != expectTurns {
		switch {
		case end == "fail" && len(turnCalls) > expectTurns:
			fail("turn-run-after-failed-turn", "turn %d fails by script, but %d turns ran", expectTurns-1, len(turnCalls))
		case end == "finish" && len(turnCalls) > expectTurns:
			fail("turn-run-after-finish", "turn %d finishes the stream, but %d turns ran", expectTurns-1, len(turnCalls))
		case !producer && len(turnCalls) < expectTurns:
			fail("exchange-ended-early", "%d of %d input batches were exchanged", len(turnCalls), expectTurns)
		default:
			fail("turn-count", "%d turns ran, the script and inputs call for %d", len(turnCalls), expectTurns)
		}
		return
	}
	wantData := expectTurns
	if end == "fail" {
		wantData = expectTurns - 1
	}
	if end == "finish" {
		wantData = expectTurns - 1
		for _, op := range s.turnAt(expectTurns - 1).Ops {
			if op.Kind == "emit" || op.Kind == "echo" {
				wantData = expectTurns
			}
		}
	}
	if len(data) != wantData {
		if producer {
			fail("producer-data-count", "%d data batches, want %d (one per tick until the state finishes)", len(data), wantData)
		} else {
			fail("exchange-data-count", "%d data batches for %d exchanged input batches", len(data), wantData)
		}
	}
	wantExc := 0
	if end == "fail" || (castFails && end == "inputs") {
		wantExc = 1
	}
	if nExc != wantExc {
		if wantExc == 1 {
			fail("failed-turn-without-exception", "the stream must end with exactly one exception batch, got %d", nExc)
		} else {
			fail("exception-on-clean-stream", "%d exception batches on a stream whose turns all completed", nExc)
		}
	}
	// echo turns return the input in input order
	if !producer {
		di := 0
		for k := 0; k < wantData && di < len(data); k++ {
			t := s.turnAt(k)
			for _, op := range t.Ops {
				if op.Kind == "echo" {
					if want := famLibCast(call.variant, pre[k].Val, famInSchema); data[di].Val != want {
						fail("exchange-output-order", "data batch %d is %s, the echo of input %d is %s", di, data[di].Val, k, want)
					}
				}
			}
			di++
		}
	}
	// cancel hook: exactly once iff the cancel batch was reached, never otherwise
	reached := cancelled && end == "inputs" && !castFails && expectTurns == len(pre)
	wantCancel := 0
	if reached && s.Init.Hook != "absent" {
		wantCancel = 1
	}
	if nCancelCalls != wantCancel {
		fail("cancel-hook-count", "OnCancel ran %d times, want %d (cancel reached: %v, hook: %s)", nCancelCalls, wantCancel, reached, s.Init.Hook)
	}
	if cancelled {
		c.Stat("cancel")
	}
}
