module verifharness

go 1.26.0

require (
	github.com/Query-farm/vgi-rpc-go v0.15.0
	github.com/Query-farm/vgi-rpc-go/vgirpc/gcs v0.0.0
	github.com/Query-farm/vgi-rpc-go/vgirpc/otel v0.16.0
	github.com/Query-farm/vgi-rpc-go/vgirpc/s3 v0.0.0
	github.com/apache/arrow-go/v18 v18.6.0
	github.com/google/uuid v1.6.0
	github.com/klauspost/compress v1.19.0
	go.opentelemetry.io/otel v1.44.0
	go.opentelemetry.io/otel/sdk v1.44.0
	go.opentelemetry.io/otel/sdk/metric v1.44.0
	go.opentelemetry.io/otel/trace v1.44.0
	golang.org/x/crypto v0.54.0
)

require (
	cel.dev/expr v0.25.2 // indirect
	cloud.google.com/go v0.123.0 // indirect
	cloud.google.com/go/auth v0.22.0 // indirect
	cloud.google.com/go/auth/oauth2adapt v0.2.8 // indirect
	cloud.google.com/go/compute/metadata v0.9.0 // indirect
	cloud.google.com/go/iam v1.12.0 // indirect
	cloud.google.com/go/monitoring v1.30.0 // indirect
	cloud.google.com/go/storage v1.63.1 // indirect
	github.com/GoogleCloudPlatform/opentelemetry-operations-go/detectors/gcp v1.34.0 // indirect
	github.com/GoogleCloudPlatform/opentelemetry-operations-go/exporter/metric v0.58.0 // indirect
	github.com/GoogleCloudPlatform/opentelemetry-operations-go/internal/resourcemapping v0.58.0 // indirect
	github.com/andybalholm/brotli v1.2.2 // indirect
	github.com/apache/thrift v0.24.0 // indirect
	github.com/aws/aws-sdk-go-v2 v1.42.1 // indirect
	github.com/aws/aws-sdk-go-v2/aws/protocol/eventstream v1.7.14 // indirect
	github.com/aws/aws-sdk-go-v2/config v1.32.30 // indirect
	github.com/aws/aws-sdk-go-v2/credentials v1.19.29 // indirect
	github.com/aws/aws-sdk-go-v2/feature/ec2/imds v1.18.30 // indirect
	github.com/aws/aws-sdk-go-v2/internal/configsources v1.4.30 // indirect
	github.com/aws/aws-sdk-go-v2/internal/endpoints/v2 v2.7.30 // indirect
	github.com/aws/aws-sdk-go-v2/internal/v4a v1.4.31 // indirect
	github.com/aws/aws-sdk-go-v2/service/internal/accept-encoding v1.13.13 // indirect
	github.com/aws/aws-sdk-go-v2/service/internal/checksum v1.9.23 // indirect
	github.com/aws/aws-sdk-go-v2/service/internal/presigned-url v1.13.30 // indirect
	github.com/aws/aws-sdk-go-v2/service/internal/s3shared v1.19.31 // indirect
	github.com/aws/aws-sdk-go-v2/service/s3 v1.105.2 // indirect
	github.com/aws/aws-sdk-go-v2/service/signin v1.4.1 // indirect
	github.com/aws/aws-sdk-go-v2/service/sso v1.32.1 // indirect
	github.com/aws/aws-sdk-go-v2/service/ssooidc v1.37.1 // indirect
	github.com/aws/aws-sdk-go-v2/service/sts v1.44.1 // indirect
	github.com/aws/smithy-go v1.27.4 // indirect
	github.com/cespare/xxhash/v2 v2.3.0 // indirect
	github.com/cncf/xds/go v0.0.0-20260202195803-dba9d589def2 // indirect
	github.com/envoyproxy/go-control-plane/envoy v1.37.0 // indirect
	github.com/envoyproxy/protoc-gen-validate v1.3.3 // indirect
	github.com/felixge/httpsnoop v1.1.0 // indirect
	github.com/go-jose/go-jose/v4 v4.1.4 // indirect
	github.com/go-logr/logr v1.4.3 // indirect
	github.com/go-logr/stdr v1.2.2 // indirect
	github.com/goccy/go-json v0.10.6 // indirect
	github.com/google/flatbuffers v25.12.19+incompatible // indirect
	github.com/google/s2a-go v0.1.9 // indirect
	github.com/googleapis/enterprise-certificate-proxy v0.3.18 // indirect
	github.com/googleapis/gax-go/v2 v2.23.0 // indirect
	github.com/klauspost/cpuid/v2 v2.4.0 // indirect
	github.com/pierrec/lz4/v4 v4.1.27 // indirect
	github.com/spiffe/go-spiffe/v2 v2.8.1 // indirect
	github.com/zeebo/xxh3 v1.1.0 // indirect
	go.opentelemetry.io/auto/sdk v1.2.1 // indirect
	go.opentelemetry.io/contrib/detectors/gcp v1.44.0 // indirect
	go.opentelemetry.io/contrib/instrumentation/google.golang.org/grpc/otelgrpc v0.69.0 // indirect
	go.opentelemetry.io/contrib/instrumentation/net/http/otelhttp v0.69.0 // indirect
	go.opentelemetry.io/otel/metric v1.44.0 // indirect
	golang.org/x/exp v0.0.0-20260718201538-764159d718ef // indirect
	golang.org/x/net v0.57.0 // indirect
	golang.org/x/oauth2 v0.36.0 // indirect
	golang.org/x/sync v0.22.0 // indirect
	golang.org/x/sys v0.47.0 // indirect
	golang.org/x/text v0.40.0 // indirect
	golang.org/x/time v0.15.0 // indirect
	google.golang.org/api v0.289.0 // indirect
	google.golang.org/genproto v0.0.0-20260715232425-e75dac1f907d // indirect
	google.golang.org/genproto/googleapis/api v0.0.0-20260715232425-e75dac1f907d // indirect
	google.golang.org/genproto/googleapis/rpc v0.0.0-20260715232425-e75dac1f907d // indirect
	google.golang.org/grpc v1.82.1 // indirect
	google.golang.org/protobuf v1.36.11 // indirect
)

replace github.com/Query-farm/vgi-rpc-go => /repo

replace github.com/Query-farm/vgi-rpc-go/vgirpc/otel => /repo/vgirpc/otel

replace github.com/Query-farm/vgi-rpc-go/vgirpc/s3 => /repo/vgirpc/s3

replace github.com/Query-farm/vgi-rpc-go/vgirpc/gcs => /repo/vgirpc/gcs
