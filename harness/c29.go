package main

import (
	"bytes"
	"context"
	"crypto/rand"
	"encoding/base64"
	"encoding/hex"
	"fmt"
	"io"
	"net/http"
	"net/http/httptest"
	"runtime"
	"sort"
	"strconv"
	"strings"
	"sync"
	"sync/atomic"
	"time"

	"github.com/Query-farm/vgi-rpc-go/vgirpc"
	"github.com/apache/arrow-go/v18/arrow"
	"github.com/apache/arrow-go/v18/arrow/array"
	"github.com/apache/arrow-go/v18/arrow/ipc"
	"github.com/apache/arrow-go/v18/arrow/memory"
	"golang.org/x/crypto/chacha20poly1305"
)

// C29 — sticky sessions: isolation per caller, serialization per session, Close exactly once,
// drain refuses opens, no lock left held.
//
// One case = one world of 1..3 real HttpServers ("workers") with sticky sessions enabled. Requests
// are REAL HTTP requests through HttpServer.ServeHTTP, each in its own goroutine; the handler is a
// scripted program that can block at `b` until the script says `go <t>`, which is how a schedule is
// forced. After every script line the harness waits until every request is done, blocked in its
// handler, or parked on the per-session lock (read off the goroutine's wait state), and prints the
// status of every unfinished request.
//
//   worker <w> x<key> x<serverId> <ttlTicks>          (1 tick = 10 s; ttl<=0 -> default 300 s)
//   call <t> <w> <ident> <tok> <accept> <prog>        prog: o<ttl>/<sid24hex>  c  s  b  p   (comma separated) or -
//   delete <t> <w> <ident> <tok>                      DELETE /__session__
//   go <t>                                            release thread t from its `b`
//   age <ticks> | reap <w> | reapat <w> <sid> <dns> | shutdown <w> | drain <w> <0|1> | snap
//   aad <ident> | plain x<srvhex> x<sidhex> | parse x<plainhex>        pure helpers vs the model
//   stress <seed> <n> <k> | realreaper <seed>         concurrent searches on a private server
//
// ident: anon | a:<domainhex>:<principalhex> | u:<domainhex>:<principalhex>
// tok:   - | T<k>[+pad|+ws|+ver<n>|+flip<i>|+trunc<n>] | Gbad/<hex> | Graw/<hex> |
//        S/<w>/<ident>/<srvhex>/<sidhex> | P/<w>/<ident>/<plainhex>

const c29Tick = 10 * time.Second

func init() {
	Register(&Prop{
		ID: "C29",
		Rule: "scenarios over 1-3 real HttpServers (shared/distinct keys, distinct server ids, forced session-id collisions across workers): " +
			"open/resume/close/delete/expire/reap/drain/shutdown, handler panics after open, tampered/foreign/crafted tokens, " +
			"forced schedules with blocking handlers (same-session contention, close/delete/expiry racing a held lock); " +
			"non-trivial = at least one session-opening call and one later request presenting a token; distinct = distinct scripts",
		Gen:  c29Gen,
		Exec: c29Exec,
		NonTrivial: func(lines []string) bool {
			o, u := false, false
			for _, l := range lines {
				f := strings.Fields(l)
				if len(f) == 7 && f[0] == "call" && strings.Contains(f[6], "o") {
					o = true
				}
				if (len(f) == 7 && f[0] == "call" && f[4] != "-") || (len(f) == 5 && f[0] == "delete" && f[4] != "-") {
					u = true
				}
			}
			return o && u
		},
	})
	vgirpc.RegisterStateType(&c29Prod{})
	vgirpc.RegisterStateType(&c29Exch{})
	c29InstallRand()
}

// ---------------------------------------------------------------- forced session ids

type c29Rand struct {
	orig io.Reader
	mu   sync.Mutex
	next []byte
	slow atomic.Int64 // ns to dawdle on every read (a slow entropy source; widens the open/drain window)
}

var c29Rd *c29Rand

func c29InstallRand() {
	c29Rd = &c29Rand{orig: rand.Reader}
	rand.Reader = c29Rd
}

func (r *c29Rand) Read(p []byte) (int, error) {
	if d := r.slow.Load(); d > 0 {
		time.Sleep(time.Duration(d))
	}
	r.mu.Lock()
	if r.next != nil && len(p) == len(r.next) {
		copy(p, r.next)
		r.next = nil
		r.mu.Unlock()
		return len(p), nil
	}
	r.mu.Unlock()
	return r.orig.Read(p)
}

func (r *c29Rand) force(sid []byte) {
	r.mu.Lock()
	r.next = append([]byte(nil), sid...)
	r.mu.Unlock()
}

func (r *c29Rand) clear() (consumed bool) {
	r.mu.Lock()
	consumed = r.next == nil
	r.next = nil
	r.mu.Unlock()
	return
}

// ---------------------------------------------------------------- world

type c29State struct {
	key    string // w/sidhex
	opener string // ident spec of the request that opened it
	active atomic.Int32
	closes atomic.Int32
	w      *c29World

	registered  atomic.Bool // OpenSession returned nil (concurrent searches)
	openStarted time.Time
	openedAt    time.Time
	mode       int // 0 plain, 1 Close panics, 2 Close blocks until `goclose`
	barrier    chan struct{}
	released   atomic.Bool
	blockedNow atomic.Bool
	closers    sync.Map // gid -> true: goroutines currently inside the blocking Close (a defect can make it several)
}

func (s *c29State) release() {
	if !s.released.Swap(true) && s.barrier != nil {
		close(s.barrier)
	}
}

func (s *c29State) Close() error {
	if s.mode == 2 && !s.released.Load() {
		g := c29Gid()
		s.closers.Store(g, true)
		s.blockedNow.Store(true)
		<-s.barrier
		s.closers.Delete(g)
		s.blockedNow.Store(false)
	}
	if s.mode == 1 {
		defer panic("c29 scripted Close panic")
	}
	s.closes.Add(1)
	// DELETE is documented to serialize with an in-flight call on the same session: its Close must not
	// run underneath a handler that is still executing on this state. (Expiry, the reaper and shutdown
	// may close under a running handler — that is the code's stated behaviour — and a handler may close
	// its own session.)
	if n := s.active.Load(); n > 0 && s.w != nil {
		gid := c29Gid()
		byDelete := -1
		s.w.mu.Lock()
		for _, t := range s.w.threads {
			if t.gid == gid && t.isDelete {
				byDelete = t.id
			}
		}
		s.w.mu.Unlock()
		if byDelete >= 0 {
			// decided when the DELETE completes: a 200 means this Close was the in-line eviction of an
			// EXPIRED session inside registry.get (allowed under a running handler), a 204 means it was the
			// DELETE's own close
			s.w.mu.Lock()
			s.w.pendingCDH = append(s.w.pendingCDH, c29CDH{byDelete, fmt.Sprintf("DELETE (thread %d) ran Close on session %s while %d call(s) were still inside their handler on it", byDelete, s.key, n)})
			s.w.mu.Unlock()
		}
	}
	return nil
}

type c29Worker struct {
	h        *vgirpc.HttpServer
	key      []byte
	serverID string
	draining bool
}

type c29Pub struct {
	token  string
	worker int
	ident  string
	sid    string
}

type c29Thread struct {
	id       int
	worker   int
	ident    string
	tokSpec  string
	isDelete bool
	accept   bool
	route    string // "" unary | init | cont | exch | cancel (stream routes)
	ran      bool
	noForce  bool
	spin     bool
	tokSrv   string // server id the presented token was sealed for ("" unknown)
	tokSrvOK bool
	prog     []string
	target   string // sid hex the presented token names ("" unknown/none)

	mu       sync.Mutex
	status   string // running | blocked | done
	obs      []string
	invoked  bool
	panicked bool
	resumed  string // sid hex resumed at handler entry
	closedAtStart bool
	release  chan struct{}
	gid      string
	code     int
	body     []byte
	pubTok   string
	reported bool
	atLock   bool
}

type c29World struct {
	mu       sync.Mutex
	workers  []*c29Worker
	threads  []*c29Thread
	byID     map[int]*c29Thread
	pubs     []c29Pub
	states   map[string]*c29State
	oracles  [][2]string
	stress   bool
	stuck    bool
	handles  map[string]vgirpc.VerifC29Handle // w/sidhex -> entry (kept after it left the registry)
	flagged  map[string]bool
	sweeps   []*c29Sweep
	pendingCDH []c29CDH
	all      []*c29State // every state object handed to OpenSession (also refused / rolled-back opens)
}

type c29CDH struct {
	thread int
	desc   string
}

// c29Sweep is one reaper sweep or shutdown, run in its own goroutine (a state's Close may block).
type c29Sweep struct {
	id       int
	gid      string
	took     map[string]bool // sessions this sweep is due to close
	n        atomic.Int32
	done     atomic.Bool
	reported bool
}

// closingGid reports whether goroutine gid is currently inside a blocking Close.
func (w *c29World) closingGid(gid string) bool {
	w.mu.Lock()
	defer w.mu.Unlock()
	for _, st := range w.all {
		if _, in := st.closers.Load(gid); in {
			return true
		}
	}
	return false
}

func (w *c29World) startSweep(took map[string]bool, run func() int) {
	sw := &c29Sweep{id: len(w.sweeps), took: took}
	w.sweeps = append(w.sweeps, sw)
	started := make(chan struct{})
	go func() {
		sw.gid = c29Gid()
		close(started)
		defer func() {
			if r := recover(); r != nil {
				w.oracle("close-panic-escaped", fmt.Sprintf("a panic escaped from a registry sweep/shutdown (a state's Close panicked): %v", r))
			}
			sw.done.Store(true)
		}()
		sw.n.Store(int32(run()))
	}()
	<-started
	w.settleSweeps()
}

// sweepExpired runs one reaper sweep at `now` in its own goroutine.
func (w *c29World) sweepExpired(wi int, now time.Time) {
	took := map[string]bool{}
	for _, e := range w.workers[wi].h.VerifC29Entries() {
		if e.ExpiresAt.Before(now) {
			took[fmt.Sprintf("%d/%s", wi, hex.EncodeToString(e.SID))] = true
		}
	}
	h := w.workers[wi].h
	w.startSweep(took, func() int { return h.VerifC29DrainExpired(now) })
}

func (w *c29World) releaseAllCloses() {
	w.mu.Lock()
	for _, st := range w.all {
		st.release()
	}
	w.mu.Unlock()
}

func (w *c29World) settleSweeps() {
	deadline := time.Now().Add(20 * time.Second)
	for _, sw := range w.sweeps {
		for !sw.done.Load() && !w.closingGid(sw.gid) {
			if time.Now().After(deadline) {
				w.oracle("request-stuck", "a registry sweep neither finished nor reached a blocking Close within 20 s")
				return
			}
			time.Sleep(100 * time.Microsecond)
		}
	}
}

var c29Cur atomic.Pointer[c29World]

func (w *c29World) oracle(class, desc string) {
	w.mu.Lock()
	w.oracles = append(w.oracles, [2]string{class, desc})
	w.mu.Unlock()
}

type c29Params struct {
	N int64 `vgirpc:"n"`
}

func c29ParseIdent(s string) (*vgirpc.AuthContext, bool) {
	p := strings.Split(s, ":")
	switch {
	case len(p) == 1 && p[0] == "anon":
		return vgirpc.Anonymous(), true
	case len(p) == 3 && (p[0] == "a" || p[0] == "u"):
		d, e1 := hex.DecodeString(p[1])
		pr, e2 := hex.DecodeString(p[2])
		if e1 != nil || e2 != nil {
			return nil, false
		}
		return &vgirpc.AuthContext{Domain: string(d), Principal: string(pr), Authenticated: p[0] == "a"}, true
	}
	return nil, false
}

// same caller class as the property understands it
func c29SameCaller(a, b string) bool {
	x, _ := c29ParseIdent(a)
	y, _ := c29ParseIdent(b)
	if x == nil || y == nil {
		return false
	}
	if !x.Authenticated || !y.Authenticated {
		return !x.Authenticated && !y.Authenticated
	}
	return x.Domain == y.Domain && x.Principal == y.Principal
}

func c29NewWorker(world *c29World, key []byte, serverID string, ttlTicks int) *c29Worker {
	return c29NewWorkerR(world, key, serverID, ttlTicks, 0)
}

// stream states (gob-registered): their callbacks run the scripted program of the harness thread whose
// goroutine is serving the request
type c29Prod struct{ Seq int64 }

func (p *c29Prod) Produce(_ context.Context, out *vgirpc.OutputCollector, cc *vgirpc.CallContext) error {
	c29RunByGid(cc)
	p.Seq++
	return out.EmitMap(map[string][]interface{}{"value": {p.Seq}})
}

func (p *c29Prod) OnCancel(_ context.Context, cc *vgirpc.CallContext) error {
	c29RunByGid(cc)
	return nil
}

type c29Exch struct{ Seq int64 }

func (p *c29Exch) Exchange(_ context.Context, _ arrow.RecordBatch, out *vgirpc.OutputCollector, cc *vgirpc.CallContext) error {
	c29RunByGid(cc)
	p.Seq++
	return out.EmitMap(map[string][]interface{}{"value": {p.Seq}})
}

var c29ValueSchema = arrow.NewSchema([]arrow.Field{{Name: "value", Type: arrow.PrimitiveTypes.Int64}}, nil)

// c29RunByGid runs (once) the program of the thread whose request goroutine this is; internal
// token-minting requests run on no thread's goroutine and do nothing.
func c29RunByGid(cc *vgirpc.CallContext) {
	w := c29Cur.Load()
	if w == nil {
		return
	}
	gid := c29Gid()
	w.mu.Lock()
	var t *c29Thread
	for _, x := range w.threads {
		if x.gid == gid && x.route != "" {
			t = x
		}
	}
	w.mu.Unlock()
	if t == nil {
		return
	}
	t.mu.Lock()
	ran := t.ran
	t.ran = true
	t.mu.Unlock()
	if !ran {
		t.handler(w, cc)
	}
}

func c29NewWorkerR(world *c29World, key []byte, serverID string, ttlTicks int, reaperTick time.Duration) *c29Worker {
	s := vgirpc.NewServer()
	s.SetServerID(serverID)
	vgirpc.Producer(s, "sp", c29ValueSchema, func(_ context.Context, cc *vgirpc.CallContext, _ c29Params) (*vgirpc.StreamResult, error) {
		c29RunByGid(cc)
		return &vgirpc.StreamResult{OutputSchema: c29ValueSchema, State: &c29Prod{}}, nil
	})
	vgirpc.Exchange(s, "se", c29ValueSchema, c29ValueSchema, func(_ context.Context, cc *vgirpc.CallContext, _ c29Params) (*vgirpc.StreamResult, error) {
		c29RunByGid(cc)
		return &vgirpc.StreamResult{OutputSchema: c29ValueSchema, State: &c29Exch{}}, nil
	})
	vgirpc.Unary(s, "m", func(_ context.Context, ctx *vgirpc.CallContext, p c29Params) (int64, error) {
		w := c29Cur.Load()
		if w == nil {
			return 0, nil
		}
		w.mu.Lock()
		t := w.byID[int(p.N)]
		w.mu.Unlock()
		if t == nil {
			return 0, nil
		}
		t.handler(w, ctx)
		return p.N, nil
	})
	h, err := vgirpc.NewHttpServerWithKey(s, key)
	if err != nil {
		panic(err)
	}
	h.SetProducerBatchLimit(1)
	h.EnableSticky(time.Duration(ttlTicks) * c29Tick)
	h.SetAuthenticate(func(r *http.Request) (*vgirpc.AuthContext, error) {
		a, ok := c29ParseIdent(r.Header.Get("X-Ident"))
		if !ok {
			return vgirpc.Anonymous(), nil
		}
		return a, nil
	})
	if reaperTick > 0 {
		h.VerifC29SetReaperTick(reaperTick)
	} else {
		h.VerifC29StopReaper()
	}
	return &c29Worker{h: h, key: key, serverID: serverID}
}

// c29StreamRequest builds a request for a stream route. Continuation / exchange / cancel turns need
// state tokens: they are minted by an internal /init on the same worker (same caller, no session
// header, not on a thread's goroutine, so no scripted program runs).
func c29StreamRequest(wk *c29Worker, route, ident string) *http.Request {
	mkInit := func(method string) *http.Request {
		mem := memory.NewGoAllocator()
		schema := arrow.NewSchema([]arrow.Field{{Name: "n", Type: arrow.PrimitiveTypes.Int64}}, nil)
		bld := array.NewInt64Builder(mem)
		bld.Append(1)
		col := bld.NewArray()
		bld.Release()
		batch := array.NewRecordBatch(schema, []arrow.Array{col}, 1)
		col.Release()
		defer batch.Release()
		var buf bytes.Buffer
		if err := vgirpc.WriteRequest(&buf, method, batch, ""); err != nil {
			panic(err)
		}
		r := httptest.NewRequest("POST", "/"+method+"/init", bytes.NewReader(buf.Bytes()))
		r.Header.Set("Content-Type", "application/vnd.apache.arrow.stream")
		r.Header.Set("X-Ident", ident)
		return r
	}
	if route == "init" {
		return mkInit("sp")
	}
	method := "sp"
	if route == "exch" {
		method = "se"
	}
	rec := httptest.NewRecorder()
	wk.h.ServeHTTP(rec, mkInit(method))
	state, call := vgirpc.FindStreamTokens(rec.Body.Bytes())
	keys := []string{vgirpc.MetaStreamState, vgirpc.MetaCallState}
	vals := []string{string(state), string(call)}
	if route == "cancel" {
		keys = append(keys, vgirpc.MetaCancel)
		vals = append(vals, "1")
	}
	var schema *arrow.Schema
	var cols []arrow.Array
	rows := int64(0)
	if route == "exch" {
		schema = c29ValueSchema
		bld := array.NewInt64Builder(memory.NewGoAllocator())
		bld.Append(5)
		cols = []arrow.Array{bld.NewArray()}
		bld.Release()
		rows = 1
	} else {
		schema = arrow.NewSchema(nil, nil)
	}
	batch := array.NewRecordBatchWithMetadata(schema, cols, rows, arrow.NewMetadata(keys, vals))
	for _, c := range cols {
		c.Release()
	}
	defer batch.Release()
	var buf bytes.Buffer
	iw := ipc.NewWriter(&buf, ipc.WithSchema(schema))
	if err := iw.Write(batch); err != nil {
		panic(err)
	}
	_ = iw.Close()
	r := httptest.NewRequest("POST", "/"+method+"/exchange", bytes.NewReader(buf.Bytes()))
	r.Header.Set("Content-Type", "application/vnd.apache.arrow.stream")
	return r
}

var c29ReqCache sync.Map

func c29Request(n int) []byte {
	if b, ok := c29ReqCache.Load(n); ok {
		return b.([]byte)
	}
	mem := memory.NewGoAllocator()
	schema := arrow.NewSchema([]arrow.Field{{Name: "n", Type: arrow.PrimitiveTypes.Int64}}, nil)
	bld := array.NewInt64Builder(mem)
	bld.Append(int64(n))
	col := bld.NewArray()
	bld.Release()
	batch := array.NewRecordBatch(schema, []arrow.Array{col}, 1)
	col.Release()
	var buf bytes.Buffer
	if err := vgirpc.WriteRequest(&buf, "m", batch, ""); err != nil {
		panic(err)
	}
	batch.Release()
	c29ReqCache.Store(n, buf.Bytes())
	return buf.Bytes()
}

// ---------------------------------------------------------------- tokens

func c29AEAD(key []byte) interface {
	Seal(dst, nonce, plaintext, additionalData []byte) []byte
	Open(dst, nonce, ciphertext, additionalData []byte) ([]byte, error)
} {
	a, err := chacha20poly1305.NewX(key)
	if err != nil {
		panic(err)
	}
	return a
}

func c29SealRaw(key, aad, plain []byte) string {
	nonce := make([]byte, 24)
	c29Rd.orig.Read(nonce)
	ct := c29AEAD(key).Seal(nil, nonce, plain, aad)
	wire := append([]byte{1}, nonce...)
	wire = append(wire, ct...)
	return base64.RawURLEncoding.EncodeToString(wire)
}

func c29Decrypt(token string, key, aad []byte) ([]byte, bool) {
	raw, err := base64.RawURLEncoding.DecodeString(token)
	if err != nil || len(raw) < 41 {
		return nil, false
	}
	p, err := c29AEAD(key).Open(nil, raw[1:25], raw[25:], aad)
	return p, err == nil
}

func c29Mask(p []byte) []byte {
	if len(p) < 16 {
		return p
	}
	q := append([]byte(nil), p...)
	for i := 0; i < 8; i++ {
		q[i] = 0
		q[len(q)-1-i] = 0
	}
	return q
}

// header value for a token spec; target = sid hex the token names when the harness knows it
func (w *c29World) token(spec string) (hdr string, has bool, target string, ok bool) {
	hdr, has, target, _, _, ok = w.tokenSrv(spec)
	return
}

func (w *c29World) tokenSrv(spec string) (hdr string, has bool, target string, srvID string, srvOK bool, ok bool) {
	if spec == "-" {
		return "", false, "", "", false, true
	}
	p := strings.Split(spec, "/")
	switch p[0] {
	case "Gbad":
		if len(p) != 2 {
			return "", false, "", "", false, false
		}
		return "!!" + p[1], true, "", "", false, true
	case "Graw":
		if len(p) != 2 {
			return "", false, "", "", false, false
		}
		raw, err := hex.DecodeString(p[1])
		if err != nil {
			return "", false, "", "", false, false
		}
		return base64.RawURLEncoding.EncodeToString(raw), true, "", "", false, true
	case "S":
		if len(p) != 5 {
			return "", false, "", "", false, false
		}
		wi, err := strconv.Atoi(p[1])
		if err != nil || wi < 0 || wi >= len(w.workers) {
			return "", false, "", "", false, false
		}
		id := strings.Join(p[2:len(p)-2], "/")
		auth, iok := c29ParseIdent(id)
		srv, e1 := hex.DecodeString(p[len(p)-2])
		sid, e2 := hex.DecodeString(p[len(p)-1])
		if !iok || e1 != nil || e2 != nil || len(sid) != 12 || len(srv) > 255 {
			return "", false, "", "", false, false
		}
		tok, err := vgirpc.VerifC29Seal(w.workers[wi].key, string(srv), sid, time.Now().Add(time.Hour).Unix(), vgirpc.VerifC29Aad(auth), 0)
		if err != nil {
			return "", false, "", "", false, false
		}
		return tok, true, p[len(p)-1], string(srv), true, true
	case "P":
		if len(p) != 4 {
			return "", false, "", "", false, false
		}
		wi, err := strconv.Atoi(p[1])
		if err != nil || wi < 0 || wi >= len(w.workers) {
			return "", false, "", "", false, false
		}
		id := strings.Join(p[2:len(p)-1], "/")
		auth, iok := c29ParseIdent(id)
		plain, e1 := hex.DecodeString(p[len(p)-1])
		if !iok || e1 != nil {
			return "", false, "", "", false, false
		}
		return c29SealRaw(w.workers[wi].key, vgirpc.VerifC29Aad(auth), plain), true, "", "", false, true
	}
	if len(p) != 1 || !strings.HasPrefix(spec, "T") {
		return "", false, "", "", false, false
	}
	base, mod, _ := strings.Cut(spec[1:], "+")
	k, err := strconv.Atoi(base)
	if err != nil || k < 0 {
		return "", false, "", "", false, false
	}
	w.mu.Lock()
	var pub *c29Pub
	if k < len(w.pubs) {
		q := w.pubs[k]
		pub = &q
	}
	w.mu.Unlock()
	if pub == nil {
		return "!!nosuchtoken", true, "", "", false, true
	}
	raw, _ := base64.RawURLEncoding.DecodeString(pub.token)
	switch {
	case mod == "":
		return pub.token, true, pub.sid, w.workers[pub.worker].serverID, true, true
	case mod == "pad":
		return base64.URLEncoding.EncodeToString(raw), true, pub.sid, w.workers[pub.worker].serverID, true, true
	case mod == "ws":
		return "  " + pub.token + " \t", true, pub.sid, w.workers[pub.worker].serverID, true, true
	case strings.HasPrefix(mod, "ver"):
		n, err := strconv.Atoi(mod[3:])
		if err != nil || n < 0 || n > 255 {
			return "", false, "", "", false, false
		}
		raw[0] = byte(n)
		return base64.RawURLEncoding.EncodeToString(raw), true, pub.sid, w.workers[pub.worker].serverID, true, true
	case strings.HasPrefix(mod, "flip"):
		n, err := strconv.Atoi(mod[4:])
		if err != nil || n < 0 {
			return "", false, "", "", false, false
		}
		raw[1+n%(len(raw)-1)] ^= 1 << (n % 8)
		return base64.RawURLEncoding.EncodeToString(raw), true, "", "", false, true
	case strings.HasPrefix(mod, "trunc"):
		n, err := strconv.Atoi(mod[5:])
		if err != nil || n < 0 {
			return "", false, "", "", false, false
		}
		if n > len(raw)-1 {
			n = len(raw) - 1
		}
		return base64.RawURLEncoding.EncodeToString(raw[:n]), true, "", "", false, true
	}
	return "", false, "", "", false, false
}

// ---------------------------------------------------------------- request threads

type c29Writer struct {
	hdr  http.Header
	t    *c29Thread
	w    *c29World
	code int
	body bytes.Buffer
}

func (r *c29Writer) Header() http.Header { return r.hdr }
func (r *c29Writer) WriteHeader(code int) {
	if r.code != 0 {
		return
	}
	r.code = code
	// VGI-Session becomes known to the client here — before the per-session lock is released.
	if tok := r.hdr.Get("VGI-Session"); tok != "" && !r.w.stress {
		wk := r.w.workers[r.t.worker]
		auth, _ := c29ParseIdent(r.t.ident)
		sid := ""
		if _, s, _, ok := vgirpc.VerifC29Open(tok, wk.key, vgirpc.VerifC29Aad(auth)); ok {
			sid = hex.EncodeToString(s)
		}
		r.w.mu.Lock()
		r.w.pubs = append(r.w.pubs, c29Pub{token: tok, worker: r.t.worker, ident: r.t.ident, sid: sid})
		r.w.mu.Unlock()
		r.t.pubTok = tok
	}
}
func (r *c29Writer) Write(p []byte) (int, error) {
	if r.code == 0 {
		r.WriteHeader(200)
	}
	return r.body.Write(p)
}

func c29Gid() string {
	buf := make([]byte, 64)
	n := runtime.Stack(buf, false)
	f := strings.Fields(string(buf[:n]))
	if len(f) >= 2 {
		return f[1]
	}
	return ""
}

func (t *c29Thread) setStatus(s string) {
	t.mu.Lock()
	t.status = s
	t.mu.Unlock()
}

func (t *c29Thread) getStatus() string {
	t.mu.Lock()
	defer t.mu.Unlock()
	return t.status
}

func (t *c29Thread) start(w *c29World) {
	wk := w.workers[t.worker]
	hdr, has, target, srvID, srvOK, _ := w.tokenSrv(t.tokSpec)
	t.target, t.tokSrv, t.tokSrvOK = target, srvID, srvOK
	if target != "" {
		w.mu.Lock()
		if st := w.states[fmt.Sprintf("%d/%s", t.worker, target)]; st != nil && st.closes.Load() > 0 {
			t.closedAtStart = true
		}
		w.mu.Unlock()
	}
	var req *http.Request
	if t.isDelete {
		req = httptest.NewRequest("DELETE", "/__session__", nil)
	} else if t.route != "" {
		req = c29StreamRequest(wk, t.route, t.ident)
	} else {
		req = httptest.NewRequest("POST", "/m", bytes.NewReader(c29Request(t.id)))
		req.Header.Set("Content-Type", "application/vnd.apache.arrow.stream")
	}
	req.Header.Set("X-Ident", t.ident)
	if has {
		req.Header["Vgi-Session"] = []string{hdr}
	}
	if t.accept {
		req.Header.Set("VGI-Session-Accept", "true")
	}
	rw := &c29Writer{hdr: http.Header{}, t: t, w: w}
	started := make(chan struct{})
	go func() {
		t.gid = c29Gid()
		close(started)
		defer func() {
			if r := recover(); r != nil {
				cl := "request-panic-escaped"
				if strings.Contains(fmt.Sprint(r), "scripted Close panic") {
					cl = "close-panic-escaped"
				}
				w.oracle(cl, fmt.Sprintf("thread %d: a panic escaped from the request: %v", t.id, r))
			}
			t.mu.Lock()
			t.code = rw.code
			t.body = rw.body.Bytes()
			t.status = "done"
			t.mu.Unlock()
		}()
		wk.h.ServeHTTP(rw, req)
	}()
	<-started
}

func (t *c29Thread) handler(w *c29World, ctx *vgirpc.CallContext) {
	t.mu.Lock()
	t.invoked = true
	t.mu.Unlock()
	var entered *c29State
	if st, ok := ctx.Session().(*c29State); ok && st != nil {
		t.mu.Lock()
		t.resumed = ctx.SessionID()
		t.mu.Unlock()
		if n := st.active.Add(1); n > 1 {
			w.oracle("same-session-overlap", fmt.Sprintf("thread %d entered its handler on session %s while %d other call(s) on it were running", t.id, st.key, n-1))
		}
		entered = st
		// isolation, stated directly: the session must have been opened on this worker by this caller
		// class, the token must have been sealed for this worker, and the session must not have been
		// closed before this request started
		crafted := strings.HasPrefix(t.tokSpec, "S/") || strings.HasPrefix(t.tokSpec, "P/")
		sameCaller := c29SameCaller(st.opener, t.ident)
		if crafted {
			// a token sealed by someone holding the server's key for the caller's own AAD: only the
			// registry's principal-key partition stands between callers
			a, _ := c29ParseIdent(st.opener)
			b, _ := c29ParseIdent(t.ident)
			sameCaller = vgirpc.VerifC29PrincipalKey(a) == vgirpc.VerifC29PrincipalKey(b)
		}
		if !sameCaller {
			w.oracle("cross-caller-resolve", fmt.Sprintf("thread %d (%s) resolved session %s opened by %s", t.id, t.ident, st.key, st.opener))
		}
		if t.tokSrvOK && t.tokSrv != w.workers[t.worker].serverID {
			w.oracle("cross-worker-resolve", fmt.Sprintf("thread %d on worker %d (server id %q) resolved session %s with a token sealed for server id %q",
				t.id, t.worker, w.workers[t.worker].serverID, st.key, t.tokSrv))
		}
		if t.closedAtStart {
			w.oracle("resolved-after-close", fmt.Sprintf("thread %d resolved session %s whose state had been closed before the request started", t.id, st.key))
		}
	}
	defer func() {
		if entered != nil {
			entered.active.Add(-1)
		}
	}()
	if t.spin {
		for i := 0; i < 100; i++ {
			runtime.Gosched()
		}
		return
	}
	for _, op := range t.prog {
		switch {
		case op == "b":
			t.mu.Lock()
			t.status = "blocked"
			rel := t.release
			t.mu.Unlock()
			<-rel
			t.mu.Lock()
			t.release = make(chan struct{})
			t.status = "running"
			t.mu.Unlock()
		case op == "p":
			t.mu.Lock()
			t.obs = append(t.obs, "p")
			t.panicked = true
			t.mu.Unlock()
			panic("c29 scripted panic")
		case op == "s":
			sid := ctx.SessionID()
			st := ctx.Session()
			o := "s-"
			if st != nil {
				o = "s" + sid
				w.mu.Lock()
				want := w.states[fmt.Sprintf("%d/%s", t.worker, sid)]
				w.mu.Unlock()
				if cs, ok := st.(*c29State); !ok || cs != want {
					w.oracle("session-state-identity", fmt.Sprintf("thread %d: ctx.Session() is not the object opened as %d/%s", t.id, t.worker, sid))
				}
			} else if sid != "" {
				o = "s?" + sid
			}
			t.mu.Lock()
			t.obs = append(t.obs, o)
			t.mu.Unlock()
		case op == "c":
			o := "c:miss"
			if ctx.CloseSession() {
				o = "c:hit"
			}
			t.mu.Lock()
			t.obs = append(t.obs, o)
			t.mu.Unlock()
		case strings.HasPrefix(op, "O"): // concurrent searches only: open with a random session id
			st := &c29State{key: fmt.Sprintf("%d/stress-%d", t.worker, t.id), w: w, opener: t.ident, barrier: make(chan struct{})}
			w.mu.Lock()
			w.all = append(w.all, st)
			w.mu.Unlock()
			t0 := time.Now()
			err := ctx.OpenSession(st, 3*c29Tick)
			if err == nil {
				st.openedAt, st.openStarted = time.Now(), t0
				st.registered.Store(true)
			}
		case strings.HasPrefix(op, "o"):
			ttlS, sidS, _ := strings.Cut(op[1:], "/")
			sidS, modeS, _ := strings.Cut(sidS, ":")
			ttl, _ := strconv.Atoi(ttlS)
			sid, _ := hex.DecodeString(sidS)
			st := &c29State{key: fmt.Sprintf("%d/%s", t.worker, sidS), w: w, opener: t.ident, barrier: make(chan struct{})}
			switch modeS {
			case "p":
				st.mode = 1
			case "b":
				st.mode = 2
			}
			drainingBefore := w.workers[t.worker].draining
			w.mu.Lock()
			w.all = append(w.all, st)
			w.mu.Unlock()
			c29Rd.force(sid)
			err := ctx.OpenSession(st, time.Duration(ttl)*c29Tick)
			consumed := c29Rd.clear()
			o := "o:ok"
			switch {
			case err == nil:
				if drainingBefore {
					w.oracle("opened-while-draining", fmt.Sprintf("thread %d: OpenSession succeeded on draining worker %d", t.id, t.worker))
				}
			case strings.Contains(err.Error(), "VGI-Session-Accept"):
				o = "o:noaccept"
			case strings.Contains(err.Error(), "already bound"):
				o = "o:bound"
			case strings.Contains(err.Error(), "draining"):
				o = "o:draining"
			case strings.Contains(err.Error(), "seal"):
				o = "o:sealfail"
			default:
				o = "o:err"
			}
			if err == nil && !consumed {
				o = "o:ok-unforced"
			}
			if o == "o:ok" || o == "o:sealfail" {
				w.mu.Lock()
				w.states[st.key] = st
				w.mu.Unlock()
			}
			t.mu.Lock()
			t.obs = append(t.obs, o)
			t.mu.Unlock()
		}
	}
}

// goroutine wait state of thread t ("" when not found)
var (
	c29StackMu  sync.Mutex
	c29StackBuf = make([]byte, 1<<20)
)

func c29GoState(gid string) string {
	c29StackMu.Lock()
	defer c29StackMu.Unlock()
	n := runtime.Stack(c29StackBuf, true)
	s := string(c29StackBuf[:n])
	key := "goroutine " + gid + " ["
	i := strings.Index(s, key)
	if i < 0 {
		return ""
	}
	rest := s[i+len(key):]
	j := strings.IndexAny(rest, ",]")
	if j < 0 {
		return ""
	}
	return rest[:j]
}

// wait until the thread is done, blocked in its handler, or parked on a lock
// c29Leaked counts requests of earlier cases that never completed (only possible when a session lock
// is never released). Their goroutines stay parked for the life of the process and make goroutine
// dumps expensive, so from then on "parked on a lock" is decided by a short bounded wait instead.
var c29Leaked atomic.Int32

func (t *c29Thread) settle(w *c29World) {
	if c29Leaked.Load() > 0 {
		if t.atLock {
			return
		}
		deadline := time.Now().Add(10 * time.Millisecond)
		for t.getStatus() == "running" && time.Now().Before(deadline) {
			time.Sleep(200 * time.Microsecond)
		}
		t.atLock = t.getStatus() == "running"
		return
	}
	deadline := time.Now().Add(20 * time.Second)
	parked := 0
	for {
		st := t.getStatus()
		if st != "running" {
			t.atLock = false
			return
		}
		if w.closingGid(t.gid) {
			t.atLock = false
			return
		}
		gs := c29GoState(t.gid)
		if gs != "" && gs != "running" && gs != "runnable" && gs != "syscall" {
			parked++
			if parked >= 6 {
				t.atLock = true
				return
			}
			time.Sleep(500 * time.Microsecond)
		} else {
			parked = 0
			time.Sleep(100 * time.Microsecond)
		}
		if time.Now().After(deadline) {
			w.oracle("request-stuck", fmt.Sprintf("thread %d neither finished nor parked within 20 s", t.id))
			return
		}
	}
}

func (w *c29World) settleAll() {
	w.settleSweeps()
	for round := 0; round < 2; round++ {
		for _, t := range w.threads {
			if t.getStatus() == "running" {
				t.settle(w)
			}
		}
	}
}

func (w *c29World) status(t *c29Thread) string {
	closing := w.closingGid(t.gid)
	t.mu.Lock()
	defer t.mu.Unlock()
	pre := fmt.Sprintf("t%d=", t.id)
	obs := strings.Join(t.obs, ",")
	switch t.status {
	case "blocked":
		return pre + "blk:" + obs
	case "running":
		if closing {
			return pre + "closing"
		}
		if t.atLock {
			return pre + "lock"
		}
		return pre + "run"
	}
	// done
	if t.isDelete {
		return pre + "done:" + strconv.Itoa(t.code)
	}
	oc := "ok"
	switch {
	case !t.invoked && bytes.Contains(t.body, []byte("session_lost")):
		oc = "lost"
	case !t.invoked:
		oc = "err" + strconv.Itoa(t.code)
	case t.panicked:
		oc = "panic"
	}
	tok := "-"
	if t.pubTok != "" {
		wk := w.workers[t.worker]
		auth, _ := c29ParseIdent(t.ident)
		if p, ok := c29Decrypt(t.pubTok, wk.key, vgirpc.VerifC29Aad(auth)); ok {
			tok = hex.EncodeToString(c29Mask(p))
		} else {
			tok = "undecryptable"
		}
	}
	return pre + "done:" + oc + ":" + obs + ":" + tok
}

// captureHandles remembers every live entry so that its lock can be probed after removal.
func (w *c29World) captureHandles() {
	if w.handles == nil {
		w.handles = map[string]vgirpc.VerifC29Handle{}
		w.flagged = map[string]bool{}
	}
	for wi, wk := range w.workers {
		for sid, h := range wk.h.VerifC29Handles() {
			w.handles[fmt.Sprintf("%d/%s", wi, hex.EncodeToString([]byte(sid)))] = h
		}
	}
}

// checkLocks states "no request leaves a session locked after it completes" directly: a session lock
// that is held although no unfinished request can be its holder was left behind by a finished one;
// and requests that are all parked on session locks with nobody left to release them never run.
func (w *c29World) checkLocks() {
	if !w.checkLocksOnce(false) {
		// something looks wrong: look again after a fresh settle, so that a request that was just
		// handed the lock is not mistaken for one still parked on it
		time.Sleep(2 * time.Millisecond)
		for _, t := range w.threads {
			t.atLock = false
		}
		w.settleAll()
		w.checkLocksOnce(true)
	}
}

func (w *c29World) checkLocksOnce(report bool) (clean bool) {
	clean = true
	w.captureHandles()
	holders := map[string]bool{} // sessions an unfinished, not-parked request may legitimately hold
	parked, movers := []*c29Thread{}, 0
	for _, t := range w.threads {
		st := t.getStatus()
		if st == "done" {
			continue
		}
		if st == "running" && t.atLock {
			parked = append(parked, t)
			continue
		}
		movers++
		t.mu.Lock()
		if t.resumed != "" {
			holders[fmt.Sprintf("%d/%s", t.worker, t.resumed)] = true
		}
		t.mu.Unlock()
		if t.target != "" {
			holders[fmt.Sprintf("%d/%s", t.worker, t.target)] = true
		}
	}
	for k, h := range w.handles {
		if !holders[k] && !w.flagged["L"+k] && h.Locked() {
			clean = false
			if !report {
				continue
			}
			w.flagged["L"+k] = true
			w.oracle("session-left-locked", fmt.Sprintf("the lock of session %s is held although every request that could hold it has completed", k))
		}
	}
	if movers == 0 {
		for _, t := range parked {
			k := fmt.Sprintf("Q%d", t.id)
			if !w.flagged[k] {
				clean = false
				if !report {
					continue
				}
				w.flagged[k] = true
				w.oracle("queued-call-never-ran", fmt.Sprintf("request %d is parked on the lock of session %d/%s and no running request is left to release it", t.id, t.worker, t.target))
			}
		}
	}
	return clean
}

func (w *c29World) report(head string) string {
	w.settleAll()
	w.checkLocks()
	parts := []string{head}
	for _, t := range w.threads {
		if t.reported {
			continue
		}
		parts = append(parts, w.status(t))
		if t.getStatus() == "done" {
			t.reported = true
			if t.isDelete {
				w.mu.Lock()
				var keep []c29CDH
				var fire []string
				for _, p := range w.pendingCDH {
					if p.thread != t.id {
						keep = append(keep, p)
					} else if t.code == 204 {
						fire = append(fire, p.desc)
					}
				}
				w.pendingCDH = keep
				w.mu.Unlock()
				for _, d := range fire {
					w.oracle("close-during-handler", d)
				}
			}
			if t.isDelete && t.code == 204 && t.target != "" {
				// DELETE is documented to serialize with an in-flight call on the same session
				for _, o := range w.threads {
					o.mu.Lock()
					busy := o != t && !o.isDelete && o.worker == t.worker && o.status == "blocked" && o.resumed == t.target
					o.mu.Unlock()
					if busy {
						w.oracle("delete-overtook-running-call", fmt.Sprintf("DELETE (thread %d) closed session %s while thread %d was still inside its handler on it", t.id, t.target, o.id))
					}
				}
			}
		}
	}
	for _, sw := range w.sweeps {
		if sw.reported {
			continue
		}
		if sw.done.Load() {
			sw.reported = true
			parts = append(parts, fmt.Sprintf("y%d=done:%d", sw.id, sw.n.Load()))
		} else {
			parts = append(parts, fmt.Sprintf("y%d=closing", sw.id))
		}
	}
	return strings.Join(parts, " ")
}

func (w *c29World) pendingSweeps() int {
	n := 0
	for _, sw := range w.sweeps {
		if !sw.done.Load() {
			n++
		}
	}
	return n
}

func (w *c29World) active() int {
	n := 0
	for _, t := range w.threads {
		if t.getStatus() != "done" {
			n++
		}
	}
	return n
}

func (w *c29World) snapshot(c *Case, line string) string {
	var ents, cls []string
	live := map[string]bool{}
	for wi, wk := range w.workers {
		for _, e := range wk.h.VerifC29Entries() {
			l := 0
			if e.Locked {
				l = 1
			}
			k := fmt.Sprintf("%d/%s", wi, hex.EncodeToString(e.SID))
			live[k] = true
			ents = append(ents, fmt.Sprintf("%s/%s/%d", k, hex.EncodeToString([]byte(e.PrincipalKey)), l))
			if e.Locked && w.active() == 0 {
				c.Oracle("lock-left-held", fmt.Sprintf("after %q: session %s is locked although every request has completed", line, k))
			}
		}
	}
	masked := map[string]bool{}
	for _, sw := range w.sweeps {
		if !sw.done.Load() {
			for k := range sw.took {
				masked[k] = true
			}
		}
	}
	quiet := w.active() == 0 && w.pendingSweeps() == 0
	w.mu.Lock()
	for _, st := range w.all {
		// a rolled-back open whose state's Close is still blocking exists for the registry already
		if st.blockedNow.Load() && w.states[st.key] == nil {
			cls = append(cls, fmt.Sprintf("%s=?", st.key))
		}
	}
	for k, st := range w.states {
		n := int(st.closes.Load())
		if masked[k] || st.blockedNow.Load() {
			cls = append(cls, fmt.Sprintf("%s=?", k))
		} else {
			cls = append(cls, fmt.Sprintf("%s=%d", k, n))
		}
		if n > 1 {
			c.Oracle("close-more-than-once", fmt.Sprintf("after %q: state of session %s closed %d times", line, k, n))
		}
		if quiet {
			if live[k] && n != 0 {
				c.Oracle("closed-while-live", fmt.Sprintf("after %q: session %s is still registered but its state was closed", line, k))
			}
			if !live[k] && n == 0 {
				c.Oracle("removed-not-closed", fmt.Sprintf("after %q: session %s left the registry but its state was never closed", line, k))
			}
		}
	}
	w.mu.Unlock()
	sort.Strings(ents)
	sort.Strings(cls)
	dr := ""
	for _, wk := range w.workers {
		if wk.h.DrainHandle().IsDraining() {
			dr += "1"
		} else {
			dr += "0"
		}
	}
	return "E[" + strings.Join(ents, " ") + "] C[" + strings.Join(cls, " ") + "] D[" + dr + "]"
}

// ---------------------------------------------------------------- exec

func c29ExecLocal(c *Case) {
	w := &c29World{byID: map[int]*c29Thread{}, states: map[string]*c29State{}}
	c29Cur.Store(w)
	defer func() {
		// never leave a goroutine parked
		w.releaseAllCloses()
		for _, t := range w.threads {
			for i := 0; i < 5 && t.getStatus() != "done"; i++ {
				t.mu.Lock()
				if t.status == "blocked" {
					close(t.release)
					t.release = make(chan struct{})
					t.status = "running"
				}
				t.mu.Unlock()
				time.Sleep(2 * time.Millisecond)
			}
			if t.getStatus() != "done" {
				c29Leaked.Add(1)
			}
		}
		c29Cur.Store(nil)
	}()
	flush := func() {
		w.mu.Lock()
		os := w.oracles
		w.oracles = nil
		w.mu.Unlock()
		for _, o := range os {
			c.Oracle(o[0], o[1])
		}
	}
	for _, l := range c.Lines {
		f := strings.Fields(l)
		if len(f) == 0 {
			continue
		}
		out := c29Line(c, w, l, f)
		flush()
		c.Out(l, out)
	}
	// end of case: release everything, then the final accounting
	w.releaseAllCloses()
	w.settleSweeps()
	for _, t := range w.threads {
		for i := 0; i < 6 && t.getStatus() != "done"; i++ {
			t.mu.Lock()
			if t.status == "blocked" {
				close(t.release)
				t.release = make(chan struct{})
				t.status = "running"
			}
			t.mu.Unlock()
			w.settleAll()
		}
	}
	if len(w.workers) > 0 {
		w.snapshot(c, "<end of case>")
		for _, wk := range w.workers {
			func() {
				defer func() {
					if r := recover(); r != nil {
						w.oracle("close-panic-escaped", fmt.Sprintf("a panic escaped from DrainHandle.Shutdown (a state's Close panicked): %v", r))
					}
				}()
				wk.h.DrainHandle().Shutdown()
			}()
		}
		w.snapshot(c, "<final shutdown>")
	}
	flush()
}

func c29Line(c *Case, w *c29World, l string, f []string) string {
	widx := func(s string) (int, bool) {
		n, err := strconv.Atoi(s)
		return n, err == nil && n >= 0 && n < len(w.workers)
	}
	switch {
	case f[0] == "worker" && len(f) == 5:
		n, err := strconv.Atoi(f[1])
		key, ok1 := UnX(f[2])
		srv, ok2 := UnX(f[3])
		ttl, err2 := strconv.Atoi(f[4])
		if err != nil || !ok1 || !ok2 || err2 != nil || n != len(w.workers) || len(key) != 32 {
			return "bad-op"
		}
		w.workers = append(w.workers, c29NewWorker(w, key, string(srv), ttl))
		c.Stat("worker")
		return "ok"
	case (f[0] == "call" && len(f) == 7) || (f[0] == "delete" && len(f) == 5) || (f[0] == "xcall" && len(f) == 7):
		id, err := strconv.Atoi(f[1])
		wi, wok := widx(f[2])
		_, iok := c29ParseIdent(f[3])
		if err != nil || !iok {
			return "bad-op"
		}
		if _, _, _, tok := w.token(f[4]); !tok && wok {
			return "bad-op"
		}
		if f[0] == "call" && f[5] != "0" && f[5] != "1" {
			return "bad-op"
		}
		if f[0] == "xcall" && f[5] != "init" && f[5] != "cont" && f[5] != "exch" && f[5] != "cancel" {
			return "bad-op"
		}
		if _, dup := w.byID[id]; dup || !wok || id >= 1000000 {
			return w.report("noop")
		}
		t := &c29Thread{id: id, worker: wi, ident: f[3], tokSpec: f[4], isDelete: f[0] == "delete",
			status: "running", release: make(chan struct{})}
		if f[0] == "xcall" {
			t.route = f[5]
		}
		if f[0] == "call" || f[0] == "xcall" {
			if f[6] != "-" {
				for _, op := range strings.Split(f[6], ",") {
					okOp := op == "c" || op == "s" || op == "b" || op == "p"
					if strings.HasPrefix(op, "o") {
						a, b, cut := strings.Cut(op[1:], "/")
						b, m, hasM := strings.Cut(b, ":")
						_, e1 := strconv.Atoi(a)
						raw, e2 := hex.DecodeString(b)
						okOp = cut && e1 == nil && e2 == nil && len(raw) == 12 && (!hasM || m == "p" || m == "b")
					}
					if !okOp {
						return "bad-op"
					}
					t.prog = append(t.prog, op)
				}
			}
			t.accept = f[5] == "1"
			c.Stat(f[0] + t.route)
		} else {
			c.Stat("delete")
		}
		w.mu.Lock()
		w.threads = append(w.threads, t)
		w.byID[id] = t
		w.mu.Unlock()
		t.start(w)
		out := w.report("ok")
		c29Stats(c, out)
		return out
	case f[0] == "go" && len(f) == 2:
		id, err := strconv.Atoi(f[1])
		if err != nil {
			return "bad-op"
		}
		t := w.byID[id]
		if t == nil {
			return w.report("noop")
		}
		t.mu.Lock()
		if t.status != "blocked" {
			t.mu.Unlock()
			return w.report("noop")
		}
		t.status = "running"
		close(t.release)
		t.mu.Unlock()
		c.Stat("go")
		out := w.report("ok")
		c29Stats(c, out)
		return out
	case f[0] == "age" && len(f) == 2:
		k, err := strconv.Atoi(f[1])
		if err != nil || k < 0 {
			return "bad-op"
		}
		for _, wk := range w.workers {
			wk.h.VerifC29Age(time.Duration(k) * c29Tick)
		}
		c.Stat("age")
		return w.report("ok")
	case f[0] == "reap" && len(f) == 2:
		wi, ok := widx(f[1])
		if !ok {
			if _, err := strconv.Atoi(f[1]); err != nil {
				return "bad-op"
			}
			return w.report("ok")
		}
		w.sweepExpired(wi, time.Now())
		c.Stat("reap")
		return w.report("ok")
	case f[0] == "reapat" && len(f) == 4:
		wi, ok := widx(f[1])
		sid, err := hex.DecodeString(f[2])
		d, err2 := strconv.Atoi(f[3])
		if err != nil || err2 != nil {
			return "bad-op"
		}
		if !ok {
			return w.report("none")
		}
		for _, e := range w.workers[wi].h.VerifC29Entries() {
			if bytes.Equal(e.SID, sid) {
				w.sweepExpired(wi, e.ExpiresAt.Add(time.Duration(d)))
				c.Stat("reapat")
				return w.report("ok")
			}
		}
		return w.report("none")
	case f[0] == "shutdown" && len(f) == 2:
		wi, ok := widx(f[1])
		if !ok {
			if _, err := strconv.Atoi(f[1]); err != nil {
				return "bad-op"
			}
			return w.report("ok")
		}
		took := map[string]bool{}
		for _, e := range w.workers[wi].h.VerifC29Entries() {
			took[fmt.Sprintf("%d/%s", wi, hex.EncodeToString(e.SID))] = true
		}
		n := len(took)
		h := w.workers[wi].h
		w.startSweep(took, func() int { h.DrainHandle().Shutdown(); return n })
		c.Stat("shutdown")
		return w.report("ok")
	case f[0] == "drain" && len(f) == 3:
		wi, ok := widx(f[1])
		if f[2] != "0" && f[2] != "1" {
			return "bad-op"
		}
		if !ok {
			if _, err := strconv.Atoi(f[1]); err != nil {
				return "bad-op"
			}
			return w.report("ok")
		}
		if f[2] == "1" {
			w.workers[wi].h.DrainHandle().Drain()
		} else {
			w.workers[wi].h.DrainHandle().ClearDrain()
		}
		w.workers[wi].draining = f[2] == "1"
		c.Stat("drain")
		return w.report("ok")
	case f[0] == "goclose" && len(f) == 3:
		wi, err := strconv.Atoi(f[1])
		if _, e2 := hex.DecodeString(f[2]); err != nil || e2 != nil {
			return "bad-op"
		}
		w.mu.Lock()
		var st *c29State
		for _, x := range w.all {
			if x.key == fmt.Sprintf("%d/%s", wi, f[2]) && (st == nil || x.blockedNow.Load()) {
				st = x
			}
		}
		w.mu.Unlock()
		if st == nil {
			return w.report("noop")
		}
		was := st.blockedNow.Load()
		st.release()
		if was {
			for i := 0; i < 20000 && st.blockedNow.Load(); i++ {
				time.Sleep(50 * time.Microsecond)
			}
			c.Stat("goclose")
			return w.report("ok")
		}
		return w.report("noop")
	case f[0] == "snap" && len(f) == 1:
		w.settleAll()
		s := w.snapshot(c, l)
		return w.report(s)
	case f[0] == "aad" && len(f) == 2:
		a, ok := c29ParseIdent(f[1])
		if !ok {
			return "bad-op"
		}
		c.Stat("aad")
		return hex.EncodeToString(vgirpc.VerifC29Aad(a)) + " " + hex.EncodeToString([]byte(vgirpc.VerifC29PrincipalKey(a)))
	case f[0] == "plain" && len(f) == 3:
		srv, e1 := UnX(f[1])
		sid, e2 := UnX(f[2])
		if !e1 || !e2 {
			return "bad-op"
		}
		key := bytes.Repeat([]byte{9}, 32)
		tok, err := vgirpc.VerifC29Seal(key, string(srv), sid, 1, []byte("aad"), 0)
		c.Stat("plain")
		if err != nil {
			return "err:too-long"
		}
		p, ok := c29Decrypt(tok, key, []byte("aad"))
		if !ok {
			return "undecryptable"
		}
		res := "lost"
		if s, i, _, ok := vgirpc.VerifC29Open(tok, key, []byte("aad")); ok {
			res = hex.EncodeToString([]byte(s)) + "/" + hex.EncodeToString(i)
			if s != string(srv) || !bytes.Equal(i, sid) {
				c.Oracle("token-roundtrip", fmt.Sprintf("%q: sealed (%x,%x), opened (%x,%x)", l, srv, sid, s, i))
			}
		} else {
			c.Oracle("token-roundtrip", fmt.Sprintf("%q: a freshly sealed token does not open", l))
		}
		return hex.EncodeToString(c29Mask(p)) + " " + res
	case f[0] == "parse" && len(f) == 2:
		p, e1 := UnX(f[1])
		if !e1 {
			return "bad-op"
		}
		key := bytes.Repeat([]byte{9}, 32)
		tok := c29SealRaw(key, []byte("aad"), p)
		c.Stat("parse")
		if s, i, _, ok := vgirpc.VerifC29Open(tok, key, []byte("aad")); ok {
			return hex.EncodeToString([]byte(s)) + "/" + hex.EncodeToString(i)
		}
		return "lost"
	case f[0] == "stress" && len(f) == 4:
		seed, e1 := strconv.Atoi(f[1])
		n, e2 := strconv.Atoi(f[2])
		k, e3 := strconv.Atoi(f[3])
		if e1 != nil || e2 != nil || e3 != nil {
			return "bad-op"
		}
		c.Stat("stress")
		return c29Stress(c, w, seed, n, k)
	case f[0] == "realreaper" && len(f) == 2:
		c.Stat("realreaper")
		return c29RealReaper(c, w)
	}
	return "bad-op"
}

func c29Stats(c *Case, out string) {
	for _, k := range []string{"=lock", ":lost:", "blk:", "o:ok", "o:draining", "o:bound", "o:noaccept", "o:sealfail", "c:hit", "c:miss", ":panic:", "done:204", "done:200"} {
		if strings.Contains(out, k) {
			c.Stat("seen" + k)
		}
	}
}
