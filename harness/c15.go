package main

import (
	"fmt"
	"strings"
)

// C15 — token lifetime is enforced and the call cache never changes outcomes.
//
// Histories over instances sharing one key with independent caches (`ref`: cache disabled, `a`:
// default size, `b`: size 1, `c`: default size, starts cold), one TTL per case. Every honest
// continuation is sent first to `ref` and then to the chosen instance (`pair=1`): their decisions
// must be equal. Time never waits: `advance n` ages every held token (re-sealed n seconds older
// through the server's sealToken) and every cache entry by n seconds; the generator keeps every
// token at least 3 s away from the TTL boundary at request time. Executor: c12_world.go.

func init() {
	Register(&Prop{
		ID: "C15",
		Rule: "random histories of init / paired honest continuations / advance over instances {ref(cache 0), a(4096), b(1), c(4096 cold)} sharing a key, " +
			"TTL in {20,100,3600} s (also changed at run time with SetTokenTTL), 1-3 interleaved streams, plus back-dated and post-dated hook-minted token pairs and call-token-less probes of warm caches; " +
			"non-trivial = at least one advance and one paired continuation; distinct = distinct scripts",
		Gen:  c15Gen,
		Exec: tkExecProp("C15"),
		NonTrivial: func(lines []string) bool {
			adv, pair := false, false
			for _, l := range lines {
				if strings.HasPrefix(l, "advance ") || strings.Contains(l, " age=") {
					adv = true
				}
				if strings.Contains(l, "pair=1") {
					pair = true
				}
			}
			return adv && pair
		},
	})
}

type c15Stream struct {
	id, method      string
	cur, call       string
	curAge, callAge int
	refused         int
}

func c15Gen(g *Gen) {
	r := g.Rng
	n := g.N(120, 1500)
	ids := []string{"anon", tkID(true, "bearer", "alice"), tkID(true, "jwt", "bob")}
	methods := []string{"exch", "dyne", "dyne", "dynn", "exb", "prod", "dynp"}
	for i := 0; i < g.N(3, 12); i++ {
		// sub-second lifetimes: fractional TTL, whole-second CreatedAt, requests placed at a chosen phase of the
		// wall-clock second: ages TTL-250 ms (accepted) and TTL+250 ms (refused), for the cursor and for the call token
		ttl := Pick(r, []int{1500, 2500, 3500})
		k := ttl / 1000 // token age in whole seconds at the request
		key := tkKeyOfLen(r, 32)
		id, m := Pick(r, ids), Pick(r, []string{"exch", "dyne", "prod"})
		kind := map[bool]string{true: "P", false: "E"}[m == "prod"]
		lines := []string{
			tkInstLine("ref", key, ttl, 0, false, "wr", false, true),
			tkInstLine("a", key, ttl, 4096, false, "wa", false, true),
		}
		cnt := 0
		probe := func(curAge, callAge, phase int) {
			cs, ks := fmt.Sprintf("mc%d", cnt), fmt.Sprintf("mk%d", cnt)
			cnt++
			lines = append(lines, "phase 40",
				fmt.Sprintf("mint cursor %s a %s age=%d callid=new method=%s skind=%s count=1 limit=50", cs, id, curAge, m, kind),
				fmt.Sprintf("mint call %s a %s age=%d callid=@%s schema=1 streamid=%s insch=%s", ks, id, callAge, cs, XS(fmt.Sprintf("%032x", r.U64())), tkMethodIn(m)),
				fmt.Sprintf("phase %d", phase),
				fmt.Sprintf("cont ref %s %s cur=$%s call=$%s cancel=0 sess=- out=- tight=1", id, m, cs, ks),
				fmt.Sprintf("cont a %s %s cur=$%s call=$%s cancel=0 sess=- out=- pair=1 tight=1", id, m, cs, ks),
				fmt.Sprintf("cont a %s %s cur=$%s call=$%s cancel=0 sess=- out=- pair=1 tight=1", id, m, cs, ks)) // second time: through the entry the first left
		}
		switch i % 3 {
		case 0:
			probe(k, 0, 750) // cursor TTL+250 ms
			probe(0, k, 780) // call token TTL+280 ms
		case 1:
			probe(k, 0, 250) // cursor TTL-250 ms
			probe(0, k, 700)
		default:
			probe(k, k, 760)
			probe(k, 0, 230)
		}
		g.Case(lines...)
	}
	for i := 0; i < n; i++ {
		T := Pick(r, []int{20, 20, 100, 3600})
		key := tkKeyOfLen(r, Pick(r, []int{16, 32, 32, 64}))
		rh, hk := r.Bool(), r.Bool()
		lines := []string{
			tkInstLine("ref", key, T*1000, 0, false, "wr", rh, hk),
			tkInstLine("a", key, T*1000, 4096, false, "wa", rh, hk),
			tkInstLine("b", key, T*1000, 1, false, "wb", rh, hk),
			tkInstLine("c", key, T*1000, Pick(r, []int{4096, 4096, 2}), false, "wc", rh, hk),
		}
		var streams []*c15Stream
		safe := func(age int) bool { return age <= T-3 || age >= T+3 }
		turn := func(s *c15Stream, inst string) {
			if !safe(s.curAge) || !safe(s.callAge) || s.refused >= 2 {
				return
			}
			// the input batch is int64 or a castable int32: a dynamic exchange stream casts it to the schema
			// it declared at /init, which travels in the call token / the cache entry
			in := Pick(r, []string{"i64", "i32", "i32"})
			lines = append(lines,
				fmt.Sprintf("cont ref %s %s cur=$%s call=$%s cancel=0 sess=- out=- in=%s", s.id, s.method, s.cur, s.call, in),
				fmt.Sprintf("cont %s %s %s cur=$%s call=$%s cancel=0 sess=- out=%s pair=1 in=%s", inst, s.id, s.method, s.cur, s.call, s.cur, in))
			if s.curAge <= T-3 && s.callAge <= T-3 {
				s.curAge = 0
			} else {
				s.refused++
			}
		}
		probe := func(s *c15Stream, _ string) { // not honest: no call token; the model predicts hit or miss.
			// Only on `a` (never evicts): which entry a full cache drops is not the property's business.
			if !safe(s.curAge) || !safe(s.callAge) {
				return
			}
			lines = append(lines, fmt.Sprintf("cont a %s %s cur=$%s call=- cancel=0 sess=- out=- in=%s", s.id, s.method, s.cur, Pick(r, []string{"i64", "i32"})))
		}
		newStream := func() {
			s := &c15Stream{id: Pick(r, ids[:1+r.Intn(len(ids))]), method: Pick(r, methods)}
			k := len(streams)
			s.cur, s.call = fmt.Sprintf("c%d", k), fmt.Sprintf("k%d", k)
			lines = append(lines, fmt.Sprintf("init %s %s %s limit=%d sess=- cur=%s call=%s", Pick(r, []string{"a", "b", "c"}), s.id, s.method, r.Range(30, 60), s.cur, s.call))
			streams = append(streams, s)
		}
		advance := func(d int) bool {
			for _, s := range streams {
				if !safe(s.curAge+d) || !safe(s.callAge+d) {
					return false
				}
			}
			lines = append(lines, fmt.Sprintf("advance %d", d))
			for _, s := range streams {
				s.curAge += d
				s.callAge += d
			}
			return true
		}
		// a refused pairing: stream x's cursor with stream y's (genuine, same caller) call token. It must
		// leave nothing behind on the instance that refused it.
		mismatch := func(x, y *c15Stream, inst string) {
			if x == y || x.id != y.id || !safe(x.curAge) || !safe(x.callAge) || !safe(y.callAge) {
				return
			}
			lines = append(lines, fmt.Sprintf("cont %s %s %s cur=$%s call=$%s cancel=0 sess=- out=- in=%s", inst, x.id, x.method, x.cur, y.call, Pick(r, []string{"i64", "i32"})))
		}
		// run-time reconfiguration: SetTokenTTL on every instance (the cache-less reference is switched
		// off again, SetTokenTTL rebuilds the cache at the default size)
		setTTL := func(newT int) {
			for _, n := range []string{"ref", "a", "b", "c"} {
				lines = append(lines, fmt.Sprintf("setttl %s %d", n, newT*1000))
			}
			lines = append(lines, "setcache ref 0")
			if r.Bool() {
				lines = append(lines, "setcache b 1")
			}
			T = newT
		}
		switch r.Intn(7) {
		case 6:
			// a stream is opened and used under a long TTL; the TTL is then shortened below the call token's
			// age (fresh cursor): warm instances must refuse exactly like the cache-less one; and lengthened again
			T = 100
			for k := range lines {
				lines[k] = strings.Replace(lines[k], fmt.Sprintf(" ttl=%d ", 20*1000), " ttl=100000 ", 1)
				lines[k] = strings.Replace(lines[k], fmt.Sprintf(" ttl=%d ", 3600*1000), " ttl=100000 ", 1)
			}
			newStream()
			s := streams[0]
			inst := Pick(r, []string{"a", "b", "c"})
			advance(r.Range(24, 40))
			turn(s, inst)
			turn(s, Pick(r, []string{"a", "b", "c"}))
			setTTL(20)
			turn(s, inst)
			probe(s, inst)
			turn(s, Pick(r, []string{"a", "b", "c"}))
			setTTL(100)
			turn(s, inst)
			turn(s, Pick(r, []string{"a", "b", "c"}))
			advance(5)
			setTTL(Pick(r, []int{60, 3600}))
			turn(s, inst)
			probe(s, inst)
		case 5:
			// A's cursor is paired with B's younger call token on an instance that holds no entry for A
			// (refused); A's own continuations there must then still see A's call — its stream id, its
			// declared input schema, and its expiry
			newStream()
			A := streams[0]
			A.id = ids[0]
			lines[len(lines)-1] = fmt.Sprintf("init a %s %s limit=50 sess=- cur=%s call=%s", A.id, A.method, A.cur, A.call)
			advance(T - r.Range(5, 8))
			newStream()
			B := streams[1]
			B.id = A.id
			B.method = Pick(r, methods)
			lines[len(lines)-1] = fmt.Sprintf("init %s %s %s limit=50 sess=- cur=%s call=%s", Pick(r, []string{"a", "b"}), B.id, B.method, B.cur, B.call)
			turn(A, "a") // a fresh cursor for A
			inst := Pick(r, []string{"c", "c", "b"})
			mismatch(A, B, inst)
			turn(A, inst)
			mismatch(B, A, inst)
			turn(B, inst)
			advance(r.Range(8, 11)) // A's call token is past its TTL now, B's is young
			turn(A, inst)
			mismatch(A, B, inst)
			turn(A, inst)
			turn(B, inst)
		case 0:
			// the scenario of the F15 defect, on every cache size: warm a cold instance just before the
			// call token expires, let the token expire, come back with a fresh cursor
			newStream()
			s := streams[0]
			inst := Pick(r, []string{"a", "b", "c"})
			advance(T - r.Range(3, 6))
			turn(s, inst)
			turn(s, Pick(r, []string{"a", "b", "c"}))
			advance(r.Range(7, 12))
			turn(s, inst)
			probe(s, inst)
			turn(s, Pick(r, []string{"a", "b", "c"}))
			advance(T)
			turn(s, inst)
		case 1:
			// hook-minted token pairs with chosen ages (including post-dated: clock skew between instances)
			for k := 0; k < 3; k++ {
				id, m := Pick(r, ids), Pick(r, methods)
				kind := map[bool]string{true: "P", false: "E"}[m == "prod" || m == "dynp"]
				if m == "exb" {
					kind = "B"
				}
				ages := []int{0, 1, T / 2, T - 4, T - 3, T + 3, T + 4, 2 * T, -30, -T - 10}
				ca, ka := Pick(r, ages), Pick(r, ages)
				cs, ks := fmt.Sprintf("mc%d", k), fmt.Sprintf("mk%d", k)
				lines = append(lines,
					fmt.Sprintf("mint cursor %s a %s age=%d callid=new method=%s skind=%s count=1 limit=50", cs, id, ca, m, kind),
					fmt.Sprintf("mint call %s a %s age=%d callid=@%s schema=1 streamid=%s insch=%s", ks, id, ka, cs, XS(fmt.Sprintf("%032x", r.U64())), Pick(r, []string{"-", "i64", tkMethodIn(m)})))
				inst := Pick(r, []string{"a", "b", "c"})
				lines = append(lines,
					fmt.Sprintf("cont ref %s %s cur=$%s call=$%s cancel=0 sess=- out=- in=i32", id, m, cs, ks),
					fmt.Sprintf("cont %s %s %s cur=$%s call=$%s cancel=0 sess=- out=- pair=1 in=i32", inst, id, m, cs, ks),
					fmt.Sprintf("cont ref %s %s cur=$%s call=$%s cancel=0 sess=- out=-", id, m, cs, ks),
					fmt.Sprintf("cont %s %s %s cur=$%s call=$%s cancel=0 sess=- out=- pair=1", inst, id, m, cs, ks),
					fmt.Sprintf("cont a %s %s cur=$%s call=- cancel=0 sess=- out=-", id, m, cs))
			}
		default:
			// random history
			newStream()
			steps := r.Range(8, 30)
			for k := 0; k < steps; k++ {
				switch x := r.Intn(100); {
				case (x < 8 || streams[len(streams)-1].refused >= 2) && len(streams) < 4:
					newStream()
				case x < 3:
					nt := Pick(r, []int{20, 100, 3600})
					ok := true
					for _, st := range streams {
						if !(st.curAge <= nt-3 || st.curAge >= nt+3) || !(st.callAge <= nt-3 || st.callAge >= nt+3) {
							ok = false
						}
					}
					if ok {
						setTTL(nt)
					}
				case x < 12 && len(streams) >= 2:
					mismatch(Pick(r, streams), Pick(r, streams), Pick(r, []string{"a", "b", "c"}))
				case x < 60:
					turn(Pick(r, streams), Pick(r, []string{"a", "b", "c"}))
				case x < 68:
					probe(Pick(r, streams), Pick(r, []string{"a", "b", "c"}))
				default:
					cands := []int{1, 2, 5, T / 4, T / 2, T - 5, T - 3, T + 3, T + 7}
					for try := 0; try < 6; try++ {
						if advance(Pick(r, cands)) {
							break
						}
					}
				}
			}
			for _, s := range streams {
				turn(s, Pick(r, []string{"a", "b", "c"}))
			}
		}
		g.Case(lines...)
	}
}
