package main

import (
	"bytes"
	"context"
	"fmt"
	"strconv"
	"strings"

	"github.com/apache/arrow-go/v18/arrow"
	"github.com/apache/arrow-go/v18/arrow/array"
	"github.com/apache/arrow-go/v18/arrow/ipc"
	"github.com/apache/arrow-go/v18/arrow/memory"
	"github.com/klauspost/compress/zstd"

	"github.com/Query-farm/vgi-rpc-go/vgirpc"
)

// C11 — a stream behaves the same over HTTP as over a pipe.
//
// Every `run` line is one whole stream session, executed twice on the real code: through
// Server.Serve over an in-memory pipe, and through 1..3 HttpServer instances (shared token key)
// driven by a conformant client (echoes cursor + call token, one input per exchange request,
// follows producer continuation tokens, per-request instance routing, optional response
// compression). The two client views are compared with each other (oracle) and with the model.
//
//	cfg limit=<n> cache=<0|1> inst=<1..3> comp=<0|1>
//	run <ex|pr|exh|prh|dyn> <ex|pr|ex+|pr+> <hdr|-> <ilogs> <ok|f<k>|p<k>> <decl> <prog> <route> <inputs>
//	    inputs := "-" | in ("," in)*    in := (s|c|b) ":" c<vals> [":" khex "=" vhex (";" khex "=" vhex)*] | "x"
//	                                    (x = cancel; the optional third field is the client's own metadata on the
//	                                    input batch: sorted, unique, none of the transport's keys)
//	    an optional last word z<n> | r<n> puts n bytes of compressible / incompressible ballast into the
//	    stream state, so the cursor tokens (gob + zstd + seal) span sizes from 100 B to over 1 MiB; the
//	    model ignores it: behaviour must not depend on the size of the state
//
// Observation: "pipe <view> | http <view>", view = "H<hdr|-> <items|-> <fin|err:<kind>|cancel|idle>".

type c11Params struct {
	Prog  string `vgirpc:"prog"`
	Kind  string `vgirpc:"kind"`
	Hdr   int64  `vgirpc:"hdr"`
	ILogs int64  `vgirpc:"ilogs"`
	IOut  string `vgirpc:"iout"`
	Decl  int64  `vgirpc:"decl"`
	Rec   string `vgirpc:"rec"`
	Pad   string `vgirpc:"pad"`
}

var c11ParamsSchema = arrow.NewSchema([]arrow.Field{
	{Name: "prog", Type: arrow.BinaryTypes.String},
	{Name: "kind", Type: arrow.BinaryTypes.String},
	{Name: "hdr", Type: arrow.PrimitiveTypes.Int64},
	{Name: "ilogs", Type: arrow.PrimitiveTypes.Int64},
	{Name: "iout", Type: arrow.BinaryTypes.String},
	{Name: "decl", Type: arrow.PrimitiveTypes.Int64},
	{Name: "rec", Type: arrow.BinaryTypes.String},
	{Name: "pad", Type: arrow.BinaryTypes.String},
}, nil)

func c11Handler(dynamic bool) func(context.Context, *vgirpc.CallContext, c11Params) (*vgirpc.StreamResult, error) {
	return func(_ context.Context, cc *vgirpc.CallContext, p c11Params) (*vgirpc.StreamResult, error) {
		for i := int64(0); i < p.ILogs; i++ {
			cc.ClientLog(vgirpc.LogInfo, fmt.Sprintf("m%d", i))
		}
		if strings.HasPrefix(p.IOut, "f") {
			return nil, &vgirpc.RpcError{Type: "ValueError", Message: "fail-" + p.IOut[1:]}
		}
		if strings.HasPrefix(p.IOut, "p") {
			panic("panic-" + p.IOut[1:])
		}
		res := &vgirpc.StreamResult{OutputSchema: scriptValueSchema, State: newScriptStatePad(p.Kind, "absent", p.Prog, p.Rec, p.Pad)}
		if p.Kind == "ex" && (!dynamic || p.Decl != 0) {
			res.InputSchema = scriptValueSchema
		}
		if p.Hdr > 0 {
			res.Header = &scriptHeader{N: p.Hdr}
		}
		return res, nil
	}
}

func registerC11Methods(srv *vgirpc.Server) {
	vgirpc.Exchange(srv, "ex", scriptValueSchema, scriptValueSchema, c11Handler(false))
	vgirpc.Producer(srv, "pr", scriptValueSchema, c11Handler(false))
	vgirpc.ExchangeWithHeader(srv, "exh", scriptValueSchema, scriptValueSchema, scriptHeaderSchema, c11Handler(false))
	vgirpc.ProducerWithHeader(srv, "prh", scriptValueSchema, scriptHeaderSchema, c11Handler(false))
	vgirpc.DynamicStreamWithHeader(srv, "dyn", scriptHeaderSchema, c11Handler(true))
}

func init() {
	Register(&Prop{
		ID: "C11",
		Rule: "whole stream sessions (static exchange/producer with and without header, dynamic streams with and without a declared input schema) with scripted per-cycle behaviour " +
			"(logs, emits with metadata, failures, panics, finish), init logs / init failure, inputs equal to / castable to / incompatible with the input schema, cancel at any exchange turn; " +
			"run over a pipe and over HTTP with batch limits 0..4, call cache on/off, response compression on/off, 1..3 instances with arbitrary per-request routing. " +
			"Non-trivial = a session whose init succeeds and that has at least one cycle; distinct = distinct scripts",
		Gen:  c11Gen,
		Exec: c11Exec,
		NonTrivial: func(lines []string) bool {
			for _, l := range lines {
				f := strings.Fields(l)
				if (len(f) == 10 || len(f) == 11) && f[0] == "run" && f[5] == "ok" && f[7] != "-" {
					return true
				}
			}
			return false
		},
	})
}

type c11Cfg struct {
	limit, inst int
	cache, comp bool
}

type c11Session struct {
	method, kind string
	state        string // the state TYPE the init returns: kind, or "pr+"/"ex+" (dynamic only): a type with both Produce and Exchange
	hdr, ilogs   int64
	iout         string
	decl         int64
	prog         string
	pad          string
	route        []int
	inputs       []c11Input
}

type c11Input struct {
	kind   string // s c b
	vals   []int64
	cancel bool
	mk, mv []string // the client's own custom metadata on the input batch
}

func parseC11Run(f []string) (*c11Session, bool) {
	if len(f) != 10 && len(f) != 11 {
		return nil, false
	}
	s := &c11Session{method: f[1], kind: f[2], state: f[2], iout: f[5], prog: f[7]}
	if len(f) == 11 {
		if len(f[10]) < 2 || (f[10][0] != 'z' && f[10][0] != 'r') {
			return nil, false
		}
		if n, err := strconv.Atoi(f[10][1:]); err != nil || n <= 0 || n > 4<<20 {
			return nil, false
		}
		s.pad = f[10]
	}
	switch s.method {
	case "ex", "exh":
		if s.kind != "ex" {
			return nil, false
		}
	case "pr", "prh":
		if s.kind != "pr" {
			return nil, false
		}
	case "dyn":
		// a dynamic stream's mode comes from its state: a ProducerState is a producer, whatever else
		// the type implements ("pr+" = ScriptPrX, "ex+" = ScriptExP: both have Produce AND Exchange)
		if s.kind == "pr+" || s.kind == "ex+" {
			s.kind = "pr"
		}
		if s.kind != "ex" && s.kind != "pr" {
			return nil, false
		}
	default:
		return nil, false
	}
	if f[3] != "-" {
		n, err := strconv.ParseInt(f[3], 10, 64)
		if err != nil || n <= 0 {
			return nil, false
		}
		s.hdr = n
	}
	var err error
	if s.ilogs, err = strconv.ParseInt(f[4], 10, 64); err != nil || s.ilogs < 0 {
		return nil, false
	}
	if s.iout != "ok" {
		if len(s.iout) < 2 || (s.iout[0] != 'f' && s.iout[0] != 'p') {
			return nil, false
		}
		if _, err := strconv.Atoi(s.iout[1:]); err != nil {
			return nil, false
		}
	}
	if s.decl, err = strconv.ParseInt(f[6], 10, 64); err != nil || (s.decl != 0 && s.decl != 1) {
		return nil, false
	}
	if _, err := parseScriptProg(s.prog); err != nil {
		return nil, false
	}
	for _, ch := range f[8] {
		if ch < '0' || ch > '2' {
			return nil, false
		}
		s.route = append(s.route, int(ch-'0'))
	}
	if len(s.route) == 0 {
		return nil, false
	}
	if f[9] != "-" {
		for _, in := range strings.Split(f[9], ",") {
			if in == "x" {
				s.inputs = append(s.inputs, c11Input{cancel: true})
				continue
			}
			kv := strings.SplitN(in, ":", 3)
			if len(kv) < 2 || (kv[0] != "s" && kv[0] != "c" && kv[0] != "b") {
				return nil, false
			}
			vals, ok := parseVals(kv[1])
			if !ok {
				return nil, false
			}
			inp := c11Input{kind: kv[0], vals: vals}
			if len(kv) == 3 {
				prev := ""
				for i, e := range strings.Split(kv[2], ";") {
					p := strings.SplitN(e, "=", 2)
					if len(p) != 2 {
						return nil, false
					}
					k, ok1 := UnX("x" + p[0])
					v, ok2 := UnX("x" + p[1])
					if !ok1 || !ok2 || isPropertyFrameworkKeyC11(string(k)) || (i > 0 && string(k) <= prev) {
						return nil, false
					}
					prev = string(k)
					inp.mk, inp.mv = append(inp.mk, string(k)), append(inp.mv, string(v))
				}
			}
			s.inputs = append(s.inputs, inp)
		}
		kind := ""
		for _, in := range s.inputs {
			if in.cancel {
				continue
			}
			if kind != "" && in.kind != kind {
				return nil, false // one schema per session (a pipe input stream has one schema)
			}
			kind = in.kind
		}
	}
	return s, true
}

func (s *c11Session) initBatch(rec string) arrow.RecordBatch {
	mem := memory.NewGoAllocator()
	str := func(v string) arrow.Array {
		b := array.NewStringBuilder(mem)
		defer b.Release()
		b.Append(v)
		return b.NewArray()
	}
	i64 := func(v int64) arrow.Array {
		b := array.NewInt64Builder(mem)
		defer b.Release()
		b.Append(v)
		return b.NewArray()
	}
	cols := []arrow.Array{str(s.prog), str(s.state), i64(s.hdr), i64(s.ilogs), str(s.iout), i64(s.decl), str(rec), str(s.pad)}
	batch := array.NewRecordBatch(c11ParamsSchema, cols, 1)
	for _, c := range cols {
		c.Release()
	}
	return batch
}

// inputBatch builds one exchange input of the given schema kind.
func c11InputBatch(in c11Input, _ bool) (arrow.RecordBatch, *arrow.Schema) {
	mem := memory.NewGoAllocator()
	switch in.kind {
	case "c":
		schema := arrow.NewSchema([]arrow.Field{{Name: "value", Type: arrow.PrimitiveTypes.Int32}}, nil)
		b := array.NewInt32Builder(mem)
		defer b.Release()
		for _, v := range in.vals {
			b.Append(int32(v))
		}
		arr := b.NewArray()
		defer arr.Release()
		return array.NewRecordBatch(schema, []arrow.Array{arr}, int64(len(in.vals))), schema
	case "b":
		schema := arrow.NewSchema([]arrow.Field{{Name: "other", Type: arrow.PrimitiveTypes.Int64}}, nil)
		b := array.NewInt64Builder(mem)
		defer b.Release()
		b.AppendValues(in.vals, nil)
		arr := b.NewArray()
		defer arr.Release()
		return array.NewRecordBatch(schema, []arrow.Array{arr}, int64(len(in.vals))), schema
	}
	b := array.NewInt64Builder(mem)
	defer b.Release()
	b.AppendValues(in.vals, nil)
	arr := b.NewArray()
	defer arr.Release()
	return array.NewRecordBatch(scriptValueSchema, []arrow.Array{arr}, int64(len(in.vals))), scriptValueSchema
}

func isPropertyFrameworkKeyC11(k string) bool {
	return k == vgirpc.MetaStreamState || k == vgirpc.MetaCallState || k == vgirpc.MetaCancel
}

// withMeta attaches custom metadata to a batch (returns a new owned batch).
func withMeta(b arrow.RecordBatch, keys, values []string) arrow.RecordBatch {
	if len(keys) == 0 {
		b.Retain()
		return b
	}
	return array.NewRecordBatchWithMetadata(b.Schema(), b.Columns(), b.NumRows(), arrow.NewMetadata(keys, values))
}

// clientView is what a client saw of one session.
type clientView struct {
	header string
	items  []string
	term   string
}

func (v clientView) String() string {
	it := "-"
	if len(v.items) > 0 {
		it = strings.Join(v.items, ",")
	}
	return "H" + v.header + " " + it + " " + v.term
}

// viewItem renders a non-token output batch as the client sees it: user metadata only (the two
// token keys are transport plumbing), sorted.
func viewItem(e *streamEnv, b respBatch) (string, bool) {
	if b.isLog() {
		if b.isException() {
			return "", false
		}
		return e.renderBatch(b), true
	}
	var keys, vals []string
	for i, k := range b.keys {
		if k == vgirpc.MetaStreamState || k == vgirpc.MetaCallState {
			continue
		}
		keys = append(keys, k)
		vals = append(vals, b.values[i])
	}
	s := e.renderBatch(respBatch{rows: b.rows, vals: b.vals, keys: keys, values: vals, ncols: b.ncols})
	if i := strings.LastIndex(s, "^"); i >= 0 {
		s = s[:i]
	}
	return s, true
}

func excKind(b respBatch) string {
	msg, _ := b.get(vgirpc.MetaLogMessage)
	return errKind(msg)
}

// c11Pipe runs the session through Server.Serve on in-memory buffers: the request, then the whole
// input stream (every input, or enough ticks for a producer), are written up front; the server
// consumes them in lockstep and drains what is left.
func c11Pipe(s *c11Session) clientView {
	srv := vgirpc.NewServer()
	registerC11Methods(srv)
	recID, _ := newScriptRecorder()
	defer dropScriptRecorder(recID)
	var in bytes.Buffer
	ib := s.initBatch(recID)
	if err := vgirpc.WriteRequest(&in, s.method, ib, ""); err != nil {
		panic(err)
	}
	ib.Release()
	// input stream
	if s.kind == "pr" {
		schema := arrow.NewSchema(nil, nil)
		w := ipc.NewWriter(&in, ipc.WithSchema(schema))
		ticks, _ := parseScriptProg(s.prog)
		for i := 0; i < len(ticks)+3; i++ {
			b := array.NewRecordBatch(schema, nil, 0)
			if err := w.Write(b); err != nil {
				panic(err)
			}
			b.Release()
		}
		w.Close()
	} else {
		// an IPC stream has ONE schema, so all inputs of a session share their schema kind (checked
		// by parseC11Run); a cancel rides a zero-row batch of that schema
		kind := "s"
		for _, x := range s.inputs {
			if !x.cancel {
				kind = x.kind
				break
			}
		}
		proto, schema := c11InputBatch(c11Input{kind: kind}, false)
		if len(s.inputs) == 0 {
			// the client opens its input stream and closes it at once: schema message + end marker
			// (arrow-go's writer emits the schema only with the first batch)
			var one bytes.Buffer
			ow := ipc.NewWriter(&one, ipc.WithSchema(schema))
			if err := ow.Write(proto); err != nil {
				panic(err)
			}
			ow.Close()
			mr := ipc.NewMessageReader(bytes.NewReader(one.Bytes()))
			rd := bytes.NewReader(one.Bytes())
			mr.Release()
			mr = ipc.NewMessageReader(rd)
			if _, err := mr.Message(); err != nil {
				panic(err)
			}
			in.Write(one.Bytes()[:one.Len()-rd.Len()])
			in.Write([]byte{0xff, 0xff, 0xff, 0xff, 0, 0, 0, 0})
			mr.Release()
		}
		w := ipc.NewWriter(&in, ipc.WithSchema(schema))
		for _, inp := range s.inputs {
			var b arrow.RecordBatch
			if inp.cancel {
				md := arrow.NewMetadata([]string{vgirpc.MetaCancel}, []string{"1"})
				b = array.NewRecordBatchWithMetadata(schema, proto.Columns(), 0, md)
			} else {
				raw, _ := c11InputBatch(inp, false)
				b = withMeta(raw, inp.mk, inp.mv)
				raw.Release()
			}
			if err := w.Write(b); err != nil {
				panic(err)
			}
			b.Release()
		}
		proto.Release()
		if len(s.inputs) > 0 {
			w.Close()
		}
	}
	var out bytes.Buffer
	srv.Serve(bytes.NewReader(in.Bytes()), &out)
	return parsePipeOutput(out.Bytes(), s)
}

func parsePipeOutput(body []byte, s *c11Session) clientView {
	e := &streamEnv{callTok: map[string]int{}, noLearn: true}
	batches, ok := parseIPCBody(body)
	v := clientView{header: "-", term: "fin"}
	if !ok {
		v.term = "unparseable"
	}
	nStreams := countIPCStreams(body)
	dataSeen := 0
	for _, b := range batches {
		headerStream := nStreams == 2 && b.stream == 0
		if b.isException() {
			v.term = "err:" + excKind(b)
			return v
		}
		if headerStream && !b.isLog() {
			if len(b.vals) == 1 {
				v.header = strconv.FormatInt(b.vals[0], 10)
			}
			continue
		}
		if it, ok := viewItem(e, b); ok {
			v.items = append(v.items, it)
			if !b.isLog() {
				dataSeen++
			}
		}
	}
	if s.kind == "ex" && s.iout == "ok" {
		// the stream ended without an error: because the client cancelled, or ran out of inputs
		v.term = "idle"
		n := 0
		for _, inp := range s.inputs {
			if inp.cancel {
				if n == dataSeen {
					v.term = "cancel"
				}
				break
			}
			n++
		}
	}
	return v
}

// c11HTTP runs the session through HttpServer instances with a conformant client.
func c11HTTP(s *c11Session, cfg c11Cfg) clientView {
	e := newStreamEnvWith(streamCfg{cache: cfg.cache, limit: cfg.limit, instances: cfg.inst}, registerC11Methods)
	defer e.close()
	nReq := 0
	hdr := map[string]string{}
	if cfg.comp {
		hdr["Accept-Encoding"] = "zstd"
	}
	post := func(path string, body []byte) *httpResult {
		inst := s.route[nReq%len(s.route)] % cfg.inst
		nReq++
		res := e.post(inst, path, body, hdr)
		if res.header.Get("Content-Encoding") == "zstd" {
			dec, _ := zstd.NewReader(nil)
			raw, err := dec.DecodeAll(res.body, nil)
			dec.Close()
			if err == nil {
				res.body = raw
				res.batches, res.parseOK = parseIPCBody(raw)
			}
		}
		return res
	}
	v := clientView{header: "-", term: "fin"}
	var in bytes.Buffer
	ib := s.initBatch(e.recID)
	if err := vgirpc.WriteRequest(&in, s.method, ib, ""); err != nil {
		panic(err)
	}
	ib.Release()
	res := post("/"+s.method+"/init", in.Bytes())
	tok, call := "", ""
	// consume one response; returns false when the stream ended
	consume := func(res *httpResult, init bool) bool {
		if !res.parseOK {
			v.term = "unparseable"
			return false
		}
		nStreams := countIPCStreams(res.body)
		tok = ""
		for _, b := range res.batches {
			if b.isException() {
				v.term = "err:" + excKind(b)
				return false
			}
			if init && nStreams == 2 && b.stream == 0 && !b.isLog() {
				if len(b.vals) == 1 {
					v.header = strconv.FormatInt(b.vals[0], 10)
				}
				continue
			}
			if t, ok := b.get(vgirpc.MetaStreamState); ok && t != "" && tok == "" {
				tok = t
			}
			if ct, ok := b.get(vgirpc.MetaCallState); ok && ct != "" && init {
				call = ct
			}
			if _, hasTok := b.get(vgirpc.MetaStreamState); hasTok && !b.isLog() && b.rows == 0 && (s.kind == "pr" || init) {
				continue // the zero-row token sentinel
			}
			if it, ok := viewItem(e, b); ok {
				v.items = append(v.items, it)
			}
		}
		if res.status != 200 || res.rpcErr {
			v.term = fmt.Sprintf("http%d", res.status)
			return false
		}
		return tok != ""
	}
	if !consume(res, true) {
		return v
	}
	cont := func(batch arrow.RecordBatch, schema *arrow.Schema, cancel bool, mk, mv []string) []byte {
		keys := []string{vgirpc.MetaStreamState, vgirpc.MetaCallState}
		vals := []string{tok, call}
		keys, vals = append(keys, mk...), append(vals, mv...)
		if cancel {
			keys = append(keys, vgirpc.MetaCancel)
			vals = append(vals, "1")
		}
		wm := array.NewRecordBatchWithMetadata(schema, batch.Columns(), batch.NumRows(), arrow.NewMetadata(keys, vals))
		defer wm.Release()
		var buf bytes.Buffer
		w := ipc.NewWriter(&buf, ipc.WithSchema(schema))
		if err := w.Write(wm); err != nil {
			panic(err)
		}
		w.Close()
		return buf.Bytes()
	}
	if s.kind == "pr" {
		ticks, _ := parseScriptProg(s.prog)
		for turn := 0; ; turn++ {
			if turn > len(ticks)+3 {
				v.term = "idle"
				return v
			}
			schema := arrow.NewSchema(nil, nil)
			b := array.NewRecordBatch(schema, nil, 0)
			res := post("/"+s.method+"/exchange", cont(b, schema, false, nil, nil))
			b.Release()
			if !consume(res, false) {
				return v
			}
		}
	}
	v.term = "idle"
	for _, inp := range s.inputs {
		b, schema := c11InputBatch(inp, false)
		if inp.cancel {
			b.Release()
			schema = arrow.NewSchema(nil, nil)
			b = array.NewRecordBatch(schema, nil, 0)
		}
		res := post("/"+s.method+"/exchange", cont(b, schema, inp.cancel, inp.mk, inp.mv))
		b.Release()
		if inp.cancel {
			v.term = "cancel"
			return v
		}
		v.term = "fin"
		if !consume(res, false) {
			if v.term == "fin" {
				v.term = "no-cursor"
			}
			return v
		}
		v.term = "idle"
	}
	return v
}

func c11Exec(c *Case) {
	cfg := c11Cfg{inst: 1, cache: true}
	for _, l := range c.Lines {
		f := strings.Fields(l)
		if len(f) == 0 {
			continue
		}
		switch f[0] {
		case "cfg":
			sc, ok := parseStreamCfg(f[1:])
			if !ok {
				// comp= is C11's own key
				ok = true
				sc = streamCfg{cache: true, instances: 1}
				for _, w := range f[1:] {
					kv := strings.SplitN(w, "=", 2)
					n, err := strconv.Atoi(kv[len(kv)-1])
					if len(kv) != 2 || err != nil || n < 0 {
						ok = false
						break
					}
					switch kv[0] {
					case "limit":
						sc.limit = n
					case "cache":
						sc.cache = n != 0
					case "inst":
						sc.instances = n
					case "comp":
						cfg.comp = n != 0
					default:
						ok = false
					}
				}
			}
			if !ok || sc.instances < 1 || sc.instances > 3 {
				c.Out(l, "err:bad-line")
				continue
			}
			cfg.limit, cfg.cache, cfg.inst = sc.limit, sc.cache, sc.instances
			c.Out(l, "ok")
		case "run":
			s, ok := parseC11Run(f)
			if !ok {
				c.Out(l, "err:bad-line")
				continue
			}
			pv := c11Pipe(s)
			hv := c11HTTP(s, cfg)
			c.Stat("run-" + s.method + "-" + s.state)
			c.Stat("term-" + strings.SplitN(pv.term, ":", 2)[0])
			ml := l
			if s.state != s.kind {
				// the model knows the documented rule only: such a state is a producer
				mf := append([]string{}, f...)
				mf[2] = s.kind
				ml = strings.Join(mf, " ")
			}
			c.Out(ml, "pipe "+pv.String()+" | http "+hv.String())
			if pv.String() != hv.String() {
				c.Oracle(c11DiffClass(s, pv, hv), fmt.Sprintf("%q: over the pipe the client sees %s, over HTTP %s", l, pv.String(), hv.String()))
			}
		default:
			c.Out(l, "err:bad-line")
		}
	}
}

// c11DiffClass names the kind of difference (stable slugs for known_findings matching).
func c11DiffClass(s *c11Session, pv, hv clientView) string {
	kind := "static"
	if s.method == "dyn" {
		kind = "dynamic"
	}
	hasCast := false
	for _, in := range s.inputs {
		if in.kind == "c" || in.kind == "b" {
			hasCast = true
		}
	}
	tokenKeyEmit := strings.Contains(s.prog, hx(vgirpc.MetaStreamState)+"=") || strings.Contains(s.prog, hx(vgirpc.MetaCallState)+"=")
	echoesInputMeta := false
	if strings.Contains(s.prog, "E0:") || strings.Contains(s.prog, "E1:") {
		for _, in := range s.inputs {
			if len(in.mk) > 0 {
				echoesInputMeta = true
			}
		}
	}
	switch {
	case pv.header != hv.header:
		return "header-differs-" + kind
	case echoesInputMeta:
		return "handler-input-metadata-differs-" + kind
	case tokenKeyEmit:
		return "emit-metadata-token-key-changes-http-view"
	case s.pad != "" && (strings.Contains(hv.term, "badToken") || strings.HasPrefix(hv.term, "http")):
		return "large-state-token-refused-over-http"
	case kind == "dynamic" && s.kind == "ex" && hasCast && s.decl == 1:
		return "dynamic-declared-input-schema-not-applied"
	case strings.Join(pv.items, ",") != strings.Join(hv.items, ","):
		return "batches-differ-" + kind + "-" + s.kind
	default:
		return "termination-differs-" + kind + "-" + s.kind
	}
}
