package main
import ("testing";"os";"runtime/pprof")
func TestProf(t *testing.T){
  f,_ := os.Create("/tmp/c19.prof"); pprof.StartCPUProfile(f); defer pprof.StopCPUProfile()
  p := registry["C19"]
  n:=0
  g := &Gen{Rng: NewRng(1), Tier:"quick", Seed:1, emit: func(lines []string){ n++; if n<=120 { runCase(p, n, lines) } }}
  p.Gen(g)
}
