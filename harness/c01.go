package main

import (
	"bytes"
	"encoding/hex"
	"errors"
	"fmt"
	"io"
	"strconv"
	"strings"
	"time"
	"unicode/utf8"

	"github.com/Query-farm/vgi-rpc-go/vgirpc"
	"github.com/apache/arrow-go/v18/arrow"
	"github.com/apache/arrow-go/v18/arrow/array"
	"github.com/apache/arrow-go/v18/arrow/decimal128"
	"github.com/apache/arrow-go/v18/arrow/ipc"
	"github.com/apache/arrow-go/v18/arrow/memory"
)

// C01 — wire helpers are mutually inverse; malformed bodies give a typed error, never a panic.
//
// Every script line produces a byte string with REAL writers, optionally mutates it, and hands it
// to the four readers (ReadRequest, FindStreamTokens, FindProtocolVersion, ReadUnaryResult).
//
//	wr   <mut> <method x..> <pv x..> <cols> <rows> <seed>     vgirpc.WriteRequest on a random batch
//	wu   <mut> <envelope> <result x..>                        vgirpc.WriteUnaryResult
//	resp <mut> err <envelope> | unary <nlogs> <result x..> | void <nlogs>
//	                                                          WriteErrorResponse / WriteUnaryResponse / WriteVoidResponse
//	body <mut> <tag> {S <cols> {B <rows> <seed> <meta> | K <token x..> <call x..>}}
//	                                                          arrow-go encoding of an abstract body;
//	                                                          K = batch stamped by writeStateTokenBatch
//	raw  <mut> x<hex>                                         arbitrary bytes
//
//	<cols> = - | hexname:typecode:0|1,...   <meta> = - | hexkey=hexval,...
//	<mut>  = - | trunc:<permille> | flip:<permille>:<bit> | junk:<hex> | drop:<permille>:<n>
//
// Model line: for unmutated wr / wu the model computes the body with ITS writeRequest /
// writeUnaryResult (the cells it cannot know are supplied); for unmutated body lines the abstract
// body is the script's; in every other case (mutations, resp, raw) the abstract body is obtained
// with an independent ipc.Reader walk over the bytes.

func init() {
	// screening child (see c01_probe.go): the independent walk and the four readers
	RegisterProbe("c01", func(data []byte) byte {
		t0 := time.Now()
		_, _ = c01Parse(data)
		if time.Since(t0) > 200*time.Millisecond {
			return 's' // a corrupted length made the reader allocate gigabytes: too slow to repeat 5 times
		}
		_ = c01Observe(data)
		return 'k'
	})
	defer probeEnter()
	Register(&Prop{
		ID: "C01",
		Rule: "positive stream: WriteRequest over random schemas of 0..6 columns drawn from 24 Arrow types (nested, dictionary, " +
			"temporal, decimal, nullable), any-bytes method names (empty, multi-byte, invalid UTF-8), row counts 0/1/2/5, any pv string; " +
			"WriteUnaryResult over 8 envelope shapes; abstract bodies of 1..4 concatenated streams with token/log/exception/pointer " +
			"metadata in arbitrary positions and duplicates; real error/unary/void responses. negative stream: truncations, bit flips, " +
			"dropped ranges, appended junk of all of these, and random bytes. non-trivial = every case except an empty raw line",
		Gen:  c01Gen,
		Exec: c01Exec,
		NonTrivial: func(lines []string) bool {
			for _, l := range lines {
				if l != "raw - x" {
					return true
				}
			}
			return false
		},
	})
}

// ---------------------------------------------------------------- column construction

type c01Col struct {
	name     string
	code     string
	nullable bool
}

var c01Types = map[string]arrow.DataType{
	"i8": arrow.PrimitiveTypes.Int8, "i16": arrow.PrimitiveTypes.Int16, "i32": arrow.PrimitiveTypes.Int32,
	"i64": arrow.PrimitiveTypes.Int64, "u8": arrow.PrimitiveTypes.Uint8, "u16": arrow.PrimitiveTypes.Uint16,
	"u32": arrow.PrimitiveTypes.Uint32, "u64": arrow.PrimitiveTypes.Uint64,
	"f32": arrow.PrimitiveTypes.Float32, "f64": arrow.PrimitiveTypes.Float64,
	"bool": arrow.FixedWidthTypes.Boolean, "utf8": arrow.BinaryTypes.String, "lutf8": arrow.BinaryTypes.LargeString,
	"bin": arrow.BinaryTypes.Binary, "lbin": arrow.BinaryTypes.LargeBinary,
	"fsb4": &arrow.FixedSizeBinaryType{ByteWidth: 4},
	"date": arrow.FixedWidthTypes.Date32,
	"tsus": &arrow.TimestampType{Unit: arrow.Microsecond, TimeZone: "UTC"},
	"tsns": &arrow.TimestampType{Unit: arrow.Nanosecond},
	"t64":  arrow.FixedWidthTypes.Time64us,
	"dur":  arrow.FixedWidthTypes.Duration_us,
	"dec":  &arrow.Decimal128Type{Precision: 12, Scale: 2},
	"li64": arrow.ListOf(arrow.PrimitiveTypes.Int64),
	"lutf": arrow.ListOf(arrow.BinaryTypes.String),
	"st":   arrow.StructOf(arrow.Field{Name: "a", Type: arrow.PrimitiveTypes.Int64, Nullable: true}, arrow.Field{Name: "b", Type: arrow.BinaryTypes.String, Nullable: true}),
	"map":  arrow.MapOf(arrow.BinaryTypes.String, arrow.PrimitiveTypes.Int64),
	"dict": &arrow.DictionaryType{IndexType: arrow.PrimitiveTypes.Int8, ValueType: arrow.BinaryTypes.String},
	"null": arrow.Null,
	"lst":  arrow.ListOf(arrow.StructOf(arrow.Field{Name: "k", Type: arrow.BinaryTypes.Binary, Nullable: true})),
	"fsl3": arrow.FixedSizeListOf(3, arrow.PrimitiveTypes.Float64),
}

var c01TypeCodes = []string{"i8", "i16", "i32", "i64", "u8", "u16", "u32", "u64", "f32", "f64", "bool", "utf8", "lutf8",
	"bin", "lbin", "fsb4", "date", "tsus", "tsns", "t64", "dur", "dec", "li64", "lutf", "st", "map", "dict", "null", "fsl3"}

var c01Strings = []string{"", "a", "héllo", "日本", "x y", "\x00", "result", "1", "😀", strings.Repeat("z", 70)}

func c01Append(b array.Builder, r *Rng, depth int) {
	switch bb := b.(type) {
	case *array.Int8Builder:
		bb.Append(int8(r.U64()))
	case *array.Int16Builder:
		bb.Append(int16(r.U64()))
	case *array.Int32Builder:
		bb.Append(int32(r.U64()))
	case *array.Int64Builder:
		bb.Append(Pick(r, []int64{0, 1, -1, 42, 1<<63 - 1, -1 << 63, int64(r.U64())}))
	case *array.Uint8Builder:
		bb.Append(uint8(r.U64()))
	case *array.Uint16Builder:
		bb.Append(uint16(r.U64()))
	case *array.Uint32Builder:
		bb.Append(uint32(r.U64()))
	case *array.Uint64Builder:
		bb.Append(Pick(r, []uint64{0, 1, 1<<64 - 1, r.U64()}))
	case *array.Float32Builder:
		bb.Append(Pick(r, []float32{0, 1.5, -2.25, 1e30}))
	case *array.Float64Builder:
		bb.Append(Pick(r, []float64{0, 1.5, -2.25, 1e300, 3}))
	case *array.BooleanBuilder:
		bb.Append(r.Bool())
	case *array.StringBuilder:
		bb.Append(Pick(r, c01Strings))
	case *array.LargeStringBuilder:
		bb.Append(Pick(r, c01Strings))
	case *array.BinaryBuilder: // also LargeBinary
		bb.Append(r.Bytes(r.Intn(9)))
	case *array.FixedSizeBinaryBuilder:
		bb.Append(r.Bytes(4))
	case *array.Date32Builder:
		bb.Append(arrow.Date32(int32(r.Range(-40000, 40000))))
	case *array.TimestampBuilder:
		bb.Append(arrow.Timestamp(int64(r.U64() >> 8)))
	case *array.Time64Builder:
		bb.Append(arrow.Time64(int64(r.Intn(86400000000))))
	case *array.DurationBuilder:
		bb.Append(arrow.Duration(int64(r.U64() >> 20)))
	case *array.Decimal128Builder:
		bb.Append(decimal128.FromI64(int64(r.Range(-99999, 99999))))
	case *array.ListBuilder:
		bb.Append(true)
		for i, n := 0, r.Intn(3); i < n && depth < 3; i++ {
			c01Append(bb.ValueBuilder(), r, depth+1)
		}
	case *array.FixedSizeListBuilder:
		bb.Append(true)
		for i := 0; i < 3; i++ {
			c01Append(bb.ValueBuilder(), r, depth+1)
		}
	case *array.StructBuilder:
		bb.Append(true)
		for i := 0; i < bb.NumField(); i++ {
			if r.Chance(20) {
				bb.FieldBuilder(i).AppendNull()
			} else {
				c01Append(bb.FieldBuilder(i), r, depth+1)
			}
		}
	case *array.MapBuilder:
		bb.Append(true)
		for i, n := 0, r.Intn(3); i < n; i++ {
			bb.KeyBuilder().(*array.StringBuilder).Append("k" + strconv.Itoa(i))
			bb.ItemBuilder().(*array.Int64Builder).Append(int64(r.Intn(100)))
		}
	case *array.BinaryDictionaryBuilder:
		_ = bb.AppendString(Pick(r, []string{"red", "green", "blue", ""}))
	case *array.NullBuilder:
		bb.AppendNull()
	default:
		b.AppendNull()
	}
}

func c01ParseCols(s string) ([]c01Col, bool) {
	if s == "-" {
		return nil, true
	}
	var out []c01Col
	for _, p := range strings.Split(s, ",") {
		f := strings.Split(p, ":")
		if len(f) != 3 || (f[2] != "0" && f[2] != "1") {
			return nil, false
		}
		nb, err := hex.DecodeString(f[0])
		if err != nil || c01Types[f[1]] == nil {
			return nil, false
		}
		out = append(out, c01Col{string(nb), f[1], f[2] == "1"})
	}
	return out, true
}

func c01Schema(cols []c01Col) *arrow.Schema {
	fs := make([]arrow.Field, len(cols))
	for i, c := range cols {
		fs[i] = arrow.Field{Name: c.name, Type: c01Types[c.code], Nullable: c.nullable}
	}
	return arrow.NewSchema(fs, nil)
}

// c01Batch builds a batch deterministically from the seed.
func c01Batch(schema *arrow.Schema, rows int, seed uint64, meta [][2]string) arrow.RecordBatch {
	r := NewRng(seed)
	mem := memory.NewGoAllocator()
	cols := make([]arrow.Array, schema.NumFields())
	for i, f := range schema.Fields() {
		b := array.NewBuilder(mem, f.Type)
		for k := 0; k < rows; k++ {
			if f.Nullable && r.Chance(20) {
				b.AppendNull()
			} else {
				c01Append(b, r, 0)
			}
		}
		cols[i] = b.NewArray()
		b.Release()
	}
	keys := make([]string, len(meta))
	vals := make([]string, len(meta))
	for i, kv := range meta {
		keys[i], vals[i] = kv[0], kv[1]
	}
	rec := array.NewRecordBatchWithMetadata(schema, cols, int64(rows), arrow.NewMetadata(keys, vals))
	for _, c := range cols {
		c.Release()
	}
	return rec
}

// ---------------------------------------------------------------- canonical rendering

func c01X(b []byte) string { return "x" + hex.EncodeToString(b) }

func c01Cell(col arrow.Array) []byte {
	if col.Len() == 0 {
		return nil
	}
	if b, ok := col.(*array.Binary); ok {
		// Touch the value bytes even of a NULL cell, exactly as ReadUnaryResult does
		// (bin.Value(0), no null check): on a column whose offsets are corrupted this panics here
		// too, the walk reports the batch as unrenderable and the line is checked for panics only
		// instead of being compared (a null cell with sound offsets reads as empty bytes).
		v := b.Value(0)
		if b.IsNull(0) {
			return nil
		}
		return v
	}
	return []byte(col.ValueStr(0))
}

func c01Cells(rec arrow.RecordBatch) string {
	if rec.NumRows() == 0 || rec.NumCols() == 0 {
		return "-"
	}
	var p []string
	for i := 0; i < int(rec.NumCols()); i++ {
		p = append(p, c01X(c01Cell(rec.Column(i))))
	}
	return strings.Join(p, ";")
}

func c01SchemaText(s *arrow.Schema) string {
	if s == nil || s.NumFields() == 0 {
		return "-"
	}
	var p []string
	for _, f := range s.Fields() {
		n := "0"
		if f.Nullable {
			n = "1"
		}
		p = append(p, hex.EncodeToString([]byte(f.Name))+":"+hex.EncodeToString([]byte(f.Type.String()))+":"+n)
	}
	return strings.Join(p, ",")
}

func c01MetaText(md arrow.Metadata) string {
	if md.Len() == 0 {
		return "-"
	}
	var p []string
	for i, k := range md.Keys() {
		p = append(p, hex.EncodeToString([]byte(k))+"="+hex.EncodeToString([]byte(md.Values()[i])))
	}
	return strings.Join(p, ",")
}

func c01BatchText(rec arrow.RecordBatch) string {
	var md arrow.Metadata
	if rb, ok := rec.(arrow.RecordBatchWithMetadata); ok {
		md = rb.Metadata()
	}
	return fmt.Sprintf("B %d %s %s", rec.NumRows(), c01Cells(rec), c01MetaText(md))
}

// c01Parse is the independent walk: the abstract body of a byte string as arrow-go's reader
// sees it. ok=false: the walk itself panicked (then nothing is compared for this line).
func c01Parse(data []byte) (line string, ok bool) {
	line, ok, _ = c01ParseRemain(data)
	return line, ok
}

// c01ParseRemain also reports how many bytes were still unread when an open failed (junk): what a
// reader that keeps going finds there is not determined by the abstract body.
func c01ParseRemain(data []byte) (line string, ok bool, afterJunk int) {
	defer func() {
		if r := recover(); r != nil {
			line, ok, afterJunk = "", false, 0
		}
	}()
	words := []string{"body"}
	r := bytes.NewReader(data)
	for r.Len() > 0 {
		rd, err := ipc.NewReader(r)
		if err != nil {
			words = append(words, "J")
			afterJunk = r.Len()
			break
		}
		var bs []string
		for rd.Next() {
			bs = append(bs, c01BatchText(rd.RecordBatch()))
		}
		broken := rd.Err() != nil
		tag := "S"
		if broken {
			tag = "SX"
		}
		words = append(words, tag, c01SchemaText(rd.Schema()))
		words = append(words, bs...)
		rd.Release()
		if broken {
			break
		}
	}
	return strings.Join(words, " "), true, afterJunk
}

// ---------------------------------------------------------------- the readers under test

type c01Obs struct {
	unrenderable bool
	text         string
	panics       []string
	reqOK        bool
	req          *vgirpc.Request
	urOK         bool
	urBytes      []byte
	urSch        *arrow.Schema
	state        []byte
	call         []byte
	fpv          string
	rrErr        error
}

func c01Guard(name string, o *c01Obs, f func()) {
	defer func() {
		if r := recover(); r != nil {
			o.panics = append(o.panics, name+": "+fmt.Sprint(r))
		}
	}()
	f()
}

func c01Opt(b []byte) string {
	if b == nil {
		return "-"
	}
	return c01X(b)
}

func c01Observe(data []byte) *c01Obs {
	o := &c01Obs{}
	rr, tok, fpv, ur := "panic", "panic", "panic", "panic"
	c01Guard("ReadRequest", o, func() {
		req, err := vgirpc.ReadRequest(bytes.NewReader(data))
		o.rrErr = err
		var rpc *vgirpc.RpcError
		switch {
		case err == nil:
			o.reqOK, o.req = true, req
			rr = "ok"
		case err == io.EOF:
			rr = "eof"
		case errors.As(err, &rpc):
			rr = "rpc:" + rpc.Type
		default:
			rr = "transport"
		}
	})
	if o.reqOK {
		// rendering the returned batch is the harness' own code: corrupted offsets that the IPC
		// reader let through can make ValueStr panic, which is not a panic of the helper
		o2 := &c01Obs{}
		c01Guard("render", o2, func() {
			req := o.req
			pv := "-"
			if v, ok := req.Metadata[vgirpc.MetaProtocolVersion]; ok {
				pv = c01X([]byte(v))
			}
			rr = fmt.Sprintf("ok:%s:%s:%s:%s:%s:%s:%d:%s", c01X([]byte(req.Method)), c01X([]byte(req.Version)),
				c01X([]byte(req.RequestID)), c01X([]byte(req.LogLevel)), pv, c01SchemaText(req.Batch.Schema()),
				req.Batch.NumRows(), c01Cells(req.Batch))
		})
		if len(o2.panics) > 0 {
			o.unrenderable = true
		}
	}
	c01Guard("FindStreamTokens", o, func() {
		o.state, o.call = vgirpc.FindStreamTokens(data)
		tok = c01Opt(o.state) + "/" + c01Opt(o.call)
	})
	c01Guard("FindProtocolVersion", o, func() {
		o.fpv = vgirpc.FindProtocolVersion(data)
		fpv = c01X([]byte(o.fpv))
	})
	c01Guard("ReadUnaryResult", o, func() {
		sch, res, ok := vgirpc.ReadUnaryResult(data)
		o.urOK, o.urBytes, o.urSch = ok, res, sch
		if ok {
			ur = "ok:" + c01SchemaText(sch) + ":" + c01X(res)
		} else {
			ur = "no"
		}
	})
	o.text = "rr=" + rr + " tok=" + tok + " fpv=" + fpv + " ur=" + ur
	return o
}

// ---------------------------------------------------------------- mutations

func c01Mutate(data []byte, mut string) ([]byte, bool) {
	if mut == "-" {
		return data, true
	}
	f := strings.Split(mut, ":")
	at := func(s string) (int, bool) {
		p, err := strconv.Atoi(s)
		if err != nil || p < 0 || p > 1000 {
			return 0, false
		}
		return len(data) * p / 1000, true
	}
	out := append([]byte{}, data...)
	switch {
	case f[0] == "trunc" && len(f) == 2:
		p, ok := at(f[1])
		if !ok {
			return nil, false
		}
		return out[:p], true
	case f[0] == "flip" && len(f) == 3:
		p, ok := at(f[1])
		bit, err := strconv.Atoi(f[2])
		if !ok || err != nil || bit < 0 || bit > 7 {
			return nil, false
		}
		if p < len(out) {
			out[p] ^= 1 << uint(bit)
		}
		return out, true
	case f[0] == "junk" && len(f) == 2:
		j, err := hex.DecodeString(f[1])
		if err != nil {
			return nil, false
		}
		return append(out, j...), true
	case f[0] == "drop" && len(f) == 3:
		p, ok := at(f[1])
		n, err := strconv.Atoi(f[2])
		if !ok || err != nil || n < 0 {
			return nil, false
		}
		if p+n > len(out) {
			n = len(out) - p
		}
		return append(out[:p], out[p+n:]...), true
	}
	return nil, false
}

// ---------------------------------------------------------------- Exec

func c01UnX(s string) ([]byte, bool) { return UnX(s) }

func c01Envelope(kind string) *arrow.Schema {
	bin := arrow.BinaryTypes.Binary
	switch {
	case kind == "ok":
		return arrow.NewSchema([]arrow.Field{{Name: "result", Type: bin}}, nil)
	case kind == "nullable":
		return arrow.NewSchema([]arrow.Field{{Name: "result", Type: bin, Nullable: true}}, nil)
	case strings.HasPrefix(kind, "named:"):
		n, _ := hex.DecodeString(kind[6:])
		return arrow.NewSchema([]arrow.Field{{Name: string(n), Type: bin}}, nil)
	case kind == "large":
		return arrow.NewSchema([]arrow.Field{{Name: "result", Type: arrow.BinaryTypes.LargeBinary}}, nil)
	case kind == "utf8":
		return arrow.NewSchema([]arrow.Field{{Name: "result", Type: arrow.BinaryTypes.String}}, nil)
	case kind == "i64":
		return arrow.NewSchema([]arrow.Field{{Name: "result", Type: arrow.PrimitiveTypes.Int64}}, nil)
	case kind == "two":
		return arrow.NewSchema([]arrow.Field{{Name: "result", Type: bin}, {Name: "x", Type: bin}}, nil)
	case kind == "empty":
		return arrow.NewSchema(nil, nil)
	}
	return nil
}

func c01ParseMeta(s string) ([][2]string, bool) {
	if s == "-" {
		return nil, true
	}
	var out [][2]string
	for _, kv := range strings.Split(s, ",") {
		p := strings.Split(kv, "=")
		if len(p) != 2 {
			return nil, false
		}
		k, e1 := hex.DecodeString(p[0])
		v, e2 := hex.DecodeString(p[1])
		if e1 != nil || e2 != nil {
			return nil, false
		}
		out = append(out, [2]string{string(k), string(v)})
	}
	return out, true
}

// c01BuildBody encodes `{S cols {B rows seed meta | K tok call}}` and returns the bytes plus the
// model line of the abstract body.
// c01Marks: what the harness itself stamped, batch by batch in wire order, in the body it built
// last: the value of the batch's first stream_state key (K: the token) and of its first
// call_state key (K: the call token; the stamper omits an empty one). nil = key absent.
var c01Marks [][2][]byte

// c01ExpectedTokens is the documented rule of FindStreamTokens stated on those marks: walk the
// batches of all concatenated streams in order; the first NON-EMPTY cursor wins; the call token
// is the first non-empty one seen no later than the cursor's batch (earlier streams included);
// without a cursor, the first non-empty call token of the whole body.
func c01ExpectedTokens(marks [][2][]byte) (cursor, call []byte) {
	for _, m := range marks {
		if call == nil && len(m[1]) > 0 {
			call = m[1]
		}
		if len(m[0]) > 0 {
			return m[0], call
		}
	}
	return nil, call
}

func c01BuildBody(words []string) (data []byte, model string, tokens [][2][]byte, ok bool) {
	c01Marks = nil
	var buf bytes.Buffer
	mw := []string{"body"}
	i := 0
	for i < len(words) {
		if words[i] != "S" || i+1 >= len(words) {
			return nil, "", nil, false
		}
		cols, okc := c01ParseCols(words[i+1])
		if !okc {
			return nil, "", nil, false
		}
		schema := c01Schema(cols)
		mw = append(mw, "S", c01SchemaText(schema))
		wr := ipc.NewWriter(&buf, ipc.WithSchema(schema))
		i += 2
		for i < len(words) && (words[i] == "B" || words[i] == "K") {
			if words[i] == "B" {
				if i+3 >= len(words) {
					return nil, "", nil, false
				}
				rows, e1 := strconv.Atoi(words[i+1])
				seed, e2 := strconv.ParseUint(words[i+2], 10, 64)
				meta, okm := c01ParseMeta(words[i+3])
				if e1 != nil || e2 != nil || !okm || rows < 0 || rows > 64 {
					return nil, "", nil, false
				}
				var mark [2][]byte
				for _, kv := range meta {
					if kv[0] == vgirpc.MetaStreamState && mark[0] == nil {
						mark[0] = []byte(kv[1])
						if mark[0] == nil {
							mark[0] = []byte{}
						}
					}
					if kv[0] == vgirpc.MetaCallState && mark[1] == nil {
						mark[1] = []byte(kv[1])
						if mark[1] == nil {
							mark[1] = []byte{}
						}
					}
				}
				c01Marks = append(c01Marks, mark)
				rec := c01Batch(schema, rows, seed, meta)
				err := wr.Write(rec)
				mw = append(mw, c01BatchText(rec))
				rec.Release()
				if err != nil {
					return nil, "", nil, false
				}
				i += 4
			} else {
				if i+2 >= len(words) {
					return nil, "", nil, false
				}
				tok, ok1 := c01UnX(words[i+1])
				call, ok2 := c01UnX(words[i+2])
				if !ok1 || !ok2 {
					return nil, "", nil, false
				}
				if err := vgirpc.VerifC01WriteStateTokenBatch(wr, schema, tok, call); err != nil {
					return nil, "", nil, false
				}
				tokens = append(tokens, [2][]byte{tok, call})
				km := [2][]byte{append([]byte{}, tok...), nil}
				if len(call) > 0 {
					km[1] = call
				}
				c01Marks = append(c01Marks, km)
				mw = append(mw, "K", words[i+1], words[i+2])
				i += 3
			}
		}
		if err := wr.Close(); err != nil {
			return nil, "", nil, false
		}
	}
	return buf.Bytes(), strings.Join(mw, " "), tokens, true
}

type c01Err struct{ msg string }

func (e *c01Err) Error() string { return e.msg }

func c01Exec(c *Case) {
	for _, l := range c.Lines {
		f := strings.Fields(l)
		if len(f) < 3 {
			c.Out(l, "err:bad-op")
			continue
		}
		kind, mut := f[0], f[1]
		var data []byte
		model := ""
		var post func(o *c01Obs) // oracle on the unmutated body
		switch {
		case kind == "wr" && len(f) == 7:
			m, ok1 := c01UnX(f[2])
			pv, ok2 := c01UnX(f[3])
			cols, ok3 := c01ParseCols(f[4])
			rows, e4 := strconv.Atoi(f[5])
			seed, e5 := strconv.ParseUint(f[6], 10, 64)
			if !ok1 || !ok2 || !ok3 || e4 != nil || e5 != nil || rows < 0 || rows > 64 {
				c.Out(l, "err:bad-op")
				continue
			}
			schema := c01Schema(cols)
			// metadata already attached to the parameter batch must NOT be carried over
			rec := c01Batch(schema, rows, seed, [][2]string{{vgirpc.MetaMethod, "stale"}, {vgirpc.MetaLocation, "http://stale"}})
			var buf bytes.Buffer
			var werr error
			o0 := &c01Obs{}
			c01Guard("WriteRequest", o0, func() { werr = vgirpc.WriteRequest(&buf, string(m), rec, string(pv)) })
			if len(o0.panics) > 0 {
				c.Oracle("panic-WriteRequest", fmt.Sprintf("%q: %v", l, o0.panics))
			}
			if werr != nil {
				c.Out(l, "err:write")
				c.Oracle("write-request-failed", fmt.Sprintf("%q: %v", l, werr))
				rec.Release()
				continue
			}
			data = buf.Bytes()
			model = fmt.Sprintf("wr %s %s %s %d %s", f[2], f[3], c01SchemaText(schema), rows, c01Cells(rec))
			c.Stat("wr")
			post = func(o *c01Obs) {
				defer rec.Release()
				valid := utf8.Valid(m) && (rows == 1 || len(cols) == 0)
				if valid {
					switch {
					case !o.reqOK:
						c.Oracle("request-roundtrip-rejected", fmt.Sprintf("%q: ReadRequest(WriteRequest(..)) failed: %v", l, o.rrErr))
					case o.req.Method != string(m) || o.req.Version != vgirpc.ProtocolVersion:
						c.Oracle("request-roundtrip-method", fmt.Sprintf("%q: method %q version %q", l, o.req.Method, o.req.Version))
					case !array.RecordEqual(o.req.Batch, rec):
						c.Oracle("request-roundtrip-values", fmt.Sprintf("%q: parameter values changed: %v vs %v", l, o.req.Batch, rec))
					case o.req.Metadata[vgirpc.MetaProtocolVersion] != string(pv):
						c.Oracle("request-roundtrip-pv", fmt.Sprintf("%q: pv in metadata %q", l, o.req.Metadata[vgirpc.MetaProtocolVersion]))
					case o.req.RequestID != "" || len(o.req.Metadata) > 3:
						c.Oracle("request-carried-stale-metadata", fmt.Sprintf("%q: metadata %v", l, o.req.Metadata))
					}
				} else {
					var rpc *vgirpc.RpcError
					if o.reqOK || !errors.As(o.rrErr, &rpc) || rpc.Type != "ProtocolError" {
						c.Oracle("request-not-typed-error", fmt.Sprintf("%q: invalid request gave ok=%v err=%v", l, o.reqOK, o.rrErr))
					}
				}
				if o.fpv != string(pv) {
					c.Oracle("pv-not-recovered", fmt.Sprintf("%q: FindProtocolVersion=%q", l, o.fpv))
				}
				if o.state != nil || o.call != nil {
					c.Oracle("token-from-request", fmt.Sprintf("%q: tokens %q %q", l, o.state, o.call))
				}
			}
		case kind == "wu" && len(f) == 4:
			sch := c01Envelope(f[2])
			res, ok := c01UnX(f[3])
			if sch == nil || !ok {
				c.Out(l, "err:bad-op")
				continue
			}
			var buf bytes.Buffer
			var werr error
			o0 := &c01Obs{}
			c01Guard("WriteUnaryResult", o0, func() { werr = vgirpc.WriteUnaryResult(&buf, sch, res) })
			if len(o0.panics) > 0 {
				c.Oracle("panic-WriteUnaryResult", fmt.Sprintf("%q: %v", l, o0.panics))
			}
			model = fmt.Sprintf("wu %s %s", c01SchemaText(sch), f[3])
			c.Stat("wu:" + strings.Split(f[2], ":")[0])
			if werr != nil {
				c.Out(model, "err:envelope")
				continue
			}
			data = buf.Bytes()
			post = func(o *c01Obs) {
				if sch.NumFields() == 1 && sch.Field(0).Name == "result" {
					if !o.urOK || !bytes.Equal(o.urBytes, res) || !o.urSch.Equal(sch) {
						c.Oracle("unary-roundtrip", fmt.Sprintf("%q: got ok=%v %x", l, o.urOK, o.urBytes))
					}
				}
			}
		case kind == "resp" && len(f) >= 4:
			var buf bytes.Buffer
			var werr error
			switch {
			case f[2] == "err" && len(f) == 4:
				sch := c01Envelope(f[3])
				werr = vgirpc.WriteErrorResponse(&buf, sch, &vgirpc.RpcError{Type: "ValueError", Message: "m"}, "srv", "rid")
				post = func(o *c01Obs) {
					if o.urOK {
						c.Oracle("error-stream-read-as-result", fmt.Sprintf("%q: ReadUnaryResult ok with %x", l, o.urBytes))
					}
				}
			case f[2] == "unary" && len(f) == 5:
				n, e := strconv.Atoi(f[3])
				res, ok := c01UnX(f[4])
				if e != nil || !ok || n < 0 || n > 8 {
					c.Out(l, "err:bad-op")
					continue
				}
				sch := c01Envelope("ok")
				bl := array.NewBinaryBuilder(memory.NewGoAllocator(), arrow.BinaryTypes.Binary)
				bl.Append(res)
				arr := bl.NewArray()
				rec := array.NewRecordBatch(sch, []arrow.Array{arr}, 1)
				logs := make([]vgirpc.LogMessage, n)
				for i := range logs {
					logs[i] = vgirpc.LogMessage{Level: Pick(NewRng(uint64(i)), []vgirpc.LogLevel{vgirpc.LogInfo, vgirpc.LogError, vgirpc.LogTrace}), Message: "m"}
				}
				werr = vgirpc.WriteUnaryResponse(&buf, sch, logs, rec, "srv", "rid")
				rec.Release()
				arr.Release()
				bl.Release()
				post = func(o *c01Obs) {
					if !o.urOK || !bytes.Equal(o.urBytes, res) {
						c.Oracle("unary-response-not-unwrapped", fmt.Sprintf("%q: ok=%v %x", l, o.urOK, o.urBytes))
					}
				}
			case f[2] == "void" && len(f) == 4:
				n, e := strconv.Atoi(f[3])
				if e != nil || n < 0 || n > 8 {
					c.Out(l, "err:bad-op")
					continue
				}
				logs := make([]vgirpc.LogMessage, n)
				for i := range logs {
					logs[i] = vgirpc.LogMessage{Level: vgirpc.LogWarn, Message: "m"}
				}
				werr = vgirpc.WriteVoidResponse(&buf, logs, "srv", "rid")
				post = func(o *c01Obs) {
					if o.urOK {
						c.Oracle("void-response-read-as-result", fmt.Sprintf("%q", l))
					}
				}
			default:
				c.Out(l, "err:bad-op")
				continue
			}
			if werr != nil {
				c.Out(l, "err:write")
				continue
			}
			data = buf.Bytes()
			c.Stat("resp:" + f[2])
		case kind == "body" && len(f) >= 3:
			tag := f[2]
			d, m, toks, ok := c01BuildBody(f[3:])
			if !ok {
				c.Out(l, "err:bad-op")
				continue
			}
			data, model = d, m
			marks := c01Marks
			c.Stat("body:" + tag)
			post = func(o *c01Obs) {
				// the finder clause, stated on what the harness stamped (independent of the model)
				wantCur, wantCall := c01ExpectedTokens(marks)
				if !bytes.Equal(o.state, wantCur) || (wantCur == nil) != (o.state == nil) ||
					!bytes.Equal(o.call, wantCall) || (wantCall == nil) != (o.call == nil) {
					cls := "token-finder-first-wins"
					if !bytes.Equal(o.state, wantCur) || (wantCur == nil) != (o.state == nil) {
						cls = "token-finder-wrong-cursor"
					} else if wantCall != nil && o.call == nil {
						cls = "token-finder-dropped-call-token"
					}
					c.Oracle(cls, fmt.Sprintf("%q: stamped (first-wins) cursor=%q call=%q, FindStreamTokens returned cursor=%q call=%q",
						l, wantCur, wantCall, o.state, o.call))
				}
				if wantCur != nil {
					c.Stat("finder:cursor")
				}
				if wantCall != nil {
					c.Stat("finder:call")
				}
				// the arrow-go bridge: what was encoded is what an independent walk reads back
				if back, pok := c01Parse(d); pok && !strings.Contains(m, " K ") && back != m {
					c.Oracle("codec-bridge-mismatch", fmt.Sprintf("%q: encoded %q, walked %q", l, m, back))
				}
				switch tag {
				case "tok1": // exactly one stamped batch and no other token key anywhere
					if len(toks) == 1 && len(toks[0][0]) > 0 {
						wantCall := toks[0][1]
						if !bytes.Equal(o.state, toks[0][0]) || !bytes.Equal(o.call, wantCall) || (len(wantCall) == 0 && o.call != nil) {
							c.Oracle("token-not-recovered", fmt.Sprintf("%q: got %q %q", l, o.state, o.call))
						}
					}
				case "errstream", "logonly", "nonbinary":
					if o.urOK {
						c.Oracle(tag+"-read-as-result", fmt.Sprintf("%q: ReadUnaryResult ok with %x", l, o.urBytes))
					}
				}
			}
		case kind == "raw" && len(f) == 3:
			d, ok := c01UnX(f[2])
			if !ok {
				c.Out(l, "err:bad-op")
				continue
			}
			data = d
			c.Stat("raw")
		default:
			c.Out(l, "err:bad-op")
			continue
		}
		mutated, ok := c01Mutate(data, mut)
		if !ok {
			c.Out(l, "err:bad-op")
			continue
		}
		if mut != "-" {
			c.Stat("mut:" + strings.Split(mut, ":")[0])
		}
		if mut != "-" || kind == "raw" {
			// bytes no real writer produced: replay them in the screening child first
			if n := ipcLargestDeclaredLength(mutated); n > 32<<20 && n < 3<<30 {
				// a length prefix declares up to 3 GiB that are not there: the reader allocates
				// them and fails with a short read; same path as a small excess, only slow
				c.Stat("skipped:huge-declared-length")
				continue
			}
			ok, note := ProbeSurvives("c01", mutated)
			if !ok {
				c.Stat("process-killed")
				c.Oracle("process-killed-by-malformed-ipc", fmt.Sprintf("%q (%d bytes, hex %s): reading it kills the process: %s",
					l, len(mutated), hex.EncodeToString(mutated[:min(len(mutated), 160)]), note))
				continue
			}
			if note == "s" {
				c.Stat("skipped:gigabyte-allocation")
				continue
			}
		}
		if mut != "-" || model == "" {
			m, pok := c01Parse(mutated)
			if !pok {
				// the independent walk itself panicked: nothing to compare, but the helpers
				// must still not panic
				o := c01Observe(mutated)
				c.Stat("walk-panicked")
				for _, p := range o.panics {
					c.Oracle("panic-"+strings.SplitN(p, ":", 2)[0], fmt.Sprintf("%q: %s", l, p))
				}
				continue
			}
			model = m
		}
		o := c01Observe(mutated)
		if o.unrenderable {
			c.Stat("skipped:unrenderable-batch")
		} else {
			c.Out(model, o.text)
		}
		for _, p := range o.panics {
			c.Oracle("panic-"+strings.SplitN(p, ":", 2)[0], fmt.Sprintf("%q: %s", l, p))
		}
		if mut == "-" && post != nil {
			post(o)
		}
		switch {
		case o.reqOK:
			c.Stat("rr:ok")
			o.req.Batch.Release()
		case o.rrErr == io.EOF:
			c.Stat("rr:eof")
		default:
			var rpc *vgirpc.RpcError
			if errors.As(o.rrErr, &rpc) {
				c.Stat("rr:" + rpc.Type)
			} else {
				c.Stat("rr:transport")
			}
		}
		if o.urOK {
			c.Stat("ur:ok")
		}
		if o.state != nil {
			c.Stat("tok:found")
		}
	}
}
