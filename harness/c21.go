package main

// C21 — the native HTTP client returns the server's stream and never replays a cursor.
//
// Script (one client + one real HttpServer per case; words are key=value after the op):
//
//	cfg enc=<maxEncoded> dec=<maxDecoded> limit=<producerBatchLimit>
//	open kind=<x|p> hdr=<0|1> decl=<schema variant> hdecl=<variant> plan=<server plan> f=<fault>
//	ex in=<schema variant> big=<0|1> rows=<n> md=<0|1> turn=<server turn> f=<fault>
//	next f=<fault>,<fault>,...       (one fault per request the client sends during this call)
//	cancel f=<fault>
//	close | cclose | st
//	unary decl=<ok|nil|variant> plan=<server plan> f=<fault>
//
// A fault is `name[:arg]`, several joined by `&` (see applyFault in c21_env.go). The model line is
// the op with the script-only parts removed and the abstract form of every response the transport
// handed back during the call appended.

import (
	"context"
	"fmt"
	"net/http"
	"sort"
	"strconv"
	"strings"

	"github.com/Query-farm/vgi-rpc-go/vgirpc"
	"github.com/apache/arrow-go/v18/arrow"
)

func init() {
	Register(&Prop{
		ID: "C21",
		Rule: "per case one real HttpServer (exchange/producer/unary methods, with and without stream header) behind a " +
			"fault-injecting RoundTripper; systematic sweep (every fault of the catalogue x every turn position x stream kind) " +
			"plus random op/fault histories; a case is non-trivial when a stream was opened and either a fault other than `ok` " +
			"was scheduled or at least two continuation turns were attempted; distinct = distinct scripts",
		Gen:  c21Gen,
		Exec: c21Exec,
		NonTrivial: func(lines []string) bool {
			open, turns, fault := false, 0, false
			for _, l := range lines {
				f := strings.Fields(l)
				if len(f) == 0 {
					continue
				}
				switch f[0] {
				case "open":
					open = true
				case "ex", "next", "cancel":
					turns++
				}
				for _, w := range f[1:] {
					if strings.HasPrefix(w, "f=") && w != "f=ok" && w != "f=" {
						fault = true
					}
				}
			}
			return open && (fault || turns >= 2)
		},
	})
}

// ---------------------------------------------------------------- generation

var c21FaultCatalogue = []string{
	"ok", "dropreq", "dropresp",
	"st:201", "st:204", "st:299", "st:199", "st:300", "st:304", "st:400", "st:401", "st:404", "st:413", "st:429", "st:500", "st:503",
	"stt:500", "stt:200", "stt:404", "stt:502",
	"rpcerr", "clen:unknown", "clen:over", "clen:eq", "clen:0",
	"readerr:0", "readerr:10", "readerr:-1", "readerr:-9",
	"empty", "text", "garbage:5", "garbage:200",
	"truncb:0", "truncb:3", "truncb:8", "truncb:100", "trunce:1", "trunce:4", "trunce:8", "trunce:9", "trunce:16", "trunce:64", "trunce:200",
	"flip:0", "flip:16:1", "flip:9:1", "flip:40:128", "flip:100:1", "flip:200:255",
	"trail:1", "trail:8", "trail0:8", "trail0:4", "trailstream",
	"noeos", "cut:0", "cut:1", "cut:2", "shortcl:0", "shortcl:1", "shortcl:2", "shortcl:eos",
	"drift:same", "drift:name", "drift:null", "drift:type", "drift:smeta", "drift:fmeta", "drift:extra", "drift:nocols",
	"notok", "nostate", "nocall", "emptytok", "emptycall", "oldtok", "sametok", "newcall:a", "dupstate", "dupstate:empty",
	"usermd", "loc", "emptyloc", "rows0", "dup", "extradata", "extradata:end", "nodata",
	"addlog", "addlog:end", "addexc", "addexc:ValueError", "addexc:badjson", "excend:KeyError",
	"pad:e:-8", "pad:e:0", "pad:e:8", "pad:d:-8", "pad:d:0", "pad:d:8", "bigbody", "bomb", "bomb:zstd",
	"enc:gzip", "enc:zstd", "enc:GZIP", "enc:sp-gzip", "enc:gzip+identity", "enc:gzip+zstd", "enc:identity", "enc:Identity",
	"enc:br", "enc:deflate", "enc:compress", "enc:x-gzip", "enc:gzip;q=1", "enc:gzip+br", "enc:comma", "enc:gzip-comma",
	"enc:gzip-fake", "enc:zstd-fake", "enc:xgzip", "enc:xzstd", "enc:xbr", "enc:id-xbr", "enc:blank-xgzip",
	"enc:gzip&trail:3", "st:201&notok", "enc:zstd&drift:smeta", "rpcerr&addexc:ValueError", "st:500&addexc:ValueError",
}

func c21InCatalogue(f string) bool {
	for _, x := range c21FaultCatalogue {
		if x == f {
			return true
		}
	}
	return false
}

var c21HeaderFaults = []string{"h/drift:name", "h/drift:smeta", "h/dup", "h/nodata", "h/addlog", "h/addexc:ValueError", "h/rows0", "h/loc", "h/noeos", "h/cut:0", "h/notok", "h/usermd"}

var c21Turns = []string{"echo", "echo", "echo", "meta", "zero", "log", "clash", "lvl", "err:ValueError", "err:KeyError", "goerr", "none", "panic"}

var c21Variants = []string{"ok", "ok", "ok", "ok", "name", "null", "type", "smeta", "fmeta", "extra", "nocols"}

func c21CfgLine(r *Rng) string {
	enc := Pick(r, []int{4096, 4096, 2048, 1 << 20, 1 << 20, 1024, 512})
	dec := Pick(r, []int{8192, 8192, 4096, 1 << 20, 1 << 20, 2048, 512})
	return fmt.Sprintf("cfg enc=%d dec=%d limit=%d", enc, dec, r.Range(0, 3))
}

func c21RandFault(r *Rng) string {
	if r.Chance(55) {
		return "ok"
	}
	f := Pick(r, c21FaultCatalogue)
	if r.Chance(8) {
		f += "&" + Pick(r, c21FaultCatalogue)
	}
	return f
}

func c21ExLine(r *Rng, fault string) string {
	in := "ok"
	if r.Chance(6) {
		in = Pick(r, c21Variants)
	}
	big := 0
	if r.Chance(4) {
		big = 1
	}
	md := 0
	if r.Chance(25) {
		md = 1
	}
	return fmt.Sprintf("ex in=%s big=%d rows=%d md=%d turn=%s f=%s", in, big, Pick(r, []int{0, 1, 1, 2, 3, 7}), md, Pick(r, c21Turns), fault)
}

func c21ProdPlan(r *Rng) string {
	parts := []string{fmt.Sprintf("n:%d", r.Range(0, 6)), fmt.Sprintf("rows:%d", r.Range(0, 3))}
	if r.Chance(25) {
		parts = append(parts, fmt.Sprintf("errat:%d", r.Range(0, 5)), "etype:"+Pick(r, []string{"ValueError", "KeyError", "ProtocolError", "go", "Weird Type"}))
	}
	if r.Chance(20) {
		parts = append(parts, fmt.Sprintf("logat:%d", r.Range(0, 4)))
	}
	if r.Chance(10) {
		parts = append(parts, "logs")
	}
	if r.Chance(30) {
		parts = append(parts, "meta")
	}
	if r.Chance(10) {
		parts = append(parts, fmt.Sprintf("clashat:%d", r.Range(0, 3)))
	}
	if r.Chance(10) {
		parts = append(parts, fmt.Sprintf("zeroat:%d", r.Range(0, 3)))
	}
	if r.Chance(4) {
		parts = append(parts, fmt.Sprintf("panicat:%d", r.Range(0, 3)))
	}
	if r.Chance(4) {
		parts = append(parts, "initerr:"+Pick(r, []string{"ValueError", "PermissionError"}))
	}
	if r.Chance(10) {
		parts = append(parts, "initlog")
	}
	return strings.Join(parts, ";")
}

func c21OpenLine(r *Rng, kind string, fault string) string {
	hdr := 0
	if r.Chance(25) {
		hdr = 1
	}
	decl, hdecl := "ok", "ok"
	if r.Chance(6) {
		decl = Pick(r, c21Variants)
	}
	if hdr == 1 && r.Chance(10) {
		hdecl = Pick(r, c21Variants)
	}
	plan := "-"
	if kind == "p" {
		plan = c21ProdPlan(r)
	} else {
		var parts []string
		if r.Chance(5) {
			parts = append(parts, "initerr:ValueError")
		}
		if r.Chance(15) {
			parts = append(parts, "initlog")
		}
		if len(parts) > 0 {
			plan = strings.Join(parts, ";")
		}
	}
	if hdr == 1 && fault != "ok" && r.Chance(30) {
		fault = Pick(r, c21HeaderFaults)
	}
	return fmt.Sprintf("open kind=%s hdr=%d decl=%s hdecl=%s plan=%s f=%s", kind, hdr, decl, hdecl, plan, fault)
}

func c21Gen(g *Gen) {
	r := g.Rng
	// (1) systematic sweep: every catalogue fault at every turn position of both stream kinds.
	faults := append(append([]string{}, c21FaultCatalogue...), c21HeaderFaults...)
	for _, f := range faults {
		isHdr := strings.HasPrefix(f, "h/")
		hdr := 0
		if isHdr {
			hdr = 1
		}
		cfg := "cfg enc=4096 dec=8192 limit=1"
		// exchange stream: fault at open
		g.Case(cfg, fmt.Sprintf("open kind=x hdr=%d decl=ok hdecl=ok plan=- f=%s", hdr, f),
			"ex in=ok big=0 rows=2 md=0 turn=echo f=ok", "st")
		// producer stream: fault at open
		g.Case(cfg, fmt.Sprintf("open kind=p hdr=%d decl=ok hdecl=ok plan=n:3;rows:2;meta f=%s", hdr, f),
			"next f=ok", "next f=ok", "next f=ok", "next f=ok")
		if isHdr {
			continue
		}
		// unary
		g.Case(cfg, "unary decl=ok plan=v:7 f="+f, "unary decl=ok plan=v:8 f=ok", "unary decl=nil plan=v:9 f="+f)
		for pos := 1; pos <= 3; pos++ {
			// exchange stream: fault on the pos-th exchange, then keep going (poison must hold)
			lines := []string{cfg, "open kind=x hdr=0 decl=ok hdecl=ok plan=- f=ok"}
			for k := 1; k <= 3; k++ {
				ff := "ok"
				if k == pos {
					ff = f
				}
				turn := []string{"echo", "meta", "zero"}[(k+pos)%3]
				lines = append(lines, fmt.Sprintf("ex in=ok big=0 rows=%d md=%d turn=%s f=%s", k, k%2, turn, ff))
			}
			lines = append(lines, "ex in=ok big=0 rows=1 md=0 turn=echo f=ok", "cancel f=ok", "ex in=ok big=0 rows=1 md=0 turn=echo f=ok", "st")
			g.Case(lines...)
			// producer: fault on the pos-th continuation request
			pf := make([]string, 3)
			for k := range pf {
				pf[k] = "ok"
			}
			pf[pos-1] = f
			pl := []string{"cfg enc=4096 dec=8192 limit=" + strconv.Itoa(1+pos%2), "open kind=p hdr=0 decl=ok hdecl=ok plan=n:5;rows:1;meta;logat:2 f=ok"}
			for k := 0; k < 3; k++ {
				pl = append(pl, "next f="+pf[k], "next f=ok")
			}
			pl = append(pl, "next f=ok", "next f=ok", "cancel f=ok", "next f=ok", "st")
			g.Case(pl...)
		}
		// fault on cancel, both kinds
		g.Case(cfg, "open kind=x hdr=0 decl=ok hdecl=ok plan=- f=ok", "ex in=ok big=0 rows=1 md=0 turn=echo f=ok",
			"cancel f="+f, "ex in=ok big=0 rows=1 md=0 turn=echo f=ok", "cancel f=ok", "st")
		g.Case("cfg enc=4096 dec=8192 limit=1", "open kind=p hdr=0 decl=ok hdecl=ok plan=n:4;rows:1 f=ok", "next f=ok",
			"cancel f="+f, "next f=ok", "cancel f=ok", "st")
		// a producer whose single response carries only a cursor: Next loops over several requests
		g.Case("cfg enc=4096 dec=8192 limit=1", "open kind=p hdr=0 decl=ok hdecl=ok plan=n:3;rows:1 f=nodata",
			"next f=nodata,"+f+",ok", "next f=ok", "next f=ok", "next f=ok")
	}
	// (2) server-side behaviours without faults
	for _, t := range c21Turns {
		g.Case("cfg enc=1048576 dec=1048576 limit=0", "open kind=x hdr=0 decl=ok hdecl=ok plan=- f=ok",
			"ex in=ok big=0 rows=2 md=1 turn=echo f=ok", "ex in=ok big=0 rows=3 md=0 turn="+t+" f=ok",
			"ex in=ok big=0 rows=1 md=0 turn=echo f=ok", "next f=ok", "close", "ex in=ok big=0 rows=1 md=0 turn=echo f=ok", "cancel f=ok")
	}
	// (3) random histories
	n := g.N(260, 6000)
	for i := 0; i < n; i++ {
		lines := []string{c21CfgLine(r)}
		switch x := r.Intn(100); {
		case x < 50: // exchange
			lines = append(lines, c21OpenLine(r, "x", c21RandFault(r)))
			for k, nops := 0, r.Range(2, 9); k < nops; k++ {
				switch y := r.Intn(100); {
				case y < 70:
					lines = append(lines, c21ExLine(r, c21RandFault(r)))
				case y < 78:
					lines = append(lines, "cancel f="+c21RandFault(r))
				case y < 83:
					lines = append(lines, "next f="+c21RandFault(r))
				case y < 88:
					lines = append(lines, "close")
				case y < 91:
					lines = append(lines, "cclose")
				case y < 96:
					lines = append(lines, "st")
				default:
					lines = append(lines, c21OpenLine(r, Pick(r, []string{"x", "x", "p"}), c21RandFault(r)))
				}
			}
		case x < 85: // producer
			lines = append(lines, c21OpenLine(r, "p", c21RandFault(r)))
			for k, nops := 0, r.Range(2, 10); k < nops; k++ {
				switch y := r.Intn(100); {
				case y < 72:
					fs := []string{c21RandFault(r)}
					for r.Chance(30) {
						fs = append(fs, c21RandFault(r))
					}
					lines = append(lines, "next f="+strings.Join(fs, ","))
				case y < 80:
					lines = append(lines, "cancel f="+c21RandFault(r))
				case y < 84:
					lines = append(lines, c21ExLine(r, "ok"))
				case y < 89:
					lines = append(lines, "close")
				case y < 92:
					lines = append(lines, "cclose")
				case y < 96:
					lines = append(lines, "st")
				default:
					lines = append(lines, c21OpenLine(r, Pick(r, []string{"p", "p", "x"}), c21RandFault(r)))
				}
			}
		default: // unary
			for k, nops := 0, r.Range(1, 5); k < nops; k++ {
				plan := fmt.Sprintf("v:%d", r.Range(-3, 1000))
				if r.Chance(20) {
					plan = "err:" + Pick(r, []string{"ValueError", "KeyError", "go"})
				}
				if r.Chance(15) {
					plan += ";log"
				}
				lines = append(lines, fmt.Sprintf("unary decl=%s plan=%s f=%s", Pick(r, []string{"ok", "ok", "ok", "nil", "name", "type", "smeta"}), plan, c21RandFault(r)))
				if r.Chance(8) {
					lines = append(lines, "cclose")
				}
			}
		}
		g.Case(lines...)
	}
	// (5) the client over a REAL http.Transport and listener: connection-level faults after the
	// server received the whole request, on fresh and on reused keep-alive connections; requests are
	// recorded where the server receives them, so a resend made below the client is visible.
	netFaults := []string{"netdrop", "netreset", "netdropafter", "nethalf", "netcut:0", "netcut:1", "netcut:2", "netcut:eos"}
	ncfg := "cfg enc=1048576 dec=1048576 limit=1 net=1"
	exok := "ex in=ok big=0 rows=1 md=0 turn=echo f=ok"
	for _, f := range netFaults {
		for pos := 1; pos <= 3; pos++ {
			lines := []string{ncfg, "open kind=x hdr=0 decl=ok hdecl=ok plan=- f=ok"}
			for k := 1; k < pos; k++ {
				lines = append(lines, exok)
			}
			lines = append(lines, "ex in=ok big=0 rows=2 md=1 turn=meta f="+f, exok, "cancel f=ok", exok, "st")
			g.Case(lines...)
			pl := []string{"cfg enc=1048576 dec=1048576 limit=1 net=1", "open kind=p hdr=0 decl=ok hdecl=ok plan=n:5;rows:1 f=ok"}
			for k := 1; k < pos; k++ {
				pl = append(pl, "next f=ok")
			}
			pl = append(pl, "next f=ok", "next f="+f, "next f=ok", "next f=ok", "cancel f=ok", "st")
			g.Case(pl...)
		}
		g.Case(ncfg, "open kind=x hdr=0 decl=ok hdecl=ok plan=- f="+f, "open kind=x hdr=1 decl=ok hdecl=ok plan=- f=ok", exok, "cancel f="+f, exok, "st")
		g.Case(ncfg, "open kind=x hdr=0 decl=ok hdecl=ok plan=- f=ok", exok, exok, "cancel f="+f, "cancel f=ok", exok)
		g.Case(ncfg, "unary decl=ok plan=v:1 f=ok", "unary decl=ok plan=v:2 f="+f, "unary decl=ok plan=v:3 f=ok", "unary decl=nil plan=err:ValueError f=ok")
	}
	for i, nn := 0, g.N(24, 400); i < nn; i++ {
		lines := []string{fmt.Sprintf("cfg enc=1048576 dec=1048576 limit=%d net=1", r.Range(0, 2))}
		nf := func() string {
			if r.Chance(70) {
				return "ok"
			}
			return Pick(r, netFaults)
		}
		if r.Bool() {
			lines = append(lines, "open kind=x hdr=0 decl=ok hdecl=ok plan=- f="+nf())
			for k, nops := 0, r.Range(2, 8); k < nops; k++ {
				switch y := r.Intn(100); {
				case y < 75:
					lines = append(lines, fmt.Sprintf("ex in=ok big=0 rows=%d md=%d turn=%s f=%s", r.Range(0, 3), r.Intn(2), Pick(r, c21Turns), nf()))
				case y < 85:
					lines = append(lines, "cancel f="+nf())
				case y < 92:
					lines = append(lines, "st")
				default:
					lines = append(lines, "open kind=x hdr=0 decl=ok hdecl=ok plan=- f="+nf())
				}
			}
		} else {
			lines = append(lines, "open kind=p hdr=0 decl=ok hdecl=ok plan="+c21ProdPlan(r)+" f="+nf())
			for k, nops := 0, r.Range(2, 8); k < nops; k++ {
				if r.Chance(85) {
					lines = append(lines, "next f="+nf()+","+nf())
				} else {
					lines = append(lines, "cancel f="+nf())
				}
			}
		}
		g.Case(lines...)
	}
	if g.Thorough() {
		// (4) pairs of faults on consecutive exchange turns, and on producer turns
		for i, f1 := range c21FaultCatalogue {
			for j, f2 := range c21FaultCatalogue {
				if (i*7+j)%5 != 0 {
					continue
				}
				g.Case("cfg enc=4096 dec=8192 limit=1", "open kind=x hdr=0 decl=ok hdecl=ok plan=- f=ok",
					"ex in=ok big=0 rows=1 md=0 turn=echo f="+f1, "ex in=ok big=0 rows=1 md=0 turn=meta f="+f2, "cancel f="+f2, "st")
				g.Case("cfg enc=4096 dec=8192 limit=1", "open kind=p hdr=0 decl=ok hdecl=ok plan=n:4;rows:1 f=ok",
					"next f=ok", "next f="+f1, "next f="+f2, "next f=ok", "next f=ok", "st")
			}
		}
	}
}

// ---------------------------------------------------------------- execution

func c21KV(fields []string) map[string]string {
	m := map[string]string{}
	for _, w := range fields {
		if i := strings.IndexByte(w, '='); i > 0 {
			m[w[:i]] = w[i+1:]
		}
	}
	return m
}

// c21StreamOracle is the property stated on the real wire trace of one stream.
type c21StreamOracle struct {
	exchange bool
	issued   map[string]bool // cursors some response handed out
	burnt    map[string]bool // cursors sent and not re-issued by a later response
	poisoned bool            // an exchange turn ended ambiguously: no further request may be sent
	clean    bool            // no data-changing fault so far (producer exactness)
	servedAt int             // index into env.emitted where this stream's batches start
	got      int             // batches the client returned so far
}

func c21Exec(c *Case) {
	env := &c21Env{c: c, tokIDs: map[string]string{}}
	c21Cur = env
	env.outSchema = arrow.NewSchema([]arrow.Field{{Name: "v", Type: arrow.PrimitiveTypes.Int64, Nullable: true}}, nil)
	env.inSchema = arrow.NewSchema([]arrow.Field{{Name: "v", Type: arrow.PrimitiveTypes.Int64, Nullable: true}}, nil)
	ctx := context.Background()
	var so *c21StreamOracle

	defer env.netStop()
	setup := func(enc, dec int64, limit int, overNet bool) {
		env.netStop()
		env.maxEnc, env.maxDec, env.net = enc, dec, overNet
		c21NewServer(env, limit)
		env.rt = &c21RT{env: env}
		base := "http://c21.test"
		if overNet {
			base = env.netStart()
		}
		cl, err := vgirpc.NewHttpClient(base,
			vgirpc.WithClientHTTPClient(&http.Client{Transport: env.rt}),
			vgirpc.WithClientResponseLimits(enc, dec),
			vgirpc.WithClientRequestLimit(c21MaxReq))
		if err != nil {
			panic(err)
		}
		env.client, env.stream, so = cl, nil, nil
	}
	stateObs := func() string {
		if env.stream == nil {
			return "tok=- fin=-"
		}
		tok, _, fin, _, _ := env.stream.VerifC21State()
		if fin != env.stream.Finished() {
			c.Oracle("finished-accessor-disagrees", "Finished() differs from the stream's finished flag")
		}
		return fmt.Sprintf("tok=%s fin=%d", env.tokID(tok), map[bool]int{false: 0, true: 1}[fin])
	}
	// reqs: the requests of the current call — in the net family as received by the SERVER
	reqs := func() []c21Wire {
		if env.net {
			return env.netSeen()
		}
		return env.rt.wire
	}
	sentObs := func() string {
		var parts []string
		for _, w := range reqs() {
			switch w.kind {
			case "init", "unary":
				parts = append(parts, w.kind)
			default:
				parts = append(parts, fmt.Sprintf("c=%s;k=%s;x=%d", env.tokID(w.cursor), env.tokID(w.call), map[bool]int{false: 0, true: 1}[w.cancel]))
			}
		}
		return "sent=[" + strings.Join(parts, "|") + "]"
	}
	absAll := func() string {
		var parts []string
		for _, w := range env.rt.wire {
			parts = append(parts, w.abs)
		}
		if len(parts) == 0 {
			return ""
		}
		return " " + strings.Join(parts, " ")
	}
	faultsOf := func(kv map[string]string) []string {
		if kv["f"] == "" {
			return nil
		}
		return strings.Split(kv["f"], ",")
	}
	// wireOracles: never-replay and poison, evaluated on the requests actually seen by the transport.
	wireOracles := func(op string) {
		if so == nil {
			return
		}
		rs := reqs()
		for i, w := range rs {
			if env.net {
				// responses are observed on the client side; credit them to the last request
				w.tokens = nil
				if i == len(rs)-1 {
					for _, cw := range env.rt.wire {
						w.tokens = append(w.tokens, cw.tokens...)
					}
				}
			}
			if w.kind != "cont" {
				continue
			}
			if so.poisoned {
				c.Oracle("request-after-ambiguous-exchange", fmt.Sprintf("%s sent a continuation request (cursor %s) after an exchange turn that ended ambiguously", op, env.tokID(w.cursor)))
			}
			if w.cursor != "" && !so.issued[w.cursor] {
				c.Oracle("cursor-never-issued", fmt.Sprintf("%s sent cursor %s which no response had handed out", op, env.tokID(w.cursor)))
			}
			for _, t := range w.tokens {
				so.issued[t] = true
			}
			if so.exchange {
				if w.cursor == "" {
					c.Oracle("continuation-without-cursor", op+" sent a continuation request without a cursor")
				} else if so.burnt[w.cursor] {
					c.Oracle("cursor-replayed", fmt.Sprintf("%s re-sent cursor %s which the server had not re-issued", op, env.tokID(w.cursor)))
				}
				so.burnt[w.cursor] = true
				for _, t := range w.tokens {
					delete(so.burnt, t)
				}
			}
		}
	}
	// mustFail: faults after which the call that consumed the response has to report an error.
	mustFail := func(op string, w c21Wire, declOK bool) string {
		if !w.applied {
			return ""
		}
		// A later fault of a random combination can undo an earlier one (a second encoding or status
		// replaces the first, a truncation removes appended bytes). The verdict by fault NAME is
		// therefore only used for single faults and for the hand-written combinations of the
		// catalogue; random combinations are still judged by the model and by the oracles that look
		// at the response actually delivered (over-cap, unreadable body).
		if strings.Contains(w.fault, "&") && !c21InCatalogue(w.fault) {
			return ""
		}
		for _, f := range strings.Split(w.fault, "&") {
			name, arg := f, ""
			if i := strings.IndexByte(f, ':'); i > 0 {
				name, arg = f[:i], f[i+1:]
			}
			if strings.HasPrefix(name, "h/") {
				// rewrites of the header stream: cursor keys there are ignored by design
				name = name[2:]
				switch name {
				case "drift", "loc", "addexc", "excend":
				case "dup", "nodata", "extradata":
					return "wrong-batch-count-accepted"
				default:
					continue
				}
			}
			switch name {
			case "dropreq", "dropresp", "readerr", "netdrop", "netreset", "netdropafter", "nethalf":
				return "transport-error-swallowed"
			case "st", "stt":
				if n, _ := strconv.Atoi(arg); n < 200 || n >= 300 {
					return "error-status-accepted"
				}
				if name == "stt" {
					return "malformed-body-accepted"
				}
			case "empty", "text", "garbage":
				return "malformed-body-accepted"
			case "trail", "trailstream":
				return "trailing-bytes-accepted"
			case "trail0":
				if arg != "0" {
					return "trailing-bytes-accepted"
				}
			case "drift":
				if arg != "same" && declOK {
					return "schema-drift-accepted"
				}
			case "clen":
				if arg == "over" {
					return "oversize-accepted"
				}
			case "bigbody", "bomb":
				return "oversize-accepted"
			case "pad":
				if strings.HasSuffix(arg, ":8") {
					return "oversize-accepted"
				}
			case "enc":
				switch arg {
				case "br", "deflate", "compress", "x-gzip", "gzip;q=1", "gzip+br", "comma", "gzip-comma", "xbr":
					return "bad-encoding-accepted"
				case "gzip-fake", "zstd-fake":
					return "undecodable-body-accepted"
				}
			case "rpcerr":
				return "rpc-error-flag-ignored"
			case "loc":
				return "external-location-accepted"
			case "addexc", "excend":
				return "exception-batch-ignored"
			case "notok", "nostate", "emptytok":
				if op == "ex" || op == "open-x" {
					return "missing-cursor-accepted"
				}
			case "dupstate":
				if arg == "empty" && (op == "ex" || op == "open-x") {
					return "missing-cursor-accepted"
				}
			case "nocall", "emptycall":
				if op == "open-x" {
					return "missing-call-token-accepted"
				}
			case "dup", "nodata":
				if op == "ex" || op == "unary" {
					return "wrong-batch-count-accepted"
				}
			case "extradata":
				if op == "ex" || op == "unary" || op == "open-x" || op == "cancel" {
					return "wrong-batch-count-accepted"
				}
			}
		}
		return ""
	}
	failOracles := func(op string, failed bool, declOK bool) {
		if failed {
			return
		}
		for _, w := range env.rt.wire {
			if w.short {
				c.Oracle("truncated-response-accepted", fmt.Sprintf("%s succeeded although the response body broke off before the declared Content-Length was delivered (fault %q)", op, w.fault))
				return
			}
			if w.overCap {
				c.Oracle("oversize-accepted", fmt.Sprintf("%s succeeded although a response exceeded a client size cap or could not be decoded (fault %q)", op, w.fault))
				return
			}
			if w.bad {
				c.Oracle("malformed-body-accepted", fmt.Sprintf("%s succeeded although the Arrow library cannot read the response body to its end (fault %q)", op, w.fault))
				return
			}
			if cls := mustFail(op, w, declOK); cls != "" {
				c.Oracle(cls, fmt.Sprintf("%s succeeded although the response to its request had fault %q", op, w.fault))
				return
			}
		}
	}
	passThrough := func() bool {
		for _, w := range env.rt.wire {
			if w.overCap {
				return false
			}
			for _, f := range strings.Split(w.fault, "&") {
				switch {
				case f == "ok", f == "clen:unknown", f == "clen:eq", f == "noeos", f == "drift:same", f == "addlog", f == "addlog:end":
				case f == "st:201", f == "st:204", f == "st:299":
				case f == "pad:e:0", f == "pad:e:-8", f == "pad:d:0", f == "pad:d:-8":
				case f == "enc:gzip", f == "enc:zstd", f == "enc:GZIP", f == "enc:sp-gzip", f == "enc:gzip+identity", f == "enc:gzip+zstd",
					f == "enc:identity", f == "enc:Identity", f == "enc:xgzip", f == "enc:xzstd", f == "enc:id-xbr", f == "enc:blank-xgzip":
				default:
					return false
				}
			}
		}
		return true
	}
	checkReturnedMD := func(op string, b *vgirpc.ClientBatch) {
		for _, k := range []string{vgirpc.MetaStreamState, vgirpc.MetaCallState} {
			if v := b.Metadata[k]; v != "" {
				c.Oracle("token-in-returned-metadata", fmt.Sprintf("%s returned a batch whose metadata still carries %s", op, c21KeyWord(k)))
			}
		}
	}
	sameEmit := func(e c21Emit, b *vgirpc.ClientBatch) bool {
		if e.rows != b.Batch.NumRows() || e.payload != c21Payload(b.Batch) {
			return false
		}
		want := map[string]string{}
		for k, v := range e.md {
			if k != vgirpc.MetaStreamState && k != vgirpc.MetaCallState {
				want[k] = v
			}
		}
		got := map[string]string{}
		for k, v := range b.Metadata {
			if k != "pad" { // added by the pad:* faults to reach an exact body size
				got[k] = v
			}
		}
		return env.mdWords(want) == env.mdWords(got)
	}
	typedOracle := func(op string, raisedFrom int, err error, declOK bool) {
		if len(env.raised) <= raisedFrom || !passThrough() || !declOK {
			return
		}
		r := env.raised[len(env.raised)-1]
		if r.typ == "go" {
			return
		}
		o := c21ClassifyErr(err)
		if err == nil || o.typ != r.typ || !strings.Contains(o.msg, r.msg) {
			c.Oracle("exception-not-typed", fmt.Sprintf("%s: server raised %s(%q), client reported %v", op, r.typ, r.msg, err))
		}
	}

	for _, l := range c.Lines {
		f := strings.Fields(l)
		if len(f) == 0 {
			continue
		}
		kv := c21KV(f[1:])
		if f[0] == "cfg" {
			enc, _ := strconv.ParseInt(kv["enc"], 10, 64)
			dec, _ := strconv.ParseInt(kv["dec"], 10, 64)
			limit, _ := strconv.Atoi(kv["limit"])
			if enc <= 0 || dec <= 0 {
				c.Out(l, "err:bad-line")
				continue
			}
			setup(enc, dec, limit, kv["net"] == "1")
			c.Out(fmt.Sprintf("cfg %d %d", enc, dec), "ok")
			continue
		}
		if env.client == nil {
			setup(1<<20, 1<<20, 0, false)
			c.Out("cfg 1048576 1048576", "ok")
		}
		env.rt.begin(faultsOf(kv))
		if env.net {
			env.netBegin(faultsOf(kv))
		}
		raisedFrom := len(env.raised)
		emittedFrom := len(env.emitted)
		switch f[0] {
		case "open":
			if env.stream != nil {
				env.stream.Close()
			}
			env.stream, so = nil, nil
			exchange := kv["kind"] == "x"
			hdr := kv["hdr"] == "1"
			method := map[bool]string{true: "ex", false: "px"}[exchange]
			if hdr {
				method += "h"
			}
			decl := c21DriftSchema(env.outSchema, kv["decl"])
			if decl == nil {
				c.Out(l, "err:bad-line")
				continue
			}
			schemas := vgirpc.ClientStreamSchema{Output: decl}
			hdrID := "-"
			if hdr {
				schemas.Header = c21DriftSchema(env.hdrSchema, kv["hdecl"])
				if schemas.Header == nil {
					c.Out(l, "err:bad-line")
					continue
				}
				hdrID = c21SchemaID(schemas.Header)
			}
			inID := "-"
			if exchange {
				schemas.Input = env.inSchema
				inID = c21SchemaID(env.inSchema)
			}
			plan := kv["plan"]
			if plan == "-" {
				plan = ""
			}
			params := env.paramsBatch(plan)
			var st *vgirpc.HttpClientStream
			var err error
			if exchange {
				st, err = env.client.OpenExchange(ctx, method, params, schemas)
			} else {
				st, err = env.client.OpenProducer(ctx, method, params, schemas)
			}
			params.Release()
			res := ""
			if err != nil {
				res = c21ClassifyErr(err).class
				c.Stat("open-" + res[:min(len(res), 12)])
			} else {
				env.stream = st
				so = &c21StreamOracle{exchange: exchange, issued: map[string]bool{}, burnt: map[string]bool{}, clean: passThrough() && !strings.Contains(plan, "clashat"), servedAt: emittedFrom}
				for _, w := range env.rt.wire {
					for _, t := range w.tokens {
						so.issued[t] = true
					}
				}
				res = "ok hdr=none"
				if h := st.Header(); h != nil {
					res = fmt.Sprintf("ok hdr=%d:%s:%s", h.Batch.NumRows(), c21Payload(h.Batch), env.mdWords(h.Metadata))
					checkReturnedMD("open(header)", h)
					h.Release()
				}
				c.Stat("open-ok")
			}
			c.Out(fmt.Sprintf("open %s %s %s %s%s", kv["kind"], hdrID, c21SchemaID(decl), inID, absAll()), res+" "+sentObs()+" "+stateObs())
			declOK := kv["decl"] == "ok" && (!hdr || kv["hdecl"] == "ok")
			failOracles(map[bool]string{true: "open-x", false: "open-p"}[exchange], err != nil, declOK)
			typedOracle("open", raisedFrom, err, declOK)
			if err == nil && !declOK && passThrough() {
				c.Oracle("schema-drift-accepted", fmt.Sprintf("open accepted a stream although the declared schema variant is %s/%s", kv["decl"], kv["hdecl"]))
			}
			for _, w := range env.rt.wire {
				if w.kind != "init" {
					c.Oracle("unexpected-request", "open sent a request that is not an init request")
				}
			}

		case "next":
			if env.stream == nil {
				c.Out("next", "err:other sent=[] tok=- fin=-")
				continue
			}
			b, ok, err := env.stream.Next(ctx)
			res := "eos"
			switch {
			case err != nil:
				res = c21ClassifyErr(err).class
				c.Stat("next-err")
			case ok:
				res = "batch " + env.batchObs(b)
				checkReturnedMD("next", b)
				c.Stat("next-batch")
			default:
				c.Stat("next-eos")
			}
			c.Out("next"+absAll(), res+" "+sentObs()+" "+stateObs())
			wireOracles("next")
			failOracles("next", err != nil, true)
			typedOracle("next", raisedFrom, err, true)
			if so != nil && !so.exchange {
				if !passThrough() {
					so.clean = false
				}
				if so.clean && err == nil {
					served := env.emitted[so.servedAt:]
					if ok {
						if so.got >= len(served) || !sameEmit(served[so.got], b) {
							c.Oracle("producer-batch-differs", fmt.Sprintf("batch #%d returned by Next is not the batch the server produced", so.got))
						}
						so.got++
					} else if so.got != len(served) {
						c.Oracle("producer-stream-ended-early", fmt.Sprintf("Next reported end of stream after %d of %d produced batches", so.got, len(served)))
					}
				}
				if err != nil {
					so.clean = false // batches of a failed response are dropped; exactness is not claimed afterwards
				}
			}
			if ok && b != nil {
				b.Release()
			}

		case "ex":
			if env.stream == nil {
				c.Out(fmt.Sprintf("ex %s %s", "s-none", kv["big"]), "err:other sent=[] tok=- fin=-")
				continue
			}
			in := c21DriftSchema(env.inSchema, kv["in"])
			if in == nil || (kv["big"] != "0" && kv["big"] != "1") {
				c.Out(l, "err:bad-line")
				continue
			}
			rows, _ := strconv.Atoi(kv["rows"])
			if kv["big"] == "1" {
				rows = c21BigRows
			}
			env.turn = kv["turn"]
			input := env.inputBatch(in, rows, kv["md"] == "1")
			b, err := env.stream.Exchange(ctx, input)
			input.Release()
			res := ""
			if err != nil {
				res = c21ClassifyErr(err).class
				c.Stat("ex-" + res[:min(len(res), 30)])
			} else {
				res = "batch " + env.batchObs(b)
				checkReturnedMD("exchange", b)
				c.Stat("ex-batch")
			}
			c.Out(fmt.Sprintf("ex %s %s%s", c21SchemaID(in), kv["big"], absAll()), res+" "+sentObs()+" "+stateObs())
			wireOracles("exchange")
			failOracles("ex", err != nil, true)
			typedOracle("exchange", raisedFrom, err, true)
			if so != nil {
				sent := 0
				for _, w := range env.rt.wire {
					if w.kind == "cont" {
						sent++
						// the client must not forward caller-injected control metadata
						if w.cancel {
							c.Oracle("caller-cancel-forwarded", "exchange forwarded a cancel mark")
						}
					}
				}
				if err != nil && sent > 0 {
					so.poisoned = true
					if tok, _, fin, _, _ := env.stream.VerifC21State(); tok != "" || !fin {
						c.Oracle("cursor-kept-after-ambiguous-exchange", fmt.Sprintf("exchange failed (%s) after sending a request but the stream still holds cursor %s (finished=%v)", res, env.tokID(tok), fin))
					}
				}
				if err == nil && sent == 0 {
					c.Oracle("exchange-without-request", "Exchange returned a batch without sending a request")
				}
				if err != nil && passThrough() && so.exchange && sent > 0 && len(env.emitted) == emittedFrom+1 && len(env.raised) == raisedFrom {
					c.Oracle("valid-response-rejected", fmt.Sprintf("the server answered the exchange turn with one batch and a cursor, within all limits (fault %q), but Exchange failed: %s", kv["f"], res))
				}
				if err == nil && passThrough() && so.exchange {
					served := env.emitted[emittedFrom:]
					if len(served) != 1 || !sameEmit(served[0], b) {
						c.Oracle("exchange-batch-differs", "the batch returned by Exchange is not the one batch the server produced for this turn")
					}
				}
			}
			if b != nil {
				b.Release()
			}

		case "cancel":
			if env.stream == nil {
				c.Out("cancel", "err:other sent=[] tok=- fin=-")
				continue
			}
			err := env.stream.Cancel(ctx)
			res := "ok"
			if err != nil {
				res = c21ClassifyErr(err).class
			}
			c.Stat("cancel-" + res[:min(len(res), 12)])
			c.Out("cancel"+absAll(), res+" "+sentObs()+" "+stateObs())
			wireOracles("cancel")
			failOracles("cancel", err != nil, true)
			if tok, _, fin, closed, _ := env.stream.VerifC21State(); !fin || (tok != "" && !closed) {
				c.Oracle("stream-live-after-cancel", "Cancel returned but the stream still holds a cursor or is not finished")
			}
			if so != nil {
				for _, w := range env.rt.wire {
					if w.kind == "cont" && !w.cancel {
						c.Oracle("cancel-without-mark", "the request sent by Cancel carries no cancel mark")
					}
				}
			}

		case "close":
			if env.stream == nil {
				c.Out("close", "err:other sent=[] tok=- fin=-")
				continue
			}
			env.stream.Close()
			c.Out("close", "ok "+sentObs()+" "+stateObs())
			if len(env.rt.wire) != 0 {
				c.Oracle("close-did-network-io", "Close sent a request")
			}

		case "cclose":
			env.client.Close()
			c.Out("cclose", "ok "+sentObs()+" "+stateObs())

		case "st":
			c.Out("st", "ok "+sentObs()+" "+stateObs())

		case "unary":
			var expected *arrow.Schema
			expID := "nil"
			if kv["decl"] != "nil" {
				expected = c21DriftSchema(env.unarySchema, kv["decl"])
				if expected == nil {
					c.Out(l, "err:bad-line")
					continue
				}
				expID = c21SchemaID(expected)
			}
			params := env.paramsBatch(kv["plan"])
			b, err := env.client.CallUnary(ctx, "un", params, expected)
			params.Release()
			res := ""
			if err != nil {
				res = c21ClassifyErr(err).class
				c.Stat("unary-err")
			} else {
				res = "batch " + env.batchObs(b)
				checkReturnedMD("unary", b)
				c.Stat("unary-batch")
			}
			c.Out(fmt.Sprintf("unary %s%s", expID, absAll()), res+" "+sentObs()+" "+stateObs())
			failOracles("unary", err != nil, kv["decl"] == "ok")
			typedOracle("unary", raisedFrom, err, kv["decl"] == "ok" || kv["decl"] == "nil")
			if err == nil && kv["decl"] != "ok" && kv["decl"] != "nil" && passThrough() {
				c.Oracle("schema-drift-accepted", "unary call accepted a result although the declared schema variant is "+kv["decl"])
			}
			if err == nil && passThrough() {
				if want := int64(c21ParsePlan(kv["plan"]).int("v", 42)); b.Batch.NumRows() != 1 || b.Batch.NumCols() != 1 ||
					b.Batch.Column(0).ValueStr(0) != strconv.FormatInt(want, 10) {
					c.Oracle("unary-result-differs", "CallUnary returned a batch that is not the server's result")
				}
			}
			if b != nil {
				b.Release()
			}

		default:
			c.Out(l, "err:bad-line")
		}
		if env.net {
			if got, want := len(env.netSeen()), len(env.rt.wire); got != want {
				c.Oracle("request-resent-below-client", fmt.Sprintf("%s: the client made %d HTTP call(s) but the server received %d request(s)", f[0], want, got))
			}
			c.Stat("net-op")
		}
		for _, w := range env.rt.wire {
			name := w.fault
			if i := strings.IndexAny(name, ":&"); i > 0 {
				name = name[:i]
			}
			if w.applied {
				c.Stat("fault-" + name)
			} else {
				c.Stat("fault-n/a")
			}
		}
	}
	if env.stream != nil {
		env.stream.Close()
	}
	_ = sort.Strings
}
