package main

// C07 — parameters bind only when the batch schema equals the declared schema; defaults for nulls.
//
// Script ops (a case is one declared struct type with a few batches):
//
//	bind <type> | <batch>     deserializeParams(batch, type) through the verif hook
//	call <type> | <batch>     the batch sent as a request to a method registered for <type>, through
//	                          Server.Serve (ReadRequest -> dispatch -> serveUnary -> handler)
//	    -> err:derive | decl=<declared schema> typeerror | decl=<…> handler (<bound values>)
//
//	<batch> : P <n> (x<name> <0|1> <atype>)*n <cell>*n | W - | W <batch>      (see c07_schema.go)
//
// The model line is the script line plus " | " and what strconv.ParseFloat returns for every
// default= text of the type (library behaviour the model cannot compute).

import (
	"bytes"
	"encoding/json"
	"fmt"
	"math"
	"math/big"
	"reflect"
	"strconv"
	"strings"

	"github.com/Query-farm/vgi-rpc-go/vgirpc"
	"github.com/apache/arrow-go/v18/arrow"
	"github.com/apache/arrow-go/v18/arrow/array"
	"github.com/apache/arrow-go/v18/arrow/ipc"
	"github.com/apache/arrow-go/v18/arrow/memory"
)

func init() {
	Register(&Prop{
		ID: "C07",
		Rule: "parameter struct types built with reflect.StructOf (every supported leaf kind x tag, pointers, lists, maps, struct-tagged " +
			"structs, nullable and default= options with valid and invalid default texts, never a lone binary 'request' field); for each " +
			"type, batches whose schema is equal to, reordered, narrowed, widened, renamed, nullability-flipped or type-perturbed (top level " +
			"and nested, including Arrow types the derivation never produces) relative to the declared one, with nulls in nullable and " +
			"non-nullable columns, plus request-wrapped batches (readable, unreadable, nested, empty); each batch goes through " +
			"deserializeParams directly or through Server.Serve to a registered handler. A case is non-trivial when it has a bind/call line; " +
			"distinct = distinct scripts",
		Gen:  c07Gen,
		Exec: c07Exec,
		NonTrivial: func(lines []string) bool {
			for _, l := range lines {
				if strings.HasPrefix(l, "bind ") || strings.HasPrefix(l, "call ") {
					return true
				}
			}
			return false
		},
	})
}

// ---------------------------------------------------------------- batches

type c07Batch struct {
	ZeroRows   bool // an ordinary batch with the schema and no rows
	Wrapped    bool
	Unreadable bool
	Inner      *c07Batch
	Fields     []c07AF
	Cells      []string
}

func c07ParseBatch(toks []string) (*c07Batch, []string, error) {
	if len(toks) == 0 {
		return nil, nil, fmt.Errorf("batch: out of tokens")
	}
	switch toks[0] {
	case "W":
		if len(toks) >= 2 && toks[1] == "-" {
			return &c07Batch{Wrapped: true, Unreadable: true}, toks[2:], nil
		}
		in, r, err := c07ParseBatch(toks[1:])
		if err != nil {
			return nil, nil, err
		}
		return &c07Batch{Wrapped: true, Inner: in}, r, nil
	case "Z":
		fs, r, err := c07ParseAFs(toks[1:])
		if err != nil {
			return nil, nil, err
		}
		return &c07Batch{ZeroRows: true, Fields: fs}, r, nil
	case "P":
		fs, r, err := c07ParseAFs(toks[1:])
		if err != nil {
			return nil, nil, err
		}
		return &c07Batch{Fields: fs, Cells: r}, nil, nil // the cells are the rest of the line
	}
	return nil, nil, fmt.Errorf("batch: unknown %q", toks[0])
}

func (b *c07Batch) tokens() []string {
	if b.Wrapped {
		if b.Unreadable {
			return []string{"W", "-"}
		}
		return append([]string{"W"}, b.Inner.tokens()...)
	}
	if b.ZeroRows {
		return append([]string{"Z"}, c07FieldsTokens(b.Fields)...)
	}
	return append(append([]string{"P"}, c07FieldsTokens(b.Fields)...), b.Cells...)
}

// core returns the innermost ordinary batch (nil when a wrapper is unreadable).
func (b *c07Batch) core() *c07Batch {
	for b != nil && b.Wrapped {
		if b.Unreadable {
			return nil
		}
		b = b.Inner
	}
	return b
}

// build makes the arrow batch (caller releases).
func (b *c07Batch) build() (arrow.RecordBatch, error) {
	if !b.Wrapped {
		schema := arrow.NewSchema(c07FieldsToArrow(b.Fields), nil)
		if b.ZeroRows {
			rb := array.NewRecordBuilder(memory.DefaultAllocator, schema)
			defer rb.Release()
			return rb.NewRecordBatch(), nil
		}
		if len(b.Fields) == 0 { // the bare, column-less batch of a parameterless call: one row, no column
			if len(b.Cells) != 0 {
				return nil, fmt.Errorf("cells for a column-less batch")
			}
			return array.NewRecordBatch(schema, nil, 1), nil
		}
		return c08BuildBatch(schema, b.Cells)
	}
	var payload []byte
	if b.Unreadable {
		// not an IPC stream, and short: arrow's reader takes the first four bytes of a longer
		// garbage string as a message length and allocates that much before it fails
		payload = []byte{0xff, 0xff, 0xff, 0xff, 0x10, 0x00, 0x00, 0x00, 0x01, 0x02, 0x03}
	} else {
		in, err := b.Inner.build()
		if err != nil {
			return nil, err
		}
		defer in.Release()
		var buf bytes.Buffer
		w := ipc.NewWriter(&buf, ipc.WithSchema(in.Schema()))
		if err := w.Write(in); err != nil {
			return nil, err
		}
		if err := w.Close(); err != nil {
			return nil, err
		}
		payload = buf.Bytes()
	}
	schema := arrow.NewSchema([]arrow.Field{{Name: "request", Type: arrow.BinaryTypes.Binary, Nullable: len(payload)%2 == 0}}, nil)
	bb := array.NewBinaryBuilder(memory.DefaultAllocator, arrow.BinaryTypes.Binary)
	defer bb.Release()
	bb.Append(payload)
	col := bb.NewArray()
	defer col.Release()
	return array.NewRecordBatch(schema, []arrow.Array{col}, 1), nil
}

// ---------------------------------------------------------------- exec

func c07FloatEnv(t *c08Ty, seen map[string]bool, out *[]string) {
	for _, f := range t.Fields {
		for _, p := range strings.Split(f.Tag, ",")[1:] {
			if strings.HasPrefix(p, "default=") {
				d := strings.TrimPrefix(p, "default=")
				if !seen[d] {
					seen[d] = true
					a, b := "-", "-"
					if v, err := strconv.ParseFloat(d, 64); err == nil {
						a = c08ShowF64Raw(math.Float64bits(v))
					}
					if v, err := strconv.ParseFloat(d, 32); err == nil {
						b = fmt.Sprintf("%08x", math.Float32bits(float32(v)))
					}
					*out = append(*out, XS(d), a, b)
				}
			}
		}
	}
}

func c08ShowF64Raw(b uint64) string { return fmt.Sprintf("%016x", b) }

func c07Exec(c *Case) {
	for _, l := range c.Lines {
		f := strings.Fields(l)
		if len(f) == 0 {
			continue
		}
		if f[0] != "bind" && f[0] != "call" {
			c.Out(l, "err:bad-op")
			continue
		}
		c07ExecLine(c, l, f)
	}
}

func c07ExecLine(c *Case, l string, f []string) {
	tt, bt := c08SplitBar(f[1:])
	ty, rest, err := c08ParseTy(tt)
	if err != nil || len(rest) != 0 || ty.K != "st" {
		c.Out(l, "err:script")
		return
	}
	pb, rest, err := c07ParseBatch(bt)
	if err != nil || len(rest) != 0 {
		c.Out(l, "err:script")
		return
	}
	env := []string{}
	c07FloatEnv(ty, map[string]bool{}, &env)
	ml := l + " | " + strings.Join(env, " ")
	rt := ty.rtype()

	decl, derr := vgirpc.VerifC08CachedSchema(rt)
	if derr != nil {
		c.Stat("derive-error")
		if f[0] == "call" {
			if err := vgirpc.VerifC07RegisterUnary(vgirpc.NewServer(), "m", rt, func(reflect.Value) {}); err == nil {
				c.Oracle("registration-accepts-undescribable-type", l)
			}
		}
		c.Out(ml, "err:derive")
		return
	}
	declS := c08SchemaString(decl)
	// the DOCUMENTED schema, stated from the tags alone: a column is named by the part of the tag
	// before the first comma and is nullable exactly when the field is a pointer or carries the
	// `nullable` option (types are taken from the derivation; C08 compares those with the model)
	docS := declS
	if dfs, ok := c07FieldsFromArrow(decl.Fields()); ok {
		if c07ApplyDocumentedRule(ty, dfs) {
			docS = c08FieldsString(c07FieldsToArrow(dfs))
		} else {
			docS = "?"
		}
		if docS != declS {
			c.Oracle("declared-nullability-wrong", fmt.Sprintf("%s: the declared parameter schema is %s; by the tags (pointer or `nullable` option => nullable, nothing else) it is %s", l, declS, docS))
		}
	}
	batch, err := pb.build()
	if err != nil {
		c.Out(l, "err:script")
		return
	}
	defer batch.Release()

	var ran bool
	var got reflect.Value
	errKind := ""
	if f[0] == "bind" {
		v, err, pan := vgirpc.VerifC08Deserialize(batch, rt)
		switch {
		case pan != nil:
			errKind = "panic"
			c.Oracle("bind-panicked", fmt.Sprintf("%s: %v", l, pan))
		case err != nil:
			errKind = "TypeError"
		default:
			ran, got = true, v
		}
	} else {
		ran, got, errKind = c07Call(c, l, rt, batch)
	}

	// ---- property oracles, stated on the real outputs
	core := pb.core()
	// "equal" is equality with the DOCUMENTED schema (independent of what the code declares)
	equal := core != nil && c08FieldsString(c07FieldsToArrow(core.Fields)) == docS
	if ran && !equal {
		c.Oracle("handler-ran-on-mismatched-schema", fmt.Sprintf("%s: documented schema %s", l, docS))
	}
	if !ran && errKind != "TypeError" {
		c.Oracle("refusal-is-not-a-typeerror", fmt.Sprintf("%s: answered %q", l, errKind))
	}
	if equal && core.ZeroRows && docS != "" {
		// no row 0: nothing can be bound, so only a struct without tagged fields may run
		c.Stat("zero-row-equal-schema")
		if ran {
			c.Oracle("ran-without-a-row", fmt.Sprintf("%s: bound %s", l, c08Show(ty, got)))
		}
	} else if equal {
		c.Stat("schema-equal")
		want, reject, ok := c07ExpectRow(ty, core.Cells)
		switch {
		case !ok:
			c.Stat("no-value-oracle")
		case reject:
			c.Stat("default-cannot-apply")
			if ran {
				c.Oracle("ran-with-unusable-default", fmt.Sprintf("%s: bound %s", l, c08Show(ty, got)))
			}
		case !ran:
			c.Oracle("matching-batch-refused", fmt.Sprintf("%s: schema equals the declared one and every cell is representable, answered %s", l, errKind))
		default:
			c.Stat("value-oracle")
			if g := c08Show(ty, got); g != want {
				c.Oracle(c07ValueClass(ty, core.Cells, want, g), fmt.Sprintf("%s: handler received %s, sent %s", l, g, want))
			}
		}
	} else {
		c.Stat("schema-differs")
	}
	if ran {
		c.Stat("ran")
		c.Out(ml, "decl="+declS+" handler "+c08Show(ty, got))
	} else {
		c.Stat("refused")
		c.Out(ml, "decl="+declS+" typeerror")
	}
}

// c07Call sends the batch as a request for method "m" to a fresh server on which "m" is
// registered for rt; it reports whether the handler ran, what it received, and otherwise the
// exception type of the error response.
func c07Call(c *Case, l string, rt reflect.Type, batch arrow.RecordBatch) (ran bool, got reflect.Value, errKind string) {
	srv := vgirpc.NewServer()
	calls := 0
	if err := vgirpc.VerifC07RegisterUnary(srv, "m", rt, func(p reflect.Value) { calls++; got = p }); err != nil {
		c.Oracle("registration-failed", fmt.Sprintf("%s: %v", l, err))
		return false, got, "registration"
	}
	cols := make([]arrow.Array, batch.NumCols())
	for i := range cols {
		cols[i] = batch.Column(i)
	}
	md := arrow.NewMetadata([]string{vgirpc.MetaMethod, vgirpc.MetaRequestVersion, vgirpc.MetaRequestID}, []string{"m", vgirpc.ProtocolVersion, "rid"})
	req := array.NewRecordBatchWithMetadata(batch.Schema(), cols, batch.NumRows(), md)
	defer req.Release()
	var in bytes.Buffer
	w := ipc.NewWriter(&in, ipc.WithSchema(batch.Schema()))
	if err := w.Write(req); err != nil {
		panic(err)
	}
	w.Close()
	var out bytes.Buffer
	panicked := ""
	func() {
		defer func() {
			if r := recover(); r != nil {
				panicked = fmt.Sprint(r)
			}
		}()
		srv.Serve(bytes.NewReader(in.Bytes()), &out)
	}()
	if panicked != "" {
		c.Oracle("serve-panicked", fmt.Sprintf("%s: %s", l, panicked))
		return false, got, "panic"
	}
	excType, hasResult := c07ReadResponse(out.Bytes())
	if calls > 1 {
		c.Oracle("handler-ran-twice", l)
	}
	if calls == 1 {
		if excType != "" || !hasResult {
			c.Oracle("handler-ran-but-no-result", fmt.Sprintf("%s: exception %q result %v", l, excType, hasResult))
		}
		return true, got, ""
	}
	if hasResult {
		c.Oracle("result-without-handler", l)
	}
	return false, got, excType
}

// c07ReadResponse: exception type of the first error batch (if any), and whether a data batch
// with a row came back.
func c07ReadResponse(data []byte) (excType string, hasResult bool) {
	rd, err := ipc.NewReader(bytes.NewReader(data))
	if err != nil {
		return "unreadable-response", false
	}
	defer rd.Release()
	for rd.Next() {
		rec := rd.RecordBatch()
		var md arrow.Metadata
		if rb, ok := rec.(arrow.RecordBatchWithMetadata); ok {
			md = rb.Metadata()
		}
		lvl, _ := md.GetValue(vgirpc.MetaLogLevel)
		if lvl == string(vgirpc.LogException) && rec.NumRows() == 0 {
			extra, _ := md.GetValue(vgirpc.MetaLogExtra)
			var e struct {
				T string `json:"exception_type"`
			}
			_ = json.Unmarshal([]byte(extra), &e)
			if excType == "" {
				excType = e.T
				if excType == "" {
					excType = "untyped-exception"
				}
			}
			continue
		}
		if lvl == "" && rec.NumRows() > 0 {
			hasResult = true
		}
	}
	return excType, hasResult
}

// c07ApplyDocumentedRule rewrites names and nullability of fs (the columns of struct type t, in
// order) by the documented rule, from the tags alone, recursing into struct-tagged children and
// lists of them. false: the columns do not line up with the tagged fields.
func c07ApplyDocumentedRule(t *c08Ty, fs []c07AF) bool {
	i := 0
	for _, f := range t.Fields {
		if f.Tag == "" || f.Tag == "-" {
			continue
		}
		if i >= len(fs) {
			return false
		}
		parts := strings.Split(f.Tag, ",")
		nullable := f.T.K == "ptr"
		arrowType, elemType := "", ""
		for _, p := range parts[1:] {
			switch {
			case p == "nullable":
				nullable = true
			case strings.HasPrefix(p, "default="):
			case strings.HasPrefix(p, "elem="):
				elemType = strings.TrimPrefix(p, "elem=")
			default:
				arrowType = p
			}
		}
		fs[i].Name, fs[i].Nullable = parts[0], nullable
		u := f.T
		if u.K == "ptr" {
			u = u.Elem
		}
		switch {
		case arrowType == "struct" && u.K == "st" && fs[i].T.K == "struct":
			if !c07ApplyDocumentedRule(u, fs[i].T.Fields) {
				return false
			}
		case arrowType == "" && elemType == "struct" && u.K == "sl" && fs[i].T.K == "list" && fs[i].T.Elem.K == "struct":
			e := u.Elem
			if e.K == "ptr" {
				e = e.Elem
			}
			if e.K == "st" && !c07ApplyDocumentedRule(e, fs[i].T.Elem.Fields) {
				return false
			}
		}
		i++
	}
	return i == len(fs)
}

// ---------------------------------------------------------------- oracle: what the handler must receive

// c07ExpectRow: the canonical text of the struct a handler must receive for these row-0 cells
// (schema equal to the declared one). reject: some null meets a default that cannot be applied
// (unsupported kind or unparsable text), where a TypeError is the only possible answer.
// ok=false: some cell is outside what its Go field can hold, or the type is outside the family
// the value clause speaks about.
func c07ExpectRow(t *c08Ty, cells []string) (want string, reject, ok bool) {
	parts := make([]string, len(t.Fields))
	r := cells
	for i, f := range t.Fields {
		if f.Tag == "" || f.Tag == "-" {
			parts[i] = c08Zero(f.T)
			continue
		}
		ti := c08ParseTag(f.Tag)
		if len(r) == 0 {
			return "", false, false
		}
		if r[0] == "N" {
			r = r[1:]
			if d, has := c07Default(f.Tag); has {
				s, good, supported := c07DefaultText(f.T, d)
				if !supported || !good {
					reject = true
					parts[i] = "?"
					continue
				}
				parts[i] = s
			} else {
				parts[i] = c08Zero(f.T)
			}
			continue
		}
		s, rr, good := c07ExpectCell(f.T, ti.arrowType, ti.elemType, r, 0)
		if !good {
			return "", false, false
		}
		parts[i], r = s, rr
	}
	if len(r) != 0 {
		return "", false, false
	}
	return "(" + strings.Join(parts, ",") + ")", reject, true
}

func c07Default(tag string) (string, bool) {
	d, has := "", false
	for _, p := range strings.Split(tag, ",")[1:] {
		if strings.HasPrefix(p, "default=") {
			d, has = strings.TrimPrefix(p, "default="), true
		}
	}
	return d, has
}

// c07DefaultText: the default text read as a value of the field's kind.
func c07DefaultText(t *c08Ty, d string) (text string, good, supported bool) {
	if t.K == "ptr" {
		t = t.Elem
	}
	switch t.K {
	case "str":
		return "s:" + fmt.Sprintf("%x", d), true, true
	case "i8", "i16", "i32", "i64", "int", "u8", "u16", "u32", "u64", "uint":
		n, ok := new(big.Int).SetString(d, 10)
		if !ok || strings.ContainsAny(d, "_ ") || (t.K[0] == 'u' && strings.ContainsAny(d, "+-")) {
			return "", false, true
		}
		lo, hi, _ := c08IntRange(t.K)
		return "i:" + n.String(), n.Cmp(lo) >= 0 && n.Cmp(hi) <= 0, true
	case "dur":
		n, err := strconv.ParseInt(d, 10, 64)
		return "d:" + strconv.FormatInt(n, 10), err == nil, true
	case "f64":
		v, err := strconv.ParseFloat(d, 64)
		return "f:" + c08ShowF64(math.Float64bits(v)), err == nil, true
	case "f32":
		v, err := strconv.ParseFloat(d, 32)
		return "g:" + c08ShowF32(math.Float32bits(float32(v))), err == nil, true
	case "bool":
		v, err := strconv.ParseBool(d)
		if v {
			return "b:1", err == nil, true
		}
		return "b:0", err == nil, true
	}
	return "", false, false
}

// c07ExpectCell reads one non-null-or-null cell for a value of Go type t and renders what the
// handler must see. depth counts struct nesting.
func c07ExpectCell(t *c08Ty, at, et string, toks []string, depth int) (string, []string, bool) {
	if len(toks) == 0 {
		return "", nil, false
	}
	if t.K == "ptr" {
		if toks[0] == "N" {
			return "nil", toks[1:], true
		}
		if t.Elem.K == "ptr" {
			return "", nil, false
		}
		return c07ExpectCell(t.Elem, at, et, toks, depth)
	}
	if toks[0] == "N" {
		return c08Zero(t), toks[1:], true
	}
	tok := toks[0]
	intTok := func() (*big.Int, bool) {
		if !strings.HasPrefix(tok, "i:") {
			return nil, false
		}
		return new(big.Int).SetString(tok[2:], 10)
	}
	if at == "struct" {
		if t.K != "st" || tok != "r" {
			return "", nil, false
		}
		seen := map[string]bool{}
		parts := make([]string, len(t.Fields))
		r := toks[1:]
		for i, f := range t.Fields {
			if f.ATag != "" {
				return "", nil, false
			}
			if f.Tag == "" || f.Tag == "-" {
				parts[i] = c08Zero(f.T)
				continue
			}
			ti := c08ParseTag(f.Tag)
			if ti.name == "" || seen[ti.name] {
				return "", nil, false
			}
			seen[ti.name] = true
			s, rr, ok := c07ExpectCell(f.T, ti.arrowType, ti.elemType, r, depth+1)
			if !ok {
				return "", nil, false
			}
			parts[i], r = s, rr
		}
		return "(" + strings.Join(parts, ",") + ")", r, true
	}
	switch t.K {
	case "sl":
		n, ok := c08Count(tok, "l:")
		if !ok || at != "" {
			return "", nil, false
		}
		parts := make([]string, n)
		r := toks[1:]
		for i := 0; i < n; i++ {
			s, rr, ok := c07ExpectCell(t.Elem, et, "", r, depth)
			if !ok {
				return "", nil, false
			}
			parts[i], r = s, rr
		}
		return "[" + strings.Join(parts, ",") + "]", r, true
	case "map":
		n, ok := c08Count(tok, "m:")
		if !ok || at != "" {
			return "", nil, false
		}
		parts := make([]string, n)
		r := toks[1:]
		for i := 0; i < n; i++ {
			ks, rr, ok1 := c07ExpectCell(t.Key, "", "", r, depth)
			vs, rr2, ok2 := c07ExpectCell(t.Elem, "", "", rr, depth)
			if !ok1 || !ok2 {
				return "", nil, false
			}
			parts[i], r = ks+"="+vs, rr2 // the generator writes distinct keys in key order
		}
		return "{" + strings.Join(parts, ",") + "}", r, true
	case "i8", "i16", "i32", "i64", "int", "u8", "u16", "u32", "u64", "uint":
		n, ok := intTok()
		if !ok {
			return "", nil, false
		}
		lo, hi, _ := c08IntRange(t.K)
		return "i:" + n.String(), toks[1:], n.Cmp(lo) >= 0 && n.Cmp(hi) <= 0
	case "f32":
		if !strings.HasPrefix(tok, "g:") {
			return "", nil, false
		}
		b, err := strconv.ParseUint(tok[2:], 16, 32)
		return "g:" + c08ShowF32(uint32(b)), toks[1:], err == nil
	case "f64":
		if !strings.HasPrefix(tok, "f:") {
			return "", nil, false
		}
		b, err := strconv.ParseUint(tok[2:], 16, 64)
		return "f:" + c08ShowF64(b), toks[1:], err == nil
	case "bool":
		return tok, toks[1:], tok == "b:0" || tok == "b:1"
	case "str":
		if at == "decimal" {
			n, ok := intTok()
			if !ok || new(big.Int).Abs(n).Cmp(c08Big("100000000000000000000")) >= 0 {
				return "", nil, false
			}
			abs := new(big.Int).Abs(n)
			ip, fp := new(big.Int).QuoRem(abs, big.NewInt(10000), new(big.Int))
			sign := ""
			if n.Sign() < 0 {
				sign = "-"
			}
			return "s:" + fmt.Sprintf("%x", fmt.Sprintf("%s%s.%04d", sign, ip, fp.Int64())), toks[1:], true
		}
		if strings.HasPrefix(tok, "e:") { // a dictionary slot: the entry the row's index selects
			parts := strings.SplitN(tok[2:], ":", 2)
			if len(parts) != 2 {
				return "", nil, false
			}
			idx, err := strconv.Atoi(parts[0])
			hs := strings.Split(parts[1], ",")
			if err != nil || idx < 0 || idx >= len(hs) {
				return "", nil, false
			}
			return "s:" + hs[idx], toks[1:], true
		}
		return tok, toks[1:], strings.HasPrefix(tok, "s:")
	case "bytes":
		return tok, toks[1:], strings.HasPrefix(tok, "y:")
	case "time":
		n, ok := intTok()
		if !ok || !n.IsInt64() {
			return "", nil, false
		}
		v := n.Int64()
		switch at {
		case "date":
			return fmt.Sprintf("t:%d:0", v*86400), toks[1:], true
		case "timestamp", "timestamp_utc":
			sec := c08FloorDiv(v, 1000000)
			return fmt.Sprintf("t:%d:%d", sec, (v-sec*1000000)*1000), toks[1:], true
		case "time":
			return fmt.Sprintf("t:%d:%d", v/1000000, v%1000000*1000), toks[1:], v >= 0 && v < 86400000000
		}
		return "", nil, false
	case "dur":
		n, ok := intTok()
		if !ok || !n.IsInt64() || at != "duration" {
			return "", nil, false
		}
		v := n.Int64()
		return fmt.Sprintf("d:%d", v*1000), toks[1:], v >= -9223372036854775 && v <= 9223372036854775
	}
	return "", nil, false
}

// c07ValueClass: which clause of "each field holds the value sent / null + default -> default"
// the first differing top-level field violates.
func c07ValueClass(t *c08Ty, cells []string, want, got string) string {
	ws, gs := c07SplitTop(want), c07SplitTop(got)
	r := cells
	for i, f := range t.Fields {
		if f.Tag == "" || f.Tag == "-" {
			if i < len(ws) && i < len(gs) && ws[i] != gs[i] {
				return "untagged-field-not-zero"
			}
			continue
		}
		isNull := len(r) > 0 && r[0] == "N"
		ti := c08ParseTag(f.Tag)
		if isNull {
			r = r[1:]
		} else if _, rr, ok := c07ExpectCell(f.T, ti.arrowType, ti.elemType, r, 0); ok {
			r = rr
		}
		if i < len(ws) && i < len(gs) && ws[i] != gs[i] {
			if isNull {
				if _, has := c07Default(f.Tag); has {
					return "default-not-applied-for-null"
				}
				return "null-without-default-not-zero"
			}
			return "param-value-differs-" + c08FirstDiffKind(ws[i], gs[i])
		}
	}
	return "param-value-differs-structure"
}

// c07SplitTop splits "(a,b,[c,d],…)" at the top-level commas.
func c07SplitTop(s string) []string {
	if len(s) < 2 {
		return nil
	}
	s = s[1 : len(s)-1]
	out, depth, start := []string{}, 0, 0
	for i := 0; i < len(s); i++ {
		switch s[i] {
		case '(', '[', '{':
			depth++
		case ')', ']', '}':
			depth--
		case ',':
			if depth == 0 {
				out = append(out, s[start:i])
				start = i + 1
			}
		}
	}
	return append(out, s[start:])
}

// ---------------------------------------------------------------- generator

var c07Defaults = map[string][]string{
	"str":  {"bob", "", "x y", "5", "héllo"},
	"int":  {"5", "-7", "0", "+12", "127", "128", "-128", "-129", "255", "256", "65535", "65536", "2147483647", "2147483648", "4294967296", "9223372036854775807", "9223372036854775808", "18446744073709551615", "-1", "abc", "", "1.5", "1_0", " 5", "0x10", "-0", "007"},
	"f":    {"1.5", "-2", "0", "1e3", "3.4028235e38", "1e39", "1e400", "NaN", "inf", "abc", "", "0x1p-2", "1_0.5", ".5", "5."},
	"bool": {"true", "false", "1", "0", "T", "F", "TRUE", "False", "yes", "", "tRuE"},
	"any":  {"5", "x", "", "true"},
}

// c07AddDefaults sprinkles nullable / default= options over the top-level fields of a struct type.
func c07AddDefaults(r *Rng, st *c08Ty) {
	for i := range st.Fields {
		f := &st.Fields[i]
		if f.Tag == "" || f.Tag == "-" || strings.Contains(f.Tag, "default=") {
			continue
		}
		if !r.Chance(45) {
			continue
		}
		k := f.T
		if k.K == "ptr" {
			k = k.Elem
		}
		var pool []string
		switch k.K {
		case "str":
			pool = c07Defaults["str"]
		case "i8", "i16", "i32", "i64", "int", "u8", "u16", "u32", "u64", "uint", "dur":
			pool = c07Defaults["int"]
		case "f32", "f64":
			pool = c07Defaults["f"]
		case "bool":
			pool = c07Defaults["bool"]
		default:
			if !r.Chance(25) {
				continue
			}
			pool = c07Defaults["any"]
		}
		d := Pick(r, pool)
		if strings.Contains(d, ",") {
			continue
		}
		if f.T.K != "ptr" && !strings.Contains(f.Tag, "nullable") && r.Chance(70) {
			f.Tag += ",nullable"
		}
		f.Tag += ",default=" + d
	}
}

func c07LoneRequest(decl []c07AF) bool {
	return len(decl) == 1 && decl[0].Name == "request" && decl[0].T.K == "bin"
}

// c07EmptyStream: an IPC stream that carries a schema and no batch.
func c07EmptyStream() []byte {
	var buf bytes.Buffer
	w := ipc.NewWriter(&buf, ipc.WithSchema(arrow.NewSchema([]arrow.Field{{Name: "a", Type: arrow.PrimitiveTypes.Int64}}, nil)))
	w.Close()
	return buf.Bytes()
}

func c07Gen(g *Gen) {
	r := g.Rng
	specs := c08SupportedSpecs()
	tg := &c08TreeGen{r: r, specs: specs, noRejected: true}
	empty := c07EmptyStream()
	for i, n := 0, g.N(1800, 60000); i < n; i++ {
		st, _ := tg.structTy(r.Range(0, 2), r.Range(1, 5))
		noParams := r.Chance(7)
		if noParams { // a parameterless method: no field at all, or only fields without a vgirpc tag
			st = c08St()
			for k, m := 0, r.Intn(3); k < m; k++ {
				pt, _ := tg.plain(0)
				st.Fields = append(st.Fields, c08Field{Tag: Pick(r, []string{"", "-"}), T: pt})
			}
		}
		if !noParams && r.Chance(8) { // the odd type the derivation refuses
			st.Fields = append(st.Fields, c08Field{Tag: "bad", T: c08Ptr(c08Ptr(c08Leaf("i32")))})
		}
		if !noParams && r.Chance(12) { // a binary column named "request" that is NOT alone: must not be unwrapped
			f := c08Field{Tag: "request", T: c08Leaf("bytes")}
			if r.Bool() {
				st.Fields = append([]c08Field{f}, st.Fields...)
			} else {
				st.Fields = append(st.Fields, f)
			}
		}
		if !noParams && r.Chance(18) { // a dictionary-encoded (enum) parameter, by value or by pointer
			ft := c08Leaf("str")
			if r.Bool() {
				ft = c08Ptr(ft)
			}
			st.Fields = append(st.Fields, c08Field{Tag: Pick(r, []string{"color,enum", "kind,enum,nullable", "d,dict_string", "e,enum,default=red"}), T: ft})
		}
		c07AddDefaults(r, st)
		tyToks := strings.Join(st.tokens(), " ")
		declSchema, err := vgirpc.VerifC08DeriveSchema(st.rtype())
		var decl []c07AF
		if err == nil {
			d, ok := c07FieldsFromArrow(declSchema.Fields())
			if !ok || c07LoneRequest(d) {
				continue
			}
			c07ApplyDocumentedRule(st, d) // "equal" batches are built per the documented schema
			decl = d
		} else {
			decl = []c07AF{{Name: "a", T: &c07AT{K: "i64"}}}
		}
		lines := []string{}
		for k, m := 0, r.Range(2, 6); k < m; k++ {
			fs := c07CloneFields(decl)
			switch x := r.Intn(100); {
			case x < 42: // equal
			case x < 50: // two perturbations
				fs = c07PerturbFields(r, c07PerturbFields(r, fs, false), false)
			default:
				fs = c07PerturbFields(r, fs, false)
			}
			if noParams { // empty schema, or widened by 1..3 columns
				fs = nil
				for w, nw := 0, Pick(r, []int{0, 0, 1, 1, 2, 3}); w < nw; w++ {
					fs = append(fs, c07AF{Name: Pick(r, []string{"extra", "x", "a", "request", "v"}) + strings.Repeat("_", w), Nullable: r.Bool(), T: &c07AT{K: Pick(r, c07LeafPool)}})
				}
			}
			b := &c07Batch{Fields: fs, Cells: c07GenRow(r, fs)}
			zero := false
			if r.Chance(noParamsPct(noParams)) { // no rows: bind lines only (ReadRequest has its own row-count rule)
				b, zero = &c07Batch{ZeroRows: true, Fields: fs}, true
			}
			switch x := r.Intn(100); {
			case zero:
			case x < 8:
				b = &c07Batch{Wrapped: true, Inner: b}
				if r.Chance(20) {
					b = &c07Batch{Wrapped: true, Inner: b}
				}
			case x < 10:
				b = &c07Batch{Wrapped: true, Unreadable: true}
			case x < 12: // request-shaped, but nothing to unwrap: null, empty, or a stream without batches
				cell := Pick(r, []string{"N", "y:", fmt.Sprintf("y:%x", empty)})
				b = &c07Batch{Fields: []c07AF{{Name: "request", Nullable: r.Bool(), T: &c07AT{K: "bin"}}}, Cells: []string{cell}}
			case x < 13 && len(fs) > 0: // a wrapper whose inner stream holds a wrapper of garbage
				b = &c07Batch{Wrapped: true, Inner: &c07Batch{Wrapped: true, Unreadable: true}}
			}
			op := "bind"
			if r.Chance(30) && !zero {
				op = "call"
			}
			lines = append(lines, op+" "+tyToks+" | "+strings.Join(b.tokens(), " "))
		}
		g.Case(lines...)
	}
}

func noParamsPct(noParams bool) int {
	if noParams {
		return 35
	}
	return 5
}
