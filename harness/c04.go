package main

import (
	"encoding/hex"
	"fmt"
	"math"
	"strconv"
	"strings"
	"sync"

	"github.com/Query-farm/vgi-rpc-go/vgirpc"
)

// C04 — unary calls return the handler's value or its error, after its logs.
//
// Script line (one call):
//   call <pipe|http> <method> <lvl> <rid> <nlogs> {<lvl> <msg> <k> {<key> <val>}*k}*nlogs <outcome>
//   outcome ::= ret <valueToken> | err rpc <typ> <msg> | err plain <msg> | err wrap <msg>
//             | panic str <s> | panic err <m> | panic int <n>
// Byte strings are x<hex>. The model line replaces <method> by the method's REGISTERED result
// schema and void flag (read back from the server through the verif hook).
// Observation: `<stream schema> ; <batch> ; …` (see famBatch.canon) — kind, level, message,
// extras, request id, value. Server id, error extras (type/traceback) and HTTP status are not compared.

func init() {
	Register(&Prop{
		ID: "C04",
		Rule: "scripted unary handlers (log list with levels/extras, then value | error kind | panic) on 7 registered methods " +
			"(string/int64/float64/bool/list/struct/void results), all six levels + unknown/empty strings as requested and emitted level, " +
			"every script run on pipe AND http; a case is non-trivial when at least one call emits a log; distinct = distinct scripts",
		Gen:  c04Gen,
		Exec: c04Exec,
		NonTrivial: func(lines []string) bool {
			for _, l := range lines {
				f := strings.Fields(l)
				if len(f) > 5 && f[0] == "call" && f[5] != "0" {
					return true
				}
			}
			return false
		},
	})
}

var (
	c04Once   sync.Once
	c04Server *vgirpc.Server
	c04HTTP   *vgirpc.HttpServer
)

func c04Setup() {
	c04Once.Do(func() {
		s := vgirpc.NewServer()
		s.SetServerID("verif-srv")
		famRegisterUnary(s)
		c04Server = s
		c04HTTP = vgirpc.NewHttpServer(s)
	})
}

func c04RandLogs(r *Rng, max int) []famLog {
	n := r.Intn(max + 1)
	if r.Chance(3) {
		n = r.Range(15, 40)
	}
	logs := make([]famLog, n)
	for i := range logs {
		l := famLog{Level: famRandLevel(r), Msg: famRandText(r)}
		if r.Chance(45) {
			for j := r.Range(1, 4); j > 0; j-- {
				l.Extras = append(l.Extras, vgirpc.KV{Key: famRandKey(r), Value: famRandText(r)})
			}
		}
		logs[i] = l
	}
	return logs
}

func c04RandValue(r *Rng, method string) string {
	ints := []int64{0, 1, -1, 42, math.MaxInt64, math.MinInt64, 1 << 32, -(1 << 31)}
	switch method {
	case "u_str":
		return famTokStr(famRandText(r))
	case "u_i64":
		if r.Bool() {
			return famTokI64(Pick(r, ints))
		}
		return famTokI64(int64(r.U64()))
	case "u_f64":
		return famTokF64(Pick(r, []float64{0, math.Copysign(0, -1), 1.5, -2.25, math.Inf(1), math.NaN(), math.MaxFloat64, math.SmallestNonzeroFloat64, float64(r.Intn(1000)) / 7}))
	case "u_bool":
		return famTokBool(r.Bool())
	case "u_list":
		l := make([]int64, r.Intn(5))
		for i := range l {
			l[i] = Pick(r, ints)
		}
		return famTokList(l)
	case "u_rec":
		return famTokRec(famRec{A: Pick(r, ints), B: famRandText(r)})
	case "u_slist":
		l := make([]string, r.Intn(4))
		for i := range l {
			l[i] = famRandText(r)
		}
		return famTokSList(l)
	case "u_imap", "u_smap":
		m := map[string]string{}
		for n := r.Intn(4); n > 0; n-- {
			if method == "u_imap" {
				m[famRandKey(r)] = strconv.FormatInt(Pick(r, ints), 10)
			} else {
				m[famRandKey(r)] = XS(famRandText(r))
			}
		}
		return famTokMap(map[string]string{"u_imap": "mi:{", "u_smap": "ms:{"}[method], m)
	case "u_dec2":
		return "d2:" + Pick(r, []string{"0.00", "1.50", "-12345678.99", "99999999.99", "0.01"})
	case "u_dec4":
		return "d4:" + Pick(r, []string{"0.0000", "1.5000", "-1234567890123456.7891", "0.0001"})
	case "u_fsb4":
		return "fb:" + X(r.Bytes(4))
	case "u_fsb8":
		return "fb:" + X(r.Bytes(8))
	case "u_tsn":
		return "tn:" + strconv.FormatInt(Pick(r, []int64{0, 1, -1, 1700000000123456, -62135596800000000}), 10)
	case "u_tsz":
		return "tz:" + strconv.FormatInt(Pick(r, []int64{0, 1, -1, 1700000000123456, 253402300799999999}), 10)
	default:
		return "void"
	}
}

func c04RandOutcome(r *Rng, method string) famOutcome {
	switch x := r.Intn(100); {
	case x < 55:
		return famOutcome{Kind: "ret", Val: c04RandValue(r, method)}
	case x < 82:
		sub := Pick(r, []string{"rpc", "rpc", "plain", "wrap", "rpcfull", "shared"})
		o := famOutcome{Kind: "err", Sub: sub, Msg: famRandText(r)}
		switch sub {
		case "rpc":
			o.Typ = Pick(r, []string{"ValueError", "TypeError", "RuntimeError", "KeyError", "CustomAppError", ""})
		case "rpcfull": // an error relayed from elsewhere: request id, kind, traceback of its own
			o.Typ = Pick(r, []string{"ValueError", "RpcError", ""})
			o.RID = Pick(r, []string{"downstream-7f3a", "", "r1", famRandText(r)})
			o.EKind = Pick(r, []string{"", "session_lost", "MethodNotImplementedError", famRandText(r)})
			o.TB = Pick(r, []string{"", "Traceback (most recent call last):\n  File x", famRandText(r)})
		case "shared":
			o.Msg = ""
			o.Int = r.Intn(3)
		}
		return o
	default:
		sub := Pick(r, []string{"str", "err", "int"})
		o := famOutcome{Kind: "panic", Sub: sub, Msg: famRandText(r)}
		if sub == "int" {
			o.Int = Pick(r, []int{0, 7, -12, 1 << 40, math.MinInt64, math.MaxInt64})
		}
		return o
	}
}

// c04HeaderTransport: `httpx:<hex of the X-Request-ID header value>`.
func c04HeaderTransport(r *Rng, rid string) string {
	v := Pick(r, []string{rid, "hdr-req-9", "hdr-req-9", " ", "", strings.Repeat("H", 300), "3f2b8c1e-7a55-4a39-9d0c-000000000000", rid + "-x"})
	return "httpx:" + fmt.Sprintf("%x", v)
}

func c04RandTransport(r *Rng, rid string) string {
	switch r.Intn(3) {
	case 0:
		return "pipe"
	case 1:
		return "http"
	}
	return c04HeaderTransport(r, rid)
}

func c04Line(transport, method, lvl, rid string, sc *famUnaryScript) string {
	return strings.Join(append([]string{"call", transport, method, XS(lvl), XS(rid)}, sc.tokens()...), " ")
}

func c04Gen(g *Gen) {
	r := g.Rng
	rids := []string{"", "r1", "3f2b8c1e-7a55-4a39-9d0c-1b2a3c4d5e6f", "идентификатор-✓", strings.Repeat("R", 200), " ", "0"}
	n := g.N(3000, 60000)
	for i := 0; i < n; i++ {
		var lines []string
		for k := r.Range(1, 3); k > 0; k-- {
			method := Pick(r, famUnaryMethods)
			sc := &famUnaryScript{Logs: c04RandLogs(r, 6), Out: c04RandOutcome(r, method)}
			lvl := famRandLevel(r)
			rid := Pick(r, rids)
			// the same program on both transports; over HTTP also with an X-Request-ID header that is
			// absent / equal / different / blank / oversized, independently of the batch's request id
			lines = append(lines, c04Line("pipe", method, lvl, rid, sc), c04Line("http", method, lvl, rid, sc))
			if r.Chance(50) {
				lines = append(lines, c04Line(c04HeaderTransport(r, rid), method, lvl, rid, sc))
			}
		}
		g.Case(lines...)
	}
	// type-family histories: methods whose result columns share an Arrow type id but differ in the
	// type's parameters, interleaved in ONE history, each logging and failing (log / error batches
	// are zero-row batches of the method's result schema)
	for i := g.N(250, 4000); i > 0; i-- {
		fam := Pick(r, famTypeFamilies)
		var lines []string
		for k := r.Range(3, 6); k > 0; k-- {
			method := fam[(k+i)%len(fam)]
			if r.Chance(15) {
				method = Pick(r, famUnaryMethods)
			}
			sc := &famUnaryScript{Logs: c04RandLogs(r, 2), Out: c04RandOutcome(r, method)}
			if len(sc.Logs) == 0 && sc.Out.Kind == "ret" {
				sc.Logs = []famLog{{Level: "INFO", Msg: "typed"}}
			}
			lines = append(lines, c04Line(c04RandTransport(r, "rid-"+strconv.Itoa(k)), method, "", "rid-"+strconv.Itoa(k), sc))
		}
		g.Case(lines...)
	}
	// sentinel histories: the SAME package-level *RpcError value returned by several calls of one
	// history, every call with its own request id (also an empty one first), both transports
	for i := g.N(250, 4000); i > 0; i-- {
		var lines []string
		slot := r.Intn(3)
		ids := []string{"req-A", "req-B", "", "req-C", "идентификатор-✓", "r1"}
		for k := r.Range(2, 5); k > 0; k-- {
			method := Pick(r, famUnaryMethods)
			var sc *famUnaryScript
			switch r.Intn(5) {
			case 0: // an unrelated call in between
				sc = &famUnaryScript{Logs: c04RandLogs(r, 2), Out: c04RandOutcome(r, method)}
			case 1:
				sc = &famUnaryScript{Logs: c04RandLogs(r, 2), Out: famOutcome{Kind: "err", Sub: "rpcfull", Typ: "RpcError", Msg: "relayed",
					RID: Pick(r, ids), EKind: Pick(r, []string{"", "session_lost"})}}
			default:
				sc = &famUnaryScript{Logs: c04RandLogs(r, 2), Out: famOutcome{Kind: "err", Sub: "shared", Int: slot}}
			}
			rid := Pick(r, ids)
			lines = append(lines, c04Line(c04RandTransport(r, rid), method, famRandLevel(r), rid, sc))
		}
		g.Case(lines...)
	}
	// exhaustive requested-level x emitted-level table (x outcome x transport): always, it is small
	all := append(append([]string{}, famLevels...), "", "info", "VERBOSE")
	for _, req := range all {
		var lines []string
		for _, lv := range all {
			for _, o := range []famOutcome{
				{Kind: "ret", Val: "i:1"},
				{Kind: "err", Sub: "rpc", Typ: "ValueError", Msg: "bad"},
				{Kind: "panic", Sub: "str", Msg: "boom"},
			} {
				sc := &famUnaryScript{Logs: []famLog{{Level: lv, Msg: "m"}, {Level: "ERROR", Msg: "e"}, {Level: lv, Msg: "n"}}, Out: o}
				lines = append(lines, c04Line("pipe", "u_i64", req, "rid", sc), c04Line("http", "u_i64", req, "rid", sc))
			}
		}
		g.Case(lines...)
	}
}

type c04Call struct {
	header                      string // X-Request-ID header of an HTTP call
	hasHeader                   bool
	transport, method, lvl, rid string
	script                      *famUnaryScript
}

func c04ParseLine(l string) (*c04Call, error) {
	f := strings.Fields(l)
	if len(f) < 6 || f[0] != "call" {
		return nil, fmt.Errorf("not a call line")
	}
	c := &c04Call{transport: f[1], method: f[2]}
	lvl, ok1 := UnX(f[3])
	rid, ok2 := UnX(f[4])
	if strings.HasPrefix(c.transport, "httpx:") {
		h, err := hex.DecodeString(c.transport[6:])
		if err != nil {
			return nil, fmt.Errorf("bad X-Request-ID token")
		}
		c.header, c.hasHeader, c.transport = string(h), true, "http"
	}
	if !ok1 || !ok2 || (c.transport != "pipe" && c.transport != "http") {
		return nil, fmt.Errorf("bad call header")
	}
	c.lvl, c.rid = string(lvl), string(rid)
	sc, err := famParseUnaryScript(f[5:])
	if err != nil {
		return nil, err
	}
	c.script = sc
	return c, nil
}

func c04Exec(c *Case) {
	c04Setup()
	famResetShared()
	lastPipe := map[string]string{} // script text (without transport) -> pipe observation
	for _, l := range c.Lines {
		call, err := c04ParseLine(l)
		if err != nil {
			c.Out(l, "err:bad-script")
			continue
		}
		info, ok := c04Server.VerifC04Method(call.method)
		if !ok || info.Kind != "unary" {
			c.Out(l, "err:unknown-method")
			continue
		}
		f := strings.Fields(l)
		voidFlag := "0"
		if info.Void {
			voidFlag = "1"
		}
		modelLine := strings.Join(append([]string{"call", f[1], famSchemaCanon(info.ResultSchema), voidFlag}, f[3:]...), " ")
		req := famRequest(call.method, strings.Join(f[5:], " "), call.lvl, call.rid)

		var body []byte
		switch call.transport {
		case "pipe":
			out, p := famServePipe(c04Server, req)
			if p != nil {
				c.Out(modelLine, fmt.Sprintf("err:server-panic"))
				c.Oracle("pipe-server-panic", fmt.Sprintf("Serve panicked: %v", p))
				continue
			}
			body = out
		case "http":
			var hdr [][2]string
			if call.hasHeader {
				hdr = append(hdr, [2]string{"X-Request-ID", call.header})
				c.Stat("http-x-request-id")
			}
			rec, p := famHTTPPost(c04HTTP, "/"+call.method, req, hdr...)
			if p != nil {
				c.Out(modelLine, "err:server-panic")
				c.Oracle("http-server-panic", fmt.Sprintf("ServeHTTP panicked: %v", p))
				continue
			}
			body = rec.Body.Bytes()
		}
		streams, rerr := famReadStreams(body)
		if rerr != nil || len(streams) != 1 {
			c.Out(modelLine, fmt.Sprintf("err:response-not-one-stream n=%d", len(streams)))
			c.Oracle(call.transport+"-response-not-one-stream", fmt.Sprintf("%q: decoded %d streams, err=%v", l, len(streams), rerr))
			continue
		}
		st := streams[0]
		obs := c04Canon(st, call.script.Out)
		c.Out(modelLine, obs)
		c04Oracle(c, call, info, st, l)

		key := strings.Join(f[2:], " ")
		if call.transport == "pipe" {
			lastPipe[key] = obs
		} else if p, ok := lastPipe[key]; ok && p != obs {
			c.Oracle("pipe-http-differ", fmt.Sprintf("%q: pipe %q, http %q", l, p, obs))
		}
		c.Stat("transport-" + call.transport)
		c.Stat("outcome-" + call.script.Out.Kind)
	}
}

// c04Oracle states C04 directly on the decoded response of the real server.
func c04Oracle(c *Case, call *c04Call, info vgirpc.VerifC04Method, st famStream, line string) {
	t := call.transport
	fail := func(class, format string, a ...any) {
		c.Oracle(t+"-"+class, fmt.Sprintf("%q: ", line)+fmt.Sprintf(format, a...))
	}
	// declared schema
	if !st.Schema.Equal(info.ResultSchema) {
		fail("result-schema-mismatch", "response stream schema %s, declared %s", famSchemaCanon(st.Schema), famSchemaCanon(info.ResultSchema))
	}
	// expected log sequence
	type lg struct{ lvl, msg, ex string }
	var want []lg
	for _, sl := range call.script.Logs {
		if famKept(call.lvl, sl.Level) {
			want = append(want, lg{sl.Level, sl.Msg, famKVCanon(famJSONRoundTrip(famExtrasMap(sl.Extras)))})
			c.Stat("log-kept")
		} else {
			c.Stat("log-filtered")
		}
	}
	wantRid := "-"
	if call.rid != "" {
		wantRid = XS(call.rid)
	}
	n := len(st.Batches)
	if n == 0 {
		fail("empty-response", "no batch at all")
		return
	}
	// everything before the last batch must be exactly the kept logs, in emission order
	var got []lg
	for i, b := range st.Batches[:n-1] {
		if b.kind() != "log" {
			fail("terminal-not-last", "batch %d of %d is a %s batch, only the last may be", i, n, b.kind())
			return
		}
		lvl, _ := b.get(vgirpc.MetaLogLevel)
		msg, _ := b.get(vgirpc.MetaLogMessage)
		_, ex := b.extras()
		if ex == "?json" {
			raw, _ := b.get(vgirpc.MetaLogExtra)
			fail("log-extra-not-json", "log batch %d: vgi_rpc.log_extra is not a JSON object of strings: %q", i, raw)
			return
		}
		got = append(got, lg{lvl, msg, ex})
		if b.rid() != wantRid {
			fail("request-id-not-echoed-log", "log batch %d carries request id %s, want %s", i, b.rid(), wantRid)
		}
	}
	last := st.Batches[n-1]
	if last.kind() == "log" {
		fail("no-terminal-batch", "response ends with a log batch")
		return
	}
	if len(got) != len(want) {
		// say which way the filter failed
		for _, g := range got {
			if !famKept(call.lvl, g.lvl) {
				fail("log-below-level-delivered", "log at level %q delivered though %q was requested", g.lvl, call.lvl)
				return
			}
		}
		fail("log-dropped-or-duplicated", "got %d log batches, want %d (%v vs %v)", len(got), len(want), got, want)
		return
	}
	for i := range got {
		if got[i] != want[i] {
			switch {
			case !famKept(call.lvl, got[i].lvl):
				fail("log-below-level-delivered", "log at level %q delivered though %q was requested", got[i].lvl, call.lvl)
			case got[i].lvl == want[i].lvl && got[i].msg == want[i].msg:
				fail("log-extra-lost", "log %d (%q) arrived with extras %s, the handler passed %s", i, got[i].msg, got[i].ex, want[i].ex)
			default:
				fail("log-order-or-content", "log %d is %v, want %v", i, got[i], want[i])
			}
			return
		}
	}
	// terminal batch
	failed, wantMsg := call.script.Out.failure()
	if failed {
		if last.kind() != "exc" {
			fail("failure-without-exception", "handler failed but the response ends with a %s batch (%s)", last.kind(), last.canon())
			return
		}
		if msg, _ := last.get(vgirpc.MetaLogMessage); call.script.Out.Kind == "panic" {
			// the wording around a panic value is the framework's; the value itself must be reported
			if !strings.Contains(msg, call.script.Out.panicText()) {
				fail("exception-message-mismatch", "exception message %q does not report the panic value %q", msg, call.script.Out.panicText())
			}
		} else if msg != wantMsg {
			fail("exception-message-mismatch", "exception message %q, want the handler's error %q", msg, wantMsg)
		}
		if last.rid() != wantRid {
			fail("request-id-not-echoed-exception", "exception batch carries request id %s, want %s", last.rid(), wantRid)
		}
		return
	}
	if last.kind() == "exc" {
		fail("success-with-exception", "handler returned normally but the response ends with %s", last.canon())
		return
	}
	if info.Void {
		if last.kind() != "void" || len(last.Keys) != 0 {
			fail("void-result-not-empty", "void method answered %s", last.canon())
		}
		return
	}
	if last.Rows != 1 || last.Val != call.script.Out.Val {
		fail("result-value-mismatch", "result batch rows=%d value %s, want one row holding %s", last.Rows, last.Val, call.script.Out.Val)
	}
}

// c04Canon renders the response for comparison with the model. For a panicking handler the
// wording of the exception message is the framework's own (not part of C04), so the terminal
// exception batch is reduced to "does it report the panic value".
func c04Canon(st famStream, out famOutcome) string {
	parts := []string{famSchemaCanon(st.Schema)}
	for i, b := range st.Batches {
		if out.Kind == "panic" && i == len(st.Batches)-1 && b.kind() == "exc" {
			msg, _ := b.get(vgirpc.MetaLogMessage)
			rep := "0"
			if strings.Contains(msg, out.panicText()) {
				rep = "1"
			}
			parts = append(parts, fmt.Sprintf("exc panic-value-reported:%s %s", rep, b.rid()))
			continue
		}
		parts = append(parts, b.canon())
	}
	return strings.Join(parts, " ; ")
}
