package main

import (
	"bytes"
	"encoding/hex"
	"fmt"
	"io"
	"log"
	"net/http"
	"net/http/httptest"
	"net/url"
	"os"
	"strconv"
	"strings"
	"sync"
	"time"

	"github.com/Query-farm/vgi-rpc-go/vgirpc"
	"github.com/apache/arrow-go/v18/arrow/ipc"
)

// C03 — no client-supplied bytes can crash the server or abort an HTTP exchange.
//
// Every case sends ONE byte string to the real server: to Server.Serve as the whole client side of
// a pipe session, or as the body of one HTTP request to an httptest.Server around HttpServer.
// The server is the scripted one of harness/c02.go (handlers return values, errors, panic; n1
// takes an embedded ArrowSerializable payload).
//
//	pipe <pv on|off> <mut> <tag> {S <schema> {B <rows> <cells> <meta>}}
//	http <unary|init|exchange> <pathmethod x..> <ct> <enc> <pv on|off> <mut> <tag> body {S ...}
//	    a metadata value "@INIT:<method>" is replaced by a genuine continuation token obtained
//	    from a real POST /<method>/init on the same server (token replay / tokens moved between methods)
//
//	streams are written in the C02 script syntax and encoded with arrow-go; column type `payload`
//	is a binary column holding the embedded payload named by its cell (c02Payload).
//	<mut> as in C01: - | trunc:<permille> | flip:<permille>:<bit> | junk:<hex> | drop:<permille>:<n>
//	<ct>  = arrow | none | json | arrowparams        <enc> = - | identity | br
//
// Model line: unmutated -> the script's streams; mutated -> the streams an independent ipc.Reader
// walk finds in the bytes (hex syntax). The /exchange route is observed by the oracles only.

func init() {
	RegisterProbe("c03", func(data []byte) byte {
		// the independent walk, then the serve loop itself (a nested IPC blob - embedded payload,
		// wrapped request column - with a corrupted length prefix makes the binder allocate
		// gigabytes: slow, not a crash; such inputs are skipped by the parent)
		t0 := time.Now()
		_, _ = c01Parse(data)
		func() {
			defer func() { _ = recover() }() // a panic is classified by the parent's own run
			c02Server(false).Serve(bytes.NewReader(data), io.Discard)
		}()
		if time.Since(t0) > 400*time.Millisecond {
			return 's'
		}
		return 'k'
	})
	defer probeEnter()
	Register(&Prop{
		ID: "C03",
		Rule: "one byte string per case, to Server.Serve (pipe) or as an HTTP body to /{m}, /{m}/init, /{m}/exchange: " +
			"valid calls of every category of C02 plus structurally valid requests with unexpected shapes (metadata keys " +
			"added/removed, rows 0/1/2/5, foreign schemas, embedded payloads with a different inner type / no row / garbage, " +
			"zero-row pointer batches with/without location and shm keys, cancel and token keys on requests, tokens replayed on " +
			"another method), stray streams, and byte-level truncations / bit flips / dropped ranges / junk of all of these; " +
			"HTTP content types and encodings varied. non-trivial = every case; distinct = distinct scripts",
		Gen:  c03Gen,
		Exec: c03Exec,
	})
}

// ---------------------------------------------------------------- HTTP fixture

type c03LogBuf struct {
	mu  sync.Mutex
	buf bytes.Buffer
}

func (l *c03LogBuf) Write(p []byte) (int, error) {
	l.mu.Lock()
	defer l.mu.Unlock()
	return l.buf.Write(p)
}

func (l *c03LogBuf) take() string {
	l.mu.Lock()
	defer l.mu.Unlock()
	s := l.buf.String()
	l.buf.Reset()
	return s
}

type c03HTTP struct {
	ts  *httptest.Server
	log *c03LogBuf
}

var c03HTTPs = map[bool]*c03HTTP{}

func c03HTTPFor(pvOn bool) *c03HTTP {
	if h, ok := c03HTTPs[pvOn]; ok {
		return h
	}
	srv := c02NewServer(pvOn)
	hs := vgirpc.NewHttpServer(srv)
	lb := &c03LogBuf{}
	ts := httptest.NewUnstartedServer(hs)
	ts.Config.ErrorLog = log.New(lb, "", 0)
	ts.Start()
	h := &c03HTTP{ts: ts, log: lb}
	c03HTTPs[pvOn] = h
	return h
}

var c03Client = &http.Client{Timeout: 30 * time.Second}

const c03Arrow = "application/vnd.apache.arrow.stream"

// ---------------------------------------------------------------- helpers

func c03Encode(words []string) ([]byte, bool) {
	streams, ok := c02ParseStreams(words)
	if !ok {
		return nil, false
	}
	var buf bytes.Buffer
	for _, st := range streams {
		if err := c02Encode(&buf, st); err != nil {
			return nil, false
		}
	}
	return buf.Bytes(), true
}

// c03CompleteStreams: the output of a pipe session must be a sequence of COMPLETE IPC streams
// (each opens and reads to its end without error).
func c03CompleteStreams(data []byte) (n int, ok bool) {
	r := bytes.NewReader(data)
	for r.Len() > 0 {
		rd, err := ipc.NewReader(r)
		if err != nil {
			return n, false
		}
		for rd.Next() {
		}
		bad := rd.Err() != nil
		rd.Release()
		if bad {
			return n, false
		}
		n++
	}
	return n, true
}

// c03Screen replays malformed bytes in the screening child first (see c01_probe.go).
func c03Screen(c *Case, l string, data []byte) bool {
	if n := ipcLargestDeclaredLength(data); n > 32<<20 && n < 3<<30 {
		c.Stat("skipped:huge-declared-length")
		return false
	}
	ok, note := ProbeSurvives("c03", data)
	if !ok {
		c.Stat("process-killed")
		c.Oracle("process-killed-by-malformed-ipc", fmt.Sprintf("%q (%d bytes, hex %s): reading it kills the process: %s",
			l, len(data), hex.EncodeToString(data[:min(len(data), 160)]), note))
		return false
	}
	if note == "s" {
		c.Stat("skipped:gigabyte-allocation")
		return false
	}
	return true
}

func c03Announce(c *Case, done *bool, pvOn bool) {
	if *done {
		return
	}
	*done = true
	for _, m := range vgirpc.VerifC02Methods(c02Server(pvOn)) {
		in := "none"
		if m.InputSchema != nil {
			in = c02SchemaText(m.InputSchema)
		}
		b := func(x bool) string {
			if x {
				return "1"
			}
			return "0"
		}
		c.Out(fmt.Sprintf("method %s %s %s %s %s %s", c02Hex(m.Name), m.Kind, c02SchemaText(m.ParamsSchema),
			b(m.HasResult), b(m.HasHeader), in), "ok")
	}
}

func c03Exec(c *Case) {
	announced := false
	if p := os.Getenv("C03_TRACE"); p != "" { // debugging aid: the case being run survives a process death
		_ = os.WriteFile(p, []byte(strings.Join(c.Lines, "\n")+"\n"), 0o644)
	}
	for _, l := range c.Lines {
		f := strings.Fields(l)
		switch {
		case len(f) >= 5 && f[0] == "pipe" && (f[1] == "on" || f[1] == "off"):
			pvOn := f[1] == "on"
			mut, tag := f[2], f[3]
			data, ok := c03Encode(f[4:])
			if !ok {
				c.Out(l, "err:bad-op")
				continue
			}
			data, ok = c01Mutate(data, mut)
			if !ok {
				c.Out(l, "err:bad-op")
				continue
			}
			c.Stat("pipe:" + tag)
			model := "pipe " + f[1] + " " + strings.ReplaceAll(strings.Join(f[4:], " "), ":payload:", ":binary:")
			if mut != "-" {
				c.Stat("mut:" + strings.Split(mut, ":")[0])
				if !c03Screen(c, l, data) {
					continue
				}
				walked, wok, afterJunk := c01ParseRemain(data)
				if !wok || strings.Contains(l, ":payload:") {
					model = "" // an embedded payload is opaque to the walk: oracles only
				} else if afterJunk > 0 {
					// the serve loop keeps reading after a stream that does not open; where the
					// failed reader left the position is not determined by the abstract body
					c.Stat("skipped:junk-mid-session")
					model = ""
				} else if strings.Contains(walked, " SX ") {
					// what the serve loop finds after a stream that broke mid-way is not
					// determined by the abstract body: oracles only
					c.Stat("skipped:broken-stream-on-pipe")
					model = ""
				} else {
					model = "pipex " + f[1] + strings.TrimPrefix(walked, "body")
				}
			}
			c03Announce(c, &announced, pvOn)
			// run the whole session; Serve must return, without a panic, having written only
			// complete streams
			type res struct {
				out      []byte
				panicked string
			}
			done := make(chan res, 1)
			go func() {
				var out bytes.Buffer
				r := res{}
				func() {
					defer func() {
						if p := recover(); p != nil {
							r.panicked = fmt.Sprint(p)
						}
					}()
					c02Server(pvOn).Serve(bytes.NewReader(data), &out)
				}()
				r.out = out.Bytes()
				done <- r
			}()
			var r res
			select {
			case r = <-done:
			case <-time.After(90 * time.Second):
				c.Oracle("serve-hang-"+tag, fmt.Sprintf("%q: Serve did not return on a finite input", l))
				continue
			}
			if r.panicked != "" {
				c.Oracle("panic-escaped-serve-"+tag, fmt.Sprintf("%q: %s", l, r.panicked))
			}
			if _, complete := c03CompleteStreams(r.out); !complete {
				c.Oracle("pipe-output-not-complete-streams-"+tag, fmt.Sprintf("%q: output %x", l, r.out[:min(len(r.out), 200)]))
			}
			if model != "" && r.panicked == "" {
				c.Out(model, c02Render(c02Decode(r.out)))
			}
		case len(f) >= 9 && f[0] == "http" && f[8] == "body":
			route, ct, enc := f[1], f[3], f[4]
			pm, ok1 := UnX(f[2])
			pvOn := f[5] == "on"
			mut, tag := f[6], f[7]
			words := c03SubstTokens(f[9:], pvOn)
			data, ok2 := c03Encode(words)
			if len(words) == 0 {
				data, ok2 = nil, true
			}
			if !ok1 || !ok2 || (route != "unary" && route != "init" && route != "exchange") {
				c.Out(l, "err:bad-op")
				continue
			}
			data, ok := c01Mutate(data, mut)
			if !ok {
				c.Out(l, "err:bad-op")
				continue
			}
			c.Stat("http:" + route + ":" + tag)
			ctOk, encOk := "0", "1"
			if ct == "arrow" {
				ctOk = "1"
			}
			if enc == "br" {
				encOk = "0"
			}
			model := fmt.Sprintf("http %s %s %s %s %s body %s", route, f[2], ctOk, encOk, f[5],
				strings.ReplaceAll(strings.Join(words, " "), ":payload:", ":binary:"))
			if mut != "-" {
				c.Stat("mut:" + strings.Split(mut, ":")[0])
				if !c03Screen(c, l, data) {
					continue
				}
				walked, wok := c01Parse(data)
				if !wok || strings.Contains(l, ":payload:") {
					model = ""
				} else {
					model = fmt.Sprintf("httpx %s %s %s %s %s body%s", route, f[2], ctOk, encOk, f[5], strings.TrimPrefix(walked, "body"))
				}
			}
			if route == "exchange" {
				model = ""
			}
			c03Announce(c, &announced, pvOn)
			h := c03HTTPFor(pvOn)
			path := "/" + url.PathEscape(string(pm))
			if route != "unary" {
				path += "/" + route
			}
			req, err := http.NewRequest("POST", h.ts.URL+path, bytes.NewReader(data))
			if err != nil {
				c.Out(l, "err:bad-op")
				continue
			}
			switch ct {
			case "arrow":
				req.Header.Set("Content-Type", c03Arrow)
			case "json":
				req.Header.Set("Content-Type", "application/json")
			case "arrowparams":
				req.Header.Set("Content-Type", c03Arrow+"; charset=utf-8")
			}
			if enc != "-" {
				req.Header.Set("Content-Encoding", enc)
			}
			h.log.take()
			resp, err := c03Client.Do(req)
			if err != nil {
				c.Oracle("http-no-response-"+tag, fmt.Sprintf("%q: the exchange was aborted: %v; server log: %s", l, err, h.log.take()))
				continue
			}
			body, rerr := io.ReadAll(resp.Body)
			resp.Body.Close()
			if rerr != nil {
				c.Oracle("http-incomplete-response-"+tag, fmt.Sprintf("%q: status %d, body read failed: %v", l, resp.StatusCode, rerr))
			}
			if lg := h.log.take(); strings.Contains(lg, "panic") {
				c.Oracle("http-panic-logged-"+tag, fmt.Sprintf("%q: %s", l, lg[:min(len(lg), 400)]))
			}
			switch resp.StatusCode {
			case 200, 400, 404, 415:
			default:
				c.Oracle("http-status-outside-set", fmt.Sprintf("%q: status %d", l, resp.StatusCode))
			}
			if resp.Header.Get("Content-Type") == c03Arrow {
				if _, complete := c03CompleteStreams(body); !complete {
					c.Oracle("http-body-not-complete-streams-"+tag, fmt.Sprintf("%q: status %d body %x", l, resp.StatusCode, body[:min(len(body), 200)]))
				}
			}
			obs := fmt.Sprint(resp.StatusCode)
			if resp.StatusCode == 200 {
				if route == "init" {
					obs = "dispatched"
				} else if resp.Header.Get("X-VGI-RPC-Error") != "" {
					obs = "200err"
				}
			}
			c.Stat("status:" + obs)
			if model != "" {
				c.Out(model, obs)
			}
		case len(f) >= 1 && f[0] == "hx":
			c03ExecWide(c, l, f)
		case len(f) == 2 && f[0] == "fresh":
			c03Fresh(f[1])
		case len(f) == 2 && f[0] == "clock":
			if d, err := strconv.ParseInt(f[1], 10, 64); err == nil {
				c03Clock += d
			} else {
				c.Out(l, "err:bad-op")
			}
		default:
			c.Out(l, "err:bad-op")
		}
	}
}

// c03SubstTokens replaces metadata values "@INIT:<method>" (hex) by a genuine state token minted
// by a real /<method>/init call.
func c03SubstTokens(words []string, pvOn bool) []string {
	marker := hex.EncodeToString([]byte("@INIT:"))
	out := append([]string{}, words...)
	for i, w := range out {
		if !strings.Contains(w, "="+marker) {
			continue
		}
		kvs := strings.Split(w, ",")
		for j, kv := range kvs {
			p := strings.SplitN(kv, "=", 2)
			if len(p) == 2 && strings.HasPrefix(p[1], marker) {
				m, _ := hex.DecodeString(p[1][len(marker):])
				kvs[j] = p[0] + "=" + hex.EncodeToString(c03RealToken(string(m), pvOn))
			}
		}
		out[i] = strings.Join(kvs, ",")
	}
	return out
}

var c03Tokens = map[string][]byte{}

func c03RealToken(method string, pvOn bool) []byte {
	key := fmt.Sprintf("%s/%v", method, pvOn)
	if t, ok := c03Tokens[key]; ok {
		return t
	}
	h := c03HTTPFor(pvOn)
	meta := [][2]string{{"vgi_rpc.method", method}, {"vgi_rpc.request_version", "1"}, {"vgi_rpc.protocol_version", "1.2.0"}}
	cols := c02P3f
	cells := []int64{20, 2, 99}
	if method == "xh1" {
		cols, cells = c02P1f, []int64{0}
	}
	var buf bytes.Buffer
	_ = c02Encode(&buf, c02Stream{schema: cols, batches: []c02Batch{{rows: 1, cells: cells, meta: meta}}})
	req, _ := http.NewRequest("POST", h.ts.URL+"/"+method+"/init", &buf)
	req.Header.Set("Content-Type", c03Arrow)
	tok := []byte("no-token")
	if resp, err := c03Client.Do(req); err == nil {
		body, _ := io.ReadAll(resp.Body)
		resp.Body.Close()
		if t := vgirpc.FindStateToken(body); t != nil {
			tok = t
		}
	}
	c03Tokens[key] = tok
	return tok
}
