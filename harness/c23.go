package main

import (
	"context"
	"errors"
	"fmt"
	"io"
	"log/slog"
	"net/http"
	"net/http/httptest"
	"strconv"
	"strings"

	"github.com/Query-farm/vgi-rpc-go/vgirpc"
)

// C23 — authenticator failures map to the right status and chains stop correctly.
//
// Error values are written in prefix notation, one token per node (byte strings x<hex>):
//
//	U<n>                 &vgirpc.AuthUnavailableError{RetryAfter: n}
//	F:<reason>:<detail>  &vgirpc.AuthFailure{Reason, Detail}
//	R:<type>:<msg>       &vgirpc.RpcError{Type, Message}
//	O | Oe | Oi | Od     errors.New / a struct embedding *AuthFailure / a type with an Is method / context.DeadlineExceeded
//	W <e> | Wc <e>       fmt.Errorf("ctx: %w", e) / a custom type with Unwrap() error
//	J<k> | Jf<k> | Jc<k> followed by k values: errors.Join / fmt.Errorf with k %w verbs / a custom type with Unwrap() []error
//
// Ops:
//
//	auth <www> <e>                  HttpServer with SetAuthenticate(returns e), configured WWW-Authenticate <www>,
//	                                POST /m through ServeHTTP -> status=503 retry=<n> | status=401 reason=<x> cache=<x> www=<x|-> | status=500 | pass
//	authc <www> <e>                 same, but the authenticator returns a NON-NIL context together with the error
//	chain <www> <o1> / <o2> / …     ChainAuthenticate(o1…) (oi = OK | <e> | C <e>; C = non-nil context AND error): called directly (trace, identity of what it returns),
//	                                then installed on the server -> calls=<k> ret=ok:<i>|err:<i>|exhausted <response|pass>
//
// The model sees the variant tags normalised (Oe/Oi/Od -> O, Wc -> W, Jf/Jc -> J): it claims they are indistinguishable.

func init() {
	slog.SetDefault(slog.New(slog.NewTextHandler(io.Discard, nil)))
	Register(&Prop{
		ID: "C23",
		Rule: "random error trees (depth <= 6, plus wrap towers of depth 0..9/16/33/100 over every error kind, also below a join; every AuthReason constant, empty and out-of-set reasons; RpcError types incl. near-misses; " +
			"RetryAfter <=0/small/huge; fmt/%w, errors.Join, multi-%w and custom Unwrap wrappers; empty joins) through the real ServeHTTP; " +
			"authenticators and chain links returning (nil, err), (ctx, nil) and (non-nil ctx, err); chains of 1..7 authenticators with arbitrary outcomes called directly (trace + identity) and over HTTP; thorough adds every tree of " +
			"depth <= 2 over a 9-leaf alphabet and every chain of length <= 4 over 8 outcomes. non-trivial = has at least one auth/chain line whose " +
			"error value contains a wrapper or a chain of >= 2 authenticators; distinct = distinct scripts",
		Gen:  c23Gen,
		Exec: c23Exec,
		NonTrivial: func(lines []string) bool {
			for _, l := range lines {
				if strings.Contains(l, " W") || strings.Contains(l, " J") || strings.Contains(l, " / ") {
					return true
				}
			}
			return false
		},
	})
}

// ---------------------------------------------------------------- error values

type c23Wrap struct{ inner error }

func (e *c23Wrap) Error() string { return "custom wrap: " + e.inner.Error() }
func (e *c23Wrap) Unwrap() error { return e.inner }

type c23Multi struct{ errs []error }

func (e *c23Multi) Error() string   { return fmt.Sprintf("custom multi of %d", len(e.errs)) }
func (e *c23Multi) Unwrap() []error { return e.errs }

type c23Embed struct{ *vgirpc.AuthFailure } // promoted Error(); NOT an *AuthFailure and no Unwrap

type c23IsAll struct{}

func (c23IsAll) Error() string        { return "matches everything by Is" }
func (c23IsAll) Is(target error) bool { return true }

// c23Parse builds the Go error for a prefix-notation token list; returns the rest.
func c23Parse(toks []string) (error, []string, bool) {
	if len(toks) == 0 {
		return nil, nil, false
	}
	t, rest := toks[0], toks[1:]
	switch {
	case t == "O":
		return errors.New("boom"), rest, true
	case t == "Oe":
		return &c23Embed{vgirpc.NewAuthFailure(vgirpc.AuthReasonExpiredCredential, "embedded")}, rest, true
	case t == "Oi":
		return &c23IsAll{}, rest, true
	case t == "Od":
		return context.DeadlineExceeded, rest, true
	case t == "W" || t == "Wc":
		in, r2, ok := c23Parse(rest)
		if !ok {
			return nil, nil, false
		}
		if t == "W" {
			return fmt.Errorf("ctx: %w", in), r2, true
		}
		return &c23Wrap{in}, r2, true
	case strings.HasPrefix(t, "U"):
		n, err := strconv.Atoi(t[1:])
		if err != nil {
			return nil, nil, false
		}
		return &vgirpc.AuthUnavailableError{Detail: "introspection endpoint timed out", RetryAfter: n}, rest, true
	case strings.HasPrefix(t, "F:") || strings.HasPrefix(t, "R:"):
		p := strings.Split(t[2:], ":")
		if len(p) != 2 {
			return nil, nil, false
		}
		a, ok1 := UnX(p[0])
		b, ok2 := UnX(p[1])
		if !ok1 || !ok2 {
			return nil, nil, false
		}
		if t[0] == 'F' {
			return &vgirpc.AuthFailure{Reason: vgirpc.AuthReason(a), Detail: string(b)}, rest, true
		}
		return &vgirpc.RpcError{Type: string(a), Message: string(b)}, rest, true
	case strings.HasPrefix(t, "J"):
		kind := "J"
		num := t[1:]
		if strings.HasPrefix(num, "f") || strings.HasPrefix(num, "c") {
			kind, num = "J"+num[:1], num[1:]
		}
		k, err := strconv.Atoi(num)
		if err != nil || k < 0 {
			return nil, nil, false
		}
		var es []error
		for i := 0; i < k; i++ {
			e, r2, ok := c23Parse(rest)
			if !ok {
				return nil, nil, false
			}
			es, rest = append(es, e), r2
		}
		switch {
		case kind == "J" && k >= 1:
			return errors.Join(es...), rest, true
		case kind == "Jf" && k >= 2:
			args := make([]any, k)
			for i, e := range es {
				args[i] = e
			}
			return fmt.Errorf("multi:"+strings.Repeat(" %w", k), args...), rest, true
		default:
			return &c23Multi{es}, rest, true
		}
	}
	return nil, nil, false
}

// c23Normalise maps the implementation-variant tags onto the model's constructors.
func c23Normalise(toks []string) []string {
	out := make([]string, len(toks))
	for i, t := range toks {
		switch {
		case t == "Oe" || t == "Oi" || t == "Od":
			t = "O"
		case t == "Wc":
			t = "W"
		case strings.HasPrefix(t, "Jf") || strings.HasPrefix(t, "Jc"):
			t = "J" + t[2:]
		}
		out[i] = t
	}
	return out
}

// ---------------------------------------------------------------- generator

var c23Reasons = []string{"missing_credential", "invalid_credential", "expired_credential", "insufficient_scope", "proxy_required", "unauthorized",
	"", "", "custom_reason", "Unauthorized", "invalid_credential ", "x"}
var c23Types = []string{"ValueError", "ValueError", "PermissionError", "PermissionError", "RuntimeError", "TypeError", "", "valueerror", "ValueError ",
	"PermissionDenied", "AuthUnavailableError", "KeyError"}
var c23Retry = []int{0, 0, -1, 1, 5, 7, 30, 3600, 2147483647, -2147483648}
var c23WWW = []string{"", "", `Bearer resource_metadata="https://api.example.com/.well-known/oauth-protected-resource/vgi"`, "Bearer", `Bearer realm="x", client_id="abc"`, "x"}

func c23Leaf(r *Rng) string {
	switch x := r.Intn(100); {
	case x < 22:
		return "U" + strconv.Itoa(Pick(r, c23Retry))
	case x < 50:
		return "F:" + XS(Pick(r, c23Reasons)) + ":" + XS(Pick(r, []string{"", "token expired", "no header", "détail"}))
	case x < 80:
		return "R:" + XS(Pick(r, c23Types)) + ":" + XS(Pick(r, []string{"", "Missing Authorization header", "Unknown bearer token", "scope"}))
	default:
		return Pick(r, []string{"O", "O", "Oe", "Oi", "Od"})
	}
}

func c23Tree(r *Rng, depth int) []string {
	if depth <= 0 || r.Chance(30) {
		return []string{c23Leaf(r)}
	}
	if r.Chance(60) {
		return append([]string{Pick(r, []string{"W", "W", "Wc"})}, c23Tree(r, depth-1)...)
	}
	kind := Pick(r, []string{"J", "J", "Jf", "Jc"})
	k := Pick(r, []int{1, 2, 2, 3, 4})
	if kind == "Jf" && k < 2 {
		k = 2
	}
	if kind == "Jc" && r.Chance(15) {
		k = 0
	}
	out := []string{kind + strconv.Itoa(k)}
	for i := 0; i < k; i++ {
		out = append(out, c23Tree(r, depth-1)...)
	}
	return out
}

var c23Depths = []int{0, 1, 2, 3, 4, 5, 6, 7, 8, 9, 16, 33, 100}

// c23Tower: a leaf of any kind under d single-Unwrap wrappers (fmt and custom mixed), optionally
// with a join inserted somewhere in the tower (an AuthUnavailableError must still be found below it,
// an AuthFailure must not).
func c23Tower(r *Rng, d int) []string {
	var out []string
	joinAt := -1
	if r.Chance(30) {
		joinAt = r.Intn(d + 1)
	}
	for i := 0; i <= d; i++ {
		if i == joinAt {
			switch r.Intn(3) {
			case 0:
				out = append(out, "J1")
			case 1:
				out = append(out, "J2", "O")
			default:
				out = append(out, "Jc3", "O", Pick(r, []string{"O", "R:" + XS("ValueError") + ":x"}))
				// third element is the rest of the tower: found last in depth-first order
			}
		}
		if i < d {
			out = append(out, Pick(r, []string{"W", "W", "Wc"}))
		}
	}
	return append(out, c23Leaf(r))
}

func c23Gen(g *Gen) {
	r := g.Rng
	// wrap towers: every depth of the list, several leaves each
	for rep, n := 0, g.N(4, 40); rep < n; rep++ {
		for _, d := range c23Depths {
			www := XS(Pick(r, c23WWW))
			lines := []string{
				Pick(r, []string{"auth", "auth", "authc"}) + " " + www + " " + strings.Join(c23Tower(r, d), " "),
				"auth " + www + " " + strings.Repeat("W ", d) + "F:" + XS(Pick(r, c23Reasons)) + ":x",
				"auth " + www + " " + strings.Repeat("Wc ", d) + "U" + strconv.Itoa(Pick(r, c23Retry)),
				"auth " + www + " " + strings.Repeat("W ", d) + "R:" + XS(Pick(r, c23Types)) + ":x",
				"chain " + www + " R:" + XS("ValueError") + ":x / " + Pick(r, []string{"", "C "}) + strings.Join(c23Tower(r, d), " ") + " / OK",
			}
			g.Case(lines...)
		}
	}
	for i, n := 0, g.N(500, 12000); i < n; i++ {
		var lines []string
		for k, m := 0, r.Range(1, 6); k < m; k++ {
			www := XS(Pick(r, c23WWW))
			if r.Chance(55) {
				lines = append(lines, Pick(r, []string{"auth", "auth", "auth", "authc"})+" "+www+" "+strings.Join(c23Tree(r, r.Range(0, 6)), " "))
				continue
			}
			var outs []string
			for a, na := 0, r.Range(1, 7); a < na; a++ {
				switch x := r.Intn(100); {
				case x < 15:
					outs = append(outs, "OK")
				case x < 60: // the fall-through case: a directly returned ValueError
					outs = append(outs, "R:"+XS("ValueError")+":"+XS(Pick(r, []string{"Missing Authorization header", "Unknown bearer token", ""})))
				case x < 70: // `return ctx, err`: a non-nil context together with an error of any kind
					outs = append(outs, "C "+Pick(r, []string{"R:" + XS("ValueError") + ":x", "R:" + XS("PermissionError") + ":x", "W U7", "U0",
						"F:" + XS("expired_credential") + ":x", "O", strings.Join(c23Tree(r, 2), " ")}))
				default:
					outs = append(outs, strings.Join(c23Tree(r, r.Range(0, 3)), " "))
				}
			}
			lines = append(lines, "chain "+www+" "+strings.Join(outs, " / "))
		}
		g.Case(lines...)
	}
	if g.Thorough() {
		// every tree of depth <= 2 (unary wrappers, binary joins) over a leaf alphabet
		leaves := []string{"U0", "U9", "F:" + XS("expired_credential") + ":x", "F:x:x", "R:" + XS("ValueError") + ":x", "R:" + XS("PermissionError") + ":x",
			"R:" + XS("RuntimeError") + ":x", "O", "Oe"}
		level := [][]string{}
		for _, l := range leaves {
			level = append(level, []string{l})
		}
		all := append([][]string{}, level...)
		for d := 0; d < 2; d++ {
			var next [][]string
			for _, t := range level {
				next = append(next, append([]string{"W"}, t...), append([]string{"Wc"}, t...), append([]string{"J1"}, t...))
			}
			if d == 0 {
				for _, a := range level {
					for _, b := range level {
						next = append(next, append(append([]string{"J2"}, a...), b...))
					}
				}
			}
			all = append(all, next...)
			level = next
		}
		for i := 0; i < len(all); i += 8 {
			var lines []string
			for _, t := range all[i:min(i+8, len(all))] {
				lines = append(lines, "auth "+XS("Bearer")+" "+strings.Join(t, " "))
			}
			g.Case(lines...)
		}
		// every chain of length <= 4 over 8 outcomes
		outs := []string{"OK", "R:" + XS("ValueError") + ":x", "R:" + XS("PermissionError") + ":x", "W R:" + XS("ValueError") + ":x", "W U3", "O",
			"C R:" + XS("ValueError") + ":x", "C W U3"}
		var rec func(prefix []string, depth int)
		var batch []string
		rec = func(prefix []string, depth int) {
			if depth == 0 {
				batch = append(batch, "chain x "+strings.Join(prefix, " / "))
				if len(batch) == 12 {
					g.Case(batch...)
					batch = nil
				}
				return
			}
			for _, o := range outs {
				rec(append(append([]string{}, prefix...), o), depth-1)
			}
		}
		for d := 1; d <= 4; d++ {
			rec(nil, d)
		}
		if len(batch) > 0 {
			g.Case(batch...)
		}
	}
}

// ---------------------------------------------------------------- exec

var c23Closed = map[string]bool{"missing_credential": true, "invalid_credential": true, "expired_credential": true,
	"insufficient_scope": true, "proxy_required": true, "unauthorized": true}

// c23Observe renders the part of a response the property speaks about.
func c23Observe(rec *httptest.ResponseRecorder) string {
	h := rec.Header()
	switch rec.Code {
	case http.StatusServiceUnavailable:
		return "status=503 retry=" + h.Get("Retry-After")
	case http.StatusUnauthorized:
		www := "-"
		if v, ok := h["Www-Authenticate"]; ok {
			www = XS(strings.Join(v, "\x00"))
		}
		return fmt.Sprintf("status=401 reason=%s cache=%s www=%s", XS(strings.Join(h.Values(vgirpc.HeaderAuthReason), "\x00")), XS(strings.Join(h.Values("Cache-Control"), "\x00")), www)
	case http.StatusInternalServerError:
		return "status=500"
	case http.StatusUnsupportedMediaType: // the handler ran past authenticate and rejected our body-less POST
		return "pass"
	}
	return fmt.Sprintf("status=%d", rec.Code)
}

// c23Oracle states the first sentence of the property on the real response, using the standard
// library's own errors.As / errors.Unwrap for "anywhere in the error chain" / "in the Unwrap chain".
func c23Oracle(c *Case, line string, err error, www string, rec *httptest.ResponseRecorder) {
	h := rec.Header()
	var un *vgirpc.AuthUnavailableError
	if errors.As(err, &un) {
		c.Stat("expect-503")
		want := un.RetryAfter
		if want <= 0 {
			want = 5
		}
		if rec.Code != http.StatusServiceUnavailable {
			c.Oracle("unavailable-not-503", fmt.Sprintf("%q: an AuthUnavailableError is in the chain but the status is %d", line, rec.Code))
		} else if h.Get("Retry-After") != strconv.Itoa(want) {
			c.Oracle("retry-after-wrong", fmt.Sprintf("%q: Retry-After %q, the error says %d", line, h.Get("Retry-After"), want))
		}
		return
	}
	var failure *vgirpc.AuthFailure
	for e := err; e != nil; e = errors.Unwrap(e) {
		if f, ok := e.(*vgirpc.AuthFailure); ok {
			failure = f
			break
		}
	}
	rpc, isRpc := err.(*vgirpc.RpcError)
	if failure != nil || (isRpc && (rpc.Type == "ValueError" || rpc.Type == "PermissionError")) {
		c.Stat("expect-401")
		if rec.Code != http.StatusUnauthorized {
			c.Oracle("rejection-not-401", fmt.Sprintf("%q: a rejection was answered with status %d", line, rec.Code))
			return
		}
		want := "unauthorized"
		if failure != nil {
			if failure.Reason != "" {
				want = string(failure.Reason)
			}
		} else if rpc.Type == "PermissionError" {
			want = "insufficient_scope"
		}
		got := h.Get(vgirpc.HeaderAuthReason)
		if got != want {
			c.Oracle("reason-wrong", fmt.Sprintf("%q: VGI-Auth-Reason %q, want %q", line, got, want))
		}
		if c23Closed[want] && !c23Closed[got] {
			c.Oracle("reason-outside-closed-set", fmt.Sprintf("%q: VGI-Auth-Reason %q is not one of the six codes", line, got))
		}
		if !c23Closed[want] {
			c.Stat("out-of-set-reason-echoed(boundary)")
		}
		if h.Get("Cache-Control") != "no-store" {
			c.Oracle("401-without-no-store", fmt.Sprintf("%q: Cache-Control %q", line, h.Get("Cache-Control")))
		}
		if _, has := h["Www-Authenticate"]; h.Get("WWW-Authenticate") != www || has != (www != "") {
			c.Oracle("www-authenticate-wrong", fmt.Sprintf("%q: WWW-Authenticate %q, configured %q", line, h.Get("WWW-Authenticate"), www))
		}
		return
	}
	c.Stat("expect-500")
	if rec.Code != http.StatusInternalServerError {
		c.Oracle("other-error-not-500", fmt.Sprintf("%q: an unclassified authenticator error was answered with status %d", line, rec.Code))
	}
}

func c23Exec(c *Case) {
	srv := vgirpc.NewServer()
	h := vgirpc.NewHttpServer(srv)
	serve := func() *httptest.ResponseRecorder {
		rec := httptest.NewRecorder()
		h.ServeHTTP(rec, httptest.NewRequest("POST", "/m", nil))
		return rec
	}
	for _, l := range c.Lines {
		f := strings.Fields(l)
		if len(f) < 3 {
			c.Out(l, "err:bad-op")
			continue
		}
		wwwB, ok := UnX(f[1])
		if !ok {
			c.Out(l, "err:bad-op")
			continue
		}
		www := string(wwwB)
		h.VerifC23SetWWWAuthenticate(www)
		switch f[0] {
		case "auth", "authc":
			err, rest, ok := c23Parse(f[2:])
			if !ok || len(rest) != 0 {
				c.Out(l, "err:bad-op")
				continue
			}
			var ctx *vgirpc.AuthContext
			if f[0] == "authc" { // half-parsed identity handed back together with the error
				ctx = &vgirpc.AuthContext{Domain: "t", Authenticated: true, Principal: "half-parsed"}
			}
			h.SetAuthenticate(func(*http.Request) (*vgirpc.AuthContext, error) { return ctx, err })
			rec := serve()
			if rec.Code == http.StatusUnsupportedMediaType {
				c.Oracle("success-despite-error", fmt.Sprintf("%q: the authenticator returned an error but the request went on to the handler", l))
			}
			c23Oracle(c, l, err, www, rec)
			c.Stat(f[0])
			c.Out(f[0]+" "+f[1]+" "+strings.Join(c23Normalise(f[2:]), " "), c23Observe(rec))
		case "chain":
			var groups [][]string
			cur := []string{}
			for _, t := range f[2:] {
				if t == "/" {
					groups, cur = append(groups, cur), []string{}
				} else {
					cur = append(cur, t)
				}
			}
			groups = append(groups, cur)
			n := len(groups)
			errs := make([]error, n)
			ctxs := make([]*vgirpc.AuthContext, n)
			bad := false
			for i, gp := range groups {
				if len(gp) == 1 && gp[0] == "OK" {
					ctxs[i] = &vgirpc.AuthContext{Domain: "t", Authenticated: true, Principal: strconv.Itoa(i)}
					continue
				}
				if len(gp) > 1 && gp[0] == "C" { // (non-nil ctx, err)
					ctxs[i] = &vgirpc.AuthContext{Domain: "t", Authenticated: true, Principal: "half-parsed-" + strconv.Itoa(i)}
					gp = gp[1:]
					c.Stat("chain-link-ctx+err")
				}
				e, rest, ok := c23Parse(gp)
				if !ok || len(rest) != 0 {
					bad = true
					break
				}
				errs[i] = e
			}
			if bad {
				c.Out(l, "err:bad-op")
				continue
			}
			var trace []int
			fns := make([]vgirpc.AuthenticateFunc, n)
			for i := range fns {
				i := i
				fns[i] = func(*http.Request) (*vgirpc.AuthContext, error) {
					trace = append(trace, i)
					return ctxs[i], errs[i]
				}
			}
			chain := vgirpc.ChainAuthenticate(fns...)
			ctx, err := chain(httptest.NewRequest("POST", "/m", nil))
			// ---- second sentence of the property, stated directly
			wantStop, wantOK := n, false // index at which the chain must stop (n = exhausted)
			for i := 0; i < n; i++ {
				if errs[i] == nil {
					wantStop, wantOK = i, true
					break
				}
				if rpc, ok := errs[i].(*vgirpc.RpcError); ok && rpc.Type == "ValueError" {
					continue
				}
				wantStop = i
				break
			}
			wantCalls := wantStop + 1
			if wantStop == n {
				wantCalls = n
			}
			inOrder := len(trace) == wantCalls
			for k, i := range trace {
				if i != k {
					inOrder = false
				}
			}
			if !inOrder {
				cls := "chain-called-after-stop"
				if len(trace) < wantCalls {
					cls = "chain-stopped-early"
				}
				c.Oracle(cls, fmt.Sprintf("%q: authenticators called %v, expected exactly 0..%d in order", l, trace, wantCalls-1))
			}
			ret := "other"
			switch {
			case err == nil && ctx != nil:
				for i := range ctxs {
					if ctxs[i] == ctx {
						ret = "ok:" + strconv.Itoa(i)
					}
				}
			case err != nil:
				ret = "exhausted?"
				for i := range errs { // first match: two authenticators may return the same singleton (context.DeadlineExceeded)
					if errs[i] != nil && errs[i] == err {
						ret = "err:" + strconv.Itoa(i)
						break
					}
				}
				if ret == "exhausted?" {
					if rpc, ok := err.(*vgirpc.RpcError); ok && rpc.Type == "ValueError" {
						ret = "exhausted"
					}
				}
			}
			want := "exhausted"
			if wantStop < n {
				want = map[bool]string{true: "ok:", false: "err:"}[wantOK] + strconv.Itoa(wantStop)
			}
			if err == nil && !wantOK {
				c.Oracle("chain-returned-success-despite-error", fmt.Sprintf("%q: the chain returned success (%s) although the link it had to stop at returned an error", l, ret))
			}
			if ret != want {
				c.Oracle("chain-wrong-result", fmt.Sprintf("%q: chain returned %s, expected %s", l, ret, want))
			}
			c.Stat("chain-" + strings.SplitN(want, ":", 2)[0])
			calls := len(trace)
			// ---- the same chain behind the server
			h.SetAuthenticate(chain)
			rec := serve()
			if err != nil {
				c23Oracle(c, l, err, www, rec)
			} else if rec.Code != http.StatusUnsupportedMediaType {
				c.Oracle("chain-success-not-passed", fmt.Sprintf("%q: the chain succeeded but the request was answered with %d", l, rec.Code))
			}
			var norm []string
			for i, gp := range groups {
				if i > 0 {
					norm = append(norm, "/")
				}
				norm = append(norm, c23Normalise(gp)...)
			}
			c.Out("chain "+f[1]+" "+strings.Join(norm, " "), fmt.Sprintf("calls=%d ret=%s %s", calls, ret, c23Observe(rec)))
		default:
			c.Out(l, "err:bad-op")
		}
	}
}
