package main

// C08: a small static family of hand-written NAMED string types that carry methods (types built
// with reflect.StructOf cannot). They are usable as field types, list elements, map values and map
// keys through the tokens nsS nsL nsE nsT nsJ nsF; on the wire and for the model each is a plain
// string (its Kind is String) — whatever its methods print.

import (
	"fmt"
	"reflect"
)

// c08Secret redacts itself when printed.
type c08Secret string

func (c08Secret) String() string { return "***" }

// c08Label is an enum whose String() is a display label.
type c08Label string

func (l c08Label) String() string { return "Label(" + string(l) + ")" }

// c08ErrStr is an error.
type c08ErrStr string

func (e c08ErrStr) Error() string { return "error: " + string(e) }

// c08Text marshals as upper-case text.
type c08Text string

func (t c08Text) MarshalText() ([]byte, error) { return []byte("T:" + string(t)), nil }

// c08JSON marshals as a JSON object.
type c08JSON string

func (j c08JSON) MarshalJSON() ([]byte, error) { return []byte(`{"j":true}`), nil }

// c08Fmt formats itself.
type c08Fmt string

func (c08Fmt) Format(f fmt.State, verb rune) { fmt.Fprint(f, "<formatted>") }

// c08Code is a named integer with a String() method (schema lines only: toInt64 switches on
// the concrete built-in types and refuses every named integer type).
type c08Code int32

func (c c08Code) String() string { return fmt.Sprintf("Code#%d", int32(c)) }

var c08NamedStrings = map[string]reflect.Type{
	"nsS": reflect.TypeOf(c08Secret("")), "nsL": reflect.TypeOf(c08Label("")), "nsE": reflect.TypeOf(c08ErrStr("")),
	"nsT": reflect.TypeOf(c08Text("")), "nsJ": reflect.TypeOf(c08JSON("")), "nsF": reflect.TypeOf(c08Fmt("")),
}

var c08NamedStringKinds = []string{"nsS", "nsL", "nsE", "nsT", "nsJ", "nsF"}

func init() {
	for k, t := range c08NamedStrings {
		c08LeafKinds[k] = t
	}
	c08LeafKinds["niC"] = reflect.TypeOf(c08Code(0))
}

// c08Base maps a named kind to the built-in kind it behaves as.
func c08Base(k string) string {
	if _, ok := c08NamedStrings[k]; ok {
		return "str"
	}
	if k == "niC" {
		return "i32"
	}
	return k
}

func c08HasNamed(t *c08Ty) bool {
	if t == nil {
		return false
	}
	if c08Base(t.K) != t.K {
		return true
	}
	if c08HasNamed(t.Elem) || c08HasNamed(t.Key) {
		return true
	}
	for _, f := range t.Fields {
		if c08HasNamed(f.T) {
			return true
		}
	}
	return false
}
